import BufrModel.Lang.PathParser
import BufrModel.Spec.PathGrammar
namespace Bufr.PathLang
open Spec

/-- a character of a printed integer: `-` or a decimal digit -/
def isIntChar (c : Char) : Bool := c == '-' || isDigit c

theorem isDigit_bounds (c : Char) (h : isDigit c = true) : 48 ≤ c.toNat ∧ c.toNat ≤ 57 := by
  unfold isDigit at h
  rw [Bool.and_eq_true, decide_eq_true_eq, decide_eq_true_eq] at h
  obtain ⟨h1, h2⟩ := h
  rw [Char.le_def, UInt32.le_iff_toNat_le] at h1 h2
  exact ⟨h1, h2⟩

theorem isIntChar_bounds (c : Char) (h : isIntChar c = true) :
    c.toNat = 45 ∨ (48 ≤ c.toNat ∧ c.toNat ≤ 57) := by
  unfold isIntChar at h
  rw [Bool.or_eq_true] at h
  rcases h with h | h
  · left
    have : c = '-' := by simpa using h
    subst this; rfl
  · right; exact isDigit_bounds c h

theorem isIntChar_not_special (c : Char) (h : isIntChar c = true) : isSpecial c = false := by
  have hb := isIntChar_bounds c h
  cases hs : isSpecial c with
  | false => rfl
  | true =>
    exfalso
    simp [isSpecial] at hs
    rcases hs with ((((((hs | hs) | hs) | hs) | hs) | hs) | hs) <;> subst hs <;> revert hb <;> decide

theorem isIntChar_not_ws (c : Char) (h : isIntChar c = true) : isWs c = false := by
  have hb := isIntChar_bounds c h
  cases hs : isWs c with
  | false => rfl
  | true =>
    exfalso
    simp [isWs] at hs
    rcases hs with (((((hs | hs) | hs) | hs) | hs) | hs) <;> subst hs <;> revert hb <;> decide

theorem digit_cases (d : Nat) (h : d < 10) :
    d = 0 ∨ d = 1 ∨ d = 2 ∨ d = 3 ∨ d = 4 ∨ d = 5 ∨ d = 6 ∨ d = 7 ∨ d = 8 ∨ d = 9 := by omega

theorem isDigit_digitChar (d : Nat) (h : d < 10) : isDigit (digitChar d) = true := by
  rcases digit_cases d h with h | h | h | h | h | h | h | h | h | h <;> subst h <;> decide

theorem digitChar_val (d : Nat) (h : d < 10) : (digitChar d).toNat - '0'.toNat = d := by
  rcases digit_cases d h with h | h | h | h | h | h | h | h | h | h <;> subst h <;> decide

theorem natDigits_ne_nil (n : Nat) : natDigits n ≠ [] := by
  rw [natDigits]
  split <;> simp

theorem natDigits_all_digit (n : Nat) : ∀ c ∈ natDigits n, isDigit c = true := by
  induction n using Nat.strongRecOn with
  | _ n ih =>
    rw [natDigits]
    split
    · intro c hc
      rw [List.mem_singleton] at hc
      subst hc
      exact isDigit_digitChar n (by assumption)
    · intro c hc
      rw [List.mem_append, List.mem_singleton] at hc
      rcases hc with hc | hc
      · exact ih (n / 10) (by omega) c hc
      · subst hc
        exact isDigit_digitChar _ (by omega)

theorem digitsVal_append (a b : List Char) (acc : Nat) :
    digitsVal (a ++ b) acc = digitsVal b (digitsVal a acc) := by
  induction a generalizing acc with
  | nil => rfl
  | cons c cs ih => simp only [List.cons_append, digitsVal]; exact ih _

theorem digitsVal_natDigits (n : Nat) : digitsVal (natDigits n) 0 = n := by
  induction n using Nat.strongRecOn with
  | _ n ih =>
    rw [natDigits]
    split
    · simp only [digitsVal]
      rw [digitChar_val n (by assumption)]; omega
    · rw [digitsVal_append, ih (n / 10) (by omega)]
      simp only [digitsVal]
      rw [digitChar_val _ (by omega)]; omega

theorem intStr_ne_nil (i : Int) : intStr i ≠ [] := by
  unfold intStr
  split
  · simp
  · exact natDigits_ne_nil _

theorem intStr_chars (i : Int) : ∀ c ∈ intStr i, isIntChar c = true := by
  intro c hc
  unfold intStr at hc
  unfold isIntChar
  split at hc
  · rw [List.mem_cons] at hc
    rcases hc with hc | hc
    · subst hc; rfl
    · rw [natDigits_all_digit _ c hc]; simp
  · rw [natDigits_all_digit _ c hc]; simp

theorem natDigits_all (n : Nat) : (natDigits n).all isDigit = true := by
  rw [List.all_eq_true]
  exact natDigits_all_digit n

theorem parseInt?_of_head_ne (c : Char) (cs : List Char) (h : c ≠ '-') :
    parseInt? (c :: cs) =
      if (c :: cs) ≠ [] ∧ (c :: cs).all isDigit then some (Int.ofNat (digitsVal (c :: cs) 0)) else none := by
  unfold parseInt?
  split
  · rename_i ds heq
    injection heq with h1 h2
    exact absurd h1 h
  · rfl

theorem parseInt?_natDigits (n : Nat) : parseInt? (natDigits n) = some (Int.ofNat n) := by
  have hne := natDigits_ne_nil n
  have hall := natDigits_all n
  have hval := digitsVal_natDigits n
  have hd := natDigits_all_digit n
  cases hl : natDigits n with
  | nil => exact absurd hl hne
  | cons c cs =>
    rw [hl] at hall hval hd
    have hc : c ≠ '-' := by
      intro hc
      have := hd c (List.mem_cons_self)
      subst hc
      revert this; decide
    rw [parseInt?_of_head_ne c cs hc, hval, if_pos ⟨by simp, hall⟩]

theorem parseInt?_intStr (i : Int) : parseInt? (intStr i) = some i := by
  unfold intStr
  split
  · rename_i hneg
    unfold parseInt?
    simp only
    rw [if_pos ⟨natDigits_ne_nil _, natDigits_all _⟩, digitsVal_natDigits]
    congr 1
    show -((i.natAbs : Nat) : Int) = i
    omega
  · rw [parseInt?_natDigits]
    congr 1
    show ((i.toNat : Nat) : Int) = i
    omega

theorem optInt?_optIntStr (a : Option Int) : optInt? (optIntStr a) = some a := by
  cases a with
  | none => simp [optInt?, optIntStr]
  | some i =>
    unfold optInt? optIntStr
    rw [if_neg (intStr_ne_nil i), parseInt?_intStr]
    rfl

theorem optIntStr_chars (a : Option Int) : ∀ c ∈ optIntStr a, isIntChar c = true := by
  cases a with
  | none => intro c hc; simp [optIntStr] at hc
  | some i => exact intStr_chars i

end Bufr.PathLang
