/-
  `DataQuerent.query` unfolded by storage form and by whether the `@` selector designates a subset at all
  (after fix F16c `query_compressed_data` returns the empty result for an empty selection before it looks at the
  path).  Used by `Props/C16.lean` and `Props/C18Query.lean`.
-/
import BufrModel.View.Query
namespace Bufr.C16
open Bufr.Query Bufr.PathLang

/-- what `query_compressed_data` does when at least one subset is selected -/
def compressedRun (m : QMsg) (comps : List Comp) (idxs : List Nat) : CM QResult :=
  match m.trees[0]?, m.outs[0]? with
  | some t, some o0 =>
    (match processOne o0.descs t comps with
     | .error e => .error e
     | .ok hits => match mapIdx (compressedSubset m hits) idxs with
       | .error e => .error e
       | .ok rs => .ok ⟨rs⟩)
  | _, _ => .error .other

theorem query_compressed_empty (m : QMsg) (p : Path) (hc : m.compressed = true)
    (hs : subsetIndices p.subset m.outs.length = .ok []) : query m p = .ok ⟨[]⟩ := by
  unfold query
  rw [hs]
  simp only [hc, if_true, List.isEmpty_nil]

theorem query_compressed_cons (m : QMsg) (p : Path) (i : Nat) (is : List Nat) (hc : m.compressed = true)
    (hs : subsetIndices p.subset m.outs.length = .ok (i :: is)) : query m p = compressedRun m p.comps (i :: is) := by
  unfold query compressedRun
  rw [hs]
  simp only [hc, if_true, List.isEmpty_cons, Bool.false_eq_true, if_false]
  rfl

theorem query_uncompressed (m : QMsg) (p : Path) (idxs : List Nat) (hc : m.compressed = false)
    (hs : subsetIndices p.subset m.outs.length = .ok idxs) :
    query m p = (match mapIdx (uncompressedSubset m p.comps) idxs with
      | .error e => .error e
      | .ok rs => .ok ⟨rs⟩) := by
  unfold query
  rw [hs]
  simp only [hc, Bool.false_eq_true, if_false]
  rfl

theorem query_selector_error (m : QMsg) (p : Path) (e : Err)
    (hs : subsetIndices p.subset m.outs.length = .error e) : query m p = .error e := by
  unfold query
  rw [hs]

/-- the loop over no subset -/
theorem compressedRun_nil_of_ok (m : QMsg) (comps : List Comp) (r : QResult)
    (h : compressedRun m comps [] = .ok r) : r = ⟨[]⟩ := by
  unfold compressedRun at h
  split at h
  · split at h
    · cases h
    · simp only [mapIdx] at h; cases h; rfl
  · cases h

end Bufr.C16
