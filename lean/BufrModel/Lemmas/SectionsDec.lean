/-
  Decode-side lemmas: every reader of the section decoder is prefix-determined (`Local`): a successful
  run consumed a prefix `p` of its input and would return the same result on `p` followed by anything.
-/
import BufrModel.Msg.Sections
import BufrModel.Lemmas.Bits
namespace Bufr

/-- a reader that, when it succeeds, has consumed a prefix of its input and does not depend on what
    follows that prefix -/
def Local {α : Type} (f : R α) : Prop :=
  ∀ x a r, f x = .ok (a, r) → ∃ p, x = p ++ r ∧ ∀ r', f (p ++ r') = .ok (a, r')

theorem Local.pure {α : Type} (a : α) : Local (R.pure a) := by
  intro x b r h
  simp only [R.pure] at h
  cases h
  exact ⟨[], rfl, fun r' => rfl⟩

theorem Local.fail {α : Type} (e : Err) : Local (R.fail e : R α) := by
  intro x b r h; simp only [R.fail] at h; cases h

theorem Local.lift {α : Type} (v : Except Err α) : Local (R.lift v) := by
  cases v with
  | ok a => exact Local.pure a
  | error e => exact Local.fail e

theorem Local.bind {α β : Type} {f : R α} {g : α → R β} (hf : Local f) (hg : ∀ a, Local (g a)) :
    Local (R.bind f g) := by
  intro x b r h
  simp only [R.bind] at h
  split at h
  · cases h
  rename_i a r1 hfx
  obtain ⟨p1, hx, hp1⟩ := hf x a r1 hfx
  obtain ⟨p2, hr1, hp2⟩ := hg a r1 b r h
  refine ⟨p1 ++ p2, by rw [hx, hr1, List.append_assoc], fun r' => ?_⟩
  simp only [R.bind, List.append_assoc, hp1 (p2 ++ r'), hp2 r']

theorem Local.map {α β : Type} {f : R α} (h : α → β) (hf : Local f) : Local (R.map h f) :=
  Local.bind hf fun a => Local.pure (h a)

theorem Local.counted {α : Type} {f : R α} (hf : Local f) : Local (R.counted f) := by
  intro x b r h
  simp only [R.counted] at h
  split at h
  · cases h
  rename_i a r1 hfx
  cases h
  obtain ⟨p, hx, hp⟩ := hf x a r hfx
  refine ⟨p, hx, fun r' => ?_⟩
  simp only [R.counted, hp r', hx, List.length_append, Nat.add_sub_cancel]

/-- the count returned by `counted` is the length of the consumed prefix -/
theorem counted_len {α : Type} {f : R α} (hf : Local f) {x : Bits} {a : α} {n : Nat} {r : Bits}
    (h : R.counted f x = .ok ((a, n), r)) : x.length = n + r.length := by
  simp only [R.counted] at h
  split at h
  · cases h
  rename_i a' r1 hfx
  cases h
  obtain ⟨p, hx, _⟩ := hf x a r hfx
  rw [hx]; simp

theorem local_readBits (n : Nat) : Local (readBits n) := by
  intro x a r h
  simp only [readBits] at h
  split at h
  · cases h
  cases h
  rename_i hlt
  refine ⟨x.take n, (List.take_append_drop n x).symm, fun r' => ?_⟩
  apply readBits_append_of_length
  rw [List.length_take]; omega

theorem local_readUInt (n : Nat) : Local (readUInt n) := by
  intro x a r h
  simp only [readUInt] at h
  split at h
  · cases h
  rename_i hn
  split at h
  · cases h
  rename_i bits r1 hb
  cases h
  obtain ⟨p, hx, hp⟩ := local_readBits n x bits r hb
  refine ⟨p, hx, fun r' => ?_⟩
  simp only [readUInt, hn, if_false, hp r']

theorem local_readBool : Local readBool := by
  intro x a r h
  cases x with
  | nil => simp only [readBool] at h; cases h
  | cons b bs =>
    simp only [readBool] at h
    cases h
    exact ⟨[a], rfl, fun r' => rfl⟩

theorem local_readInt (n : Nat) : Local (readInt n) := by
  intro x a r h
  simp only [readInt] at h
  split at h
  · cases h
  rename_i hn
  split at h
  · cases h
  rename_i s r1 hs
  split at h
  · cases h
  rename_i m r2 hm
  cases h
  obtain ⟨p1, hx, hp1⟩ := local_readBool x s r1 hs
  obtain ⟨p2, hr1, hp2⟩ := local_readUInt (n - 1) r1 m r hm
  refine ⟨p1 ++ p2, by rw [hx, hr1, List.append_assoc], fun r' => ?_⟩
  simp only [readInt, hn, if_false, List.append_assoc, hp1 (p2 ++ r'), hp2 r']

theorem local_readBytes (k : Nat) : Local (readBytes k) := by
  intro x a r h
  simp only [readBytes] at h
  split at h
  · cases h
  rename_i bits r1 hb
  cases h
  obtain ⟨p, hx, hp⟩ := local_readBits (8 * k) x bits r hb
  refine ⟨p, hx, fun r' => ?_⟩
  simp only [readBytes, hp r']

theorem local_readDescs : ∀ n, Local (readDescs n)
  | 0 => Local.pure _
  | n + 1 => by
    unfold readDescs
    exact Local.bind (local_readUInt 2) fun f => Local.bind (local_readUInt 6) fun x =>
      Local.bind (local_readUInt 8) fun y => Local.map _ (local_readDescs n)

theorem local_readTyped (ty : PType) (n : Nat) : Local (readTyped ty n) := by
  cases ty <;> simp only [readTyped]
  · exact Local.map _ (local_readUInt n)
  · exact Local.map _ (local_readInt n)
  · exact Local.map _ local_readBool
  · exact Local.map _ (local_readBits n)
  · exact Local.map _ (local_readBytes _)
  · exact Local.fail _
  · exact Local.fail _

theorem local_decValue {α : Type} (dc : DataCoder α) (hdc : ∀ reg, Local (dc.dec reg)) (st : DecSt α) (p : Param) :
    Local (decValue dc st p) := by
  unfold decValue
  split
  · exact Local.bind (Local.lift _) fun d => Local.map _ (local_readDescs _)
  · exact Local.map _ (hdc _)
  · split
    · split
      · exact Local.map _ (local_readTyped _ _)
      · exact Local.bind (Local.lift _) fun d => by
          split
          · exact Local.fail _
          · exact Local.map _ (local_readTyped _ _)
    · exact Local.map _ (local_readTyped _ _)

/-- the parameters of a section: consumed prefix, its length is what `used` grew by, names recorded -/
theorem decParams_local {α : Type} (dc : DataCoder α) (hdc : ∀ reg, Local (dc.dec reg)) (start : Nat) :
    ∀ (ps : List Param) (off : Nat) (st : DecSt α) (x : Bits) (st' : DecSt α) (r : Bits),
      decParams dc start ps off st x = .ok (st', r) →
      ∃ p, x = p ++ r ∧ st'.used = st.used + p.length ∧
        st'.acc.map (·.1) = st.acc.map (·.1) ++ ps.map (·.name) ∧
        ∀ r', decParams dc start ps off st (p ++ r') = .ok (st', r') := by
  intro ps
  induction ps with
  | nil =>
    intro off st x st' r h
    simp only [decParams, R.pure] at h
    cases h
    exact ⟨[], rfl, by simp, by simp, fun r' => rfl⟩
  | cons q qs ih =>
    intro off st x st' r h
    simp only [decParams, R.bind] at h
    split at h
    · cases h
    rename_i vdn r1 hc
    obtain ⟨⟨v, d⟩, n⟩ := vdn
    simp only at h
    have hloc := Local.counted (local_decValue dc hdc st q)
    obtain ⟨p1, hx, hp1⟩ := hloc x _ r1 hc
    have hn := counted_len (local_decValue dc hdc st q) hc
    split at h
    · cases h
    rename_i u r2 hl
    have hr2 : r2 = r1 := by
      cases hce : checkExpected q v with
      | error e => rw [hce] at hl; simp only [R.lift, R.fail] at hl; cases hl
      | ok u' => rw [hce] at hl; simp only [R.lift, R.pure] at hl; cases hl; rfl
    subst hr2
    obtain ⟨p2, hr1, hu, hnames, hp2⟩ := ih _ _ _ _ _ h
    refine ⟨p1 ++ p2, by rw [hx, hr1, List.append_assoc], ?_, ?_, fun r' => ?_⟩
    · rw [hu]
      simp only [List.length_append]
      have : n = p1.length := by rw [hx] at hn; simp at hn; omega
      omega
    · rw [hnames]; simp
    · simp only [decParams, R.bind, List.append_assoc, hp1 (p2 ++ r')]
      have hl' : R.lift (checkExpected q v) (p2 ++ r') = .ok (u, p2 ++ r') := by
        cases hce : checkExpected q v with
        | error e => rw [hce] at hl; simp only [R.lift, R.fail] at hl; cases hl
        | ok u' => rw [hce] at hl; simp only [R.lift, R.pure]
      simp only [hl', hp2 r']

theorem secLen_has {acc : List (String × PVal)} {d : Nat} (h : secLen acc = .ok d) :
    ∃ v, acc.lookup "section_length" = some (PVal.int v) ∧ d = v.toNat := by
  unfold secLen at h
  split at h
  · rename_i v hv; cases h; exact ⟨v, hv, rfl⟩
  · cases h

/-- one section: the consumed prefix is exactly `sec.nbits` bits; with a section length it is the
    declared extent -/
theorem decSection_local {α : Type} (dc : DataCoder α) (hdc : ∀ reg, Local (dc.dec reg)) (s : SectionLayout)
    (reg : Registry) (start : Nat) (x : Bits) (sec : DecSection) (reg' : Registry) (d' : Option α) (r : Bits)
    (h : decSection dc s reg start x = .ok ((sec, reg', d'), r)) :
    ∃ p, x = p ++ r ∧ sec.nbits = p.length ∧ sec.index = s.index ∧
      sec.params.map (·.1) = s.params.map (·.name) ∧
      (s.hasParam "section_length" = true → ∃ v, sec.params.lookup "section_length" = some (PVal.int v) ∧
        sec.nbits = 8 * v.toNat) ∧
      ∀ r', decSection dc s reg start (p ++ r') = .ok ((sec, reg', d'), r') := by
  simp only [decSection, R.bind] at h
  split at h
  · cases h
  rename_i st r1 hps
  obtain ⟨p1, hx, hu, hnames, hp1⟩ := decParams_local dc hdc start _ _ _ _ _ _ hps
  simp only [List.map_nil, List.nil_append, Nat.zero_add] at hu hnames
  unfold finishSection at h
  by_cases hh : s.hasParam "section_length" = true
  · simp only [hh, if_true, R.bind] at h
    split at h
    · cases h
    rename_i d r2 hl
    have hsl : secLen st.acc = .ok d ∧ r2 = r1 := by
      cases hs : secLen st.acc with
      | error e => rw [hs] at hl; simp only [R.lift, R.fail] at hl; cases hl
      | ok d' => rw [hs] at hl; simp only [R.lift, R.pure] at hl; cases hl; exact ⟨rfl, rfl⟩
    obtain ⟨hsl, rfl⟩ := hsl
    obtain ⟨v, hv, hdv⟩ := secLen_has hsl
    split at h
    · -- skip to the declared end
      rename_i hlt
      simp only [R.map, R.bind, readBin] at h
      split at h
      · cases h
      rename_i bits r3 hb
      simp only [R.pure] at h
      cases h
      obtain ⟨p2, hr1, hp2⟩ := local_readBits _ _ _ _ hb
      have hp2l : p2.length = d * 8 - st.used := by
        simp only [readBits] at hb
        split at hb
        · cases hb
        cases hb
        have : r2.take (d * 8 - st.used) ++ r2.drop (d * 8 - st.used) = p2 ++ r2.drop (d * 8 - st.used) := by
          rw [List.take_append_drop]; exact hr1
        have := List.append_cancel_right this
        rw [← this, List.length_take]; omega
      refine ⟨p1 ++ p2, by rw [hx, hr1, List.append_assoc], ?_, rfl, hnames, fun _ => ⟨v, hv, by simp only; omega⟩, fun r' => ?_⟩
      · simp only [List.length_append]; omega
      · simp only [decSection, R.bind, List.append_assoc, hp1 (p2 ++ r'), finishSection, hh, if_true, hsl, R.lift,
          R.pure, hlt, R.map, readBin, hp2 r']
    · split at h
      · simp only [R.fail] at h; cases h
      · rename_i hnlt hngt
        simp only [R.pure] at h
        cases h
        refine ⟨p1, hx, hu, rfl, hnames, fun _ => ⟨v, hv, by simp only; omega⟩, fun r' => ?_⟩
        simp only [decSection, R.bind, hp1 r', finishSection, hh, if_true, hsl, R.lift, R.pure, hnlt, hngt, if_false]
  · simp only [hh, Bool.false_eq_true, if_false, R.pure] at h
    cases h
    refine ⟨p1, hx, hu, rfl, hnames, fun hc => absurd hc hh, fun r' => ?_⟩
    simp only [decSection, R.bind, hp1 r', finishSection, hh, Bool.false_eq_true, if_false, R.pure]

theorem lift_ok {α : Type} {v : Except Err α} {x : Bits} {a : α} {r : Bits} (h : R.lift v x = .ok (a, r)) :
    v = .ok a ∧ r = x := by
  cases v with
  | error e => simp only [R.lift, R.fail] at h; cases h
  | ok b => simp only [R.lift, R.pure] at h; cases h; exact ⟨rfl, rfl⟩

theorem lookup_mem_keys {β : Type} {k : String} {l : List (String × β)} {v : β} (h : l.lookup k = some v) :
    k ∈ l.map (·.1) := by
  induction l with
  | nil => simp [List.lookup] at h
  | cons a l ih =>
    obtain ⟨k', v'⟩ := a
    simp only [List.lookup] at h
    split at h
    · rename_i heq
      simp only [beq_iff_eq] at heq
      simp [heq]
    · simp only [List.map_cons, List.mem_cons]
      exact Or.inr (ih h)

theorem decLoop_local {α : Type} (L : Layouts) (dc : DataCoder α) (hdc : ∀ reg, Local (dc.dec reg)) (o : DecOpts) :
    ∀ (fuel idx : Nat) (reg : Registry) (out : DecOut α) (x : Bits) (out' : DecOut α) (r : Bits),
      decLoop L dc o fuel idx reg out x = .ok (out', r) →
      ∃ (p : Bits) (news : List DecSection), x = p ++ r ∧ out'.sections = out.sections ++ news ∧
        out'.nbits = out.nbits + p.length ∧ p.length = (news.map (·.nbits)).sum ∧
        (∀ sec ∈ news, ∀ v, sec.params.lookup "section_length" = some (PVal.int v) → sec.nbits = 8 * v.toNat) ∧
        ∀ r', decLoop L dc o fuel idx reg out (p ++ r') = .ok (out', r') := by
  intro fuel
  induction fuel with
  | zero => intro idx reg out x out' r h; simp only [decLoop, R.fail] at h; cases h
  | succ fuel ih =>
    intro idx reg out x out' r h
    simp only [decLoop, R.bind] at h
    split at h
    · cases h
    rename_i s0 r1 hl1
    obtain ⟨hcfg, rfl⟩ := lift_ok hl1
    split at h
    · cases h
    rename_i present r2 hl2
    obtain ⟨hpres, rfl⟩ := lift_ok hl2
    cases present with
    | false =>
      simp only [Bool.not_false, if_true] at h
      obtain ⟨p, news, h1, h2, h3, h4, h5, h6⟩ := ih _ _ _ _ _ _ h
      refine ⟨p, news, h1, h2, h3, h4, h5, fun r' => ?_⟩
      simp only [decLoop, R.bind, hcfg, hpres, R.lift, R.pure, Bool.not_false, if_true, h6 r']
    | true =>
      simp only [Bool.not_true, Bool.false_eq_true, if_false] at h
      cases hsec : decSection dc (o.transform s0) reg out.nbits r2 with
      | error e =>
        simp only [R.bind, hsec] at h
        cases h
      | ok res =>
      obtain ⟨⟨sec, reg1, d⟩, r3⟩ := res
      simp only [R.bind, hsec] at h
      obtain ⟨p1, hx, hn, hidx, hnames, hlen, hp1⟩ := decSection_local dc hdc _ _ _ _ _ _ _ _ hsec
      have hsecl : ∀ v, sec.params.lookup "section_length" = some (PVal.int v) → sec.nbits = 8 * v.toNat := by
        intro v hv
        cases hh : (o.transform s0).hasParam "section_length" with
        | true =>
          obtain ⟨v', hv', hn'⟩ := hlen hh
          rw [hv] at hv'; cases hv'; exact hn'
        | false =>
          have hm := lookup_mem_keys hv
          rw [hnames] at hm
          simp only [SectionLayout.hasParam, List.any_eq_false, beq_iff_eq] at hh
          obtain ⟨q, hq, hqn⟩ := List.mem_map.mp hm
          exact absurd hqn (hh q hq)
      split at h
      · -- final section
        rename_i hend
        simp only [R.pure] at h
        cases h
        refine ⟨p1, [sec], hx, rfl, by simp only; omega, by simp [hn], ?_, fun r' => ?_⟩
        · intro s' hs' v hv
          simp only [List.mem_singleton] at hs'
          subst hs'; exact hsecl v hv
        · simp only [decLoop, R.bind, hcfg, hpres, R.lift, R.pure, Bool.not_true, Bool.false_eq_true, if_false,
            hp1 r', hend, if_true]
      · rename_i hend
        obtain ⟨p2, news, h1, h2, h3, h4, h5, h6⟩ := ih _ _ _ _ _ _ h
        refine ⟨p1 ++ p2, sec :: news, by rw [hx, h1, List.append_assoc], ?_, ?_, ?_, ?_, fun r' => ?_⟩
        · rw [h2]; simp
        · rw [h3]; simp only [List.length_append]; omega
        · simp only [List.length_append, List.map_cons, List.sum_cons, h4, hn]
        · intro s' hs' v hv
          rcases List.mem_cons.mp hs' with hs' | hs'
          · subst hs'; exact hsecl v hv
          · exact h5 s' hs' v hv
        · simp only [decLoop, R.bind, hcfg, hpres, R.lift, R.pure, Bool.not_true, Bool.false_eq_true, if_false,
            List.append_assoc, hp1 (p2 ++ r'), hend, h6 r']

end Bufr
