/-
  C07: helper lemmas of Props/C07Spec.lean and Props/C07SpecMsg.lean — what `decodeSubset` reports in terms of
  the final state of the walk, the fresh state of compressed data, the encoder's walk against the values
  supplied for the first subset.
-/
import BufrModel.Lemmas.LinkSpecComp
namespace Bufr
open Bufr.C07

/-- what `decodeSubset` reports, in terms of the final state of the walk -/
theorem decodeSubset_items (t : List Desc) (bits : Bits) (o : SubsetOut) (rest : Bits)
    (h : decodeSubset t bits = .ok (o, rest)) :
    ∃ s, walkList decPrimsU t { bits := bits, vals := [[]] } = .ok s ∧ o.descs = s.descs.reverse ∧
      o.vals = (s.vals.headD []).reverse ∧ o.links = s.links.reverse := by
  unfold decodeSubset at h
  cases hw : walkList decPrimsU t { bits := bits, vals := [[]] } with
  | error e => rw [hw] at h; cases h
  | ok s =>
    rw [hw] at h
    cases h
    exact ⟨s, rfl, rfl, rfl, rfl⟩

theorem decV_replicate (n : Nat) (bits : Bits) : decV { bits := bits, vals := List.replicate n [] } = [] := by
  unfold decV
  cases n <;> rfl


theorem zip_take_length {α β : Type} (l : List α) (r : List β) : l.zip (r.take l.length) = l.zip r := by
  induction l generalizing r with
  | nil => simp
  | cons a l ih =>
    cases r with
    | nil => simp
    | cons b r => simp [ih r]

/-- what the encoder's walk records, against the values supplied for the first subset -/
theorem encoder_walk_links {P : Prims} (hR : ∀ vs, Rec P encV (encXv vs)) (t : List Desc) (hwf : Spec.WFlinks t)
    (s0 s : St) (hd : s0.descs = []) (hl : s0.links = []) (hr : s0.regs = {}) (hi : s0.idx = 0)
    (hw : walkList P t s0 = .ok s)
    (hok : Spec.markersOk (s.descs.reverse.zip (curVals s0)) = true) :
    s.links.reverse = Spec.links (s.descs.reverse.zip (curVals s0)) (Spec.cancelsL P t s0) := by
  have hv0 : encV s0 = [] := by unfold encV; rw [hi]; rfl
  have hx0 : encXv (curVals s0) s0 := ⟨by unfold encX; rw [hi]; exact Nat.zero_le _, rfl⟩
  have hg := grows_walkList (hR (curVals s0)) t s0 s (by rw [hv0, hd]; rfl) hw
  obtain ⟨hx1, hx2⟩ := hg.2.2.2 hx0
  have hlen : (encV s).length = s.descs.length := hg.1
  have hidx : s.idx = s.descs.length := by
    unfold encV at hlen
    unfold encX at hx1
    rw [List.length_take] at hlen
    omega
  have hitems : items encV s = s.descs.reverse.zip (curVals s0) := by
    unfold items encV
    rw [hx2, hidx]
    have := zip_take_length s.descs.reverse (curVals s0)
    rw [List.length_reverse] at this
    exact this
  rw [← hitems] at hok
  rw [(walk_links_eq_spec (hR (curVals s0)) t hwf s0 s hd hl hr hv0 hx0 hw hok).1, hitems]

end Bufr
