/-
  Helper lemmas for C15, part 6: whatever the recogniser produces is a canonical path.
-/
import BufrModel.Lemmas.PathEquiv
import BufrModel.Spec.PathCanonical
namespace Bufr.PathLang
open Spec

theorem sliceOpt_canonical (es : List (Option Int)) (sl : Slice) (h : sliceOpt es = some sl) : sl.Canonical := by
  match es, h with
  | [some i], h =>
    simp only [sliceOpt, Option.some.injEq] at h
    by_cases hi : 0 ≤ i
    · simp only [hi, if_true] at h; subst h; exact hi
    · simp only [hi, if_false] at h; subst h; trivial
  | [none], h => simp [sliceOpt] at h
  | [a, b], h => cases a <;> (simp only [sliceOpt, Option.some.injEq] at h; subst h; trivial)
  | [a, b, c], h => cases a <;> (simp only [sliceOpt, Option.some.injEq] at h; subst h; trivial)
  | [], h => simp [sliceOpt] at h
  | a :: b :: c :: d :: r, h => simp [sliceOpt] at h

theorem sliceOfBody_canonical (body : List Char) (sl : Slice) (h : sliceOfBody body = some sl) : sl.Canonical := by
  rw [sliceOfBody_eq] at h
  by_cases hbad : body.any badBody = true
  · simp [hbad] at h
  · simp only [hbad] at h
    cases hopt : optInts (splitAux [] body) with
    | none => rw [hopt] at h; simp at h
    | some es => rw [hopt] at h; exact sliceOpt_canonical es sl (by simpa using h)

theorem slice?_some (cs : List Char) (sl : Slice) (a : List Char) (h : slice? cs = some (sl, a)) :
    sl.Canonical ∧ (∀ c ∈ a, c ∈ cs) := by
  cases cs with
  | nil => simp [slice?_nil] at h
  | cons c rest =>
    by_cases hbr : c = '['
    · subst hbr
      rw [slice?_bracket] at h
      cases hd : rest.dropWhile (· != ']') with
      | nil => rw [hd] at h; simp at h
      | cons c2 after =>
        rw [hd] at h
        simp only [Option.map_eq_some_iff, Prod.mk.injEq] at h
        obtain ⟨sl', h1, h2, h3⟩ := h
        subst h2; subst h3
        refine ⟨sliceOfBody_canonical _ _ h1, ?_⟩
        intro c hc
        have : c ∈ rest.dropWhile (· != ']') := by rw [hd]; simp [hc]
        simp [(List.dropWhile_sublist _).subset this]
    · rw [slice?_not_bracket c rest hbr] at h; simp at h

/-- what `comps?` yields when it succeeds on a string starting with `sep` -/
def CompsOk (sep : Char) (l : List Comp) : Prop :=
  l ≠ [] ∧ (∀ c ∈ l, isSep c.sep = true ∧ idOk c.id ∧ c.slice.Canonical) ∧ (∀ c, l.head? = some c → c.sep = sep)

theorem compsOk_cons (sep : Char) (comp : Comp) (r : List Comp) (h1 : comp.sep = sep) (h2 : isSep sep = true)
    (h3 : idOk comp.id) (h4 : comp.slice.Canonical)
    (hr : ∀ c ∈ r, isSep c.sep = true ∧ idOk c.id ∧ c.slice.Canonical) : CompsOk sep (comp :: r) := by
  refine ⟨by simp, ?_, ?_⟩
  · intro c hc
    simp at hc
    rcases hc with hc | hc
    · subst hc; exact ⟨by rw [h1]; exact h2, h3, h4⟩
    · exact hr c hc
  · intro c hc; simp at hc; subst hc; exact h1

theorem comps?_ok (fuel : Nat) : ∀ (cs : List Char) (l : List Comp), (∀ c ∈ cs, isWs c = false) →
    comps? fuel cs = some l → ∃ sep rest, cs = sep :: rest ∧ CompsOk sep l := by
  induction fuel with
  | zero => intro cs l _ h; simp [comps?] at h
  | succ n IH =>
    intro cs l hws h
    cases cs with
    | nil => simp [comps?_nil] at h
    | cons sep rest =>
      refine ⟨sep, rest, rfl, ?_⟩
      by_cases hsep' : isSep sep = false
      · rw [comps?_not_sep _ _ _ hsep'] at h; simp at h
      have hsep : isSep sep = true := by simpa using hsep'
      rw [comps?_succ _ _ _ hsep] at h
      have hwr : ∀ c ∈ rest, isWs c = false := fun c hc => hws c (by simp [hc])
      have hidp : ∀ c ∈ rest.takeWhile (fun c => !isSpecial c), isSpecial c = false ∧ isWs c = false := by
        intro c hc
        have h1 := takeWhile_mem hc
        exact ⟨by simpa using h1.1, hwr c h1.2⟩
      have hwsA : ∀ c ∈ rest.dropWhile (fun c => !isSpecial c), isWs c = false :=
        fun c hc => hwr c ((List.dropWhile_sublist _).subset hc)
      generalize rest.takeWhile (fun c => !isSpecial c) = idc at h hidp
      generalize rest.dropWhile (fun c => !isSpecial c) = after at h hwsA
      unfold compSpec at h
      by_cases hid : idc = []
      · simp [hid] at h
      simp only [hid, if_false] at h
      have hidok : idOk idc := ⟨hid, hidp⟩
      cases after with
      | nil =>
        simp only [Option.some.injEq] at h
        subst h
        exact compsOk_cons sep _ [] rfl hsep hidok trivial (by simp)
      | cons c after' =>
        simp only at h
        by_cases hbr : c = '['
        · simp only [hbr, if_true] at h
          cases hsl : slice? ('[' :: after') with
          | none => rw [hsl] at h; simp at h
          | some pr =>
            obtain ⟨sl, a⟩ := pr
            rw [hsl] at h
            simp only at h
            have ⟨hcan, hsub⟩ := slice?_some _ _ _ hsl
            by_cases ha : a = []
            · simp only [ha, if_true, Option.some.injEq] at h
              subst h
              exact compsOk_cons sep _ [] rfl hsep hidok hcan (by simp)
            · simp only [ha, if_false, Option.map_eq_some_iff] at h
              obtain ⟨r, hr, hl⟩ := h
              subst hl
              have hwa : ∀ c ∈ a, isWs c = false := by
                intro x hx
                apply hwsA
                rw [hbr]
                exact hsub x hx
              obtain ⟨_, _, _, hok⟩ := IH a r hwa hr
              exact compsOk_cons sep _ r rfl hsep hidok hcan hok.2.1
        · simp only [hbr, if_false, Option.map_eq_some_iff] at h
          obtain ⟨r, hr, hl⟩ := h
          subst hl
          obtain ⟨_, _, _, hok⟩ := IH (c :: after') r hwsA hr
          exact compsOk_cons sep _ r rfl hsep hidok trivial hok.2.1

theorem recogniseNoWs_canonical (cs : List Char) (p : Path) (hws : ∀ c ∈ cs, isWs c = false)
    (h : recogniseNoWs cs = some p) : p.Canonical := by
  cases cs with
  | nil => simp [recogniseNoWs] at h
  | cons c rest =>
    simp only [recogniseNoWs] at h
    by_cases hf : firstOk c = false
    · simp [hf] at h
    have hf' : firstOk c = true := by simpa using hf
    simp only [hf', Bool.not_true, Bool.false_eq_true, if_false] at h
    by_cases hat : c = '@'
    · subst hat
      simp only [beq_self_eq_true, if_true] at h
      cases hsl : slice? rest with
      | none => rw [hsl] at h; simp at h
      | some pr =>
        obtain ⟨sl, a⟩ := pr
        rw [hsl] at h
        simp only at h
        have ⟨hcan, hsub⟩ := slice?_some _ _ _ hsl
        cases a with
        | nil => simp at h
        | cons sep r =>
          simp only at h
          by_cases hdot : sep = '.'
          · simp [hdot] at h
          · have hdot' : (sep == '.') = false := by simpa using hdot
            simp only [hdot', Bool.false_eq_true, if_false, Option.map_eq_some_iff] at h
            obtain ⟨l, hl, hp⟩ := h
            subst hp
            have hwa : ∀ x ∈ sep :: r, isWs x = false := fun x hx => hws x (by simp [hsub x hx])
            obtain ⟨sep', rest', heq, hok⟩ := comps?_ok _ _ _ hwa hl
            simp at heq
            obtain ⟨h1, _⟩ := heq
            subst h1
            refine ⟨⟨sl, rfl, hcan⟩, hok.1, hok.2.1, ?_⟩
            intro x hx
            rw [hok.2.2 x hx]; exact hdot
    · have hat' : (c == '@') = false := by simpa using hat
      simp only [hat', Bool.false_eq_true, if_false] at h
      by_cases hsep : isSep c = true
      · simp only [hsep, if_true, Option.map_eq_some_iff] at h
        obtain ⟨l, hl, hp⟩ := h
        subst hp
        obtain ⟨sep', rest', heq, hok⟩ := comps?_ok _ _ _ hws hl
        simp at heq
        obtain ⟨h1, _⟩ := heq
        subst h1
        refine ⟨⟨_, rfl, trivial⟩, hok.1, hok.2.1, ?_⟩
        intro x hx
        rw [hok.2.2 x hx]
        intro hd; subst hd; revert hf'; decide
      · have hsep' : isSep c = false := by simpa using hsep
        simp only [hsep', Bool.false_eq_true, if_false, Option.map_eq_some_iff] at h
        obtain ⟨l, hl, hp⟩ := h
        subst hp
        have hw2 : ∀ x ∈ '>' :: c :: rest, isWs x = false := by
          intro x hx
          simp only [List.mem_cons] at hx
          rcases hx with hx | hx
          · subst hx; decide
          · exact hws x (by simpa using hx)
        obtain ⟨sep', rest', heq, hok⟩ := comps?_ok _ _ _ hw2 hl
        simp at heq
        obtain ⟨h1, _⟩ := heq
        subst h1
        refine ⟨⟨_, rfl, trivial⟩, hok.1, hok.2.1, ?_⟩
        intro x hx
        rw [hok.2.2 x hx]
        decide

theorem recognise_canonical (s : List Char) (p : Path) (h : recognise s = some p) : p.Canonical := by
  apply recogniseNoWs_canonical _ p _ h
  intro c hc
  simpa using (List.mem_filter.1 hc).2

end Bufr.PathLang
