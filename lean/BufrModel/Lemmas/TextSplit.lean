/-
  Helper lemmas for C09, text formats: `'\n'.join(lines)` followed by `splitlines()` gives the lines back when no
  line holds a line boundary and the last line is not empty; the flat text lines hold no boundary when the names
  and tokens hold none.
-/
import BufrModel.Lemmas.TextBasic
namespace Bufr.C09T
open Bufr

theorem splitGo_nobreak : ∀ (l cur rest : List Char), (∀ c ∈ l, isLineBreak c = false) →
    splitGo cur (l ++ rest) = splitGo (l.reverse ++ cur) rest
  | [], cur, rest, _ => rfl
  | c :: l, cur, rest, h => by
    have hc := h c (by simp)
    have hne : c ≠ '\r' := by
      intro e; subst e; revert hc; decide
    rw [List.cons_append, splitGo.eq_3 _ _ _ (fun _ e _ => hne e), hc]
    simp only [Bool.false_eq_true, if_false]
    rw [splitGo_nobreak l (c :: cur) rest (fun x hx => h x (by simp [hx]))]
    simp

theorem splitGo_newline (cur rest : List Char) : splitGo cur ('\n' :: rest) = cur.reverse :: splitGo [] rest := by
  rw [splitGo.eq_3 _ _ _ (fun _ e _ => by revert e; decide)]
  rfl

theorem split_join : ∀ (ls : List Line), (∀ l ∈ ls, ∀ c ∈ l, isLineBreak c = false) →
    (∀ l, ls.getLast? = some l → l ≠ []) → pySplitlines (joinLines ls) = ls
  | [], _, _ => rfl
  | [l], h, hl => by
    have hne := hl l rfl
    unfold pySplitlines joinLines
    have := splitGo_nobreak l [] [] (h l (by simp))
    simp only [List.append_nil] at this
    rw [this, splitGo]
    simp [hne]
  | l :: l' :: ls, h, hl => by
    have ih := split_join (l' :: ls) (fun x hx => h x (by simp [hx])) (fun x hx => hl x (by simpa using hx))
    unfold pySplitlines at ih ⊢
    rw [joinLines, splitGo_nobreak l [] _ (h l (by simp)), splitGo_newline, ih]
    simp

theorem linesOK_iff (ls : List Line) (h : linesOK ls = true) :
    (∀ l ∈ ls, ∀ c ∈ l, isLineBreak c = false) ∧ (∀ l, ls.getLast? = some l → l ≠ []) := by
  unfold linesOK at h
  rw [Bool.and_eq_true] at h
  constructor
  · intro l hl c hc
    have := List.all_eq_true.mp h.1 l hl
    have := List.all_eq_true.mp this c hc
    simpa using this
  · intro l hl e
    have h2 := h.2
    rw [hl] at h2
    subst e
    simp at h2

/-! ### which characters a flat text line holds -/

theorem indexChars_nobreak (c : Char) (h : c ∈ indexChars) : isLineBreak c = false := by
  have : ∀ c ∈ indexChars, isLineBreak c = false := by decide
  exact this c h

theorem padTrunc_nobreak (w : Nat) (s : Line) (h : ∀ c ∈ s, isLineBreak c = false) :
    ∀ c ∈ padTrunc w s, isLineBreak c = false := by
  intro c hc
  unfold padTrunc at hc
  simp only [List.mem_append, List.mem_replicate] at hc
  rcases hc with hc | ⟨_, rfl⟩
  · exact h c (List.mem_of_mem_take hc)
  · decide

/-- a flat text line holds a line boundary only if the descriptor text (the name) or the token holds one -/
theorem flatLine_nobreak (env : TextEnv) (links : List (Nat × Nat)) (idx : Nat) (d : DDesc) (v : Val)
    (hd : ∀ c ∈ flatDescText env d, isLineBreak c = false) (ht : ∀ c ∈ flatTok env d v, isLineBreak c = false) :
    ∀ c ∈ flatLine env links idx d v, isLineBreak c = false := by
  intro c hc
  unfold flatLine at hc
  split at hc
  · simp only [List.mem_append, List.mem_cons, arrow4] at hc
    rcases hc with (((h | h | h) | h) | h) | h | h
    · exact indexChars_nobreak c (fixedWidth_chars _ _ c h)
    · subst h; decide
    · exact padTrunc_nobreak 64 _ hd c h
    · rcases h with h | h | h | h | h
      · subst h; decide
      · subst h; decide
      · subst h; decide
      · subst h; decide
      · simp at h
    · exact indexChars_nobreak c (fixedWidth_chars _ _ c h)
    · subst h; decide
    · exact ht c h
  · simp only [List.mem_append, List.mem_cons] at hc
    rcases hc with (h | h | h) | h | h
    · exact indexChars_nobreak c (fixedWidth_chars _ _ c h)
    · subst h; decide
    · exact padTrunc_nobreak 74 _ hd c h
    · subst h; decide
    · exact ht c h

end Bufr.C09T
