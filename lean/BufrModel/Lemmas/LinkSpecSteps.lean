/-
  C07: the steps of the walk against the steps of the fold.  Each lemma takes `Core V s cs` and a
  description of what one step of the walk did to `s` (one item recorded / the selection built / 235000
  processed) and gives `Core` for the new state.
-/
import BufrModel.Lemmas.LinkSpecCore
namespace Bufr.C07
open Bufr.Spec

theorem vw_of_not_counting (s : St) (st : FS) (h : s.regs.bitmapDef ≠ .counting) : vw s st = finalize st := by
  unfold vw; rw [if_neg h]

theorem vw_of_counting (s : St) (st : FS) (h : s.regs.bitmapDef = .counting) : vw s st = st := by
  unfold vw; rw [if_pos h]

theorem finalize_of_not_run (st : FS) (h : ∀ p r bits, st.ph ≠ .run p r bits) : finalize st = st :=
  finalize_nonrun st h

theorem step_not_run (cs : List Nat) (st : FS) (x : Item) (hb : isBit x = false) :
    ∀ p r bits, (step cs st x).ph ≠ .run p r bits := by
  rw [step_ph]
  exact phStep_nonbit_not_run _ _ _ hb (fin1_not_run st x hb)

theorem not_contains_succ (cs : List Nat) (n : Nat) (h : ∀ c ∈ cs, c ≤ n) : cs.contains (n + 1) = false := by
  cases hc : cs.contains (n + 1) with
  | false => rfl
  | true =>
    have := h _ (by simpa using hc)
    omega

/-- One item that is not a bit is recorded while the walk is not counting bits: everything of `Core` except
    the phase, which the caller supplies (it depends on the kind of item).
    `h237`: the item of 237000 restarts the iterator; `hsv`: any other item takes the next zero bit exactly
    when the fold says so. -/
theorem Core.record {V : St → List Val} {s s' : St} {cs : List Nat} (hc : Core V s cs) (dd : DDesc) (v : Val)
    (hd : s'.descs = dd :: s.descs) (hv : V s' = V s ++ [v])
    (hb : isBit (dd, v) = false)
    (hnc : s.regs.bitmapDef ≠ .counting) (hnc' : s'.regs.bitmapDef ≠ .counting)
    (hqa : s'.regs.qa = qaStep s.regs.qa (dd, v))
    (h237 : isOper 237000 (dd, v) = true →
      ∃ l, s.regs.bitmapped = some l ∧ s'.regs.bmIter = some l ∧ s'.links = s.links)
    (hsv : isOper 237000 (dd, v) = false →
      if consumesF s.regs.qa (dd, v) then
        ∃ y rest, s.regs.bmIter = some (y :: rest) ∧ s'.links = (s.descs.length, y.1) :: s.links ∧
          s'.regs.bmIter = some rest
      else s'.links = s.links ∧ s'.regs.bmIter = s.regs.bmIter)
    (hbr : s'.regs.backRefs = s.regs.backRefs) (hbm : s'.regs.bitmapped = s.regs.bitmapped)
    (hq : s'.regs.nbitsNewRefval = 0 ∧ s'.regs.nbitsSkipped = 0 ∧ s'.regs.dnpCount = 0)
    (hph : PhaseRel V s' cs (step cs (foldItems cs (items V s)) (dd, v))) :
    Core V s' cs := by
  have hits : items V s' = items V s ++ [(dd, v)] := items_snoc V s s' dd v hc.len hd hv
  have hpos := hc.pos
  have hlen' : s'.descs.length = s.descs.length + 1 := by rw [hd]; simp
  have hfin : fin1 (foldItems cs (items V s)) (dd, v) = finalize (foldItems cs (items V s)) := by
    unfold fin1; rw [hb]; simp
  have hvw := vw_of_not_counting s (foldItems cs (items V s)) hnc
  have hst' : foldItems cs (items V s') = step cs (foldItems cs (items V s)) (dd, v) := by
    rw [hits, foldItems_snoc]
  have hvw' : vw s' (foldItems cs (items V s')) = step cs (foldItems cs (items V s)) (dd, v) := by
    rw [vw_of_not_counting _ _ hnc', hst', finalize_of_not_run _ (step_not_run cs _ _ hb)]
  have hqa0 : (can1 cs (finalize (foldItems cs (items V s)))).qa = s.regs.qa := by
    rw [can1_qa, finalize_qa, hc.qa]
  have hiter0 : (can1 cs (finalize (foldItems cs (items V s)))).iter = s.regs.bmIter.getD [] := by
    rw [can1_iter, hc.regs.iter, hvw]
  have hlinks0 : (can1 cs (finalize (foldItems cs (items V s)))).links = s.links := by
    rw [can1_links, finalize_links, hc.links]
  have hpos0 : (can1 cs (finalize (foldItems cs (items V s)))).pos = s.descs.length := by
    rw [can1_pos, finalize_pos, hpos]
  -- what the serving stage of the fold does, against the walk
  have hsrv : (srv1 (can1 cs (finalize (foldItems cs (items V s)))) (dd, v)).links = s'.links ∧
      (isOper 237000 (dd, v) = false →
        (srv1 (can1 cs (finalize (foldItems cs (items V s)))) (dd, v)).iter = s'.regs.bmIter.getD []) := by
    by_cases h7 : isOper 237000 (dd, v) = true
    · obtain ⟨l, _, _, e3⟩ := h237 h7
      unfold srv1
      rw [hqa0, oper_not_consumer _ _ _ h7]
      simp only [Bool.false_eq_true, if_false]
      exact ⟨by rw [hlinks0, e3], fun h => by rw [h7] at h; cases h⟩
    · have h7' : isOper 237000 (dd, v) = false := by simpa using h7
      have := hsv h7'
      unfold srv1
      rw [hqa0]
      split at this
      · next hcons =>
        obtain ⟨y, rest, e1, e2, e3⟩ := this
        rw [if_pos hcons]
        unfold serve
        rw [hiter0, e1]
        simp only [Option.getD_some]
        exact ⟨by rw [hlinks0, hpos0, e2], fun _ => by rw [e3]; rfl⟩
      · next hcons =>
        rw [if_neg hcons]
        exact ⟨by rw [hlinks0, this.1], fun _ => by rw [hiter0, this.2]⟩
  have hcomp : ∀ i, consumes (items V s') i = true → ∃ o, (i, o) ∈ s'.links := by
    intro i hi
    have hn := items_length V s hc.len
    have hsub : ∀ l, l ∈ s.links → l ∈ s'.links := by
      intro l hl
      by_cases h7 : isOper 237000 (dd, v) = true
      · obtain ⟨_, _, _, e3⟩ := h237 h7
        rw [e3]; exact hl
      · have := hsv (by simpa using h7)
        split at this
        · obtain ⟨y, rest, _, e2, _⟩ := this
          rw [e2]; exact List.mem_cons_of_mem _ hl
        · rw [this.1]; exact hl
    rw [hits] at hi
    by_cases hlt : i < (items V s).length
    · rw [consumes_snoc_lt _ _ _ hlt] at hi
      obtain ⟨o, ho⟩ := hc.complete i hi
      exact ⟨o, hsub _ ho⟩
    · have hi2 : i = (items V s).length := by
        have : i < (items V s ++ [(dd, v)]).length := by
          rw [consumes_eq] at hi
          cases hg : (items V s ++ [(dd, v)])[i]? with
          | none => rw [hg] at hi; cases hi
          | some it => exact (List.getElem?_eq_some_iff.mp hg).1
        simp only [List.length_append, List.length_singleton] at this
        omega
      subst hi2
      rw [consumes_snoc_eq, (FInv.fold cs (items V s)).qa.symm, ← hc.qa] at hi
      have h7 : isOper 237000 (dd, v) = false := by
        cases h7 : isOper 237000 (dd, v) with
        | false => rfl
        | true => rw [oper_not_consumer _ _ _ h7] at hi; cases hi
      have := hsv h7
      rw [if_pos hi] at this
      obtain ⟨y, rest, _, e2, _⟩ := this
      exact ⟨y.1, by rw [e2, hn]; exact List.mem_cons_self⟩
  refine ⟨by rw [hv, hd]; simp [hc.len], ?_, ?_, hq, ?_, by rw [hst']; exact hph, ?_, hcomp⟩
  · rw [hst', step_links, hfin]; exact hsrv.1.symm
  · rw [hst', step_qa, hqa, hc.qa]
  · intro c hcm; have := hc.cs_le c hcm; omega
  · have hcont : cs.contains s'.descs.length = false := by
      rw [hlen']; exact not_contains_succ cs _ hc.cs_le
    have hest : estV s' cs (foldItems cs (items V s')) = estV s cs (foldItems cs (items V s)) := by
      unfold estV
      rw [hcont, hvw', hvw, step_est, hfin, hpos]
      simp
    refine ⟨?_, ?_, ?_⟩
    · rw [hbr, hest]; exact hc.regs.backRefs
    · rw [hbm, hvw', step_sel, hfin, ← hvw]; exact hc.regs.bitmapped
    · rw [hvw', step_iter, hfin]
      by_cases h7 : isOper 237000 (dd, v) = true
      · rw [if_pos h7]
        obtain ⟨l, e1, e2, _⟩ := h237 h7
        rw [e2]
        rcases hc.regs.bitmapped with hn | hs
        · rw [hn] at e1; cases e1
        · rw [hs, hvw] at e1
          injection e1 with e1
          rw [e1]; rfl
      · rw [if_neg h7]
        exact (hsrv.2 (by simpa using h7)).symm

/-- registers outside the bit-map machinery change, or the definition state machine moves between states
    other than `counting`: everything of `Core` except the phase is kept -/
theorem Core.congr {V : St → List Val} {s s' : St} {cs : List Nat} (hc : Core V s cs)
    (hd : s'.descs = s.descs) (hv : V s' = V s) (hl : s'.links = s.links) (hqa : s'.regs.qa = s.regs.qa)
    (hcnt : s'.regs.bitmapDef = .counting ↔ s.regs.bitmapDef = .counting)
    (hbr : s'.regs.backRefs = s.regs.backRefs) (hbm : s'.regs.bitmapped = s.regs.bitmapped)
    (hit : s'.regs.bmIter = s.regs.bmIter)
    (hq : s'.regs.nbitsNewRefval = 0 ∧ s'.regs.nbitsSkipped = 0 ∧ s'.regs.dnpCount = 0)
    (hph : PhaseRel V s' cs (foldItems cs (items V s))) : Core V s' cs := by
  have hi : items V s' = items V s := items_congr V s s' hd hv
  have hvw : vw s' (foldItems cs (items V s)) = vw s (foldItems cs (items V s)) := by
    unfold vw
    by_cases h : s.regs.bitmapDef = .counting
    · rw [if_pos h, if_pos (hcnt.mpr h)]
    · rw [if_neg h, if_neg (fun h' => h (hcnt.mp h'))]
  have hest : estV s' cs (foldItems cs (items V s)) = estV s cs (foldItems cs (items V s)) := by
    unfold estV; rw [hd, hvw]
  refine ⟨by rw [hv, hd]; exact hc.len, ?_, ?_, hq, by rw [hd]; exact hc.cs_le, by rw [hi]; exact hph, ?_,
    by rw [hi, hl]; exact hc.complete⟩
  · rw [hi, hl]; exact hc.links
  · rw [hi, hqa]; exact hc.qa
  · rw [hi]
    exact ⟨by rw [hbr, hest]; exact hc.regs.backRefs, by rw [hbm, hvw]; exact hc.regs.bitmapped,
      by rw [hit, hvw]; exact hc.regs.iter⟩

theorem slastN_snoc (k : Nat) (l : List Val) (x : Val) (hk : 1 ≤ k) :
    Spec.lastN k (l ++ [x]) = Spec.lastN (k - 1) l ++ [x] := C07.lastN_snoc k l x hk

/-- the phase after an item that is neither a bit, nor a bit-map operator, nor 237000, for a walk that is
    not in the middle of a definition -/
theorem phase_ordinary {V : St → List Val} {s s' : St} {cs : List Nat} (hc : Core V s cs) (x : Item)
    (hb : isBit x = false) (hop : isBitmapOp x = false) (h7 : isOper 237000 x = false)
    (hst : s.regs.bitmapDef = .na ∨ s.regs.bitmapDef = .waiting)
    (h1 : s'.regs.bitmapDef = s.regs.bitmapDef) (h2 : s'.regs.backBoundary = s.regs.backBoundary)
    (h3 : s'.regs.n031031 = s.regs.n031031) :
    PhaseRel V s' cs (step cs (foldItems cs (items V s)) x) := by
  have hp := hc.phase
  unfold PhaseRel at hp ⊢
  rw [h1, h2, h3]
  rw [step_ph]
  rcases hst with hst | hst
  · rw [hst] at hp ⊢
    simp only at hp ⊢
    left
    rcases hp with hp | ⟨p, r, bits, hp⟩
    · rw [fin1_ph_idle _ _ hp, phStep_idle _ _ hop]
    · rw [fin1_ph_run _ _ _ _ _ hp, hb]
      simp only [Bool.false_eq_true, if_false]
      rw [phStep_idle _ _ hop]
  · rw [hst] at hp ⊢
    simp only at hp ⊢
    refine ⟨?_, hp.2⟩
    right
    rcases hp.1 with hp1 | ⟨r, hp1⟩
    · rw [fin1_ph_afterOp _ _ _ hp1, phStep_afterOp _ _ _ hop, h7, hb]
      simp only [Bool.false_eq_true, if_false]
      exact ⟨_, rfl⟩
    · rw [fin1_ph_pre _ _ _ _ hp1, phStep_pre _ _ _ _ hop, hb]
      simp only [Bool.false_eq_true, if_false]
      exact ⟨_, rfl⟩

/-- a bit (an item of 031031) is recorded inside the replication that follows a bit-map operator -/
theorem Core.bit {V : St → List Val} {s s' : St} {cs : List Nat} (hc : Core V s cs) (dd : DDesc) (v : Val)
    (hd : s'.descs = dd :: s.descs) (hv : V s' = V s ++ [v]) (hb : isBit (dd, v) = true)
    (hst : s.regs.bitmapDef = .waiting ∨ s.regs.bitmapDef = .counting)
    (hwin : ∀ c ∈ cs, c ≤ s.regs.backBoundary)
    (h1 : s'.regs.bitmapDef = .counting) (h2 : s'.regs.backBoundary = s.regs.backBoundary)
    (h3 : s'.regs.n031031 = s.regs.n031031 + 1)
    (hqa : s'.regs.qa = qaStep s.regs.qa (dd, v)) (hl : s'.links = s.links)
    (hbr : s'.regs.backRefs = s.regs.backRefs) (hbm : s'.regs.bitmapped = s.regs.bitmapped)
    (hit : s'.regs.bmIter = s.regs.bmIter)
    (hq : s'.regs.nbitsNewRefval = 0 ∧ s'.regs.nbitsSkipped = 0 ∧ s'.regs.dnpCount = 0) :
    Core V s' cs := by
  have hits : items V s' = items V s ++ [(dd, v)] := items_snoc V s s' dd v hc.len hd hv
  have hpos := hc.pos
  have hop := bit_not_op _ hb
  have hfin : fin1 (foldItems cs (items V s)) (dd, v) = foldItems cs (items V s) := by
    unfold fin1; rw [hb]; simp
  have hst' : foldItems cs (items V s') = step cs (foldItems cs (items V s)) (dd, v) := by
    rw [hits, foldItems_snoc]
  -- the operator position lies below the end: no cancel is pending
  have hp := hc.phase
  have hbb : s.regs.backBoundary < s.descs.length := by
    have hs := hc.sinv
    rw [← items_length V s hc.len]
    apply SInv.ph_lt hs
    unfold PhaseRel at hp
    rcases hst with h | h
    · rw [h] at hp
      rcases hp.1 with h' | ⟨r, h'⟩
      · exact Or.inl h'
      · exact Or.inr (Or.inl ⟨r, h'⟩)
    · rw [h] at hp
      obtain ⟨r, bits, h', _⟩ := hp
      exact Or.inr (Or.inr ⟨r, bits, h'⟩)
  have hnc : cs.contains s.descs.length = false := by
    cases hcc : cs.contains s.descs.length with
    | false => rfl
    | true => have := hwin _ (by simpa using hcc); omega
  have hcan : can1 cs (foldItems cs (items V s)) = foldItems cs (items V s) := by
    unfold can1; rw [hpos, hnc]; simp
  have hsrv : srv1 (foldItems cs (items V s)) (dd, v) = foldItems cs (items V s) := by
    unfold srv1; rw [bit_not_consumer _ _ hb]; simp
  -- the walk's view of the fold state before and after
  have hvw : vw s (foldItems cs (items V s)) = foldItems cs (items V s) := by
    rcases hst with h | h
    · rw [vw_of_not_counting _ _ (by rw [h]; exact fun x => nomatch x)]
      apply finalize_of_not_run
      intro p r bits hh
      unfold PhaseRel at hp
      rw [h] at hp
      rcases hp.1 with h' | ⟨r', h'⟩ <;> (rw [h'] at hh; cases hh)
    · exact vw_of_counting _ _ h
  have hvw' : vw s' (foldItems cs (items V s')) = step cs (foldItems cs (items V s)) (dd, v) := by
    rw [vw_of_counting _ _ h1, hst']
  have hlen' : s'.descs.length = s.descs.length + 1 := by rw [hd]; simp
  have hcomp : ∀ i, consumes (items V s') i = true → ∃ o, (i, o) ∈ s'.links := by
    intro i hi
    rw [hits] at hi
    rw [hl]
    by_cases hlt : i < (items V s).length
    · rw [consumes_snoc_lt _ _ _ hlt] at hi
      exact hc.complete i hi
    · exfalso
      have hi2 : i = (items V s).length := by
        have : i < (items V s ++ [(dd, v)]).length := by
          rw [consumes_eq] at hi
          cases hg : (items V s ++ [(dd, v)])[i]? with
          | none => rw [hg] at hi; cases hi
          | some it => exact (List.getElem?_eq_some_iff.mp hg).1
        simp only [List.length_append, List.length_singleton] at this
        omega
      subst hi2
      rw [consumes_snoc_eq, bit_not_consumer _ _ hb] at hi
      cases hi
  refine ⟨by rw [hv, hd]; simp [hc.len], ?_, ?_, hq, ?_, ?_, ?_, hcomp⟩
  · rw [hst', step_links, hfin, hcan, hsrv, hl]; exact hc.links
  · rw [hst', step_qa, hqa, hc.qa]
  · intro c hcm; have := hc.cs_le c hcm; omega
  · -- the phase
    rw [hst']
    unfold PhaseRel at hp ⊢
    rw [h1]
    simp only
    rw [step_ph, hfin, h2, h3]
    rcases hst with h | h
    · rw [h] at hp
      simp only at hp
      obtain ⟨hp1, hp2⟩ := hp
      rcases hp1 with h' | ⟨r, h'⟩
      · rw [h', phStep_afterOp _ _ _ hop, bit_not_oper _ _ hb, hb]
        simp only [Bool.false_eq_true, if_false, if_true]
        refine ⟨false, [v], rfl, by rw [hp2]; rfl, by simp, ?_, hwin⟩
        rw [hv]; exact lastN_one_snoc _ _
      · rw [h', phStep_pre _ _ _ _ hop, hb]
        simp only [if_true]
        refine ⟨r, [v], rfl, by rw [hp2]; rfl, by simp, ?_, hwin⟩
        rw [hv]; exact lastN_one_snoc _ _
    · rw [h] at hp
      simp only at hp
      obtain ⟨r, bits, h', hn, hne, hlast, _⟩ := hp
      rw [h', phStep_run _ _ _ _ _ hop, hb]
      simp only [if_true]
      refine ⟨r, bits ++ [v], rfl, by rw [hn]; simp, by simp, ?_, hwin⟩
      rw [hv, List.length_append, List.length_singleton, slastN_snoc _ _ _ (by omega)]
      simp only [Nat.add_sub_cancel]
      rw [hlast]
  · have hcont : cs.contains s'.descs.length = false := by
      rw [hlen']; exact not_contains_succ cs _ hc.cs_le
    have hest : estV s' cs (foldItems cs (items V s')) = estV s cs (foldItems cs (items V s)) := by
      unfold estV
      rw [hcont, hnc, hvw', hvw, step_est, hfin, hpos, hnc]
      simp
    refine ⟨?_, ?_, ?_⟩
    · rw [hbr, hest]; exact hc.regs.backRefs
    · rw [hbm, hvw', step_sel, hfin]
      have := hc.regs.bitmapped
      rw [hvw] at this
      exact this
    · rw [hit, hvw', step_iter, hfin, hcan, hsrv, bit_not_oper _ _ hb]
      simp only [Bool.false_eq_true, if_false]
      have := hc.regs.iter
      rw [hvw] at this
      exact this

theorem buildBitmapped_eq (s : St) (bm : List Val) :
    buildBitmapped s bm =
      (if (brFor s bm.length).length ≠ bm.length then .error .lib
       else .ok (s.setRegs fun r => { r with backRefs := some (brFor s bm.length),
                                             bitmapped := some (zeroSel bm (brFor s bm.length)),
                                             bmIter := some (zeroSel bm (brFor s bm.length)) })) := rfl

theorem slastN_length_le (k : Nat) (l : List Val) (h : (Spec.lastN k l).length = k) : k ≤ l.length := by
  unfold Spec.lastN at h
  rw [List.length_drop] at h
  omega

/-- the back references collected afresh are the last `k` plain items in front of the boundary, as the
    specification counts them -/
theorem collect_eq_plainBelow (V : St → List Val) (s : St) (hl : (V s).length = s.descs.length) (k : Nat) (hk : 1 ≤ k)
    (hb : s.regs.backBoundary ≤ s.descs.length) :
    collectBackRefs k (s.descs.drop (s.descs.length - s.regs.backBoundary)) s.regs.backBoundary [] =
      Spec.lastN k (plainBelow (items V s) s.regs.backBoundary) := by
  rw [collect_lastN k _ _ [] (by simp only [List.length_nil]; omega)]
  have hlen : (s.descs.drop (s.descs.length - s.regs.backBoundary)).length = s.regs.backBoundary := by
    rw [List.length_drop]; omega
  rw [plainRev_eq_plainFrom _ _ (by rw [hlen]; exact Nat.le_refl _), hlen]
  have hr : (s.descs.drop (s.descs.length - s.regs.backBoundary)).reverse = s.descs.reverse.take s.regs.backBoundary := by
    rw [List.reverse_drop]; congr 1; omega
  rw [hr]
  unfold items
  rw [plainBelow_zip _ _ (by simp [hl]) _ (by simp; exact hb)]
  simp only [List.length_nil, Nat.sub_zero, Nat.sub_self, List.append_nil]
  rfl

/-- the run of 031031 is over and the next member makes the walk build the selection -/
theorem Core.build {P : Prims} {V : St → List Val} {X : St → Prop} (hR : Rec P V X) {s sb : St} {cs : List Nat} (hc : Core V s cs)
    (hcnt : s.regs.bitmapDef = .counting) (bm : List Val) (hbm : P.lastValues s.regs.n031031 s = .ok bm)
    (hb : buildBitmapped s bm = .ok sb) (hx : X s) :
    Core V (sb.setRegs fun r => { r with bitmapDef := .na }) cs := by
  have hp := hc.phase
  unfold PhaseRel at hp
  rw [hcnt] at hp
  obtain ⟨r, bits, hph, hn, hne, hlast, hwin⟩ := hp
  have hk : 1 ≤ bits.length := by cases bits with | nil => exact absurd rfl hne | cons _ _ => simp
  have hkl : bits.length ≤ (V s).length := slastN_length_le _ _ (by rw [hlast])
  have hbits : bm = bits := by
    rw [hn] at hbm
    rw [hR.lastValues _ _ _ hbm hk hkl hx, hlast]
  subst hbits
  have hs := hc.sinv
  have hbb : s.regs.backBoundary < s.descs.length := by
    rw [← items_length V s hc.len]
    exact SInv.ph_lt hs _ (Or.inr (Or.inr ⟨r, bm, hph⟩))
  have hnc : cs.contains s.descs.length = false := by
    cases hcc : cs.contains s.descs.length with
    | false => rfl
    | true => have := hwin _ (by simpa using hcc); omega
  have hvw : vw s (foldItems cs (items V s)) = foldItems cs (items V s) := vw_of_counting _ _ hcnt
  have hest : estV s cs (foldItems cs (items V s)) = (foldItems cs (items V s)).est := by
    unfold estV; rw [hnc, hvw]; simp
  have hbelow := hs.run_below _ _ _ hph
  -- the back references the walk uses are the candidates of the fold
  have hbr : brFor s bm.length = newCands (foldItems cs (items V s)).est bm (foldItems cs (items V s)).below := by
    unfold brFor newCands
    rcases hc.regs.backRefs with ⟨h1, h2⟩ | ⟨br, hbrne, h1, h2⟩
    · rw [hest] at h2
      rw [h1, h2]
      simp only
      rw [collect_eq_plainBelow V s hc.len _ hk (by omega), hbelow]
    · rw [hest] at h2
      rw [h1, h2]
      cases br with
      | nil => exact absurd rfl hbrne
      | cons x xs => rfl
  rw [buildBitmapped_eq] at hb
  split at hb
  · cases hb
  · next hlen =>
    have hlen' : (brFor s bm.length).length = bm.length := by simpa using hlen
    injection hb with hb
    subst hb
    have hfin := finalize_run _ _ _ _ hph
    -- the new state: same items, registers of the finalized fold state
    have hi : ∀ f g : Regs → Regs, items V ((s.setRegs f).setRegs g) = items V s :=
      fun f g => items_congr V _ _ rfl (by rw [hR.setRegs, hR.setRegs])
    have hvw' : ∀ s2 : St, s2.regs.bitmapDef = .na →
        vw s2 (foldItems cs (items V s)) = finalize (foldItems cs (items V s)) :=
      fun s2 h2 => vw_of_not_counting _ _ (by rw [h2]; exact fun x => nomatch x)
    refine ⟨by rw [hR.setRegs, hR.setRegs]; exact hc.len, ?_, ?_, hc.quiet, hc.cs_le, ?_, ?_, by rw [hi]; exact hc.complete⟩
    · rw [hi]; exact hc.links
    · rw [hi]; exact hc.qa
    · rw [hi]
      unfold PhaseRel
      show (foldItems cs (items V s)).ph = .idle ∨ ∃ p r bits, (foldItems cs (items V s)).ph = .run p r bits
      exact Or.inr ⟨_, _, _, hph⟩
    · rw [hi]
      have hne' : brFor s bm.length ≠ [] := by
        intro h0; rw [h0] at hlen'; simp at hlen'; omega
      refine ⟨Or.inr ⟨brFor s bm.length, hne', rfl, ?_⟩, Or.inr ?_, ?_⟩
      · unfold estV
        show (if cs.contains s.descs.length then none else _) = _
        rw [hnc, hvw' _ rfl, hfin, hbr]
        rfl
      · show some (zeroSel bm (brFor s bm.length)) = _
        rw [hvw' _ rfl, hfin, hbr]
        rfl
      · show (some (zeroSel bm (brFor s bm.length))).getD [] = _
        rw [hvw' _ rfl, hfin, hbr]
        rfl

/-- 235000: the back references and the recallable selection are forgotten; the time is added to the cancel times -/
theorem Core.cancel {V : St → List Val} (hS : ∀ s f, V (s.setRegs f) = V s) {s : St} {cs : List Nat} (hc : Core V s cs)
    (hst : s.regs.bitmapDef = .na ∨ s.regs.bitmapDef = .waiting) :
    Core V (s.setRegs fun r => { r with backRefs := none, bitmapped := none }) (cs ++ [s.descs.length]) := by
  have hi : items V (s.setRegs fun r => { r with backRefs := none, bitmapped := none }) = items V s :=
    items_congr V _ _ rfl (hS _ _)
  have hf : foldItems (cs ++ [s.descs.length]) (items V s) = foldItems cs (items V s) :=
    foldItems_cancel_end cs _ _ (by rw [items_length V s hc.len]; exact Nat.le_refl _)
  refine ⟨by rw [hS]; exact hc.len, ?_, ?_, hc.quiet, ?_, ?_, ?_, by rw [hi]; exact hc.complete⟩
  · rw [hi, hf]; exact hc.links
  · rw [hi, hf]; exact hc.qa
  · intro c hcm
    rcases List.mem_append.mp hcm with h | h
    · exact hc.cs_le c h
    · simp only [List.mem_singleton] at h; subst h; exact Nat.le_refl _
  · rw [hi, hf]
    have hp := hc.phase
    unfold PhaseRel at hp ⊢
    show (match s.regs.bitmapDef with | .na => _ | .indicator => _ | .waiting => _ | .counting => _)
    rcases hst with h | h <;> (rw [h] at hp ⊢; exact hp)
  · rw [hi, hf]
    refine ⟨Or.inl ⟨rfl, ?_⟩, Or.inl rfl, hc.regs.iter⟩
    unfold estV
    show (if (cs ++ [s.descs.length]).contains s.descs.length then none else _) = none
    have : (cs ++ [s.descs.length]).contains s.descs.length = true := by simp
    rw [this]; rfl

end Bufr.C07
