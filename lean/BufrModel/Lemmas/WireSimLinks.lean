/-
  C09, stage 2: the link between the coder and the wiring pass for templates with 206YYY and the BITMAP machine
  (222000 / 223000 / 224000 / 225000 / 232000, 235000, 236000, 237000, 237255, bitmap definitions by 031031 runs
  under fixed or delayed replication, marker operators 22x255 / 232255, class 33 values after 222000), WITHOUT
  associated fields (no 204), 203 and 221.

  The class `wireLinksOK` is decided by an abstract interpretation of the template (`absList`): the abstract state
  `Abs` holds what the wiring pass keeps (`waiting_for_qa_info_meaning`, the two `waiting_for_*_stats_meaning`
  flags, whether the two meaning nodes are known), the SET of values the coder's QA status can have at that
  point (the coder's machine and the flag of the wiring pass are switched by different events: findings F15,
  F-C07-wire-qa-across-operator) and whether a 206 skip is pending.  A class 33 element is accepted only where
  both walks agree on what it is: a quality value (flag set, coder status certainly not `na`) or an ordinary
  element (flag clear, status certainly `na`).  A replication body must be a fixed point after one round.

  The coder's bitmap registers (definition machine, back references, selection, iterator) are NOT related to
  anything: the wiring pass never looks at them.  What it needs is (1) that the coder recorded a link keyed by
  the position of every marker / quality value (`elementDescriptor_links`, `bitmappedDescriptor` below), (2) that
  the owner named by a link lies in front of the value (`C07.LinkInv`, proved for every template), so that its
  node is registered (`R.reg`: every index consumed is registered - there are no associated-field nodes here).
-/
import BufrModel.Lemmas.WireSim
import BufrModel.Lemmas.LinkInv
namespace Bufr.C09
open Bufr

/-! ### the coder's side -/

/-- descriptors, values, links and the registers the wiring pass has a counterpart for are the same -/
structure Vis (s s' : St) : Prop where
  descs : s'.descs = s.descs
  vals : s'.vals = s.vals
  links : s'.links = s.links
  assoc : s'.regs.assocStack = s.regs.assocStack
  nref : s'.regs.nbitsNewRefval = s.regs.nbitsNewRefval
  dnp : s'.regs.dnpCount = s.regs.dnpCount
  skipped : s'.regs.nbitsSkipped = s.regs.nbitsSkipped

theorem Vis.rfl' (s : St) : Vis s s := ⟨rfl, rfl, rfl, rfl, rfl, rfl, rfl⟩

theorem Vis.trans {a b c : St} (h1 : Vis a b) (h2 : Vis b c) : Vis a c :=
  ⟨h2.descs.trans h1.descs, h2.vals.trans h1.vals, h2.links.trans h1.links, h2.assoc.trans h1.assoc,
    h2.nref.trans h1.nref, h2.dnp.trans h1.dnp, h2.skipped.trans h1.skipped⟩

theorem buildBitmapped_vis {s s' : St} {bm : List Val} (h : buildBitmapped s bm = .ok s') :
    Vis s s' ∧ s'.regs.qa = s.regs.qa := by
  unfold buildBitmapped at h
  simp only at h
  split at h <;> split at h <;>
    first | (injection h with h; subst h; exact ⟨⟨rfl, rfl, rfl, rfl, rfl, rfl, rfl⟩, rfl⟩) | cases h

theorem bitmapDefinition_vis {P : Prims} {id : Nat} {s s' : St} (h : bitmapDefinition P id s = .ok s') :
    Vis s s' ∧ s'.regs.qa = s.regs.qa := by
  unfold bitmapDefinition at h
  split at h
  · injection h with h; subst h; exact ⟨Vis.rfl' s, rfl⟩
  · split at h <;> (injection h with h; subst h; exact ⟨⟨rfl, rfl, rfl, rfl, rfl, rfl, rfl⟩, rfl⟩)
  · split at h <;> (injection h with h; subst h; first | exact ⟨Vis.rfl' s, rfl⟩ | exact ⟨⟨rfl, rfl, rfl, rfl, rfl, rfl, rfl⟩, rfl⟩)
  · split at h
    · injection h with h; subst h; exact ⟨⟨rfl, rfl, rfl, rfl, rfl, rfl, rfl⟩, rfl⟩
    · simp only [bind, Except.bind, pure, Except.pure] at h
      split at h
      · cases h
      · split at h
        · cases h
        · next s1 hb =>
          injection h with h
          subst h
          obtain ⟨v, q⟩ := buildBitmapped_vis hb
          exact ⟨⟨v.descs, v.vals, v.links, v.assoc, v.nref, v.dnp, v.skipped⟩, q⟩

/-- what the coder's QA machine does at an element of class `x` -/
def qaStep (x : Nat) (q q' : QaStatus) : Prop :=
  if x = 33 then (q = .na ∧ q' = .na) ∨ (q ≠ .na ∧ q' = .processing)
  else q' = (if q = .processing then .na else q)

theorem nextBitmapped_vis {s s' : St} {x : Nat × Elem} (h : nextBitmapped s = .ok (x, s')) :
    Vis s s' ∧ s'.regs.qa = s.regs.qa := by
  unfold nextBitmapped at h
  split at h
  · cases h
  · cases h
  · injection h with h
    injection h with _ h
    subst h
    exact ⟨⟨rfl, rfl, rfl, rfl, rfl, rfl, rfl⟩, rfl⟩

/-- the QA part of `process_element_descriptor` -/
def qaPart (e : Elem) (s : St) : CM St :=
  if xOf e.id = 33 then
    let s1 := if s.regs.qa = .waiting then s.setRegs fun r => { r with qa := .processing } else s
    if s1.regs.qa = .processing then do
      let ((owner, _), s2) ← nextBitmapped s1
      pure (addLink s2 owner)
    else pure s1
  else
    pure (if s.regs.qa = .processing then s.setRegs fun r => { r with qa := .na } else s)

/-- the rest: the item itself -/
def elemTail (P : Prims) (dd : DDesc) (e : Elem) (s : St) : CM St :=
  match e.kind with
  | .string =>
    let nbytes := if s.regs.newNbytes ≠ 0 then s.regs.newNbytes else e.nbits / 8
    P.string dd nbytes s
  | .codeflag => P.codeflag dd e.nbits s
  | .numeric =>
    let nbits : Int := (e.nbits : Int) + s.regs.nbitsOffset + s.regs.nbitsInc
    let scale : Int := e.scale + s.regs.scaleOffset + s.regs.scaleInc
    match lookupRef s.regs.newRefvals e.id with
    | none => P.numeric dd nbits scale (e.ref * s.regs.refFactor) s
    | some nr => P.numeric dd nbits scale (nr * s.regs.refFactor) s

theorem elementDescriptor_eq (P : Prims) (dd : DDesc) (e : Elem) (s : St) (ha : s.regs.assocStack = []) :
    elementDescriptor P dd e s = (qaPart e s >>= elemTail P dd e) := by
  unfold elementDescriptor qaPart elemTail
  have hc : ¬ (s.regs.assocStack ≠ [] ∧ xOf e.id ≠ 31) := fun c => c.1 ha
  simp only [if_neg hc, bind, Except.bind, pure, Except.pure]
  rfl

theorem elemTail_pushed {P : Prims} (hP : PushOne P) {dd : DDesc} {e : Elem} {s s' : St}
    (h : elemTail P dd e s = .ok s') : Pushed dd s s' := by
  unfold elemTail at h
  split at h
  · exact hP.string _ _ _ _ h
  · exact hP.codeflag _ _ _ _ h
  · split at h
    · exact hP.numeric _ _ _ _ _ _ h
    · exact hP.numeric _ _ _ _ _ _ h

/-- what `qaPart` leaves behind -/
structure QaDone (x : Nat) (s s1 : St) (ll : List (Nat × Nat)) : Prop where
  descs : s1.descs = s.descs
  vals : s1.vals = s.vals
  links : s1.links = ll ++ s.links
  keys : ∀ q ∈ ll, q.1 = s.descs.length
  nil : ll = [] ↔ ¬ (x = 33 ∧ s.regs.qa ≠ .na)
  assoc : s1.regs.assocStack = s.regs.assocStack
  nref : s1.regs.nbitsNewRefval = s.regs.nbitsNewRefval
  dnp : s1.regs.dnpCount = s.regs.dnpCount
  skipped : s1.regs.nbitsSkipped = s.regs.nbitsSkipped
  qa : qaStep x s.regs.qa s1.regs.qa

theorem qaPart_done {e : Elem} {s s1 : St} (h : qaPart e s = .ok s1) : ∃ ll, QaDone (xOf e.id) s s1 ll := by
  unfold qaPart at h
  by_cases hx : xOf e.id = 33
  · simp only [hx, if_true] at h
    cases hq : s.regs.qa with
    | na =>
      simp only [hq, reduceCtorEq, if_false, pure, Except.pure] at h
      injection h with h
      subst h
      refine ⟨[], rfl, rfl, rfl, by simp, by simp [hq], rfl, rfl, rfl, rfl, ?_⟩
      unfold qaStep; rw [if_pos hx, hq]; exact Or.inl ⟨rfl, rfl⟩
    | waiting =>
      simp only [hq, if_true, St.setRegs, bind, Except.bind, pure, Except.pure] at h
      split at h
      · cases h
      · next x hn =>
        injection h with h
        subst h
        obtain ⟨v, q⟩ := nextBitmapped_vis (x := x.1) (s' := x.2) hn
        refine ⟨[(s.descs.length, x.1.1)], v.descs, v.vals, ?_, by simp, by simp [hx, hq],
          v.assoc, v.nref, v.dnp, v.skipped, ?_⟩
        · show (x.2.descs.length, x.1.1) :: x.2.links = _
          rw [v.descs, v.links]; rfl
        · unfold qaStep; rw [if_pos hx, hq]
          exact Or.inr ⟨by simp, q⟩
    | processing =>
      simp only [hq, reduceCtorEq, if_false, if_true, bind, Except.bind, pure, Except.pure] at h
      split at h
      · cases h
      · next x hn =>
        injection h with h
        subst h
        obtain ⟨v, q⟩ := nextBitmapped_vis (x := x.1) (s' := x.2) hn
        refine ⟨[(s.descs.length, x.1.1)], v.descs, v.vals, ?_, by simp, by simp [hx, hq],
          v.assoc, v.nref, v.dnp, v.skipped, ?_⟩
        · show (x.2.descs.length, x.1.1) :: x.2.links = _
          rw [v.descs, v.links]; rfl
        · unfold qaStep; rw [if_pos hx, hq]
          exact Or.inr ⟨by simp, q.trans hq⟩
  · simp only [hx, if_false, pure, Except.pure] at h
    injection h with h
    subst h
    refine ⟨[], ?_, ?_, ?_, by simp, by simp [hx], ?_, ?_, ?_, ?_, ?_⟩
    · split <;> rfl
    · split <;> rfl
    · split <;> rfl
    · split <;> rfl
    · split <;> rfl
    · split <;> rfl
    · split <;> rfl
    · unfold qaStep
      rw [if_neg hx]
      split <;> rfl

/-- `process_element_descriptor` without associated field: possibly a link keyed by the own position (class 33
    while quality information is awaited), the QA machine steps, then ONE item is recorded -/
theorem elementDescriptor_links {P : Prims} (hP : PushOne P) {dd : DDesc} {e : Elem} {s s' : St}
    (ha : s.regs.assocStack = []) (h : elementDescriptor P dd e s = .ok s') :
    ∃ s1 ll, QaDone (xOf e.id) s s1 ll ∧ Pushed dd s1 s' := by
  rw [elementDescriptor_eq P dd e s ha] at h
  cases h1 : qaPart e s with
  | error err => rw [h1] at h; cases h
  | ok s1 =>
    rw [h1] at h
    obtain ⟨ll, hd⟩ := qaPart_done h1
    exact ⟨s1, ll, hd, elemTail_pushed hP h⟩

/-! ### the relation -/

def QaIn (a : Abs) : QaStatus → Prop
  | .na => a.qN = true
  | .waiting => a.qW = true
  | .processing => a.qP = true

/-- the coder's side: no associated field, no 203 definition, no 221 count; aligned value lists; no `A` label -/
structure Inv2 (a : Abs) (s : St) : Prop where
  assoc : s.regs.assocStack = []
  nref : s.regs.nbitsNewRefval = 0
  dnp : s.regs.dnpCount = 0
  vals : ∃ l, s.vals.head? = some l ∧ l.length = s.descs.length
  al : ∀ l ∈ s.vals, l.length = s.descs.length
  noA : ∀ d ∈ s.descs, d.isAssoc = false
  skip : decide (s.regs.nbitsSkipped ≠ 0) = a.skip
  qa : QaIn a s.regs.qa

/-- what is known about the FINAL flat lists: an owner lies in front of a bit-map operator item that lies in front of
    the attribute (`C07.LinkInv`, proved for every template), no `A` label -/
def Fin (o : SubsetOut) : Prop :=
  (∀ l ∈ o.links, ∃ p id, l.2 < p ∧ p < l.1 ∧ C07.IsBitmapOp id ∧ o.descs[p]? = some (.oper id)) ∧
    (∀ d ∈ o.descs, d.isAssoc = false)

def Ext2 (s s' : St) : Prop := Ext s s' ∧ ∃ ll, s'.links = ll ++ s.links

def Below2 (o : SubsetOut) (s : St) : Prop := Below o s ∧ s.links.reverse <+: o.links

theorem Ext2.trans {a b c : St} (h1 : Ext2 a b) (h2 : Ext2 b c) : Ext2 a c := by
  obtain ⟨e1, l1, h1⟩ := h1
  obtain ⟨e2, l2, h2⟩ := h2
  exact ⟨e1.trans e2, l2 ++ l1, by rw [h2, h1, List.append_assoc]⟩

theorem Below2.of_ext {o : SubsetOut} {s s' : St} (h : Ext2 s s') (hb : Below2 o s') : Below2 o s := by
  obtain ⟨e, ll, hl⟩ := h
  refine ⟨Below.of_ext e hb.1, ?_⟩
  have := hb.2
  rw [hl, List.reverse_append] at this
  exact (List.prefix_append _ _).trans this

theorem Inv2.ext_refl {a : Abs} {s : St} (h : Inv2 a s) : Ext2 s s := by
  obtain ⟨l, hl, _⟩ := h.vals
  exact ⟨⟨[], [], l, hl, by simpa using hl, rfl⟩, [], rfl⟩

/-- no item of a bit-map operator at the positions `m .. n-1` of the final label list -/
def NoOpFrom (o : SubsetOut) (m n : Nat) : Prop :=
  ∀ p id, m ≤ p → p < n → o.descs[p]? = some (.oper id) → ¬ C07.IsBitmapOp id

/-- a meaning node that is known lies behind the last bit-map operator -/
def MeanOK (o : SubsetOut) (b : Bool) (fm : Option Nat) (n : Nat) : Prop :=
  b = true → ∃ m, fm = some m ∧ m < n ∧ NoOpFrom o m n

/-- the attributes a bitmap-linked node is created with: none, or its meaning node, which lies behind the owner -/
def OwnOK (owner i : Nat) (own : List Node) : Prop :=
  own = [] ∨ ∃ m, own = [.value .value m []] ∧ owner < m ∧ m < i

def NonOp (dd : DDesc) : Prop := ∀ id, dd = .oper id → ¬ C07.IsBitmapOp id

/-- the wiring pass's side -/
structure R (o : SubsetOut) (a : Abs) (s : St) (w : WSt) : Prop where
  next : w.next = s.descs.length
  dnp : w.dnp = 0
  assoc : w.assoc = []
  wq : w.waitQa = a.w
  w1 : w.wait1st = a.w1
  wD : w.waitDiff = a.wD
  m1 : MeanOK o a.h1 w.firstMeaning w.next
  mD : MeanOK o a.hD w.diffMeaning w.next
  reg : ∀ j, j < w.next → j ∈ w.reg
  tabS : ∀ p ∈ w.tab, ∃ k i own, p.2 = .value k i own ∧ p.1 < i ∧ i < w.next ∧
    lookupLink o.links i = some p.1 ∧ OwnOK p.1 i own
  tabC : ∀ q ∈ s.links, ∃ p ∈ w.tab, p.2.index? = some q.1

def Sim2 {α : Type} (a a' : Abs) (good : SubsetOut → α → Prop) (s s' : St)
    (run : SubsetOut → WSt → CM (α × WSt)) : Prop :=
  (Inv2 a' s' ∧ Ext2 s s') ∧ ∀ o w, Fin o → R o a s w → Below2 o s' →
    ∃ n w', run o w = .ok (n, w') ∧ R o a' s' w' ∧ good o n

theorem Sim2.seq {α β γ : Type} {a a1 a' : Abs} {g1 : SubsetOut → α → Prop}
    {g2 : SubsetOut → β → Prop} {g : SubsetOut → γ → Prop} {s s1 s' : St}
    {r1 : SubsetOut → WSt → CM (α × WSt)} {r2 : SubsetOut → WSt → CM (β × WSt)}
    {r : SubsetOut → WSt → CM (γ × WSt)}
    (h1 : Sim2 a a1 g1 s s1 r1) (h2 : Sim2 a1 a' g2 s1 s' r2)
    (hr : ∀ o w x w1 y w2, r1 o w = .ok (x, w1) → r2 o w1 = .ok (y, w2) → g1 o x → g2 o y →
      ∃ c, r o w = .ok (c, w2) ∧ g o c) :
    Sim2 a a' g s s' r := by
  refine ⟨⟨h2.1.1, h1.1.2.trans h2.1.2⟩, fun o w hf hw hb => ?_⟩
  obtain ⟨x, w1, e1, hw1, gx⟩ := h1.2 o w hf hw (Below2.of_ext h2.1.2 hb)
  obtain ⟨y, w2, e2, hw2, gy⟩ := h2.2 o w1 hf hw1 hb
  obtain ⟨c, e, gc⟩ := hr o w x w1 y w2 e1 e2 gx gy
  exact ⟨c, w2, e, hw2, gc⟩

/-! ### `lookupLink` finds an entry when there is one -/

theorem lookup_foldl (i : Nat) : ∀ (l : List (Nat × Nat)) (acc : Option Nat),
    ((∃ own, (i, own) ∈ l) ∨ acc.isSome = true) →
    ∃ own', l.foldl (fun acc p => if p.1 = i then some p.2 else acc) acc = some own' ∧
      ((i, own') ∈ l ∨ acc = some own')
  | [], acc, h => by
    rcases h with ⟨_, h⟩ | h
    · cases h
    · cases acc with
      | none => cases h
      | some x => exact ⟨x, rfl, Or.inr rfl⟩
  | p :: l, acc, h => by
    rw [List.foldl_cons]
    by_cases hp : p.1 = i
    · rw [if_pos hp]
      obtain ⟨own', e, hm⟩ := lookup_foldl i l (some p.2) (Or.inr rfl)
      refine ⟨own', e, Or.inl ?_⟩
      rcases hm with hm | hm
      · exact List.mem_cons_of_mem _ hm
      · injection hm with hm
        rw [← hm, ← hp]
        exact List.mem_cons_self
    · rw [if_neg hp]
      have : (∃ own, (i, own) ∈ l) ∨ acc.isSome = true := by
        rcases h with ⟨own, h⟩ | h
        · rcases List.mem_cons.mp h with h | h
          · exact absurd (by rw [← h]) hp
          · exact Or.inl ⟨own, h⟩
        · exact Or.inr h
      obtain ⟨own', e, hm⟩ := lookup_foldl i l acc this
      refine ⟨own', e, ?_⟩
      rcases hm with hm | hm
      · exact Or.inl (List.mem_cons_of_mem _ hm)
      · exact Or.inr hm

theorem lookupLink_mem {links : List (Nat × Nat)} {i own : Nat} (h : (i, own) ∈ links) :
    ∃ own', lookupLink links i = some own' ∧ (i, own') ∈ links := by
  obtain ⟨own', e, hm⟩ := lookup_foldl i links none (Or.inl ⟨own, h⟩)
  refine ⟨own', e, ?_⟩
  rcases hm with hm | hm
  · exact hm
  · cases hm

/-! ### unfolding one step of both walks -/

/-- the dispatch of `process_members` after the prelude -/
def disp (P : Prims) (d : Desc) (s : St) : CM St :=
  match d with
  | .elem e => elementDescriptor P (.plain e) e s
  | .fixedRep id ms => iterN (yOf id) (walkList P ms) s
  | .delayedRep _ f ms =>
    match f with
    | .elem fe =>
      match elementDescriptor P (.plain fe) fe s with
      | .error e => .error e
      | .ok s1 =>
        match P.factorValue s1 >>= factorCount with
        | .error e => .error e
        | .ok n => iterN n (walkList P ms) s1
    | _ => .error .unknownDescr
  | .op id => operatorDescriptor P id s
  | .seq _ ms => walkList P ms s
  | .undefElem _ => .error .unknownDescr
  | .undefSeq _ => .error .unknownDescr

theorem walk1_inv (P : Prims) (d : Desc) (s0 : St) (hd : s0.regs.dnpCount = 0) (hn : s0.regs.nbitsNewRefval = 0) :
    walk1 P d s0 =
      (if s0.regs.nbitsSkipped ≠ 0 then
        (do let s' ← P.codeflag (.skipped d.id s0.regs.nbitsSkipped) s0.regs.nbitsSkipped s0
            pure (s'.setRegs fun r => { r with nbitsSkipped := 0 }))
       else match bitmapDefinition P d.id s0 with
         | .error e => .error e
         | .ok s => disp P d s) := by
  cases d <;> rw [walk1] <;>
    first
    | (intro e h; cases h)
    | (simp only [hd, hn, ne_eq, not_true_eq_false, decide_false, Bool.false_and, Bool.false_eq_true, if_false,
        disp]
       try rfl)

theorem preW_zero {w : WSt} (h : w.dnp = 0) : preW w = w := by
  unfold preW
  rw [if_neg (by simp [h])]

/-! ### abstract QA status: soundness of the transfer functions -/

theorem qaIn_non33 {a : Abs} {x : Nat} {q q' : QaStatus} (hx : x ≠ 33) (h : QaIn a q) (hs : qaStep x q q') :
    QaIn a.non33 q' := by
  unfold qaStep at hs
  rw [if_neg hx] at hs
  subst hs
  cases q <;> simp_all [QaIn, Abs.non33]

theorem qaIn_c33 {a a' : Abs} {q q' : QaStatus} (hc : a.c33 = some a') (h : QaIn a q) (hs : qaStep 33 q q') :
    QaIn a' q' ∧ (a.w = true ↔ q ≠ .na) ∧ a'.w = a.w ∧ a'.w1 = a.w1 ∧ a'.wD = a.wD ∧ a'.h1 = a.h1 ∧
      a'.hD = a.hD ∧ a'.skip = a.skip := by
  unfold qaStep at hs
  simp only [if_true] at hs
  unfold Abs.c33 at hc
  cases hw : a.w <;> simp only [hw, if_true, Bool.false_eq_true, if_false] at hc
  · split at hc
    · cases hc
    · next hn =>
      injection hc with hc
      subst hc
      simp only [Bool.or_eq_true, not_or, Bool.not_eq_true] at hn
      cases q <;> simp_all [QaIn]
  · split at hc
    · cases hc
    · next hn =>
      injection hc with hc
      subst hc
      cases q <;> simp_all [QaIn]

theorem qaIn_marker {a : Abs} {x : Nat} {q q' : QaStatus} (h : QaIn a q) (hs : qaStep x q q') :
    QaIn a.marker q' := by
  unfold qaStep at hs
  split at hs
  · rcases hs with ⟨h1, h2⟩ | ⟨h1, h2⟩
    · subst h1 h2; simp_all [QaIn, Abs.marker]
    · subst h2; cases q <;> simp_all [QaIn, Abs.marker]
  · subst hs
    cases q <;> simp_all [QaIn, Abs.marker]

theorem qaIn_meaning {a : Abs} {id : Nat} {q : QaStatus} (h : QaIn a q) : QaIn (a.meaning id) q := by
  unfold Abs.meaning
  split
  · cases q <;> exact h
  · split
    · cases q <;> exact h
    · exact h

theorem x33_not_meaning {id : Nat} (h : xOf id = 33) : id ≠ 8023 ∧ id ≠ 8024 := by
  constructor <;> (intro e; subst e; revert h; decide)

/-! ### the wiring pass: one value node -/

theorem take_eval {o : SubsetOut} {w : WSt} (hlt : w.next < o.descs.length) :
    w.take o = .ok (w.next, { w with next := w.next + 1 }) := by
  unfold WSt.take
  rw [if_pos hlt]

theorem plainValue_eval {o : SubsetOut} {w : WSt} (hlt : w.next < o.descs.length) :
    w.plainValue o = .ok (.value .value w.next [], { w with next := w.next + 1, reg := w.next :: w.reg }) := by
  unfold WSt.plainValue WSt.valueNode
  rw [take_eval hlt]
  rfl

/-- the meaning bookkeeping of `wire_element_descriptor` on the state after the value node -/
def meanW (id : Nat) (w : WSt) : WSt :=
  let w1 : WSt := { w with next := w.next + 1, reg := w.next :: w.reg }
  if id = 8023 ∧ w.wait1st = true then { w1 with firstMeaning := some w.next, wait1st := false }
  else if id = 8024 ∧ w.waitDiff = true then { w1 with diffMeaning := some w.next, waitDiff := false }
  else w1

theorem wireElement_plain {o : SubsetOut} {id : Nat} {w : WSt} (hlt : w.next < o.descs.length)
    (ha : w.assoc = []) (hq : ¬ (xOf id = 33 ∧ w.waitQa = true)) :
    wireElement o id w = .ok (.value .value w.next [], meanW id w) := by
  unfold wireElement WSt.valueNode
  have h1 : ¬ (w.assoc ≠ [] ∧ xOf id ≠ 31) := fun c => c.1 ha
  have h2 : ¬ (id = 31021 ∧ w.assoc ≠ []) := fun c => c.2 ha
  rw [if_neg h1, if_neg hq, take_eval hlt]
  simp only [WSt.register, h2, ↓reduceIte]
  unfold meanW
  by_cases c1 : id = 8023 <;> by_cases c1' : w.wait1st = true <;> by_cases c2 : id = 8024 <;>
    by_cases c2' : w.waitDiff = true <;> simp_all

theorem bitmapAttr_eval {o : SubsetOut} {w : WSt} {i owner : Nat} {n : Node}
    (hl : lookupLink o.links i = some owner) (hr : owner ∈ w.reg) :
    w.bitmapAttr o i n = .ok { w with tab := (owner, n) :: w.tab } := by
  unfold WSt.bitmapAttr
  rw [hl]
  simp only [if_pos hr]

/-- the position recorded last is found in the final label list -/
theorem take2 {o : SubsetOut} {dd : DDesc} {s s1 : St} {w : WSt} (hp : Pushed dd s s1)
    (hn : w.next = s.descs.length) (hb : Below o s1) :
    w.next < o.descs.length ∧ o.descs[w.next]? = some dd := by
  have hlen := hb.len
  rw [hp.descs, List.length_cons] at hlen
  exact ⟨by omega, by rw [hn]; exact hb.label hp.descs⟩

theorem MeanOK.push {o : SubsetOut} {b : Bool} {fm : Option Nat} {n : Nat} {dd : DDesc} (h : MeanOK o b fm n)
    (hl : o.descs[n]? = some dd) (hd : NonOp dd) : MeanOK o b fm (n + 1) := by
  intro hb
  obtain ⟨m, e, hm, hno⟩ := h hb
  refine ⟨m, e, by omega, fun p id h1 h2 h3 => ?_⟩
  by_cases hp : p < n
  · exact hno p id h1 hp h3
  · have : p = n := by omega
    subst this
    rw [hl] at h3
    injection h3 with h3
    exact hd id h3

theorem MeanOK.new {o : SubsetOut} {b : Bool} {n : Nat} {dd : DDesc} (hl : o.descs[n]? = some dd) (hd : NonOp dd) :
    MeanOK o b (some n) (n + 1) := by
  intro _
  refine ⟨n, rfl, by omega, fun p id h1 h2 h3 => ?_⟩
  have : p = n := by omega
  subst this
  rw [hl] at h3
  injection h3 with h3
  exact hd id h3

theorem MeanOK.off {o : SubsetOut} {fm : Option Nat} {n : Nat} : MeanOK o false fm n := fun h => by cases h

theorem MeanOK.congr {o : SubsetOut} {b b' : Bool} {fm : Option Nat} {n : Nat} (h : MeanOK o b fm n) (e : b' = b) :
    MeanOK o b' fm n := by rw [e]; exact h

/-- one index consumed, nothing attached -/
theorem R.value {o : SubsetOut} {a a' : Abs} {s s' : St} {w w' : WSt} (h : R o a s w)
    (hd : s'.descs.length = s.descs.length + 1) (hl : s'.links = s.links)
    (hnext : w'.next = w.next + 1) (hdnp : w'.dnp = w.dnp) (hassoc : w'.assoc = w.assoc)
    (hreg : w'.reg = w.next :: w.reg) (htab : w'.tab = w.tab)
    (wq : w'.waitQa = a'.w) (w1 : w'.wait1st = a'.w1) (wD : w'.waitDiff = a'.wD)
    (m1 : MeanOK o a'.h1 w'.firstMeaning w'.next) (mD : MeanOK o a'.hD w'.diffMeaning w'.next) : R o a' s' w' := by
  refine ⟨by rw [hnext, hd, h.next], by rw [hdnp, h.dnp], by rw [hassoc, h.assoc], wq, w1, wD, m1, mD, ?_, ?_, ?_⟩
  · intro j hj
    rw [hreg]
    by_cases e : j = w.next
    · rw [e]; exact List.mem_cons_self
    · exact List.mem_cons_of_mem _ (h.reg j (by omega))
  · intro p hp
    rw [htab] at hp
    obtain ⟨k, i, own, e1, e0, e2, e3, e4⟩ := h.tabS p hp
    exact ⟨k, i, own, e1, e0, by omega, e3, e4⟩
  · intro q hq
    rw [hl] at hq
    rw [htab]
    exact h.tabC q hq

/-- no index consumed -/
theorem R.stay {o : SubsetOut} {a a' : Abs} {s s' : St} {w w' : WSt} (h : R o a s w)
    (hd : s'.descs = s.descs) (hl : s'.links = s.links)
    (hnext : w'.next = w.next) (hdnp : w'.dnp = w.dnp) (hassoc : w'.assoc = w.assoc)
    (hreg : w'.reg = w.reg) (htab : w'.tab = w.tab)
    (wq : w'.waitQa = a'.w) (w1 : w'.wait1st = a'.w1) (wD : w'.waitDiff = a'.wD)
    (m1 : MeanOK o a'.h1 w'.firstMeaning w'.next) (mD : MeanOK o a'.hD w'.diffMeaning w'.next) : R o a' s' w' := by
  refine ⟨by rw [hnext, hd, h.next], by rw [hdnp, h.dnp], by rw [hassoc, h.assoc], wq, w1, wD, m1, mD, ?_, ?_, ?_⟩
  · intro j hj
    rw [hreg]
    exact h.reg j (by omega)
  · intro p hp
    rw [htab] at hp
    obtain ⟨k, i, own, e1, e0, e2, e3, e4⟩ := h.tabS p hp
    exact ⟨k, i, own, e1, e0, by omega, e3, e4⟩
  · intro q hq
    rw [hl] at hq
    rw [htab]
    exact h.tabC q hq

/-- one index consumed and attached to the owner its link names -/
theorem R.attr {o : SubsetOut} {a a' : Abs} {s s' : St} {w w' : WSt} {ll : List (Nat × Nat)} {k : VKind}
    {own : List Node} {owner : Nat} (h : R o a s w)
    (hd : s'.descs.length = s.descs.length + 1) (hl : s'.links = ll ++ s.links)
    (hk : ∀ q ∈ ll, q.1 = s.descs.length) (hlook : lookupLink o.links w.next = some owner)
    (hlt : owner < w.next) (hown : OwnOK owner w.next own)
    (hnext : w'.next = w.next + 1) (hdnp : w'.dnp = w.dnp) (hassoc : w'.assoc = w.assoc)
    (hreg : w'.reg = w.next :: w.reg) (htab : w'.tab = (owner, .value k w.next own) :: w.tab)
    (wq : w'.waitQa = a'.w) (w1 : w'.wait1st = a'.w1) (wD : w'.waitDiff = a'.wD)
    (m1 : MeanOK o a'.h1 w'.firstMeaning w'.next) (mD : MeanOK o a'.hD w'.diffMeaning w'.next) : R o a' s' w' := by
  refine ⟨by rw [hnext, hd, h.next], by rw [hdnp, h.dnp], by rw [hassoc, h.assoc], wq, w1, wD, m1, mD, ?_, ?_, ?_⟩
  · intro j hj
    rw [hreg]
    by_cases e : j = w.next
    · rw [e]; exact List.mem_cons_self
    · exact List.mem_cons_of_mem _ (h.reg j (by omega))
  · intro p hp
    rw [htab] at hp
    rcases List.mem_cons.mp hp with rfl | hp
    · exact ⟨k, w.next, own, rfl, hlt, by omega, hlook, hown⟩
    · obtain ⟨k', i, own', e1, e0, e2, e3, e4⟩ := h.tabS p hp
      exact ⟨k', i, own', e1, e0, by omega, e3, e4⟩
  · intro q hq
    rw [hl] at hq
    rw [htab]
    rcases List.mem_append.mp hq with hq | hq
    · exact ⟨_, List.mem_cons_self, by rw [hk q hq, ← h.next]; rfl⟩
    · obtain ⟨p, hp, e⟩ := h.tabC q hq
      exact ⟨p, List.mem_cons_of_mem _ hp, e⟩

/-- a silent step of the coder (registers the pass does not see) -/
theorem R.vis {o : SubsetOut} {a : Abs} {s s1 : St} {w : WSt} (h : R o a s w) (v : Vis s s1) : R o a s1 w :=
  ⟨by rw [v.descs]; exact h.next, h.dnp, h.assoc, h.wq, h.w1, h.wD, h.m1, h.mD, h.reg, h.tabS,
    by rw [v.links]; exact h.tabC⟩

/-! ### one item recorded by the coder -/

/-- the label `dd` and one value were recorded, links `ll` (all keyed by the position of the item) were added -/
structure Item (dd : DDesc) (ll : List (Nat × Nat)) (s s' : St) : Prop where
  descs : s'.descs = dd :: s.descs
  vals : ∀ l, s.vals.head? = some l → ∃ v, s'.vals.head? = some (v :: l)
  al : (∀ l ∈ s.vals, l.length = s.descs.length) → ∀ l ∈ s'.vals, l.length = s'.descs.length
  links : s'.links = ll ++ s.links
  keys : ∀ q ∈ ll, q.1 = s.descs.length
  assoc : s'.regs.assocStack = s.regs.assocStack
  nref : s'.regs.nbitsNewRefval = s.regs.nbitsNewRefval
  dnp : s'.regs.dnpCount = s.regs.dnpCount

theorem Item.of_pushed {dd : DDesc} {s s' : St} (h : Pushed dd s s') : Item dd [] s s' :=
  ⟨h.descs, h.vals, h.al, h.links, (fun _ hq => by cases hq), h.assoc, h.nref, h.dnp⟩

theorem Item.pre {dd : DDesc} {ll : List (Nat × Nat)} {s s0 s' : St} (v : Vis s s0) (h : Item dd ll s0 s') :
    Item dd ll s s' :=
  ⟨by rw [h.descs, v.descs], by rw [← v.vals]; exact h.vals, by rw [← v.vals, ← v.descs]; exact h.al,
    by rw [h.links, v.links], by rw [← v.descs]; exact h.keys, h.assoc.trans v.assoc, h.nref.trans v.nref,
    h.dnp.trans v.dnp⟩

theorem Item.post {dd : DDesc} {ll : List (Nat × Nat)} {s s1 s' : St} (h : Item dd ll s s1) (v : Vis s1 s') :
    Item dd ll s s' :=
  ⟨by rw [v.descs, h.descs], by rw [v.vals]; exact h.vals, by rw [v.vals, v.descs]; exact h.al,
    by rw [v.links, h.links], h.keys, v.assoc.trans h.assoc, v.nref.trans h.nref, v.dnp.trans h.dnp⟩

theorem Item.of_qa {x : Nat} {dd : DDesc} {ll : List (Nat × Nat)} {s s1 s' : St} (q : QaDone x s s1 ll)
    (h : Pushed dd s1 s') : Item dd ll s s' :=
  ⟨by rw [h.descs, q.descs], by rw [← q.vals]; exact h.vals, by rw [← q.vals, ← q.descs]; exact h.al,
    by rw [h.links, q.links], q.keys, h.assoc.trans q.assoc, h.nref.trans q.nref, h.dnp.trans q.dnp⟩

theorem Item.ext {dd : DDesc} {ll : List (Nat × Nat)} {a : Abs} {s s' : St} (hi : Inv2 a s) (it : Item dd ll s s') :
    Ext2 s s' := by
  obtain ⟨l, hl, _⟩ := hi.vals
  obtain ⟨v, hv⟩ := it.vals l hl
  exact ⟨⟨[dd], [v], l, hl, hv, it.descs⟩, ll, it.links⟩

theorem Item.inv {dd : DDesc} {ll : List (Nat × Nat)} {a a' : Abs} {s s' : St} (hi : Inv2 a s) (it : Item dd ll s s')
    (hA : dd.isAssoc = false) (hsk : decide (s'.regs.nbitsSkipped ≠ 0) = a'.skip) (hqa : QaIn a' s'.regs.qa) :
    Inv2 a' s' := by
  obtain ⟨l, hl, hn⟩ := hi.vals
  obtain ⟨v, hv⟩ := it.vals l hl
  refine ⟨it.assoc.trans hi.assoc, it.nref.trans hi.nref, it.dnp.trans hi.dnp,
    ⟨v :: l, hv, by rw [it.descs, List.length_cons, List.length_cons, hn]⟩, it.al hi.al, ?_, hsk, hqa⟩
  intro d hd
  rw [it.descs] at hd
  rcases List.mem_cons.mp hd with rfl | hd
  · exact hA
  · exact hi.noA d hd

theorem Inv2.vis {a : Abs} {s s1 : St} (hi : Inv2 a s) (v : Vis s s1) (hq : s1.regs.qa = s.regs.qa) : Inv2 a s1 :=
  ⟨v.assoc.trans hi.assoc, v.nref.trans hi.nref, v.dnp.trans hi.dnp, by rw [v.vals, v.descs]; exact hi.vals,
    by rw [v.vals, v.descs]; exact hi.al, by rw [v.descs]; exact hi.noA, by rw [v.skipped]; exact hi.skip,
    by rw [hq]; exact hi.qa⟩

theorem Vis.ext2 {a : Abs} {s s1 : St} (hi : Inv2 a s) (v : Vis s s1) : Ext2 s s1 := by
  obtain ⟨l, hl, _⟩ := hi.vals
  exact ⟨⟨[], [], l, hl, by rw [v.vals]; simpa using hl, by rw [v.descs]; rfl⟩, [], by rw [v.links]; rfl⟩

/-- a silent step of the coder in front of a simulated piece -/
theorem Sim2.pre {α : Type} {a a' : Abs} {g : SubsetOut → α → Prop} {s s1 s' : St}
    {run : SubsetOut → WSt → CM (α × WSt)} (hi : Inv2 a s) (v : Vis s s1)
    (h : Sim2 a a' g s1 s' run) : Sim2 a a' g s s' run :=
  ⟨⟨h.1.1, (v.ext2 hi).trans h.1.2⟩, fun o w hf hr hb => h.2 o w hf (hr.vis v) hb⟩

/-! ### the shape of the nodes -/

def ownShape (i : Nat) : List Node → Bool
  | [] => true
  | [.value .value m []] => decide (m < i)
  | _ => false

def valShape (N : Nat) : Node → Bool
  | .value _ i own => decide (i < N) && ownShape i own
  | _ => false

mutual
def shapeList (N : Nat) : List Node → Bool
  | [] => true
  | n :: ns => shape1 N n && shapeList N ns

def shape1 (N : Nat) : Node → Bool
  | .value k i own => valShape N (.value k i own)
  | .noval _ => true
  | .seq _ ms => shapeList N ms
  | .fixedRep _ _ ms => shapeList N ms
  | .delayedRep _ _ f ms => valShape N f && shapeList N ms
end

def Good1 (o : SubsetOut) (n : Node) : Prop := treeOK1 o n = true ∧ shape1 o.descs.length n = true
def GoodL (o : SubsetOut) (ns : List Node) : Prop := treeOKList o ns = true ∧ shapeList o.descs.length ns = true

theorem good_plain {o : SubsetOut} {k : VKind} {i : Nat} (h : i < o.descs.length) : Good1 o (.value k i []) := by
  constructor
  · rw [treeOK1]; rfl
  · simp [shape1, valShape, ownShape, h]

theorem good_noval (o : SubsetOut) (id : Nat) : Good1 o (.noval id) := ⟨by rw [treeOK1], by rw [shape1]⟩

theorem shapeList_append (N : Nat) : ∀ (a b : List Node), shapeList N (a ++ b) = (shapeList N a && shapeList N b)
  | [], b => by rw [List.nil_append, shapeList]; rfl
  | x :: xs, b => by rw [List.cons_append, shapeList, shapeList, shapeList_append N xs b, Bool.and_assoc]

theorem treeOKList_append (o : SubsetOut) : ∀ (a b : List Node),
    treeOKList o (a ++ b) = (treeOKList o a && treeOKList o b)
  | [], b => by rw [List.nil_append, treeOKList]; rfl
  | x :: xs, b => by rw [List.cons_append, treeOKList, treeOKList, treeOKList_append o xs b, Bool.and_assoc]

theorem GoodL.append {o : SubsetOut} {a b : List Node} (ha : GoodL o a) (hb : GoodL o b) : GoodL o (a ++ b) :=
  ⟨by rw [treeOKList_append, ha.1, hb.1]; rfl, by rw [shapeList_append, ha.2, hb.2]; rfl⟩

theorem GoodL.cons {o : SubsetOut} {a : Node} {b : List Node} (ha : Good1 o a) (hb : GoodL o b) : GoodL o (a :: b) :=
  ⟨by rw [treeOKList, ha.1, hb.1]; rfl, by rw [shapeList, ha.2, hb.2]; rfl⟩

theorem GoodL.nil (o : SubsetOut) : GoodL o [] := ⟨by rw [treeOKList], by rw [shapeList]⟩

/-! ### simulated steps -/

/-- flags of the wiring pass may change, everything else stays -/
structure Flags (w w0 : WSt) : Prop where
  next : w0.next = w.next
  dnp : w0.dnp = w.dnp
  assoc : w0.assoc = w.assoc
  reg : w0.reg = w.reg
  tab : w0.tab = w.tab
  fm : w0.firstMeaning = w.firstMeaning
  dm : w0.diffMeaning = w.diffMeaning

theorem Flags.rfl' (w : WSt) : Flags w w := ⟨rfl, rfl, rfl, rfl, rfl, rfl, rfl⟩

/-- the position the next item takes, and its label in the final list -/
theorem item_pos {o : SubsetOut} {a : Abs} {dd : DDesc} {ll : List (Nat × Nat)} {s s' : St} {w : WSt}
    (it : Item dd ll s s') (hr : R o a s w) (hb : Below2 o s') :
    w.next < o.descs.length ∧ o.descs[w.next]? = some dd := by
  have hlen := hb.1.len
  rw [it.descs, List.length_cons] at hlen
  exact ⟨by rw [hr.next]; omega, by rw [hr.next]; exact hb.1.label it.descs⟩

/-- one item, wired as a plain value node (`add_value_node`), possibly after a change of flags -/
theorem sim_plain {a a' : Abs} {s s' : St} {dd : DDesc} (hi : Inv2 a s) (it : Item dd [] s s')
    (hA : dd.isAssoc = false) (hsk : decide (s'.regs.nbitsSkipped ≠ 0) = a'.skip) (hqa : QaIn a' s'.regs.qa)
    (g : WSt → WSt) (hg : ∀ w, Flags w (g w))
    (hfl : ∀ w, w.waitQa = a.w → w.wait1st = a.w1 → w.waitDiff = a.wD →
      (g w).waitQa = a'.w ∧ (g w).wait1st = a'.w1 ∧ (g w).waitDiff = a'.wD)
    (hm : (NonOp dd ∧ a'.h1 = a.h1 ∧ a'.hD = a.hD) ∨ (a'.h1 = false ∧ a'.hD = false)) :
    Sim2 a a' Good1 s s' (fun o w => (g w).plainValue o) := by
  refine ⟨⟨it.inv hi hA hsk hqa, it.ext hi⟩, fun o w hf hr hb => ?_⟩
  obtain ⟨hlt, hlab⟩ := item_pos it hr hb
  have fl := hg w
  obtain ⟨q1, q2, q3⟩ := hfl w hr.wq hr.w1 hr.wD
  have hlt' : (g w).next < o.descs.length := by rw [fl.next]; exact hlt
  refine ⟨_, _, plainValue_eval hlt', ?_, by rw [fl.next]; exact good_plain hlt⟩
  refine hr.value (by rw [it.descs]; rfl) (by rw [it.links]; rfl) (by show (g w).next + 1 = _; rw [fl.next]) fl.dnp
    fl.assoc (by show (g w).next :: (g w).reg = _; rw [fl.next, fl.reg]) fl.tab q1 q2 q3 ?_ ?_
  · show MeanOK o a'.h1 (g w).firstMeaning ((g w).next + 1)
    rw [fl.fm, fl.next]
    rcases hm with ⟨hn, e1, _⟩ | ⟨e1, _⟩
    · exact (hr.m1.push hlab hn).congr e1
    · rw [e1]; exact MeanOK.off
  · show MeanOK o a'.hD (g w).diffMeaning ((g w).next + 1)
    rw [fl.dm, fl.next]
    rcases hm with ⟨hn, _, e1⟩ | ⟨_, e1⟩
    · exact (hr.mD.push hlab hn).congr e1
    · rw [e1]; exact MeanOK.off

theorem meanW_cases (id : Nat) (w : WSt) :
    ((id = 8023 ∧ w.wait1st = true) ∧ meanW id w =
      { w with next := w.next + 1, reg := w.next :: w.reg, firstMeaning := some w.next, wait1st := false }) ∨
    (¬ (id = 8023 ∧ w.wait1st = true) ∧ (id = 8024 ∧ w.waitDiff = true) ∧ meanW id w =
      { w with next := w.next + 1, reg := w.next :: w.reg, diffMeaning := some w.next, waitDiff := false }) ∨
    (¬ (id = 8023 ∧ w.wait1st = true) ∧ ¬ (id = 8024 ∧ w.waitDiff = true) ∧ meanW id w =
      { w with next := w.next + 1, reg := w.next :: w.reg }) := by
  unfold meanW
  by_cases c1 : id = 8023 <;> by_cases c1' : w.wait1st = true <;> by_cases c2 : id = 8024 <;>
    by_cases c2' : w.waitDiff = true <;> simp_all

/-- one item, wired by the value-node branch of `wire_element_descriptor` (meaning bookkeeping included) -/
theorem sim_elem_plain {a a0 a' : Abs} {s s' : St} {dd : DDesc} {id : Nat} (hi : Inv2 a s) (it : Item dd [] s s')
    (hA : dd.isAssoc = false) (hnop : NonOp dd) (hsk : decide (s'.regs.nbitsSkipped ≠ 0) = a'.skip)
    (hqa : QaIn a' s'.regs.qa)
    (h0 : a0.w = a.w ∧ a0.w1 = a.w1 ∧ a0.wD = a.wD ∧ a0.h1 = a.h1 ∧ a0.hD = a.hD)
    (ha' : a' = a0.meaning id) (hq : ¬ (xOf id = 33 ∧ a.w = true)) :
    Sim2 a a' Good1 s s' (fun o w => wireElement o id w) := by
  refine ⟨⟨it.inv hi hA hsk hqa, it.ext hi⟩, fun o w hf hr hb => ?_⟩
  obtain ⟨hlt, hlab⟩ := item_pos it hr hb
  obtain ⟨e1, e2, e3, e4, e5⟩ := h0
  have hq' : ¬ (xOf id = 33 ∧ w.waitQa = true) := by rw [hr.wq]; exact hq
  refine ⟨_, _, wireElement_plain hlt hr.assoc hq', ?_, good_plain hlt⟩
  have hd : s'.descs.length = s.descs.length + 1 := by rw [it.descs]; rfl
  have hl : s'.links = s.links := by rw [it.links]; rfl
  subst ha'
  rcases meanW_cases id w with ⟨c, e⟩ | ⟨c, d, e⟩ | ⟨c, d, e⟩ <;> rw [e]
  · have ca : id = 8023 ∧ a0.w1 = true := by rw [e2, ← hr.w1]; exact c
    unfold Abs.meaning
    rw [if_pos ca]
    exact hr.value hd hl rfl rfl rfl rfl rfl (by show w.waitQa = a0.w; rw [e1]; exact hr.wq) rfl
      (by show w.waitDiff = a0.wD; rw [e3]; exact hr.wD) (MeanOK.new hlab hnop)
      ((hr.mD.push hlab hnop).congr (by show a0.hD = a.hD; exact e5))
  · have ca : ¬ (id = 8023 ∧ a0.w1 = true) := by rw [e2, ← hr.w1]; exact c
    have da : id = 8024 ∧ a0.wD = true := by rw [e3, ← hr.wD]; exact d
    unfold Abs.meaning
    rw [if_neg ca, if_pos da]
    exact hr.value hd hl rfl rfl rfl rfl rfl (by show w.waitQa = a0.w; rw [e1]; exact hr.wq)
      (by show w.wait1st = a0.w1; rw [e2]; exact hr.w1) rfl
      ((hr.m1.push hlab hnop).congr (by show a0.h1 = a.h1; exact e4)) (MeanOK.new hlab hnop)
  · have ca : ¬ (id = 8023 ∧ a0.w1 = true) := by rw [e2, ← hr.w1]; exact c
    have da : ¬ (id = 8024 ∧ a0.wD = true) := by rw [e3, ← hr.wD]; exact d
    unfold Abs.meaning
    rw [if_neg ca, if_neg da]
    exact hr.value hd hl rfl rfl rfl rfl rfl (by show w.waitQa = a0.w; rw [e1]; exact hr.wq)
      (by show w.wait1st = a0.w1; rw [e2]; exact hr.w1) (by show w.waitDiff = a0.wD; rw [e3]; exact hr.wD)
      ((hr.m1.push hlab hnop).congr e4) ((hr.mD.push hlab hnop).congr e5)

/-- the link the coder recorded for the item at `w.next` is found in the final links; its owner is registered and lies
    in front of a bit-map operator item -/
theorem attr_lookup {o : SubsetOut} {a : Abs} {s s' : St} {w : WSt} (hf : Fin o) (hr : R o a s w)
    (hb : Below2 o s') {q : Nat × Nat} (hq : q ∈ s'.links) (hk : q.1 = w.next) :
    ∃ owner, lookupLink o.links w.next = some owner ∧ owner < w.next ∧ owner ∈ w.reg ∧
      ∃ p id, owner < p ∧ p < w.next ∧ C07.IsBitmapOp id ∧ o.descs[p]? = some (.oper id) := by
  have hmem : q ∈ o.links := hb.2.subset (List.mem_reverse.mpr hq)
  have : q = (w.next, q.2) := by rw [← hk]
  rw [this] at hmem
  obtain ⟨own', e, hm⟩ := lookupLink_mem hmem
  obtain ⟨p, id, h1, h2, h3, h4⟩ := hf.1 _ hm
  exact ⟨own', e, by simp only at h1 h2; omega, hr.reg own' (by simp only at h1 h2; omega), p, id, h1, h2, h3, h4⟩

/-- one item that carries a link, wired as an attribute of the owner the link names -/
theorem sim_attr {a a' : Abs} {s s' : St} {dd : DDesc} {ll : List (Nat × Nat)} (hi : Inv2 a s) (it : Item dd ll s s')
    (hne : ll ≠ []) (hA : dd.isAssoc = false) (hnop : NonOp dd)
    (hsk : decide (s'.regs.nbitsSkipped ≠ 0) = a'.skip) (hqa : QaIn a' s'.regs.qa)
    (ha1 : a'.h1 = a.h1) (haD : a'.hD = a.hD) (k : VKind) (g : WSt → WSt) (hg : ∀ w, Flags w (g w))
    (hfl : ∀ w, w.waitQa = a.w → w.wait1st = a.w1 → w.waitDiff = a.wD →
      (g w).waitQa = a'.w ∧ (g w).wait1st = a'.w1 ∧ (g w).waitDiff = a'.wD)
    (ownf : WSt → List Node) (run : SubsetOut → WSt → CM (Node × WSt))
    (hrun : ∀ o w owner, Fin o → R o a s w → w.next < o.descs.length → lookupLink o.links w.next = some owner →
      owner ∈ w.reg → (∃ p id, owner < p ∧ p < w.next ∧ C07.IsBitmapOp id ∧ o.descs[p]? = some (.oper id)) →
      run o w = .ok (.value k w.next (ownf w),
        { g w with next := w.next + 1, reg := w.next :: w.reg, tab := (owner, .value k w.next (ownf w)) :: w.tab }) ∧
      OwnOK owner w.next (ownf w) ∧ Good1 o (.value k w.next (ownf w))) :
    Sim2 a a' Good1 s s' run := by
  refine ⟨⟨it.inv hi hA hsk hqa, it.ext hi⟩, fun o w hf hr hb => ?_⟩
  obtain ⟨hlt, hlab⟩ := item_pos it hr hb
  obtain ⟨q, hq⟩ := List.exists_mem_of_ne_nil ll hne
  have hq' : q ∈ s'.links := by rw [it.links]; exact List.mem_append_left _ hq
  obtain ⟨owner, hlook, holt, hreg, hop⟩ := attr_lookup hf hr hb hq' (by rw [it.keys q hq, hr.next])
  obtain ⟨erun, hown, hgood⟩ := hrun o w owner hf hr hlt hlook hreg hop
  have fl := hg w
  obtain ⟨q1, q2, q3⟩ := hfl w hr.wq hr.w1 hr.wD
  refine ⟨_, _, erun, ?_, hgood⟩
  exact hr.attr (by rw [it.descs]; rfl) it.links it.keys hlook holt hown rfl fl.dnp fl.assoc rfl rfl q1 q2 q3
    (by show MeanOK o a'.h1 (g w).firstMeaning (w.next + 1); rw [fl.fm]; exact (hr.m1.push hlab hnop).congr ha1)
    (by show MeanOK o a'.hD (g w).diffMeaning (w.next + 1); rw [fl.dm]; exact (hr.mD.push hlab hnop).congr haD)

/-- the coder changes registers only, the pass yields a node without value -/
theorem sim_noval {a a' : Abs} {s s' : St} (hi : Inv2 a s)
    (hd : s'.descs = s.descs) (hv : s'.vals = s.vals) (hl : s'.links = s.links)
    (h1 : s'.regs.assocStack = s.regs.assocStack) (h2 : s'.regs.nbitsNewRefval = s.regs.nbitsNewRefval)
    (h3 : s'.regs.dnpCount = s.regs.dnpCount)
    (hsk : decide (s'.regs.nbitsSkipped ≠ 0) = a'.skip) (hqa : QaIn a' s'.regs.qa)
    (ha1 : a'.h1 = a.h1) (haD : a'.hD = a.hD) (g : WSt → WSt) (hg : ∀ w, Flags w (g w))
    (hfl : ∀ w, w.waitQa = a.w → w.wait1st = a.w1 → w.waitDiff = a.wD →
      (g w).waitQa = a'.w ∧ (g w).wait1st = a'.w1 ∧ (g w).waitDiff = a'.wD) (id : Nat) :
    Sim2 a a' Good1 s s' (fun _ w => .ok (.noval id, g w)) := by
  obtain ⟨l, hl0, hn⟩ := hi.vals
  refine ⟨⟨⟨h1.trans hi.assoc, h2.trans hi.nref, h3.trans hi.dnp, by rw [hv, hd]; exact hi.vals,
    by rw [hv, hd]; exact hi.al, by rw [hd]; exact hi.noA, hsk, hqa⟩,
    ⟨⟨[], [], l, hl0, by rw [hv]; simpa using hl0, by rw [hd]; rfl⟩, [], by rw [hl]; rfl⟩⟩, fun o w hf hr hb => ?_⟩
  have fl := hg w
  obtain ⟨q1, q2, q3⟩ := hfl w hr.wq hr.w1 hr.wD
  refine ⟨_, _, rfl, ?_, good_noval o id⟩
  exact hr.stay hd hl fl.next fl.dnp fl.assoc fl.reg fl.tab q1 q2 q3
    (by rw [fl.fm, fl.next]; exact hr.m1.congr ha1) (by rw [fl.dm, fl.next]; exact hr.mD.congr haD)

theorem Sim2.congrR {α : Type} {a a' : Abs} {g : SubsetOut → α → Prop} {s s' : St}
    {run run' : SubsetOut → WSt → CM (α × WSt)} (he : ∀ o w, R o a s w → run o w = run' o w)
    (h : Sim2 a a' g s s' run') : Sim2 a a' g s s' run :=
  ⟨h.1, fun o w hf hr hb => by rw [he o w hr]; exact h.2 o w hf hr hb⟩

theorem Item.post' {dd : DDesc} {ll : List (Nat × Nat)} {s s1 s' : St} (h : Item dd ll s s1)
    (hd : s'.descs = s1.descs) (hv : s'.vals = s1.vals) (hl : s'.links = s1.links)
    (h1 : s'.regs.assocStack = s1.regs.assocStack) (h2 : s'.regs.nbitsNewRefval = s1.regs.nbitsNewRefval)
    (h3 : s'.regs.dnpCount = s1.regs.dnpCount) : Item dd ll s s' :=
  ⟨by rw [hd, h.descs], by rw [hv]; exact h.vals, by rw [hv, hd]; exact h.al,
    by rw [hl, h.links], h.keys, h1.trans h.assoc, h2.trans h.nref, h3.trans h.dnp⟩

theorem Item.pre' {dd : DDesc} {ll : List (Nat × Nat)} {s s0 s' : St} (h : Item dd ll s0 s')
    (hd : s0.descs = s.descs) (hv : s0.vals = s.vals) (hl : s0.links = s.links)
    (h1 : s0.regs.assocStack = s.regs.assocStack) (h2 : s0.regs.nbitsNewRefval = s.regs.nbitsNewRefval)
    (h3 : s0.regs.dnpCount = s.regs.dnpCount) : Item dd ll s s' :=
  ⟨by rw [h.descs, hd], by rw [← hv]; exact h.vals, by rw [← hv, ← hd]; exact h.al,
    by rw [h.links, hl], by rw [← hd]; exact h.keys, h.assoc.trans h1, h.nref.trans h2, h.dnp.trans h3⟩

theorem nonop_plain (e : Elem) : NonOp (.plain e) := fun _ h => by cases h
theorem nonop_skipped (id n : Nat) : NonOp (.skipped id n) := fun _ h => by cases h
theorem nonop_marker (id : Nat) (e : Elem) : NonOp (.marker id e) := fun _ h => by cases h
theorem nonop_oper {id : Nat} (h : ¬ C07.IsBitmapOp id) : NonOp (.oper id) := fun id' e => by
  injection e with e; subst e; exact h

theorem qaIn_skip {a : Abs} {q : QaStatus} (b : Bool) (h : QaIn a q) : QaIn { a with skip := b } q := by
  cases q <;> exact h

theorem meaning_x33 {a : Abs} {id : Nat} (h : xOf id = 33) : a.meaning id = a := by
  obtain ⟨h1, h2⟩ := x33_not_meaning h
  unfold Abs.meaning
  rw [if_neg (fun c => h1 c.1), if_neg (fun c => h2 c.1)]

theorem meaning_fields (a : Abs) (id : Nat) :
    (a.meaning id).w = a.w ∧ (a.meaning id).skip = a.skip ∧ (a.meaning id).qN = a.qN ∧ (a.meaning id).qW = a.qW ∧
      (a.meaning id).qP = a.qP := by
  unfold Abs.meaning
  split
  · exact ⟨rfl, rfl, rfl, rfl, rfl⟩
  · split <;> exact ⟨rfl, rfl, rfl, rfl, rfl⟩

theorem wireMarker_eval {o : SubsetOut} {k : VKind} {w : WSt} {owner : Nat} (hlt : w.next < o.descs.length)
    (hl : lookupLink o.links w.next = some owner) (hr : owner ∈ w.reg) :
    wireMarker o k w = .ok (.value k w.next [],
      { w with next := w.next + 1, reg := w.next :: w.reg, tab := (owner, .value k w.next []) :: w.tab }) := by
  unfold wireMarker
  rw [take_eval hlt]
  simp only
  rw [bitmapAttr_eval hl (by simp [WSt.register, hr])]
  rfl

theorem wireStatsMarker_eval {o : SubsetOut} {k : VKind} {w : WSt} {owner m : Nat} (hlt : w.next < o.descs.length)
    (hl : lookupLink o.links w.next = some owner) (hr : owner ∈ w.reg) :
    wireStatsMarker o k (some m) w = .ok (.value k w.next [.value .value m []],
      { w with next := w.next + 1, reg := w.next :: w.reg,
               tab := (owner, .value k w.next [.value .value m []]) :: w.tab }) := by
  unfold wireStatsMarker
  rw [take_eval hlt]
  simp only
  rw [bitmapAttr_eval hl (by simp [WSt.register, hr])]
  rfl

theorem wireElement_quality {o : SubsetOut} {id : Nat} {w : WSt} (ha : w.assoc = []) (hx : xOf id = 33)
    (hw : w.waitQa = true) : wireElement o id w = wireMarker o .quality w := by
  unfold wireElement wireMarker
  rw [if_neg (fun c => c.1 ha), if_pos ⟨hx, hw⟩]

/-- an element that is not skipped: `process_element_descriptor` against `wire_element_descriptor` -/
theorem elem_sim2 {P : Prims} (hP : PushOne P) {a a' : Abs} {e : Elem} {s s' : St} (hi : Inv2 a s)
    (hsk : a.skip = false) (ha : a.elem e.id = some a') (h : elementDescriptor P (.plain e) e s = .ok s') :
    Sim2 a a' Good1 s s' (fun o w => wireElement o e.id w) := by
  obtain ⟨s1, ll, qd, hp⟩ := elementDescriptor_links hP hi.assoc h
  have it := Item.of_qa qd hp
  have hskip : s'.regs.nbitsSkipped = s.regs.nbitsSkipped := hp.skipped.trans qd.skipped
  have hqq : qaStep (xOf e.id) s.regs.qa s'.regs.qa := by rw [hp.qa]; exact qd.qa
  unfold Abs.elem at ha
  rw [hsk] at ha
  simp only [Bool.false_eq_true, if_false] at ha
  by_cases hx : xOf e.id = 33
  · rw [if_pos hx] at ha
    rw [hx] at hqq
    obtain ⟨hq', hw, ew, ew1, ewD, eh1, ehD, esk⟩ := qaIn_c33 ha hi.qa hqq
    have hsk' : decide (s'.regs.nbitsSkipped ≠ 0) = a'.skip := by rw [hskip, esk]; exact hi.skip
    by_cases haw : a.w = true
    · have hne : ll ≠ [] := fun c => (qd.nil.mp c) ⟨hx, hw.mp haw⟩
      refine sim_attr hi it hne rfl (nonop_plain e) hsk' hq' eh1 ehD .quality id (fun w => Flags.rfl' w)
        (fun w q1 q2 q3 => ⟨by rw [ew]; exact q1, by rw [ew1]; exact q2, by rw [ewD]; exact q3⟩)
        (fun _ => []) _ (fun o w owner _ hr hlt hlook hreg _ => ?_)
      refine ⟨?_, Or.inl rfl, good_plain hlt⟩
      rw [wireElement_quality hr.assoc hx (by rw [hr.wq]; exact haw), wireMarker_eval hlt hlook hreg]
      rfl
    · have hll : ll = [] := qd.nil.mpr (fun c => c.2 (Decidable.byContradiction fun hc => haw (hw.mpr hc)))
      subst hll
      exact sim_elem_plain hi it rfl (nonop_plain e) hsk' hq' ⟨ew, ew1, ewD, eh1, ehD⟩ (meaning_x33 hx).symm
        (fun c => haw c.2)
  · rw [if_neg hx] at ha
    injection ha with ha
    have hll : ll = [] := qd.nil.mpr (fun c => hx c.1)
    subst hll
    obtain ⟨m1, m2, _⟩ := meaning_fields a.non33 e.id
    refine sim_elem_plain (a0 := a.non33) hi it rfl (nonop_plain e) ?_ ?_ ⟨rfl, rfl, rfl, rfl, rfl⟩ ha.symm (fun c => hx c.1)
    · rw [hskip, ← ha, m2]; exact hi.skip
    · rw [← ha]; exact qaIn_meaning (qaIn_non33 hx hi.qa hqq)

/-- 206YYY pending: the coder reads ONE skipped field, whatever the member is -/
theorem skip_item {P : Prims} (hP : PushOne P) {d : Desc} {s s' : St}
    (h : (do let s' ← P.codeflag (.skipped d.id s.regs.nbitsSkipped) s.regs.nbitsSkipped s
             pure (s'.setRegs fun r => { r with nbitsSkipped := 0 }) : CM St) = .ok s') :
    Item (.skipped d.id s.regs.nbitsSkipped) [] s s' ∧ s'.regs.nbitsSkipped = 0 ∧ s'.regs.qa = s.regs.qa := by
  simp only [bind, Except.bind, pure, Except.pure] at h
  split at h
  · cases h
  · next s1 h1 =>
    injection h with h
    subst h
    have hp := hP.codeflag _ _ _ _ h1
    exact ⟨(Item.of_pushed hp).post' rfl rfl rfl rfl rfl rfl, rfl, hp.qa⟩

/-! ### operators -/

def BmCode (id : Nat) : Prop :=
  id / 1000 = 222 ∨ id / 1000 = 223 ∨ id / 1000 = 224 ∨ id / 1000 = 225 ∨ id / 1000 = 232

theorem not_bmop_code {id : Nat} (h : ¬ BmCode id) : ¬ C07.IsBitmapOp id := by
  unfold BmCode at h
  unfold C07.IsBitmapOp
  omega

/-- 22X000 / 232000: registers, then ONE constant item; 222000 arms the QA machine -/
theorem bmop_item {P : Prims} (hP : PushOne P) {id : Nat} {s s' : St} (hc : BmCode id) (hy : id % 1000 = 0)
    (h : operatorDescriptor P id s = .ok s') :
    Item (.oper id) [] s s' ∧ s'.regs.nbitsSkipped = s.regs.nbitsSkipped ∧
      s'.regs.qa = (if id / 1000 = 222 then .waiting else s.regs.qa) := by
  unfold BmCode at hc
  unfold operatorDescriptor at h
  have n1 : ¬ id / 1000 = 201 := by omega
  have n2 : ¬ id / 1000 = 202 := by omega
  have n3 : ¬ id / 1000 = 203 := by omega
  have n4 : ¬ id / 1000 = 204 := by omega
  have n5 : ¬ id / 1000 = 205 := by omega
  have n6 : ¬ id / 1000 = 206 := by omega
  have n7 : ¬ id / 1000 = 207 := by omega
  have n8 : ¬ id / 1000 = 208 := by omega
  have n9 : ¬ id / 1000 = 221 := by omega
  simp only [n1, n2, n3, n4, n5, n6, n7, n8, n9, if_false, if_pos hc, hy, if_true, bind, Except.bind, pure,
    Except.pure] at h
  split at h
  · cases h
  · next s2 h2 =>
    injection h with h
    have hp := hP.constant _ _ _ _ h2
    have it : Item (.oper id) [] s s2 := (Item.of_pushed hp).pre' rfl rfl rfl rfl rfl rfl
    by_cases c : id / 1000 = 222
    · rw [if_pos c] at h ⊢
      subst h
      exact ⟨it.post' rfl rfl rfl rfl rfl rfl, hp.skipped, rfl⟩
    · rw [if_neg c] at h ⊢
      subst h
      exact ⟨it, hp.skipped, hp.qa⟩

/-- 22X255 / 232255 without associated field: the next selected back reference is linked, then the marker item -/
theorem marker_item {P : Prims} (hP : PushOne P) {id : Nat} {s s' : St} (ha : s.regs.assocStack = [])
    (hc : BmCode id) (hy : id % 1000 ≠ 0) (h : operatorDescriptor P id s = .ok s') :
    ∃ e' ll x, Item (.marker id e') ll s s' ∧ ll ≠ [] ∧ s'.regs.nbitsSkipped = s.regs.nbitsSkipped ∧
      qaStep x s.regs.qa s'.regs.qa := by
  unfold BmCode at hc
  unfold operatorDescriptor at h
  have n1 : ¬ id / 1000 = 201 := by omega
  have n2 : ¬ id / 1000 = 202 := by omega
  have n3 : ¬ id / 1000 = 203 := by omega
  have n4 : ¬ id / 1000 = 204 := by omega
  have n5 : ¬ id / 1000 = 205 := by omega
  have n6 : ¬ id / 1000 = 206 := by omega
  have n7 : ¬ id / 1000 = 207 := by omega
  have n8 : ¬ id / 1000 = 208 := by omega
  have n9 : ¬ id / 1000 = 221 := by omega
  have na : ¬ s.regs.assocStack ≠ [] := fun c => c ha
  simp only [n1, n2, n3, n4, n5, n6, n7, n8, n9, if_false, if_pos hc, if_neg hy, if_neg na, bind, Except.bind, pure,
    Except.pure] at h
  unfold bitmappedDescriptor at h
  simp only [bind, Except.bind] at h
  split at h
  · cases h
  · next x hn =>
    obtain ⟨⟨owner, be⟩, s1⟩ := x
    obtain ⟨v, q⟩ := nextBitmapped_vis hn
    simp only at h
    have ha2 : (addLink s1 owner).regs.assocStack = [] := v.assoc.trans ha
    have key : ∀ (e' : Elem), elementDescriptor P (.marker id e') e' (addLink s1 owner) = .ok s' →
        ∃ e' ll x, Item (.marker id e') ll s s' ∧ ll ≠ [] ∧ s'.regs.nbitsSkipped = s.regs.nbitsSkipped ∧
          qaStep x s.regs.qa s'.regs.qa := by
      intro e' h
      obtain ⟨s3, ll, qd, hp⟩ := elementDescriptor_links hP ha2 h
      refine ⟨e', ll ++ [(s.descs.length, owner)], xOf e'.id, ?_, by simp,
        hp.skipped.trans (qd.skipped.trans v.skipped), ?_⟩
      · have it := Item.of_qa qd hp
        refine ⟨by rw [it.descs]; show _ :: s1.descs = _; rw [v.descs], ?_, ?_, ?_, ?_, it.assoc.trans v.assoc,
          it.nref.trans v.nref, it.dnp.trans v.dnp⟩
        · have := it.vals
          rw [← v.vals]
          exact this
        · have := it.al
          rw [← v.vals, ← v.descs]
          exact this
        · rw [it.links]
          show ll ++ (s1.descs.length, owner) :: s1.links = _
          rw [v.descs, v.links, List.append_assoc]
          rfl
        · intro q hq
          rcases List.mem_append.mp hq with hq | hq
          · have := it.keys q hq
            rw [this]
            show s1.descs.length = _
            rw [v.descs]
          · rw [List.mem_singleton] at hq
            rw [hq]
      · have := qd.qa
        rw [hp.qa]
        have e : (addLink s1 owner).regs.qa = s.regs.qa := q
        rw [e] at this
        exact this
    exact key _ h

theorem wop_noval {o : SubsetOut} {id : Nat} {w : WSt}
    (h : id / 1000 = 201 ∨ id / 1000 = 202 ∨ id / 1000 = 203 ∨ id / 1000 = 206 ∨ id / 1000 = 207 ∨ id / 1000 = 208) :
    wireOperator o id w = .ok (.noval id, w) := by
  unfold wireOperator wireOperatorCY
  rw [if_pos h]

theorem wop_plain {o : SubsetOut} {id : Nat} {w : WSt}
    (h : id / 1000 = 205 ∨ id / 1000 = 236 ∨ id / 1000 = 237) : wireOperator o id w = w.plainValue o := by
  unfold wireOperator wireOperatorCY
  rcases h with h | h | h <;> simp [h]

theorem wop_235 {o : SubsetOut} {id : Nat} {w : WSt} (h : id / 1000 = 235) :
    wireOperator o id w = .ok (.noval id, { w with waitQa := false }) := by
  unfold wireOperator wireOperatorCY
  simp [h]

theorem wop_222 {o : SubsetOut} {id : Nat} {w : WSt} (h : id / 1000 = 222) :
    wireOperator o id w = ({ w with waitQa := true } : WSt).plainValue o := by
  unfold wireOperator wireOperatorCY
  simp [h]

theorem wop_223 {o : SubsetOut} {id : Nat} {w : WSt} (h : id / 1000 = 223 ∨ id / 1000 = 232) :
    wireOperator o id w = (if id % 1000 = 0 then ({ w with waitQa := false } : WSt).plainValue o
      else wireMarker o (if id / 1000 = 223 then .substitution else .replacement) { w with waitQa := false }) := by
  unfold wireOperator wireOperatorCY
  rcases h with h | h <;> simp [h]

theorem wop_224 {o : SubsetOut} {id : Nat} {w : WSt} (h : id / 1000 = 224) :
    wireOperator o id w = (if id % 1000 = 0 then ({ w with waitQa := false, wait1st := true } : WSt).plainValue o
      else wireStatsMarker o .firstOrder w.firstMeaning { w with waitQa := false }) := by
  unfold wireOperator wireOperatorCY
  simp [h]

theorem wop_225 {o : SubsetOut} {id : Nat} {w : WSt} (h : id / 1000 = 225) :
    wireOperator o id w = (if id % 1000 = 0 then ({ w with waitQa := false, waitDiff := true } : WSt).plainValue o
      else wireStatsMarker o .difference w.diffMeaning { w with waitQa := false }) := by
  unfold wireOperator wireOperatorCY
  simp [h]

theorem sim_op_plain {a : Abs} {s s' : St} {id : Nat} (hi : Inv2 a s) (it : Item (.oper id) [] s s')
    (hs : s'.regs.nbitsSkipped = s.regs.nbitsSkipped) (hq : s'.regs.qa = s.regs.qa) (hnb : ¬ BmCode id) :
    Sim2 a a Good1 s s' (fun o w => w.plainValue o) :=
  sim_plain hi it rfl (by rw [hs]; exact hi.skip) (by rw [hq]; exact hi.qa) (fun w => w) Flags.rfl'
    (fun _ q1 q2 q3 => ⟨q1, q2, q3⟩) (Or.inl ⟨nonop_oper (not_bmop_code hnb), rfl, rfl⟩)

/-- the stats marker of the wiring pass: its meaning node lies behind the owner -/
theorem stats_hrun {o : SubsetOut} {w : WSt} {owner : Nat} {k : VKind} {fm : Option Nat} (hf : Fin o)
    (hm : MeanOK o true fm w.next) (hlt : w.next < o.descs.length)
    (hlook : lookupLink o.links w.next = some owner) (hreg : owner ∈ w.reg)
    (hop : ∃ p id, owner < p ∧ p < w.next ∧ C07.IsBitmapOp id ∧ o.descs[p]? = some (.oper id)) :
    ∃ m, fm = some m ∧
      wireStatsMarker o k (some m) { w with waitQa := false } = .ok (.value k w.next [.value .value m []],
        { w with waitQa := false, next := w.next + 1, reg := w.next :: w.reg,
                 tab := (owner, .value k w.next [.value .value m []]) :: w.tab }) ∧
      OwnOK owner w.next [.value .value m []] ∧ Good1 o (.value k w.next [.value .value m []]) := by
  obtain ⟨m, e, hmlt, hno⟩ := hm rfl
  obtain ⟨p, id, h1, h2, h3, h4⟩ := hop
  have hpm : p < m := by
    apply Decidable.byContradiction
    intro c
    exact hno p id (by omega) h2 h4 h3
  refine ⟨m, e, ?_, Or.inr ⟨m, rfl, by omega, hmlt⟩, ?_, ?_⟩
  · exact wireStatsMarker_eval (w := { w with waitQa := false }) hlt hlook hreg
  · have hml : m < o.descs.length := by omega
    have hd : o.descs[m]? = some o.descs[m] := List.getElem?_eq_getElem hml
    have hA := hf.2 _ (List.getElem_mem hml)
    rw [treeOK1]
    simp [ownAttrOK, hd, hA, VKind.isAssoc]
  · simp [shape1, valShape, ownShape, hlt, hmlt]

set_option maxHeartbeats 400000 in
/-- an operator: `process_operator_descriptor` against `wire_operator_descriptor` -/
theorem op_sim2 {P : Prims} (hP : PushOne P) {a a' : Abs} {id : Nat} {s s' : St} (hi : Inv2 a s)
    (hsk : a.skip = false) (ha : a.op id = some a') (h : operatorDescriptor P id s = .ok s') :
    Sim2 a a' Good1 s s' (fun o w => wireOperator o id w) := by
  unfold Abs.op at ha
  simp only at ha
  by_cases c1 : id / 1000 = 201 ∨ id / 1000 = 202 ∨ id / 1000 = 207 ∨ id / 1000 = 208 ∨ id / 1000 = 205 ∨
      id / 1000 = 236 ∨ id / 1000 = 237
  · rw [if_pos c1] at ha
    injection ha with ha
    subst ha
    have hnb : ¬ BmCode id := by unfold BmCode; omega
    unfold operatorDescriptor at h
    rcases c1 with hc | hc | hc | hc | hc | hc | hc <;>
      simp only [hc, Nat.reduceEqDiff, true_or, or_true, or_false, false_or, if_true, if_false] at h
    · injection h with h; subst h
      refine Sim2.congrR (fun o w _ => wop_noval (Or.inl hc)) ?_
      refine sim_noval hi ?_ ?_ ?_ ?_ ?_ ?_ ?_ ?_ ?_ ?_ (fun w => w) Flags.rfl' (fun _ q1 q2 q3 => ⟨q1, q2, q3⟩) id <;>
        first | rfl | exact hi.skip | exact hi.qa
    · injection h with h; subst h
      refine Sim2.congrR (fun o w _ => wop_noval (Or.inr (Or.inl hc))) ?_
      refine sim_noval hi ?_ ?_ ?_ ?_ ?_ ?_ ?_ ?_ ?_ ?_ (fun w => w) Flags.rfl' (fun _ q1 q2 q3 => ⟨q1, q2, q3⟩) id <;>
        first | rfl | exact hi.skip | exact hi.qa
    · injection h with h; subst h
      refine Sim2.congrR (fun o w _ => wop_noval (by omega)) ?_
      refine sim_noval hi ?_ ?_ ?_ ?_ ?_ ?_ ?_ ?_ ?_ ?_ (fun w => w) Flags.rfl' (fun _ q1 q2 q3 => ⟨q1, q2, q3⟩) id <;>
        first | rfl | exact hi.skip | exact hi.qa
    · injection h with h; subst h
      refine Sim2.congrR (fun o w _ => wop_noval (by omega)) ?_
      refine sim_noval hi ?_ ?_ ?_ ?_ ?_ ?_ ?_ ?_ ?_ ?_ (fun w => w) Flags.rfl' (fun _ q1 q2 q3 => ⟨q1, q2, q3⟩) id <;>
        first | rfl | exact hi.skip | exact hi.qa
    · have hp := hP.string _ _ _ _ h
      exact Sim2.congrR (fun o w _ => wop_plain (Or.inl hc))
        (sim_op_plain hi (Item.of_pushed hp) hp.skipped hp.qa hnb)
    · have hp := hP.constant _ _ _ _ h
      exact Sim2.congrR (fun o w _ => wop_plain (Or.inr (Or.inl hc)))
        (sim_op_plain hi (Item.of_pushed hp) hp.skipped hp.qa hnb)
    · refine Sim2.congrR (fun o w _ => wop_plain (Or.inr (Or.inr hc))) ?_
      split at h
      · split at h
        · cases h
        · have hp := hP.constant _ _ _ _ h
          exact sim_op_plain hi ((Item.of_pushed hp).pre' rfl rfl rfl rfl rfl rfl) hp.skipped hp.qa hnb
      · have hp := hP.constant _ _ _ _ h
        exact sim_op_plain hi (Item.of_pushed hp) hp.skipped hp.qa hnb
  · rw [if_neg c1] at ha
    by_cases c2 : id / 1000 = 206
    · rw [if_pos c2] at ha
      injection ha with ha
      subst ha
      unfold operatorDescriptor at h
      simp only [c2, Nat.reduceEqDiff, true_or, or_true, or_false, false_or, if_true, if_false] at h
      injection h with h; subst h
      refine Sim2.congrR (fun o w _ => wop_noval (by omega)) ?_
      refine sim_noval (a' := { a with skip := decide (id % 1000 ≠ 0) }) hi ?_ ?_ ?_ ?_ ?_ ?_ ?_ ?_ ?_ ?_ (fun w => w)
        Flags.rfl' (fun _ q1 q2 q3 => ⟨q1, q2, q3⟩) id <;> first | rfl | exact qaIn_skip _ hi.qa
    · rw [if_neg c2] at ha
      by_cases c3 : id / 1000 = 222
      · rw [if_pos c3] at ha
        by_cases hy : id % 1000 = 0
        · rw [if_pos hy] at ha
          injection ha with ha
          subst ha
          obtain ⟨it, hs, hq⟩ := bmop_item hP (Or.inl c3) hy h
          refine Sim2.congrR (fun o w _ => wop_222 c3) ?_
          exact sim_plain hi it rfl (by rw [hs]; exact hi.skip) (by rw [hq, if_pos c3]; rfl)
            (fun w => { w with waitQa := true }) (fun _ => ⟨rfl, rfl, rfl, rfl, rfl, rfl, rfl⟩)
            (fun _ _ q2 q3 => ⟨rfl, q2, q3⟩) (Or.inr ⟨rfl, rfl⟩)
        · rw [if_neg hy] at ha
          cases ha
      · rw [if_neg c3] at ha
        by_cases c4 : id / 1000 = 223 ∨ id / 1000 = 232
        · rw [if_pos c4] at ha
          have hbm : BmCode id := by unfold BmCode; omega
          by_cases hy : id % 1000 = 0
          · rw [if_pos hy] at ha
            injection ha with ha
            subst ha
            obtain ⟨it, hs, hq⟩ := bmop_item hP hbm hy h
            refine Sim2.congrR (fun o w _ => by rw [wop_223 c4, if_pos hy]) ?_
            exact sim_plain hi it rfl (by rw [hs]; exact hi.skip) (by rw [hq, if_neg c3]; exact hi.qa)
              (fun w => { w with waitQa := false }) (fun _ => ⟨rfl, rfl, rfl, rfl, rfl, rfl, rfl⟩)
              (fun _ _ q2 q3 => ⟨rfl, q2, q3⟩) (Or.inr ⟨rfl, rfl⟩)
          · rw [if_neg hy] at ha
            injection ha with ha
            subst ha
            obtain ⟨e', ll, x, it, hne, hs, hq⟩ := marker_item hP hi.assoc hbm hy h
            refine Sim2.congrR (fun o w _ => by rw [wop_223 c4, if_neg hy]) ?_
            refine sim_attr hi it hne rfl (nonop_marker _ _) (by rw [hs]; exact hi.skip) (qaIn_marker hi.qa hq) rfl rfl
              (if id / 1000 = 223 then .substitution else .replacement) (fun w => { w with waitQa := false })
              (fun _ => ⟨rfl, rfl, rfl, rfl, rfl, rfl, rfl⟩) (fun _ _ q2 q3 => ⟨rfl, q2, q3⟩) (fun _ => []) _
              (fun o w owner _ hr hlt hlook hreg _ => ⟨?_, Or.inl rfl, good_plain hlt⟩)
            exact wireMarker_eval (w := { w with waitQa := false }) hlt hlook hreg
        · rw [if_neg c4] at ha
          by_cases c5 : id / 1000 = 224
          · rw [if_pos c5] at ha
            have hbm : BmCode id := by unfold BmCode; omega
            by_cases hy : id % 1000 = 0
            · rw [if_pos hy] at ha
              injection ha with ha
              subst ha
              obtain ⟨it, hs, hq⟩ := bmop_item hP hbm hy h
              refine Sim2.congrR (fun o w _ => by rw [wop_224 c5, if_pos hy]) ?_
              exact sim_plain hi it rfl (by rw [hs]; exact hi.skip) (by rw [hq, if_neg c3]; exact hi.qa)
                (fun w => { w with waitQa := false, wait1st := true })
                (fun _ => ⟨rfl, rfl, rfl, rfl, rfl, rfl, rfl⟩) (fun _ _ _ q3 => ⟨rfl, rfl, q3⟩) (Or.inr ⟨rfl, rfl⟩)
            · rw [if_neg hy] at ha
              by_cases hh : a.h1 = true
              · rw [if_pos hh] at ha
                injection ha with ha
                subst ha
                obtain ⟨e', ll, x, it, hne, hs, hq⟩ := marker_item hP hi.assoc hbm hy h
                refine Sim2.congrR (fun o w _ => by rw [wop_224 c5, if_neg hy]) ?_
                refine sim_attr hi it hne rfl (nonop_marker _ _) (by rw [hs]; exact hi.skip) (qaIn_marker hi.qa hq)
                  rfl rfl .firstOrder (fun w => { w with waitQa := false })
                  (fun _ => ⟨rfl, rfl, rfl, rfl, rfl, rfl, rfl⟩) (fun _ _ q2 q3 => ⟨rfl, q2, q3⟩)
                  (fun w => match w.firstMeaning with | some m => [.value .value m []] | none => []) _
                  (fun o w owner hf hr hlt hlook hreg hop => ?_)
                have hm := hr.m1
                rw [hh] at hm
                obtain ⟨m, e, r1, r2, r3⟩ := stats_hrun (k := .firstOrder) hf hm hlt hlook hreg hop
                simp only [e] at r1 ⊢
                exact ⟨r1, r2, r3⟩
              · rw [if_neg hh] at ha
                cases ha
          · rw [if_neg c5] at ha
            by_cases c6 : id / 1000 = 225
            · rw [if_pos c6] at ha
              have hbm : BmCode id := by unfold BmCode; omega
              by_cases hy : id % 1000 = 0
              · rw [if_pos hy] at ha
                injection ha with ha
                subst ha
                obtain ⟨it, hs, hq⟩ := bmop_item hP hbm hy h
                refine Sim2.congrR (fun o w _ => by rw [wop_225 c6, if_pos hy]) ?_
                exact sim_plain hi it rfl (by rw [hs]; exact hi.skip) (by rw [hq, if_neg c3]; exact hi.qa)
                  (fun w => { w with waitQa := false, waitDiff := true })
                  (fun _ => ⟨rfl, rfl, rfl, rfl, rfl, rfl, rfl⟩) (fun _ _ q2 _ => ⟨rfl, q2, rfl⟩) (Or.inr ⟨rfl, rfl⟩)
              · rw [if_neg hy] at ha
                by_cases hh : a.hD = true
                · rw [if_pos hh] at ha
                  injection ha with ha
                  subst ha
                  obtain ⟨e', ll, x, it, hne, hs, hq⟩ := marker_item hP hi.assoc hbm hy h
                  refine Sim2.congrR (fun o w _ => by rw [wop_225 c6, if_neg hy]) ?_
                  refine sim_attr hi it hne rfl (nonop_marker _ _) (by rw [hs]; exact hi.skip) (qaIn_marker hi.qa hq)
                    rfl rfl .difference (fun w => { w with waitQa := false })
                    (fun _ => ⟨rfl, rfl, rfl, rfl, rfl, rfl, rfl⟩) (fun _ _ q2 q3 => ⟨rfl, q2, q3⟩)
                    (fun w => match w.diffMeaning with | some m => [.value .value m []] | none => []) _
                    (fun o w owner hf hr hlt hlook hreg hop => ?_)
                  have hm := hr.mD
                  rw [hh] at hm
                  obtain ⟨m, e, r1, r2, r3⟩ := stats_hrun (k := .difference) hf hm hlt hlook hreg hop
                  simp only [e] at r1 ⊢
                  exact ⟨r1, r2, r3⟩
                · rw [if_neg hh] at ha
                  cases ha
            · rw [if_neg c6] at ha
              by_cases c7 : id / 1000 = 235
              · rw [if_pos c7] at ha
                injection ha with ha
                subst ha
                unfold operatorDescriptor at h
                have nb : ¬ (id / 1000 = 222 ∨ id / 1000 = 223 ∨ id / 1000 = 224 ∨ id / 1000 = 225 ∨ id / 1000 = 232) := by
                  omega
                simp only [c7, Nat.reduceEqDiff, true_or, or_true, or_false, false_or, if_true, if_false] at h
                injection h with h; subst h
                refine Sim2.congrR (fun o w _ => wop_235 c7) ?_
                refine sim_noval (a' := { a with w := false }) hi ?_ ?_ ?_ ?_ ?_ ?_ ?_ ?_ ?_ ?_
                  (fun w => { w with waitQa := false }) (fun _ => ⟨rfl, rfl, rfl, rfl, rfl, rfl, rfl⟩)
                  (fun _ _ q2 q3 => ⟨rfl, q2, q3⟩) id <;> first | rfl | exact hi.skip | exact hi.qa
              · rw [if_neg c7] at ha
                cases ha

/-! ### composition -/

theorem Sim2.refl {α : Type} {a : Abs} {s : St} (hi : Inv2 a s) {g : SubsetOut → α → Prop}
    {run : SubsetOut → WSt → CM (α × WSt)} (x : α) (h : ∀ o w, run o w = .ok (x, w)) (hg : ∀ o, g o x) :
    Sim2 a a g s s run :=
  ⟨⟨hi, hi.ext_refl⟩, fun o w _ hr _ => ⟨x, w, h o w, hr, hg o⟩⟩

theorem Sim2.map {α β : Type} {a a' : Abs} {g : SubsetOut → α → Prop} {g2 : SubsetOut → β → Prop} {s s' : St}
    {run : SubsetOut → WSt → CM (α × WSt)} {run2 : SubsetOut → WSt → CM (β × WSt)} (h : Sim2 a a' g s s' run)
    (hm : ∀ o w x w', R o a s w → run o w = .ok (x, w') → g o x → ∃ c, run2 o w = .ok (c, w') ∧ g2 o c) :
    Sim2 a a' g2 s s' run2 := by
  refine ⟨h.1, fun o w hf hr hb => ?_⟩
  obtain ⟨x, w', e, hr', gx⟩ := h.2 o w hf hr hb
  obtain ⟨c, e2, gc⟩ := hm o w x w' hr e gx
  exact ⟨c, w', e2, hr', gc⟩

theorem Sim2.weaken {α : Type} {a a' c : Abs} {g : SubsetOut → α → Prop} {s s' : St}
    {run : SubsetOut → WSt → CM (α × WSt)} (h : Sim2 a a' g s s' run) (hI : Inv2 a' s' → Inv2 c s')
    (hR : ∀ o w, R o a' s' w → R o c s' w) : Sim2 a c g s s' run := by
  refine ⟨⟨hI h.1.1, h.1.2⟩, fun o w hf hr hb => ?_⟩
  obtain ⟨x, w', e, hr', gx⟩ := h.2 o w hf hr hb
  exact ⟨x, w', e, hR o w' hr', gx⟩

theorem R.abs {o : SubsetOut} {a c : Abs} {s : St} {w : WSt} (h : R o a s w) (e1 : c.w = a.w) (e2 : c.w1 = a.w1)
    (e3 : c.wD = a.wD) (e4 : c.h1 = a.h1) (e5 : c.hD = a.hD) : R o c s w :=
  ⟨h.next, h.dnp, h.assoc, by rw [e1]; exact h.wq, by rw [e2]; exact h.w1, by rw [e3]; exact h.wD,
    h.m1.congr e4, h.mD.congr e5, h.reg, h.tabS, h.tabC⟩

theorem Inv2.abs {a c : Abs} {s : St} (h : Inv2 a s) (e : c.skip = a.skip) (hq : ∀ q, QaIn a q → QaIn c q) :
    Inv2 c s :=
  ⟨h.assoc, h.nref, h.dnp, h.vals, h.al, h.noA, by rw [e]; exact h.skip, hq _ h.qa⟩

theorem join_facts {a b c : Abs} (h : a.join b = some c) :
    (c.w = a.w ∧ c.w1 = a.w1 ∧ c.wD = a.wD ∧ c.h1 = a.h1 ∧ c.hD = a.hD ∧ c.skip = a.skip) ∧
    (c.w = b.w ∧ c.w1 = b.w1 ∧ c.wD = b.wD ∧ c.h1 = b.h1 ∧ c.hD = b.hD ∧ c.skip = b.skip) ∧
    (∀ q, QaIn a q → QaIn c q) ∧ (∀ q, QaIn b q → QaIn c q) := by
  unfold Abs.join at h
  split at h
  · next hc =>
    injection h with h
    subst h
    obtain ⟨h1, h2, h3, h4, h5, h6⟩ := hc
    refine ⟨⟨rfl, rfl, rfl, rfl, rfl, rfl⟩, ⟨h1, h2, h3, h4, h5, h6⟩, ?_, ?_⟩
    · intro q hq; cases q <;> simp_all [QaIn]
    · intro q hq; cases q <;> simp_all [QaIn]
  · cases h

theorem iter_sim2 {a1 : Abs} {f : St → CM St} {g : SubsetOut → WSt → CM (List Node × WSt)}
    (h11 : ∀ s s', Inv2 a1 s → f s = .ok s' → Sim2 a1 a1 GoodL s s' g) :
    ∀ n s s', Inv2 a1 s → iterN n f s = .ok s' →
      Sim2 a1 a1 GoodL s s' (fun o w => wireRepeat (g o) n w) := by
  intro n
  induction n with
  | zero =>
    intro s s' hi h
    unfold iterN at h
    injection h with h
    subst h
    exact Sim2.refl hi [] (fun o w => by unfold wireRepeat; rfl) (fun o => GoodL.nil o)
  | succ n ih =>
    intro s s' hi h
    unfold iterN at h
    split at h
    · cases h
    · next s1 h1 =>
      have x := h11 s s1 hi h1
      have y := ih s1 s' x.1.1 h
      refine Sim2.seq x y (fun o w x w1 y w2 e1 e2 gx gy => ⟨x ++ y, ?_, gx.append gy⟩)
      show wireRepeat (g o) (n + 1) w = _
      rw [wireRepeat, e1]
      simp only [e2]

theorem iter_sim2_first {a a1 : Abs} {f : St → CM St} {g : SubsetOut → WSt → CM (List Node × WSt)}
    (h01 : ∀ s s', Inv2 a s → f s = .ok s' → Sim2 a a1 GoodL s s' g)
    (h11 : ∀ s s', Inv2 a1 s → f s = .ok s' → Sim2 a1 a1 GoodL s s' g) :
    ∀ n s s', Inv2 a s → iterN (n + 1) f s = .ok s' →
      Sim2 a a1 GoodL s s' (fun o w => wireRepeat (g o) (n + 1) w) := by
  intro n s s' hi h
  unfold iterN at h
  split at h
  · cases h
  · next s1 h1 =>
    have x := h01 s s1 hi h1
    have y := iter_sim2 h11 n s1 s' x.1.1 h
    refine Sim2.seq x y (fun o w x w1 y w2 e1 e2 gx gy => ⟨x ++ y, ?_, gx.append gy⟩)
    show wireRepeat (g o) (n + 1) w = _
    rw [wireRepeat, e1]
    simp only [e2]

/-- the replication count the wiring pass reads from the final value list is the one the coder used -/
theorem count_sim2 {P : Prims} (hP : PushOne P) {o : SubsetOut} {a : Abs} {dd : DDesc} {ll : List (Nat × Nat)}
    {s s1 : St} {n : Nat} {w : WSt} (hi : Inv2 a s) (it : Item dd ll s s1) (hr : R o a s w) (hb : Below o s1)
    (hn : (P.factorValue s1 >>= factorCount) = .ok n) : wireCount o w.next = .ok n := by
  obtain ⟨l, hl, hlen⟩ := hi.vals
  obtain ⟨v0, hv0⟩ := it.vals l hl
  obtain ⟨l', hl', hpre, _⟩ := hb
  rw [hv0] at hl'
  injection hl' with hl'
  subst hl'
  cases hfv : P.factorValue s1 with
  | error e => rw [hfv] at hn; cases hn
  | ok v =>
    rw [hfv] at hn
    have hh := hP.factor s1 v (v0 :: l) hfv hv0
    simp only [List.head?_cons, Option.some.injEq] at hh
    subst hh
    obtain ⟨t, ht⟩ := hpre
    have hget : o.vals[w.next]? = some v0 := by
      rw [← ht, List.reverse_cons, hr.next, ← hlen, List.append_assoc]
      rw [List.getElem?_append_right (by simp)]
      simp
    unfold wireCount
    rw [hget]
    change factorCount v0 = .ok n at hn
    unfold factorCount at hn
    cases v0 with
    | missing => cases hn
    | int i =>
      simp only at hn ⊢
      split at hn
      · cases hn
      · injection hn with hn; rw [hn]
    | num _ _ => cases hn
    | bytes _ => cases hn

theorem wire1_elem0 {o : SubsetOut} {e : Elem} {w : WSt} (h : w.dnp = 0) :
    wire1 o (.elem e) w = wireElement o e.id w := by
  rw [wire1_elem, preW_zero h, if_neg (by simp [h])]

theorem wire1_undef0 {o : SubsetOut} {id : Nat} {w : WSt} (h : w.dnp = 0) :
    wire1 o (.undefElem id) w = w.plainValue o := by
  rw [wire1]
  simp [h, dnpSkips]

/-- without a pending 206 skip the coder runs its bitmap-definition machine, then dispatches -/
theorem noskip_pre {P : Prims} {a : Abs} {d : Desc} {s s' : St} (hi : Inv2 a s) (hsk : a.skip = false)
    (h : walk1 P d s = .ok s') : ∃ s1, Vis s s1 ∧ s1.regs.qa = s.regs.qa ∧ disp P d s1 = .ok s' := by
  rw [walk1_inv P d s hi.dnp hi.nref] at h
  have h0 : ¬ s.regs.nbitsSkipped ≠ 0 := by
    have := hi.skip
    rw [hsk] at this
    exact of_decide_eq_false this
  rw [if_neg h0] at h
  split at h
  · cases h
  · next s1 hb =>
    obtain ⟨v, q⟩ := bitmapDefinition_vis hb
    exact ⟨s1, v, q, h⟩

theorem skip_pre {P : Prims} (hP : PushOne P) {a : Abs} {d : Desc} {s s' : St} (hi : Inv2 a s)
    (hsk : a.skip = true) (h : walk1 P d s = .ok s') :
    Item (.skipped d.id s.regs.nbitsSkipped) [] s s' ∧ s'.regs.nbitsSkipped = 0 ∧ s'.regs.qa = s.regs.qa := by
  rw [walk1_inv P d s hi.dnp hi.nref] at h
  have h0 : s.regs.nbitsSkipped ≠ 0 := by
    have := hi.skip
    rw [hsk] at this
    exact of_decide_eq_true this
  rw [if_pos h0] at h
  exact skip_item hP h

/-! ### the simulation -/

mutual
theorem walkList_sim2 {P : Prims} (hP : PushOne P) : ∀ (ds : List Desc) (a a' : Abs), absList ds a = some a' →
    ∀ (s s' : St), Inv2 a s → walkList P ds s = .ok s' →
      Sim2 a a' GoodL s s' (fun o w => wireList o ds w)
  | [], a, a', ha, s, s', hi, h => by
    rw [absList] at ha
    split at ha
    · cases ha
    · injection ha with ha
      subst ha
      rw [walkList] at h
      injection h with h
      subst h
      exact Sim2.refl hi [] (fun o w => by rw [wireList]) (fun o => GoodL.nil o)
  | d :: ds, a, a', ha, s, s', hi, h => by
    rw [absList] at ha
    split at ha
    · cases ha
    · next a1 h1a =>
      rw [walkList] at h
      split at h
      · cases h
      · next s1 h1 =>
        have x := walk1_sim2 hP d a a1 h1a s s1 hi h1
        have y := walkList_sim2 hP ds a1 a' ha s1 s' x.1.1 h
        refine Sim2.seq x y (fun o w x w1 y w2 e1 e2 gx gy => ⟨x :: y, ?_, GoodL.cons gx gy⟩)
        show wireList o (d :: ds) w = _
        rw [wireList, e1]
        simp only [e2]

theorem walk1_sim2 {P : Prims} (hP : PushOne P) : ∀ (d : Desc) (a a' : Abs), abs1 d a = some a' →
    ∀ (s s' : St), Inv2 a s → walk1 P d s = .ok s' →
      Sim2 a a' Good1 s s' (fun o w => wire1 o d w)
  | .elem e, a, a', ha, s, s', hi, h => by
    rw [abs1] at ha
    refine Sim2.congrR (fun o w hr => wire1_elem0 hr.dnp) ?_
    cases hsk : a.skip with
    | false =>
      obtain ⟨s1, v, q, h⟩ := noskip_pre hi hsk h
      exact Sim2.pre hi v (elem_sim2 hP (hi.vis v q) hsk ha h)
    | true =>
      obtain ⟨it, hs0, hq⟩ := skip_pre hP hi hsk h
      unfold Abs.elem at ha
      rw [hsk] at ha
      simp only [if_true] at ha
      split at ha
      · cases ha
      · next hc =>
        injection ha with ha
        obtain ⟨_, m2, _⟩ := meaning_fields ({ a with skip := false } : Abs) e.id
        refine sim_elem_plain (a0 := { a with skip := false }) hi it rfl (nonop_skipped _ _) ?_ ?_
          ⟨rfl, rfl, rfl, rfl, rfl⟩ ha.symm hc
        · rw [hs0, ← ha, m2]; rfl
        · rw [hq, ← ha]; exact qaIn_meaning (qaIn_skip false hi.qa)
  | .undefElem id, a, a', ha, s, s', hi, h => by
    rw [abs1] at ha
    injection ha with ha
    subst ha
    refine Sim2.congrR (fun o w hr => wire1_undef0 hr.dnp) ?_
    cases hsk : a.skip with
    | false =>
      obtain ⟨s1, v, q, h⟩ := noskip_pre hi hsk h
      unfold disp at h
      cases h
    | true =>
      obtain ⟨it, hs0, hq⟩ := skip_pre hP hi hsk h
      exact sim_plain hi it rfl (by rw [hs0]; rfl) (by rw [hq]; exact qaIn_skip false hi.qa) (fun w => w) Flags.rfl'
        (fun _ q1 q2 q3 => ⟨q1, q2, q3⟩) (Or.inl ⟨nonop_skipped _ _, rfl, rfl⟩)
  | .undefSeq id, a, a', ha, s, s', hi, h => by
    rw [abs1] at ha
    cases ha
  | .op id, a, a', ha, s, s', hi, h => by
    rw [abs1] at ha
    cases hsk : a.skip with
    | true => rw [hsk] at ha; simp only [if_true] at ha; cases ha
    | false =>
      rw [hsk] at ha
      simp only [Bool.false_eq_true, if_false] at ha
      obtain ⟨s1, v, q, h⟩ := noskip_pre hi hsk h
      refine Sim2.congrR (fun o w hr => by rw [wire1_op, preW_zero hr.dnp]) ?_
      exact Sim2.pre hi v (op_sim2 hP (hi.vis v q) hsk ha h)
  | .seq id ms, a, a', ha, s, s', hi, h => by
    rw [abs1] at ha
    split at ha
    · cases ha
    · next hc =>
      have hsk : a.skip = false := by
        cases hs : a.skip with
        | false => rfl
        | true => exact absurd (Or.inl hs) hc
      have hid : ¬ id / 100000 = 1 := fun c => hc (Or.inr c)
      obtain ⟨s1, v, q, h⟩ := noskip_pre hi hsk h
      have x := walkList_sim2 hP ms a a' ha s1 s' (hi.vis v q) h
      refine Sim2.congrR (fun o w hr => by rw [wire1_seq, preW_zero hr.dnp]) ?_
      refine Sim2.pre hi v (x.map (fun o w ns w' _ e g => ⟨.seq id ns, by simp only [e], ?_, ?_⟩))
      · rw [treeOK1, g.1]
        simp [hid]
      · rw [shape1]; exact g.2
  | .fixedRep id ms, a, a', ha, s, s', hi, h => by
    rw [abs1] at ha
    split at ha
    · cases ha
    · next hc =>
      have hsk : a.skip = false := by
        cases hs : a.skip with
        | false => rfl
        | true => exact absurd (Or.inl hs) hc
      have hid : id / 100000 = 1 := Decidable.byContradiction fun c => hc (Or.inr c)
      obtain ⟨s1, v, q, h⟩ := noskip_pre hi hsk h
      have hi1 := hi.vis v q
      split at ha
      · cases ha
      · next a1 h01 =>
        split at ha
        · next h11 =>
          have body01 := fun s s' hi h => walkList_sim2 hP ms a a1 h01 s s' hi h
          have body11 := fun s s' hi h => walkList_sim2 hP ms a1 a1 h11 s s' hi h
          have x : Sim2 a a' GoodL s1 s' (fun o w => wireRepeat (wireList o ms) (yOf id) w) := by
            simp only [disp] at h
            cases hy : yOf id with
            | zero =>
              rw [hy] at h ha
              simp only [if_true] at ha
              injection ha with ha
              subst ha
              unfold iterN at h
              injection h with h
              subst h
              exact Sim2.refl hi1 [] (fun o w => by unfold wireRepeat; rfl) (fun o => GoodL.nil o)
            | succ n =>
              rw [hy] at h ha
              simp only [Nat.succ_ne_zero, if_false] at ha
              injection ha with ha
              subst ha
              exact iter_sim2_first (g := fun o => wireList o ms) body01 body11 n s1 s' hi1 h
          refine Sim2.congrR (fun o w hr => by rw [wire1_fixed, preW_zero hr.dnp]) ?_
          refine Sim2.pre hi v (x.map (fun o w ns w' _ e g => ⟨.fixedRep id ms.length ns, by simp only [e], ?_, ?_⟩))
          · rw [treeOK1, g.1, wireRepeat_length o ms (yOf id) _ _ _ e]
            simp [hid]
          · rw [shape1]; exact g.2
        · cases ha
  | .delayedRep id f ms, a, a', ha, s, s', hi, h => by
    cases f with
    | elem fe =>
      rw [abs1] at ha
      split at ha
      · cases ha
      · next hc =>
        have hsk : a.skip = false := by
          cases hs : a.skip with
          | false => rfl
          | true => exact absurd (Or.inl hs) hc
        have hid : id / 100000 = 1 := Decidable.byContradiction fun c => hc (Or.inr c)
        obtain ⟨s1, v, q, h⟩ := noskip_pre hi hsk h
        have hi1 := hi.vis v q
        refine Sim2.congrR (fun o w hr => by rw [wire1_delayed, preW_zero hr.dnp]) ?_
        refine Sim2.pre hi v ?_
        simp only [disp] at h
        split at ha
        · cases ha
        · next hx =>
          split at ha
          · cases ha
          · next a1 h01 =>
            split at ha
            · next h11 =>
              split at h
              · cases h
              · next s2 h2 =>
                split at h
                · cases h
                · next n hn =>
                  -- the factor
                  obtain ⟨s2', ll, qd, hp⟩ := elementDescriptor_links hP hi1.assoc h2
                  have hll : ll = [] := qd.nil.mpr (fun c => hx c.1)
                  subst hll
                  have it := Item.of_qa qd hp
                  have hqq : qaStep (xOf fe.id) s1.regs.qa s2.regs.qa := by rw [hp.qa]; exact qd.qa
                  have hi2 : Inv2 a.non33 s2 := it.inv hi1 rfl
                    (by rw [hp.skipped, qd.skipped]; exact hi1.skip) (qaIn_non33 hx hi1.qa hqq)
                  obtain ⟨jl, jr, ql, qr⟩ := join_facts ha
                  -- the repetitions
                  have body01 := fun s s' hi h => walkList_sim2 hP ms a.non33 a1 h01 s s' hi h
                  have body11 := fun s s' hi h => walkList_sim2 hP ms a1 a1 h11 s s' hi h
                  have x : Sim2 a.non33 a' GoodL s2 s' (fun o w => wireRepeat (wireList o ms) n w) := by
                    cases n with
                    | zero =>
                      unfold iterN at h
                      injection h with h
                      subst h
                      exact (Sim2.refl hi2 [] (fun o w => by unfold wireRepeat; rfl) (fun o => GoodL.nil o)).weaken
                        (fun x => x.abs jl.2.2.2.2.2 ql) (fun _ _ x => x.abs jl.1 jl.2.1 jl.2.2.1 jl.2.2.2.1 jl.2.2.2.2.1)
                    | succ n =>
                      exact (iter_sim2_first (g := fun o => wireList o ms) body01 body11 n s2 s' hi2 h).weaken
                        (fun x => x.abs jr.2.2.2.2.2 qr) (fun _ _ x => x.abs jr.1 jr.2.1 jr.2.2.1 jr.2.2.2.1 jr.2.2.2.2.1)
                  refine ⟨⟨x.1.1, (it.ext hi1).trans x.1.2⟩, fun o w hf hr hb => ?_⟩
                  have hb2 : Below2 o s2 := Below2.of_ext x.1.2 hb
                  obtain ⟨hlt, hlab⟩ := item_pos it hr hb2
                  have hc := count_sim2 hP hi1 it hr hb2.1 hn
                  have hr2 : R o a.non33 s2 ((({ w with next := w.next + 1 } : WSt)).register w.next) :=
                    hr.value (by rw [it.descs]; rfl) (by rw [it.links]; rfl) rfl rfl rfl rfl rfl hr.wq hr.w1 hr.wD
                      (hr.m1.push hlab (nonop_plain fe)) (hr.mD.push hlab (nonop_plain fe))
                  obtain ⟨ns, w', e1, hr', g⟩ := x.2 o _ hf hr2 hb
                  dsimp only at e1
                  refine ⟨.delayedRep id ms.length (.value .value w.next []) ns, w', ?_, hr', ?_, ?_⟩
                  · dsimp only
                    rw [take_eval hlt]
                    simp only [hc, e1]
                  · rw [treeOK1, g.1, factorOK, hc, wireRepeat_length o ms n _ _ _ e1]
                    simp [hid]
                  · rw [shape1, g.2]
                    simp [valShape, ownShape, hlt]
            · cases ha
    | undefElem _ => simp [abs1] at ha
    | undefSeq _ => simp [abs1] at ha
    | fixedRep _ _ => simp [abs1] at ha
    | delayedRep _ _ _ => simp [abs1] at ha
    | op _ => simp [abs1] at ha
    | seq _ _ => simp [abs1] at ha
end

/-! ### from a finished walk to the wired tree -/

/-- what the wired tree of a `wireLinksOK` template satisfies -/
structure Linked (t : List Desc) (o : SubsetOut) (w : Wired) : Prop where
  wired : wireRaw t o = .ok w
  next : w.st.next = o.vals.length
  len : o.descs.length = o.vals.length
  good : GoodL o w.nodes
  noA : ∀ d ∈ o.descs, d.isAssoc = false
  /-- every attribute attached through a link sits under the owner the coder's link names; the owner lies in front
      of it; the attributes it was created with are none or its meaning node, which lies behind the owner -/
  owners : ∀ p ∈ w.st.tab, ∃ k i own, p.2 = .value k i own ∧ p.1 < i ∧ i < w.st.next ∧
    lookupLink o.links i = some p.1 ∧ OwnOK p.1 i own
  /-- every link the coder recorded is shown -/
  shown : ∀ q ∈ o.links, ∃ p ∈ w.st.tab, p.2.index? = some q.1

theorem walk_linked {P : Prims} (hP : PushOne P) {t : List Desc} (hq : wireLinksOK t = true) {s0 s : St}
    (hd0 : s0.descs = []) (hl0 : s0.links = []) (hr0 : s0.regs = {}) (hv0 : ∃ r, s0.vals = [] :: r)
    (ha0 : ∀ l ∈ s0.vals, l = []) (hs : walkList P t s0 = .ok s) {o : SubsetOut}
    (hod : o.descs = s.descs.reverse) (hol : o.links = s.links.reverse)
    (hov : ∀ l, s.vals.head? = some l → o.vals = l.reverse)
    (hlinks : ∀ l ∈ o.links, ∃ p id, l.2 < p ∧ p < l.1 ∧ C07.IsBitmapOp id ∧ o.descs[p]? = some (.oper id)) :
    ∃ w, Linked t o w := by
  unfold wireLinksOK at hq
  cases habs : absList t {} with
  | none => rw [habs] at hq; cases hq
  | some a' =>
    obtain ⟨r, hv0⟩ := hv0
    have hi0 : Inv2 {} s0 := by
      refine ⟨by rw [hr0], by rw [hr0], by rw [hr0], ⟨[], by rw [hv0]; rfl, by rw [hd0]; rfl⟩, ?_, ?_, by rw [hr0]; rfl,
        by rw [hr0]; rfl⟩
      · intro l hl; rw [ha0 l hl, hd0]; rfl
      · intro d hd; rw [hd0] at hd; cases hd
    have sim := walkList_sim2 hP t {} a' habs s0 s hi0 hs
    obtain ⟨l, hl, hlen⟩ := sim.1.1.vals
    have hvals := hov l hl
    have hnoA : ∀ d ∈ o.descs, d.isAssoc = false := by
      intro d hd
      rw [hod] at hd
      exact sim.1.1.noA d (List.mem_reverse.mp hd)
    have hf : Fin o := ⟨hlinks, hnoA⟩
    have hb : Below2 o s := by
      refine ⟨⟨l, hl, ?_, ?_⟩, ?_⟩
      · rw [hvals]; exact List.prefix_refl _
      · rw [hod]; exact List.prefix_refl _
      · rw [hol]; exact List.prefix_refl _
    have hw0 : R o {} s0 {} := by
      refine ⟨by rw [hd0]; rfl, rfl, rfl, rfl, rfl, rfl, MeanOK.off, MeanOK.off, ?_, ?_, ?_⟩
      · intro j hj; exact absurd hj (Nat.not_lt_zero j)
      · intro p hp; cases hp
      · intro q hq; rw [hl0] at hq; cases hq
    obtain ⟨ns, w', e, hr', g⟩ := sim.2 o {} hf hw0 hb
    dsimp only at e
    have hn : w'.next = o.vals.length := by rw [hr'.next, ← hlen, hvals]; simp
    refine ⟨{ nodes := ns, st := w' }, by unfold wireRaw; rw [e], hn, by rw [hod, hvals]; simp [hlen], g, hnoA,
      hr'.tabS, ?_⟩
    intro q hq
    rw [hol] at hq
    exact hr'.tabC q (List.mem_reverse.mp hq)

/-- the side conditions of the conversion theorem hold -/
theorem Linked.sideOK {t : List Desc} {o : SubsetOut} {w : Wired} (h : Linked t o w) : w.sideOK o = true := by
  unfold Wired.sideOK
  rw [h.good.1, h.next]
  simp only [Bool.true_and, beq_self_eq_true, Bool.and_true, List.all_eq_true]
  intro p hp
  obtain ⟨k, i, own, e, _, hi, _, _⟩ := h.owners p hp
  rw [e]
  have hlt : i < o.descs.length := by rw [h.len, ← h.next]; exact hi
  have hd : o.descs[i]? = some o.descs[i] := List.getElem?_eq_getElem hlt
  have hA := h.noA _ (List.getElem_mem hlt)
  simp [tabAttrOK, hd, hA]

end Bufr.C09
