/-
  C09, stage 2: the link between the coder and the wiring pass for templates with 206YYY and the BITMAP machine
  (222000 / 223000 / 224000 / 225000 / 232000, 235000, 236000, 237000, 237255, bitmap definitions by 031031 runs
  under fixed or delayed replication, marker operators 22x255 / 232255, class 33 values after 222000), WITHOUT
  associated fields (no 204), 203 and 221.

  The class `wireLinksOK` is decided by an abstract interpretation of the template (`absList`): the abstract state
  `Abs` holds what the wiring pass keeps (`waiting_for_qa_info_meaning`, the two `waiting_for_*_stats_meaning`
  flags, whether the two meaning nodes are known), the SET of values the coder's QA status can have at that
  point (the coder's machine and the flag of the wiring pass are switched by different events: findings F15,
  F-C07-wire-qa-across-operator) and whether a 206 skip is pending.  A class 33 element is accepted only where
  both walks agree on what it is: a quality value (flag set, coder status certainly not `na`) or an ordinary
  element (flag clear, status certainly `na`).  A replication body must be a fixed point after one round.

  The coder's bitmap registers (definition machine, back references, selection, iterator) are NOT related to
  anything: the wiring pass never looks at them.  What it needs is (1) that the coder recorded a link keyed by
  the position of every marker / quality value (`elementDescriptor_links`, `bitmappedDescriptor` below), (2) that
  the owner named by a link lies in front of the value (`C07.LinkInv`, proved for every template), so that its
  node is registered (`R.reg`: every index consumed is registered - there are no associated-field nodes here).
-/
import BufrModel.Lemmas.WireSim
namespace Bufr.C09
open Bufr

/-! ### the coder's side -/

/-- descriptors, values, links and the registers the wiring pass has a counterpart for are the same -/
structure Vis (s s' : St) : Prop where
  descs : s'.descs = s.descs
  vals : s'.vals = s.vals
  links : s'.links = s.links
  assoc : s'.regs.assocStack = s.regs.assocStack
  nref : s'.regs.nbitsNewRefval = s.regs.nbitsNewRefval
  dnp : s'.regs.dnpCount = s.regs.dnpCount
  skipped : s'.regs.nbitsSkipped = s.regs.nbitsSkipped

theorem Vis.rfl' (s : St) : Vis s s := ⟨rfl, rfl, rfl, rfl, rfl, rfl, rfl⟩

theorem Vis.trans {a b c : St} (h1 : Vis a b) (h2 : Vis b c) : Vis a c :=
  ⟨h2.descs.trans h1.descs, h2.vals.trans h1.vals, h2.links.trans h1.links, h2.assoc.trans h1.assoc,
    h2.nref.trans h1.nref, h2.dnp.trans h1.dnp, h2.skipped.trans h1.skipped⟩

theorem buildBitmapped_vis {s s' : St} {bm : List Val} (h : buildBitmapped s bm = .ok s') :
    Vis s s' ∧ s'.regs.qa = s.regs.qa := by
  unfold buildBitmapped at h
  simp only at h
  split at h <;> split at h <;>
    first | (injection h with h; subst h; exact ⟨⟨rfl, rfl, rfl, rfl, rfl, rfl, rfl⟩, rfl⟩) | cases h

theorem bitmapDefinition_vis {P : Prims} {id : Nat} {s s' : St} (h : bitmapDefinition P id s = .ok s') :
    Vis s s' ∧ s'.regs.qa = s.regs.qa := by
  unfold bitmapDefinition at h
  split at h
  · injection h with h; subst h; exact ⟨Vis.rfl' s, rfl⟩
  · split at h <;> (injection h with h; subst h; exact ⟨⟨rfl, rfl, rfl, rfl, rfl, rfl, rfl⟩, rfl⟩)
  · split at h <;> (injection h with h; subst h; first | exact ⟨Vis.rfl' s, rfl⟩ | exact ⟨⟨rfl, rfl, rfl, rfl, rfl, rfl, rfl⟩, rfl⟩)
  · split at h
    · injection h with h; subst h; exact ⟨⟨rfl, rfl, rfl, rfl, rfl, rfl, rfl⟩, rfl⟩
    · simp only [bind, Except.bind, pure, Except.pure] at h
      split at h
      · cases h
      · split at h
        · cases h
        · next s1 hb =>
          injection h with h
          subst h
          obtain ⟨v, q⟩ := buildBitmapped_vis hb
          exact ⟨⟨v.descs, v.vals, v.links, v.assoc, v.nref, v.dnp, v.skipped⟩, q⟩

/-- what the coder's QA machine does at an element of class `x` -/
def qaStep (x : Nat) (q q' : QaStatus) : Prop :=
  if x = 33 then (q = .na ∧ q' = .na) ∨ (q ≠ .na ∧ q' = .processing)
  else q' = (if q = .processing then .na else q)

theorem nextBitmapped_vis {s s' : St} {x : Nat × Elem} (h : nextBitmapped s = .ok (x, s')) :
    Vis s s' ∧ s'.regs.qa = s.regs.qa := by
  unfold nextBitmapped at h
  split at h
  · cases h
  · cases h
  · injection h with h
    injection h with _ h
    subst h
    exact ⟨⟨rfl, rfl, rfl, rfl, rfl, rfl, rfl⟩, rfl⟩

/-- the QA part of `process_element_descriptor` -/
def qaPart (e : Elem) (s : St) : CM St :=
  if xOf e.id = 33 then
    let s1 := if s.regs.qa = .waiting then s.setRegs fun r => { r with qa := .processing } else s
    if s1.regs.qa = .processing then do
      let ((owner, _), s2) ← nextBitmapped s1
      pure (addLink s2 owner)
    else pure s1
  else
    pure (if s.regs.qa = .processing then s.setRegs fun r => { r with qa := .na } else s)

/-- the rest: the item itself -/
def elemTail (P : Prims) (dd : DDesc) (e : Elem) (s : St) : CM St :=
  match e.kind with
  | .string =>
    let nbytes := if s.regs.newNbytes ≠ 0 then s.regs.newNbytes else e.nbits / 8
    P.string dd nbytes s
  | .codeflag => P.codeflag dd e.nbits s
  | .numeric =>
    let nbits : Int := (e.nbits : Int) + s.regs.nbitsOffset + s.regs.nbitsInc
    let scale : Int := e.scale + s.regs.scaleOffset + s.regs.scaleInc
    match lookupRef s.regs.newRefvals e.id with
    | none => P.numeric dd nbits scale (e.ref * s.regs.refFactor) s
    | some nr => P.numeric dd nbits scale (nr * s.regs.refFactor) s

theorem elementDescriptor_eq (P : Prims) (dd : DDesc) (e : Elem) (s : St) (ha : s.regs.assocStack = []) :
    elementDescriptor P dd e s = (qaPart e s >>= elemTail P dd e) := by
  unfold elementDescriptor qaPart elemTail
  have hc : ¬ (s.regs.assocStack ≠ [] ∧ xOf e.id ≠ 31) := fun c => c.1 ha
  simp only [if_neg hc, bind, Except.bind, pure, Except.pure]
  rfl

theorem elemTail_pushed {P : Prims} (hP : PushOne P) {dd : DDesc} {e : Elem} {s s' : St}
    (h : elemTail P dd e s = .ok s') : Pushed dd s s' := by
  unfold elemTail at h
  split at h
  · exact hP.string _ _ _ _ h
  · exact hP.codeflag _ _ _ _ h
  · split at h
    · exact hP.numeric _ _ _ _ _ _ h
    · exact hP.numeric _ _ _ _ _ _ h

/-- what `qaPart` leaves behind -/
structure QaDone (x : Nat) (s s1 : St) (ll : List (Nat × Nat)) : Prop where
  descs : s1.descs = s.descs
  vals : s1.vals = s.vals
  links : s1.links = ll ++ s.links
  keys : ∀ q ∈ ll, q.1 = s.descs.length
  nil : ll = [] ↔ ¬ (x = 33 ∧ s.regs.qa ≠ .na)
  assoc : s1.regs.assocStack = s.regs.assocStack
  nref : s1.regs.nbitsNewRefval = s.regs.nbitsNewRefval
  dnp : s1.regs.dnpCount = s.regs.dnpCount
  skipped : s1.regs.nbitsSkipped = s.regs.nbitsSkipped
  qa : qaStep x s.regs.qa s1.regs.qa

theorem qaPart_done {e : Elem} {s s1 : St} (h : qaPart e s = .ok s1) : ∃ ll, QaDone (xOf e.id) s s1 ll := by
  unfold qaPart at h
  by_cases hx : xOf e.id = 33
  · simp only [hx, if_true] at h
    cases hq : s.regs.qa with
    | na =>
      simp only [hq, reduceCtorEq, if_false, pure, Except.pure] at h
      injection h with h
      subst h
      refine ⟨[], rfl, rfl, rfl, by simp, by simp [hq], rfl, rfl, rfl, rfl, ?_⟩
      unfold qaStep; rw [if_pos hx, hq]; exact Or.inl ⟨rfl, rfl⟩
    | waiting =>
      simp only [hq, if_true, St.setRegs, bind, Except.bind, pure, Except.pure] at h
      split at h
      · cases h
      · next x hn =>
        injection h with h
        subst h
        obtain ⟨v, q⟩ := nextBitmapped_vis (x := x.1) (s' := x.2) hn
        refine ⟨[(s.descs.length, x.1.1)], v.descs, v.vals, ?_, by simp, by simp [hx, hq],
          v.assoc, v.nref, v.dnp, v.skipped, ?_⟩
        · show (x.2.descs.length, x.1.1) :: x.2.links = _
          rw [v.descs, v.links]; rfl
        · unfold qaStep; rw [if_pos hx, hq]
          exact Or.inr ⟨by simp, q⟩
    | processing =>
      simp only [hq, reduceCtorEq, if_false, if_true, bind, Except.bind, pure, Except.pure] at h
      split at h
      · cases h
      · next x hn =>
        injection h with h
        subst h
        obtain ⟨v, q⟩ := nextBitmapped_vis (x := x.1) (s' := x.2) hn
        refine ⟨[(s.descs.length, x.1.1)], v.descs, v.vals, ?_, by simp, by simp [hx, hq],
          v.assoc, v.nref, v.dnp, v.skipped, ?_⟩
        · show (x.2.descs.length, x.1.1) :: x.2.links = _
          rw [v.descs, v.links]; rfl
        · unfold qaStep; rw [if_pos hx, hq]
          exact Or.inr ⟨by simp, q.trans hq⟩
  · simp only [hx, if_false, pure, Except.pure] at h
    injection h with h
    subst h
    refine ⟨[], ?_, ?_, ?_, by simp, by simp [hx], ?_, ?_, ?_, ?_, ?_⟩
    · split <;> rfl
    · split <;> rfl
    · split <;> rfl
    · split <;> rfl
    · split <;> rfl
    · split <;> rfl
    · split <;> rfl
    · unfold qaStep
      rw [if_neg hx]
      split <;> rfl

/-- `process_element_descriptor` without associated field: possibly a link keyed by the own position (class 33
    while quality information is awaited), the QA machine steps, then ONE item is recorded -/
theorem elementDescriptor_links {P : Prims} (hP : PushOne P) {dd : DDesc} {e : Elem} {s s' : St}
    (ha : s.regs.assocStack = []) (h : elementDescriptor P dd e s = .ok s') :
    ∃ s1 ll, QaDone (xOf e.id) s s1 ll ∧ Pushed dd s1 s' := by
  rw [elementDescriptor_eq P dd e s ha] at h
  cases h1 : qaPart e s with
  | error err => rw [h1] at h; cases h
  | ok s1 =>
    rw [h1] at h
    obtain ⟨ll, hd⟩ := qaPart_done h1
    exact ⟨s1, ll, hd, elemTail_pushed hP h⟩

/-! ### the relation -/

def QaIn (a : Abs) : QaStatus → Prop
  | .na => a.qN = true
  | .waiting => a.qW = true
  | .processing => a.qP = true

/-- the coder's side: no associated field, no 203 definition, no 221 count; aligned value lists; no `A` label -/
structure Inv2 (a : Abs) (s : St) : Prop where
  assoc : s.regs.assocStack = []
  nref : s.regs.nbitsNewRefval = 0
  dnp : s.regs.dnpCount = 0
  vals : ∃ l, s.vals.head? = some l ∧ l.length = s.descs.length
  al : ∀ l ∈ s.vals, l.length = s.descs.length
  noA : ∀ d ∈ s.descs, d.isAssoc = false
  skip : decide (s.regs.nbitsSkipped ≠ 0) = a.skip
  qa : QaIn a s.regs.qa

/-- what is known about the FINAL flat lists: owners lie in front of their attributes (`C07.LinkInv`), no `A` label -/
def Fin (o : SubsetOut) : Prop := (∀ p ∈ o.links, p.2 < p.1) ∧ (∀ d ∈ o.descs, d.isAssoc = false)

def Ext2 (s s' : St) : Prop := Ext s s' ∧ ∃ ll, s'.links = ll ++ s.links

def Below2 (o : SubsetOut) (s : St) : Prop := Below o s ∧ s.links.reverse <+: o.links

theorem Ext2.trans {a b c : St} (h1 : Ext2 a b) (h2 : Ext2 b c) : Ext2 a c := by
  obtain ⟨e1, l1, h1⟩ := h1
  obtain ⟨e2, l2, h2⟩ := h2
  exact ⟨e1.trans e2, l2 ++ l1, by rw [h2, h1, List.append_assoc]⟩

theorem Below2.of_ext {o : SubsetOut} {s s' : St} (h : Ext2 s s') (hb : Below2 o s') : Below2 o s := by
  obtain ⟨e, ll, hl⟩ := h
  refine ⟨Below.of_ext e hb.1, ?_⟩
  have := hb.2
  rw [hl, List.reverse_append] at this
  exact (List.prefix_append _ _).trans this

theorem Inv2.ext_refl {a : Abs} {s : St} (h : Inv2 a s) : Ext2 s s := by
  obtain ⟨l, hl, _⟩ := h.vals
  exact ⟨⟨[], [], l, hl, by simpa using hl, rfl⟩, [], rfl⟩

/-- the wiring pass's side -/
structure R (o : SubsetOut) (a : Abs) (s : St) (w : WSt) : Prop where
  next : w.next = s.descs.length
  dnp : w.dnp = 0
  assoc : w.assoc = []
  wq : w.waitQa = a.w
  w1 : w.wait1st = a.w1
  wD : w.waitDiff = a.wD
  m1 : a.h1 = true → ∃ m, w.firstMeaning = some m ∧ m < w.next
  mD : a.hD = true → ∃ m, w.diffMeaning = some m ∧ m < w.next
  reg : ∀ j, j < w.next → j ∈ w.reg
  tabS : ∀ p ∈ w.tab, ∃ k i own, p.2 = .value k i own ∧ i < w.next ∧ lookupLink o.links i = some p.1
  tabC : ∀ q ∈ s.links, ∃ p ∈ w.tab, p.2.index? = some q.1

def Sim2 {α : Type} (a a' : Abs) (good : SubsetOut → α → Prop) (s s' : St)
    (run : SubsetOut → WSt → CM (α × WSt)) : Prop :=
  (Inv2 a' s' ∧ Ext2 s s') ∧ ∀ o w, Fin o → R o a s w → Below2 o s' →
    ∃ n w', run o w = .ok (n, w') ∧ R o a' s' w' ∧ good o n

theorem Sim2.seq {α β γ : Type} {a a1 a' : Abs} {g1 : SubsetOut → α → Prop}
    {g2 : SubsetOut → β → Prop} {g : SubsetOut → γ → Prop} {s s1 s' : St}
    {r1 : SubsetOut → WSt → CM (α × WSt)} {r2 : SubsetOut → WSt → CM (β × WSt)}
    {r : SubsetOut → WSt → CM (γ × WSt)}
    (h1 : Sim2 a a1 g1 s s1 r1) (h2 : Sim2 a1 a' g2 s1 s' r2)
    (hr : ∀ o w x w1 y w2, r1 o w = .ok (x, w1) → r2 o w1 = .ok (y, w2) → g1 o x → g2 o y →
      ∃ c, r o w = .ok (c, w2) ∧ g o c) :
    Sim2 a a' g s s' r := by
  refine ⟨⟨h2.1.1, h1.1.2.trans h2.1.2⟩, fun o w hf hw hb => ?_⟩
  obtain ⟨x, w1, e1, hw1, gx⟩ := h1.2 o w hf hw (Below2.of_ext h2.1.2 hb)
  obtain ⟨y, w2, e2, hw2, gy⟩ := h2.2 o w1 hf hw1 hb
  obtain ⟨c, e, gc⟩ := hr o w x w1 y w2 e1 e2 gx gy
  exact ⟨c, w2, e, hw2, gc⟩

/-! ### `lookupLink` finds an entry when there is one -/

theorem lookup_foldl (i : Nat) : ∀ (l : List (Nat × Nat)) (acc : Option Nat),
    ((∃ own, (i, own) ∈ l) ∨ acc.isSome = true) →
    ∃ own', l.foldl (fun acc p => if p.1 = i then some p.2 else acc) acc = some own' ∧
      ((i, own') ∈ l ∨ acc = some own')
  | [], acc, h => by
    rcases h with ⟨_, h⟩ | h
    · cases h
    · cases acc with
      | none => cases h
      | some x => exact ⟨x, rfl, Or.inr rfl⟩
  | p :: l, acc, h => by
    rw [List.foldl_cons]
    by_cases hp : p.1 = i
    · rw [if_pos hp]
      obtain ⟨own', e, hm⟩ := lookup_foldl i l (some p.2) (Or.inr rfl)
      refine ⟨own', e, Or.inl ?_⟩
      rcases hm with hm | hm
      · exact List.mem_cons_of_mem _ hm
      · injection hm with hm
        rw [← hm, ← hp]
        exact List.mem_cons_self
    · rw [if_neg hp]
      have : (∃ own, (i, own) ∈ l) ∨ acc.isSome = true := by
        rcases h with ⟨own, h⟩ | h
        · rcases List.mem_cons.mp h with h | h
          · exact absurd (by rw [← h]) hp
          · exact Or.inl ⟨own, h⟩
        · exact Or.inr h
      obtain ⟨own', e, hm⟩ := lookup_foldl i l acc this
      refine ⟨own', e, ?_⟩
      rcases hm with hm | hm
      · exact Or.inl (List.mem_cons_of_mem _ hm)
      · exact Or.inr hm

theorem lookupLink_mem {links : List (Nat × Nat)} {i own : Nat} (h : (i, own) ∈ links) :
    ∃ own', lookupLink links i = some own' ∧ (i, own') ∈ links := by
  obtain ⟨own', e, hm⟩ := lookup_foldl i links none (Or.inl ⟨own, h⟩)
  refine ⟨own', e, ?_⟩
  rcases hm with hm | hm
  · exact hm
  · cases hm

/-! ### unfolding one step of both walks -/

/-- the dispatch of `process_members` after the prelude -/
def disp (P : Prims) (d : Desc) (s : St) : CM St :=
  match d with
  | .elem e => elementDescriptor P (.plain e) e s
  | .fixedRep id ms => iterN (yOf id) (walkList P ms) s
  | .delayedRep _ f ms =>
    match f with
    | .elem fe =>
      match elementDescriptor P (.plain fe) fe s with
      | .error e => .error e
      | .ok s1 =>
        match P.factorValue s1 >>= factorCount with
        | .error e => .error e
        | .ok n => iterN n (walkList P ms) s1
    | _ => .error .unknownDescr
  | .op id => operatorDescriptor P id s
  | .seq _ ms => walkList P ms s
  | .undefElem _ => .error .unknownDescr
  | .undefSeq _ => .error .unknownDescr

theorem walk1_inv (P : Prims) (d : Desc) (s0 : St) (hd : s0.regs.dnpCount = 0) (hn : s0.regs.nbitsNewRefval = 0) :
    walk1 P d s0 =
      (if s0.regs.nbitsSkipped ≠ 0 then
        (do let s' ← P.codeflag (.skipped d.id s0.regs.nbitsSkipped) s0.regs.nbitsSkipped s0
            pure (s'.setRegs fun r => { r with nbitsSkipped := 0 }))
       else match bitmapDefinition P d.id s0 with
         | .error e => .error e
         | .ok s => disp P d s) := by
  cases d <;> rw [walk1] <;>
    first
    | (intro e h; cases h)
    | (simp only [hd, hn, ne_eq, not_true_eq_false, decide_false, Bool.false_and, Bool.false_eq_true, if_false,
        disp]
       try rfl)

theorem preW_zero {w : WSt} (h : w.dnp = 0) : preW w = w := by
  unfold preW
  rw [if_neg (by simp [h])]

/-! ### abstract QA status: soundness of the transfer functions -/

theorem qaIn_non33 {a : Abs} {x : Nat} {q q' : QaStatus} (hx : x ≠ 33) (h : QaIn a q) (hs : qaStep x q q') :
    QaIn a.non33 q' := by
  unfold qaStep at hs
  rw [if_neg hx] at hs
  subst hs
  cases q <;> simp_all [QaIn, Abs.non33]

theorem qaIn_c33 {a a' : Abs} {q q' : QaStatus} (hc : a.c33 = some a') (h : QaIn a q) (hs : qaStep 33 q q') :
    QaIn a' q' ∧ (a.w = true ↔ q ≠ .na) ∧ a'.w = a.w ∧ a'.w1 = a.w1 ∧ a'.wD = a.wD ∧ a'.h1 = a.h1 ∧
      a'.hD = a.hD ∧ a'.skip = a.skip := by
  unfold qaStep at hs
  simp only [if_true] at hs
  unfold Abs.c33 at hc
  cases hw : a.w <;> simp only [hw, if_true, Bool.false_eq_true, if_false] at hc
  · split at hc
    · cases hc
    · next hn =>
      injection hc with hc
      subst hc
      simp only [Bool.or_eq_true, not_or, Bool.not_eq_true] at hn
      cases q <;> simp_all [QaIn]
  · split at hc
    · cases hc
    · next hn =>
      injection hc with hc
      subst hc
      cases q <;> simp_all [QaIn]

theorem qaIn_marker {a : Abs} {x : Nat} {q q' : QaStatus} (h : QaIn a q) (hs : qaStep x q q') :
    QaIn a.marker q' := by
  unfold qaStep at hs
  split at hs
  · rcases hs with ⟨h1, h2⟩ | ⟨h1, h2⟩
    · subst h1 h2; simp_all [QaIn, Abs.marker]
    · subst h2; cases q <;> simp_all [QaIn, Abs.marker]
  · subst hs
    cases q <;> simp_all [QaIn, Abs.marker]

theorem qaIn_meaning {a : Abs} {id : Nat} {q : QaStatus} (h : QaIn a q) : QaIn (a.meaning id) q := by
  unfold Abs.meaning
  split
  · cases q <;> exact h
  · split
    · cases q <;> exact h
    · exact h

theorem x33_not_meaning {id : Nat} (h : xOf id = 33) : id ≠ 8023 ∧ id ≠ 8024 := by
  constructor <;> (intro e; subst e; revert h; decide)

/-! ### the wiring pass: one value node -/

theorem take_eval {o : SubsetOut} {w : WSt} (hlt : w.next < o.descs.length) :
    w.take o = .ok (w.next, { w with next := w.next + 1 }) := by
  unfold WSt.take
  rw [if_pos hlt]

theorem plainValue_eval {o : SubsetOut} {w : WSt} (hlt : w.next < o.descs.length) :
    w.plainValue o = .ok (.value .value w.next [], { w with next := w.next + 1, reg := w.next :: w.reg }) := by
  unfold WSt.plainValue WSt.valueNode
  rw [take_eval hlt]
  rfl

/-- the meaning bookkeeping of `wire_element_descriptor` on the state after the value node -/
def meanW (id : Nat) (w : WSt) : WSt :=
  let w1 : WSt := { w with next := w.next + 1, reg := w.next :: w.reg }
  if id = 8023 ∧ w.wait1st = true then { w1 with firstMeaning := some w.next, wait1st := false }
  else if id = 8024 ∧ w.waitDiff = true then { w1 with diffMeaning := some w.next, waitDiff := false }
  else w1

theorem wireElement_plain {o : SubsetOut} {id : Nat} {w : WSt} (hlt : w.next < o.descs.length)
    (ha : w.assoc = []) (hq : ¬ (xOf id = 33 ∧ w.waitQa = true)) :
    wireElement o id w = .ok (.value .value w.next [], meanW id w) := by
  unfold wireElement WSt.valueNode
  have h1 : ¬ (w.assoc ≠ [] ∧ xOf id ≠ 31) := fun c => c.1 ha
  have h2 : ¬ (id = 31021 ∧ w.assoc ≠ []) := fun c => c.2 ha
  rw [if_neg h1, if_neg hq, take_eval hlt]
  simp only [WSt.register, h2, ↓reduceIte]
  unfold meanW
  by_cases c1 : id = 8023 <;> by_cases c1' : w.wait1st = true <;> by_cases c2 : id = 8024 <;>
    by_cases c2' : w.waitDiff = true <;> simp_all

theorem bitmapAttr_eval {o : SubsetOut} {w : WSt} {i owner : Nat} {n : Node}
    (hl : lookupLink o.links i = some owner) (hr : owner ∈ w.reg) :
    w.bitmapAttr o i n = .ok { w with tab := (owner, n) :: w.tab } := by
  unfold WSt.bitmapAttr
  rw [hl]
  simp only [if_pos hr]

/-- the position recorded last is found in the final label list -/
theorem take2 {o : SubsetOut} {dd : DDesc} {s s1 : St} {w : WSt} (hp : Pushed dd s s1)
    (hn : w.next = s.descs.length) (hb : Below o s1) :
    w.next < o.descs.length ∧ o.descs[w.next]? = some dd := by
  have hlen := hb.len
  rw [hp.descs, List.length_cons] at hlen
  exact ⟨by omega, by rw [hn]; exact hb.label hp.descs⟩

/-- one index consumed, nothing attached -/
theorem R.value {o : SubsetOut} {a a' : Abs} {s s' : St} {w w' : WSt} (h : R o a s w)
    (hd : s'.descs.length = s.descs.length + 1) (hl : s'.links = s.links)
    (hnext : w'.next = w.next + 1) (hdnp : w'.dnp = w.dnp) (hassoc : w'.assoc = w.assoc)
    (hreg : w'.reg = w.next :: w.reg) (htab : w'.tab = w.tab)
    (wq : w'.waitQa = a'.w) (w1 : w'.wait1st = a'.w1) (wD : w'.waitDiff = a'.wD)
    (m1 : a'.h1 = true → ∃ m, w'.firstMeaning = some m ∧ m < w'.next)
    (mD : a'.hD = true → ∃ m, w'.diffMeaning = some m ∧ m < w'.next) : R o a' s' w' := by
  refine ⟨by rw [hnext, hd, h.next], by rw [hdnp, h.dnp], by rw [hassoc, h.assoc], wq, w1, wD, m1, mD, ?_, ?_, ?_⟩
  · intro j hj
    rw [hreg]
    by_cases e : j = w.next
    · rw [e]; exact List.mem_cons_self
    · exact List.mem_cons_of_mem _ (h.reg j (by omega))
  · intro p hp
    rw [htab] at hp
    obtain ⟨k, i, own, e1, e2, e3⟩ := h.tabS p hp
    exact ⟨k, i, own, e1, by omega, e3⟩
  · intro q hq
    rw [hl] at hq
    rw [htab]
    exact h.tabC q hq

/-- no index consumed -/
theorem R.stay {o : SubsetOut} {a a' : Abs} {s s' : St} {w w' : WSt} (h : R o a s w)
    (hd : s'.descs = s.descs) (hl : s'.links = s.links)
    (hnext : w'.next = w.next) (hdnp : w'.dnp = w.dnp) (hassoc : w'.assoc = w.assoc)
    (hreg : w'.reg = w.reg) (htab : w'.tab = w.tab)
    (wq : w'.waitQa = a'.w) (w1 : w'.wait1st = a'.w1) (wD : w'.waitDiff = a'.wD)
    (m1 : a'.h1 = true → ∃ m, w'.firstMeaning = some m ∧ m < w'.next)
    (mD : a'.hD = true → ∃ m, w'.diffMeaning = some m ∧ m < w'.next) : R o a' s' w' := by
  refine ⟨by rw [hnext, hd, h.next], by rw [hdnp, h.dnp], by rw [hassoc, h.assoc], wq, w1, wD, m1, mD, ?_, ?_, ?_⟩
  · intro j hj
    rw [hreg]
    exact h.reg j (by omega)
  · intro p hp
    rw [htab] at hp
    obtain ⟨k, i, own, e1, e2, e3⟩ := h.tabS p hp
    exact ⟨k, i, own, e1, by omega, e3⟩
  · intro q hq
    rw [hl] at hq
    rw [htab]
    exact h.tabC q hq

/-- one index consumed and attached to the owner its link names -/
theorem R.attr {o : SubsetOut} {a a' : Abs} {s s' : St} {w w' : WSt} {ll : List (Nat × Nat)} {k : VKind}
    {own : List Node} {owner : Nat} (h : R o a s w)
    (hd : s'.descs.length = s.descs.length + 1) (hl : s'.links = ll ++ s.links)
    (hk : ∀ q ∈ ll, q.1 = s.descs.length) (hlook : lookupLink o.links w.next = some owner)
    (hnext : w'.next = w.next + 1) (hdnp : w'.dnp = w.dnp) (hassoc : w'.assoc = w.assoc)
    (hreg : w'.reg = w.next :: w.reg) (htab : w'.tab = (owner, .value k w.next own) :: w.tab)
    (wq : w'.waitQa = a'.w) (w1 : w'.wait1st = a'.w1) (wD : w'.waitDiff = a'.wD)
    (m1 : a'.h1 = true → ∃ m, w'.firstMeaning = some m ∧ m < w'.next)
    (mD : a'.hD = true → ∃ m, w'.diffMeaning = some m ∧ m < w'.next) : R o a' s' w' := by
  refine ⟨by rw [hnext, hd, h.next], by rw [hdnp, h.dnp], by rw [hassoc, h.assoc], wq, w1, wD, m1, mD, ?_, ?_, ?_⟩
  · intro j hj
    rw [hreg]
    by_cases e : j = w.next
    · rw [e]; exact List.mem_cons_self
    · exact List.mem_cons_of_mem _ (h.reg j (by omega))
  · intro p hp
    rw [htab] at hp
    rcases List.mem_cons.mp hp with rfl | hp
    · exact ⟨k, w.next, own, rfl, by omega, hlook⟩
    · obtain ⟨k', i, own', e1, e2, e3⟩ := h.tabS p hp
      exact ⟨k', i, own', e1, by omega, e3⟩
  · intro q hq
    rw [hl] at hq
    rw [htab]
    rcases List.mem_append.mp hq with hq | hq
    · exact ⟨_, List.mem_cons_self, by rw [hk q hq, ← h.next]; rfl⟩
    · obtain ⟨p, hp, e⟩ := h.tabC q hq
      exact ⟨p, List.mem_cons_of_mem _ hp, e⟩

theorem mean_keep {w w' : WSt} {b b' : Bool} {f : WSt → Option Nat} (h : b = true → ∃ m, f w = some m ∧ m < w.next)
    (hf : f w' = f w) (hn : w.next ≤ w'.next) (hb : b' = b) : b' = true → ∃ m, f w' = some m ∧ m < w'.next := by
  intro hb'
  rw [hb] at hb'
  obtain ⟨m, e, hm⟩ := h hb'
  exact ⟨m, by rw [hf, e], by omega⟩

end Bufr.C09
