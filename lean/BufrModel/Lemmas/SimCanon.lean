/-
  What the canonical values computed by the checked encoder (`encPrimsUX`, ghost register `aux`) are,
  value by value: an INVARIANT of the walk, obtained from the simulation theorem with both sides
  equal (`P = Q = encPrimsUX`, relation "same state, and the invariant holds").
-/
import BufrModel.Lemmas.SimEnc
set_option linter.unusedSimpArgs false
namespace Bufr

/-- element-wise relation between two lists -/
inductive Rel2 {α β : Type} (R : α → β → Prop) : List α → List β → Prop
  | nil : Rel2 R [] []
  | cons {a b l₁ l₂} : R a b → Rel2 R l₁ l₂ → Rel2 R (a :: l₁) (b :: l₂)

theorem Rel2.snoc {α β : Type} {R : α → β → Prop} {l₁ : List α} {l₂ : List β} {a : α} {b : β}
    (h : Rel2 R l₁ l₂) (hab : R a b) : Rel2 R (l₁ ++ [a]) (l₂ ++ [b]) := by
  induction h with
  | nil => exact .cons hab .nil
  | cons h1 _ ih => exact .cons h1 ih

theorem Rel2.length_eq {α β : Type} {R : α → β → Prop} {l₁ : List α} {l₂ : List β}
    (h : Rel2 R l₁ l₂) : l₁.length = l₂.length := by
  induction h with
  | nil => rfl
  | cons _ _ ih => simp [ih]

theorem Rel2.get {α β : Type} {R : α → β → Prop} {l₁ : List α} {l₂ : List β}
    (h : Rel2 R l₁ l₂) : ∀ (i : Nat) (a : α) (b : β), l₁[i]? = some a → l₂[i]? = some b → R a b := by
  induction h with
  | nil => intro i a b h1; simp at h1
  | cons h1 _ ih =>
    intro i a b ha hb
    cases i with
    | zero => simp at ha hb; subst ha hb; exact h1
    | succ i => simp at ha hb; exact ih i a b ha hb

/-- `c` is what a decoder returns for the field into which the encoder put the supplied value `v`:
    * a numeric field of `n` bits (`0 < n ≤ 64`): the supplied value is quantised
      (`rawNumeric` = `quantise v scale - ref`, or the all-ones pattern for a missing value), must
      fit the field, and reads back as `(raw + ref) / 10^scale`, or as missing when `raw` is the
      all-ones pattern of a field wider than one bit;
    * a code / flag / associated / skipped field: the same without scaling;
    * a character field: the bytes padded with blanks / truncated to the field (all `0xFF` when missing);
    * a new reference value (203YYY) or an operator constant: the integer itself. -/
inductive CanonOf : Val → Val → Prop
  | numeric (n : Nat) (scale ref : Int) (v : Val) (raw : Int) :
      0 < n → n ≤ 64 → rawNumeric n scale ref v = .ok raw → 0 ≤ raw → raw.toNat < 2 ^ n →
      CanonOf v (canonNumeric n scale ref raw.toNat)
  | codeflag (n : Nat) (v : Val) (raw : Int) :
      0 < n → n ≤ 64 → rawCodeflag n v = .ok raw → 0 ≤ raw → raw.toNat < 2 ^ n →
      CanonOf v (canonCodeflag n raw.toNat)
  | string (n : Nat) (v : Val) (b : List UInt8) :
      strBytes n v = .ok b → CanonOf v (.bytes (padBytes b n))
  | exact (i : Int) : CanonOf (.int i) (.int i)

/-- every field writer of the checked encoder produces a canonical value in the sense of `CanonOf` -/
def FldCanon (fld : Fld) : Prop := ∀ v o, fld v = .ok o → CanonOf v o.canon

theorem fldCanon_numeric (nb sc rf : Int) : FldCanon (fldNumericX nb sc rf) := by
  intro v o h
  unfold fldNumericX fldNumeric at h
  cases hn : natWidth nb with
  | error e => rw [hn] at h; cases h
  | ok n =>
    rw [hn] at h
    simp only [bind, Except.bind, pure, Except.pure] at h
    split at h
    · cases h
    · cases hraw : rawNumeric n sc rf v with
      | error e => rw [hraw] at h; cases h
      | ok raw =>
        rw [hraw] at h
        dsimp only at h
        cases hf : fieldUInt raw n with
        | error e => rw [hf] at h; cases h
        | ok f =>
          rw [hf] at h
          cases h
          obtain ⟨h0, hnn, hlt, _⟩ := fieldUInt_ok hf
          exact .numeric n sc rf v raw h0 (by omega) hraw hnn hlt

theorem fldCanon_codeflag (n : Nat) : FldCanon (fldCodeflagX n) := by
  intro v o h
  unfold fldCodeflagX fldCodeflag at h
  simp only [bind, Except.bind, pure, Except.pure] at h
  split at h
  · cases h
  · cases hraw : rawCodeflag n v with
    | error e => rw [hraw] at h; cases h
    | ok raw =>
      rw [hraw] at h
      dsimp only at h
      cases hf : fieldUInt raw n with
      | error e => rw [hf] at h; cases h
      | ok f =>
        rw [hf] at h
        cases h
        obtain ⟨h0, hnn, hlt, _⟩ := fieldUInt_ok hf
        exact .codeflag n v raw h0 (by omega) hraw hnn hlt

theorem fldCanon_string (n : Nat) : FldCanon (fldString n) := by
  intro v o h
  unfold fldString at h
  simp only [bind, Except.bind, pure, Except.pure] at h
  cases hb : strBytes n v with
  | error e => rw [hb] at h; cases h
  | ok b => rw [hb] at h; cases h; exact .string n v b hb

theorem fldCanon_newRefval (id n : Nat) : FldCanon (fldNewRefval id n) := by
  intro v o h
  unfold fldNewRefval at h
  cases v with
  | int i =>
    simp only [bind, Except.bind, pure, Except.pure] at h
    cases hf : fieldInt i n with
    | error e => rw [hf] at h; cases h
    | ok f => rw [hf] at h; cases h; exact .exact i
  | _ => cases h

theorem fldCanon_constant (c : Int) : FldCanon (fldConstant c) := by
  intro v o h
  unfold fldConstant at h
  split at h
  · cases h
  · rename_i hv
    cases h
    have : v = .int c := by simpa using hv
    subst this
    exact .exact c

/-- the invariant: the ghost register holds one canonical value per value consumed so far -/
def CanonInv (s : St) : Prop :=
  Rel2 CanonOf ((curVals s).take s.idx) s.aux.reverse

def RelInv (V : List (List Val)) (s t : St) : Prop := t = s ∧ s.vals = V ∧ CanonInv s

theorem encStepX_inv (V : List (List Val)) (dd : DDesc) (fld : Fld) (hf : FldCanon fld) (s : St) :
    SimAt (I := Unit) (fun _ _ => True) (fun _ => RelInv V) s (encStepX dd fld s) (encStepX dd fld) := by
  intro s' hr j _
  refine ⟨(), trivial, ?_⟩
  rintro t ⟨rfl, hV, hinv⟩
  refine ⟨s', hr, rfl, ?_⟩
  unfold encStepX at hr
  cases hv : nthVal (curVals t) t.idx with
  | error e => rw [hv] at hr; cases hr
  | ok v =>
    rw [hv] at hr
    dsimp only at hr
    cases ho : fld v with
    | error e => rw [ho] at hr; cases hr
    | ok o =>
      rw [ho] at hr
      dsimp only at hr
      cases hr
      have hget : (t.vals.headD [])[t.idx]? = some v := by
        unfold nthVal curVals at hv
        split at hv
        · cases hv
        · rename_i w hw; cases hv; exact hw
      refine ⟨hV, ?_⟩
      unfold CanonInv curVals at hinv ⊢
      simp only [List.take_add_one, hget, Option.toList, List.reverse_cons]
      exact hinv.snoc (hf v o ho)

theorem primSim_inv (V : List (List Val)) : PrimSim₀ encPrimsUX encPrimsUX (RelInv V) where
  agree := fun h => by rw [h.1]; exact ⟨rfl, rfl, rfl⟩
  rel_setRegs := fun f h => by rw [h.1]; exact ⟨rfl, h.2⟩
  rel_addLink := fun o h => by rw [h.1]; exact ⟨rfl, h.2⟩
  ix_setRegs := fun _ => Iff.rfl
  ix_addLink := fun _ => Iff.rfl
  numeric := fun dd nb sc rf s => encStepX_inv V dd _ (fldCanon_numeric nb sc rf) s
  string := fun dd n s => encStepX_inv V dd _ (fldCanon_string n) s
  codeflag := fun dd n s => encStepX_inv V dd _ (fldCanon_codeflag n) s
  newRefval := fun e n s => encStepX_inv V _ _ (fldCanon_newRefval e.id n) s
  constant := fun dd c s => encStepX_inv V dd _ (fldCanon_constant c) s
  factor := fun h hn => by rw [h.1]; exact hn
  lastValues := fun h hl => by rw [h.1]; exact ⟨_, hl, rfl⟩

/-- the invariant is preserved by the whole walk, and the supplied values are not touched -/
theorem walk_canonInv {d : List Desc} {s s' : St} (h : walkList encPrimsUX d s = .ok s')
    (hinv : CanonInv s) : CanonInv s' ∧ s'.vals = s.vals := by
  obtain ⟨t', _, _, hV, hinv'⟩ := walk_sim (primSim_inv s.vals) (t := s) ⟨rfl, rfl, hinv⟩ h
  exact ⟨hinv', hV⟩

end Bufr
