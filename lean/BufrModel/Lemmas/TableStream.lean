/-
  Helper lemmas for C20 (streams): every state that `generate_bufr_message` reaches satisfies `Inv`
  (the loaded table groups are a memo table of "files extended by the CURRENT extra entries", the
  compiled templates a memo table of "compiled against the extra entries of the generation in the
  key", no compiled template carries a generation from the future); from such a state a message is
  decoded as the cache-free specification says.
-/
import BufrModel.Msg.TableStream
import BufrModel.Lemmas.Cache
set_option linter.unusedSectionVars false
namespace Bufr.TableDef
open Bufr.Cache

section
variable {κ μ ρ τ χ : Type} [DecidableEq κ] (P : StreamParams κ μ ρ τ χ)

/-- the compiled template that belongs to a cache key, `hist g` being the extra entries of generation `g` -/
def compFor (hist : Nat → Entries) (key : List Nat × κ × Nat) : Except Err χ :=
  match P.template (extend (P.files key.2.1) (hist key.2.2)) (hasExtra (hist key.2.2)) key.1 with
  | .error e => .error e
  | .ok t => P.compile (extend (P.files key.2.1) (hist key.2.2)) t

structure Inv (hist : Nat → Entries) (s : SState κ χ) : Prop where
  groups : DictOk (loadGroup P s.extras) P.limit s.groups
  hist_gen : hist s.gen = s.extras
  compiled : ∀ mx, P.cacheMax = some mx → DictOk (compFor P hist) mx s.compiled
  gens : ∀ p ∈ s.compiled, p.1.2.2 ≤ s.gen

theorem Inv.init (es : Entries) : Inv P (fun _ => es) ({ extras := es } : SState κ χ) :=
  ⟨DictOk.nil _ _, rfl, fun _ _ => DictOk.nil _ _, by intro p hp; cases hp⟩

theorem compiledGet_mem {κ' ν : Type} [DecidableEq κ'] (mx : Nat) (comp : Except Err ν) (d : Dict κ' ν) (k : κ')
    (p : κ' × ν) (hp : p ∈ (compiledGet mx comp d k).1) : p ∈ d ∨ p.1 = k := by
  unfold compiledGet at hp
  cases hl : d.lookup k with
  | some c => rw [hl] at hp; exact .inl hp
  | none =>
    rw [hl] at hp
    cases comp with
    | error e => exact .inl hp
    | ok c =>
      simp only at hp
      by_cases hpos : 0 < mx
      · simp only [hpos, if_true] at hp
        rcases List.mem_append.mp hp with h | h
        · left
          by_cases hfull : mx ≤ d.length
          · simp only [hfull, if_true] at h; exact (List.dropLast_sublist d).subset h
          · simpa only [hfull, if_false] using h
        · right; simp only [List.mem_singleton] at h; rw [h]
      · simp only [hpos, if_false] at hp; exact .inl hp

/-- `Decoder.process` from a state satisfying the invariant: the specification's result, the extra
    entries and the generation untouched, the invariant kept -/
theorem implDecode_spec (hist : Nat → Entries) (s : SState κ χ) (m : μ) (hl : 0 < P.limit) (h : Inv P hist s) :
    Inv P hist (implDecode P s m).1 ∧ (implDecode P s m).2 = specDecode P s.extras m ∧
    (implDecode P s m).1.extras = s.extras ∧ (implDecode P s m).1.gen = s.gen := by
  have hg1 := tableGet_ok P.limit (loadGroup P s.extras) s.groups
  have hg2 := tableGet_out P.limit (loadGroup P s.extras) s.groups
  have hne : P.limit ≠ 0 := by omega
  unfold implDecode specDecode
  cases hh : P.header m with
  | error e => exact ⟨h, rfl, rfl, rfl⟩
  | ok p =>
    obtain ⟨k, ids⟩ := p
    have hout := hg2 k h.groups
    simp only [hne, if_false, loadGroup] at hout
    have hgr : Inv P hist { s with groups := (tableGet P.limit (loadGroup P s.extras) s.groups k).1 } :=
      ⟨hg1 k h.groups, h.hist_gen, h.compiled, h.gens⟩
    simp only [hout]
    cases ht : P.template (extend (P.files k) s.extras) (hasExtra s.extras) ids with
    | error e => exact ⟨hgr, rfl, rfl, rfl⟩
    | ok t =>
      simp only
      cases hc : P.cacheMax with
      | none => exact ⟨hgr, rfl, rfl, rfl⟩
      | some mx =>
        simp only
        have hd := h.compiled mx hc
        have hcf : compFor P hist (ids, k, s.gen) = P.compile (extend (P.files k) s.extras) t := by
          simp only [compFor, h.hist_gen, ht]
        have c1 := compiledGet_ok mx (compFor P hist) s.compiled (ids, k, s.gen) hd
        have c2 := compiledGet_out mx (compFor P hist) s.compiled (ids, k, s.gen) hd
        rw [hcf] at c1 c2
        have hinv : Inv P hist { s with
            groups := (tableGet P.limit (loadGroup P s.extras) s.groups k).1,
            compiled := (compiledGet mx (P.compile (extend (P.files k) s.extras) t) s.compiled (ids, k, s.gen)).1 } := by
          refine ⟨hg1 k h.groups, h.hist_gen, ?_, ?_⟩
          · intro mx' hmx'
            rw [hc] at hmx'
            cases hmx'
            exact c1
          · intro p hp
            rcases compiledGet_mem _ _ _ _ p hp with hp' | hp'
            · exact h.gens p hp'
            · show p.1.2.2 ≤ s.gen
              rw [hp']
              exact Nat.le_refl _
        rw [c2]
        cases hcc : P.compile (extend (P.files k) s.extras) t with
        | error e => exact ⟨by rw [hcc] at hinv; exact hinv, rfl, rfl, rfl⟩
        | ok c => exact ⟨by rw [hcc] at hinv; exact hinv, rfl, rfl, rfl⟩

/-- `invalidate(); add_extra_entries(d)` keeps the invariant, for the history extended by the new generation -/
theorem define_inv (hist : Nat → Entries) (s : SState κ χ) (d : Entries) (h : Inv P hist s) :
    Inv P (fun g => if g = s.gen + 1 then s.extras.append d else hist g) (s.define d) := by
  refine ⟨DictOk.nil _ _, by simp [SState.define], ?_, ?_⟩
  · intro mx hmx
    obtain ⟨h1, h2, h3⟩ := h.compiled mx hmx
    refine ⟨?_, h2, h3⟩
    intro p hp
    have hle := h.gens p hp
    have hne : ¬ p.1.2.2 = s.gen + 1 := by omega
    have := h1 p hp
    simp only [compFor, hne, if_false] at this ⊢
    exact this
  · intro p hp
    have := h.gens p hp
    show p.1.2.2 ≤ s.gen + 1
    omega

/-- the stream loop from a state satisfying the invariant is the specification -/
theorem implRun_spec (hl : 0 < P.limit) (ms : List μ) :
    ∀ (hist : Nat → Entries) (s : SState κ χ), Inv P hist s → implRun P s ms = specRun P s.extras ms := by
  induction ms with
  | nil => intro hist s _; rfl
  | cons m ms ih =>
    intro hist s h
    obtain ⟨hinv, hout, hex, _⟩ := implDecode_spec P hist s m hl h
    unfold implRun specRun
    rw [hout]
    cases hd : specDecode P s.extras m with
    | error e => rfl
    | ok r =>
      simp only [entriesAfter]
      cases hdf : P.defs m r with
      | none =>
        simp only
        rw [ih hist _ hinv, hex]
      | some x =>
        cases x with
        | error e => rfl
        | ok d =>
          simp only
          rw [ih _ _ (define_inv P hist _ d hinv)]
          simp only [SState.define, hex]

end
end Bufr.TableDef
