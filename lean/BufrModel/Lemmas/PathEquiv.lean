/-
  Helper lemmas for C15, part 4: the machine against the recursive-descent recogniser.
-/
import BufrModel.Lemmas.PathSteps
namespace Bufr.PathLang
open Spec

/-! ### list facts -/

theorem dropWhile_head_false {p : Char → Bool} : ∀ {l : List Char} {c : Char} {r : List Char},
    l.dropWhile p = c :: r → p c = false := by
  intro l
  induction l with
  | nil => intro c r h; simp at h
  | cons a l ih =>
    intro c r h
    by_cases ha : p a = true
    · simp only [List.dropWhile_cons, ha, if_true] at h; exact ih h
    · simp only [List.dropWhile_cons, ha] at h
      simp at h
      rw [← h.1]; simpa using ha

theorem dropWhile_nil_all {p : Char → Bool} {l : List Char} (h : l.dropWhile p = []) : ∀ c ∈ l, p c = true := by
  induction l with
  | nil => intro c hc; simp at hc
  | cons a l ih =>
    by_cases ha : p a = true
    · simp only [List.dropWhile_cons, ha, if_true] at h
      intro c hc
      simp at hc
      rcases hc with hc | hc
      · rw [hc]; exact ha
      · exact ih h c hc
    · simp only [List.dropWhile_cons, ha] at h
      simp at h

theorem takeWhile_mem {p : Char → Bool} : ∀ {l : List Char} {c : Char}, c ∈ l.takeWhile p → p c = true ∧ c ∈ l := by
  intro l
  induction l with
  | nil => intro c hc; simp at hc
  | cons a l ih =>
    intro c hc
    by_cases ha : p a = true
    · simp only [List.takeWhile_cons, ha, if_true] at hc
      simp at hc
      rcases hc with hc | hc
      · rw [hc]; exact ⟨ha, by simp⟩
      · exact ⟨(ih hc).1, by simp [(ih hc).2]⟩
    · simp only [List.takeWhile_cons, ha] at hc
      simp at hc

theorem split_tw (p : Char → Bool) (l : List Char) : l = l.takeWhile p ++ l.dropWhile p :=
  (List.takeWhile_append_dropWhile).symm

/-! ### unfolding the recogniser -/

theorem comps?_nil (fuel : Nat) : comps? fuel [] = none := by
  cases fuel <;> rfl

theorem comps?_not_sep (fuel : Nat) (c : Char) (r : List Char) (h : isSep c = false) : comps? fuel (c :: r) = none := by
  cases fuel with
  | zero => rfl
  | succ n => simp [comps?, h]

/-- one unfolding of `comps?` with the id and the remainder named -/
def compSpec (fuel : Nat) (sep : Char) (idc after : List Char) : Option (List Comp) :=
  if idc = [] then none else
  match after with
  | [] => some [{ sep := sep, id := idc, slice := .range none none none }]
  | c :: after' =>
    if c = '[' then
      match slice? (c :: after') with
      | none => none
      | some (s, a) =>
        if a = [] then some [{ sep := sep, id := idc, slice := s }]
        else (comps? fuel a).map fun r => { sep := sep, id := idc, slice := s } :: r
    else (comps? fuel (c :: after')).map fun r => { sep := sep, id := idc, slice := .range none none none } :: r

theorem comps?_succ (fuel : Nat) (sep : Char) (rest : List Char) (h : isSep sep = true) :
    comps? (fuel + 1) (sep :: rest) =
      compSpec fuel sep (rest.takeWhile (fun c => !isSpecial c)) (rest.dropWhile (fun c => !isSpecial c)) := by
  simp only [comps?, compSpec, h, Bool.not_true, Bool.false_eq_true, if_false]
  by_cases hid : rest.takeWhile (fun c => !isSpecial c) = []
  · simp [hid]
  · simp only [hid, if_false]
    cases hd : rest.dropWhile (fun c => !isSpecial c) with
    | nil => rfl
    | cons c after' =>
      by_cases hc : c = '['
      · subst hc
        simp only [if_true]
        cases slice? ('[' :: after') with
        | none => rfl
        | some p => obtain ⟨s, a⟩ := p; rfl
      · simp only [hc, if_false]
        split
        · rename_i heq; simp at heq
        · rename_i heq; simp at heq; exact absurd heq.1 hc
        · rfl

theorem slice?_bracket (rest : List Char) :
    slice? ('[' :: rest) =
      match rest.dropWhile (· != ']') with
      | [] => none
      | _ :: after => (sliceOfBody (rest.takeWhile (· != ']'))).map fun s => (s, after) := by
  simp only [slice?]
  cases hd : rest.dropWhile (· != ']') with
  | nil => rfl
  | cons c after =>
    have := dropWhile_head_false hd
    simp at this
    subst this
    rfl

theorem slice?_not_bracket (c : Char) (rest : List Char) (h : c ≠ '[') : slice? (c :: rest) = none := by
  simp only [slice?]
  split
  · rename_i heq; simp at heq; exact absurd heq.1 h
  · rfl

theorem slice?_nil : slice? [] = none := rfl

/-! ### machine vs recogniser -/

theorem runFin_plain (s : PS) (w rest : List Char) (hw : ∀ c ∈ w, Plain c) (hs : accSt s.st = true) :
    runFin s (w ++ rest) = runFin { s with token := s.token ++ w } rest := by
  simp only [runFin, run_plain w s rest hw hs]

theorem runFin_of_run_eq {s s' : PS} {a b : List Char} (h : run s a = run s' b) : runFin s a = runFin s' b := by
  simp only [runFin, h]

theorem runFin_of_run_err {s : PS} {a : List Char} {e : Err} (h : run s a = .error e) : runFin s a = .error e := by
  simp only [runFin, h]

/-- the machine on `[ ... ]` (entered right after `[`), against `slice?` -/
theorem slice_part (s1 : PS) (r : List Char) (hs : inSlice s1.st = true) (h0 : is0 s1.st = true)
    (ht : s1.token = []) (he : s1.elems = []) (hws : ∀ c ∈ r, isWs c = false) :
    (slice? ('[' :: r) = none ∧ runFin s1 r = .error .path) ∨
    (∃ es a, runFin s1 r = runFin { s1 with st := toStop s1.st, token := [], elems := es } a ∧
        slice? ('[' :: r) = (sliceOpt es).map (fun sl => (sl, a)) ∧
        createSlice es = (match sliceOpt es with
          | some sl => .ok sl
          | none => .error .path) ∧
        a.length + 1 ≤ r.length ∧ (∀ c ∈ a, isWs c = false)) := by
  rw [slice?_bracket]
  have hsplit := split_tw (· != ']') r
  cases hd : r.dropWhile (· != ']') with
  | nil =>
    left
    refine ⟨rfl, ?_⟩
    apply runFin_noclose r s1 hs
    intro c hc
    have := dropWhile_nil_all hd c hc
    exact ⟨by simpa using this, hws c hc⟩
  | cons c2 a =>
    have hc2 : c2 = ']' := by have := dropWhile_head_false hd; simpa using this
    subst hc2
    rw [hd] at hsplit
    have hb : ∀ c ∈ r.takeWhile (· != ']'), c ≠ ']' ∧ isWs c = false := by
      intro c hc
      have h1 := takeWhile_mem hc
      exact ⟨by simpa using h1.1, hws c h1.2⟩
    have hwa : ∀ c ∈ a, isWs c = false := by
      intro c hc; apply hws; rw [hsplit]; simp [hc]
    have hlen : a.length + 1 ≤ r.length := by
      have := congrArg List.length hsplit
      simp at this; omega
    generalize r.takeWhile (· != ']') = body at hsplit hb ⊢
    rcases run_slice s1 body a hs h0 ht he hb with ⟨h1, h2⟩ | ⟨es, h1, h2, h3⟩
    · left
      refine ⟨by simp [h2], ?_⟩
      rw [hsplit]; exact runFin_of_run_err h1
    · right
      refine ⟨es, a, ?_, by rw [h2], h3, hlen, hwa⟩
      rw [hsplit]; exact runFin_of_run_eq h1

/-- what is expected of the machine after a complete component -/
def Agree (r : PR Path) (o : Option (List Comp)) (sub : Option Slice) (acc : List Comp) : Prop :=
  match o with
  | some l => r = .ok { subset := sub, comps := acc ++ l }
  | none => r = .error .path

/-- the induction hypothesis of `comps_agree` -/
def CompsIH (n : Nat) : Prop :=
  ∀ (rest : List Char) (s : PS), (∀ c ∈ rest, isWs c = false) → rest.length ≤ n →
    s.st = .startId → s.token = [] → s.elems = [] → isSep s.curSep = true →
    Agree (runFin s rest) (comps? (n + 1) (s.curSep :: rest)) s.subset s.comps

/-- continuation after a complete component `comp` (pending in state `s`) -/
theorem cont (n : Nat) (IH : CompsIH n) (s : PS) (comp : Comp) (after : List Char)
    (hws : ∀ c ∈ after, isWs c = false) (hlen : after.length ≤ n + 1)
    (hfin : finish s = .ok { subset := s.subset, comps := s.comps ++ [comp] })
    (hsep : ∀ c, isSep c = true → ∃ s2, step s c = .ok s2 ∧ s2.st = .startId ∧ s2.token = [] ∧ s2.elems = [] ∧
        s2.curSep = c ∧ s2.comps = s.comps ++ [comp] ∧ s2.subset = s.subset)
    (hoth : ∀ c r, after = c :: r → isSep c = false → step s c = .error .path) :
    Agree (runFin s after) (if after = [] then some [comp] else (comps? (n + 1) after).map (comp :: ·))
      s.subset s.comps := by
  cases after with
  | nil => simp [Agree, hfin]
  | cons c r =>
    simp only [List.cons_ne_nil, if_false]
    rw [runFin_cons]
    by_cases hc : isSep c = true
    · obtain ⟨s2, h1, h2, h3, h4, h5, h6, h7⟩ := hsep c hc
      rw [h1]
      simp only
      have := IH r s2 (fun c hc => hws c (by simp [hc])) (by simp at hlen; omega) h2 h3 h4 (by rw [h5]; exact hc)
      rw [h5, h6, h7] at this
      cases hcomp : comps? (n + 1) (c :: r) with
      | none => rw [hcomp] at this; simpa [Agree] using this
      | some l => rw [hcomp] at this; simpa [Agree] using this
    · have hc' : isSep c = false := by simpa using hc
      rw [hoth c r rfl hc', comps?_not_sep _ _ _ hc']
      simp [Agree]

theorem stop_bad (s : PS) (a : List Char) (hs : s.st = .stopSlice) (hc : createSlice s.elems = .error .path)
    (hws : ∀ c ∈ a, isWs c = false) : runFin s a = .error .path := by
  cases a with
  | nil => simp [finish_stopSlice s hs, hc]
  | cons c r =>
    rw [runFin_cons]
    by_cases hsep : isSep c = true
    · rw [step_stopSlice_sep s c hsep hs, hc]
    · rw [step_stop_nonsep s c (Or.inl hs) (by simpa using hsep) (hws c (by simp))]

theorem step_startId_special_empty (s : PS) (c : Char) (hs : s.st = .startId) (ht : s.token = []) (he : s.elems = [])
    (hc : isSpecial c = true) : step s c = .error .path := by
  rcases (isSpecial_iff c).1 hc with h | h | h | h | h | h | h
  · exact step_startId_other s c hs (by simp [h])
  · subst h; simp [step_startId_bracket s hs, ht]
  · exact step_startId_other s c hs (by simp [h])
  · exact step_startId_other s c hs (by simp [h])
  all_goals
    have hsep : isSep c = true := by subst h; decide
    simp [step_startId_sep s c hsep hs he, ht]

/-- one component: the machine in `startId` with the id already in `token`, facing `after` -/
theorem comp_inner (n : Nat) (IH : CompsIH n) (s : PS) (after : List Char)
    (hst : s.st = .startId) (hel : s.elems = [])
    (hws : ∀ c ∈ after, isWs c = false)
    (hhead : ∀ c r, after = c :: r → isSpecial c = true)
    (hlen : after.length ≤ n + 1) :
    Agree (runFin s after) (compSpec (n + 1) s.curSep s.token after)
      s.subset s.comps := by
  unfold compSpec
  by_cases hid : s.token = []
  · simp only [hid, if_true]
    cases after with
    | nil => simp [Agree, finish_startId s hst hel, hid]
    | cons c r =>
      rw [runFin_cons, step_startId_special_empty s c hst hid hel (hhead c r rfl)]
      rfl
  · simp only [hid, if_false]
    cases after with
    | nil => simp [Agree, finish_startId s hst hel, hid]
    | cons c r =>
      simp only
      by_cases hbr : c = '['
      · subst hbr
        simp only [if_true]
        rw [runFin_cons, step_startId_bracket s hst]
        simp only [hid, if_false]
        have hwr : ∀ c ∈ r, isWs c = false := fun c hc => hws c (by simp [hc])
        rcases slice_part { s with st := .slice0, curId := s.token, token := [] } r rfl rfl rfl hel hwr with
          ⟨h1, h2⟩ | ⟨es, a, h1, h2, h3, h4, h5⟩
        · rw [h1, h2]; rfl
        · rw [h1, h2]
          cases hso : sliceOpt es with
          | none =>
            rw [hso] at h3
            simp only [Option.map_none]
            exact stop_bad _ a rfl h3 h5
          | some sl =>
            rw [hso] at h3
            simp only [Option.map_some]
            have := cont n IH { s with st := .stopSlice, curId := s.token, token := [], elems := es }
              ⟨s.curSep, s.token, sl⟩ a h5 (by simp at hlen; omega)
              (by simp [finish_stopSlice, h3])
              (by
                intro c hc
                rw [step_stopSlice_sep _ c hc rfl]
                simp only [h3]
                exact ⟨_, rfl, rfl, rfl, rfl, rfl, rfl, rfl⟩)
              (by
                intro c r _ hc
                exact step_stop_nonsep _ c (Or.inl rfl) hc (h5 c (by simp_all)))
            exact this
      · simp only [hbr, if_false]
        have := cont n IH s ⟨s.curSep, s.token, .range none none none⟩ (c :: r) hws hlen
          (by simp [finish_startId s hst hel, hid])
          (by
            intro c hc
            rw [step_startId_sep s c hc hst hel]
            simp only [hid, if_false]
            exact ⟨_, rfl, rfl, rfl, rfl, rfl, rfl, rfl⟩)
          (by
            intro c' r' heq hc
            simp at heq
            obtain ⟨h1, _⟩ := heq
            subst h1
            have hsp := hhead c r rfl
            rcases (isSpecial_iff c).1 hsp with h | h | h | h | h | h | h
            · exact step_startId_other s c hst (by simp [h])
            · exact absurd h hbr
            · exact step_startId_other s c hst (by simp [h])
            · exact step_startId_other s c hst (by simp [h])
            all_goals (subst h; simp [isSep] at hc))
        simpa using this

theorem comps_agree (fuel : Nat) : CompsIH fuel := by
  induction fuel with
  | zero =>
    intro rest s _ hlen hst htok hel hsep
    have : rest = [] := List.eq_nil_of_length_eq_zero (by omega)
    subst this
    rw [comps?_succ _ _ _ hsep]
    simp [compSpec, Agree, finish_startId s hst hel, htok]
  | succ n IH =>
    intro rest s hws hlen hst htok hel hsep
    rw [comps?_succ _ _ _ hsep]
    have hsplit := split_tw (fun c => !isSpecial c) rest
    have hidp : ∀ c ∈ rest.takeWhile (fun c => !isSpecial c), Plain c := by
      intro c hc
      have h1 := takeWhile_mem hc
      exact ⟨by simpa using h1.1, hws c h1.2⟩
    have hwsA : ∀ c ∈ rest.dropWhile (fun c => !isSpecial c), isWs c = false :=
      fun c hc => hws c ((List.dropWhile_sublist _).subset hc)
    have hlenA : (rest.dropWhile (fun c => !isSpecial c)).length ≤ n + 1 := by
      have := (List.dropWhile_sublist (fun c => !isSpecial c) (l := rest)).length_le
      omega
    have hhead : ∀ c r, rest.dropWhile (fun c => !isSpecial c) = c :: r → isSpecial c = true := by
      intro c r h
      have := dropWhile_head_false h
      simpa using this
    have hrun : runFin s rest = runFin { s with token := rest.takeWhile (fun c => !isSpecial c) }
        (rest.dropWhile (fun c => !isSpecial c)) := by
      conv => lhs; rw [hsplit]
      rw [runFin_plain _ _ _ hidp (by rw [hst]; rfl), htok]
      simp
    rw [hrun]
    exact comp_inner n IH { s with token := rest.takeWhile (fun c => !isSpecial c) } _ hst hel hwsA hhead hlenA

end Bufr.PathLang
