/-
  Helper lemmas for `Props/C13Heap.lean`: reads of the heap depend only on the cells of their
  footprint (frame lemmas); allocation, the Table C memo, `wire()` and writes outside the footprints
  leave every other read unchanged.
-/
import BufrModel.Msg.Heap
import BufrModel.Lemmas.Cache
namespace Bufr.Heap
open Bufr.Cache

section Read
variable {π ν : Type}

theorem look_of_view {h h' : Heap π ν} {x : Ref} (e : view h' x = view h x) : look h' x = look h x := by
  unfold look; rw [e]

theorem getDesc_congr {h h' : Heap π ν} {x : Ref} (e : look h' x = look h x) : getDesc h' x = getDesc h x := by
  unfold getDesc; rw [e]

theorem getItems_congr {h h' : Heap π ν} {x : Ref} (e : look h' x = look h x) : getItems h' x = getItems h x := by
  unfold getItems; rw [e]

theorem getLinks_congr {h h' : Heap π ν} {x : Ref} (e : look h' x = look h x) : getLinks h' x = getLinks h x := by
  unfold getLinks; rw [e]

theorem groupB_congr {h h' : Heap π ν} {x : Ref} (e : look h' x = look h x) : groupB h' x = groupB h x := by
  unfold groupB; rw [e]

theorem groupD_congr {h h' : Heap π ν} {x : Ref} (e : look h' x = look h x) : groupD h' x = groupD h x := by
  unfold groupD; rw [e]

theorem compCode_congr {h h' : Heap π ν} {x : Ref} (e : look h' x = look h x) : compCode h' x = compCode h x := by
  unfold compCode; rw [e]

theorem flatMap_congr' {α β : Type} {f g : α → List β} {L : List α} (e : ∀ a ∈ L, f a = g a) :
    L.flatMap f = L.flatMap g := by
  induction L with
  | nil => rfl
  | cons a L ih =>
    simp only [List.flatMap_cons]
    rw [e a (by simp), ih (fun l hl => e l (by simp [hl]))]

theorem mem_itemRefs {r : Ref} {is : List Item} : r ∈ itemRefs is ↔ Item.ref r ∈ is := by
  induction is with
  | nil => simp [itemRefs]
  | cons i is ih =>
    cases i with
    | ref x => simp [itemRefs, ih]
    | own d => simp [itemRefs, ih]

theorem derefItems_congr {h h' : Heap π ν} {is : List Item}
    (e : ∀ x ∈ itemRefs is, look h' x = look h x) : is.map (derefItem h') = is.map (derefItem h) := by
  apply List.map_congr_left
  intro i hi
  cases i with
  | own d => rfl
  | ref r => exact getDesc_congr (e r (mem_itemRefs.2 hi))

theorem getList_congr {h h' : Heap π ν} {r : Ref} (e0 : look h' r = look h r)
    (e : ∀ x ∈ itemRefs (getItems h r), look h' x = look h x) : getList h' r = getList h r := by
  unfold getList
  rw [getItems_congr e0]
  exact derefItems_congr e

/-- agreement of two heaps on what readers see at the cells of a list -/
def LookEq (h h' : Heap π ν) (S : List Ref) : Prop := ∀ x ∈ S, look h' x = look h x

theorem LookEq.mono {h h' : Heap π ν} {S T : List Ref} (e : LookEq h h' S) (hs : ∀ x ∈ T, x ∈ S) : LookEq h h' T :=
  fun x hx => e x (hs x hx)

theorem foot_self {h : Heap π ν} {r : Ref} : r ∈ footOf h r := by simp [footOf]

theorem foot_items {h : Heap π ν} {r x : Ref} (hx : x ∈ itemRefs (getItems h r)) : x ∈ footOf h r := by
  simp [footOf, hx]

theorem foot_b {h : Heap π ν} {r : Ref} {p : Nat × Ref} (hp : p ∈ groupB h r) : p.2 ∈ footOf h r := by
  simp only [footOf, List.mem_cons, List.mem_append, List.mem_map]
  exact Or.inr (Or.inl (Or.inl (Or.inl (Or.inr ⟨p, hp, rfl⟩))))

theorem foot_d {h : Heap π ν} {r : Ref} {p : Nat × Ref} (hp : p ∈ groupD h r) : p.2 ∈ footOf h r := by
  simp only [footOf, List.mem_cons, List.mem_append, List.mem_map]
  exact Or.inr (Or.inl (Or.inl (Or.inr ⟨p, hp, rfl⟩)))

theorem foot_dd {h : Heap π ν} {r x : Ref} {p : Nat × Ref} (hp : p ∈ groupD h r)
    (hx : x ∈ itemRefs (getItems h p.2)) : x ∈ footOf h r := by
  simp only [footOf, List.mem_cons, List.mem_append, List.mem_flatMap, List.mem_map]
  exact Or.inr (Or.inl (Or.inr ⟨p.2, ⟨p, hp, rfl⟩, hx⟩))

theorem foot_msg {h : Heap π ν} {r x : Ref} (hx : x ∈ msgInner h r) : x ∈ footOf h r := by
  simp [footOf, hx]

theorem derefGroup_congr {h h' : Heap π ν} {g : Ref} (e : LookEq h h' (footOf h g)) :
    derefGroup h' g = derefGroup h g := by
  unfold derefGroup
  rw [groupB_congr (e g foot_self), groupD_congr (e g foot_self)]
  congr 1
  · apply List.map_congr_left
    intro p hp
    rw [getDesc_congr (e _ (foot_b hp))]
  · apply List.map_congr_left
    intro p hp
    rw [getList_congr (e _ (foot_d hp)) (fun x hx => e x (foot_dd hp hx))]

theorem derefComp_congr {h h' : Heap π ν} {r : Ref} (e : LookEq h h' (footOf h r)) :
    derefComp h' r = derefComp h r := by
  unfold derefComp
  rw [getList_congr (e r foot_self) (fun x hx => e x (foot_items hx)), compCode_congr (e r foot_self)]

theorem derefMsg_congr [Inhabited π] {h h' : Heap π ν} {r : Ref} (e0 : view h' r = view h r)
    (e : LookEq h h' (msgInner h r)) : derefMsg h' r = derefMsg h r := by
  unfold derefMsg
  rw [e0]
  unfold msgInner at e
  split
  · rename_i c dl ld t p ns w hv
    rw [hv] at e
    simp only at e
    have ht : getList h' t = getList h t :=
      getList_congr (e t (by simp)) (fun x hx => e x (by simp [hx]))
    have hl : (dl.zip ld).map (fun x => (getList h' x.1, getLinks h' x.2)) =
        (dl.zip ld).map (fun x => (getList h x.1, getLinks h x.2)) := by
      apply List.map_congr_left
      intro x hx
      have h1 : x.1 ∈ dl := (List.of_mem_zip hx).1
      have h2 : x.2 ∈ ld := (List.of_mem_zip hx).2
      rw [getList_congr (e x.1 (by simp [h1])) (fun y hy => e y
            (List.mem_append_right _ (List.mem_flatMap.2 ⟨x.1, List.mem_cons_of_mem _ h1, hy⟩))),
          getLinks_congr (e x.2 (by simp [h2]))]
    rw [ht, hl]
  · rfl

theorem msgInner_congr {h h' : Heap π ν} {r : Ref} (e0 : view h' r = view h r)
    (e : LookEq h h' (msgInner h r)) : msgInner h' r = msgInner h r := by
  unfold msgInner at e ⊢
  rw [e0]
  split
  · rename_i c dl ld t p ns w hv
    rw [hv] at e
    simp only at e
    have : ∀ l ∈ t :: dl, itemRefs (getItems h' l) = itemRefs (getItems h l) := by
      intro l hl
      rw [getItems_congr (e l (by
        rcases List.mem_cons.1 hl with rfl | hl
        · simp
        · simp [hl]))]
    rw [flatMap_congr' this]
  · rfl

theorem footOf_congr {h h' : Heap π ν} {r : Ref} (e0 : view h' r = view h r)
    (e : LookEq h h' (footOf h r)) : footOf h' r = footOf h r := by
  have el := e r foot_self
  unfold footOf
  rw [getItems_congr el, groupB_congr el, groupD_congr el,
    msgInner_congr e0 (fun x hx => e x (foot_msg hx))]
  have : ∀ s ∈ (groupD h r).map (·.2), itemRefs (getItems h' s) = itemRefs (getItems h s) := by
    intro s hs
    obtain ⟨p, hp, rfl⟩ := List.mem_map.1 hs
    rw [getItems_congr (e _ (foot_d hp))]
  rw [flatMap_congr' this]

/-! ### how the heap changes -/

theorem lookup_alloc_lt (os : List (HObj π ν)) (h : Heap π ν) (r : Nat) :
    ∀ n, r < n → ((List.range' n os.length).zip os ++ h).lookup r = h.lookup r := by
  induction os with
  | nil => intro n _; simp
  | cons o os ih =>
    intro n hr
    simp only [List.length_cons, List.range'_succ, List.zip_cons_cons, List.cons_append]
    rw [List.lookup_cons]
    have : (r == n) = false := by
      rw [beq_eq_false_iff_ne]; omega
    rw [this]
    exact ih (n + 1) (by omega)

theorem lookup_alloc_ge (os : List (HObj π ν)) (h : Heap π ν) :
    ∀ n i, i < os.length → ((List.range' n os.length).zip os ++ h).lookup (n + i) = os[i]? := by
  induction os with
  | nil => intro n i hi; simp at hi
  | cons o os ih =>
    intro n i hi
    simp only [List.length_cons, List.range'_succ, List.zip_cons_cons, List.cons_append]
    rw [List.lookup_cons]
    cases i with
    | zero => simp
    | succ i =>
      have : (n + (i + 1) == n) = false := by
        rw [beq_eq_false_iff_ne]; omega
      rw [this]
      have := ih (n + 1) i (by simpa using hi)
      rw [show n + (i + 1) = n + 1 + i by omega]
      simpa using this

theorem view_of_lookup {h h' : Heap π ν} {x : Ref} (e : h'.lookup x = h.lookup x) : view h' x = view h x := by
  unfold view; rw [e]

theorem view_write_ne (h : Heap π ν) (r x : Ref) (o : HObj π ν) (hx : x ≠ r) :
    view ((r, o) :: h) x = view h x := by
  apply view_of_lookup
  rw [List.lookup_cons]
  have : (x == r) = false := by simp [hx]
  rw [this]

theorem frame4 [Inhabited π] {h h' : Heap π ν} {r : Ref} (e0 : view h' r = view h r)
    (e : LookEq h h' (footOf h r)) :
    derefGroup h' r = derefGroup h r ∧ derefComp h' r = derefComp h r ∧ derefMsg h' r = derefMsg h r ∧
    footOf h' r = footOf h r :=
  ⟨derefGroup_congr e, derefComp_congr e, derefMsg_congr e0 (fun x hx => e x (foot_msg hx)), footOf_congr e0 e⟩

/-- readers at a cell holding a plain (non message, non group) object see the object -/
theorem look_of_lookup_desc {h : Heap π ν} {r : Ref} {d : DescV} (e : h.lookup r = some (.desc d)) :
    look h r = some (.desc d) := by simp [look, view, e]
theorem look_of_lookup_lst {h : Heap π ν} {r : Ref} {is : List Item} (e : h.lookup r = some (.lst is)) :
    look h r = some (.lst is) := by simp [look, view, e]
theorem look_of_lookup_seq {h : Heap π ν} {r : Ref} {i : Nat} {is : List Item} (e : h.lookup r = some (.seq i is)) :
    look h r = some (.seq i is) := by simp [look, view, e]
theorem look_of_lookup_comp {h : Heap π ν} {r : Ref} {c : Nat} {is : List Item} (e : h.lookup r = some (.comp is c)) :
    look h r = some (.comp is c) := by simp [look, view, e]
theorem look_of_lookup_links {h : Heap π ν} {r : Ref} {l : List (Nat × Nat)} (e : h.lookup r = some (.links l)) :
    look h r = some (.links l) := by simp [look, view, e]
theorem look_of_lookup_group {h : Heap π ν} {r : Ref} {b d : List (Nat × Ref)} {c : List Nat}
    (e : h.lookup r = some (.group b d c)) : look h r = some (.group b d []) := by simp [look, view, e]

/-- `itemOfId` over a Table B map read through = lookup in the Table B value -/
theorem derefItem_itemOfId (h : Heap π ν) (bm : List (Nat × Ref)) (id : Nat) :
    derefItem h (itemOfId bm id) = lookupD (bm.map fun p => (p.1, getDesc h p.2)) id := by
  unfold itemOfId lookupD
  induction bm with
  | nil => simp [derefItem]
  | cons p bm ih =>
    obtain ⟨pk, pr⟩ := p
    simp only [List.map_cons, List.lookup_cons]
    cases hp : id == pk with
    | true => simp [derefItem]
    | false => exact ih

theorem derefItem_itemOfSel (h : Heap π ν) (g : Ref) (x : Sel) :
    derefItem h (itemOfSel (groupB h g) x) = resolveSel (derefGroup h g) x := by
  cases x with
  | tab id => exact derefItem_itemOfId h _ id
  | pseudo d => rfl

/-- the references inside items made from a Table B map are Table B references -/
theorem itemRefs_itemOfId {bm : List (Nat × Ref)} {ids : List Nat} {x : Ref}
    (hx : x ∈ itemRefs (ids.map (itemOfId bm))) : x ∈ bm.map (·.2) := by
  rw [mem_itemRefs] at hx
  obtain ⟨id, _, hid⟩ := List.mem_map.1 hx
  unfold itemOfId at hid
  split at hid
  · rename_i r hl
    cases hid
    exact List.mem_map.2 ⟨(id, x), lookup_mem' hl, rfl⟩
  · cases hid

theorem itemRefs_itemOfSel {bm : List (Nat × Ref)} {sels : List Sel} {x : Ref}
    (hx : x ∈ itemRefs (sels.map (itemOfSel bm))) : x ∈ bm.map (·.2) := by
  rw [mem_itemRefs] at hx
  obtain ⟨sel, _, hid⟩ := List.mem_map.1 hx
  cases sel with
  | pseudo d => cases hid
  | tab id =>
    have : x ∈ itemRefs ([id].map (itemOfId bm)) := by
      rw [mem_itemRefs]; simpa [itemOfSel] using hid.symm
    exact itemRefs_itemOfId this

/-- reading back a block of objects allocated at consecutive references -/
theorem map_zip_range' {α β γ : Type} (key : α → β) (F : Nat → γ) (G : α → γ) (l : List α) :
    ∀ n, (∀ i (hi : i < l.length), F (n + i) = G l[i]) →
    ((l.map key).zip (List.range' n l.length)).map (fun p => (p.1, F p.2)) = l.map (fun a => (key a, G a)) := by
  induction l with
  | nil => intro n _; rfl
  | cons a l ih =>
    intro n hF
    simp only [List.map_cons, List.length_cons, List.range'_succ, List.zip_cons_cons]
    have h0 := hF 0 (by simp)
    simp only [Nat.add_zero, List.getElem_cons_zero] at h0
    rw [h0, ih (n + 1) (fun i hi => by
      have := hF (i + 1) (by simp; omega)
      simpa [Nat.add_assoc, Nat.add_comm 1 i] using this)]

end Read

end Bufr.Heap
