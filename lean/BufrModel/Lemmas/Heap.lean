/-
  Helper lemmas for `Props/C13Heap.lean`: reads of the heap depend only on the cells of their
  footprint (frame lemmas); allocation, the Table C memo, `wire()` and writes outside the footprints
  leave every other read unchanged.
-/
import BufrModel.Msg.Heap
import BufrModel.Lemmas.Cache
namespace Bufr.Heap
open Bufr.Cache
set_option linter.unusedSectionVars false
set_option linter.unusedVariables false

section Read
variable {π ν : Type}

theorem look_of_view {h h' : Heap π ν} {x : Ref} (e : view h' x = view h x) : look h' x = look h x := by
  unfold look; rw [e]

theorem getDesc_congr {h h' : Heap π ν} {x : Ref} (e : look h' x = look h x) : getDesc h' x = getDesc h x := by
  unfold getDesc; rw [e]

theorem getItems_congr {h h' : Heap π ν} {x : Ref} (e : look h' x = look h x) : getItems h' x = getItems h x := by
  unfold getItems; rw [e]

theorem getLinks_congr {h h' : Heap π ν} {x : Ref} (e : look h' x = look h x) : getLinks h' x = getLinks h x := by
  unfold getLinks; rw [e]

theorem groupB_congr {h h' : Heap π ν} {x : Ref} (e : look h' x = look h x) : groupB h' x = groupB h x := by
  unfold groupB; rw [e]

theorem groupD_congr {h h' : Heap π ν} {x : Ref} (e : look h' x = look h x) : groupD h' x = groupD h x := by
  unfold groupD; rw [e]

theorem compCode_congr {h h' : Heap π ν} {x : Ref} (e : look h' x = look h x) : compCode h' x = compCode h x := by
  unfold compCode; rw [e]

theorem flatMap_congr' {α β : Type} {f g : α → List β} {L : List α} (e : ∀ a ∈ L, f a = g a) :
    L.flatMap f = L.flatMap g := by
  induction L with
  | nil => rfl
  | cons a L ih =>
    simp only [List.flatMap_cons]
    rw [e a (by simp), ih (fun l hl => e l (by simp [hl]))]

theorem mem_itemRefs {r : Ref} {is : List Item} : r ∈ itemRefs is ↔ Item.ref r ∈ is := by
  induction is with
  | nil => simp [itemRefs]
  | cons i is ih =>
    cases i with
    | ref x => simp [itemRefs, ih]
    | own d => simp [itemRefs, ih]

theorem derefItems_congr {h h' : Heap π ν} {is : List Item}
    (e : ∀ x ∈ itemRefs is, look h' x = look h x) : is.map (derefItem h') = is.map (derefItem h) := by
  apply List.map_congr_left
  intro i hi
  cases i with
  | own d => rfl
  | ref r => exact getDesc_congr (e r (mem_itemRefs.2 hi))

theorem getList_congr {h h' : Heap π ν} {r : Ref} (e0 : look h' r = look h r)
    (e : ∀ x ∈ itemRefs (getItems h r), look h' x = look h x) : getList h' r = getList h r := by
  unfold getList
  rw [getItems_congr e0]
  exact derefItems_congr e

/-- agreement of two heaps on what readers see at the cells of a list -/
def LookEq (h h' : Heap π ν) (S : List Ref) : Prop := ∀ x ∈ S, look h' x = look h x

theorem LookEq.mono {h h' : Heap π ν} {S T : List Ref} (e : LookEq h h' S) (hs : ∀ x ∈ T, x ∈ S) : LookEq h h' T :=
  fun x hx => e x (hs x hx)

theorem foot_self {h : Heap π ν} {r : Ref} : r ∈ footOf h r := by simp [footOf]

theorem foot_items {h : Heap π ν} {r x : Ref} (hx : x ∈ itemRefs (getItems h r)) : x ∈ footOf h r := by
  simp [footOf, hx]

theorem foot_b {h : Heap π ν} {r : Ref} {p : Nat × Ref} (hp : p ∈ groupB h r) : p.2 ∈ footOf h r := by
  simp only [footOf, List.mem_cons, List.mem_append, List.mem_map]
  exact Or.inr (Or.inl (Or.inl (Or.inl (Or.inr ⟨p, hp, rfl⟩))))

theorem foot_d {h : Heap π ν} {r : Ref} {p : Nat × Ref} (hp : p ∈ groupD h r) : p.2 ∈ footOf h r := by
  simp only [footOf, List.mem_cons, List.mem_append, List.mem_map]
  exact Or.inr (Or.inl (Or.inl (Or.inr ⟨p, hp, rfl⟩)))

theorem foot_dd {h : Heap π ν} {r x : Ref} {p : Nat × Ref} (hp : p ∈ groupD h r)
    (hx : x ∈ itemRefs (getItems h p.2)) : x ∈ footOf h r := by
  simp only [footOf, List.mem_cons, List.mem_append, List.mem_flatMap, List.mem_map]
  exact Or.inr (Or.inl (Or.inr ⟨p.2, ⟨p, hp, rfl⟩, hx⟩))

theorem foot_msg {h : Heap π ν} {r x : Ref} (hx : x ∈ msgInner h r) : x ∈ footOf h r := by
  simp [footOf, hx]

theorem derefGroup_congr {h h' : Heap π ν} {g : Ref} (e : LookEq h h' (footOf h g)) :
    derefGroup h' g = derefGroup h g := by
  unfold derefGroup
  rw [groupB_congr (e g foot_self), groupD_congr (e g foot_self)]
  congr 1
  · apply List.map_congr_left
    intro p hp
    rw [getDesc_congr (e _ (foot_b hp))]
  · apply List.map_congr_left
    intro p hp
    rw [getList_congr (e _ (foot_d hp)) (fun x hx => e x (foot_dd hp hx))]

theorem derefComp_congr {h h' : Heap π ν} {r : Ref} (e : LookEq h h' (footOf h r)) :
    derefComp h' r = derefComp h r := by
  unfold derefComp
  rw [getList_congr (e r foot_self) (fun x hx => e x (foot_items hx)), compCode_congr (e r foot_self)]

theorem derefMsg_congr [Inhabited π] {h h' : Heap π ν} {r : Ref} (e0 : view h' r = view h r)
    (e : LookEq h h' (msgInner h r)) : derefMsg h' r = derefMsg h r := by
  unfold derefMsg
  rw [e0]
  unfold msgInner at e
  split
  · rename_i c dl ld t p ns w hv
    rw [hv] at e
    simp only at e
    have ht : getList h' t = getList h t :=
      getList_congr (e t (by simp)) (fun x hx => e x (by simp [hx]))
    have hl : (dl.zip ld).map (fun x => (getList h' x.1, getLinks h' x.2)) =
        (dl.zip ld).map (fun x => (getList h x.1, getLinks h x.2)) := by
      apply List.map_congr_left
      intro x hx
      have h1 : x.1 ∈ dl := (List.of_mem_zip hx).1
      have h2 : x.2 ∈ ld := (List.of_mem_zip hx).2
      rw [getList_congr (e x.1 (by simp [h1])) (fun y hy => e y
            (List.mem_append_right _ (List.mem_flatMap.2 ⟨x.1, List.mem_cons_of_mem _ h1, hy⟩))),
          getLinks_congr (e x.2 (by simp [h2]))]
    rw [ht, hl]
  · rfl

theorem msgInner_congr {h h' : Heap π ν} {r : Ref} (e0 : view h' r = view h r)
    (e : LookEq h h' (msgInner h r)) : msgInner h' r = msgInner h r := by
  unfold msgInner at e ⊢
  rw [e0]
  split
  · rename_i c dl ld t p ns w hv
    rw [hv] at e
    simp only at e
    have : ∀ l ∈ t :: dl, itemRefs (getItems h' l) = itemRefs (getItems h l) := by
      intro l hl
      rw [getItems_congr (e l (by
        rcases List.mem_cons.1 hl with rfl | hl
        · simp
        · simp [hl]))]
    rw [flatMap_congr' this]
  · rfl

theorem footOf_congr {h h' : Heap π ν} {r : Ref} (e0 : view h' r = view h r)
    (e : LookEq h h' (footOf h r)) : footOf h' r = footOf h r := by
  have el := e r foot_self
  unfold footOf
  rw [getItems_congr el, groupB_congr el, groupD_congr el,
    msgInner_congr e0 (fun x hx => e x (foot_msg hx))]
  have : ∀ s ∈ (groupD h r).map (·.2), itemRefs (getItems h' s) = itemRefs (getItems h s) := by
    intro s hs
    obtain ⟨p, hp, rfl⟩ := List.mem_map.1 hs
    rw [getItems_congr (e _ (foot_d hp))]
  rw [flatMap_congr' this]

/-! ### how the heap changes -/

theorem lookup_alloc_lt (os : List (HObj π ν)) (h : Heap π ν) (r : Nat) :
    ∀ n, r < n → ((List.range' n os.length).zip os ++ h).lookup r = h.lookup r := by
  induction os with
  | nil => intro n _; simp
  | cons o os ih =>
    intro n hr
    simp only [List.length_cons, List.range'_succ, List.zip_cons_cons, List.cons_append]
    rw [List.lookup_cons]
    have : (r == n) = false := by
      rw [beq_eq_false_iff_ne]; omega
    rw [this]
    exact ih (n + 1) (by omega)

theorem lookup_alloc_ge (os : List (HObj π ν)) (h : Heap π ν) :
    ∀ n i, i < os.length → ((List.range' n os.length).zip os ++ h).lookup (n + i) = os[i]? := by
  induction os with
  | nil => intro n i hi; simp at hi
  | cons o os ih =>
    intro n i hi
    simp only [List.length_cons, List.range'_succ, List.zip_cons_cons, List.cons_append]
    rw [List.lookup_cons]
    cases i with
    | zero => simp
    | succ i =>
      have : (n + (i + 1) == n) = false := by
        rw [beq_eq_false_iff_ne]; omega
      rw [this]
      have := ih (n + 1) i (by simpa using hi)
      rw [show n + (i + 1) = n + 1 + i by omega]
      simpa using this

theorem view_of_lookup {h h' : Heap π ν} {x : Ref} (e : h'.lookup x = h.lookup x) : view h' x = view h x := by
  unfold view; rw [e]

theorem view_write_ne (h : Heap π ν) (r x : Ref) (o : HObj π ν) (hx : x ≠ r) :
    view ((r, o) :: h) x = view h x := by
  apply view_of_lookup
  rw [List.lookup_cons]
  have : (x == r) = false := by simp [hx]
  rw [this]

theorem frame4 [Inhabited π] {h h' : Heap π ν} {r : Ref} (e0 : view h' r = view h r)
    (e : LookEq h h' (footOf h r)) :
    derefGroup h' r = derefGroup h r ∧ derefComp h' r = derefComp h r ∧ derefMsg h' r = derefMsg h r ∧
    footOf h' r = footOf h r :=
  ⟨derefGroup_congr e, derefComp_congr e, derefMsg_congr e0 (fun x hx => e x (foot_msg hx)), footOf_congr e0 e⟩

/-- readers at a cell holding a plain (non message, non group) object see the object -/
theorem look_of_lookup_desc {h : Heap π ν} {r : Ref} {d : DescV} (e : h.lookup r = some (.desc d)) :
    look h r = some (.desc d) := by simp [look, view, e]
theorem look_of_lookup_lst {h : Heap π ν} {r : Ref} {is : List Item} (e : h.lookup r = some (.lst is)) :
    look h r = some (.lst is) := by simp [look, view, e]
theorem look_of_lookup_seq {h : Heap π ν} {r : Ref} {i : Nat} {is : List Item} (e : h.lookup r = some (.seq i is)) :
    look h r = some (.seq i is) := by simp [look, view, e]
theorem look_of_lookup_comp {h : Heap π ν} {r : Ref} {c : Nat} {is : List Item} (e : h.lookup r = some (.comp is c)) :
    look h r = some (.comp is c) := by simp [look, view, e]
theorem look_of_lookup_links {h : Heap π ν} {r : Ref} {l : List (Nat × Nat)} (e : h.lookup r = some (.links l)) :
    look h r = some (.links l) := by simp [look, view, e]
theorem look_of_lookup_group {h : Heap π ν} {r : Ref} {b d : List (Nat × Ref)} {c : List Nat}
    (e : h.lookup r = some (.group b d c)) : look h r = some (.group b d []) := by simp [look, view, e]

/-- `itemOfId` over a Table B map read through = lookup in the Table B value -/
theorem derefItem_itemOfId (h : Heap π ν) (bm : List (Nat × Ref)) (id : Nat) :
    derefItem h (itemOfId bm id) = lookupD (bm.map fun p => (p.1, getDesc h p.2)) id := by
  unfold itemOfId lookupD
  induction bm with
  | nil => simp [derefItem]
  | cons p bm ih =>
    obtain ⟨pk, pr⟩ := p
    simp only [List.map_cons, List.lookup_cons]
    cases hp : id == pk with
    | true => simp [derefItem]
    | false => exact ih

theorem derefItem_itemOfSel (h : Heap π ν) (g : Ref) (x : Sel) :
    derefItem h (itemOfSel (groupB h g) x) = resolveSel (derefGroup h g) x := by
  cases x with
  | tab id => exact derefItem_itemOfId h _ id
  | pseudo d => rfl

/-- the references inside items made from a Table B map are Table B references -/
theorem itemRefs_itemOfId {bm : List (Nat × Ref)} {ids : List Nat} {x : Ref}
    (hx : x ∈ itemRefs (ids.map (itemOfId bm))) : x ∈ bm.map (·.2) := by
  rw [mem_itemRefs] at hx
  obtain ⟨id, _, hid⟩ := List.mem_map.1 hx
  unfold itemOfId at hid
  split at hid
  · rename_i r hl
    cases hid
    exact List.mem_map.2 ⟨(id, x), lookup_mem' hl, rfl⟩
  · cases hid

theorem itemRefs_itemOfSel {bm : List (Nat × Ref)} {sels : List Sel} {x : Ref}
    (hx : x ∈ itemRefs (sels.map (itemOfSel bm))) : x ∈ bm.map (·.2) := by
  rw [mem_itemRefs] at hx
  obtain ⟨sel, _, hid⟩ := List.mem_map.1 hx
  cases sel with
  | pseudo d => cases hid
  | tab id =>
    have : x ∈ itemRefs ([id].map (itemOfId bm)) := by
      rw [mem_itemRefs]; simpa [itemOfSel] using hid.symm
    exact itemRefs_itemOfId this

/-- reading back a block of objects allocated at consecutive references -/
theorem map_zip_range' {α β γ : Type} (key : α → β) (F : Nat → γ) (G : α → γ) (l : List α) :
    ∀ n, (∀ i (hi : i < l.length), F (n + i) = G l[i]) →
    ((l.map key).zip (List.range' n l.length)).map (fun p => (p.1, F p.2)) = l.map (fun a => (key a, G a)) := by
  induction l with
  | nil => intro n _; rfl
  | cons a l ih =>
    intro n hF
    simp only [List.map_cons, List.length_cons, List.range'_succ, List.zip_cons_cons]
    have h0 := hF 0 (by simp)
    simp only [Nat.add_zero, List.getElem_cons_zero] at h0
    rw [h0, ih (n + 1) (fun i hi => by
      have := hF (i + 1) (by simp; omega)
      simpa [Nat.add_assoc, Nat.add_comm 1 i] using this)]

end Read

/-! ### dictionaries of references read through -/

section Dict
variable {α β γ : Type}

theorem lookup_mapV {_ : BEq α} (f : β → γ) (d : List (α × β)) (k : α) :
    (d.map fun p => (p.1, f p.2)).lookup k = (d.lookup k).map f := by
  induction d with
  | nil => rfl
  | cons p d ih =>
    obtain ⟨a, b⟩ := p
    simp only [List.map_cons, List.lookup_cons]
    cases k == a with
    | true => rfl
    | false => exact ih

theorem popLoop_mapV [DecidableEq α] (f : β → γ) (n : Nat) (d : List (α × β)) :
    popLoop n (d.map fun p => (p.1, f p.2)) = (((popLoop n d).1).map fun p => (p.1, f p.2), (popLoop n d).2) := by
  induction n generalizing d with
  | zero => rfl
  | succ n ih =>
    unfold popLoop
    cases d with
    | nil => rfl
    | cons p d =>
      have h1 : ((p :: d).map fun p => (p.1, f p.2)).isEmpty = false := rfl
      have h2 : (p :: d).isEmpty = false := rfl
      rw [h1, h2]
      simp only [Bool.false_eq_true, if_false]
      rw [← List.map_dropLast]
      exact ih _

end Dict

section Proc
variable {κ ι π ν φ ω : Type} [DecidableEq κ] [DecidableEq ι] [Inhabited π]

/-- `r` is held by the process state: a cached table group, a cached compiled template or a kept message -/
def IsRoot (s : HState κ ι π ν) (r : Ref) : Prop :=
  (∃ p ∈ s.tables, p.2 = r) ∨ (∃ c, ∃ p ∈ s.compiled c, p.2 = r) ∨ (∃ p ∈ s.objs, p.2 = r)

/-- `x` is (part of) an object reachable from a cache -/
def InCache (s : HState κ ι π ν) (x : Ref) : Prop :=
  ∃ r, ((∃ p ∈ s.tables, p.2 = r) ∨ (∃ c, ∃ p ∈ s.compiled c, p.2 = r)) ∧ x ∈ footOf s.heap r

/-- `x` is (part of) an object reachable from anything the process state holds -/
def Protected (s : HState κ ι π ν) (x : Ref) : Prop := ∃ r, IsRoot s r ∧ x ∈ footOf s.heap r

/-- the cell holds a message object -/
def IsMsg (h : Heap π ν) (r : Ref) : Prop :=
  ∃ c dl ld t p ns w, view h r = some (HObj.msg c dl ld t p ns w)

/-- The ownership invariant: everything reachable from the caches and the kept messages has been
    allocated (so that what is allocated next is FRESH: owned by nobody), and a kept message object is
    held under one key only. -/
structure Sep (s : HState κ ι π ν) : Prop where
  closed : ∀ r, IsRoot s r → ∀ x : Nat, x ∈ footOf s.heap r → x < s.next
  keyOfRoot : ∀ p ∈ s.objs, ∀ q ∈ s.objs, p.2 = q.2 → p.1 = q.1
  msgRoot : ∀ p ∈ s.objs, IsMsg s.heap p.2

/-- the heap state is a representation of the value state (kept objects: up to shadowed entries) -/
structure Sim (s : HState κ ι π ν) (v : State κ GroupV CompV ι (MsgV π) ν) : Prop where
  tables : v.tables = (abs s).tables
  compiled : ∀ c, v.compiled c = (abs s).compiled c
  objs : ∀ key, v.objs.lookup key = (abs s).objs.lookup key

theorem Sep.init : Sep (HState.init : HState κ ι π ν) := by
  refine ⟨?_, ?_, ?_⟩
  · intro r hr
    rcases hr with ⟨p, hp, _⟩ | ⟨c, p, hp, _⟩ | ⟨p, hp, _⟩ <;> simp [HState.init] at hp
  · intro p hp; simp [HState.init] at hp
  · intro p hp; simp [HState.init] at hp

theorem Sim.init : Sim (HState.init : HState κ ι π ν) (State.init : State κ GroupV CompV ι (MsgV π) ν) :=
  ⟨rfl, fun _ => rfl, fun _ => rfl⟩

/-- every cell allocated so far shows what it showed (new cells may have been added) -/
def Keeps (s s' : HState κ ι π ν) : Prop := s.next ≤ s'.next ∧ ∀ x : Nat, x < s.next → view s'.heap x = view s.heap x

theorem Keeps.refl (s : HState κ ι π ν) : Keeps s s := ⟨Nat.le_refl _, fun _ _ => rfl⟩

theorem Keeps.trans {s1 s2 s3 : HState κ ι π ν} (a : Keeps s1 s2) (b : Keeps s2 s3) : Keeps s1 s3 :=
  ⟨Nat.le_trans a.1 b.1, fun x hx => (b.2 x (Nat.lt_of_lt_of_le hx a.1)).trans (a.2 x hx)⟩

theorem keeps_root {s s' : HState κ ι π ν} {r : Ref} (hc : ∀ x : Nat, x ∈ footOf s.heap r → x < s.next) (hk : Keeps s s') :
    derefGroup s'.heap r = derefGroup s.heap r ∧ derefComp s'.heap r = derefComp s.heap r ∧
    derefMsg s'.heap r = derefMsg s.heap r ∧ footOf s'.heap r = footOf s.heap r :=
  frame4 (hk.2 r (hc r foot_self)) (fun x hx => look_of_view (hk.2 x (hc x hx)))

theorem keeps_alloc (s : HState κ ι π ν) (os : List (HObj π ν)) : Keeps s (allocMany s os) :=
  ⟨by simp [allocMany], fun x hx => view_of_lookup (lookup_alloc_lt os s.heap x s.next hx)⟩

/-- state part of the abstraction unchanged when the heap keeps what was allocated and the dictionaries stay -/
theorem abs_keeps {s s' : HState κ ι π ν} (hs : Sep s) (hk : Keeps s s') (ht : s'.tables = s.tables)
    (hc : s'.compiled = s.compiled) (ho : s'.objs = s.objs) : abs s' = abs s := by
  unfold abs
  rw [ht, hc, ho]
  congr 1
  · apply List.map_congr_left
    intro p hp
    rw [(keeps_root (hs.closed p.2 (Or.inl ⟨p, hp, rfl⟩)) hk).1]
  · funext c
    apply List.map_congr_left
    intro p hp
    rw [(keeps_root (hs.closed p.2 (Or.inr (Or.inl ⟨c, p, hp, rfl⟩))) hk).2.1]
  · apply List.map_congr_left
    intro p hp
    rw [(keeps_root (hs.closed p.2 (Or.inr (Or.inr ⟨p, hp, rfl⟩))) hk).2.2.1]

theorem sep_keeps {s s' : HState κ ι π ν} (hs : Sep s) (hk : Keeps s s') (ht : s'.tables = s.tables)
    (hc : s'.compiled = s.compiled) (ho : s'.objs = s.objs) : Sep s' := by
  have hr : ∀ r, IsRoot s' r → IsRoot s r := by
    intro r h; unfold IsRoot at h ⊢; rw [ht, hc, ho] at h; exact h
  refine ⟨?_, ?_, ?_⟩
  · intro r h x hx
    have h0 := hs.closed r (hr r h)
    rw [(keeps_root h0 hk).2.2.2] at hx
    exact Nat.lt_of_lt_of_le (h0 x hx) hk.1
  · rw [ho]; exact hs.keyOfRoot
  · rw [ho]
    intro p hp
    obtain ⟨c, dl, ld, t, pl, ns, w, e⟩ := hs.msgRoot p hp
    have hlt : p.2 < s.next := hs.closed p.2 (Or.inr (Or.inr ⟨p, hp, rfl⟩)) p.2 foot_self
    exact ⟨c, dl, ld, t, pl, ns, w, (hk.2 p.2 hlt).trans e⟩

theorem sim_of_abs {s s' : HState κ ι π ν} {v : State κ GroupV CompV ι (MsgV π) ν} (h : Sim s v)
    (e : abs s' = abs s) : Sim s' v := by
  refine ⟨?_, ?_, ?_⟩
  · rw [e]; exact h.tables
  · intro c; rw [e]; exact h.compiled c
  · intro k; rw [e]; exact h.objs k

theorem mem_zip_snd {α β : Type} {l1 : List α} {l2 : List β} {x : β} (h : x ∈ (l1.zip l2).map (·.2)) : x ∈ l2 := by
  obtain ⟨p, hp, rfl⟩ := List.mem_map.1 h
  exact (List.of_mem_zip hp).2

theorem mem_range'_lt {x n len : Nat} (h : x ∈ List.range' n len) : n ≤ x ∧ x < n + len := by
  rw [List.mem_range'_1] at h; exact h

/-- loading a table group: the new group object reads as the value of the files, everything it
    reaches is new, nothing that existed is touched -/
theorem hLoad_spec (s : HState κ ι π ν) (f : List (Nat × DescV) × List (Nat × List Nat)) :
    Keeps s (hLoad s f).1 ∧ (hLoad s f).1.tables = s.tables ∧ (hLoad s f).1.compiled = s.compiled ∧
    (hLoad s f).1.objs = s.objs ∧ derefGroup (hLoad s f).1.heap (hLoad s f).2 = mkGroupV f ∧
    (∀ x : Nat, x ∈ footOf (hLoad s f).1.heap (hLoad s f).2 → s.next ≤ x ∧ x < (hLoad s f).1.next) := by
  obtain ⟨fb, fd⟩ := f
  -- names
  obtain ⟨bm, hbm0⟩ : ∃ x, x = (fb.map (·.1)).zip (List.range' s.next fb.length) := ⟨_, rfl⟩
  obtain ⟨s1, hs1⟩ : ∃ x, x = allocMany s (fb.map fun p => HObj.desc p.2) := ⟨_, rfl⟩
  obtain ⟨dm, hdm0⟩ : ∃ x, x = (fd.map (·.1)).zip (List.range' s1.next fd.length) := ⟨_, rfl⟩
  obtain ⟨s2, hs2⟩ : ∃ x, x = allocMany s1 (fd.map fun row => HObj.seq row.1 (row.2.map (itemOfId bm))) := ⟨_, rfl⟩
  obtain ⟨s3, hs3⟩ : ∃ x, x = allocMany s2 [HObj.group bm dm []] := ⟨_, rfl⟩
  have e3 : (hLoad s (fb, fd)).1 = s3 := by subst hs3 hs2 hdm0 hs1 hbm0; rfl
  have eg : (hLoad s (fb, fd)).2 = s2.next := by subst hs3 hs2 hdm0 hs1 hbm0; rfl
  have n1 : s1.next = s.next + fb.length := by simp [hs1, allocMany]
  have n2 : s2.next = s.next + fb.length + fd.length := by simp [hs2, allocMany, n1]
  have n3 : s3.next = s2.next + 1 := by simp [hs3, allocMany]
  have k1 : Keeps s s1 := hs1 ▸ keeps_alloc s (fb.map fun p => HObj.desc p.2)
  have k2 : Keeps s1 s2 := hs2 ▸ keeps_alloc s1 (fd.map fun row => HObj.seq row.1 (row.2.map (itemOfId bm)))
  have k3 : Keeps s2 s3 := hs3 ▸ keeps_alloc s2 [HObj.group bm dm []]
  -- cells
  have lg : s3.heap.lookup s2.next = some (HObj.group bm dm []) := by
    have := lookup_alloc_ge [HObj.group bm dm []] s2.heap s2.next 0 (by simp)
    simpa [hs3, allocMany] using this
  have ls : ∀ j (hj : j < fd.length), s3.heap.lookup (s1.next + j) = some (HObj.seq fd[j].1 (fd[j].2.map (itemOfId bm))) := by
    intro j hj
    have a : s3.heap.lookup (s1.next + j) = s2.heap.lookup (s1.next + j) := by
      have := lookup_alloc_lt [HObj.group bm dm []] s2.heap (s1.next + j) s2.next (by omega)
      simpa [hs3, allocMany] using this
    have b := lookup_alloc_ge (fd.map fun row => HObj.seq row.1 (row.2.map (itemOfId bm))) s1.heap s1.next j (by simpa using hj)
    rw [a]
    simpa [hs2, allocMany, hj] using b
  have lb : ∀ i (hi : i < fb.length), s3.heap.lookup (s.next + i) = some (HObj.desc fb[i].2) := by
    intro i hi
    have a : s3.heap.lookup (s.next + i) = s2.heap.lookup (s.next + i) := by
      have := lookup_alloc_lt [HObj.group bm dm []] s2.heap (s.next + i) s2.next (by omega)
      simpa [hs3, allocMany] using this
    have a2 : s2.heap.lookup (s.next + i) = s1.heap.lookup (s.next + i) := by
      have := lookup_alloc_lt (fd.map fun row => HObj.seq row.1 (row.2.map (itemOfId bm))) s1.heap (s.next + i) s1.next (by omega)
      simpa [hs2, allocMany] using this
    have b := lookup_alloc_ge (fb.map fun p => HObj.desc p.2) s.heap s.next i (by simpa using hi)
    rw [a, a2]
    simpa [hs1, allocMany, hi] using b
  have gB : groupB s3.heap s2.next = bm := by unfold groupB; rw [look_of_lookup_group lg]
  have gD : groupD s3.heap s2.next = dm := by unfold groupD; rw [look_of_lookup_group lg]
  have vb : (bm.map fun p => (p.1, getDesc s3.heap p.2)) = fb := by
    have := map_zip_range' (fun a : Nat × DescV => a.1) (getDesc s3.heap) (fun a => a.2) fb s.next
      (fun i hi => by unfold getDesc; rw [look_of_lookup_desc (lb i hi)])
    simpa [hbm0] using this
  have gi : ∀ j (hj : j < fd.length), getItems s3.heap (s1.next + j) = fd[j].2.map (itemOfId bm) := by
    intro j hj; unfold getItems; rw [look_of_lookup_seq (ls j hj)]
  have vd : (dm.map fun p => (p.1, getList s3.heap p.2)) = fd.map fun row => (row.1, row.2.map (lookupD fb)) := by
    rw [hdm0]
    refine map_zip_range' (fun a : Nat × List Nat => a.1) (getList s3.heap) (fun row => row.2.map (lookupD fb)) fd s1.next
      (fun j hj => ?_)
    unfold getList
    rw [gi j hj, List.map_map]
    apply List.map_congr_left
    intro id _
    simp only [Function.comp]
    rw [derefItem_itemOfId, vb]
  refine ⟨?_, rfl, rfl, rfl, ?_, ?_⟩
  · rw [e3]; exact (k1.trans k2).trans k3
  · rw [e3, eg]
    unfold derefGroup mkGroupV
    rw [gB, gD, vb, vd]
  · rw [e3, eg]
    intro x hx
    have hbm : ∀ y : Nat, y ∈ bm.map (·.2) → s.next ≤ y ∧ y < s.next + fb.length := fun y hy => mem_range'_lt (mem_zip_snd (hbm0 ▸ hy))
    have hdm : ∀ y : Nat, y ∈ dm.map (·.2) → s1.next ≤ y ∧ y < s1.next + fd.length := fun y hy => mem_range'_lt (mem_zip_snd (hdm0 ▸ hy))
    have hit : getItems s3.heap s2.next = [] := by unfold getItems; rw [look_of_lookup_group lg]
    have hmi : msgInner s3.heap s2.next = [] := by unfold msgInner view; rw [lg]
    unfold footOf at hx
    rw [gB, gD, hit, hmi] at hx
    simp only [itemRefs, List.nil_append, List.append_nil, List.mem_cons, List.mem_append, List.mem_flatMap] at hx
    rcases hx with rfl | (hx | hx) | ⟨(y : Nat), hy, hx⟩
    · omega
    · have := hbm x hx; omega
    · have := hdm x hx; omega
    · obtain ⟨h1, h2⟩ := hdm y hy
      have hj : y - s1.next < fd.length := by omega
      have : y = s1.next + (y - s1.next) := by omega
      rw [this, gi _ hj] at hx
      have := hbm x (itemRefs_itemOfId hx)
      omega

theorem view_of_lookup_msg {h : Heap π ν} {r : Ref} {c : Bool} {dl ld : List Ref} {t : Ref} {p : π} {ns : List ν} {w : Bool}
    (e : h.lookup r = some (.msg c dl ld t p ns w)) : view h r = some (.msg c dl ld t p ns w) := by
  simp [view, e]

theorem zip_range'_range' (a b n : Nat) :
    (List.range' a n).zip (List.range' b n) = (List.range n).map fun i => (a + i, b + i) := by
  rw [List.range'_eq_map_range, List.range'_eq_map_range, List.zip_map']

/-- items made from the Table B map of a cached group, read in a heap that keeps the group -/
theorem getDesc_bm_keeps {s s' : HState κ ι π ν} {g : Ref} (hg : ∀ y : Nat, y ∈ (groupB s.heap g).map (·.2) → y < s.next)
    (hk : Keeps s s') :
    ((groupB s.heap g).map fun p => (p.1, getDesc s'.heap p.2)) = (derefGroup s.heap g).b := by
  unfold derefGroup
  apply List.map_congr_left
  intro p hp
  rw [getDesc_congr (look_of_view (hk.2 p.2 (hg p.2 (List.mem_map.2 ⟨p, hp, rfl⟩))))]

/-- allocation of a decoded message -/
theorem hAllocMsg_spec (s : HState κ ι π ν) (g : Ref) (tids : List Nat)
    (x : Bool × Nat × (Nat → List Sel × List (Nat × Nat)) × π)
    (hg : ∀ y : Nat, y ∈ (groupB s.heap g).map (·.2) → y < s.next) :
    Keeps s (hAllocMsg s g tids x).1 ∧ (hAllocMsg s g tids x).1.tables = s.tables ∧
    (hAllocMsg s g tids x).1.compiled = s.compiled ∧ (hAllocMsg s g tids x).1.objs = s.objs ∧
    derefMsg (hAllocMsg s g tids x).1.heap (hAllocMsg s g tids x).2 =
      { data := { compressed := x.1, templ := tids.map (lookupD (derefGroup s.heap g).b),
                  subsets := subsetsOf (derefGroup s.heap g) x.1 x.2.1 x.2.2.1, payload := x.2.2.2 },
        nodes := [], isWired := false } ∧
    (∀ y : Nat, y ∈ footOf (hAllocMsg s g tids x).1.heap (hAllocMsg s g tids x).2 → y < (hAllocMsg s g tids x).1.next) ∧
    s.next ≤ (hAllocMsg s g tids x).2 ∧ IsMsg (hAllocMsg s g tids x).1.heap (hAllocMsg s g tids x).2 := by
  obtain ⟨c, n, f, pl⟩ := x
  obtain ⟨bm, hbm⟩ : ∃ b, b = groupB s.heap g := ⟨_, rfl⟩
  obtain ⟨s0, hs0⟩ : ∃ z, z = allocMany s [HObj.lst (tids.map (itemOfId bm))] := ⟨_, rfl⟩
  have n0 : s0.next = s.next + 1 := by simp [hs0, allocMany]
  have k0 : Keeps s s0 := hs0 ▸ keeps_alloc s _
  have hbr : ∀ y : Nat, y ∈ bm.map (·.2) → y < s.next := hbm ▸ hg
  -- reading items of the Table B map in any heap that keeps `s`
  have rd : ∀ (s' : HState κ ι π ν), Keeps s s' → ∀ id, derefItem s'.heap (itemOfId bm id) = lookupD (derefGroup s.heap g).b id := by
    intro s' hk id
    rw [derefItem_itemOfId, hbm, getDesc_bm_keeps hg hk]
  have rs : ∀ (s' : HState κ ι π ν), Keeps s s' → ∀ sel, derefItem s'.heap (itemOfSel bm sel) = resolveSel (derefGroup s.heap g) sel := by
    intro s' hk sel
    cases sel with
    | tab id => exact rd s' hk id
    | pseudo d => rfl
  cases c with
  | true =>
    obtain ⟨s1, hs1⟩ : ∃ z, z = allocMany s0 [HObj.lst ((f 0).1.map (itemOfSel bm)), HObj.links (f 0).2] := ⟨_, rfl⟩
    obtain ⟨s2, hs2⟩ : ∃ z, z = allocMany s1 [HObj.msg true (List.replicate n s0.next) (List.replicate n (s0.next + 1)) s.next pl [] false] := ⟨_, rfl⟩
    have e1 : (hAllocMsg s g tids (true, n, f, pl)).1 = s2 := by subst hs2 hs1 hs0 hbm; rfl
    have e2 : (hAllocMsg s g tids (true, n, f, pl)).2 = s1.next := by subst hs2 hs1 hs0 hbm; rfl
    have n1 : s1.next = s.next + 3 := by simp [hs1, allocMany, n0]
    have n2 : s2.next = s.next + 4 := by simp [hs2, allocMany, n1]
    have k1 : Keeps s0 s1 := hs1 ▸ keeps_alloc s0 _
    have k2 : Keeps s1 s2 := hs2 ▸ keeps_alloc s1 _
    have kk : Keeps s s2 := (k0.trans k1).trans k2
    have lm : s2.heap.lookup s1.next = some (HObj.msg true (List.replicate n s0.next) (List.replicate n (s0.next + 1)) s.next pl [] false) := by
      have := lookup_alloc_ge [HObj.msg true (List.replicate n s0.next) (List.replicate n (s0.next + 1)) s.next pl [] false] s1.heap s1.next 0 (by simp)
      simpa [hs2, allocMany] using this
    have l12 : ∀ r : Nat, r < s1.next → s2.heap.lookup r = s1.heap.lookup r := by
      intro r hr
      have := lookup_alloc_lt [HObj.msg true (List.replicate n s0.next) (List.replicate n (s0.next + 1)) s.next pl [] false] s1.heap r s1.next hr
      simpa [hs2, allocMany] using this
    have ll : s2.heap.lookup s0.next = some (HObj.lst ((f 0).1.map (itemOfSel bm))) := by
      rw [l12 _ (by omega)]
      have := lookup_alloc_ge [HObj.lst ((f 0).1.map (itemOfSel bm)), HObj.links (f 0).2] s0.heap s0.next 0 (by simp)
      simpa [hs1, allocMany] using this
    have lk : s2.heap.lookup (s0.next + 1) = some (HObj.links (f 0).2) := by
      rw [l12 _ (by omega)]
      have := lookup_alloc_ge [HObj.lst ((f 0).1.map (itemOfSel bm)), HObj.links (f 0).2] s0.heap s0.next 1 (by simp)
      simpa [hs1, allocMany] using this
    have lt : s2.heap.lookup s.next = some (HObj.lst (tids.map (itemOfId bm))) := by
      rw [l12 _ (by omega)]
      have a : s1.heap.lookup s.next = s0.heap.lookup s.next := by
        have := lookup_alloc_lt [HObj.lst ((f 0).1.map (itemOfSel bm)), HObj.links (f 0).2] s0.heap s.next s0.next (by omega)
        simpa [hs1, allocMany] using this
      rw [a]
      have := lookup_alloc_ge [HObj.lst (tids.map (itemOfId bm))] s.heap s.next 0 (by simp)
      simpa [hs0, allocMany] using this
    have git : getItems s2.heap s.next = tids.map (itemOfId bm) := by unfold getItems; rw [look_of_lookup_lst lt]
    have gil : getItems s2.heap s0.next = (f 0).1.map (itemOfSel bm) := by unfold getItems; rw [look_of_lookup_lst ll]
    have gt : getList s2.heap s.next = tids.map (lookupD (derefGroup s.heap g).b) := by
      unfold getList; rw [git, List.map_map]
      exact List.map_congr_left (fun id _ => rd s2 kk id)
    have gl : getList s2.heap s0.next = (f 0).1.map (resolveSel (derefGroup s.heap g)) := by
      unfold getList; rw [gil, List.map_map]
      exact List.map_congr_left (fun sel _ => rs s2 kk sel)
    have gk : getLinks s2.heap (s0.next + 1) = (f 0).2 := by unfold getLinks; rw [look_of_lookup_links lk]
    refine ⟨e1 ▸ kk, by rw [e1, hs2, hs1, hs0]; rfl, by rw [e1, hs2, hs1, hs0]; rfl, by rw [e1, hs2, hs1, hs0]; rfl, ?_, ?_, by rw [e2]; omega, by rw [e1, e2]; exact ⟨_, _, _, _, _, _, _, view_of_lookup_msg lm⟩⟩
    · rw [e1, e2]
      unfold derefMsg
      rw [view_of_lookup_msg lm]
      simp only [List.zip_replicate', List.map_replicate, gt, gl, gk, subsetsOf, if_true]
    · rw [e1, e2]
      intro y hy
      have hmi : msgInner s2.heap s1.next = s.next :: List.replicate n s0.next ++ List.replicate n (s0.next + 1) ++
          (s.next :: List.replicate n s0.next).flatMap fun l => itemRefs (getItems s2.heap l) := by
        unfold msgInner; rw [view_of_lookup_msg lm]
      have hl0 : look s2.heap s1.next = none := by simp [look, view_of_lookup_msg lm]
      unfold footOf at hy
      rw [hmi] at hy
      have e_it : getItems s2.heap s1.next = [] := by unfold getItems; rw [hl0]
      have e_b : groupB s2.heap s1.next = [] := by unfold groupB; rw [hl0]
      have e_d : groupD s2.heap s1.next = [] := by unfold groupD; rw [hl0]
      rw [e_it, e_b, e_d] at hy
      simp only [itemRefs, List.map_nil, List.flatMap_nil, List.append_nil, List.nil_append, List.mem_cons,
        List.mem_append, List.mem_replicate, List.mem_flatMap] at hy
      rcases hy with rfl | (((rfl | ⟨_, rfl⟩) | ⟨_, rfl⟩) | ⟨(l : Nat), hl, hy⟩)
      · omega
      · omega
      · omega
      · omega
      · rcases hl with rfl | ⟨_, rfl⟩
        · rw [git] at hy
          have := hbr y (itemRefs_itemOfId hy); omega
        · rw [gil] at hy
          have := hbr y (itemRefs_itemOfSel hy); omega
  | false =>
    obtain ⟨s1, hs1⟩ : ∃ z, z = allocMany s0 ((List.range n).map fun i => HObj.lst ((f i).1.map (itemOfSel bm))) := ⟨_, rfl⟩
    obtain ⟨s2, hs2⟩ : ∃ z, z = allocMany s1 ((List.range n).map fun i => (HObj.links (f i).2 : HObj π ν)) := ⟨_, rfl⟩
    obtain ⟨s3, hs3⟩ : ∃ z, z = allocMany s2 [HObj.msg false (List.range' s0.next n) (List.range' s1.next n) s.next pl [] false] := ⟨_, rfl⟩
    have e1 : (hAllocMsg s g tids (false, n, f, pl)).1 = s3 := by subst hs3 hs2 hs1 hs0 hbm; rfl
    have e2 : (hAllocMsg s g tids (false, n, f, pl)).2 = s2.next := by subst hs3 hs2 hs1 hs0 hbm; rfl
    have n1 : s1.next = s.next + 1 + n := by simp [hs1, allocMany, n0]
    have n2 : s2.next = s.next + 1 + n + n := by simp [hs2, allocMany, n1]
    have n3 : s3.next = s2.next + 1 := by simp [hs3, allocMany]
    have k1 : Keeps s0 s1 := hs1 ▸ keeps_alloc s0 _
    have k2 : Keeps s1 s2 := hs2 ▸ keeps_alloc s1 _
    have k3 : Keeps s2 s3 := hs3 ▸ keeps_alloc s2 _
    have kk : Keeps s s3 := ((k0.trans k1).trans k2).trans k3
    have lm : s3.heap.lookup s2.next = some (HObj.msg false (List.range' s0.next n) (List.range' s1.next n) s.next pl [] false) := by
      have := lookup_alloc_ge [HObj.msg false (List.range' s0.next n) (List.range' s1.next n) s.next pl [] false] s2.heap s2.next 0 (by simp)
      simpa [hs3, allocMany] using this
    have l23 : ∀ r : Nat, r < s2.next → s3.heap.lookup r = s2.heap.lookup r := by
      intro r hr
      have := lookup_alloc_lt [HObj.msg false (List.range' s0.next n) (List.range' s1.next n) s.next pl [] false] s2.heap r s2.next hr
      simpa [hs3, allocMany] using this
    have l12 : ∀ r : Nat, r < s1.next → s2.heap.lookup r = s1.heap.lookup r := by
      intro r hr
      have := lookup_alloc_lt ((List.range n).map fun i => (HObj.links (f i).2 : HObj π ν)) s1.heap r s1.next hr
      simpa [hs2, allocMany] using this
    have l01 : ∀ r : Nat, r < s0.next → s1.heap.lookup r = s0.heap.lookup r := by
      intro r hr
      have := lookup_alloc_lt ((List.range n).map fun i => HObj.lst ((f i).1.map (itemOfSel bm))) s0.heap r s0.next hr
      simpa [hs1, allocMany] using this
    have lk : ∀ i, i < n → s3.heap.lookup (s1.next + i) = some (HObj.links (f i).2) := by
      intro i hi
      rw [l23 _ (by omega)]
      have := lookup_alloc_ge ((List.range n).map fun i => (HObj.links (f i).2 : HObj π ν)) s1.heap s1.next i (by simpa using hi)
      simpa [hs2, allocMany, hi] using this
    have ll : ∀ i, i < n → s3.heap.lookup (s0.next + i) = some (HObj.lst ((f i).1.map (itemOfSel bm))) := by
      intro i hi
      rw [l23 _ (by omega), l12 _ (by omega)]
      have := lookup_alloc_ge ((List.range n).map fun i => HObj.lst ((f i).1.map (itemOfSel bm))) s0.heap s0.next i (by simpa using hi)
      simpa [hs1, allocMany, hi] using this
    have lt : s3.heap.lookup s.next = some (HObj.lst (tids.map (itemOfId bm))) := by
      rw [l23 _ (by omega), l12 _ (by omega), l01 _ (by omega)]
      have := lookup_alloc_ge [HObj.lst (tids.map (itemOfId bm))] s.heap s.next 0 (by simp)
      simpa [hs0, allocMany] using this
    have git : getItems s3.heap s.next = tids.map (itemOfId bm) := by unfold getItems; rw [look_of_lookup_lst lt]
    have gil : ∀ i, i < n → getItems s3.heap (s0.next + i) = (f i).1.map (itemOfSel bm) := by
      intro i hi; unfold getItems; rw [look_of_lookup_lst (ll i hi)]
    have gt : getList s3.heap s.next = tids.map (lookupD (derefGroup s.heap g).b) := by
      unfold getList; rw [git, List.map_map]
      exact List.map_congr_left (fun id _ => rd s3 kk id)
    have gl : ∀ i, i < n → getList s3.heap (s0.next + i) = (f i).1.map (resolveSel (derefGroup s.heap g)) := by
      intro i hi
      unfold getList; rw [gil i hi, List.map_map]
      exact List.map_congr_left (fun sel _ => rs s3 kk sel)
    have gk : ∀ i, i < n → getLinks s3.heap (s1.next + i) = (f i).2 := by
      intro i hi; unfold getLinks; rw [look_of_lookup_links (lk i hi)]
    refine ⟨e1 ▸ kk, by rw [e1, hs3, hs2, hs1, hs0]; rfl, by rw [e1, hs3, hs2, hs1, hs0]; rfl, by rw [e1, hs3, hs2, hs1, hs0]; rfl, ?_, ?_, by rw [e2]; omega, by rw [e1, e2]; exact ⟨_, _, _, _, _, _, _, view_of_lookup_msg lm⟩⟩
    · rw [e1, e2]
      unfold derefMsg
      rw [view_of_lookup_msg lm]
      simp only [zip_range'_range', List.map_map, gt, subsetsOf, Bool.false_eq_true, if_false]
      congr 2
      apply List.map_congr_left
      intro i hi
      have hi' : i < n := List.mem_range.1 hi
      simp only [Function.comp, gl i hi', gk i hi']
    · rw [e1, e2]
      intro y hy
      have hmi : msgInner s3.heap s2.next = s.next :: List.range' s0.next n ++ List.range' s1.next n ++
          (s.next :: List.range' s0.next n).flatMap fun l => itemRefs (getItems s3.heap l) := by
        unfold msgInner; rw [view_of_lookup_msg lm]
      have hl0 : look s3.heap s2.next = none := by simp [look, view_of_lookup_msg lm]
      unfold footOf at hy
      rw [hmi] at hy
      have e_it : getItems s3.heap s2.next = [] := by unfold getItems; rw [hl0]
      have e_b : groupB s3.heap s2.next = [] := by unfold groupB; rw [hl0]
      have e_d : groupD s3.heap s2.next = [] := by unfold groupD; rw [hl0]
      rw [e_it, e_b, e_d] at hy
      simp only [itemRefs, List.map_nil, List.flatMap_nil, List.append_nil, List.nil_append, List.mem_cons,
        List.mem_append, List.mem_flatMap] at hy
      rcases hy with rfl | (((rfl | hy) | hy) | ⟨(l : Nat), hl, hy⟩)
      · omega
      · omega
      · have := mem_range'_lt hy; omega
      · have := mem_range'_lt hy; omega
      · rcases hl with rfl | hl
        · rw [git] at hy
          have := hbr y (itemRefs_itemOfId hy); omega
        · have hr := mem_range'_lt hl
          have : l = s0.next + (l - s0.next) := by omega
          rw [this, gil _ (by omega)] at hy
          have := hbr y (itemRefs_itemOfSel hy); omega

theorem Sep.of {s s' : HState κ ι π ν} (hs : Sep s) (hh : s'.heap = s.heap) (hn : s'.next = s.next)
    (hr : ∀ r, IsRoot s' r → IsRoot s r ∨ ∀ x : Nat, x ∈ footOf s.heap r → x < s.next)
    (hk : ∀ p ∈ s'.objs, ∀ q ∈ s'.objs, p.2 = q.2 → p.1 = q.1)
    (hm : ∀ p ∈ s'.objs, IsMsg s.heap p.2) : Sep s' := by
  refine ⟨?_, hk, hh ▸ hm⟩
  intro r h x hx
  rw [hh] at hx
  rw [hn]
  rcases hr r h with h1 | h1
  · exact hs.closed r h1 x hx
  · exact h1 x hx

variable (H : HParams κ ι π ν φ ω)

theorem abs_tables (s : HState κ ι π ν) : (abs s).tables = s.tables.map fun p => (p.1, derefGroup s.heap p.2) := rfl
theorem abs_compiled (s : HState κ ι π ν) (c : Nat) :
    (abs s).compiled c = (s.compiled c).map fun p => (p.1, derefComp s.heap p.2) := rfl
theorem abs_objs (s : HState κ ι π ν) : (abs s).objs = s.objs.map fun p => (p.1, derefMsg s.heap p.2) := rfl

/-- the table-group stage: same plumbing on references as `Cache.stageTables` on values -/
theorem hStageTables_spec (s : HState κ ι π ν) (v : State κ GroupV CompV ι (MsgV π) ν) (k : κ)
    (hs : Sep s) (hv : Sim s v) :
    Sep (hStageTables H s k).1 ∧ Sim (hStageTables H s k).1 (stageTables H.toParams v k).1 ∧
    Keeps s (hStageTables H s k).1 ∧ (hStageTables H s k).1.objs = s.objs ∧
    (hStageTables H s k).1.compiled = s.compiled ∧
    (match (hStageTables H s k).2 with
     | .error e => (stageTables H.toParams v k).2 = .error e
     | .ok g => (stageTables H.toParams v k).2 = .ok (derefGroup (hStageTables H s k).1.heap g) ∧
         ∃ p ∈ (hStageTables H s k).1.tables, p.2 = g) := by
  have hvt := hv.tables
  rw [abs_tables] at hvt
  unfold hStageTables stageTables tableGet
  rw [hvt, lookup_mapV]
  cases hl : s.tables.lookup k with
  | some g =>
    simp only [Option.map_some]
    refine ⟨hs, ⟨?_, hv.compiled, hv.objs⟩, Keeps.refl s, (by first | rfl | trivial), (by first | rfl | trivial), (by first | rfl | trivial), ⟨(k, g), lookup_mem' hl, rfl⟩⟩
    show s.tables.map _ = (abs s).tables
    rfl
  | none =>
    simp only [Option.map_none, List.length_map]
    -- the eviction loop on references and on values
    obtain ⟨r, hr⟩ : ∃ r, r = (if H.limit ≤ s.tables.length then popLoop (s.tables.length + 1 - H.limit) s.tables else (s.tables, false)) := ⟨_, rfl⟩
    have hrv : (if H.toParams.limit ≤ s.tables.length then
          popLoop (s.tables.length + 1 - H.toParams.limit) (s.tables.map fun p => (p.1, derefGroup s.heap p.2))
        else (s.tables.map fun p => (p.1, derefGroup s.heap p.2), false)) =
        (r.1.map fun p => (p.1, derefGroup s.heap p.2), r.2) := by
      show (if H.limit ≤ _ then _ else _) = _
      rw [hr]
      by_cases hlim : H.limit ≤ s.tables.length
      · simp only [hlim, if_true]; exact popLoop_mapV _ _ _
      · simp only [hlim, if_false]
    rw [hrv, ← hr]
    have hsub : ∀ p ∈ r.1, p ∈ s.tables := by
      intro p hp
      rw [hr] at hp
      by_cases hlim : H.limit ≤ s.tables.length
      · simp only [hlim, if_true] at hp; exact (popLoop_spec _ _).1.subset hp
      · simp only [hlim, if_false] at hp; exact hp
    -- the state with the evicted entries gone
    have hs0 : Sep ({ s with tables := r.1 } : HState κ ι π ν) := by
      refine Sep.of hs rfl rfl ?_ hs.keyOfRoot hs.msgRoot
      intro x hx
      left
      rcases hx with ⟨p, hp, e⟩ | h2
      · exact Or.inl ⟨p, hsub p hp, e⟩
      · exact Or.inr h2
    have hv0 : Sim ({ s with tables := r.1 } : HState κ ι π ν) { v with tables := r.1.map fun p => (p.1, derefGroup s.heap p.2) } :=
      ⟨rfl, hv.compiled, hv.objs⟩
    cases hr2 : r.2 with
    | true =>
      simp only [if_true]
      exact ⟨hs0, hv0, Keeps.refl _, (by first | rfl | trivial), (by first | rfl | trivial), (by first | rfl | trivial)⟩
    | false =>
      simp only [Bool.false_eq_true, if_false]
      show _ ∧ _ ∧ _ ∧ _ ∧ _ ∧ _
      have hlg : H.toParams.loadGroup k = (H.loadFile k).map mkGroupV := rfl
      rw [hlg]
      cases hf : H.loadFile k with
      | error e => exact ⟨hs0, hv0, Keeps.refl _, (by first | rfl | trivial), (by first | rfl | trivial), (by first | rfl | trivial)⟩
      | ok f =>
        simp only [Except.map]
        obtain ⟨hk, ht, hc, ho, hd, hfoot⟩ := hLoad_spec ({ s with tables := r.1 } : HState κ ι π ν) f
        obtain ⟨l, hl'⟩ : ∃ l, l = hLoad ({ s with tables := r.1 } : HState κ ι π ν) f := ⟨_, rfl⟩
        rw [← hl'] at hk ht hc ho hd hfoot ⊢
        have hs1 : Sep l.1 := sep_keeps hs0 hk ht hc ho
        have ea : abs l.1 = abs ({ s with tables := r.1 } : HState κ ι π ν) := abs_keeps hs0 hk ht hc ho
        refine ⟨?_, ⟨?_, ?_, ?_⟩, hk, ho, hc, ?_, ⟨(k, l.2), by simp, rfl⟩⟩
        · refine Sep.of hs1 rfl rfl ?_ hs1.keyOfRoot hs1.msgRoot
          intro x hx
          rcases hx with ⟨p, hp, e⟩ | h2
          · simp only [List.mem_append, List.mem_singleton] at hp
            rcases hp with hp | rfl
            · exact Or.inl (Or.inl ⟨p, ht ▸ hp, e⟩)
            · right
              intro y hy
              exact (hfoot y (e ▸ hy)).2
          · exact Or.inl (Or.inr h2)
        · show _ = (abs _).tables
          rw [abs_tables]
          simp only [List.map_append, List.map_cons, List.map_nil, hd]
          congr 1
          have := congrArg State.tables ea
          rw [abs_tables, abs_tables, ht] at this
          exact this.symm
        · intro c
          have := congrFun (congrArg State.compiled ea) c
          exact (hv.compiled c).trans this.symm
        · intro key
          have := congrArg State.objs ea
          have h2 : (abs ({ l.1 with tables := r.1 ++ [(k, l.2)] } : HState κ ι π ν)).objs = (abs l.1).objs := rfl
          rw [h2, this]
          exact hv.objs key
        · simp only [hd]

/-- the Table C memo: a write to the cached group object that no reader can see -/
theorem hMemoC_spec (s : HState κ ι π ν) (g : Ref) (ids : List Nat) :
    (∀ x, view (hMemoC s g ids).heap x = view s.heap x) ∧ (hMemoC s g ids).next = s.next ∧
    (hMemoC s g ids).tables = s.tables ∧ (hMemoC s g ids).compiled = s.compiled ∧ (hMemoC s g ids).objs = s.objs := by
  unfold hMemoC
  split
  · rename_i b d c hl
    refine ⟨?_, rfl, rfl, rfl, rfl⟩
    intro x
    by_cases hx : x = g
    · subst hx
      simp [write, view, hl]
    · exact view_write_ne _ _ _ _ hx
  · exact ⟨fun _ => rfl, rfl, rfl, rfl, rfl⟩

theorem keeps_of_view {s s' : HState κ ι π ν} (hv : ∀ x, view s'.heap x = view s.heap x) (hn : s'.next = s.next) : Keeps s s' :=
  ⟨by rw [hn]; exact Nat.le_refl _, fun x _ => hv x⟩

theorem derefGroup_of_view {h h' : Heap π ν} (hv : ∀ x, view h' x = view h x) (g : Ref) : derefGroup h' g = derefGroup h g :=
  derefGroup_congr (fun x _ => look_of_view (hv x))

theorem groupB_of_view {h h' : Heap π ν} (hv : ∀ x, view h' x = view h x) (g : Ref) : groupB h' g = groupB h g :=
  groupB_congr (look_of_view (hv g))

theorem lookup_upd {α : Type} (f : Nat → α) (i : Nat) (a : α) (j : Nat) : upd f i a j = if j = i then a else f j := rfl

theorem dictGet_eq {α β : Type} [DecidableEq α] (d : Dict α β) (k : α) : dictGet d k = d.lookup k := rfl

/-- the compiled-template stage -/
theorem hStageCompiled_spec (s : HState κ ι π ν) (v : State κ GroupV CompV ι (MsgV π) ν) (c : Nat) (g : Ref)
    (t : TemplV) (ids : List Nat) (k : κ) (hs : Sep s) (hv : Sim s v) (hg : ∃ p ∈ s.tables, p.2 = g) :
    Sep (hStageCompiled H s c g t ids k).1 ∧
    Sim (hStageCompiled H s c g t ids k).1 (stageCompiled H.toParams v c (derefGroup s.heap g) t ids k).1 ∧
    Keeps s (hStageCompiled H s c g t ids k).1 ∧ (hStageCompiled H s c g t ids k).1.objs = s.objs ∧
    (hStageCompiled H s c g t ids k).1.tables = s.tables ∧
    (match (hStageCompiled H s c g t ids k).2 with
     | .error e => (stageCompiled H.toParams v c (derefGroup s.heap g) t ids k).2 = .error e
     | .ok oc => (stageCompiled H.toParams v c (derefGroup s.heap g) t ids k).2 =
         .ok (oc.map (derefComp (hStageCompiled H s c g t ids k).1.heap))) := by
  unfold hStageCompiled stageCompiled
  have hcm : H.toParams.cacheMax c = H.cacheMax c := rfl
  rw [hcm]
  cases hmx : H.cacheMax c with
  | none => exact ⟨hs, hv, Keeps.refl s, rfl, rfl, rfl⟩
  | some mx =>
    simp only
    unfold compiledGet
    have hvc := hv.compiled c
    rw [abs_compiled] at hvc
    rw [hvc, lookup_mapV, ← dictGet_eq]
    cases hl : dictGet (s.compiled c) (ids, k) with
    | some x =>
      simp only [hl, Option.map_some]
      refine ⟨hs, ⟨hv.tables, ?_, hv.objs⟩, Keeps.refl s, (by first | rfl | trivial), (by first | rfl | trivial), ?_⟩
      · intro c'
        simp only [lookup_upd]
        by_cases hc : c' = c
        · subst hc; simp only [if_true]; rw [abs_compiled]
        · simp only [hc, if_false]; exact hv.compiled c'
      · simp [Except.map]
    | none =>
      simp only [hl, Option.map_none]
      have hcp : H.toParams.compile (derefGroup s.heap g) t =
          (H.compileIds (derefGroup s.heap g) t).map fun x => { descs := x.1.map (lookupD (derefGroup s.heap g).b), code := x.2 } := rfl
      rw [hcp]
      cases hci : H.compileIds (derefGroup s.heap g) t with
      | error e =>
        simp only [Except.map]
        refine ⟨hs, ⟨hv.tables, ?_, hv.objs⟩, Keeps.refl s, (by first | rfl | trivial), (by first | rfl | trivial), (by first | rfl | trivial)⟩
        intro c'
        simp only [lookup_upd]
        by_cases hc : c' = c
        · subst hc; simp only [if_true]; rw [abs_compiled]
        · simp only [hc, if_false]; exact hv.compiled c'
      | ok x =>
        simp only [Except.map]
        obtain ⟨s1, hs1⟩ : ∃ z, z = allocMany s [HObj.comp (x.1.map (itemOfId (groupB s.heap g))) x.2] := ⟨_, rfl⟩
        rw [← hs1]
        have k1 : Keeps s s1 := hs1 ▸ keeps_alloc s _
        have n1 : s1.next = s.next + 1 := by simp [hs1, allocMany]
        have d1 : s1.tables = s.tables ∧ s1.compiled = s.compiled ∧ s1.objs = s.objs := by rw [hs1]; exact ⟨rfl, rfl, rfl⟩
        have hs1' : Sep s1 := sep_keeps hs k1 d1.1 d1.2.1 d1.2.2
        have ea : abs s1 = abs s := abs_keeps hs k1 d1.1 d1.2.1 d1.2.2
        obtain ⟨pg, hpg, epg⟩ := hg
        have hbr : ∀ y : Nat, y ∈ (groupB s.heap g).map (·.2) → y < s.next := by
          intro y hy
          obtain ⟨q, hq, rfl⟩ := List.mem_map.1 hy
          exact hs.closed g (Or.inl ⟨pg, hpg, epg⟩) q.2 (foot_b hq)
        have lc : s1.heap.lookup s.next = some (HObj.comp (x.1.map (itemOfId (groupB s.heap g))) x.2) := by
          have := lookup_alloc_ge [HObj.comp (x.1.map (itemOfId (groupB s.heap g))) x.2] s.heap s.next 0 (by simp)
          simpa [hs1, allocMany] using this
        have gi : getItems s1.heap s.next = x.1.map (itemOfId (groupB s.heap g)) := by
          unfold getItems; rw [look_of_lookup_comp lc]
        have dc : derefComp s1.heap s.next = { descs := x.1.map (lookupD (derefGroup s.heap g).b), code := x.2 } := by
          unfold derefComp getList compCode
          rw [gi, look_of_lookup_comp lc, List.map_map]
          congr 1
          apply List.map_congr_left
          intro id _
          simp only [Function.comp]
          rw [derefItem_itemOfId, getDesc_bm_keeps hbr k1]
        have fc : ∀ y : Nat, y ∈ footOf s1.heap s.next → y < s1.next := by
          intro y hy
          have e_b : groupB s1.heap s.next = [] := by unfold groupB; rw [look_of_lookup_comp lc]
          have e_d : groupD s1.heap s.next = [] := by unfold groupD; rw [look_of_lookup_comp lc]
          have e_m : msgInner s1.heap s.next = [] := by unfold msgInner; simp [view, lc]
          unfold footOf at hy
          rw [gi, e_b, e_d, e_m] at hy
          simp only [List.map_nil, List.flatMap_nil, List.append_nil, List.mem_cons] at hy
          rcases hy with rfl | hy
          · omega
          · have := hbr y (itemRefs_itemOfId hy); omega
        by_cases hpos : 0 < mx
        · simp only [hpos, if_true, List.length_map]
          obtain ⟨d', hd'⟩ : ∃ d', d' = (if mx ≤ (s.compiled c).length then (s.compiled c).dropLast else s.compiled c) := ⟨_, rfl⟩
          have hd'' : (if mx ≤ (s.compiled c).length then ((s.compiled c).map fun p => (p.1, derefComp s.heap p.2)).dropLast
              else (s.compiled c).map fun p => (p.1, derefComp s.heap p.2)) = d'.map fun p => (p.1, derefComp s.heap p.2) := by
            rw [hd']
            by_cases hm : mx ≤ (s.compiled c).length
            · simp only [hm, if_true, List.map_dropLast]
            · simp only [hm, if_false]
          rw [hd'', ← hd']
          have hsub : ∀ p ∈ d', p ∈ s.compiled c := by
            intro p hp
            rw [hd'] at hp
            by_cases hm : mx ≤ (s.compiled c).length
            · simp only [hm, if_true] at hp; exact (List.dropLast_sublist _).subset hp
            · simp only [hm, if_false] at hp; exact hp
          have hdm : (d'.map fun p => (p.1, derefComp s1.heap p.2)) = d'.map fun p => (p.1, derefComp s.heap p.2) := by
            apply List.map_congr_left
            intro p hp
            rw [(keeps_root (hs.closed p.2 (Or.inr (Or.inl ⟨c, p, hsub p hp, rfl⟩))) k1).2.1]
          refine ⟨?_, ⟨?_, ?_, ?_⟩, k1, d1.2.2, d1.1, ?_⟩
          · refine Sep.of hs1' rfl rfl ?_ hs1'.keyOfRoot hs1'.msgRoot
            intro r hr
            rcases hr with h1 | ⟨c', p, hp, e⟩ | h3
            · exact Or.inl (Or.inl h1)
            · simp only [lookup_upd] at hp
              by_cases hc : c' = c
              · subst hc
                simp only [if_true, List.mem_append, List.mem_singleton] at hp
                rcases hp with hp | rfl
                · exact Or.inl (Or.inr (Or.inl ⟨c', p, d1.2.1 ▸ hsub p hp, e⟩))
                · right; intro y hy; exact fc y (by have e' : s.next = r := e; rw [e']; exact hy)
              · simp only [hc, if_false] at hp
                exact Or.inl (Or.inr (Or.inl ⟨c', p, d1.2.1 ▸ hp, e⟩))
            · exact Or.inl (Or.inr (Or.inr h3))
          · show v.tables = (abs s1).tables
            rw [ea]; exact hv.tables
          · intro c'
            simp only [lookup_upd, abs_compiled]
            by_cases hc : c' = c
            · subst hc
              simp only [if_true, List.map_append, List.map_cons, List.map_nil, dc, hdm]
            · simp only [hc, if_false]
              have := congrFun (congrArg State.compiled ea) c'
              rw [abs_compiled, abs_compiled, d1.2.1] at this
              rw [this]; exact hv.compiled c'
          · intro key
            show v.objs.lookup key = (abs s1).objs.lookup key
            rw [ea]; exact hv.objs key
          · simp only [Option.map_some, dc]
        · simp only [hpos, if_false]
          refine ⟨hs1', ⟨?_, ?_, ?_⟩, k1, d1.2.2, d1.1, ?_⟩
          · show v.tables = (abs s1).tables
            rw [ea]; exact hv.tables
          · intro c'
            simp only [lookup_upd]
            by_cases hc : c' = c
            · subst hc; simp only [if_true]; rw [ea]; rw [abs_compiled]
            · simp only [hc, if_false]; rw [ea]; exact hv.compiled c'
          · intro key
            show v.objs.lookup key = (abs s1).objs.lookup key
            rw [ea]; exact hv.objs key
          · simp only [Option.map_some, dc]

/-- a decode / encode up to wiring: the new message object reads as the value model's result, is
    new, and everything it reaches has been allocated -/
theorem hFetch_spec (s : HState κ ι π ν) (v : State κ GroupV CompV ι (MsgV π) ν) (c : Nat) (dir : Dir) (m : ι)
    (hs : Sep s) (hv : Sim s v) :
    Sep (hFetch H s c dir m).1 ∧ Sim (hFetch H s c dir m).1 (fetch H.toParams v c dir m).1 ∧
    Keeps s (hFetch H s c dir m).1 ∧ (hFetch H s c dir m).1.objs = s.objs ∧
    (match (hFetch H s c dir m).2 with
     | .error e => (fetch H.toParams v c dir m).2 = .error e
     | .ok o => (fetch H.toParams v c dir m).2 = .ok (derefMsg (hFetch H s c dir m).1.heap o).data ∧
         (derefMsg (hFetch H s c dir m).1.heap o).nodes = [] ∧
         (derefMsg (hFetch H s c dir m).1.heap o).isWired = false ∧
         (∀ y : Nat, y ∈ footOf (hFetch H s c dir m).1.heap o → y < (hFetch H s c dir m).1.next) ∧
         s.next ≤ o ∧ IsMsg (hFetch H s c dir m).1.heap o) := by
  unfold hFetch fetch
  have hh : H.toParams.header dir m = H.header dir m := rfl
  rw [hh]
  cases hhd : H.header dir m with
  | error e => exact ⟨hs, hv, Keeps.refl s, rfl, rfl⟩
  | ok kid =>
    obtain ⟨k, ids⟩ := kid
    simp only
    obtain ⟨sep1, sim1, keep1, objs1, comp1, res1⟩ := hStageTables_spec H s v k hs hv
    obtain ⟨r1, hr1⟩ : ∃ r, r = hStageTables H s k := ⟨_, rfl⟩
    obtain ⟨w1, hw1⟩ : ∃ r, r = stageTables H.toParams v k := ⟨_, rfl⟩
    rw [← hr1] at sep1 sim1 keep1 objs1 comp1 res1 ⊢
    rw [← hw1] at sim1 res1 ⊢
    cases hr12 : r1.2 with
    | error e =>
      rw [hr12] at res1
      simp only at res1
      rw [res1]
      exact ⟨sep1, sim1, keep1, objs1, (by first | rfl | trivial)⟩
    | ok g =>
      rw [hr12] at res1
      simp only at res1
      obtain ⟨res1, groot⟩ := res1
      rw [res1]
      simp only
      have hb : H.toParams.build (derefGroup r1.1.heap g) ids =
          (H.buildIds (derefGroup r1.1.heap g) ids).map fun l => l.map (lookupD (derefGroup r1.1.heap g).b) := rfl
      rw [hb]
      cases hbi : H.buildIds (derefGroup r1.1.heap g) ids with
      | error e =>
        simp only [Except.map]
        exact ⟨sep1, sim1, keep1, objs1, (by first | rfl | trivial)⟩
      | ok tids =>
        simp only [Except.map]
        -- the Table C memo
        obtain ⟨mv, mn, mt, mc, mo⟩ := hMemoC_spec r1.1 g ids
        obtain ⟨s1, hs1⟩ : ∃ z, z = hMemoC r1.1 g ids := ⟨_, rfl⟩
        rw [← hs1] at mv mn mt mc mo ⊢
        have km : Keeps r1.1 s1 := keeps_of_view mv mn
        have sepm : Sep s1 := sep_keeps sep1 km mt mc mo
        have simm : Sim s1 w1.1 := sim_of_abs sim1 (abs_keeps sep1 km mt mc mo)
        have gm : derefGroup s1.heap g = derefGroup r1.1.heap g := derefGroup_of_view mv g
        have grootm : ∃ p ∈ s1.tables, p.2 = g := by rw [mt]; exact groot
        obtain ⟨sep2, sim2, keep2, objs2, tabs2, res2⟩ :=
          hStageCompiled_spec H s1 w1.1 c g (tids.map (lookupD (derefGroup r1.1.heap g).b)) ids k sepm simm grootm
        rw [gm] at sim2 res2
        obtain ⟨r2, hr2⟩ : ∃ r, r = hStageCompiled H s1 c g (tids.map (lookupD (derefGroup r1.1.heap g).b)) ids k := ⟨_, rfl⟩
        obtain ⟨w2, hw2⟩ : ∃ r, r = stageCompiled H.toParams w1.1 c (derefGroup r1.1.heap g)
            (tids.map (lookupD (derefGroup r1.1.heap g).b)) ids k := ⟨_, rfl⟩
        rw [← hr2] at sep2 sim2 keep2 objs2 tabs2 res2 ⊢
        rw [← hw2] at sim2 res2 ⊢
        have k02 : Keeps s r2.1 := (keep1.trans km).trans keep2
        have o02 : r2.1.objs = s.objs := by rw [objs2, mo, objs1]
        cases hr22 : r2.2 with
        | error e =>
          rw [hr22] at res2
          simp only at res2
          rw [res2]
          exact ⟨sep2, sim2, k02, o02, (by first | rfl | trivial)⟩
        | ok oc =>
          rw [hr22] at res2
          simp only at res2
          rw [res2]
          simp only
          have hp : H.toParams.process dir (derefGroup r1.1.heap g) (tids.map (lookupD (derefGroup r1.1.heap g).b))
                (oc.map (derefComp r2.1.heap)) m =
              (H.decode dir (derefGroup r1.1.heap g) (tids.map (lookupD (derefGroup r1.1.heap g).b))
                (oc.map (derefComp r2.1.heap)) m).map fun x =>
                { compressed := x.1, templ := tids.map (lookupD (derefGroup r1.1.heap g).b),
                  subsets := subsetsOf (derefGroup r1.1.heap g) x.1 x.2.1 x.2.2.1, payload := x.2.2.2 } := rfl
          rw [hp]
          cases hdc : H.decode dir (derefGroup r1.1.heap g) (tids.map (lookupD (derefGroup r1.1.heap g).b))
              (oc.map (derefComp r2.1.heap)) m with
          | error e =>
            simp only [Except.map]
            exact ⟨sep2, sim2, k02, o02, (by first | rfl | trivial)⟩
          | ok x =>
            simp only [Except.map]
            have groot2 : ∃ p ∈ r2.1.tables, p.2 = g := by rw [tabs2]; exact grootm
            obtain ⟨pg, hpg, epg⟩ := groot2
            have hbr : ∀ y : Nat, y ∈ (groupB r2.1.heap g).map (·.2) → y < r2.1.next := by
              intro y hy
              obtain ⟨q, hq, rfl⟩ := List.mem_map.1 hy
              exact sep2.closed g (Or.inl ⟨pg, hpg, epg⟩) q.2 (foot_b hq)
            have g2 : derefGroup r2.1.heap g = derefGroup r1.1.heap g := by
              rw [← gm]
              exact (keeps_root (sepm.closed g (Or.inl grootm)) keep2).1
            obtain ⟨ka, ta, ca, oa, da, fa, na, ma⟩ := hAllocMsg_spec r2.1 g tids x hbr
            obtain ⟨a, ha⟩ : ∃ a, a = hAllocMsg r2.1 g tids x := ⟨_, rfl⟩
            rw [← ha] at ka ta ca oa da fa na ma ⊢
            rw [g2] at da
            refine ⟨sep_keeps sep2 ka ta ca oa, sim_of_abs sim2 (abs_keeps sep2 ka ta ca oa), k02.trans ka,
              by rw [oa, o02], ?_, ?_, ?_, fa, Nat.le_trans k02.1 na, ma⟩
            · rw [da]
            · rw [da]
            · rw [da]

theorem lookup_of_view_msg {h : Heap π ν} {r : Ref} {c : Bool} {dl ld : List Ref} {t : Ref} {p : π} {ns : List ν} {w : Bool}
    (e : view h r = some (.msg c dl ld t p ns w)) : h.lookup r = some (.msg c dl ld t p ns w) := by
  unfold view at e
  split at e
  · cases e
  · exact e

/-- replacing a message object by a message object with the same references: what `wire()` does -/
theorem msg_write_frame {h : Heap π ν} {o : Ref} {c : Bool} {dl ld : List Ref} {t : Ref} {p : π} {ns ns' : List ν} {w w' : Bool}
    (e : view h o = some (.msg c dl ld t p ns w)) :
    (∀ x, look ((o, HObj.msg c dl ld t p ns' w') :: h) x = look h x) ∧
    (∀ x, x ≠ o → view ((o, HObj.msg c dl ld t p ns' w') :: h) x = view h x) ∧
    view ((o, HObj.msg c dl ld t p ns' w') :: h) o = some (.msg c dl ld t p ns' w') ∧
    (∀ r, footOf ((o, HObj.msg c dl ld t p ns' w') :: h) r = footOf h r) := by
  have hv : ∀ x, x ≠ o → view ((o, HObj.msg c dl ld t p ns' w') :: h) x = view h x := fun x hx => view_write_ne h o x _ hx
  have ho : view ((o, HObj.msg c dl ld t p ns' w') :: h) o = some (.msg c dl ld t p ns' w') := by simp [view]
  have hl : ∀ x, look ((o, HObj.msg c dl ld t p ns' w') :: h) x = look h x := by
    intro x
    by_cases hx : x = o
    · subst hx; unfold look; rw [ho, e]
    · exact look_of_view (hv x hx)
  refine ⟨hl, hv, ho, ?_⟩
  intro r
  by_cases hr : r = o
  · subst hr
    unfold footOf
    rw [getItems_congr (hl r), groupB_congr (hl r), groupD_congr (hl r)]
    have : msgInner ((r, HObj.msg c dl ld t p ns' w') :: h) r = msgInner h r := by
      unfold msgInner
      rw [ho, e]
      simp only
      rw [flatMap_congr' (fun l _ => by rw [getItems_congr (hl l)])]
    rw [this, flatMap_congr' (fun l _ => by rw [getItems_congr (hl l)])]
  · exact footOf_congr (hv r hr) (fun x _ => hl x)

/-- `wire()` on a message object: the object changes as `Obj.wire` says, nothing else does -/
theorem hWire_frame (s : HState κ ι π ν) (o : Ref) (ho : IsMsg s.heap o) :
    (hWire H s o).1.next = s.next ∧ (hWire H s o).1.tables = s.tables ∧ (hWire H s o).1.compiled = s.compiled ∧
    (hWire H s o).1.objs = s.objs ∧
    (∀ x, look (hWire H s o).1.heap x = look s.heap x) ∧
    (∀ x, x ≠ o → view (hWire H s o).1.heap x = view s.heap x) ∧
    (∀ r, footOf (hWire H s o).1.heap r = footOf s.heap r) ∧
    (hWire H s o).2 = ((derefMsg s.heap o).wire H.wireFn).2 ∧
    derefMsg (hWire H s o).1.heap o = ((derefMsg s.heap o).wire H.wireFn).1 ∧
    IsMsg (hWire H s o).1.heap o := by
  obtain ⟨c, dl, ld, t, p, ns, w, e⟩ := ho
  have el := lookup_of_view_msg e
  have hdn : (derefMsg s.heap o).nodes = ns := by unfold derefMsg; rw [e]
  have hdw : (derefMsg s.heap o).isWired = w := by unfold derefMsg; rw [e]
  -- reading the rewritten object
  have rd : ∀ (ns' : List ν) (w' : Bool),
      derefMsg ((o, HObj.msg c dl ld t p ns' w') :: s.heap) o = { data := (derefMsg s.heap o).data, nodes := ns', isWired := w' } := by
    intro ns' w'
    obtain ⟨hl, _, hv, _⟩ := msg_write_frame (ns' := ns') (w' := w') e
    have hg1 : getList ((o, HObj.msg c dl ld t p ns' w') :: s.heap) t = getList s.heap t :=
      getList_congr (hl t) (fun x _ => hl x)
    have hg2 : ((dl.zip ld).map fun x => (getList ((o, HObj.msg c dl ld t p ns' w') :: s.heap) x.1,
          getLinks ((o, HObj.msg c dl ld t p ns' w') :: s.heap) x.2)) =
        (dl.zip ld).map fun x => (getList s.heap x.1, getLinks s.heap x.2) := by
      apply List.map_congr_left
      intro x _
      rw [getList_congr (hl x.1) (fun y _ => hl y), getLinks_congr (hl x.2)]
    unfold derefMsg
    rw [hv, e]
    simp only [hg1, hg2]
  unfold hWire
  rw [el]
  simp only
  cases w with
  | true =>
    simp only [if_true]
    refine ⟨trivial, trivial, trivial, trivial, fun _ => trivial, fun _ _ => trivial, fun _ => trivial, ?_, ?_, ⟨c, dl, ld, t, p, ns, true, e⟩⟩
    · simp [Obj.wire, hdw]
    · simp [Obj.wire, hdw]
  | false =>
    simp only [Bool.false_eq_true, if_false]
    cases hw : H.wireFn (derefMsg s.heap o).data with
    | ok ns' =>
      obtain ⟨hl, hv, hvo, hf⟩ := msg_write_frame (ns' := ns ++ ns') (w' := true) e
      refine ⟨rfl, rfl, rfl, rfl, hl, hv, hf, ?_, ?_, ⟨c, dl, ld, t, p, ns ++ ns', true, hvo⟩⟩
      · simp [Obj.wire, hdw, hw]
      · show derefMsg ((o, _) :: s.heap) o = _
        rw [rd]
        simp [Obj.wire, hdw, hdn, hw]
    | error er =>
      obtain ⟨hl, hv, hvo, hf⟩ := msg_write_frame (ns' := ([] : List ν)) (w' := false) e
      refine ⟨rfl, rfl, rfl, rfl, hl, hv, hf, ?_, ?_, ⟨c, dl, ld, t, p, [], false, hvo⟩⟩
      · simp [Obj.wire, hdw, hw]
      · show derefMsg ((o, _) :: s.heap) o = _
        rw [rd]
        simp [Obj.wire, hdw, hw]

/-- what `wire()` on `o` leaves: the invariant, the caches and every other kept object as they were -/
theorem hWire_sep_sim (s : HState κ ι π ν) (v : State κ GroupV CompV ι (MsgV π) ν) (o : Ref)
    (hs : Sep s) (hv : Sim s v) (ho : IsMsg s.heap o) :
    Sep (hWire H s o).1 ∧ (abs (hWire H s o).1).tables = (abs s).tables ∧
    (abs (hWire H s o).1).compiled = (abs s).compiled ∧
    (∀ r, r ≠ o → derefMsg (hWire H s o).1.heap r = derefMsg s.heap r) := by
  obtain ⟨hn, ht, hc, hob, hl, hvw, hf, _, _, hm⟩ := hWire_frame H s o ho
  refine ⟨⟨?_, ?_, ?_⟩, ?_, ?_, ?_⟩
  · intro r hr x hx
    rw [hf r] at hx
    rw [hn]
    refine hs.closed r ?_ x hx
    unfold IsRoot at hr ⊢
    rw [ht, hc, hob] at hr
    exact hr
  · rw [hob]; exact hs.keyOfRoot
  · rw [hob]
    intro p hp
    by_cases h : p.2 = o
    · rw [h]; exact hm
    · obtain ⟨c, dl, ld, t, pl, ns, w, e⟩ := hs.msgRoot p hp
      exact ⟨c, dl, ld, t, pl, ns, w, (hvw p.2 h).trans e⟩
  · rw [abs_tables, abs_tables, ht]
    apply List.map_congr_left
    intro p _
    rw [derefGroup_congr (fun x _ => hl x)]
  · funext c
    rw [abs_compiled, abs_compiled, hc]
    apply List.map_congr_left
    intro p _
    rw [derefComp_congr (fun x _ => hl x)]
  · intro r hr
    exact derefMsg_congr (hvw r hr) (fun x _ => hl x)

theorem abs_objs_lookup (s : HState κ ι π ν) (key : ObjKey ι) :
    (abs s).objs.lookup key = (s.objs.lookup key).map (derefMsg s.heap) := by
  rw [abs_objs, lookup_mapV]

/-- keeping a message object under a key -/
theorem keep_spec (s : HState κ ι π ν) (v : State κ GroupV CompV ι (MsgV π) ν) (key : ObjKey ι) (o : Ref)
    (ov : Cache.Obj (MsgV π) ν) (hs : Sep s)
    (ht : v.tables = (abs s).tables) (hc : ∀ c, v.compiled c = (abs s).compiled c)
    (hobj : ∀ key', (key' == key) = false → v.objs.lookup key' = (abs s).objs.lookup key')
    (ho : IsMsg s.heap o) (hfo : ∀ y : Nat, y ∈ footOf s.heap o → y < s.next)
    (hko : ∀ q ∈ s.objs, q.2 = o → q.1 = key) (hov : derefMsg s.heap o = ov) :
    Sep (hKeep s key o) ∧ Sim (hKeep s key o) (keep v key ov) := by
  refine ⟨?_, ⟨ht, hc, ?_⟩⟩
  · refine Sep.of hs rfl rfl ?_ ?_ ?_
    · intro r hr
      rcases hr with h1 | h2 | ⟨p, hp, e⟩
      · exact Or.inl (Or.inl h1)
      · exact Or.inl (Or.inr (Or.inl h2))
      · simp only [hKeep, List.mem_cons] at hp
        rcases hp with rfl | hp
        · right; intro y hy; exact hfo y (by have e' : o = r := e; rw [e']; exact hy)
        · exact Or.inl (Or.inr (Or.inr ⟨p, hp, e⟩))
    · intro p hp q hq e
      simp only [hKeep, List.mem_cons] at hp hq
      rcases hp with rfl | hp <;> rcases hq with rfl | hq
      · rfl
      · exact (hko q hq e.symm).symm
      · exact hko p hp e
      · exact hs.keyOfRoot p hp q hq e
    · intro p hp
      simp only [hKeep, List.mem_cons] at hp
      rcases hp with rfl | hp
      · exact ho
      · exact hs.msgRoot p hp
  · intro key'
    show ((key, ov) :: v.objs).lookup key' = ((key, derefMsg s.heap o) :: (abs s).objs).lookup key'
    rw [List.lookup_cons, List.lookup_cons]
    cases hk : key' == key with
    | true => rw [hov]
    | false => exact hobj key' hk

theorem obj_eta (x : Cache.Obj (MsgV π) ν) : ({ data := x.data, nodes := x.nodes, isWired := x.isWired } : Cache.Obj (MsgV π) ν) = x := by
  cases x; rfl

/-- the object held for a key, or a new one -/
theorem hObtain_spec (s : HState κ ι π ν) (v : State κ GroupV CompV ι (MsgV π) ν) (c : Nat) (dir : Dir) (m : ι)
    (hs : Sep s) (hv : Sim s v) :
    Sep (hObtain H s c dir m).1 ∧ Sim (hObtain H s c dir m).1 (obtain H.toParams v c dir m).1 ∧
    (match (hObtain H s c dir m).2 with
     | .error e => (obtain H.toParams v c dir m).2 = .error e
     | .ok o => (obtain H.toParams v c dir m).2 = .ok (derefMsg (hObtain H s c dir m).1.heap o) ∧
         IsMsg (hObtain H s c dir m).1.heap o ∧
         (∀ y : Nat, y ∈ footOf (hObtain H s c dir m).1.heap o → y < (hObtain H s c dir m).1.next) ∧
         (∀ q ∈ (hObtain H s c dir m).1.objs, q.2 = o → q.1 = (c, dir, m))) := by
  unfold hObtain obtain
  have hl := hv.objs (c, dir, m)
  rw [abs_objs_lookup] at hl
  rw [hl]
  cases hlk : s.objs.lookup (c, dir, m) with
  | some r =>
    simp only [Option.map_some]
    have hmem := lookup_mem' hlk
    refine ⟨hs, hv, trivial, hs.msgRoot _ hmem, hs.closed r (Or.inr (Or.inr ⟨_, hmem, rfl⟩)), ?_⟩
    intro q hq e
    exact hs.keyOfRoot q hq _ hmem e
  | none =>
    simp only [Option.map_none]
    obtain ⟨sep1, sim1, keep1, objs1, res1⟩ := hFetch_spec H s v c dir m hs hv
    refine ⟨sep1, sim1, ?_⟩
    cases hr : (hFetch H s c dir m).2 with
    | error e =>
      rw [hr] at res1
      simp only at res1 ⊢
      rw [res1]; rfl
    | ok o =>
      rw [hr] at res1
      simp only at res1 ⊢
      obtain ⟨r1, r2, r3, r4, r5, r6⟩ := res1
      refine ⟨?_, r6, r4, ?_⟩
      · rw [r1]
        simp only [Except.map]
        congr 1
        rw [← r2, ← r3]
      · intro q hq e
        rw [objs1] at hq
        have h1 : q.2 < s.next := hs.closed q.2 (Or.inr (Or.inr ⟨q, hq, rfl⟩)) q.2 foot_self
        have h2 : s.next ≤ q.2 := e ▸ r5
        exact absurd h1 (Nat.not_lt.2 h2)

/-- every kept object other than `o` reads the same after `wire()` on `o` -/
theorem hWire_objs (s : HState κ ι π ν) (v : State κ GroupV CompV ι (MsgV π) ν) (o : Ref) (hs : Sep s) (hv : Sim s v)
    (ho : IsMsg s.heap o) (key' : ObjKey ι) (hne : ∀ r, s.objs.lookup key' = some r → r ≠ o) :
    v.objs.lookup key' = (abs (hWire H s o).1).objs.lookup key' := by
  obtain ⟨_, _, _, hd⟩ := hWire_sep_sim H s v o hs hv ho
  obtain ⟨_, _, _, hob, _⟩ := hWire_frame H s o ho
  rw [hv.objs key', abs_objs_lookup, abs_objs_lookup, hob]
  cases hl : s.objs.lookup key' with
  | none => rfl
  | some r => simp only [Option.map_some]; rw [hd r (hne r hl)]

theorem wire_keep_spec (s : HState κ ι π ν) (v : State κ GroupV CompV ι (MsgV π) ν) (key : ObjKey ι) (o : Ref)
    (hs : Sep s) (hv : Sim s v) (ho : IsMsg s.heap o) (hfo : ∀ y : Nat, y ∈ footOf s.heap o → y < s.next)
    (hko : ∀ q ∈ s.objs, q.2 = o → q.1 = key) :
    Sep (hKeep (hWire H s o).1 key o) ∧
    Sim (hKeep (hWire H s o).1 key o) (keep v key ((derefMsg s.heap o).wire H.wireFn).1) := by
  obtain ⟨sep', et, ec, hd⟩ := hWire_sep_sim H s v o hs hv ho
  obtain ⟨hn, _, _, hob, _, _, hf, _, hdo, hm⟩ := hWire_frame H s o ho
  refine keep_spec (hWire H s o).1 v key o _ sep' (hv.tables.trans et.symm)
    (fun c => (hv.compiled c).trans (congrFun ec c).symm) ?_ hm ?_ ?_ hdo
  · intro key' hk
    refine hWire_objs H s v o hs hv ho key' ?_
    intro r hl e
    have this : key' = key := hko (key', r) (lookup_mem' hl) e
    rw [this] at hk
    exact Bool.noConfusion ((BEq.rfl (a := key)).symm.trans hk)
  · intro y hy
    rw [hf o] at hy
    rw [hn]; exact hfo y hy
  · rw [hob]; exact hko

/-- MAIN LEMMA: one operation of the code as it is (no extra writes) on the heap = the same operation
    of the value model, and the ownership invariant is kept -/
theorem hCore_spec (s : HState κ ι π ν) (v : State κ GroupV CompV ι (MsgV π) ν) (op : Op ι φ)
    (hs : Sep s) (hv : Sim s v) :
    Sep (hCore H s op).1 ∧ Sim (hCore H s op).1 (step H.toParams v op).1 ∧
    (hCore H s op).2 = (step H.toParams v op).2 := by
  cases op with
  | invalidate =>
    refine ⟨?_, ⟨rfl, hv.compiled, hv.objs⟩, rfl⟩
    refine Sep.of hs rfl rfl ?_ hs.keyOfRoot hs.msgRoot
    intro r hr
    rcases hr with ⟨p, hp, _⟩ | h2
    · exact absurd hp (List.not_mem_nil)
    · exact Or.inl (Or.inr h2)
  | proc c dir m w =>
    obtain ⟨sep1, sim1, keep1, objs1, res1⟩ := hFetch_spec H s v c dir m hs hv
    unfold hCore step
    simp only [show H.toParams.wireFn = H.wireFn from rfl, show H.toParams.view = H.view from rfl]
    cases hr : (hFetch H s c dir m).2 with
    | error e =>
      rw [hr] at res1
      simp only at res1
      rw [res1]
      exact ⟨sep1, sim1, rfl⟩
    | ok o =>
      rw [hr] at res1
      simp only at res1
      obtain ⟨r1, r2, r3, r4, r5, r6⟩ := res1
      rw [r1]
      simp only
      have hko : ∀ q ∈ (hFetch H s c dir m).1.objs, q.2 = o → q.1 = (c, dir, m) := by
        intro q hq e
        rw [objs1] at hq
        have h1 : q.2 < s.next := hs.closed q.2 (Or.inr (Or.inr ⟨q, hq, rfl⟩)) q.2 foot_self
        have h2 : s.next ≤ q.2 := e ▸ r5
        exact absurd h1 (Nat.not_lt.2 h2)
      have hobj : ({ data := (derefMsg (hFetch H s c dir m).1.heap o).data, nodes := [], isWired := false } : Cache.Obj (MsgV π) ν) =
          derefMsg (hFetch H s c dir m).1.heap o := by
        rw [← r2, ← r3]
      rw [hobj]
      cases w with
      | false =>
        simp only [Bool.false_eq_true, if_false]
        obtain ⟨a, b⟩ := keep_spec (hFetch H s c dir m).1 _ (c, dir, m) o _ sep1 sim1.tables sim1.compiled
          (fun key' _ => sim1.objs key') r6 r4 hko rfl
        exact ⟨a, b, (by first | rfl | trivial)⟩
      | true =>
        simp only [if_true]
        obtain ⟨_, _, _, hob, _, _, _, hw2, _, _⟩ := hWire_frame H (hFetch H s c dir m).1 o r6
        rw [hw2]
        cases hwr : ((derefMsg (hFetch H s c dir m).1.heap o).wire H.wireFn).2 with
        | error e =>
          simp only
          obtain ⟨sep', et, ec, _⟩ := hWire_sep_sim H (hFetch H s c dir m).1 _ o sep1 sim1 r6
          refine ⟨sep', ⟨sim1.tables.trans et.symm, fun c' => (sim1.compiled c').trans (congrFun ec c').symm, ?_⟩, (by first | rfl | trivial)⟩
          intro key'
          refine hWire_objs H _ _ o sep1 sim1 r6 key' ?_
          intro r hl e'
          have := hko (key', r) (lookup_mem' hl) e'
          have h1 : r < s.next := hs.closed r (Or.inr (Or.inr ⟨(key', r), objs1 ▸ lookup_mem' hl, rfl⟩)) r foot_self
          have h2 : s.next ≤ r := e' ▸ r5
          exact absurd h1 (Nat.not_lt.2 h2)
        | ok u =>
          simp only
          obtain ⟨a, b⟩ := wire_keep_spec H (hFetch H s c dir m).1 _ (c, dir, m) o sep1 sim1 r6 r4 hko
          exact ⟨a, b, (by first | rfl | trivial)⟩
  | wire c dir m =>
    obtain ⟨sep1, sim1, res1⟩ := hObtain_spec H s v c dir m hs hv
    unfold hCore step
    simp only [show H.toParams.wireFn = H.wireFn from rfl, show H.toParams.view = H.view from rfl]
    cases hr : (hObtain H s c dir m).2 with
    | error e =>
      rw [hr] at res1
      simp only at res1
      rw [res1]
      exact ⟨sep1, sim1, rfl⟩
    | ok o =>
      rw [hr] at res1
      simp only at res1
      obtain ⟨r1, r2, r3, r4⟩ := res1
      rw [r1]
      simp only
      obtain ⟨a, b⟩ := wire_keep_spec H (hObtain H s c dir m).1 _ (c, dir, m) o sep1 sim1 r2 r3 r4
      obtain ⟨_, _, _, _, _, _, _, hw2, _, _⟩ := hWire_frame H (hObtain H s c dir m).1 o r2
      refine ⟨a, b, ?_⟩
      rw [hw2]
      cases (Obj.wire H.wireFn (derefMsg (hObtain H s c dir m).1.heap o)).2 <;> rfl
  | view c dir m q =>
    obtain ⟨sep1, sim1, res1⟩ := hObtain_spec H s v c dir m hs hv
    unfold hCore step
    simp only [show H.toParams.wireFn = H.wireFn from rfl, show H.toParams.view = H.view from rfl]
    cases hr : (hObtain H s c dir m).2 with
    | error e =>
      rw [hr] at res1
      simp only at res1
      rw [res1]
      exact ⟨sep1, sim1, rfl⟩
    | ok o =>
      rw [hr] at res1
      simp only at res1
      obtain ⟨r1, r2, r3, r4⟩ := res1
      rw [r1]
      simp only
      obtain ⟨a, b⟩ := wire_keep_spec H (hObtain H s c dir m).1 _ (c, dir, m) o sep1 sim1 r2 r3 r4
      obtain ⟨_, _, _, _, _, _, _, hw2, hw3, _⟩ := hWire_frame H (hObtain H s c dir m).1 o r2
      refine ⟨a, b, ?_⟩
      rw [hw2, hw3]
      rfl

/-! ### extra writes -/

/-- THE WRITE DISCIPLINE: whatever an operation writes beyond what the code as modelled writes, it
    never writes to a cell reachable from a cache or from a kept message. -/
def Disciplined (W : Writes κ ι π ν φ) : Prop :=
  ∀ (op : Op ι φ) (s : HState κ ι π ν), Sep s → ∀ w ∈ W op s, ¬ Protected s w.1

theorem write_frame (s : HState κ ι π ν) (r0 : Ref) (o : HObj π ν) (hs : Sep s) (hn : ¬ Protected s r0) :
    Sep (write s r0 o) ∧ abs (write s r0 o) = abs s ∧ (∀ x, Protected (write s r0 o) x → Protected s x) := by
  have fr : ∀ r, IsRoot s r → view ((r0, o) :: s.heap) r = view s.heap r ∧ LookEq s.heap ((r0, o) :: s.heap) (footOf s.heap r) := by
    intro r hr
    refine ⟨view_write_ne _ _ _ _ ?_, ?_⟩
    · intro e; exact hn ⟨r, hr, e ▸ foot_self⟩
    · intro x hx
      refine look_of_view (view_write_ne _ _ _ _ ?_)
      intro e; exact hn ⟨r, hr, e ▸ hx⟩
  have f4 := fun r hr => frame4 (fr r hr).1 (fr r hr).2
  refine ⟨⟨?_, hs.keyOfRoot, ?_⟩, ?_, ?_⟩
  · intro r hr x hx
    have hr' : IsRoot s r := hr
    have e : footOf (write s r0 o).heap r = footOf s.heap r := (f4 r hr').2.2.2
    rw [e] at hx
    exact hs.closed r hr' x hx
  · intro p hp
    obtain ⟨c, dl, ld, t, pl, ns, w, e⟩ := hs.msgRoot p hp
    exact ⟨c, dl, ld, t, pl, ns, w, ((fr p.2 (Or.inr (Or.inr ⟨p, hp, rfl⟩))).1).trans e⟩
  · unfold abs
    show State.mk _ _ _ = State.mk _ _ _
    congr 1
    · apply List.map_congr_left
      intro p hp
      rw [show (write s r0 o).heap = (r0, o) :: s.heap from rfl, (f4 p.2 (Or.inl ⟨p, hp, rfl⟩)).1]
    · funext c
      apply List.map_congr_left
      intro p hp
      rw [show (write s r0 o).heap = (r0, o) :: s.heap from rfl, (f4 p.2 (Or.inr (Or.inl ⟨c, p, hp, rfl⟩))).2.1]
    · apply List.map_congr_left
      intro p hp
      rw [show (write s r0 o).heap = (r0, o) :: s.heap from rfl, (f4 p.2 (Or.inr (Or.inr ⟨p, hp, rfl⟩))).2.2.1]
  · intro x hx
    obtain ⟨r, hr, hxr⟩ := hx
    have hr' : IsRoot s r := hr
    have e : footOf (write s r0 o).heap r = footOf s.heap r := (f4 r hr').2.2.2
    rw [e] at hxr
    exact ⟨r, hr', hxr⟩

theorem applyWrites_frame (ws : List (Ref × HObj π ν)) :
    ∀ (s : HState κ ι π ν), Sep s → (∀ w ∈ ws, ¬ Protected s w.1) →
    Sep (applyWrites s ws) ∧ abs (applyWrites s ws) = abs s := by
  induction ws with
  | nil => intro s hs _; exact ⟨hs, rfl⟩
  | cons w ws ih =>
    intro s hs hn
    obtain ⟨a, b, c⟩ := write_frame s w.1 w.2 hs (hn w (by simp))
    obtain ⟨a', b'⟩ := ih (write s w.1 w.2) a (fun w' hw' hp => hn w' (by simp [hw']) (c _ hp))
    exact ⟨a', b'.trans b⟩

theorem hStep_spec (W : Writes κ ι π ν φ) (hW : Disciplined W) (s : HState κ ι π ν)
    (v : State κ GroupV CompV ι (MsgV π) ν) (op : Op ι φ) (hs : Sep s) (hv : Sim s v) :
    Sep (hStep H W s op).1 ∧ Sim (hStep H W s op).1 (step H.toParams v op).1 ∧
    (hStep H W s op).2 = (step H.toParams v op).2 := by
  obtain ⟨a, b, c⟩ := hCore_spec H s v op hs hv
  obtain ⟨a', b'⟩ := applyWrites_frame (W op (hCore H s op).1) (hCore H s op).1 a (hW op _ a)
  exact ⟨a', sim_of_abs b b', c⟩

theorem hRun_spec (W : Writes κ ι π ν φ) (hW : Disciplined W) (ops : List (Op ι φ)) :
    ∀ (s : HState κ ι π ν) (v : State κ GroupV CompV ι (MsgV π) ν), Sep s → Sim s v →
    Sep (hRun H W s ops).1 ∧ Sim (hRun H W s ops).1 (run H.toParams v ops).1 ∧
    (hRun H W s ops).2 = (run H.toParams v ops).2 := by
  induction ops with
  | nil => intro s v hs hv; exact ⟨hs, hv, rfl⟩
  | cons op ops ih =>
    intro s v hs hv
    obtain ⟨a, b, c⟩ := hStep_spec H W hW s v op hs hv
    obtain ⟨a', b', c'⟩ := ih _ _ a b
    refine ⟨a', b', ?_⟩
    show (hStep H W s op).2 :: _ = (step H.toParams v op).2 :: _
    rw [c, c']

end Proc

section CoderState
variable {π ν : Type}

theorem cRun_all (x : CState × Heap π ν) (acts : List CAct) :
    (cRun x acts).1.descAll = x.1.descAll ∧ (cRun x acts).1.linkAll = x.1.linkAll := by
  induction acts generalizing x with
  | nil => exact ⟨rfl, rfl⟩
  | cons a as ih =>
    obtain ⟨h1, h2⟩ := ih (cStep x a)
    cases a <;> exact ⟨h1, h2⟩

theorem lst_write_frame {h : Heap π ν} {x : Ref} {is0 is' : List Item} (hx : h.lookup x = some (.lst is0)) :
    (∀ r, r ≠ x → getList ((x, HObj.lst is') :: h) r = getList h r) ∧
    (∀ r, r ≠ x → getLinks ((x, HObj.lst is') :: h) r = getLinks h r) := by
  have hl : ∀ y, y ≠ x → look ((x, HObj.lst is') :: h) y = look h y := fun y hy => look_of_view (view_write_ne h x y _ hy)
  have hd : ∀ y, getDesc ((x, HObj.lst is') :: h) y = getDesc h y := by
    intro y
    by_cases hy : y = x
    · subst hy
      unfold getDesc
      rw [look_of_lookup_lst hx, look_of_lookup_lst (by simp : ((y, HObj.lst is') :: h).lookup y = some (.lst is'))]
    · exact getDesc_congr (hl y hy)
  refine ⟨?_, fun r hr => getLinks_congr (hl r hr)⟩
  intro r hr
  unfold getList
  rw [getItems_congr (hl r hr)]
  apply List.map_congr_left
  intro it _
  cases it with
  | own d => rfl
  | ref y => exact hd y

theorem links_write_frame {h : Heap π ν} {x : Ref} {l0 l' : List (Nat × Nat)} (hx : h.lookup x = some (.links l0)) :
    (∀ r, r ≠ x → getList ((x, HObj.links l') :: h) r = getList h r) ∧
    (∀ r, r ≠ x → getLinks ((x, HObj.links l') :: h) r = getLinks h r) := by
  have hl : ∀ y, y ≠ x → look ((x, HObj.links l') :: h) y = look h y := fun y hy => look_of_view (view_write_ne h x y _ hy)
  have hd : ∀ y, getDesc ((x, HObj.links l') :: h) y = getDesc h y := by
    intro y
    by_cases hy : y = x
    · subst hy
      unfold getDesc
      rw [look_of_lookup_links hx, look_of_lookup_links (by simp : ((y, HObj.links l') :: h).lookup y = some (.links l'))]
    · exact getDesc_congr (hl y hy)
  refine ⟨?_, fun r hr => getLinks_congr (hl r hr)⟩
  intro r hr
  unfold getList
  rw [getItems_congr (hl r hr)]
  apply List.map_congr_left
  intro it _
  cases it with
  | own d => rfl
  | ref y => exact hd y

theorem getD_eq {l : List Ref} {i : Nat} (hi : i < l.length) : l.getD i 0 = l[i] := by
  simp [List.getD, hi]

theorem getD_mem {l : List Ref} {i : Nat} (hi : i < l.length) : l.getD i 0 ∈ l := by
  rw [getD_eq hi]; exact List.getElem_mem hi

theorem getD_ne_of_nodup {l : List Ref} (hn : l.Nodup) {i j : Nat} (hi : i < l.length) (hj : j < l.length) (hij : i ≠ j) :
    l.getD j 0 ≠ l.getD i 0 := by
  rw [getD_eq hi, getD_eq hj]
  have hp := List.pairwise_iff_getElem.1 hn
  rcases Nat.lt_or_gt_of_ne hij with h | h
  · exact fun e => hp i j hi hj h e.symm
  · exact fun e => hp j i hj hi h e

end CoderState

end Bufr.Heap
