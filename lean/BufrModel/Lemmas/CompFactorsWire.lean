/-
  Finding F24 (repaired), the consequence for the views: after a successful COMPRESSED decode every subset carries the
  delayed replication counts of subset 0 at the factors of the tree the wiring pass builds from subset 0
  (`decodeCompressed_sameCounts`), so `Spec.sameCountsList o0 o tree` — the hypothesis the compressed link theorems of
  Props/C09Wire.lean and C16 carry — is DERIVED for decoded output.

  How.  The simulation of Lemmas/WireSim.lean looks at the FIRST value list of the coder state only.  The compressed walk is
  run a second time "under a ghost list" (`primsQ j`, related to the real walk by the generic `walk_sim` of Lemmas/Sim.lean):
  the state gets an extra first value list holding, entry by entry, the value of subset 0 where subset 0 and subset `j`
  agree and a value no count can be (`bytes []`) where they differ (`mixHead`).  The ghost primitives are still `PushOne` —
  the `factor` clause is exactly `decFactorC_ok` (the repaired check: every subset holds the factor on top of its list) —
  so `walkList_sim` applies and the wiring pass succeeds on the MERGED flat lists with a `plainList` tree: at every index
  where it reads a count the merged list holds an integer, i.e. subsets 0 and `j` agree there (`wireCount_merge`).  The pass
  looks at a subset's values through `wireCount` only (`wireList_congr`), so it builds the same tree from subset 0.
-/
import BufrModel.Lemmas.WireSimComp
import BufrModel.Lemmas.CompFactors
import BufrModel.Lemmas.Sim
namespace Bufr.C09
open Bufr

/-! ### the wiring pass looks at a subset's values only through `wireCount` -/

theorem wireRepeat_congr {f g : WSt → CM (List Node × WSt)} (h : ∀ s r, f s = .ok r → g s = .ok r) :
    ∀ (n : Nat) (s : WSt) (r : List Node × WSt), wireRepeat f n s = .ok r → wireRepeat g n s = .ok r
  | 0, s, r, hr => by rw [wireRepeat] at hr ⊢; exact hr
  | n + 1, s, r, hr => by
    rw [wireRepeat] at hr ⊢
    cases hf : f s with
    | error e => rw [hf] at hr; cases hr
    | ok p =>
      obtain ⟨ns, s'⟩ := p
      rw [hf] at hr
      rw [h s _ hf]
      dsimp only at hr ⊢
      cases hw : wireRepeat f n s' with
      | error e => rw [hw] at hr; cases hr
      | ok q =>
        rw [hw] at hr
        rw [wireRepeat_congr h n s' q hw]
        exact hr

theorem wireElement_vals (d : List DDesc) (v v' : List Val) (l : List (Nat × Nat)) (id : Nat) (s : WSt) :
    wireElement ⟨d, v, l⟩ id s = wireElement ⟨d, v', l⟩ id s := rfl

theorem wireOperator_vals (d : List DDesc) (v v' : List Val) (l : List (Nat × Nat)) (id : Nat) (s : WSt) :
    wireOperator ⟨d, v, l⟩ id s = wireOperator ⟨d, v', l⟩ id s := rfl

theorem plainValue_vals (d : List DDesc) (v v' : List Val) (l : List (Nat × Nat)) (s : WSt) :
    WSt.plainValue (⟨d, v, l⟩ : SubsetOut) s = WSt.plainValue (⟨d, v', l⟩ : SubsetOut) s := rfl

theorem take_vals (d : List DDesc) (v v' : List Val) (l : List (Nat × Nat)) (s : WSt) :
    WSt.take (⟨d, v, l⟩ : SubsetOut) s = WSt.take (⟨d, v', l⟩ : SubsetOut) s := rfl


mutual
theorem wireList_congr (d : List DDesc) (v v' : List Val) (l : List (Nat × Nat))
    (hc : ∀ i c, wireCount ⟨d, v, l⟩ i = .ok c → wireCount ⟨d, v', l⟩ i = .ok c) :
    ∀ (ds : List Desc) (s : WSt) (r : List Node × WSt),
      wireList ⟨d, v, l⟩ ds s = .ok r → wireList ⟨d, v', l⟩ ds s = .ok r
  | [], s, r, h => by rw [wireList] at h ⊢; exact h
  | x :: ds, s, r, h => by
    rw [wireList] at h ⊢
    cases h1 : wire1 ⟨d, v, l⟩ x s with
    | error e => rw [h1] at h; cases h
    | ok p =>
      obtain ⟨n, s'⟩ := p
      rw [h1] at h
      rw [wire1_congr d v v' l hc x s _ h1]
      dsimp only at h ⊢
      cases h2 : wireList ⟨d, v, l⟩ ds s' with
      | error e => rw [h2] at h; cases h
      | ok q =>
        rw [h2] at h
        rw [wireList_congr d v v' l hc ds s' q h2]
        exact h

theorem wire1_congr (d : List DDesc) (v v' : List Val) (l : List (Nat × Nat))
    (hc : ∀ i c, wireCount ⟨d, v, l⟩ i = .ok c → wireCount ⟨d, v', l⟩ i = .ok c) :
    ∀ (x : Desc) (s : WSt) (r : Node × WSt), wire1 ⟨d, v, l⟩ x s = .ok r → wire1 ⟨d, v', l⟩ x s = .ok r
  | .elem e, s, r, h => by
    rw [wire1_elem] at h ⊢
    rw [← wireElement_vals d v v' l]
    exact h
  | .fixedRep id ms, s, r, h => by
    rw [wire1_fixed] at h ⊢
    cases hw : wireRepeat (wireList ⟨d, v, l⟩ ms) (yOf id) (preW s) with
    | error e => rw [hw] at h; cases h
    | ok q =>
      rw [hw] at h
      rw [wireRepeat_congr (fun s r => wireList_congr d v v' l hc ms s r) _ _ q hw]
      exact h
  | .delayedRep id f ms, s, r, h => by
    rw [wire1_delayed] at h ⊢
    rw [← take_vals d v v' l]
    cases ht : (preW s).take ⟨d, v, l⟩ with
    | error e => rw [ht] at h; cases h
    | ok p =>
      obtain ⟨i, s1⟩ := p
      rw [ht] at h
      dsimp only at h ⊢
      cases hcnt : wireCount ⟨d, v, l⟩ i with
      | error e => rw [hcnt] at h; cases h
      | ok n =>
        rw [hcnt] at h
        rw [hc i n hcnt]
        dsimp only at h ⊢
        cases hw : wireRepeat (wireList ⟨d, v, l⟩ ms) n (s1.register i) with
        | error e => rw [hw] at h; cases h
        | ok q =>
          rw [hw] at h
          rw [wireRepeat_congr (fun s r => wireList_congr d v v' l hc ms s r) _ _ q hw]
          exact h
  | .op id, s, r, h => by
    rw [wire1_op] at h ⊢
    rw [← wireOperator_vals d v v' l]
    exact h
  | .seq id ms, s, r, h => by
    rw [wire1_seq] at h ⊢
    cases hw : wireList ⟨d, v, l⟩ ms (preW s) with
    | error e => rw [hw] at h; cases h
    | ok q =>
      rw [hw] at h
      rw [wireList_congr d v v' l hc ms _ q hw]
      exact h
  | .undefElem id, s, r, h => by
    rw [wire1] at h ⊢
    exact h
  | .undefSeq id, s, r, h => by
    rw [wire1] at h ⊢
    exact h
end

/-! ### a ghost value list in front: subset 0 and subset `j` merged -/

/-- equal entries are kept, different ones become a value no replication count can be -/
def mergeV (a b : Val) : Val := if a = b then a else .bytes []
def merge (l l' : List Val) : List Val := List.zipWith mergeV l l'
def mixHead (j : Nat) (vals : List (List Val)) : List Val := merge (vals.headD []) (vals[j]?.getD [])
def mix (j : Nat) (s : St) : St := { s with vals := mixHead j s.vals :: s.vals }
def unmix (t : St) : St := { t with vals := t.vals.tail }
def Mixed (j : Nat) (t : St) : Prop := t.vals.head? = some (mixHead j t.vals.tail) ∧ j < t.vals.tail.length

instance (j : Nat) (t : St) : Decidable (Mixed j t) := by unfold Mixed; infer_instance

def liftQ (j : Nat) (f : St → CM St) (t : St) : CM St :=
  if Mixed j t then (match f (unmix t) with | .error e => .error e | .ok s' => .ok (mix j s')) else .error .other

/-- the compressed decoder's primitives run under the ghost list -/
def primsQ (j : Nat) : Prims where
  numeric dd a b c := liftQ j (decNumericC dd a b c)
  string dd n := liftQ j (decStringC dd n)
  codeflag dd n := liftQ j (decCodeflagC dd n)
  newRefval e n := liftQ j (decNewRefvalC e n)
  constant dd c := liftQ j (decConstant dd c)
  factorValue t := if Mixed j t then decFactorC (unmix t) else .error .other
  lastValues n t := decLastValues n (unmix t)

theorem unmix_mix (j : Nat) (s : St) : unmix (mix j s) = s := rfl

theorem mixed_mix {j : Nat} {s : St} (h : j < s.vals.length) : Mixed j (mix j s) := ⟨rfl, h⟩

theorem mergeV_self (v : Val) : mergeV v v = v := by unfold mergeV; rw [if_pos rfl]

theorem mixHead_zipWith {j : Nat} {col : List Val} {vals : List (List Val)} (hj : j < vals.length)
    (hc : col.length = vals.length) :
    ∃ v, mixHead j (List.zipWith (· :: ·) col vals) = v :: mixHead j vals := by
  cases vals with
  | nil => cases hj
  | cons l0 r =>
    cases col with
    | nil => simp at hc
    | cons c0 cs =>
      have hjc : j < (c0 :: cs).length := by rw [hc]; exact hj
      have e1 : (List.zipWith (· :: ·) (c0 :: cs) (l0 :: r))[j]? = some ((c0 :: cs)[j] :: (l0 :: r)[j]) := by
        rw [List.getElem?_zipWith, List.getElem?_eq_getElem hjc, List.getElem?_eq_getElem hj]
      refine ⟨mergeV c0 ((c0 :: cs)[j]), ?_⟩
      unfold mixHead
      rw [e1, List.getElem?_eq_getElem hj]
      rfl

theorem mixHead_head {j : Nat} {vals : List (List Val)} {v : Val} (hj : j < vals.length)
    (h : ∀ l ∈ vals, l.head? = some v) : (mixHead j vals).head? = some v := by
  cases vals with
  | nil => cases hj
  | cons l0 r =>
    have h0 := h l0 (by simp)
    have hjm := h ((l0 :: r)[j]) (List.getElem_mem hj)
    unfold mixHead
    rw [List.getElem?_eq_getElem hj]
    cases l0 with
    | nil => cases h0
    | cons a as =>
      generalize ((a :: as) :: r)[j] = lj at hjm
      cases lj with
      | nil => cases hjm
      | cons b bs =>
        simp only [List.head?_cons, Option.some.injEq] at h0 hjm
        subst h0
        subst hjm
        show (merge (_ :: as) (_ :: bs)).head? = some _
        unfold merge
        rw [List.zipWith_cons_cons, mergeV_self]
        rfl

theorem mix_of_mixed {j : Nat} {t : St} (h : Mixed j t) : t = mix j (unmix t) := by
  obtain ⟨h1, _⟩ := h
  cases t with
  | mk regs bits descs vals idx links aux forced =>
    cases vals with
    | nil => cases h1
    | cons x r =>
      simp only [List.head?_cons, Option.some.injEq, List.tail_cons] at h1
      subst h1
      rfl


/-! ### every compressed primitive puts one entry on top of every value list -/

def ColPush (s s' : St) : Prop :=
  ∃ col : List Val, col.length = s.vals.length ∧ s'.vals = List.zipWith (· :: ·) col s.vals

theorem map_cons_eq_zipWith (v : Val) : ∀ (vals : List (List Val)),
    vals.map (v :: ·) = List.zipWith (· :: ·) (List.replicate vals.length v) vals
  | [] => rfl
  | l :: r => by
    rw [List.map_cons, List.length_cons, List.replicate_succ, List.zipWith_cons_cons, ← map_cons_eq_zipWith v r]

theorem colPush_numeric {dd : DDesc} {a b c : Int} {s s' : St} (h : decNumericC dd a b c s = .ok s') : ColPush s s' := by
  obtain ⟨col, bb, hc, rfl⟩ := C07.decNumericC_push dd a b c s s' h
  exact ⟨col, hc, rfl⟩

theorem colPush_string {dd : DDesc} {n : Nat} {s s' : St} (h : decStringC dd n s = .ok s') : ColPush s s' := by
  obtain ⟨col, bb, hc, rfl⟩ := C07.decStringC_push dd n s s' h
  exact ⟨col, hc, rfl⟩

theorem colPush_codeflag {dd : DDesc} {n : Nat} {s s' : St} (h : decCodeflagC dd n s = .ok s') : ColPush s s' := by
  obtain ⟨col, bb, hc, rfl⟩ := C07.decCodeflagC_push dd n s s' h
  exact ⟨col, hc, rfl⟩

theorem colPush_newRefval {e : Elem} {n : Nat} {s s' : St} (h : decNewRefvalC e n s = .ok s') : ColPush s s' := by
  obtain ⟨b, v, rfl⟩ := C07.decNewRefvalC_shape e n s s' h
  exact ⟨List.replicate s.vals.length (.int v), by simp, map_cons_eq_zipWith (.int v) s.vals⟩

theorem colPush_constant {dd : DDesc} {c : Int} {s s' : St} (h : decConstant dd c s = .ok s') : ColPush s s' := by
  unfold decConstant at h
  injection h with h
  subst h
  exact ⟨List.replicate s.vals.length (.int c), by simp, map_cons_eq_zipWith (.int c) s.vals⟩

theorem ColPush.length {s s' : St} (h : ColPush s s') : s'.vals.length = s.vals.length := by
  obtain ⟨col, hc, hv⟩ := h
  rw [hv, List.length_zipWith, hc, Nat.min_self]

/-! ### the decoder's walk is followed under the ghost list -/

def RelQ (j : Nat) (s t : St) : Prop := t = mix j s ∧ j < s.vals.length

theorem liftQ_simAt (j : Nat) (f : St → CM St) (hf : ∀ s s', f s = .ok s' → ColPush s s') (s : St) :
    SimAt (I := Unit) (fun _ _ => True) (fun _ => RelQ j) s (f s) (liftQ j f) := by
  intro s' hr _ _
  refine ⟨(), trivial, fun t ht => ?_⟩
  obtain ⟨ht, hj⟩ := ht
  subst ht
  refine ⟨mix j s', ?_, rfl, by rw [(hf s s' hr).length]; exact hj⟩
  unfold liftQ
  rw [if_pos (mixed_mix hj), unmix_mix, hr]

theorem primSim_Q (j : Nat) : PrimSim₀ decPrimsC (primsQ j) (RelQ j) where
  agree := fun h => by obtain ⟨rfl, _⟩ := h; exact ⟨rfl, rfl, rfl⟩
  rel_setRegs := fun f h => by obtain ⟨rfl, hj⟩ := h; exact ⟨rfl, hj⟩
  rel_addLink := fun o h => by obtain ⟨rfl, hj⟩ := h; exact ⟨rfl, hj⟩
  ix_setRegs := fun _ => Iff.rfl
  ix_addLink := fun _ => Iff.rfl
  numeric := fun dd a b c s => liftQ_simAt j _ (fun _ _ h => colPush_numeric h) s
  string := fun dd n s => liftQ_simAt j _ (fun _ _ h => colPush_string h) s
  codeflag := fun dd n s => liftQ_simAt j _ (fun _ _ h => colPush_codeflag h) s
  newRefval := fun e n s => liftQ_simAt j _ (fun _ _ h => colPush_newRefval h) s
  constant := fun dd c s => liftQ_simAt j _ (fun _ _ h => colPush_constant h) s
  factor := by
    intro _ s t n h hn
    obtain ⟨rfl, hj⟩ := h
    show ((if Mixed j (mix j s) then decFactorC (unmix (mix j s)) else .error .other) >>= factorCount) = .ok n
    rw [if_pos (mixed_mix hj), unmix_mix]
    exact hn
  lastValues := by
    intro _ s t n l h hl
    obtain ⟨rfl, _⟩ := h
    exact ⟨l, hl, rfl⟩


/-! ### under the ghost list the primitives still push one value on the list the wiring simulation looks at -/

theorem pushed_mix {j : Nat} {dd : DDesc} {t s' : St} (hm : Mixed j t) (hp : Pushed dd (unmix t) s')
    (hc : ColPush (unmix t) s') : Pushed dd t (mix j s') := by
  obtain ⟨col, hcl, hv⟩ := hc
  obtain ⟨hm1, hm2⟩ := hm
  have hmh : ∃ v, mixHead j s'.vals = v :: mixHead j t.vals.tail := by
    rw [hv]
    exact mixHead_zipWith hm2 hcl
  refine ⟨hp.descs, fun l hl => ?_, fun hal x hx => ?_, hp.assoc, hp.nref, hp.bdef, hp.qa, hp.skipped, hp.dnp, hp.links⟩
  · rw [hm1] at hl
    injection hl with hl
    subst hl
    obtain ⟨v, e⟩ := hmh
    exact ⟨v, by show some (mixHead j s'.vals) = _; rw [e]⟩
  · have hal' : ∀ l ∈ (unmix t).vals, l.length = (unmix t).descs.length :=
      fun l hl => hal l (List.mem_of_mem_tail hl)
    have hx' : x = mixHead j s'.vals ∨ x ∈ s'.vals := by
      have : x ∈ mixHead j s'.vals :: s'.vals := hx
      simpa using this
    rcases hx' with rfl | hx'
    · obtain ⟨v, e⟩ := hmh
      rw [e, List.length_cons]
      have hmem : mixHead j t.vals.tail ∈ t.vals := List.mem_of_mem_head? hm1
      rw [hal _ hmem]
      show t.descs.length + 1 = s'.descs.length
      rw [hp.descs]
      rfl
    · exact hp.al hal' x hx'

theorem liftQ_ok {j : Nat} {f : St → CM St} {t t' : St} (h : liftQ j f t = .ok t') :
    Mixed j t ∧ ∃ s', f (unmix t) = .ok s' ∧ t' = mix j s' := by
  unfold liftQ at h
  by_cases hm : Mixed j t
  · rw [if_pos hm] at h
    cases hf : f (unmix t) with
    | error e => rw [hf] at h; cases h
    | ok s' =>
      rw [hf] at h
      injection h with h
      exact ⟨hm, s', rfl, h.symm⟩
  · rw [if_neg hm] at h; cases h

theorem pushOne_primsQ (j : Nat) : PushOne (primsQ j) where
  numeric := by
    intro dd a b c t t' h
    obtain ⟨hm, s', hf, rfl⟩ := liftQ_ok (f := decNumericC dd a b c) h
    exact pushed_mix hm (pushOne_decPrimsC.numeric dd a b c _ _ hf) (colPush_numeric hf)
  string := by
    intro dd n t t' h
    obtain ⟨hm, s', hf, rfl⟩ := liftQ_ok (f := decStringC dd n) h
    exact pushed_mix hm (pushOne_decPrimsC.string dd n _ _ hf) (colPush_string hf)
  codeflag := by
    intro dd n t t' h
    obtain ⟨hm, s', hf, rfl⟩ := liftQ_ok (f := decCodeflagC dd n) h
    exact pushed_mix hm (pushOne_decPrimsC.codeflag dd n _ _ hf) (colPush_codeflag hf)
  newRefval := by
    intro e n t t' h
    obtain ⟨hm, s', hf, rfl⟩ := liftQ_ok (f := decNewRefvalC e n) h
    exact pushed_mix hm (pushOne_decPrimsC.newRefval e n _ _ hf) (colPush_newRefval hf)
  constant := by
    intro dd c t t' h
    obtain ⟨hm, s', hf, rfl⟩ := liftQ_ok (f := decConstant dd c) h
    exact pushed_mix hm (pushOne_decPrimsC.constant dd c _ _ hf) (colPush_constant hf)
  factor := by
    intro t v l h hl
    change (if Mixed j t then decFactorC (unmix t) else .error .other) = .ok v at h
    by_cases hm : Mixed j t
    · rw [if_pos hm] at h
      obtain ⟨hm1, hm2⟩ := hm
      rw [hm1] at hl
      injection hl with hl
      subst hl
      exact mixHead_head hm2 (decFactorC_ok h).2
    · rw [if_neg hm] at h; cases h


/-! ### what the ghost list tells: where the wiring pass reads a count, subset 0 and subset `j` hold the same one -/

theorem mergeV_int {p q : Val} {z : Int} (h : mergeV p q = .int z) : p = .int z ∧ q = .int z := by
  unfold mergeV at h
  by_cases e : p = q
  · rw [if_pos e] at h
    exact ⟨h, e ▸ h⟩
  · rw [if_neg e] at h; cases h

theorem wireCount_merge {d : List DDesc} {l : List (Nat × Nat)} {a b : List Val} (hab : a.length = b.length)
    {i c : Nat} (h : wireCount ⟨d, (merge a b).reverse, l⟩ i = .ok c) :
    wireCount ⟨d, a.reverse, l⟩ i = .ok c ∧ wireCount ⟨d, b.reverse, l⟩ i = .ok c := by
  unfold wireCount at h ⊢
  dsimp only at h ⊢
  unfold merge at h
  rw [List.reverse_zipWith hab, List.getElem?_zipWith] at h
  cases ha : a.reverse[i]? with
  | none => rw [ha] at h; simp at h
  | some p =>
    cases hb : b.reverse[i]? with
    | none => rw [ha, hb] at h; simp at h
    | some q =>
      rw [ha, hb] at h
      dsimp only at h ⊢
      cases hm : mergeV p q with
      | int z =>
        obtain ⟨rfl, rfl⟩ := mergeV_int hm
        rw [hm] at h
        exact ⟨h, h⟩
      | missing => rw [hm] at h; cases h
      | num _ _ => rw [hm] at h; cases h
      | bytes _ => rw [hm] at h; cases h

theorem sameCounts_attrs {o a b : SubsetOut} {attrs : List Node} (h : attrsOK o attrs = true) :
    Spec.sameCountsList a b attrs = true := by
  rcases attrsOK_inv h with h0 | ⟨x, m, d, h1, _⟩
  · subst h0; rw [Spec.sameCountsList]
  · subst h1
    simp [Spec.sameCountsList, Spec.sameCounts1]

mutual
theorem plainList_sameCounts {o a b : SubsetOut}
    (hc : ∀ i c, wireCount o i = .ok c → wireCount a i = .ok c ∧ wireCount b i = .ok c) :
    ∀ (ns : List Node), plainList o ns = true → Spec.sameCountsList a b ns = true
  | [], _ => by rw [Spec.sameCountsList]
  | n :: ns, h => by
    rw [plainList, Bool.and_eq_true] at h
    rw [Spec.sameCountsList, plain1_sameCounts hc n h.1, plainList_sameCounts hc ns h.2]
    rfl

theorem plain1_sameCounts {o a b : SubsetOut}
    (hc : ∀ i c, wireCount o i = .ok c → wireCount a i = .ok c ∧ wireCount b i = .ok c) :
    ∀ (n : Node), plain1 o n = true → Spec.sameCounts1 a b n = true
  | .value k i attrs, h => by
    rw [plain1] at h
    obtain ⟨_, _, _, e, _, hat⟩ := plainValue?_inv h
    cases e
    rw [Spec.sameCounts1]
    exact sameCounts_attrs hat
  | .noval _, _ => by rw [Spec.sameCounts1]
  | .seq id ms, h => by
    rw [plain1, Bool.and_eq_true] at h
    rw [Spec.sameCounts1]
    exact plainList_sameCounts hc ms h.2
  | .fixedRep id n ms, h => by
    rw [plain1, Bool.and_eq_true, Bool.and_eq_true] at h
    rw [Spec.sameCounts1]
    exact plainList_sameCounts hc ms h.2
  | .delayedRep id n f ms, h => by
    rw [plain1, Bool.and_eq_true, Bool.and_eq_true, Bool.and_eq_true] at h
    obtain ⟨⟨⟨_, h2⟩, h3⟩, h4⟩ := h
    obtain ⟨k, i, attrs, e, _, hat⟩ := plainValue?_inv h2
    subst e
    simp only [countOK] at h3
    cases hw : wireCount o i with
    | error e => rw [hw] at h3; cases h3
    | ok c =>
      obtain ⟨ha, hb⟩ := hc i c hw
      rw [Spec.sameCounts1, ha, hb, sameCounts_attrs hat, plainList_sameCounts hc ms h4]
      simp
end


/-! ### assembly -/

theorem mixHead_replicate_nil (j n : Nat) : mixHead j (List.replicate (n + 1) ([] : List Val)) = [] := rfl

/-- COMPRESSED data, classes `quietList a`: on the tree the wiring pass builds from subset 0, EVERY subset of a
    successful decode carries the delayed replication counts of subset 0. -/
theorem decodeCompressed_sameCounts {a : Bool} {t : List Desc} (hq : quietList a t = true) {n : Nat} {bits rest : Bits}
    {outs : List SubsetOut} {o0 : SubsetOut} (h : decodeCompressed t n bits = .ok (outs, rest))
    (h0 : outs.head? = some o0) {w : Wired} (hw : wireRaw t o0 = .ok w) :
    ∀ o ∈ outs, Spec.sameCountsList o0 o w.nodes = true := by
  unfold decodeCompressed at h
  split at h
  · cases h
  · next s hs =>
    injection h with h
    injection h with ho _
    subst ho
    intro o ho
    have g := C07.grows_walkList C07.decPrimsC_rec t _ s (by cases n <;> rfl) hs
    have hlen : s.vals.length = n := by rw [g.2.2.1]; simp
    unfold St.outs at ho h0
    obtain ⟨lj, hlj, rfl⟩ := List.mem_map.mp ho
    obtain ⟨j, hj, hjl⟩ := List.getElem_of_mem hlj
    cases n with
    | zero => rw [hlen] at hj; cases hj
    | succ n =>
      cases hv : s.vals with
      | nil => rw [hv] at hj; cases hj
      | cons l0 r =>
        rw [hv] at h0
        simp only [List.map_cons, List.head?_cons, Option.some.injEq] at h0
        subst h0
        -- the walk under the ghost list
        have hrel : RelQ j ({ bits := bits, vals := List.replicate (n + 1) [] } : St)
            (mix j { bits := bits, vals := List.replicate (n + 1) [] }) := ⟨rfl, by simpa [hlen] using hj⟩
        obtain ⟨t', hwQ, ht', _⟩ := walk_sim (primSim_Q j) hrel hs
        subst ht'
        have hiQ : Idle a (mix j ({ bits := bits, vals := List.replicate (n + 1) [] } : St)) :=
          ⟨fun _ => rfl, fun _ => rfl, rfl, rfl, rfl, ⟨[], rfl, rfl⟩, fun l hl => by
            have : l = [] ∨ l ∈ List.replicate (n + 1) ([] : List Val) := by
              have : l ∈ mixHead j (List.replicate (n + 1) ([] : List Val)) :: List.replicate (n + 1) [] := hl
              rw [mixHead_replicate_nil] at this
              simpa using this
            rcases this with rfl | hl
            · rfl
            · rw [List.mem_replicate] at hl; rw [hl.2]; rfl⟩
        have sim := walkList_sim (pushOne_primsQ j) a t hq _ _ hiQ hwQ
        have hal := sim.1.1.al
        have hal0 : l0.length = s.descs.length := hal l0 (by show l0 ∈ mixHead j s.vals :: s.vals; rw [hv]; simp)
        have halj : lj.length = s.descs.length := hal lj (by show lj ∈ mixHead j s.vals :: s.vals; simp [hlj])
        have hmh : mixHead j s.vals = merge l0 lj := by
          unfold mixHead
          rw [List.getElem?_eq_getElem hj, hjl, hv]
          rfl
        have hw0 : WRel (mix j ({ bits := bits, vals := List.replicate (n + 1) [] } : St)) ({} : WSt) :=
          ⟨rfl, rfl, rfl, rfl, rfl⟩
        have hb : Below ⟨s.descs.reverse, (merge l0 lj).reverse, s.links.reverse⟩ (mix j s) :=
          ⟨mixHead j s.vals, rfl, by rw [hmh]; exact List.prefix_refl _, List.prefix_refl _⟩
        have hM0 : Meant ⟨s.descs.reverse, (merge l0 lj).reverse, s.links.reverse⟩ ({} : WSt) :=
          fun hne => absurd rfl hne
        obtain ⟨ns, w', e, _, _, gp⟩ := sim.2 _ {} hw0 (fun _ => hM0) hb
        dsimp only at e
        have hcnt : ∀ i c, wireCount ⟨s.descs.reverse, (merge l0 lj).reverse, s.links.reverse⟩ i = .ok c →
            wireCount ⟨s.descs.reverse, l0.reverse, s.links.reverse⟩ i = .ok c ∧
            wireCount ⟨s.descs.reverse, lj.reverse, s.links.reverse⟩ i = .ok c :=
          fun i c hc => wireCount_merge (hal0.trans halj.symm) hc
        have e0 := wireList_congr _ _ l0.reverse _ (fun i c hc => (hcnt i c hc).1) t {} _ e
        have hwn : w.nodes = ns := by
          unfold wireRaw at hw
          rw [e0] at hw
          injection hw with hw
          rw [← hw]
        rw [hwn]
        exact plainList_sameCounts hcnt ns gp

end Bufr.C09
