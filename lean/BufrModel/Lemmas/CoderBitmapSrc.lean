/-
  The source tie of the bitmap-definition state machine: the function generated from
  `coder.py: Coder.process_bitmap_definition` (`Gen/PyCoder.lean`) against `Coder/Walk.lean: bitmapDefinition`.
  Same framework as `Lemmas/CoderOpSrc.lean`.  `self.define_bitmap(state, reuse)` (abstract in `Coder`; the decoder /
  encoder collect the last `n_031031` values and call `state.build_bitmapped_descriptors`) is a callback that
  corresponds to the model's `P.lastValues n s >>= buildBitmapped s`.
-/
import BufrModel.Lemmas.CoderOpSrc
set_option linter.unusedSimpArgs false
set_option linter.unusedVariables false
set_option maxRecDepth 8000
namespace Bufr
open PyGen.coder

variable {D V B : Type}

theorem exc_bind_assoc' {ε α β γ : Type} (x : Except ε α) (f : α → Except ε β) (g : β → Except ε γ) :
    (x >>= f) >>= g = x >>= fun a => f a >>= g := by
  cases x <;> rfl

/-- a result that carries the state only (the bit operator is not touched) -/
def withBit (b : B) (x : Except Py.Exc (CoderState.Self D V)) : Except Py.Exc (CoderState.Self D V × B) :=
  x >>= fun p => pure (p, b)

/-- `define_bitmap` corresponds to collecting the bits and building the bitmapped descriptors -/
def DefineCorr (φ : D → Elem) (A : PyData D V → B → StData → Prop)
    (cb : Coder.process_bitmap_definition.Callbacks D V B) (P : Prims) : Prop :=
  ∀ ps b s (reuse : Bool), AbsSt φ A ps b s →
    Corr φ A (withBit b (cb.define_bitmap ps reuse)) (P.lastValues s.regs.n031031 s >>= buildBitmapped s)

theorem regs_bitmapDef {φ : D → Elem} {ps : CoderState.Self D V} {r : Regs} (h : Rep φ ps r) :
    r.bitmapDef = bitmapDefOfTag ps.bitmap_definition_state ∧ r.n031031 = ps.n_031031.toNat := by
  obtain ⟨_, nr, rfl, _⟩ := h
  exact ⟨rfl, rfl⟩

/-- a register-only branch: finish from `Rep` of the updated record -/
macro "rep_step'" h:ident ht:ident : tactic => `(tactic| (
  refine absSt_setRegs $h _ rfl ?_
  obtain ⟨hwf, nr, hr, href⟩ := ($h).1
  refine ⟨?_, nr, ?_, href⟩
  · simp only [WF] at hwf ⊢
    obtain ⟨w1, w2, w3, w4, w5, w6, w7, w8, w9, w10⟩ := hwf
    refine ⟨?_, ?_, ?_, ?_, ?_, ?_, ?_, ?_, ?_, ?_⟩ <;>
      first | assumption | omega | (simp [BITMAP_NA, BITMAP_INDICATOR, BITMAP_WAITING_FOR_BIT, BITMAP_BIT_COUNTING]; done)
  · rw [hr]
    simp [regsOf, bitmapDefOfTag, BITMAP_NA, BITMAP_INDICATOR, BITMAP_WAITING_FOR_BIT, BITMAP_BIT_COUNTING, $ht:ident]
    try omega))

theorem bitmapdef_core (φ : D → Elem) (A : PyData D V → B → StData → Prop)
    (cb : Coder.process_bitmap_definition.Callbacks D V B) (P : Prims) (hdef : DefineCorr φ A cb P)
    (d : AnyDescriptor.Self) (id : Nat) (hid : d.id = id)
    (ps : CoderState.Self D V) (b : B) (s : St) (h : AbsSt φ A ps b s) :
    Corr φ A (withBit b (Coder.process_bitmap_definition cb ps b d)) (bitmapDefinition P id s) := by
  obtain ⟨hbd, hn⟩ := regs_bitmapDef h.1
  have hwf := h.1.1
  have w9 : 0 ≤ ps.n_031031 := hwf.2.2.2.2.2.2.2.2.1
  unfold bitmapDefinition
  rcases hwf.2.2.2.2.2.2.2.1 with ht | ht | ht | ht
  · -- BITMAP_NA
    have hm : s.regs.bitmapDef = .na := by rw [hbd, ht]; decide
    simp [Coder.process_bitmap_definition, withBit, ht, hm, hid, exc_pure, exc_bind_ok, Corr,
      BITMAP_NA, BITMAP_INDICATOR, BITMAP_WAITING_FOR_BIT, BITMAP_BIT_COUNTING]
    exact h
  · -- BITMAP_INDICATOR
    have hm : s.regs.bitmapDef = .indicator := by rw [hbd, ht]; decide
    by_cases c6 : id = 236000
    · have e6 : (id : Int) = 236000 := by omega
      have n7 : ¬ id = 237000 := by omega
      simp [Coder.process_bitmap_definition, withBit, ht, hm, hid, e6, c6, n7, exc_pure, exc_bind_ok, Corr,
        BITMAP_NA, BITMAP_INDICATOR, BITMAP_WAITING_FOR_BIT, BITMAP_BIT_COUNTING]
      rep_step' h ht
    by_cases c7 : id = 237000
    · have e7 : (id : Int) = 237000 := by omega
      simp [Coder.process_bitmap_definition, withBit, ht, hm, hid, e7, c7, exc_pure, exc_bind_ok, Corr,
        BITMAP_NA, BITMAP_INDICATOR, BITMAP_WAITING_FOR_BIT, BITMAP_BIT_COUNTING]
      rep_step' h ht
    · have e6 : (id : Int) ≠ 236000 := by omega
      have e7 : (id : Int) ≠ 237000 := by omega
      simp [Coder.process_bitmap_definition, withBit, ht, hm, hid, e6, e7, c6, c7, exc_pure, exc_bind_ok, Corr,
        BITMAP_NA, BITMAP_INDICATOR, BITMAP_WAITING_FOR_BIT, BITMAP_BIT_COUNTING]
      rep_step' h ht
  · -- BITMAP_WAITING_FOR_BIT
    have hm : s.regs.bitmapDef = .waiting := by rw [hbd, ht]; decide
    by_cases c : id = 31031
    · have e : (id : Int) = 31031 := by omega
      simp [Coder.process_bitmap_definition, withBit, ht, hm, hid, e, c, exc_pure, exc_bind_ok, Corr,
        BITMAP_NA, BITMAP_INDICATOR, BITMAP_WAITING_FOR_BIT, BITMAP_BIT_COUNTING]
      rep_step' h ht
    · have e : (id : Int) ≠ 31031 := by omega
      simp [Coder.process_bitmap_definition, withBit, ht, hm, hid, e, c, exc_pure, exc_bind_ok, Corr,
        BITMAP_NA, BITMAP_INDICATOR, BITMAP_WAITING_FOR_BIT, BITMAP_BIT_COUNTING]
      exact h
  · -- BITMAP_BIT_COUNTING
    have hm : s.regs.bitmapDef = .counting := by rw [hbd, ht]; decide
    by_cases c : id = 31031
    · have e : (id : Int) = 31031 := by omega
      simp [Coder.process_bitmap_definition, withBit, ht, hm, hid, e, c, exc_pure, exc_bind_ok, Corr,
        BITMAP_NA, BITMAP_INDICATOR, BITMAP_WAITING_FOR_BIT, BITMAP_BIT_COUNTING]
      rep_step' h ht
    · have e : (id : Int) ≠ 31031 := by omega
      have hd := hdef ps b s ps.most_recent_bitmap_is_for_reuse h
      simp [Coder.process_bitmap_definition, withBit, ht, hm, hid, e, c, exc_pure, exc_bind_ok,
        BITMAP_NA, BITMAP_INDICATOR, BITMAP_WAITING_FOR_BIT, BITMAP_BIT_COUNTING]
      have key : ∀ (x : Except Py.Exc (CoderState.Self D V)) (y : CM St), Corr φ A (withBit b x) y →
          Corr φ A (x >>= fun x => Except.ok (({ x with bitmap_definition_state := 0 } : CoderState.Self D V), b))
            (y >>= fun s' => Except.ok (s'.setRegs fun r => { r with bitmapDef := .na })) := by
        intro x y hxy
        cases x with
        | error e1 => cases y with
          | error e' => exact hxy
          | ok s' => exact hxy.elim
        | ok p => cases y with
          | error e' => exact hxy.elim
          | ok s' =>
            have h' : AbsSt φ A p b s' := hxy
            show AbsSt φ A _ b _
            refine absSt_setRegs h' _ rfl ?_
            obtain ⟨hwf', nr, hr, href⟩ := h'.1
            refine ⟨?_, nr, ?_, href⟩
            · simp only [WF] at hwf' ⊢
              obtain ⟨w1, w2, w3, w4, w5, w6, w7, w8, w9', w10⟩ := hwf'
              exact ⟨w1, w2, w3, w4, w5, w6, w7, Or.inl (by decide), w9', w10⟩
            · rw [hr]; simp [regsOf, bitmapDefOfTag, BITMAP_NA, BITMAP_INDICATOR, BITMAP_WAITING_FOR_BIT, BITMAP_BIT_COUNTING]
      have := key _ _ hd
      rw [exc_bind_assoc'] at this
      exact this

end Bufr
