/-
  C08: the compiled-template cache (`getOrCompile`, `runCache`) and `load ∘ dump`.
-/
import BufrModel.Coder.Compiler
namespace Bufr.C08
open Bufr

variable {κ α : Type} [DecidableEq κ]

/-- every cached value is the compilation of its key -/
def CacheInv (compileK : κ → α) (c : Cache κ α) : Prop := ∀ p ∈ c.entries, p.2 = compileK p.1

theorem get?_of_inv (compileK : κ → α) (c : Cache κ α) (h : CacheInv compileK c) (k : κ) (v : α)
    (hv : c.get? k = some v) : v = compileK k := by
  unfold Cache.get? at hv
  split at hv
  · next p hp =>
    have hmem := List.mem_of_find?_eq_some hp
    have hk := List.find?_some hp
    simp only [decide_eq_true_eq] at hk
    cases hv
    rw [h p hmem, hk]
  · cases hv

theorem getOrCompile_spec (compileK : κ → α) (cmax : Nat) (c : Cache κ α) (h : CacheInv compileK c) (k : κ) :
    (getOrCompile compileK cmax c k).1 = compileK k ∧ CacheInv compileK (getOrCompile compileK cmax c k).2 := by
  unfold getOrCompile
  split
  · next v hv => exact ⟨get?_of_inv compileK c h k v hv, h⟩
  · split
    · refine ⟨rfl, ?_⟩
      intro p hp
      simp only [List.mem_cons] at hp
      rcases hp with rfl | hp
      · rfl
      · apply h
        split at hp
        · exact List.mem_of_mem_drop hp
        · exact hp
    · exact ⟨rfl, h⟩

theorem runCache_results (compileK : κ → α) (cmax : Nat) (hist : List κ) (c : Cache κ α)
    (h : CacheInv compileK c) :
    (runCache compileK cmax hist c).1 = hist.map compileK ∧ CacheInv compileK (runCache compileK cmax hist c).2 := by
  induction hist generalizing c with
  | nil => exact ⟨rfl, h⟩
  | cons k ks ih =>
    have hs := getOrCompile_spec compileK cmax c h k
    have ih' := ih (getOrCompile compileK cmax c k).2 hs.2
    simp only [runCache, List.map_cons]
    exact ⟨by rw [hs.1, ih'.1], ih'.2⟩

theorem getOrCompile_bound (compileK : κ → α) (cmax : Nat) (c : Cache κ α) (k : κ)
    (h : c.entries.length ≤ cmax) : (getOrCompile compileK cmax c k).2.entries.length ≤ cmax := by
  unfold getOrCompile
  split
  · exact h
  · split
    · simp only [List.length_cons]
      split
      · simp only [List.length_drop]; omega
      · omega
    · exact h

theorem runCache_bound (compileK : κ → α) (cmax : Nat) (hist : List κ) (c : Cache κ α)
    (h : c.entries.length ≤ cmax) : (runCache compileK cmax hist c).2.entries.length ≤ cmax := by
  induction hist generalizing c with
  | nil => exact h
  | cons k ks ih =>
    simp only [runCache]
    exact ih _ (getOrCompile_bound compileK cmax c k h)

/-- with limit 0 nothing is ever stored -/
theorem getOrCompile_zero (compileK : κ → α) (c : Cache κ α) (k : κ) (h : c.entries = []) :
    (getOrCompile compileK 0 c k).2.entries = [] := by
  unfold getOrCompile
  split
  · exact h
  · simp [h]

end Bufr.C08
