/-
  Helper lemmas for C09 about the wiring pass (`View/Wire.lean`): every step consumes a block of
  consecutive flat indices and yields exactly the nodes holding them.
-/
import BufrModel.View.Wire
namespace Bufr.C09
open Bufr

/-- "`ns` hold exactly the indices consumed between `s` and `s'`" -/
def Consumes (s s' : WSt) (l : List Nat) : Prop :=
  s.next ≤ s'.next ∧ l = List.range' s.next (s'.next - s.next)

theorem Consumes.refl (s : WSt) : Consumes s s [] := by
  simp [Consumes]

theorem Consumes.of_next_eq {s s' : WSt} (h : s'.next = s.next) : Consumes s s' [] := by
  simp [Consumes, h]

theorem Consumes.trans {s s' s'' : WSt} {a b : List Nat}
    (h1 : Consumes s s' a) (h2 : Consumes s' s'' b) : Consumes s s'' (a ++ b) := by
  obtain ⟨l1, e1⟩ := h1
  obtain ⟨l2, e2⟩ := h2
  refine ⟨by omega, ?_⟩
  subst e1 e2
  have : s'.next = s.next + (s'.next - s.next) := by omega
  have h3 : s''.next - s.next = (s'.next - s.next) + (s''.next - s'.next) := by omega
  rw [h3, ← List.range'_append_1]
  congr 2

theorem take_ok {o : SubsetOut} {s s' : WSt} {i : Nat} (h : s.take o = .ok (i, s')) :
    i = s.next ∧ s' = { s with next := s.next + 1 } ∧ i < o.descs.length := by
  unfold WSt.take at h
  split at h
  · next hlt =>
    injection h with h
    injection h with h1 h2
    exact ⟨h1.symm, h2.symm, by rw [← h1]; exact hlt⟩
  · cases h

theorem consumes_one {s s' : WSt} {i : Nat} (hi : i = s.next) (hn : s'.next = s.next + 1) :
    Consumes s s' [i] := by
  refine ⟨by omega, ?_⟩
  have : s'.next - s.next = 1 := by omega
  rw [this, hi]
  rfl

theorem consumes_two {s s' : WSt} {a i : Nat} (ha : a = s.next) (hi : i = s.next + 1)
    (hn : s'.next = s.next + 2) : Consumes s s' [a, i] := by
  refine ⟨by omega, ?_⟩
  have : s'.next - s.next = 2 := by omega
  rw [this, ha, hi]
  rfl

theorem valueNode_ok {o : SubsetOut} {s s' : WSt} {n : Node} {i : Nat}
    (h : s.valueNode o = .ok (n, i, s')) :
    n = .value .value i [] ∧ i = s.next ∧ s'.next = s.next + 1 ∧ i < o.descs.length := by
  unfold WSt.valueNode at h
  split at h
  · cases h
  · next i' s1 ht =>
    obtain ⟨h1, h2, h3⟩ := take_ok ht
    injection h with h
    injection h with ha hb
    injection hb with hb hc
    subst h2 hb
    refine ⟨ha.symm, h1, ?_, h3⟩
    rw [← hc]; rfl

theorem plainValue_ok {o : SubsetOut} {s s' : WSt} {n : Node} (h : s.plainValue o = .ok (n, s')) :
    ∃ i, n = .value .value i [] ∧ i = s.next ∧ s'.next = s.next + 1 ∧ i < o.descs.length := by
  unfold WSt.plainValue at h
  split at h
  · cases h
  · next n' i s1 hv =>
    injection h with h
    injection h with ha hb
    subst ha hb
    exact ⟨i, valueNode_ok hv⟩

theorem bitmapAttr_next {o : SubsetOut} {s s' : WSt} {i : Nat} {n : Node}
    (h : s.bitmapAttr o i n = .ok s') : s'.next = s.next := by
  unfold WSt.bitmapAttr at h
  split at h
  · cases h
  · split at h
    · injection h with h; subst h; rfl
    · cases h

theorem idx1_value (k : VKind) (i : Nat) (attrs : List Node) : idx1 (.value k i attrs) = valueIdx i attrs := by
  simp [idx1]

theorem valueIdx_nil (i : Nat) : valueIdx i [] = [i] := by
  simp [valueIdx]

/-- `wire_element_descriptor` -/
theorem wireElement_consumes {o : SubsetOut} {id : Nat} {s s' : WSt} {n : Node}
    (h : wireElement o id s = .ok (n, s')) : Consumes s s' (idx1 n) := by
  unfold wireElement at h
  split at h
  · -- associated field in force
    split at h
    · cases h
    · next a s1 ht1 =>
      obtain ⟨ha, hs1, _⟩ := take_ok ht1
      split at h
      · cases h
      · next m _ =>
        split at h
        · cases h
        · next i s2 ht2 =>
          obtain ⟨hi, hs2, _⟩ := take_ok ht2
          injection h with h
          injection h with hn hs
          subst hn hs
          have h2 : s2.next = s.next + 2 := by rw [hs2, hs1]
          have hi' : i = s.next + 1 := by rw [hi, hs1]
          simp only [idx1_value, valueIdx, List.filter, Node.kindIsAssoc, VKind.isAssoc, List.filterMap, Node.index?]
          exact consumes_two ha hi' (by simpa [WSt.register] using h2)
  · split at h
    · -- quality information
      split at h
      · cases h
      · next i s1 ht =>
        obtain ⟨hi, hs1, _⟩ := take_ok ht
        simp only at h
        split at h
        · cases h
        · next s2 hb =>
          injection h with h
          injection h with hn hs
          subst hn hs
          have := bitmapAttr_next hb
          rw [idx1_value, valueIdx_nil]
          exact consumes_one hi (by rw [this]; simp [WSt.register, hs1])
    · split at h
      · cases h
      · next n' i s1 hv =>
        obtain ⟨hn, hi, hs1, _⟩ := valueNode_ok hv
        have hc : Consumes s s1 (idx1 n') := by
          rw [hn, idx1_value, valueIdx_nil]; exact consumes_one hi hs1
        split at h
        · injection h with h; injection h with ha hb; subst ha hb; exact ⟨hc.1, hc.2⟩
        · split at h
          · injection h with h; injection h with ha hb; subst ha hb; exact ⟨hc.1, hc.2⟩
          · split at h
            · injection h with h; injection h with ha hb; subst ha hb; exact ⟨hc.1, hc.2⟩
            · injection h with h; injection h with ha hb; subst ha hb; exact hc


theorem wireMarker_consumes {o : SubsetOut} {k : VKind} {s s' : WSt} {n : Node}
    (h : wireMarker o k s = .ok (n, s')) : Consumes s s' (idx1 n) := by
  unfold wireMarker at h
  split at h
  · cases h
  · next i s1 ht =>
    obtain ⟨hi, hs1, _⟩ := take_ok ht
    simp only at h
    split at h
    · cases h
    · next s2 hb =>
      injection h with h
      injection h with hn hs
      subst hn hs
      have := bitmapAttr_next hb
      rw [idx1_value, valueIdx_nil]
      exact consumes_one hi (by rw [this]; simp [WSt.register, hs1])

theorem wireStatsMarker_consumes {o : SubsetOut} {k : VKind} {m : Option Nat} {s s' : WSt} {n : Node}
    (h : wireStatsMarker o k m s = .ok (n, s')) : Consumes s s' (idx1 n) := by
  unfold wireStatsMarker at h
  split at h
  · cases h
  · next i s1 ht =>
    obtain ⟨hi, hs1, _⟩ := take_ok ht
    split at h
    · cases h
    · next mm =>
      simp only at h
      split at h
      · cases h
      · next s2 hb =>
        injection h with h
        injection h with hn hs
        subst hn hs
        have := bitmapAttr_next hb
        simp only [idx1_value, valueIdx, List.filter, Node.kindIsAssoc, VKind.isAssoc, List.filterMap, List.nil_append]
        exact consumes_one hi (by rw [this]; simp [WSt.register, hs1])

theorem plainValue_consumes {o : SubsetOut} {s s' : WSt} {n : Node}
    (h : s.plainValue o = .ok (n, s')) : Consumes s s' (idx1 n) := by
  obtain ⟨i, hn, hi, hs, _⟩ := plainValue_ok h
  rw [hn, idx1_value, valueIdx_nil]
  exact consumes_one hi hs

theorem plainValue_consumes' {o : SubsetOut} {s s0 s' : WSt} {n : Node}
    (h : s0.plainValue o = .ok (n, s')) (h0 : s0.next = s.next) : Consumes s s' (idx1 n) := by
  have := plainValue_consumes h
  unfold Consumes at *
  rw [h0] at this
  exact this

theorem consumes_noval {s s' : WSt} {id : Nat} (h : s'.next = s.next) : Consumes s s' (idx1 (.noval id)) := by
  simp only [idx1]
  exact Consumes.of_next_eq h

theorem Consumes.of_eq_next {s s0 s' : WSt} {l : List Nat} (h : Consumes s0 s' l) (h0 : s0.next = s.next) :
    Consumes s s' l := by
  unfold Consumes at *
  rw [h0] at h
  exact h

/-- `wire_operator_descriptor` -/
theorem wireOperatorCY_consumes {o : SubsetOut} {id code y : Nat} {s s' : WSt} {n : Node}
    (h : wireOperatorCY o id code y s = .ok (n, s')) : Consumes s s' (idx1 n) := by
  unfold wireOperatorCY at h
  by_cases c1 : code = 201 ∨ code = 202 ∨ code = 203 ∨ code = 206 ∨ code = 207 ∨ code = 208
  · rw [if_pos c1] at h
    injection h with h; injection h with ha hb; subst ha hb; exact consumes_noval rfl
  rw [if_neg c1] at h
  by_cases c2 : code = 204
  · rw [if_pos c2] at h
    split at h
    · split at h
      · cases h
      · injection h with h; injection h with ha hb; subst ha hb; exact consumes_noval rfl
    · injection h with h; injection h with ha hb; subst ha hb; exact consumes_noval rfl
  rw [if_neg c2] at h
  by_cases c3 : code = 205
  · rw [if_pos c3] at h
    exact plainValue_consumes h
  rw [if_neg c3] at h
  by_cases c4 : code = 221
  · rw [if_pos c4] at h
    injection h with h; injection h with ha hb; subst ha hb; exact consumes_noval rfl
  rw [if_neg c4] at h
  by_cases c5 : code = 222
  · rw [if_pos c5] at h
    exact plainValue_consumes' h rfl
  rw [if_neg c5] at h
  by_cases c6 : code = 223
  · rw [if_pos c6] at h
    dsimp only at h
    split at h
    · exact plainValue_consumes' h rfl
    · exact Consumes.of_eq_next (wireMarker_consumes h) rfl
  rw [if_neg c6] at h
  by_cases c7 : code = 224
  · rw [if_pos c7] at h
    dsimp only at h
    split at h
    · exact plainValue_consumes' h rfl
    · exact Consumes.of_eq_next (wireStatsMarker_consumes h) rfl
  rw [if_neg c7] at h
  by_cases c8 : code = 225
  · rw [if_pos c8] at h
    dsimp only at h
    split at h
    · exact plainValue_consumes' h rfl
    · exact Consumes.of_eq_next (wireStatsMarker_consumes h) rfl
  rw [if_neg c8] at h
  by_cases c9 : code = 232
  · rw [if_pos c9] at h
    dsimp only at h
    split at h
    · exact plainValue_consumes' h rfl
    · exact Consumes.of_eq_next (wireMarker_consumes h) rfl
  rw [if_neg c9] at h
  by_cases c10 : code = 235
  · rw [if_pos c10] at h
    injection h with h; injection h with ha hb; subst ha hb; exact consumes_noval rfl
  rw [if_neg c10] at h
  by_cases c11 : code = 236 ∨ code = 237
  · rw [if_pos c11] at h
    exact plainValue_consumes h
  rw [if_neg c11] at h
  cases h

theorem wireOperator_consumes {o : SubsetOut} {id : Nat} {s s' : WSt} {n : Node}
    (h : wireOperator o id s = .ok (n, s')) : Consumes s s' (idx1 n) :=
  wireOperatorCY_consumes h

theorem idxList_append (a b : List Node) : idxList (a ++ b) = idxList a ++ idxList b := by
  induction a with
  | nil => rw [idxList.eq_1]; rfl
  | cons x xs ih =>
    rw [List.cons_append, idxList.eq_2, idxList.eq_2, ih, List.append_assoc]

/-- the repetition loop, for any body with the property -/
theorem wireRepeat_consumes (f : WSt → CM (List Node × WSt)) (k : Nat)
    (hf : ∀ s ns s', f s = .ok (ns, s') → Consumes s s' (idxList ns) ∧ ns.length = k) :
    ∀ n s ns s', wireRepeat f n s = .ok (ns, s') → Consumes s s' (idxList ns) ∧ ns.length = n * k := by
  intro n
  induction n with
  | zero =>
    intro s ns s' h
    unfold wireRepeat at h
    injection h with h; injection h with ha hb; subst ha hb
    simp only [idxList, List.length_nil, Nat.zero_mul, and_true]
    exact Consumes.refl s
  | succ n ih =>
    intro s ns s' h
    unfold wireRepeat at h
    split at h
    · cases h
    · next ns1 s1 h1 =>
      split at h
      · cases h
      · next ns2 s2 h2 =>
        injection h with h; injection h with ha hb; subst ha hb
        obtain ⟨c1, l1⟩ := hf _ _ _ h1
        obtain ⟨c2, l2⟩ := ih _ _ _ h2
        rw [idxList_append]
        refine ⟨c1.trans c2, ?_⟩
        rw [List.length_append, l1, l2, Nat.succ_mul, Nat.add_comm]

mutual
theorem wireList_consumes (o : SubsetOut) : ∀ (ds : List Desc) (s : WSt) (ns : List Node) (s' : WSt),
    wireList o ds s = .ok (ns, s') → Consumes s s' (idxList ns) ∧ ns.length = ds.length
  | [], s, ns, s', h => by
    unfold wireList at h
    injection h with h; injection h with ha hb; subst ha hb
    simp only [idxList, List.length_nil, and_true]
    exact Consumes.refl s
  | d :: ds, s, ns, s', h => by
    unfold wireList at h
    split at h
    · cases h
    · next n s1 h1 =>
      split at h
      · cases h
      · next ns2 s2 h2 =>
        injection h with h; injection h with ha hb; subst ha hb
        have c1 := wire1_consumes o d s n s1 h1
        obtain ⟨c2, l2⟩ := wireList_consumes o ds s1 ns2 s2 h2
        simp only [idxList, List.length_cons, l2, and_true]
        exact c1.trans c2

theorem wire1_consumes (o : SubsetOut) : ∀ (d : Desc) (s : WSt) (n : Node) (s' : WSt),
    wire1 o d s = .ok (n, s') → Consumes s s' (idx1 n)
  | d, s0, n, s', h => by
    unfold wire1 at h
    simp only at h
    split at h
    · injection h with h; injection h with ha hb; subst ha hb
      apply consumes_noval
      split <;> rfl
    · have hs0 : (if s0.dnp ≠ 0 then { s0 with dnp := s0.dnp - 1 } else s0 : WSt).next = s0.next := by
        split <;> rfl
      refine Consumes.of_eq_next ?_ hs0
      split at h
      · exact wireElement_consumes h
      · next _ id ms _ =>
        split at h
        · cases h
        · next ns s1 hr =>
          injection h with h; injection h with ha hb; subst ha hb
          have := wireRepeat_consumes (wireList o ms) ms.length
            (fun s ns s' hh => wireList_consumes o ms s ns s' hh) _ _ _ _ hr
          simp only [idx1]
          exact this.1
      · next _ id f ms _ =>
        split at h
        · cases h
        · next i s1 ht =>
          obtain ⟨hi, hs1, _⟩ := take_ok ht
          split at h
          · cases h
          · next cnt _ =>
            split at h
            · cases h
            · next ns s2 hr =>
              injection h with h; injection h with ha hb; subst ha hb
              have := wireRepeat_consumes (wireList o ms) ms.length
                (fun s ns s' hh => wireList_consumes o ms s ns s' hh) _ _ _ _ hr
              simp only [idx1, valueIdx_nil]
              have c1 : Consumes (if s0.dnp ≠ 0 then { s0 with dnp := s0.dnp - 1 } else s0 : WSt) (s1.register i) [i] :=
                consumes_one hi (by simp [WSt.register, hs1])
              exact c1.trans this.1
      · exact wireOperator_consumes h
      · next _ id ms _ =>
        split at h
        · cases h
        · next ns s1 hl =>
          injection h with h; injection h with ha hb; subst ha hb
          simp only [idx1]
          exact (wireList_consumes o ms _ _ _ hl).1
      · exact plainValue_consumes h
      · cases h
end

end Bufr.C09
