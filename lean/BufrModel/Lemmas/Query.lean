/-
  Lemmas for C16 (data queries): Python slice semantics, `filter_for_entities`, the correspondence between
  the structural query model and the path-recursive specification.
-/
import BufrModel.View.Query
import BufrModel.Spec.EvalPath
namespace Bufr.C16
open Bufr.Query Bufr.PathLang

theorem mem_progression_up (lo hi s i : Nat) (hs : 0 < s) :
    i ∈ (List.range ((hi - lo + s - 1) / s)).map (fun j => lo + j * s) ↔
      ∃ j, i = lo + j * s ∧ lo + j * s < hi := by
  simp only [List.mem_map, List.mem_range]
  constructor
  · rintro ⟨j, hj, rfl⟩
    refine ⟨j, rfl, ?_⟩
    have h1 : (j + 1) * s ≤ hi - lo + s - 1 := (Nat.le_div_iff_mul_le hs).mp hj
    rw [Nat.succ_mul] at h1
    omega
  · rintro ⟨j, rfl, hlt⟩
    refine ⟨j, ?_, rfl⟩
    apply (Nat.le_div_iff_mul_le hs).mpr
    rw [Nat.succ_mul]
    omega

theorem mem_progression_down (st sp s i : Nat) (hs : 0 < s) :
    i ∈ (List.range ((st - sp + s - 1) / s)).map (fun j => st - 1 - j * s) ↔
      ∃ j, i = st - 1 - j * s ∧ sp + j * s < st := by
  simp only [List.mem_map, List.mem_range]
  constructor
  · rintro ⟨j, hj, rfl⟩
    refine ⟨j, rfl, ?_⟩
    have h1 : (j + 1) * s ≤ st - sp + s - 1 := (Nat.le_div_iff_mul_le hs).mp hj
    rw [Nat.succ_mul] at h1
    omega
  · rintro ⟨j, rfl, hlt⟩
    refine ⟨j, ?_, rfl⟩
    apply (Nat.le_div_iff_mul_le hs).mpr
    rw [Nat.succ_mul]
    omega

theorem clamp_bounds (n : Nat) (lower upper x : Int) (h : lower ≤ upper) (hu : upper ≤ n) (hu' : (n : Int) - 1 ≤ upper)
    (hl : -1 ≤ lower) (hl' : lower ≤ 0) :
    lower ≤ clampIdx n lower upper x ∧ clampIdx n lower upper x ≤ upper := by
  unfold clampIdx
  split <;> omega

theorem up_int (start stop step : Int) (i : Nat) (ha : 0 ≤ start) (hb : 0 ≤ stop) (hpos : 0 < step) :
    i ∈ (List.range ((stop.toNat - start.toNat + step.toNat - 1) / step.toNat)).map (fun j => start.toNat + j * step.toNat) ↔
      ∃ j : Nat, (i : Int) = start + j * step ∧ (i : Int) < stop := by
  rw [mem_progression_up _ _ _ _ (by omega)]
  obtain ⟨s, rfl⟩ : ∃ s : Nat, step = s := ⟨step.toNat, by omega⟩
  obtain ⟨lo, rfl⟩ : ∃ lo : Nat, start = lo := ⟨start.toNat, by omega⟩
  obtain ⟨hi, rfl⟩ : ∃ hi : Nat, stop = hi := ⟨stop.toNat, by omega⟩
  simp only [Int.toNat_natCast]
  constructor
  · rintro ⟨j, h1, h2⟩
    refine ⟨j, ?_, ?_⟩
    · rw [h1]; push_cast; rfl
    · rw [h1]; exact_mod_cast h2
  · rintro ⟨j, h1, h2⟩
    have e : i = lo + j * s := by exact_mod_cast h1
    refine ⟨j, e, ?_⟩
    rw [← e]; exact_mod_cast h2

theorem down_int (start stop step : Int) (i : Nat) (ha : -1 ≤ start) (hb : -1 ≤ stop) (hneg : step < 0) :
    i ∈ (List.range (((start + 1).toNat - (stop + 1).toNat + (-step).toNat - 1) / (-step).toNat)).map
        (fun j => (start + 1).toNat - 1 - j * (-step).toNat) ↔
      ∃ j : Nat, (i : Int) = start + j * step ∧ stop < (i : Int) := by
  rw [mem_progression_down _ _ _ _ (by omega)]
  obtain ⟨s, rfl⟩ : ∃ s : Nat, step = -(s : Int) := ⟨(-step).toNat, by omega⟩
  obtain ⟨st, rfl⟩ : ∃ st : Nat, start = (st : Int) - 1 := ⟨(start + 1).toNat, by omega⟩
  obtain ⟨sp, rfl⟩ : ∃ sp : Nat, stop = (sp : Int) - 1 := ⟨(stop + 1).toNat, by omega⟩
  simp only [Int.sub_add_cancel, Int.toNat_natCast, Int.neg_neg]
  constructor
  · rintro ⟨j, h1, h2⟩
    refine ⟨j, ?_, ?_⟩
    · have : ((j : Int) * -(s : Int)) = -((j * s : Nat) : Int) := by push_cast; rw [Int.mul_neg]
      rw [this]; omega
    · omega
  · rintro ⟨j, h1, h2⟩
    have : ((j : Int) * -(s : Int)) = -((j * s : Nat) : Int) := by push_cast; rw [Int.mul_neg]
    rw [this] at h1
    refine ⟨j, ?_, ?_⟩ <;> omega

theorem boundUp_bounds (n : Nat) (d : Int) (hd0 : 0 ≤ d) (hdn : d ≤ n) (x : Option Int) :
    0 ≤ boundUp n d x ∧ boundUp n d x ≤ n := by
  cases x with
  | none => exact ⟨hd0, hdn⟩
  | some v => exact clamp_bounds n 0 n v (by omega) (by omega) (by omega) (by omega) (by omega)

theorem boundDown_bounds (n : Nat) (d : Int) (hd0 : -1 ≤ d) (hdn : d ≤ (n : Int) - 1) (x : Option Int) :
    -1 ≤ boundDown n d x ∧ boundDown n d x ≤ (n : Int) - 1 := by
  cases x with
  | none => exact ⟨hd0, hdn⟩
  | some v => exact clamp_bounds n (-1) (n - 1) v (by omega) (by omega) (by omega) (by omega) (by omega)

theorem pyIndices_up (a b : Option Int) (step : Int) (n : Nat) (hpos : 0 < step) :
    Spec.pyIndices a b step n = (boundUp n 0 a, boundUp n n b) := by
  simp only [Spec.pyIndices, if_neg (show ¬ step < 0 by omega)]
  cases a <;> cases b <;> rfl

theorem pyIndices_down (a b : Option Int) (step : Int) (n : Nat) (hneg : step < 0) :
    Spec.pyIndices a b step n = (boundDown n ((n : Int) - 1) a, boundDown n (-1) b) := by
  simp only [Spec.pyIndices, if_pos hneg]
  cases a <;> cases b <;> rfl

theorem pySliceStep_mem (a b : Option Int) (step : Int) (n i : Nat) (hstep : step ≠ 0) :
    i ∈ pySliceStep a b step n ↔
      Spec.inPyRange (Spec.pyIndices a b step n).1 (Spec.pyIndices a b step n).2 step i := by
  by_cases hpos : 0 < step
  · rw [pyIndices_up a b step n hpos]
    simp only [pySliceStep, Spec.inPyRange, if_neg hstep, if_pos hpos]
    exact up_int _ _ _ _ (boundUp_bounds n 0 (by omega) (by omega) a).1 (boundUp_bounds n n (by omega) (by omega) b).1 hpos
  · have hneg : step < 0 := by omega
    rw [pyIndices_down a b step n hneg]
    simp only [pySliceStep, Spec.inPyRange, if_neg hstep, if_neg hpos]
    exact down_int _ _ _ _ (boundDown_bounds n _ (by omega) (by omega) a).1 (boundDown_bounds n _ (by omega) (by omega) b).1 hneg

theorem pySliceStep_lt (a b : Option Int) (step : Int) (n : Nat) : ∀ i ∈ pySliceStep a b step n, i < n := by
  intro i hi
  by_cases hstep : step = 0
  · simp [pySliceStep, hstep] at hi
  simp only [pySliceStep, if_neg hstep] at hi
  by_cases hpos : 0 < step
  · simp only [if_pos hpos] at hi
    rw [mem_progression_up _ _ _ _ (by omega)] at hi
    obtain ⟨j, rfl, h2⟩ := hi
    have := (boundUp_bounds n n (by omega) (by omega) b).2
    omega
  · simp only [if_neg hpos] at hi
    rw [mem_progression_down _ _ _ _ (by omega)] at hi
    obtain ⟨j, rfl, h2⟩ := hi
    have := (boundDown_bounds n ((n : Int) - 1) (by omega) (by omega) a).2
    omega

theorem pairwise_progression_up (lo s k : Nat) (hs : 0 < s) :
    ((List.range k).map (fun j => lo + j * s)).Pairwise (· < ·) := by
  rw [List.pairwise_map]
  refine List.Pairwise.imp ?_ List.pairwise_lt_range
  intro a b hab
  have : a * s < b * s := Nat.mul_lt_mul_of_pos_right hab hs
  omega

theorem pySliceStep_sorted_up (a b : Option Int) (step : Int) (n : Nat) (hpos : 0 < step) :
    (pySliceStep a b step n).Pairwise (· < ·) := by
  simp only [pySliceStep, if_neg (show ¬ step = 0 by omega), if_pos hpos]
  exact pairwise_progression_up _ _ _ (by omega)

theorem pySliceStep_sorted_down (a b : Option Int) (step : Int) (n : Nat) (hneg : step < 0) :
    (pySliceStep a b step n).Pairwise (· > ·) := by
  simp only [pySliceStep, if_neg (show ¬ step = 0 by omega), if_neg (show ¬ 0 < step by omega)]
  rw [List.pairwise_iff_getElem]
  intro i j hi hj hij
  simp only [List.length_map, List.length_range] at hi hj
  simp only [List.getElem_map, List.getElem_range]
  have hs : 0 < (-step).toNat := by omega
  have hj' := hj
  rw [Nat.lt_div_iff_mul_lt hs] at hj'
  have h1 : (j + 1) * (-step).toNat ≤ _ := (Nat.le_div_iff_mul_le hs).mp hj
  rw [Nat.succ_mul] at h1
  have : i * (-step).toNat < j * (-step).toNat := Nat.mul_lt_mul_of_pos_right hij hs
  omega

theorem pySliceStep_nodup (a b : Option Int) (step : Int) (n : Nat) : (pySliceStep a b step n).Nodup := by
  by_cases h0 : step = 0
  · simp [pySliceStep, h0]
  by_cases hpos : 0 < step
  · exact (pySliceStep_sorted_up a b step n hpos).imp (fun h => Nat.ne_of_lt h)
  · exact (pySliceStep_sorted_down a b step n (by omega)).imp (fun h => Nat.ne_of_gt h)

theorem map_add_range (lo k : Nat) : (List.range k).map (fun j => lo + j * 1) = List.range' lo k := by
  rw [List.range'_eq_map_range]
  simp

/-- `[:]` -/
theorem pySlice_all (n : Nat) : pySlice (.range none none none) n = List.range n := by
  simp only [pySlice, pySliceRange, pySliceStep, Option.getD_none, boundUp]
  simp only [show ¬ ((1 : Int) = 0) by decide, if_false, show (0 : Int) < 1 by decide, if_true]
  simp only [Int.toNat_zero, Int.toNat_natCast, Int.toNat_one, Nat.sub_zero, Nat.add_sub_cancel, Nat.div_one]
  rw [map_add_range, List.range_eq_range']

/-- `[a:b]` with non-negative bounds -/
theorem pySlice_ab (a b n : Nat) :
    pySlice (.range (some (a : Int)) (some (b : Int)) none) n = List.range' (min a n) (min b n - min a n) := by
  simp only [pySlice, pySliceRange, pySliceStep, Option.getD_none, boundUp, clampIdx]
  simp only [show ¬ ((1 : Int) = 0) by decide, if_false, show (0 : Int) < 1 by decide, if_true]
  simp only [Int.toNat_one, Nat.add_sub_cancel, Nat.div_one, map_add_range]
  have h1 : (if (a : Int) < 0 then max ((a : Int) + n) 0 else min (a : Int) n).toNat = min a n := by
    rw [if_neg (by omega)]; omega
  have h2 : (if (b : Int) < 0 then max ((b : Int) + n) 0 else min (b : Int) n).toNat = min b n := by
    rw [if_neg (by omega)]; omega
  rw [h1, h2]

/-- `[-k]` as the parser builds it: `slice(-k, -k + 1)` or `slice(-1, None)` -/
theorem pySlice_neg (k n : Nat) (hk : 1 ≤ k) :
    pySlice (.range (some (-(k : Int))) (if -(k : Int) ≠ -1 then some (-(k : Int) + 1) else none) none) n =
      if k ≤ n then [n - k] else [] := by
  simp only [pySlice, pySliceRange, pySliceStep, Option.getD_none]
  simp only [show ¬ ((1 : Int) = 0) by decide, if_false, show (0 : Int) < 1 by decide, if_true]
  simp only [Int.toNat_one, Nat.add_sub_cancel, Nat.div_one, map_add_range]
  have h1 : (boundUp n 0 (some (-(k : Int)))).toNat = n - k := by
    simp only [boundUp, clampIdx]; rw [if_pos (by omega)]; omega
  rw [h1]
  by_cases h : -(k : Int) ≠ -1
  · rw [if_pos h]
    have h2 : (boundUp n n (some (-(k : Int) + 1))).toNat = n - k + (if k ≤ n then 1 else 0) := by
      simp only [boundUp, clampIdx]; rw [if_pos (by omega)]; split <;> omega
    rw [h2]
    split <;> simp
  · rw [if_neg h]
    have hk1 : k = 1 := by omega
    subst hk1
    simp only [boundUp, Int.toNat_natCast]
    by_cases hn : 1 ≤ n
    · rw [if_pos hn, show n - (n - 1) = 1 by omega]; rfl
    · rw [if_neg hn, show n - (n - 1) = 0 by omega]; rfl

theorem mapIdx_congr {β : Type} (f g : Nat → CM β) (l : List Nat) (h : ∀ i ∈ l, f i = g i) :
    mapIdx f l = mapIdx g l := by
  induction l with
  | nil => rfl
  | cons i is ih =>
    simp only [mapIdx]
    rw [h i (List.mem_cons_self), ih (fun j hj => h j (List.mem_cons_of_mem _ hj))]

theorem mapIdx_find {β : Type} (f : Nat → CM (Nat × β)) (hkey : ∀ i b, f i = .ok b → b.1 = i) :
    ∀ (l : List Nat) (rs : List (Nat × β)), mapIdx f l = .ok rs →
      (∀ i ∈ l, ∃ b, f i = .ok b ∧ rs.find? (·.1 == i) = some b) ∧
      (∀ i, i ∉ l → rs.find? (·.1 == i) = none) := by
  intro l
  induction l with
  | nil =>
    intro rs h
    simp only [mapIdx] at h
    injection h with h; subst h
    exact ⟨fun i hi => absurd hi List.not_mem_nil, fun i _ => rfl⟩
  | cons i0 is ih =>
    intro rs h
    simp only [mapIdx] at h
    split at h
    · cases h
    · next b0 hb0 =>
      split at h
      · cases h
      · next bs hbs =>
        injection h with h; subst h
        obtain ⟨ih1, ih2⟩ := ih bs hbs
        have hk := hkey i0 b0 hb0
        constructor
        · intro i hi
          by_cases hii : i = i0
          · subst hii
            exact ⟨b0, hb0, by simp [List.find?, hk]⟩
          · have hi' : i ∈ is := by
              cases hi with
              | head => exact absurd rfl hii
              | tail _ h => exact h
            obtain ⟨b, hb, hf⟩ := ih1 i hi'
            refine ⟨b, hb, ?_⟩
            rw [List.find?_cons_of_neg]
            · exact hf
            · simp only [hk, beq_iff_eq]; exact fun h => hii h.symm
        · intro i hi
          have hii : i ≠ i0 := fun h => hi (h ▸ List.mem_cons_self)
          rw [List.find?_cons_of_neg]
          · exact ih2 i (fun h => hi (List.mem_cons_of_mem _ h))
          · simp only [hk, beq_iff_eq]; exact fun h => hii h.symm

/-- selecting afterwards = running the loop over the selected indices, for any per-subset function that fails
    with `Err.other` outside `range n` -/
theorem restrict_eq_mapIdx (f : Nat → CM (Nat × List QV)) (n : Nat) (rs : List (Nat × List QV))
    (hkey : ∀ i b, f i = .ok b → b = (i, b.2))
    (hout : ∀ i, n ≤ i → f i = .error .other)
    (h : mapIdx f (List.range n) = .ok rs) (idxs : List Nat) :
    mapIdx f idxs = mapIdx (fun i => match (QResult.mk rs).get? i with
      | some vs => .ok (i, vs) | none => .error .other) idxs := by
  obtain ⟨h1, h2⟩ := mapIdx_find f (fun i b hb => by rw [hkey i b hb]) (List.range n) rs h
  apply mapIdx_congr
  intro i _
  by_cases hi : i < n
  · obtain ⟨b, hb, hf⟩ := h1 i (List.mem_range.mpr hi)
    simp only [QResult.get?, hf, Option.map_some]
    rw [hb, hkey i b hb]
  · rw [hout i (by omega)]
    simp only [QResult.get?, h2 i (fun h => hi (List.mem_range.mp h)), Option.map_none]

variable {α : Type}

theorem insertPos_perm (p : Nat × α) (l : List (Nat × α)) : (insertPos p l).Perm (p :: l) := by
  induction l with
  | nil => exact List.Perm.refl _
  | cons q qs ih =>
    simp only [insertPos]
    split
    · exact List.Perm.refl _
    · exact (List.Perm.cons q ih).trans (List.Perm.swap p q qs)

theorem sortByPos_perm (l : List (Nat × α)) : (sortByPos l).Perm l := by
  induction l with
  | nil => exact List.Perm.refl _
  | cons p ps ih =>
    show (insertPos p (sortByPos ps)).Perm (p :: ps)
    exact (insertPos_perm p _).trans (List.Perm.cons p ih)

theorem insertPos_sorted (p : Nat × α) (l : List (Nat × α)) (h : l.Pairwise (fun a b => a.1 ≤ b.1)) :
    (insertPos p l).Pairwise (fun a b => a.1 ≤ b.1) := by
  induction l with
  | nil => exact List.pairwise_singleton _ _
  | cons q qs ih =>
    simp only [insertPos]
    rw [List.pairwise_cons] at h
    split
    · next hle =>
      rw [List.pairwise_cons]
      refine ⟨?_, List.pairwise_cons.mpr h⟩
      intro x hx
      rcases List.mem_cons.mp hx with rfl | hx
      · exact hle
      · exact Nat.le_trans hle (h.1 x hx)
    · next hnle =>
      rw [List.pairwise_cons]
      refine ⟨?_, ih h.2⟩
      intro x hx
      have := (insertPos_perm p qs).subset hx
      rcases List.mem_cons.mp this with rfl | hx
      · omega
      · exact h.1 x hx

theorem sortByPos_sorted (l : List (Nat × α)) : (sortByPos l).Pairwise (fun a b => a.1 ≤ b.1) := by
  induction l with
  | nil => exact List.Pairwise.nil
  | cons p ps ih => exact insertPos_sorted p _ ih

theorem enumFrom_map_snd (k : Nat) (l : List α) : (enumFrom k l).map (·.2) = l := by
  induction l generalizing k with
  | nil => rfl
  | cons x xs ih => simp only [enumFrom, List.map_cons, ih]

theorem mem_enumFrom (k : Nat) (l : List α) (r : Nat) (x : α) :
    (r, x) ∈ enumFrom k l ↔ k ≤ r ∧ l[r - k]? = some x := by
  induction l generalizing k with
  | nil => simp [enumFrom]
  | cons y ys ih =>
    simp only [enumFrom, List.mem_cons, Prod.mk.injEq, ih]
    constructor
    · rintro (⟨rfl, rfl⟩ | ⟨h1, h2⟩)
      · simp
      · refine ⟨by omega, ?_⟩
        rw [show r - k = (r - (k + 1)) + 1 by omega, List.getElem?_cons_succ]; exact h2
    · rintro ⟨h1, h2⟩
      by_cases hr : r = k
      · left; subst hr; simp at h2; exact ⟨rfl, h2.symm⟩
      · right
        refine ⟨by omega, ?_⟩
        rw [show r - k = (r - (k + 1)) + 1 by omega, List.getElem?_cons_succ] at h2; exact h2

theorem enumFrom_pairwise (k : Nat) (l : List α) : (enumFrom k l).Pairwise (fun a b => a.1 < b.1) := by
  induction l generalizing k with
  | nil => exact List.Pairwise.nil
  | cons y ys ih =>
    simp only [enumFrom]
    rw [List.pairwise_cons]
    refine ⟨?_, ih (k + 1)⟩
    intro p hp
    have := (mem_enumFrom (k + 1) ys p.1 p.2).mp hp
    omega

/-- sorting the entries a slice picks from a list with increasing keys = keeping, in list order, the entries
    whose rank the slice lists -/
theorem sort_pick (l : List (Nat × α)) (hl : l.Pairwise (fun a b => a.1 < b.1)) (idxs : List Nat) (hn : idxs.Nodup) :
    sortByPos (idxs.filterMap (fun i => l[i]?)) =
      ((enumFrom 0 l).filter (fun p => decide (p.1 ∈ idxs))).map (·.2) := by
  have hsub : (((enumFrom 0 l).filter (fun p => decide (p.1 ∈ idxs))).map (·.2)).Sublist l := by
    have := (List.filter_sublist (p := fun p => decide (p.1 ∈ idxs)) (l := enumFrom 0 l)).map (·.2)
    rwa [enumFrom_map_snd] at this
  have hkeys : ∀ a b, a ∈ l → b ∈ l → a.1 ≤ b.1 → b.1 ≤ a.1 → a = b := by
    intro a b ha hb h1 h2
    obtain ⟨i, hi, rfl⟩ := List.mem_iff_getElem.mp ha
    obtain ⟨j, hj, rfl⟩ := List.mem_iff_getElem.mp hb
    rw [List.pairwise_iff_getElem] at hl
    rcases Nat.lt_trichotomy i j with h | h | h
    · have := hl i j hi hj h; omega
    · subst h; rfl
    · have := hl j i hj hi h; omega
  have hnd : l.Nodup := hl.imp (fun {a b} h hab => by rw [hab] at h; exact Nat.lt_irrefl _ h)
  apply List.Perm.eq_of_pairwise (le := fun a b => a.1 ≤ b.1)
  · intro a b ha hb
    have ha' : a ∈ l := by
      have := (sortByPos_perm _).subset ha
      obtain ⟨i, _, hi⟩ := List.mem_filterMap.mp this
      exact List.mem_of_getElem? hi
    exact hkeys a b ha' (hsub.subset hb)
  · exact sortByPos_sorted _
  · exact (hl.sublist hsub).imp (fun h => Nat.le_of_lt h)
  · refine (sortByPos_perm _).trans ?_
    rw [List.perm_ext_iff_of_nodup]
    · intro x
      simp only [List.mem_filterMap, List.mem_map, List.mem_filter, decide_eq_true_eq]
      constructor
      · rintro ⟨i, hi, hx⟩
        exact ⟨(i, x), ⟨(mem_enumFrom 0 l i x).mpr ⟨Nat.zero_le _, hx⟩, hi⟩, rfl⟩
      · rintro ⟨⟨i, y⟩, ⟨hm, hi⟩, rfl⟩
        exact ⟨i, hi, ((mem_enumFrom 0 l i y).mp hm).2⟩
    · -- the picked entries are distinct: distinct ranks give distinct entries
      rw [List.Nodup, List.pairwise_filterMap]
      refine hn.imp ?_
      intro i j hij x hx y hy hxy
      subst hxy
      have hi : i < l.length := by
        rcases Nat.lt_or_ge i l.length with h | h
        · exact h
        · rw [List.getElem?_eq_none h] at hx; cases hx
      have hj : j < l.length := by
        rcases Nat.lt_or_ge j l.length with h | h
        · exact h
        · rw [List.getElem?_eq_none h] at hy; cases hy
      rw [List.getElem?_eq_getElem hi] at hx
      rw [List.getElem?_eq_getElem hj] at hy
      rw [List.pairwise_iff_getElem] at hl
      rcases Nat.lt_trichotomy i j with h | h | h
      · have := hl i j hi hj h
        rw [Option.some.inj hx, Option.some.inj hy] at this; exact Nat.lt_irrefl _ this
      · exact hij h
      · have := hl j i hj hi h
        rw [Option.some.inj hx, Option.some.inj hy] at this; exact Nat.lt_irrefl _ this
    · exact hnd.sublist hsub

theorem enumFrom_filter_snd (q : α → Bool) (k : Nat) (l : List α) :
    ((enumFrom k l).filter (fun p => q p.2)).map (·.2) = l.filter q := by
  induction l generalizing k with
  | nil => rfl
  | cons x xs ih =>
    simp only [enumFrom, List.filter_cons]
    split
    · simp only [List.map_cons, ih]
    · exact ih (k + 1)

theorem enumFrom_map {β : Type} (f : α → β) (k : Nat) (l : List α) :
    enumFrom k (l.map f) = (enumFrom k l).map (fun p => (p.1, f p.2)) := by
  induction l generalizing k with
  | nil => rfl
  | cons x xs ih => simp only [List.map_cons, enumFrom, ih]

theorem pick_map {β : Type} (f : α → β) (P : Nat → Bool) (l : List α) :
    (((enumFrom 0 l).filter (fun p => P p.1)).map (·.2)).map f =
      ((enumFrom 0 (l.map f)).filter (fun p => P p.1)).map (·.2) := by
  rw [enumFrom_map, List.filter_map, List.map_map, List.map_map]
  rfl

theorem sortByPos_toList (o : Option (Nat × α)) : sortByPos (o.toList ++ []) = o.toList := by
  cases o <;> rfl

/-- `filter_for_entities` when nothing is "kept" (separator other than `>`): the matches, the slice applied,
    document order -/
theorem filterEnt_eq (c : Comp) (cls : α → Match) (xs : List α) (hk : ∀ x ∈ xs, cls x ≠ .keep)
    (hs : Spec.sliceOK c.slice = true) :
    filterEnt c cls xs = .ok (Spec.pickSel c.slice (xs.filter (fun x => cls x = .hit))) := by
  have hkept : (enumFrom 0 xs).filter (fun p => cls p.2 = .keep) = [] := by
    rw [List.filter_eq_nil_iff]
    intro p hp
    have : p.2 ∈ xs := by
      have := List.mem_map_of_mem (f := (·.2)) hp
      rwa [enumFrom_map_snd] at this
    simpa using hk p.2 this
  have hm : ((enumFrom 0 xs).filter (fun p => cls p.2 = .hit)).map (·.2) = xs.filter (fun x => cls x = .hit) :=
    enumFrom_filter_snd (fun x => decide (cls x = .hit)) 0 xs
  unfold filterEnt
  simp only [hkept]
  cases hsl : c.slice with
  | idx k =>
    rw [hsl] at hs
    have hk0 : 0 ≤ k := by simpa [Spec.sliceOK] using hs
    simp only [if_pos hk0, sortByPos_toList, Spec.pickSel]
    have : ∀ o : Option (Nat × α), o.toList.map (·.2) = (o.map (·.2)).toList := by intro o; cases o <;> rfl
    rw [this, ← List.getElem?_map, hm]
    split <;> rfl
  | range a b s =>
    rw [hsl] at hs
    have hs0 : ¬ s = some 0 := by simpa [Spec.sliceOK] using hs
    simp only [if_neg hs0, List.append_nil, applySlice, Spec.pickSel]
    have hpw := (enumFrom_pairwise 0 xs).sublist (List.filter_sublist (p := fun p => decide (cls p.2 = .hit)))
    rw [← hm]
    generalize (enumFrom 0 xs).filter (fun p => decide (cls p.2 = .hit)) = M at hpw ⊢
    rw [sort_pick M hpw (pySlice (.range a b s) M.length) (pySliceStep_nodup a b _ _), List.length_map]
    rw [pick_map (fun (x : Nat × α) => x.2) (fun i => decide (i ∈ pySlice (.range a b s) M.length)) M]

theorem pickSel_map {β : Type} (f : α → β) (sl : Slice) (ms : List α) :
    (Spec.pickSel sl ms).map f = Spec.pickSel sl (ms.map f) := by
  cases sl with
  | idx k =>
    simp only [Spec.pickSel, List.getElem?_map]
    cases ms[k.toNat]? <;> rfl
  | range a b s =>
    simp only [Spec.pickSel, List.length_map]
    exact pick_map f (fun i => decide (i ∈ pySlice (.range a b s) ms.length)) ms

theorem pickSel_subset (sl : Slice) (ms : List α) : ∀ x ∈ Spec.pickSel sl ms, x ∈ ms := by
  intro x hx
  cases sl with
  | idx k =>
    simp only [Spec.pickSel] at hx
    cases h : ms[k.toNat]? with
    | none => rw [h] at hx; exact absurd hx List.not_mem_nil
    | some y =>
      rw [h] at hx
      simp only [Option.toList, List.mem_singleton] at hx
      subst hx; exact List.mem_of_getElem? h
  | range a b s =>
    simp only [Spec.pickSel] at hx
    have h1 : x ∈ (enumFrom 0 ms).map (·.2) :=
      (List.filter_sublist.map _).subset hx
    rwa [enumFrom_map_snd] at h1

theorem contList_length (ds : List DDesc) (ns : List Node) (c : Comp) (rest : List Comp) :
    (contList ds ns c rest).length = ns.length := by
  induction ns with
  | nil => simp [contList]
  | cons n ns ih => simp [contList, ih]

theorem contList_last (ds : List DDesc) (c : Comp) (ns : List Node) :
    ∀ p ∈ ns.zip (contList ds ns c []), nodeMatch ds c p.1 = .hit → p.2 = .ok [.node p.1] := by
  induction ns with
  | nil => intro p hp; simp [contList] at hp
  | cons n ns ih =>
    intro p hp hhit
    simp only [contList, List.zip_cons_cons, List.mem_cons] at hp
    rcases hp with rfl | hp
    · simp only [] at hhit
      simp only [hhit, contOf, List.isEmpty_nil, if_true]
    · exact ih p hp hhit

theorem concatConts_nodes (l : List (Node × Cont)) (h : ∀ p ∈ l, p.2 = .ok [.node p.1]) :
    concatConts (l.map (·.2)) = .ok (l.map (fun p => Hit.node p.1)) := by
  induction l with
  | nil => rfl
  | cons p ps ih =>
    simp only [List.map_cons, concatConts, h p (List.mem_cons_self),
      ih (fun q hq => h q (List.mem_cons_of_mem _ hq))]
    rfl

theorem zip_filter_fst (q : Node → Bool) (ns : List Node) (cs : List Cont) (hl : cs.length = ns.length) :
    ((ns.zip cs).filter (fun p => q p.1)).map (·.1) = ns.filter q := by
  induction ns generalizing cs with
  | nil => simp
  | cons n ns ih =>
    cases cs with
    | nil => simp at hl
    | cons c cs =>
      simp only [List.zip_cons_cons, List.filter_cons]
      simp only [List.length_cons, Nat.add_right_cancel_iff] at hl
      split
      · simp only [List.map_cons, ih cs hl]
      · exact ih cs hl

/-- one child step at the top level: the nodes whose label is the id, the slice applied, document order -/
theorem processOne_last (ds : List DDesc) (tree : List Node) (c : Comp) (hsep : c.sep ≠ '.')
    (hnk : ∀ n ∈ tree, nodeMatch ds c n ≠ .keep)
    (hs : Spec.sliceOK c.slice = true) :
    processOne ds tree [c] =
      .ok ((Spec.pickSel c.slice (tree.filter (fun n => nodeLabel ds n = some c.id))).map Hit.node) := by
  have hcls : ∀ n, nodeMatch ds c n = .hit ↔ nodeLabel ds n = some c.id := by
    intro n
    by_cases h : nodeLabel ds n = some c.id
    · simp [nodeMatch, h]
    · simp only [nodeMatch, h, if_false, iff_false]
      split
      · split <;> simp
      · simp
  simp only [processOne, if_neg hsep, selectRun]
  rw [filterEnt_eq c _ _ (fun p hp => hnk p.1 (List.of_mem_zip hp).1) hs]
  simp only
  rw [concatConts_nodes _ (fun p hp => by
    have hp' := pickSel_subset _ _ p hp
    rw [List.mem_filter] at hp'
    exact contList_last ds c tree p hp'.1 (by simpa using hp'.2))]
  congr 1
  rw [show (fun p : Node × Cont => Hit.node p.1) = Hit.node ∘ (·.1) from rfl, ← List.map_map, pickSel_map]
  congr 2
  rw [zip_filter_fst (fun n => decide (nodeMatch ds c n = .hit)) _ _ (contList_length ds tree c [])]
  congr 1
  funext n
  simp only [hcls]

end Bufr.C16
