/-
  Lemmas for C16 (data queries): Python slice semantics, `filter_for_entities`, the correspondence between
  the structural query model and the path-recursive specification.
-/
import BufrModel.View.Query
import BufrModel.Spec.EvalPath
namespace Bufr.C16
open Bufr.Query Bufr.PathLang

theorem mem_progression_up (lo hi s i : Nat) (hs : 0 < s) :
    i ∈ (List.range ((hi - lo + s - 1) / s)).map (fun j => lo + j * s) ↔
      ∃ j, i = lo + j * s ∧ lo + j * s < hi := by
  simp only [List.mem_map, List.mem_range]
  constructor
  · rintro ⟨j, hj, rfl⟩
    refine ⟨j, rfl, ?_⟩
    have h1 : (j + 1) * s ≤ hi - lo + s - 1 := (Nat.le_div_iff_mul_le hs).mp hj
    rw [Nat.succ_mul] at h1
    omega
  · rintro ⟨j, rfl, hlt⟩
    refine ⟨j, ?_, rfl⟩
    apply (Nat.le_div_iff_mul_le hs).mpr
    rw [Nat.succ_mul]
    omega

theorem mem_progression_down (st sp s i : Nat) (hs : 0 < s) :
    i ∈ (List.range ((st - sp + s - 1) / s)).map (fun j => st - 1 - j * s) ↔
      ∃ j, i = st - 1 - j * s ∧ sp + j * s < st := by
  simp only [List.mem_map, List.mem_range]
  constructor
  · rintro ⟨j, hj, rfl⟩
    refine ⟨j, rfl, ?_⟩
    have h1 : (j + 1) * s ≤ st - sp + s - 1 := (Nat.le_div_iff_mul_le hs).mp hj
    rw [Nat.succ_mul] at h1
    omega
  · rintro ⟨j, rfl, hlt⟩
    refine ⟨j, ?_, rfl⟩
    apply (Nat.le_div_iff_mul_le hs).mpr
    rw [Nat.succ_mul]
    omega

theorem clamp_bounds (n : Nat) (lower upper x : Int) (h : lower ≤ upper) (hu : upper ≤ n) (hu' : (n : Int) - 1 ≤ upper)
    (hl : -1 ≤ lower) (hl' : lower ≤ 0) :
    lower ≤ clampIdx n lower upper x ∧ clampIdx n lower upper x ≤ upper := by
  unfold clampIdx
  split <;> omega

theorem up_int (start stop step : Int) (i : Nat) (ha : 0 ≤ start) (hb : 0 ≤ stop) (hpos : 0 < step) :
    i ∈ (List.range ((stop.toNat - start.toNat + step.toNat - 1) / step.toNat)).map (fun j => start.toNat + j * step.toNat) ↔
      ∃ j : Nat, (i : Int) = start + j * step ∧ (i : Int) < stop := by
  rw [mem_progression_up _ _ _ _ (by omega)]
  obtain ⟨s, rfl⟩ : ∃ s : Nat, step = s := ⟨step.toNat, by omega⟩
  obtain ⟨lo, rfl⟩ : ∃ lo : Nat, start = lo := ⟨start.toNat, by omega⟩
  obtain ⟨hi, rfl⟩ : ∃ hi : Nat, stop = hi := ⟨stop.toNat, by omega⟩
  simp only [Int.toNat_natCast]
  constructor
  · rintro ⟨j, h1, h2⟩
    refine ⟨j, ?_, ?_⟩
    · rw [h1]; push_cast; rfl
    · rw [h1]; exact_mod_cast h2
  · rintro ⟨j, h1, h2⟩
    have e : i = lo + j * s := by exact_mod_cast h1
    refine ⟨j, e, ?_⟩
    rw [← e]; exact_mod_cast h2

theorem down_int (start stop step : Int) (i : Nat) (ha : -1 ≤ start) (hb : -1 ≤ stop) (hneg : step < 0) :
    i ∈ (List.range (((start + 1).toNat - (stop + 1).toNat + (-step).toNat - 1) / (-step).toNat)).map
        (fun j => (start + 1).toNat - 1 - j * (-step).toNat) ↔
      ∃ j : Nat, (i : Int) = start + j * step ∧ stop < (i : Int) := by
  rw [mem_progression_down _ _ _ _ (by omega)]
  obtain ⟨s, rfl⟩ : ∃ s : Nat, step = -(s : Int) := ⟨(-step).toNat, by omega⟩
  obtain ⟨st, rfl⟩ : ∃ st : Nat, start = (st : Int) - 1 := ⟨(start + 1).toNat, by omega⟩
  obtain ⟨sp, rfl⟩ : ∃ sp : Nat, stop = (sp : Int) - 1 := ⟨(stop + 1).toNat, by omega⟩
  simp only [Int.sub_add_cancel, Int.toNat_natCast, Int.neg_neg]
  constructor
  · rintro ⟨j, h1, h2⟩
    refine ⟨j, ?_, ?_⟩
    · have : ((j : Int) * -(s : Int)) = -((j * s : Nat) : Int) := by push_cast; rw [Int.mul_neg]
      rw [this]; omega
    · omega
  · rintro ⟨j, h1, h2⟩
    have : ((j : Int) * -(s : Int)) = -((j * s : Nat) : Int) := by push_cast; rw [Int.mul_neg]
    rw [this] at h1
    refine ⟨j, ?_, ?_⟩ <;> omega

theorem boundUp_bounds (n : Nat) (d : Int) (hd0 : 0 ≤ d) (hdn : d ≤ n) (x : Option Int) :
    0 ≤ boundUp n d x ∧ boundUp n d x ≤ n := by
  cases x with
  | none => exact ⟨hd0, hdn⟩
  | some v => exact clamp_bounds n 0 n v (by omega) (by omega) (by omega) (by omega) (by omega)

theorem boundDown_bounds (n : Nat) (d : Int) (hd0 : -1 ≤ d) (hdn : d ≤ (n : Int) - 1) (x : Option Int) :
    -1 ≤ boundDown n d x ∧ boundDown n d x ≤ (n : Int) - 1 := by
  cases x with
  | none => exact ⟨hd0, hdn⟩
  | some v => exact clamp_bounds n (-1) (n - 1) v (by omega) (by omega) (by omega) (by omega) (by omega)

theorem pyIndices_up (a b : Option Int) (step : Int) (n : Nat) (hpos : 0 < step) :
    Spec.pyIndices a b step n = (boundUp n 0 a, boundUp n n b) := by
  simp only [Spec.pyIndices, if_neg (show ¬ step < 0 by omega)]
  cases a <;> cases b <;> rfl

theorem pyIndices_down (a b : Option Int) (step : Int) (n : Nat) (hneg : step < 0) :
    Spec.pyIndices a b step n = (boundDown n ((n : Int) - 1) a, boundDown n (-1) b) := by
  simp only [Spec.pyIndices, if_pos hneg]
  cases a <;> cases b <;> rfl

theorem pySliceStep_mem (a b : Option Int) (step : Int) (n i : Nat) (hstep : step ≠ 0) :
    i ∈ pySliceStep a b step n ↔
      Spec.inPyRange (Spec.pyIndices a b step n).1 (Spec.pyIndices a b step n).2 step i := by
  by_cases hpos : 0 < step
  · rw [pyIndices_up a b step n hpos]
    simp only [pySliceStep, Spec.inPyRange, if_neg hstep, if_pos hpos]
    exact up_int _ _ _ _ (boundUp_bounds n 0 (by omega) (by omega) a).1 (boundUp_bounds n n (by omega) (by omega) b).1 hpos
  · have hneg : step < 0 := by omega
    rw [pyIndices_down a b step n hneg]
    simp only [pySliceStep, Spec.inPyRange, if_neg hstep, if_neg hpos]
    exact down_int _ _ _ _ (boundDown_bounds n _ (by omega) (by omega) a).1 (boundDown_bounds n _ (by omega) (by omega) b).1 hneg

theorem pySliceStep_lt (a b : Option Int) (step : Int) (n : Nat) : ∀ i ∈ pySliceStep a b step n, i < n := by
  intro i hi
  by_cases hstep : step = 0
  · simp [pySliceStep, hstep] at hi
  simp only [pySliceStep, if_neg hstep] at hi
  by_cases hpos : 0 < step
  · simp only [if_pos hpos] at hi
    rw [mem_progression_up _ _ _ _ (by omega)] at hi
    obtain ⟨j, rfl, h2⟩ := hi
    have := (boundUp_bounds n n (by omega) (by omega) b).2
    omega
  · simp only [if_neg hpos] at hi
    rw [mem_progression_down _ _ _ _ (by omega)] at hi
    obtain ⟨j, rfl, h2⟩ := hi
    have := (boundDown_bounds n ((n : Int) - 1) (by omega) (by omega) a).2
    omega

theorem pairwise_progression_up (lo s k : Nat) (hs : 0 < s) :
    ((List.range k).map (fun j => lo + j * s)).Pairwise (· < ·) := by
  rw [List.pairwise_map]
  refine List.Pairwise.imp ?_ List.pairwise_lt_range
  intro a b hab
  have : a * s < b * s := Nat.mul_lt_mul_of_pos_right hab hs
  omega

theorem pySliceStep_sorted_up (a b : Option Int) (step : Int) (n : Nat) (hpos : 0 < step) :
    (pySliceStep a b step n).Pairwise (· < ·) := by
  simp only [pySliceStep, if_neg (show ¬ step = 0 by omega), if_pos hpos]
  exact pairwise_progression_up _ _ _ (by omega)

theorem pySliceStep_sorted_down (a b : Option Int) (step : Int) (n : Nat) (hneg : step < 0) :
    (pySliceStep a b step n).Pairwise (· > ·) := by
  simp only [pySliceStep, if_neg (show ¬ step = 0 by omega), if_neg (show ¬ 0 < step by omega)]
  rw [List.pairwise_iff_getElem]
  intro i j hi hj hij
  simp only [List.length_map, List.length_range] at hi hj
  simp only [List.getElem_map, List.getElem_range]
  have hs : 0 < (-step).toNat := by omega
  have hj' := hj
  rw [Nat.lt_div_iff_mul_lt hs] at hj'
  have h1 : (j + 1) * (-step).toNat ≤ _ := (Nat.le_div_iff_mul_le hs).mp hj
  rw [Nat.succ_mul] at h1
  have : i * (-step).toNat < j * (-step).toNat := Nat.mul_lt_mul_of_pos_right hij hs
  omega

theorem pySliceStep_nodup (a b : Option Int) (step : Int) (n : Nat) : (pySliceStep a b step n).Nodup := by
  by_cases h0 : step = 0
  · simp [pySliceStep, h0]
  by_cases hpos : 0 < step
  · exact (pySliceStep_sorted_up a b step n hpos).imp (fun h => Nat.ne_of_lt h)
  · exact (pySliceStep_sorted_down a b step n (by omega)).imp (fun h => Nat.ne_of_gt h)

theorem map_add_range (lo k : Nat) : (List.range k).map (fun j => lo + j * 1) = List.range' lo k := by
  rw [List.range'_eq_map_range]
  simp

/-- `[:]` -/
theorem pySlice_all (n : Nat) : pySlice (.range none none none) n = List.range n := by
  simp only [pySlice, pySliceRange, pySliceStep, Option.getD_none, boundUp]
  simp only [show ¬ ((1 : Int) = 0) by decide, if_false, show (0 : Int) < 1 by decide, if_true]
  simp only [Int.toNat_zero, Int.toNat_natCast, Int.toNat_one, Nat.sub_zero, Nat.add_sub_cancel, Nat.div_one]
  rw [map_add_range, List.range_eq_range']

/-- `[a:b]` with non-negative bounds -/
theorem pySlice_ab (a b n : Nat) :
    pySlice (.range (some (a : Int)) (some (b : Int)) none) n = List.range' (min a n) (min b n - min a n) := by
  simp only [pySlice, pySliceRange, pySliceStep, Option.getD_none, boundUp, clampIdx]
  simp only [show ¬ ((1 : Int) = 0) by decide, if_false, show (0 : Int) < 1 by decide, if_true]
  simp only [Int.toNat_one, Nat.add_sub_cancel, Nat.div_one, map_add_range]
  have h1 : (if (a : Int) < 0 then max ((a : Int) + n) 0 else min (a : Int) n).toNat = min a n := by
    rw [if_neg (by omega)]; omega
  have h2 : (if (b : Int) < 0 then max ((b : Int) + n) 0 else min (b : Int) n).toNat = min b n := by
    rw [if_neg (by omega)]; omega
  rw [h1, h2]

/-- `[-k]` as the parser builds it: `slice(-k, -k + 1)` or `slice(-1, None)` -/
theorem pySlice_neg (k n : Nat) (hk : 1 ≤ k) :
    pySlice (.range (some (-(k : Int))) (if -(k : Int) ≠ -1 then some (-(k : Int) + 1) else none) none) n =
      if k ≤ n then [n - k] else [] := by
  simp only [pySlice, pySliceRange, pySliceStep, Option.getD_none]
  simp only [show ¬ ((1 : Int) = 0) by decide, if_false, show (0 : Int) < 1 by decide, if_true]
  simp only [Int.toNat_one, Nat.add_sub_cancel, Nat.div_one, map_add_range]
  have h1 : (boundUp n 0 (some (-(k : Int)))).toNat = n - k := by
    simp only [boundUp, clampIdx]; rw [if_pos (by omega)]; omega
  rw [h1]
  by_cases h : -(k : Int) ≠ -1
  · rw [if_pos h]
    have h2 : (boundUp n n (some (-(k : Int) + 1))).toNat = n - k + (if k ≤ n then 1 else 0) := by
      simp only [boundUp, clampIdx]; rw [if_pos (by omega)]; split <;> omega
    rw [h2]
    split <;> simp
  · rw [if_neg h]
    have hk1 : k = 1 := by omega
    subst hk1
    simp only [boundUp, Int.toNat_natCast]
    by_cases hn : 1 ≤ n
    · rw [if_pos hn, show n - (n - 1) = 1 by omega]; rfl
    · rw [if_neg hn, show n - (n - 1) = 0 by omega]; rfl

theorem mapIdx_congr {β : Type} (f g : Nat → CM β) (l : List Nat) (h : ∀ i ∈ l, f i = g i) :
    mapIdx f l = mapIdx g l := by
  induction l with
  | nil => rfl
  | cons i is ih =>
    simp only [mapIdx]
    rw [h i (List.mem_cons_self), ih (fun j hj => h j (List.mem_cons_of_mem _ hj))]

theorem mapIdx_find {β : Type} (f : Nat → CM (Nat × β)) (hkey : ∀ i b, f i = .ok b → b.1 = i) :
    ∀ (l : List Nat) (rs : List (Nat × β)), mapIdx f l = .ok rs →
      (∀ i ∈ l, ∃ b, f i = .ok b ∧ rs.find? (·.1 == i) = some b) ∧
      (∀ i, i ∉ l → rs.find? (·.1 == i) = none) := by
  intro l
  induction l with
  | nil =>
    intro rs h
    simp only [mapIdx] at h
    injection h with h; subst h
    exact ⟨fun i hi => absurd hi List.not_mem_nil, fun i _ => rfl⟩
  | cons i0 is ih =>
    intro rs h
    simp only [mapIdx] at h
    split at h
    · cases h
    · next b0 hb0 =>
      split at h
      · cases h
      · next bs hbs =>
        injection h with h; subst h
        obtain ⟨ih1, ih2⟩ := ih bs hbs
        have hk := hkey i0 b0 hb0
        constructor
        · intro i hi
          by_cases hii : i = i0
          · subst hii
            exact ⟨b0, hb0, by simp [List.find?, hk]⟩
          · have hi' : i ∈ is := by
              cases hi with
              | head => exact absurd rfl hii
              | tail _ h => exact h
            obtain ⟨b, hb, hf⟩ := ih1 i hi'
            refine ⟨b, hb, ?_⟩
            rw [List.find?_cons_of_neg]
            · exact hf
            · simp only [hk, beq_iff_eq]; exact fun h => hii h.symm
        · intro i hi
          have hii : i ≠ i0 := fun h => hi (h ▸ List.mem_cons_self)
          rw [List.find?_cons_of_neg]
          · exact ih2 i (fun h => hi (List.mem_cons_of_mem _ h))
          · simp only [hk, beq_iff_eq]; exact fun h => hii h.symm

/-- selecting afterwards = running the loop over the selected indices, for any per-subset function that fails
    with `Err.other` outside `range n` -/
theorem restrict_eq_mapIdx (f : Nat → CM (Nat × List QV)) (n : Nat) (rs : List (Nat × List QV))
    (hkey : ∀ i b, f i = .ok b → b = (i, b.2))
    (hout : ∀ i, n ≤ i → f i = .error .other)
    (h : mapIdx f (List.range n) = .ok rs) (idxs : List Nat) :
    mapIdx f idxs = mapIdx (fun i => match (QResult.mk rs).get? i with
      | some vs => .ok (i, vs) | none => .error .other) idxs := by
  obtain ⟨h1, h2⟩ := mapIdx_find f (fun i b hb => by rw [hkey i b hb]) (List.range n) rs h
  apply mapIdx_congr
  intro i _
  by_cases hi : i < n
  · obtain ⟨b, hb, hf⟩ := h1 i (List.mem_range.mpr hi)
    simp only [QResult.get?, hf, Option.map_some]
    rw [hb, hkey i b hb]
  · rw [hout i (by omega)]
    simp only [QResult.get?, h2 i (fun h => hi (List.mem_range.mp h)), Option.map_none]

end Bufr.C16
