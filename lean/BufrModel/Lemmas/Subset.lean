/-
  Helper lemmas for C10 (model `Msg/Subset.lean`, specification `Spec/SubsetSpec.lean`).
-/
import BufrModel.Msg.Subset
import BufrModel.Spec.SubsetSpec
namespace Bufr.Subset
open Spec

/-! ### max / min -/

theorem maxI_eq_none {l : List Int} : maxI l = none ↔ l = [] := by
  cases l with
  | nil => simp [maxI]
  | cons x xs => simp only [maxI]; split <;> simp

theorem minI_eq_none {l : List Int} : minI l = none ↔ l = [] := by
  cases l with
  | nil => simp [minI]
  | cons x xs => simp only [minI]; split <;> simp

theorem maxI_spec {l : List Int} {mx : Int} (h : maxI l = some mx) : mx ∈ l ∧ ∀ i ∈ l, i ≤ mx := by
  induction l generalizing mx with
  | nil => simp [maxI] at h
  | cons x xs ih =>
    simp only [maxI] at h
    split at h
    · rename_i hn
      have : xs = [] := maxI_eq_none.mp hn
      subst this
      simp only [Option.some.injEq] at h
      subst h
      simp
    · rename_i y hy
      obtain ⟨hm, hb⟩ := ih hy
      simp only [Option.some.injEq] at h
      subst h
      constructor
      · split
        · simp
        · simp [hm]
      · intro i hi
        simp only [List.mem_cons] at hi
        rcases hi with rfl | hi
        · split <;> omega
        · have := hb i hi
          split <;> omega

theorem minI_spec {l : List Int} {mn : Int} (h : minI l = some mn) : mn ∈ l ∧ ∀ i ∈ l, mn ≤ i := by
  induction l generalizing mn with
  | nil => simp [minI] at h
  | cons x xs ih =>
    simp only [minI] at h
    split at h
    · rename_i hn
      have : xs = [] := minI_eq_none.mp hn
      subst this
      simp only [Option.some.injEq] at h
      subst h
      simp
    · rename_i y hy
      obtain ⟨hm, hb⟩ := ih hy
      simp only [Option.some.injEq] at h
      subst h
      constructor
      · split
        · simp
        · simp [hm]
      · intro i hi
        simp only [List.mem_cons] at hi
        rcases hi with rfl | hi
        · split <;> omega
        · have := hb i hi
          split <;> omega

theorem maxI_isSome {l : List Int} (h : l ≠ []) : ∃ mx, maxI l = some mx := by
  cases hm : maxI l with
  | none => exact absurd (maxI_eq_none.mp hm) h
  | some mx => exact ⟨mx, rfl⟩

theorem minI_isSome {l : List Int} (h : l ≠ []) : ∃ mn, minI l = some mn := by
  cases hm : minI l with
  | none => exact absurd (minI_eq_none.mp hm) h
  | some mn => exact ⟨mn, rfl⟩

/-! ### sorted distinct indices (specification side) -/

theorem mem_insertDistinct {x y : Int} {l : List Int} : y ∈ insertDistinct x l ↔ y = x ∨ y ∈ l := by
  induction l with
  | nil => simp [insertDistinct]
  | cons z zs ih =>
    simp only [insertDistinct]
    split
    · simp
    · split
      · rename_i h; subst h; simp
      · simp only [List.mem_cons, ih]
        constructor
        · rintro (h | h | h) <;> simp [h]
        · rintro (h | h | h) <;> simp [h]

theorem pairwise_insertDistinct {x : Int} {l : List Int} (h : l.Pairwise (· < ·)) :
    (insertDistinct x l).Pairwise (· < ·) := by
  induction l with
  | nil => simp [insertDistinct]
  | cons z zs ih =>
    simp only [insertDistinct]
    rw [List.pairwise_cons] at h
    split
    · rename_i hx
      rw [List.pairwise_cons]
      refine ⟨?_, List.pairwise_cons.mpr h⟩
      intro a ha
      simp only [List.mem_cons] at ha
      rcases ha with rfl | ha
      · exact hx
      · have := h.1 a ha; omega
    · split
      · exact List.pairwise_cons.mpr h
      · rw [List.pairwise_cons]
        refine ⟨?_, ih h.2⟩
        intro a ha
        rw [mem_insertDistinct] at ha
        rcases ha with rfl | ha
        · omega
        · exact h.1 a ha

theorem mem_sortedDistinct {y : Int} {l : List Int} : y ∈ sortedDistinct l ↔ y ∈ l := by
  induction l with
  | nil => simp [sortedDistinct]
  | cons x xs ih => simp [sortedDistinct, mem_insertDistinct, ih]

theorem pairwise_sortedDistinct (l : List Int) : (sortedDistinct l).Pairwise (· < ·) := by
  induction l with
  | nil => simp [sortedDistinct]
  | cons x xs ih => exact pairwise_insertDistinct ih

theorem length_insertDistinct {x : Int} {l : List Int} (h : l.Pairwise (· < ·)) :
    (insertDistinct x l).length = if x ∈ l then l.length else l.length + 1 := by
  induction l with
  | nil => simp [insertDistinct]
  | cons z zs ih =>
    rw [List.pairwise_cons] at h
    simp only [insertDistinct]
    split
    · rename_i hx
      have : x ∉ z :: zs := by
        intro hm
        simp only [List.mem_cons] at hm
        rcases hm with rfl | hm
        · omega
        · have := h.1 x hm; omega
      simp [this]
    · split
      · rename_i h2; subst h2; simp
      · rename_i h1 h2
        simp only [List.length_cons, ih h.2, List.mem_cons, h2, false_or]
        split <;> rfl

theorem mem_distinct {y : Int} {l : List Int} : y ∈ distinct l ↔ y ∈ l := by
  induction l with
  | nil => simp [distinct]
  | cons x xs ih =>
    simp only [distinct]
    split
    · rename_i h
      have hx : x ∈ xs := by simpa using h
      simp only [ih, List.mem_cons]
      constructor
      · exact Or.inr
      · rintro (rfl | h) <;> assumption
    · simp [ih]

theorem nodup_distinct (l : List Int) : (distinct l).Nodup := by
  induction l with
  | nil => simp [distinct]
  | cons x xs ih =>
    simp only [distinct]
    split
    · exact ih
    · rename_i h
      have hx : x ∉ xs := by simpa using h
      rw [List.nodup_cons]
      exact ⟨fun hm => hx (mem_distinct.mp hm), ih⟩

/-- the number of selected subsets the specification speaks of is `len(set(indices))` -/
theorem length_sortedDistinct (l : List Int) : (sortedDistinct l).length = distinctCount l := by
  induction l with
  | nil => simp [sortedDistinct, distinctCount, distinct]
  | cons x xs ih =>
    simp only [sortedDistinct, distinctCount, distinct]
    rw [length_insertDistinct (pairwise_sortedDistinct xs)]
    simp only [distinctCount] at ih
    by_cases hx : x ∈ xs
    · simp [hx, ih, mem_sortedDistinct]
    · simp [hx, ih, mem_sortedDistinct]

/-- a strictly increasing list is determined by its members -/
theorem pairwise_lt_ext {l₁ l₂ : List Int} (h₁ : l₁.Pairwise (· < ·)) (h₂ : l₂.Pairwise (· < ·))
    (h : ∀ x, x ∈ l₁ ↔ x ∈ l₂) : l₁ = l₂ := by
  induction l₁ generalizing l₂ with
  | nil =>
    cases l₂ with
    | nil => rfl
    | cons b bs => exact absurd ((h b).mpr (by simp)) (by simp)
  | cons a as ih =>
    cases l₂ with
    | nil => exact absurd ((h a).mp (by simp)) (by simp)
    | cons b bs =>
      rw [List.pairwise_cons] at h₁ h₂
      have hab : a = b := by
        have ha := (h a).mp (by simp)
        have hb := (h b).mpr (by simp)
        simp only [List.mem_cons] at ha hb
        rcases ha with ha | ha
        · exact ha
        · rcases hb with hb | hb
          · exact hb.symm
          · have := h₁.1 b hb; have := h₂.1 a ha; omega
      subst hab
      congr 1
      apply ih h₁.2 h₂.2
      intro x
      constructor
      · intro hx
        have := (h x).mp (by simp [hx])
        simp only [List.mem_cons] at this
        rcases this with rfl | this
        · have := h₁.1 x hx; omega
        · exact this
      · intro hx
        have := (h x).mpr (by simp [hx])
        simp only [List.mem_cons] at this
        rcases this with rfl | this
        · have := h₂.1 x hx; omega
        · exact this


/-! ### enumerate-and-filter = rows at the sorted distinct indices -/

/-- positions `k ≤ i < k + len` whose index is selected, in increasing order -/
def pos (idxs : List Int) (k len : Nat) : List Nat :=
  (List.range' k len).filter (fun i => idxs.contains (i : Int))

theorem mem_pos {idxs : List Int} {k len i : Nat} :
    i ∈ pos idxs k len ↔ (k ≤ i ∧ i < k + len) ∧ (i : Int) ∈ idxs := by
  simp [pos, List.mem_filter, List.mem_range'_1]

theorem selectFrom_eq {γ : Type} (d : γ) (idxs : List Int) (k : Nat) (rows : List γ) :
    selectFrom idxs k rows = (pos idxs k rows.length).map (fun i => rows.getD (i - k) d) := by
  induction rows generalizing k with
  | nil => simp [selectFrom, pos]
  | cons v vs ih =>
    have htail : (pos idxs (k + 1) vs.length).map (fun i => vs.getD (i - (k + 1)) d)
        = (pos idxs (k + 1) vs.length).map (fun i => (v :: vs).getD (i - k) d) := by
      apply List.map_congr_left
      intro i hi
      have := (mem_pos.mp hi).1.1
      have e : i - k = (i - (k + 1)) + 1 := by omega
      rw [e, List.getD_cons_succ]
    simp only [selectFrom, pos, List.length_cons, List.range'_succ, List.filter_cons]
    split
    · simp only [List.map_cons, Nat.sub_self, List.getD_cons_zero]
      rw [ih (k + 1), htail]; rfl
    · rw [ih (k + 1), htail]; rfl

theorem pairwise_pos (idxs : List Int) (k len : Nat) :
    ((pos idxs k len).map Int.ofNat).Pairwise (· < ·) := by
  apply List.Pairwise.map (R := (· < ·))
  · intro a b h; exact Int.ofNat_lt.mpr h
  · exact List.Pairwise.filter _ (List.pairwise_lt_range')

theorem pos_eq_sortedDistinct (idxs : List Int) (n : Nat) (hr : ∀ i ∈ idxs, 0 ≤ i ∧ i < (n : Int)) :
    (pos idxs 0 n).map Int.ofNat = sortedDistinct idxs := by
  apply pairwise_lt_ext (pairwise_pos idxs 0 n) (pairwise_sortedDistinct idxs)
  intro x
  rw [mem_sortedDistinct, List.mem_map]
  constructor
  · rintro ⟨i, hi, rfl⟩
    exact (mem_pos.mp hi).2
  · intro hx
    obtain ⟨h0, h1⟩ := hr x hx
    refine ⟨x.toNat, mem_pos.mpr ⟨⟨Nat.zero_le _, by omega⟩, ?_⟩, ?_⟩
    · rw [Int.toNat_of_nonneg h0]; exact hx
    · exact Int.toNat_of_nonneg h0

variable {α β : Type}

theorem selectRows_eq (idxs : List Int) (rows : List (List β))
    (hr : ∀ i ∈ idxs, 0 ≤ i ∧ i < (rows.length : Int)) :
    selectRows idxs rows = (sortedDistinct idxs).map (fun j => rows.getD j.toNat []) := by
  rw [selectRows, selectFrom_eq [] idxs 0 rows, ← pos_eq_sortedDistinct idxs rows.length hr, List.map_map]
  apply List.map_congr_left
  intro i _
  simp

/-! ### parameters, sections, message -/

theorem subsetParam_eq (idxs : List Int) (n : Nat) (p : Param α β)
    (hr : ∀ i ∈ idxs, 0 ≤ i ∧ i < (n : Int)) (hwf : p.wf n = true) :
    subsetParam idxs (sortedDistinct idxs).length p = .ok (expectedParam (sortedDistinct idxs) p) := by
  unfold subsetParam expectedParam Param.wf at *
  split
  · rename_i hd
    simp only [hd, if_true] at hwf
    split
    · rename_i rows hv
      simp only [hv, beq_iff_eq] at hwf
      subst hwf
      rw [selectRows_eq idxs rows hr]
      simp only [hv]
    · rename_i hv
      split at hwf
      · rename_i rows hv'; exact absurd hv' (hv rows)
      · cases hwf
  · rfl

theorem subsetSect_eq (idxs : List Int) (n : Nat) (s : Sect α β)
    (hr : ∀ i ∈ idxs, 0 ≤ i ∧ i < (n : Int)) (hwf : s.all (·.wf n) = true) :
    subsetSect idxs (sortedDistinct idxs).length s = .ok (s.map (expectedParam (sortedDistinct idxs))) := by
  induction s with
  | nil => rfl
  | cons p ps ih =>
    simp only [List.all_cons, Bool.and_eq_true] at hwf
    simp only [subsetSect, subsetParam_eq idxs n p hr hwf.1, ih hwf.2, List.map_cons]

theorem subsetSects_eq (idxs : List Int) (n : Nat) (m : Msg α β)
    (hr : ∀ i ∈ idxs, 0 ≤ i ∧ i < (n : Int)) (hwf : m.wf n = true) :
    subsetSects idxs (sortedDistinct idxs).length m = .ok (expected (sortedDistinct idxs) m) := by
  induction m with
  | nil => rfl
  | cons s ss ih =>
    simp only [Msg.wf, List.all_cons, Bool.and_eq_true] at hwf
    simp only [subsetSects, subsetSect_eq idxs n s hr hwf.1, expected, List.map_cons]
    have := ih (by simpa [Msg.wf] using hwf.2)
    simp only [expected] at this
    rw [this]

/-- once the two bounds checks pass, `subset` is the section walk -/
theorem subset_of_in_range (idxs : List Int) (m : Msg α β) (n : Int)
    (hn : m.nSubsets? = some n) (hne : idxs ≠ []) (hr : ∀ i ∈ idxs, 0 ≤ i ∧ i < n) :
    subset idxs m = subsetSects idxs (distinctCount idxs) m := by
  obtain ⟨mx, hmx⟩ := maxI_isSome hne
  obtain ⟨mn, hmn⟩ := minI_isSome hne
  have h1 := (hr mx (maxI_spec hmx).1).2
  have h2 := (hr mn (minI_spec hmn).1).1
  simp only [subset, hmx, hn, hmn]
  rw [if_neg (by omega), if_neg (by omega)]


/-! ### selecting every subset -/

theorem sortedDistinct_full (idxs : List Int) (n : Nat) (hr : ∀ i ∈ idxs, 0 ≤ i ∧ i < (n : Int))
    (hall : ∀ k : Nat, k < n → (k : Int) ∈ idxs) :
    sortedDistinct idxs = (List.range n).map Int.ofNat := by
  apply pairwise_lt_ext (pairwise_sortedDistinct idxs)
  · apply List.Pairwise.map (R := (· < ·))
    · intro a b h; exact Int.ofNat_lt.mpr h
    · exact List.pairwise_lt_range
  · intro x
    rw [mem_sortedDistinct, List.mem_map]
    constructor
    · intro hx
      obtain ⟨h0, h1⟩ := hr x hx
      exact ⟨x.toNat, List.mem_range.mpr (by omega), Int.toNat_of_nonneg h0⟩
    · rintro ⟨k, hk, rfl⟩
      exact hall k (List.mem_range.mp hk)

theorem map_getD_range (rows : List (List β)) :
    ((List.range rows.length).map Int.ofNat).map (fun j => rows.getD j.toNat []) = rows := by
  apply List.ext_getElem
  · simp
  · intro i h1 h2
    simp [h2]

theorem expectedParam_full (n : Nat) (p : Param α β) (hwf : p.wf n = true)
    (hcnt : p.isData = false → p.isNSubsets = true → p.value = .int n) :
    expectedParam ((List.range n).map Int.ofNat) p = p.value := by
  unfold expectedParam
  split
  · rename_i hd
    split
    · rename_i rows hv
      simp only [Param.wf, hd, if_true, hv, beq_iff_eq] at hwf
      subst hwf
      rw [map_getD_range, hv]
    · rfl
  · rename_i hd
    split
    · rename_i hc
      rw [hcnt (by simpa using hd) hc]; simp
    · rfl


/-! ### subsetting a subset -/

/-- the parameter as the decoder gives it back after the subset has been encoded -/
def reParam (sel : List Int) (p : Param α β) : Param α β := { p with value := expectedParam sel p }

theorem rebuild_expected (sel : List Int) (m : Msg α β) :
    rebuild m (expected sel m) = m.map (·.map (reParam sel)) := by
  simp only [rebuild, expected, List.zipWith_map_right, List.zipWith_self]
  rfl

theorem lastNSubsets_mem {l : List (Param α β)} {p : Param α β} (h : lastNSubsets l = some p) :
    p ∈ l ∧ p.isNSubsets = true := by
  induction l with
  | nil => simp [lastNSubsets] at h
  | cons q qs ih =>
    simp only [lastNSubsets] at h
    split at h
    · rename_i r hr
      cases h
      exact ⟨List.mem_cons_of_mem _ (ih hr).1, (ih hr).2⟩
    · split at h
      · rename_i hq; cases h; exact ⟨by simp, hq⟩
      · cases h

theorem lastNSubsets_map (f : Param α β → Param α β) (hf : ∀ p, (f p).name = p.name)
    (l : List (Param α β)) : lastNSubsets (l.map f) = (lastNSubsets l).map f := by
  induction l with
  | nil => rfl
  | cons q qs ih =>
    simp only [List.map_cons, lastNSubsets, ih]
    cases lastNSubsets qs with
    | some r => rfl
    | none =>
      simp only [Option.map_none, Param.isNSubsets, hf]
      split <;> simp [*]

theorem wf_mem {n : Nat} {m : Msg α β} (hwf : m.wf n = true) {p : Param α β} (hp : p ∈ m.flatten) :
    p.wf n = true := by
  simp only [Msg.wf, List.all_eq_true] at hwf
  obtain ⟨s, hs, hps⟩ := List.mem_flatten.mp hp
  exact hwf s hs p hps

theorem nSubsets_rebuild (sel : List Int) (m : Msg α β) (n : Nat)
    (hn : m.nSubsets? = some (n : Int)) (hwf : m.wf n = true) :
    Msg.nSubsets? (m.map (·.map (reParam sel))) = some (sel.length : Int) := by
  unfold Msg.nSubsets? at *
  rw [← List.map_flatten, lastNSubsets_map (reParam sel) (fun _ => rfl)]
  cases hl : lastNSubsets m.flatten with
  | none => simp [hl] at hn
  | some p =>
    simp only [hl] at hn
    obtain ⟨hpm, hpn⟩ := lastNSubsets_mem hl
    have hpw := wf_mem hwf hpm
    cases hv : p.value with
    | int k =>
      have hd : p.isData = false := by
        cases hd : p.isData with
        | false => rfl
        | true => simp [Param.wf, hd, hv] at hpw
      simp [reParam, expectedParam, hd, hpn]
    | other v => simp [hv] at hn
    | data r => simp [hv] at hn

theorem wf_reParam (sel : List Int) (n : Nat) (p : Param α β) (h : p.wf n = true) :
    (reParam sel p).wf sel.length = true := by
  simp only [Param.wf, reParam, expectedParam, Param.isData] at *
  by_cases hd : (p.type == templateDataType) = true
  · simp only [hd, if_true] at h ⊢
    cases hv : p.value with
    | data rows => simp
    | int k => simp [hv] at h
    | other v => simp [hv] at h
  · simp only [hd]
    rfl

theorem wf_rebuild (sel : List Int) (m : Msg α β) (n : Nat) (hwf : m.wf n = true) :
    Msg.wf sel.length (m.map (·.map (reParam sel))) = true := by
  simp only [Msg.wf, List.all_eq_true] at hwf
  simp only [Msg.wf, List.all_map, List.all_eq_true, Function.comp_apply]
  intro s hs p hp
  exact wf_reParam sel n p (hwf s hs p hp)

/-- on the positions of a strictly increasing list, `getD` is strictly increasing -/
theorem getD_strictMono {sel : List Int} (hs : sel.Pairwise (· < ·)) {a b : Int}
    (ha : 0 ≤ a) (hab : a < b) (hb : b < (sel.length : Int)) :
    sel.getD a.toNat 0 < sel.getD b.toNat 0 := by
  have h1 : a.toNat < sel.length := by omega
  have h2 : b.toNat < sel.length := by omega
  rw [List.getD_eq_getElem?_getD, List.getD_eq_getElem?_getD, List.getElem?_eq_getElem h1,
    List.getElem?_eq_getElem h2]
  exact List.pairwise_iff_getElem.mp hs _ _ h1 h2 (by omega)

theorem sortedDistinct_map_getD (sel jdxs : List Int) (hs : sel.Pairwise (· < ·))
    (hjr : ∀ j ∈ jdxs, 0 ≤ j ∧ j < (sel.length : Int)) :
    sortedDistinct (jdxs.map fun j => sel.getD j.toNat 0) =
      (sortedDistinct jdxs).map fun j => sel.getD j.toNat 0 := by
  apply pairwise_lt_ext (pairwise_sortedDistinct _)
  · rw [List.pairwise_map]
    apply List.Pairwise.imp_of_mem _ (pairwise_sortedDistinct jdxs)
    intro a b ha hb hab
    have ha' := hjr a (mem_sortedDistinct.mp ha)
    have hb' := hjr b (mem_sortedDistinct.mp hb)
    exact getD_strictMono hs ha'.1 hab hb'.2
  · intro x
    simp only [mem_sortedDistinct, List.mem_map]

theorem expectedParam_compose (sel sj : List Int) (p : Param α β)
    (hsj : ∀ j ∈ sj, 0 ≤ j ∧ j < (sel.length : Int)) :
    expectedParam sj (reParam sel p) = expectedParam (sj.map fun j => sel.getD j.toNat 0) p := by
  simp only [reParam, expectedParam, Param.isData, Param.isNSubsets]
  by_cases hd : (p.type == templateDataType) = true
  · simp only [hd, if_true]
    cases hv : p.value with
    | data rows =>
      simp only [List.map_map]
      congr 1
      apply List.map_congr_left
      intro j hj
      have := hsj j hj
      have h1 : j.toNat < sel.length := by omega
      simp [List.getD_eq_getElem?_getD, h1]
    | int k => rfl
    | other v => rfl
  · simp only [hd]
    by_cases hc : (p.name == nSubsetsName) = true
    · simp [hc]
    · simp [hc]

end Bufr.Subset
