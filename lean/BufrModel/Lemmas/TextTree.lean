/-
  Helper lemmas for C09, nested text: the induction over the node tree.  `Adds ls vs`: running the converter's
  loop over the lines `ls` appends exactly the values `vs` to the open subset and goes on with what follows.
-/
import BufrModel.Lemmas.TextNested
namespace Bufr.C09T
open Bufr

variable (env : TextEnv) (ev : Line → Option PyLit)

/-- the lines `ls` make `subsets_nested_text_to_flat_json` append the values `vs` (and nothing else) -/
def Adds (ls : List Line) (vs : List Val) : Prop :=
  ∀ (rest : List Line) (pre : List (List PyLit)) (cur : List PyLit),
    ntLoop ev (ls ++ rest) (pre ++ [cur]) = ntLoop ev rest (pre ++ [cur ++ vs.map PyLit.val])

theorem adds_nil : Adds ev [] [] := by intro rest pre cur; simp

theorem adds_append {a b : List Line} {va vb : List Val} (ha : Adds ev a va) (hb : Adds ev b vb) :
    Adds ev (a ++ b) (va ++ vb) := by
  intro rest pre cur
  rw [List.append_assoc, ha, hb]
  simp

theorem adds_skip {l : Line} (h : ntClassify ev l = .skip) : Adds ev [l] [] := by
  intro rest pre cur
  rw [List.singleton_append, ntLoop_skip ev _ _ _ h]
  simp

theorem adds_cons_skip {l : Line} {ls : List Line} {vs : List Val} (h : ntClassify ev l = .skip) (hs : Adds ev ls vs) :
    Adds ev (l :: ls) vs := by
  have := adds_append ev (adds_skip ev h) hs
  simpa using this

theorem adds_flatten : ∀ (l : List (List Line × List Val)), (∀ p ∈ l, Adds ev p.1 p.2) →
    Adds ev (l.map Prod.fst).flatten (l.map Prod.snd).flatten
  | [], _ => adds_nil ev
  | p :: l, h => by
    simp only [List.map_cons, List.flatten_cons]
    exact adds_append ev (h p (by simp)) (adds_flatten l (fun q hq => h q (by simp [hq])))

/-! ### replications: headers are skipped, the repetitions follow each other -/

theorem chunks_flatten {α : Type} (n : Nat) : ∀ (k : Nat) (l : List α), l.length = k * n → (chunks n k l).flatten = l
  | 0, l, h => by
    have : l = [] := List.eq_nil_of_length_eq_zero (by omega)
    subst this; rfl
  | k + 1, l, h => by
    have hl : (l.drop n).length = k * n := by rw [List.length_drop, h, Nat.succ_mul]; omega
    simp only [chunks, List.flatten_cons, chunks_flatten n k (l.drop n) hl, List.take_append_drop]

theorem rep_adds (J : Line) (hJ : IndentOK J) (K n : Nat) :
    ∀ (k ir : Nat) (l : List (List Line × List Val)), (∀ p ∈ l, Adds ev p.1 p.2) →
      Adds ev (repLines J K ir (chunks n k (l.map Prod.fst))) (chunks n k (l.map Prod.snd)).flatten.flatten
  | 0, ir, l, _ => by simp only [chunks, repLines]; exact adds_nil ev
  | k + 1, ir, l, h => by
    simp only [chunks, repLines, List.flatten_cons, List.flatten_append, ← List.map_take, ← List.map_drop]
    refine adds_cons_skip ev (classify_rep_header ev J (ir + 1) K hJ) (adds_append ev ?_ ?_)
    · exact adds_flatten ev _ (fun p hp => h p (List.mem_of_mem_take hp))
    · exact rep_adds J hJ K n k (ir + 1) (l.drop n) (fun p hp => h p (List.mem_of_mem_drop hp))

/-! ### resolution keeps kinds and indices -/

theorem resolveV_value' {tab : List (Nat × Node)} {f : Nat} {k : VKind} {i : Nat} {own : List Node} {r : Node}
    (h : resolveV tab f (.value k i own) = .ok r) :
    ∃ f' as1 as2, f = f' + 1 ∧ mapE (resolveV tab f') own = .ok as1 ∧ mapE (resolveV tab f') (tabFor tab i) = .ok as2 ∧
      r = .value k i (as1 ++ as2) := by
  cases f with
  | zero => unfold resolveV at h; cases h
  | succ f =>
    unfold resolveV at h
    split at h
    · cases h
    · next as1 h1 =>
      split at h
      · cases h
      · next as2 h2 =>
        injection h with h
        exact ⟨f, as1, as2, rfl, h1, h2, h.symm⟩

theorem tabFor_all' {tab : List (Nat × Node)} {p : Node → Bool} (h : tab.all (fun q => p q.2) = true) (i : Nat) :
    (tabFor tab i).all p = true := by
  rw [List.all_eq_true] at h ⊢
  intro x hx
  unfold tabFor at hx
  rw [List.mem_map] at hx
  obtain ⟨q, hq, rfl⟩ := hx
  rw [List.mem_filter] at hq
  exact h q (List.mem_reverse.mp hq.1)

theorem mapE_cons_inv {α β : Type} {g : α → CM β} {a : α} {as : List α} {r : List β} (h : mapE g (a :: as) = .ok r) :
    ∃ b bs, g a = .ok b ∧ mapE g as = .ok bs ∧ r = b :: bs := by
  unfold mapE at h
  split at h
  · cases h
  · next b hb =>
    split at h
    · cases h
    · next bs hbs =>
      injection h with h
      exact ⟨b, bs, hb, hbs, h.symm⟩

/-- attributes given at creation: the `A` labels are exactly on the associated-field nodes -/
theorem own_attrIdx (o : SubsetOut) (tab : List (Nat × Node)) (f : Nat) :
    ∀ (own as : List Node), own.all (ownAttrOK o) = true → mapE (resolveV tab f) own = .ok as →
      attrIdx o as = (own.filter Node.kindIsAssoc).filterMap Node.index?
  | [], as, _, hm => by
    unfold mapE at hm; injection hm with hm; subst hm; rfl
  | a :: own, as, hok, hm => by
    rw [List.all_cons, Bool.and_eq_true] at hok
    obtain ⟨r, rs, hr, hrs, rfl⟩ := mapE_cons_inv hm
    have ih := own_attrIdx o tab f own rs hok.2 hrs
    cases a with
    | value k i own' =>
      obtain ⟨_, as1, as2, _, _, _, rfl⟩ := resolveV_value' hr
      have h1 := hok.1
      simp only [ownAttrOK] at h1
      split at h1
      · next d hd =>
        rw [attrIdx, hd, ih]
        cases hk : k.isAssoc <;> cases hA : d.isAssoc <;>
          simp_all [Node.kindIsAssoc, Node.index?, List.filter]
      · cases h1
    | noval _ => simp [ownAttrOK] at hok
    | seq _ _ => simp [ownAttrOK] at hok
    | fixedRep _ _ _ => simp [ownAttrOK] at hok
    | delayedRep _ _ _ _ => simp [ownAttrOK] at hok

/-- attributes attached through bitmap links: no `A` label -/
theorem tab_attrIdx (o : SubsetOut) (tab : List (Nat × Node)) (f : Nat) :
    ∀ (l as : List Node), l.all (tabAttrOK o) = true → mapE (resolveV tab f) l = .ok as → attrIdx o as = []
  | [], as, _, hm => by
    unfold mapE at hm; injection hm with hm; subst hm; rfl
  | a :: l, as, hok, hm => by
    rw [List.all_cons, Bool.and_eq_true] at hok
    obtain ⟨r, rs, hr, hrs, rfl⟩ := mapE_cons_inv hm
    have ih := tab_attrIdx o tab f l rs hok.2 hrs
    cases a with
    | value k i own' =>
      obtain ⟨_, as1, as2, _, _, _, rfl⟩ := resolveV_value' hr
      have h1 := hok.1
      simp only [tabAttrOK] at h1
      split at h1
      · next d hd =>
        rw [attrIdx, hd, ih]
        simp_all
      · cases h1
    | noval _ => simp [tabAttrOK] at hok
    | seq _ _ => simp [tabAttrOK] at hok
    | fixedRep _ _ _ => simp [tabAttrOK] at hok
    | delayedRep _ _ _ _ => simp [tabAttrOK] at hok

theorem attrsTextOK_of_value {o : SubsetOut} {k : VKind} {i : Nat} {attrs : List Node}
    (h : valueTextOK o (.value k i attrs) = true) : headOK o i = true ∧ attrsTextOK o attrs = true := by
  simpa [valueTextOK] using h

/-- a (raw) value node, resolved and rendered: its line appends its value, the lines of its attributes put
    the associated fields before it -/
theorem valueNode_adds (o : SubsetOut) (hR : AllReprOK env ev o) (tab : List (Nat × Node)) (fuel : Nat)
    (hT : tab.all (fun q => tabAttrOK o q.2) = true)
    (k : VKind) (i : Nat) (own : List Node) (hown : own.all (ownAttrOK o) = true)
    (r : Node) (J : Line) (ls : List Line) (hres : resolveV tab fuel (.value k i own) = .ok r)
    (htext : valueTextOK o r = true) (hren : ntValue env o J false r = .ok ls) (hJ : IndentOK J) :
    ∃ vs, Adds ev ls vs ∧ vs.map some = (valueIdx i own).map (fun j => o.vals[j]?) := by
  obtain ⟨f, as1, as2, _, h1, h2, rfl⟩ := resolveV_value' hres
  obtain ⟨hhead, hattrs⟩ := attrsTextOK_of_value htext
  obtain ⟨d, v, al, hd, hv, hal, rfl⟩ := ntValue_inv env hren
  obtain ⟨avs, hav, hloop⟩ := attrs_loop env ev o hR (as1 ++ as2) (J ++ indent4) al hattrs hal
    (indentOK_append hJ indentOK_indent4)
  have h3 : (descStr d).head? ≠ some '3' := by
    simpa [headOK, hd] using hhead
  refine ⟨avs ++ [v], ?_, ?_⟩
  · intro rest pre cur
    rw [List.cons_append, ntLoop_append ev _ _ _ _ _ (classify_value_line env ev J k d v hJ h3 (reprOK_at env ev hR hv)),
      hloop]
    simp
  · rw [attrIdx_append, own_attrIdx o tab f own as1 hown h1,
      tab_attrIdx o tab f (tabFor tab i) as2 (tabFor_all' hT i) h2, List.append_nil] at hav
    unfold valueIdx
    simp [hav, hv]

theorem resolveList_length' (tab : List (Nat × Node)) (fuel : Nat) : ∀ (l r : List Node),
    resolveList tab fuel l = .ok r → r.length = l.length
  | [], r, h => by rw [resolveList] at h; injection h with h; subst h; rfl
  | n :: ns, r, h => by
    rw [resolveList] at h
    split at h
    · cases h
    · split at h
      · cases h
      · next ns' hns =>
        injection h with h; subst h
        simp only [List.length_cons, resolveList_length' tab fuel ns ns' hns]

theorem ntBlocks_length (o : SubsetOut) (J : Line) : ∀ (l : List Node) (bs : List (List Line)),
    ntBlocks env o J l = .ok bs → bs.length = l.length
  | [], bs, h => by rw [ntBlocks] at h; injection h with h; subst h; rfl
  | n :: ns, bs, h => by
    rw [ntBlocks] at h
    split at h
    · cases h
    · split at h
      · cases h
      · next xs hxs =>
        injection h with h; subst h
        simp only [List.length_cons, ntBlocks_length o J ns xs hxs]

/-- the values at a list of flat indices -/
def valsAtT (o : SubsetOut) (l : List Nat) : List (Option Val) := l.map (fun j => o.vals[j]?)

theorem valsAtT_append (o : SubsetOut) (a b : List Nat) : valsAtT o (a ++ b) = valsAtT o a ++ valsAtT o b := by
  simp [valsAtT]

mutual
theorem textList_tree (o : SubsetOut) (hR : AllReprOK env ev o) (tab : List (Nat × Node)) (fuel : Nat)
    (hT : tab.all (fun q => tabAttrOK o q.2) = true) :
    ∀ (raw res : List Node) (J : Line) (blocks : List (List Line)), treeOKList o raw = true → textOKList o res = true →
      resolveList tab fuel raw = .ok res → ntBlocks env o J res = .ok blocks → IndentOK J →
      ∃ l : List (List Line × List Val), blocks = l.map Prod.fst ∧ (∀ p ∈ l, Adds ev p.1 p.2) ∧
        (l.map Prod.snd).flatten.map some = valsAtT o (idxList raw)
  | [], res, J, blocks, _, _, hres, hren, _ => by
    rw [resolveList] at hres; injection hres with hres; subst hres
    rw [ntBlocks] at hren; injection hren with hren; subst hren
    exact ⟨[], rfl, by simp, by rw [idxList]; rfl⟩
  | n :: ns, res, J, blocks, hok, htext, hres, hren, hJ => by
    rw [treeOKList, Bool.and_eq_true] at hok
    rw [resolveList] at hres
    split at hres
    · cases hres
    · next n' hn' =>
      split at hres
      · cases hres
      · next ns' hns' =>
        injection hres with hres; subst hres
        rw [textOKList, Bool.and_eq_true] at htext
        rw [ntBlocks] at hren
        split at hren
        · cases hren
        · next x hx =>
          split at hren
          · cases hren
          · next xs hxs =>
            injection hren with hren; subst hren
            obtain ⟨v1, a1, m1⟩ := text1_tree o hR tab fuel hT n n' J x hok.1 htext.1 hn' hx hJ
            obtain ⟨l, hl, al, ml⟩ := textList_tree o hR tab fuel hT ns ns' J xs hok.2 htext.2 hns' hxs hJ
            refine ⟨(x, v1) :: l, by simp [hl], ?_, ?_⟩
            · intro p hp
              rcases List.mem_cons.mp hp with rfl | hp
              · exact a1
              · exact al p hp
            · simp only [List.map_cons, List.flatten_cons, List.map_append]
              rw [idxList, valsAtT_append, m1, ml]

theorem text1_tree (o : SubsetOut) (hR : AllReprOK env ev o) (tab : List (Nat × Node)) (fuel : Nat)
    (hT : tab.all (fun q => tabAttrOK o q.2) = true) :
    ∀ (raw res : Node) (J : Line) (block : List Line), treeOK1 o raw = true → textOK1 o res = true →
      resolve1 tab fuel raw = .ok res → ntBlock env o J res = .ok block → IndentOK J →
      ∃ vs, Adds ev block vs ∧ vs.map some = valsAtT o (idx1 raw)
  | .value k i own, res, J, block, hok, htext, hres, hren, hJ => by
    rw [treeOK1] at hok
    rw [resolve1] at hres
    obtain ⟨_, as1, as2, _, _, _, hr⟩ := resolveV_value' hres
    subst hr
    rw [textOK1] at htext
    rw [ntBlock] at hren
    obtain ⟨vs, ha, hm⟩ := valueNode_adds env ev o hR tab fuel hT k i own hok _ J block hres htext hren hJ
    exact ⟨vs, ha, by rw [idx1]; exact hm⟩
  | .noval id, res, J, block, _, _, hres, hren, hJ => by
    rw [resolve1] at hres; injection hres with hres; subst hres
    rw [ntBlock] at hren; injection hren with hren; subst hren
    exact ⟨[], adds_skip ev (classify_bare ev J id hJ), by rw [idx1]; rfl⟩
  | .seq id ms, res, J, block, hok, htext, hres, hren, hJ => by
    rw [treeOK1, Bool.and_eq_true] at hok
    rw [resolve1] at hres
    split at hres
    · cases hres
    · next ms' hms' =>
      injection hres with hres; subst hres
      rw [textOK1, Bool.and_eq_true] at htext
      rw [ntBlock] at hren
      split at hren
      · cases hren
      · next bs hbs =>
        injection hren with hren; subst hren
        obtain ⟨l, hl, al, ml⟩ := textList_tree o hR tab fuel hT ms ms' (J ++ indent4) bs hok.2 htext.2 hms' hbs
          (indentOK_append hJ indentOK_indent4)
        have h3 : (zpad 6 id).head? = some '3' := by simpa using htext.1
        refine ⟨(l.map Prod.snd).flatten, ?_, by rw [idx1]; exact ml⟩
        rw [hl]
        exact adds_cons_skip ev (classify_seq ev J (env.name id) id hJ h3) (adds_flatten ev l al)
  | .fixedRep id n ms, res, J, block, hok, htext, hres, hren, hJ => by
    rw [treeOK1, Bool.and_eq_true, Bool.and_eq_true] at hok
    obtain ⟨⟨_, hlen⟩, hms⟩ := hok
    rw [resolve1] at hres
    split at hres
    · cases hres
    · next ms' hms' =>
      injection hres with hres; subst hres
      rw [textOK1] at htext
      rw [ntBlock] at hren
      split at hren
      · cases hren
      · next bs hbs =>
        injection hren with hren; subst hren
        have hJ4 := indentOK_append hJ indentOK_indent4
        obtain ⟨l, hl, al, ml⟩ := textList_tree o hR tab fuel hT ms ms' (J ++ indent4) bs hms htext hms' hbs hJ4
        have hll : (l.map Prod.snd).length = yOf id * n := by
          have h1 := ntBlocks_length env o _ _ _ hbs
          have h2 := resolveList_length' tab fuel _ _ hms'
          have h3 : ms.length = yOf id * n := by simpa using hlen
          rw [hl] at h1
          simp only [List.length_map] at h1 ⊢
          omega
        refine ⟨(l.map Prod.snd).flatten, ?_, by rw [idx1]; exact ml⟩
        have := rep_adds ev (J ++ indent4) hJ4 (yOf id) n (yOf id) 0 l al
        rw [chunks_flatten n (yOf id) _ hll] at this
        rw [hl]
        exact adds_cons_skip ev (classify_bare ev J id hJ) this
  | .delayedRep id n f ms, res, J, block, hok, htext, hres, hren, hJ => by
    rw [treeOK1, Bool.and_eq_true, Bool.and_eq_true] at hok
    obtain ⟨⟨_, hf⟩, hms⟩ := hok
    cases f with
    | value kf i own =>
      simp only [factorOK, Bool.and_eq_true] at hf
      obtain ⟨hown, hcnt⟩ := hf
      rw [resolve1] at hres
      split at hres
      · cases hres
      · next f' hf' =>
        split at hres
        · cases hres
        · next ms' hms' =>
          injection hres with hres; subst hres
          obtain ⟨_, as1, as2, _, _, _, hfa⟩ := resolveV_value' hf'
          subst hfa
          rw [textOK1, Bool.and_eq_true] at htext
          rw [ntBlock] at hren
          split at hren
          · cases hren
          · next c hc =>
            split at hren
            · cases hren
            · next fl hfl =>
              split at hren
              · cases hren
              · next bs hbs =>
                injection hren with hren; subst hren
                have hJ4 := indentOK_append hJ indentOK_indent4
                have hJd := indentOK_append hJ indentOK_dots4
                obtain ⟨l, hl, al, ml⟩ := textList_tree o hR tab fuel hT ms ms' (J ++ indent4) bs hms htext.2 hms' hbs hJ4
                obtain ⟨fv, hfa, hfm⟩ := valueNode_adds env ev o hR tab fuel hT kf i own hown _ (J ++ dots4) fl hf'
                  htext.1 hfl hJd
                rw [hc] at hcnt
                have hll : (l.map Prod.snd).length = c * n := by
                  have h1 := ntBlocks_length env o _ _ _ hbs
                  have h2 := resolveList_length' tab fuel _ _ hms'
                  have h3 : ms.length = c * n := by simpa using hcnt
                  rw [hl] at h1
                  simp only [List.length_map] at h1 ⊢
                  omega
                refine ⟨fv ++ (l.map Prod.snd).flatten, ?_, ?_⟩
                · have := rep_adds ev (J ++ indent4) hJ4 c n c 0 l al
                  rw [chunks_flatten n c _ hll] at this
                  rw [hl]
                  exact adds_cons_skip ev (classify_bare ev J id hJ) (adds_append ev hfa this)
                · rw [idx1, valsAtT_append, List.map_append, ml]
                  congr 1
    | noval _ => simp [factorOK] at hf
    | seq _ _ => simp [factorOK] at hf
    | fixedRep _ _ _ => simp [factorOK] at hf
    | delayedRep _ _ _ _ => simp [factorOK] at hf
end

end Bufr.C09T
