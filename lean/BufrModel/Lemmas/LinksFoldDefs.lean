/-
  C07: `Spec.links` as a LEFT FOLD over the items (`linksFold`).

  `Spec.links` answers every question by looking positions up in the finished item list.  The fold below
  reads the items once, left to right, and keeps a small state (`FS`): the phase of the bit-map definition
  in progress, the candidates established, the selection of the last finished definition, what is left of
  it, the quality-information status and the links found so far.  `linksFold_eq` (Lemmas/LinksFold.lean)
  proves `Spec.links its cancels = linksFold its cancels` for ALL item lists and cancel times; the walk of
  the coder is then compared with the fold step by step (Lemmas/LinkSpecInv.lean).

  This file: the fold, and the shape lemmas of `segDef` (what an operator defines, by the shape of what
  follows it).
-/
import BufrModel.Lemmas.LinksFoldBasic
namespace Bufr.Spec

/-! ### what an operator defines, by the shape of the items that follow it -/

theorem segDef_nil (p : Nat) : segDef p [] = none := rfl

theorem segDef_recall (p : Nat) (h : Item) (t : List Item) (hh : isOper 237000 h = true) : segDef p (h :: t) = none := by
  simp [segDef, hh]

/-- no 031031 among the items: nothing defined -/
theorem segDef_nobits (p : Nat) (B : List Item) (hB : ∀ b ∈ B, isBit b = false) : segDef p B = none := by
  unfold segDef
  split
  · rfl
  · have e : B.takeWhile (fun it => !isBit it) = B := takeWhile_all _ B (fun b hb => by simp [hB b hb])
    simp only [e, List.drop_length, List.takeWhile_nil, List.isEmpty_nil, if_true]

/-- `pr` (no 031031, not starting with 237000), a run of 031031, then nothing or something else -/
theorem segDef_run (p : Nat) (pr run tail : List Item) (hpr : ∀ b ∈ pr, isBit b = false)
    (hrun : ∀ b ∈ run, isBit b = true) (hne : run ≠ [])
    (htail : ∀ h ∈ tail.head?, isBit h = false)
    (hhead : ((pr ++ run ++ tail).head?.map (isOper 237000)).getD false = false) :
    segDef p (pr ++ run ++ tail) =
      some { op := p, eff := p + 1 + pr.length + run.length, bits := run.map (·.2),
             reusable := ((pr ++ run ++ tail).head?.map (isOper 236000)).getD false } := by
  unfold segDef
  rw [hhead]
  simp only [Bool.false_eq_true, if_false]
  have e1 : (pr ++ run ++ tail).takeWhile (fun it => !isBit it) = pr := by
    rw [List.append_assoc, takeWhile_all_append _ pr _ (fun b hb => by simp [hpr b hb])]
    cases run with
    | nil => exact absurd rfl hne
    | cons r0 rs =>
      have : isBit r0 = true := hrun r0 (by simp)
      simp [this]
  have e2 : ((pr ++ run ++ tail).drop pr.length).takeWhile isBit = run := by
    rw [List.append_assoc, List.drop_left, takeWhile_all_append _ run _ hrun]
    cases tail with
    | nil => simp
    | cons t0 ts =>
      have : isBit t0 = false := htail t0 (by simp)
      simp [this]
  rw [e1, e2]
  have : run.isEmpty = false := by cases run <;> simp_all
  simp only [this, Bool.false_eq_true, if_false]

/-! ### the fold -/

/-- where the fold stands in a bit-map definition -/
inductive Ph where
  /-- no definition in progress -/
  | idle
  /-- the operator item at `p` was the last item -/
  | afterOp (p : Nat)
  /-- items (not 031031, the first not 237000) have followed the operator at `p`; `r`: the first was 236000 -/
  | pre (p : Nat) (r : Bool)
  /-- a run of 031031 with these values is the end of the items read so far -/
  | run (p : Nat) (r : Bool) (bits : List Val)
  deriving Repr, DecidableEq

/-- state of the fold after a prefix of the items -/
structure FS where
  /-- number of items read -/
  pos : Nat := 0
  /-- the plain element items read, with their positions -/
  plains : List (Nat × Elem) := []
  /-- the plain element items in front of the last bit-map operator -/
  below : List (Nat × Elem) := []
  qa : QaStatus := .na
  ph : Ph := .idle
  /-- the definitions finished so far (only used to state the invariant) -/
  defs : List BitmapDef := []
  /-- candidates of the definition that established the back references; `none` after 235000 -/
  est : Option (List (Nat × Elem)) := none
  /-- selection (zero bits) of the last finished definition -/
  sel : List (Nat × Elem) := []
  /-- what is left of it -/
  iter : List (Nat × Elem) := []
  /-- links found, most recent first -/
  links : List (Nat × Nat) := []
  deriving Repr

/-- the entries of `cands` whose bit is 0 -/
def zsel (bits : List Val) (cands : List (Nat × Elem)) : List (Nat × Elem) :=
  ((bits.zip cands).filter fun x => x.1 == Val.int 0).map (·.2)

/-- the run of 031031 is over: the definition takes effect -/
def finalize (st : FS) : FS :=
  match st.ph with
  | .run p r bits =>
    let cands := match st.est with
      | some c => c
      | none => lastN bits.length st.below
    { st with ph := .idle, defs := st.defs ++ [{ op := p, eff := st.pos, bits := bits, reusable := r }],
              est := some cands, sel := zsel bits cands, iter := zsel bits cands }
  | _ => st

def clsStep (q : QaStatus) (c : Nat) : QaStatus :=
  if c = 33 then (match q with | .waiting => .processing | q => q)
  else (match q with | .processing => .na | q => q)

def qaStep (q : QaStatus) (it : Item) : QaStatus :=
  if isOper 222000 it then .waiting
  else match elemClass? it with
    | none => q
    | some c => clsStep q c

/-- does the item take the next zero bit, given the quality-information status in front of it -/
def consumesF (q : QaStatus) (it : Item) : Bool :=
  match it.1 with
  | .marker _ _ => true
  | .plain e => xOf e.id == 33 && q != .na
  | _ => false

def phStep (ph : Ph) (pos : Nat) (it : Item) : Ph :=
  if isBitmapOp it then .afterOp pos
  else match ph with
    | .idle => .idle
    | .afterOp p =>
      if isOper 237000 it then .idle
      else if isBit it then .run p false [it.2]
      else .pre p (isOper 236000 it)
    | .pre p r => if isBit it then .run p r [it.2] else .pre p r
    | .run p r bits => if isBit it then .run p r (bits ++ [it.2]) else .idle

/-- serve one value -/
def serve (st : FS) : FS :=
  match st.iter with
  | [] => st
  | x :: rest => { st with iter := rest, links := (st.pos, x.1) :: st.links }

/-- one item -/
def step (cancels : List Nat) (st : FS) (it : Item) : FS :=
  let st1 := if isBit it then st else finalize st
  let st2 := if cancels.contains st1.pos then { st1 with est := none } else st1
  let st3 := if consumesF st2.qa it then serve st2 else st2
  { st3 with
    pos := st3.pos + 1
    plains := st3.plains ++ ((plainElem? it).map fun e => (st3.pos, e)).toList
    below := if isBitmapOp it then st3.plains else st3.below
    qa := qaStep st3.qa it
    ph := phStep st3.ph st3.pos it
    iter := if isOper 237000 it then st3.sel else st3.iter }

def foldItems (cancels : List Nat) (its : List Item) : FS := its.foldl (step cancels) {}

/-- `Spec.links` as a left fold -/
def linksFold (its : List Item) (cancels : List Nat := []) : List (Nat × Nat) :=
  (foldItems cancels its).links.reverse

theorem foldItems_snoc (cancels : List Nat) (pre : List Item) (x : Item) :
    foldItems cancels (pre ++ [x]) = step cancels (foldItems cancels pre) x := by
  simp [foldItems, List.foldl_append]

/-! ### the quality-information status in closed form -/

def qaOf (pre : List Item) : QaStatus :=
  match lastPos (isOper 222000) pre with
  | none => .na
  | some p => ((pre.drop (p + 1)).filterMap elemClass?).foldl clsStep .waiting

theorem foldl_cls_na (cl : List Nat) : cl.foldl clsStep .na = .na := by
  induction cl with
  | nil => rfl
  | cons c cl ih => simp only [List.foldl_cons]; unfold clsStep; split <;> exact ih

theorem foldl_cls_processing (cl : List Nat) : (cl.foldl clsStep .processing != .na) = cl.all (· == 33) := by
  induction cl with
  | nil => rfl
  | cons c cl ih =>
    simp only [List.foldl_cons, List.all_cons]
    by_cases hc : c = 33
    · subst hc
      simp only [clsStep, if_true, ih]
      simp
    · simp only [clsStep, hc, if_false, foldl_cls_na]
      simp [hc]

theorem foldl_cls_waiting (cl : List Nat) :
    (cl.foldl clsStep .waiting != .na) = (cl.dropWhile (· != 33)).all (· == 33) := by
  induction cl with
  | nil => rfl
  | cons c cl ih =>
    simp only [List.foldl_cons, List.dropWhile_cons]
    by_cases hc : c = 33
    · subst hc
      simp only [clsStep, if_true, foldl_cls_processing]
      simp
    · simp only [clsStep, hc, if_false, ih]
      simp [hc]

theorem inQa_eq (its : List Item) (i : Nat) : inQa its i = (qaOf (its.take i) != .na) := by
  unfold inQa qaOf
  rw [lastBelow_eq]
  cases lastPos (isOper 222000) (its.take i) with
  | none => rfl
  | some p => simp only [foldl_cls_waiting]

theorem isOper_not_elem (id : Nat) (it : Item) (h : isOper id it = true) : elemClass? it = none := by
  obtain ⟨d, v⟩ := it
  cases d <;> simp_all [isOper, elemClass?]

theorem qaOf_snoc (pre : List Item) (x : Item) : qaOf (pre ++ [x]) = qaStep (qaOf pre) x := by
  unfold qaOf qaStep
  rw [lastPos_snoc]
  by_cases hx : isOper 222000 x = true
  · simp [hx]
  · simp only [hx, Bool.false_eq_true, if_false]
    cases hl : lastPos (isOper 222000) pre with
    | none =>
      simp only
      cases elemClass? x with
      | none => rfl
      | some c => simp only [clsStep]; split <;> rfl
    | some p =>
      have hp := lastPos_lt _ _ _ hl
      simp only
      rw [List.drop_append_of_le_length (by omega), List.filterMap_append, List.foldl_append]
      cases hc : elemClass? x with
      | none => simp [hc]
      | some c => simp [hc]

theorem consumes_eq (its : List Item) (i : Nat) :
    consumes its i = match its[i]? with
      | some it => consumesF (qaOf (its.take i)) it
      | none => false := by
  unfold consumes consumesF
  cases h : its[i]? with
  | none => rfl
  | some it =>
    obtain ⟨d, v⟩ := it
    cases d <;> simp [inQa_eq]

end Bufr.Spec
