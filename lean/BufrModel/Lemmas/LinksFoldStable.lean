/-
  C07, `Spec.links = linksFold`, part 1: what `Spec.links` says about the positions already read does not
  change when another item is appended (`links_snoc`), given how the definitions change.
-/
import BufrModel.Lemmas.LinksFoldDefs
namespace Bufr.Spec

/-! ### `consumes`, `served` -/

theorem consumes_snoc_lt (pre : List Item) (x : Item) (i : Nat) (h : i < pre.length) :
    consumes (pre ++ [x]) i = consumes pre i := by
  rw [consumes_eq, consumes_eq, getElem?_snoc_lt _ _ _ h, take_snoc_le _ _ _ (by omega)]

theorem consumes_snoc_eq (pre : List Item) (x : Item) :
    consumes (pre ++ [x]) pre.length = consumesF (qaOf pre) x := by
  rw [consumes_eq, getElem?_snoc_eq]
  simp

def servedOf (its : List Item) : List Bool := (List.range its.length).map (consumes its)

theorem servedOf_length (its : List Item) : (servedOf its).length = its.length := by simp [servedOf]

theorem servedOf_snoc (pre : List Item) (x : Item) :
    servedOf (pre ++ [x]) = servedOf pre ++ [consumesF (qaOf pre) x] := by
  unfold servedOf
  rw [List.length_append, List.length_singleton, List.range_succ, List.map_append]
  congr 1
  · apply List.map_congr_left
    intro i hi
    exact consumes_snoc_lt pre x i (List.mem_range.mp hi)
  · simp [consumes_snoc_eq]

/-! ### `establishing`, `selected` -/

theorem establishing_append_gt (cl e : List BitmapDef) (cs : List Nat) (d : BitmapDef)
    (he : ∀ d0 ∈ e, d.eff < d0.eff) : establishing (cl ++ e) cs d = establishing cl cs d := by
  unfold establishing
  rw [List.filter_append]
  have : e.filter (fun d0 => d0.eff ≤ d.eff && !cancelledBetween cs d0.eff d.eff) = [] := by
    rw [List.filter_eq_nil_iff]
    intro d0 hd0
    have := he d0 hd0
    simp only [Bool.and_eq_true, decide_eq_true_eq, not_and]
    intro h; omega
  rw [this, List.append_nil]

theorem establishing_mem (cl : List BitmapDef) (cs : List Nat) (d : BitmapDef) :
    establishing cl cs d = d ∨ establishing cl cs d ∈ cl := by
  unfold establishing
  cases h : (cl.filter fun d0 => d0.eff ≤ d.eff && !cancelledBetween cs d0.eff d.eff).head? with
  | none => left; rfl
  | some d0 =>
    right
    exact (List.mem_filter.mp (List.mem_of_head? h)).1

theorem selected_stable (pre : List Item) (x : Item) (cl e e' : List BitmapDef) (cs : List Nat) (d : BitmapDef)
    (he : ∀ d0 ∈ e, d.eff < d0.eff) (he' : ∀ d0 ∈ e', d.eff < d0.eff)
    (hcl : ∀ d0 ∈ cl, d0.op ≤ pre.length) (hd : d.op ≤ pre.length) :
    selected (pre ++ [x]) (cl ++ e') cs d = selected pre (cl ++ e) cs d := by
  unfold selected candidates
  simp only
  rw [establishing_append_gt cl e cs d he, establishing_append_gt cl e' cs d he']
  have hop : (establishing cl cs d).op ≤ pre.length := by
    rcases establishing_mem cl cs d with h | h
    · rw [h]; exact hd
    · exact hcl _ h
  rw [plainBelow_snoc_lt _ _ _ hop]

/-! ### `owner?` -/

theorem owner_stable (pre : List Item) (x : Item) (cl e e' : List BitmapDef) (cs : List Nat) (i : Nat)
    (hi : i < pre.length) (he : ∀ d0 ∈ e, i < d0.eff) (he' : ∀ d0 ∈ e', i < d0.eff)
    (hcl : ∀ d0 ∈ cl, d0.op ≤ pre.length) :
    owner? (pre ++ [x]) (cl ++ e') cs (servedOf (pre ++ [x])) i = owner? pre (cl ++ e) cs (servedOf pre) i := by
  unfold owner?
  have f1 : ∀ ee : List BitmapDef, (∀ d0 ∈ ee, i < d0.eff) → (cl ++ ee).filter (fun d => decide (d.eff ≤ i)) = cl.filter (fun d => decide (d.eff ≤ i)) := by
    intro ee hee
    rw [List.filter_append]
    have : ee.filter (fun d => decide (d.eff ≤ i)) = [] := by
      rw [List.filter_eq_nil_iff]
      intro d0 hd0
      have := hee d0 hd0
      simp only [decide_eq_true_eq]; omega
    rw [this, List.append_nil]
  rw [f1 e he, f1 e' he']
  cases hg : (cl.filter (fun d => decide (d.eff ≤ i))).getLast? with
  | none => rfl
  | some d =>
    have hm := List.mem_filter.mp (List.mem_of_getLast? hg)
    have hdi : d.eff ≤ i := by simpa using hm.2
    simp only
    rw [lastBelow_eq, lastBelow_eq, take_snoc_le _ _ _ (by omega)]
    rw [selected_stable pre x cl e e' cs d (fun d0 h => by have := he d0 h; omega)
      (fun d0 h => by have := he' d0 h; omega) hcl (hcl d hm.1)]
    have ts : (servedOf (pre ++ [x])).take i = (servedOf pre).take i := by
      rw [servedOf_snoc, List.take_append_of_le_length (by rw [servedOf_length]; omega)]
    rw [ts]

/-! ### `links` -/

/-- the entry of `Spec.links` for position `i` -/
def linkAt (its : List Item) (ds : List BitmapDef) (cs : List Nat) (i : Nat) : Option (Nat × Nat) :=
  if consumes its i then (owner? its ds cs (servedOf its) i).map fun o => (i, o) else none

theorem links_def (its : List Item) (cs : List Nat) :
    links its cs = (List.range its.length).filterMap (linkAt its (defs its) cs) := rfl

/-- appending one item: the entries of the earlier positions stay, provided the definitions of the longer
    list differ from those of the shorter one only in entries that take effect at or behind its end -/
theorem links_snoc (pre : List Item) (x : Item) (cs : List Nat) (cl e e' : List BitmapDef)
    (h1 : defs pre = cl ++ e) (h2 : defs (pre ++ [x]) = cl ++ e')
    (he : ∀ d0 ∈ e, pre.length ≤ d0.eff) (he' : ∀ d0 ∈ e', pre.length ≤ d0.eff)
    (hcl : ∀ d0 ∈ cl, d0.op ≤ pre.length) :
    links (pre ++ [x]) cs = links pre cs ++ (linkAt (pre ++ [x]) (cl ++ e') cs pre.length).toList := by
  rw [links_def, links_def, List.length_append, List.length_singleton, List.range_succ, List.filterMap_append, h1, h2]
  congr 1
  · apply filterMap_congr'
    intro i hi
    have hi' := List.mem_range.mp hi
    unfold linkAt
    rw [consumes_snoc_lt _ _ _ hi']
    split
    · rw [owner_stable pre x cl e e' cs i hi' (fun d0 h => by have := he d0 h; omega)
        (fun d0 h => by have := he' d0 h; omega) hcl]
    · rfl

end Bufr.Spec
