/-
  Round trip of the section coder (`Msg/Sections.lean`): the decoder's parameter reads succeed on what the
  encoder's parameter writes produced, section by section, and return the supplied values up to the
  canonicalisation of the bit I/O (bytes padded, lengths back-patched, zero-width parameters extended by
  the padding).  Used by `Props/C04.lean` (`C04_decode_encode`).
-/
import BufrModel.Msg.Sections
import BufrModel.Lemmas.Sections
import BufrModel.Lemmas.SectionsDec
set_option linter.unusedSimpArgs false
namespace Bufr
namespace RT

/-! ## names the section loop itself consults -/

/-- decidable over-approximation of "the loop looks this property up": `edition`, `is_section<k>_presents` -/
def isCtrl (n : String) : Bool := n == "edition" || "is_section".toList.isPrefixOf n.toList

theorem isCtrl_presName (idx : Nat) : isCtrl (presName idx) = true := by
  unfold isCtrl presName
  simp [String.toList_append]

theorem isCtrl_edition : isCtrl "edition" = true := by decide

/-! ## extra conditions on a layout family (all met by the bundled one) -/

/-- every `descriptors` parameter starts on an octet boundary of its section -/
def descAlignedGo : List Param → Nat → Bool
  | [], _ => true
  | p :: ps, off => (p.ty != .descriptors || off % 8 == 0) && descAlignedGo ps (off + p.nbits)

def descAligned (s : SectionLayout) : Bool := descAlignedGo s.params 0

/-- a property the loop consults is an integer or a flag (its round trip is exact) -/
def ctrlExact (s : SectionLayout) : Bool :=
  s.params.all fun p => !(p.asProperty && isCtrl p.name) || (p.ty == .uint || p.ty == .int || p.ty == .bool)

/-- a section without a section length is never padded by the encoder (the decoder would not skip it) -/
def noLenAligned (s : SectionLayout) : Bool :=
  s.hasParam "section_length" || (s.params.map (·.nbits)).sum % 16 == 0

/-- a zero-width parameter has no expected value -/
def noExpectZero (s : SectionLayout) : Bool := s.params.all fun p => p.nbits != 0 || p.expected.isNone

def layoutOK (s : SectionLayout) : Bool := descAligned s && ctrlExact s && noLenAligned s && noExpectZero s

def LayoutsOK (L : Layouts) : Bool := L.all fun e => layoutOK e.layout

/-! ## what the encoder appends does not depend on what was written before -/

theorem writeUInt_sh {w : Bits} {v : Int} {n : Nat} {w1 : Bits} (h : writeUInt w v n = .ok w1) :
    ∃ x, w1 = w ++ x ∧ x = toBits n v.toNat ∧ ∀ w', writeUInt w' v n = .ok (w' ++ x) := by
  obtain ⟨e, hn, hv, hlt⟩ := writeUInt_ok h
  refine ⟨_, e, rfl, fun w' => ?_⟩
  unfold writeUInt
  rw [if_neg (by omega), if_neg (by omega), if_neg (by omega)]

theorem encDescs_sh {ids : List Nat} {w w1 : Bits} (h : encDescs w ids = .ok w1) :
    ∃ x, w1 = w ++ x ∧ x.length = 16 * ids.length ∧ ∀ w', encDescs w' ids = .ok (w' ++ x) := by
  induction ids generalizing w with
  | nil =>
    simp only [encDescs] at h
    cases h
    exact ⟨[], by simp, rfl, fun w' => by simp [encDescs]⟩
  | cons id ids ih =>
    simp only [encDescs] at h
    split at h
    · cases h
    rename_i wa h1
    split at h
    · cases h
    rename_i wb h2
    split at h
    · cases h
    rename_i wc h3
    obtain ⟨x1, e1, f1, s1⟩ := writeUInt_sh h1
    obtain ⟨x2, e2, f2, s2⟩ := writeUInt_sh h2
    obtain ⟨x3, e3, f3, s3⟩ := writeUInt_sh h3
    obtain ⟨y, hy, hyl, sy⟩ := ih h
    subst e1 e2 e3
    refine ⟨x1 ++ x2 ++ x3 ++ y, by rw [hy]; simp only [List.append_assoc], ?_, fun w' => ?_⟩
    · simp only [List.length_append, f1, f2, f3, toBits_length, hyl, List.length_cons]; omega
    · simp only [encDescs]
      rw [s1 w']; simp only []
      rw [s2 (w' ++ x1)]; simp only []
      rw [s3 (w' ++ x1 ++ x2)]; simp only []
      rw [sy]; simp only [List.append_assoc]

theorem encParam_sh {w : Bits} {p : Param} {v : PVal} {payload w1 : Bits}
    (h : encParam w p v payload = .ok w1) :
    ∃ x, w1 = w ++ x ∧ ∀ w', encParam w' p v payload = .ok (w' ++ x) := by
  unfold encParam at h
  split at h
  · rename_i ids hty
    obtain ⟨x, e, _, s⟩ := encDescs_sh h
    exact ⟨x, e, fun w' => by simp only [encParam, hty, s w']⟩
  · rename_i hty
    cases h
    exact ⟨payload, rfl, fun w' => by simp only [encParam, hty]⟩
  · rename_i x hty
    obtain ⟨y, e, _, s⟩ := writeUInt_sh h
    exact ⟨y, e, fun w' => by simp only [encParam, hty, s w']⟩
  · rename_i x hty
    unfold writeInt writeBool at h
    obtain ⟨y, e, _, s⟩ := writeUInt_sh h
    refine ⟨decide (x < 0) :: y, by rw [e]; simp, fun w' => ?_⟩
    simp only [encParam, hty, writeInt, writeBool, s (w' ++ [decide (x < 0)])]
    simp
  · rename_i b hty
    cases h
    exact ⟨[b], rfl, fun w' => by simp only [encParam, hty, writeBool]⟩
  · rename_i bs hty
    cases h
    exact ⟨bs, rfl, fun w' => by simp only [encParam, hty, writeBin]⟩
  · rename_i b hty
    cases h
    exact ⟨_, rfl, fun w' => by simp only [encParam, hty, writeBytes]⟩
  · cases h

theorem encParams_sh {payload : Bits} {ps : List Param} {vs : List PVal} {w w1 : Bits}
    (h : encParams payload ps vs w = .ok w1) :
    ∃ x, w1 = w ++ x ∧ ∀ w', encParams payload ps vs w' = .ok (w' ++ x) := by
  induction ps generalizing vs w with
  | nil => simp only [encParams] at h; cases h; exact ⟨[], by simp, fun w' => by simp [encParams]⟩
  | cons p ps ih =>
    cases vs with
    | nil => simp only [encParams] at h; cases h
    | cons v vs =>
      simp only [encParams] at h
      split at h
      · cases h
      rename_i wa h1
      obtain ⟨x, e, s⟩ := encParam_sh h1
      obtain ⟨y, e', s'⟩ := ih h
      subst e
      exact ⟨x ++ y, by rw [e', List.append_assoc], fun w' => by
        simp only [encParams, s w', s' (w' ++ x), List.append_assoc]⟩

/-! ## fixed-width parameters: the read returns what was written -/

/-- what reading back returns for a fixed-width parameter: bytes are blank-padded / cut to the width -/
def canonV (p : Param) : PVal → PVal
  | .bytes b => .bytes (padBytes b (p.nbits / 8))
  | v => v

/-- what the round trip needs of a supplied value: a `bin` value has the declared width (the writer
    takes the width from the value), a value with an expectation meets it (the encoder does not check),
    the place of the template data is held by `PVal.data` (the encoder ignores what is there) -/
def valOK (p : Param) (v : PVal) : Bool :=
  (match v with | .bin bs => p.nbits == 0 || bs.length == p.nbits | _ => true) &&
  (match p.expected with | none => true | some e => decide (canonV p v = .bytes e)) &&
  (p.ty != .templateData || decide (v = .data))

def valsOK : List Param → List PVal → Bool
  | p :: ps, v :: vs => valOK p v && valsOK ps vs
  | _, _ => true

theorem decValue_fixed {α : Type} (dc : DataCoder α) {p : Param} {v : PVal} {payload w x : Bits}
    (hw : p.widthOK = true) (hn : p.nbits ≠ 0) (hv : valOK p v = true)
    (h : encParam w p v payload = .ok (w ++ x)) (st : DecSt α) (suf : Bits) :
    decValue dc st p (x ++ suf) = .ok ((canonV p v, none), suf) ∧ x.length = p.nbits := by
  unfold encParam at h
  split at h
  · rename_i ids hty
    simp [Param.widthOK, hty] at hw; exact absurd hw hn
  · rename_i hty
    simp [Param.widthOK, hty] at hw; exact absurd hw hn
  · rename_i i hty
    obtain ⟨e, hn0, hi, hlt⟩ := writeUInt_ok h
    have hx := List.append_cancel_left e
    subst hx
    refine ⟨?_, toBits_length _ _⟩
    simp only [decValue, hty, hn, if_false, readTyped, R.map, R.bind, readUInt_toBits _ _ suf hn0 hlt, R.pure,
      canonV]
    have : Int.ofNat i.toNat = i := by simp only [Int.ofNat_eq_natCast]; omega
    rw [this]
  · rename_i i hty
    simp only [Param.widthOK, hty, Bool.or_eq_true, beq_iff_eq, decide_eq_true_eq] at hw
    have h2 : 2 ≤ p.nbits := by omega
    unfold writeInt writeBool at h
    obtain ⟨e, hn0, hi, hlt⟩ := writeUInt_ok h
    rw [List.append_assoc] at e
    have hx := List.append_cancel_left e
    subst hx
    refine ⟨?_, by simp only [List.length_append, List.length_cons, List.length_nil, toBits_length]; omega⟩
    simp only [decValue, hty, hn, if_false, readTyped, R.map, R.bind, readInt, List.cons_append, List.nil_append,
      readBool, readUInt_toBits _ _ suf hn0 hlt, R.pure, canonV]
    have : (if decide (i < 0) = true then -Int.ofNat (Int.ofNat i.natAbs).toNat else Int.ofNat (Int.ofNat i.natAbs).toNat) = i := by
      by_cases hneg : i < 0 <;> simp [hneg] <;> omega
    rw [this]
  · rename_i b hty
    simp only [Param.widthOK, hty, beq_iff_eq] at hw
    have hx : [b] = x := List.append_cancel_left (Except.ok.inj h)
    subst hx
    refine ⟨?_, by simp [hw]⟩
    simp only [decValue, hty, hn, if_false, readTyped, R.map, R.bind, List.cons_append, List.nil_append,
      readBool, R.pure, canonV]
  · rename_i bs hty
    have hx : bs = x := List.append_cancel_left (Except.ok.inj h)
    subst hx
    have hl : bs.length = p.nbits := by
      simp only [valOK, Bool.and_eq_true, Bool.or_eq_true, beq_iff_eq] at hv
      rcases hv.1.1 with h0 | h0
      · exact absurd h0 hn
      · exact h0
    refine ⟨?_, hl⟩
    simp only [decValue, hty, hn, if_false, readTyped, R.map, R.bind, readBin,
      readBits_append_of_length _ _ suf hl, R.pure, canonV]
  · rename_i b hty
    simp only [Param.widthOK, hty, beq_iff_eq] at hw
    have hx : bytesToBits (padBytes b (p.nbits / 8)) = x := List.append_cancel_left (Except.ok.inj h)
    subst hx
    have hr := readBytes_bytesToBits (padBytes b (p.nbits / 8)) suf
    rw [padBytes_length] at hr
    refine ⟨?_, by rw [bytesToBits_length, padBytes_length]; omega⟩
    simp only [decValue, hty, hn, if_false, readTyped, R.map, R.bind, hr, R.pure, canonV]
  · cases h

theorem checkExpected_ok {p : Param} {v : PVal} (hv : valOK p v = true) : checkExpected p (canonV p v) = .ok () := by
  unfold checkExpected
  simp only [valOK, Bool.and_eq_true] at hv
  have h2 := hv.1.2
  split
  · rfl
  · rename_i e he
    rw [he] at h2
    simp only [decide_eq_true_eq] at h2
    rw [if_pos h2]

theorem counted_append {α : Type} {f : R α} {x suf : Bits} {a : α} (h : f (x ++ suf) = .ok (a, suf)) :
    R.counted f (x ++ suf) = .ok ((a, x.length), suf) := by
  simp only [R.counted, h, List.length_append, Nat.add_sub_cancel]

/-- a run of fixed-width parameters -/
theorem decParams_fixed {α : Type} (dc : DataCoder α) (payload : Bits) (start : Nat) :
    ∀ (ps : List Param) (vs : List PVal) (w x : Bits),
      (∀ p ∈ ps, p.widthOK = true ∧ p.nbits ≠ 0) → valsOK ps vs = true →
      encParams payload ps vs w = .ok (w ++ x) →
      x.length = (ps.map (·.nbits)).sum ∧
      ∀ (off : Nat) (st : DecSt α) (suf : Bits),
        decParams dc start ps off st (x ++ suf) = .ok
          ({ reg := register st.reg start off ps (List.zipWith canonV ps vs),
             acc := st.acc ++ List.zipWith (fun p v => (p.name, canonV p v)) ps vs,
             used := st.used + x.length, data := st.data }, suf) := by
  intro ps
  induction ps with
  | nil =>
    intro vs w x _ _ h
    simp only [encParams] at h
    have hx : [] = x := List.append_cancel_left (as := w) (by simpa using Except.ok.inj h)
    subst hx
    refine ⟨rfl, fun off st suf => ?_⟩
    simp [decParams, R.pure, register]
  | cons p ps ih =>
    intro vs w x hall hvs h
    cases vs with
    | nil => simp only [encParams] at h; cases h
    | cons v vs =>
      simp only [encParams] at h
      split at h
      · cases h
      rename_i wa h1
      obtain ⟨x1, e1, _⟩ := encParam_sh h1
      subst e1
      obtain ⟨x2, e2, _⟩ := encParams_sh h
      have hx : x = x1 ++ x2 := by
        rw [List.append_assoc] at e2
        exact List.append_cancel_left e2
      subst hx
      simp only [valsOK, Bool.and_eq_true] at hvs
      obtain ⟨hw, hn⟩ := hall p List.mem_cons_self
      obtain ⟨ihl, ihd⟩ := ih vs (w ++ x1) x2 (fun q hq => hall q (List.mem_cons_of_mem _ hq)) hvs.2
        (by rw [h, List.append_assoc])
      have hfix := fun st suf => decValue_fixed dc (st := st) (suf := suf) hw hn hvs.1 h1
      have hl1 : x1.length = p.nbits := (hfix { reg := [], acc := [], used := 0, data := none } []).2
      refine ⟨by simp only [List.length_append, List.map_cons, List.sum_cons, ihl, hl1], fun off st suf => ?_⟩
      have hc := counted_append (hfix st (x2 ++ suf)).1
      simp only [decParams, R.bind, List.append_assoc, hc, checkExpected_ok hvs.1, R.lift, R.pure, ihd]
      simp only [List.zipWith_cons_cons, register, List.length_append, List.append_assoc, List.cons_append,
        List.nil_append, Nat.add_assoc]

/-! ## the bits of one encoded section, explicitly -/

theorem padBits_16 (ed : Int) (n : Nat) (h : n % 16 = 0) : padBits ed n = 0 := by
  unfold padBits
  split <;> split <;> (try split) <;> (try simp only [bne_iff_ne, ne_eq] at *) <;> omega

/-- a section with a section length: `H` octets = 24-bit length field `H`, the rest of the content `y`
    (what the parameters after the length wrote), `z` zero bits -/
structure LenShape (cfg : EncCfg) (s : SectionLayout) (vs : List PVal) (payload : Bits) (B : Bits) : Prop where
  ex : ∃ (p : Param) (ps : List Param) (d : Int) (vs' : List PVal) (y : Bits) (z H : Nat) (ed : Int),
    s.params = p :: ps ∧ p.name = "section_length" ∧ p.nbits = 24 ∧ p.ty = .uint ∧ vs = .int d :: vs' ∧
    (∀ w', encParams payload ps vs' w' = .ok (w' ++ y)) ∧
    B = toBits 24 H ++ y ++ zeros z ∧ H < 2 ^ 24 ∧ 8 * H = 24 + y.length + z ∧
    ((cfg.ignoreDeclared = true ∨ d = 0) → z = padBits ed (24 + y.length))

theorem encSection_shape {cfg : EncCfg} {s : SectionLayout} {vs : List PVal} {payload : Bits}
    {reg : Registry} {w : Bits} {reg1 : Registry} {w' : Bits} (hs : s.WF = true)
    (h : encSection cfg s vs payload reg w = .ok (reg1, w')) :
    reg1 = register reg w.length 0 s.params vs ∧ s.params.length = vs.length ∧
    ∃ B, w' = w ++ B ∧
      ((s.hasParam "section_length" = false ∧
          ∃ x ed, (∀ w0, encParams payload s.params vs w0 = .ok (w0 ++ x)) ∧ B = x ++ zeros (padBits ed x.length)) ∨
       (s.hasParam "section_length" = true ∧ LenShape cfg s vs payload B)) := by
  have hlen := encSection_len h
  unfold encSection at h
  split at h
  · cases h
  split at h
  · cases h
  rename_i w1 h1
  obtain ⟨x, e, hsh⟩ := encParams_sh h1
  subst e
  simp only at h
  split at h
  rotate_left
  · cases h
  rename_i ed nb ps hed
  split at h
  · cases h
  rename_i w3 hc
  cases h
  refine ⟨rfl, hlen, ?_⟩
  have hxl : (w ++ x).length - w.length = x.length := by simp
  rw [hxl] at hc
  by_cases hh : s.hasParam "section_length" = true
  · obtain ⟨p, ps', hp, hname, hnb, hty⟩ := lenFirst_cons (wf_lenFirst hs) hh
    rw [hp] at h1
    cases vs with
    | nil => simp only [encParams] at h1; cases h1
    | cons v vs' =>
      simp only [encParams] at h1
      split at h1
      · cases h1
      rename_i wa ha
      obtain ⟨y, hy, hysh⟩ := encParams_sh h1
      cases v with
      | int d =>
        simp only [encParam, hty, hnb] at ha
        obtain ⟨hwa, _, hd0, hdlt⟩ := writeUInt_ok ha
        subst hwa
        have hx : x = toBits 24 d.toNat ++ y := by
          rw [List.append_assoc] at hy
          exact List.append_cancel_left hy
        subst hx
        have hpo : paramOf s.params "section_length" = some p := by
          rw [hp, ← hname]; simp [paramOf, List.find?]
        have hvo : valOf s.params (PVal.int d :: vs') "section_length" = some (PVal.int d) := by
          rw [hp, ← hname]; simp [valOf]
        have hoff : s.offsetOf "section_length" = some 0 := by
          rw [← hname]; exact offsetOf_head hp
        simp only [closeSection, hpo, hvo, hoff, hnb, Nat.add_zero] at hc
        have h24 : (toBits 24 d.toNat).length = 24 := toBits_length _ _
        have hwl : (w ++ (toBits 24 d.toNat ++ y) ++ zeros (padBits ed (toBits 24 d.toNat ++ y).length)).length - w.length
            = 24 + y.length + padBits ed (24 + y.length) := by
          simp only [List.length_append, h24, zeros_length]; omega
        have hyl : (toBits 24 d.toNat ++ y).length = 24 + y.length := by
          simp only [List.length_append, h24]
        rw [hwl, hyl] at hc
        simp only [Int.ofNat_eq_natCast] at hc
        split at hc
        · rename_i hcond
          obtain ⟨hw3, _, hH⟩ := setUInt_ok hc
          have htake : (w ++ (toBits 24 d.toNat ++ y) ++ zeros (padBits ed (24 + y.length))).take w.length = w := by
            rw [List.append_assoc, List.take_left']; rfl
          have hdrop : (w ++ (toBits 24 d.toNat ++ y) ++ zeros (padBits ed (24 + y.length))).drop (w.length + 24)
              = y ++ zeros (padBits ed (24 + y.length)) := by
            have := drop_two w (toBits 24 d.toNat) (y ++ zeros (padBits ed (24 + y.length))) 24 h24
            simpa only [List.append_assoc] using this
          rw [htake, hdrop] at hw3
          have hoct := padBits_octets ed (24 + y.length)
          refine ⟨toBits 24 ((24 + y.length + padBits ed (24 + y.length)) / 8) ++ y ++ zeros (padBits ed (24 + y.length)),
            by rw [hw3]; simp only [List.append_assoc], Or.inr ⟨hh, ⟨p, ps', d, vs', y, _, _, ed, hp, hname, hnb, hty, rfl,
              hysh, rfl, hH, by omega, fun _ => rfl⟩⟩⟩
        · rename_i hcond
          simp only [Bool.or_eq_true, beq_iff_eq, not_or, Bool.not_eq_true] at hcond
          have hnr : ¬ (cfg.ignoreDeclared = true ∨ d = 0) := by
            rintro (hr | hr)
            · simp [hcond.2] at hr
            · exact hcond.1 hr
          split at hc
          · rename_i hpos
            unfold skip at hc
            split at hc
            · cases hc
            cases hc
            refine ⟨toBits 24 d.toNat ++ y ++ zeros (padBits ed (24 + y.length) +
                (d * 8 - ((24 + y.length + padBits ed (24 + y.length) : Nat) : Int)).toNat),
              by simp only [List.append_assoc, zeros_append], Or.inr ⟨hh, ⟨p, ps', d, vs', y, _, _, ed, hp, hname, hnb, hty, rfl,
                hysh, rfl, hdlt, by omega, fun hr => absurd hr hnr⟩⟩⟩
          · split at hc
            · cases hc
            · rename_i hnpos hnneg
              cases hc
              refine ⟨toBits 24 d.toNat ++ y ++ zeros (padBits ed (24 + y.length)),
                by simp only [List.append_assoc], Or.inr ⟨hh, ⟨p, ps', d, vs', y, _, _, ed, hp, hname, hnb, hty, rfl,
                  hysh, rfl, hdlt, by omega, fun hr => absurd hr hnr⟩⟩⟩
      | bool b => simp [encParam, hty] at ha
      | bin b => simp [encParam, hty] at ha
      | bytes b => simp [encParam, hty] at ha
      | descs b => simp [encParam, hty] at ha
      | data => simp [encParam, hty] at ha
  · have hh' : s.hasParam "section_length" = false := by simpa using hh
    have hpo : paramOf s.params "section_length" = none := paramOf_none hh'
    simp only [closeSection, hpo] at hc
    cases hc
    exact ⟨x ++ zeros (padBits ed x.length), by simp only [List.append_assoc], Or.inl ⟨hh', x, ed, hsh, rfl⟩⟩

/-! ## supplied values vs decoded values -/

section rel
-- `X`: "the encoder recomputes section lengths" (under it a descriptor list is read back exactly)
variable (X : Prop)

/-- decoded value `v'` of a parameter called `n` of declared width `nb` for the supplied value `v`:
    integers and flags come back as supplied (the two back-patched length fields excepted: their decoded
    values are characterised by `C04_decode_consumes_declared` / `C04_encoded_frame`), bytes blank-padded or
    cut to the width, a zero-width `bin` extended by the zero padding of its section, a descriptor list
    possibly extended by null descriptors read from the zero fill of an over-declared section. -/
def PRel (n : String) (nb : Nat) (v v' : PVal) : Prop :=
  match v with
  | .int x => (n = "section_length" ∨ n = "length") ∨ v' = .int x
  | .bool b => v' = .bool b
  | .bin bs => ∃ k, v' = .bin (bs ++ zeros k) ∧ (nb ≠ 0 → k = 0)
  | .bytes b => nb ≠ 0 → v' = .bytes (padBytes b (nb / 8))
  | .descs ids => ∃ k, v' = .descs (ids ++ List.replicate k 0) ∧ (X → k = 0)
  | .data => v' = .data

/-- parameter list / supplied values / decoded values; the second conjunct: what the section loop
    itself consults (`edition`, `is_section<k>_presents`) is decoded exactly -/
def RelVals : List Param → List PVal → List PVal → Prop
  | [], _, [] => True
  | p :: ps, v :: vs, v' :: vsD =>
    PRel X p.name p.nbits v v' ∧ (p.asProperty = true → isCtrl p.name = true → v' = v) ∧ RelVals ps vs vsD
  | _, _, _ => False

def decAcc (ps : List Param) (vsD : List PVal) : List (String × PVal) :=
  List.zipWith (fun p v' => (p.name, v')) ps vsD

def ERel (e e' : String × PropEntry) : Prop :=
  e.1 = e'.1 ∧ e.2.nbits = e'.2.nbits ∧ e.2.pos = e'.2.pos ∧ PRel X e.1 e.2.nbits e.2.val e'.2.val ∧
    (isCtrl e.1 = true → e'.2.val = e.2.val)

/-- the decoder's registry against the encoder's: entry by entry the same names, widths and bit
    positions, values related by `PRel`, control properties identical -/
def RegRel : Registry → Registry → Prop
  | [], [] => True
  | e :: r, e' :: r' => ERel X e e' ∧ RegRel r r'
  | _, _ => False

variable {X}

theorem PRel_canon (p : Param) (v : PVal) : PRel X p.name p.nbits v (canonV p v) := by
  cases v with
  | int x => exact Or.inr rfl
  | bool b => exact rfl
  | bin bs => exact ⟨0, by simp [zeros, canonV], fun _ => rfl⟩
  | bytes b => exact fun _ => rfl
  | descs ids => exact ⟨0, by simp [canonV], fun _ => rfl⟩
  | data => exact rfl

theorem RegRel_refl_init : RegRel X Registry.init Registry.init := by
  simp only [Registry.init, RegRel, ERel, PRel, and_true, true_and]
  decide

theorem RegRel_get {rE rD : Registry} (h : RegRel X rE rD) (n : String) (hn : isCtrl n = true) :
    (rD.get? n).map (·.val) = (rE.get? n).map (·.val) := by
  induction rE generalizing rD with
  | nil => cases rD with
    | nil => rfl
    | cons _ _ => simp [RegRel] at h
  | cons e r ih =>
    cases rD with
    | nil => simp [RegRel] at h
    | cons e' r' =>
      obtain ⟨⟨h1, _, _, _, h5⟩, h6⟩ := h
      obtain ⟨k, ev⟩ := e
      obtain ⟨k', ev'⟩ := e'
      simp only at h1 h5
      subst h1
      simp only [Registry.get?, List.lookup]
      by_cases hk : n = k
      · subst hk
        simp only [beq_self_eq_true, Option.map_some, h5 hn]
      · have : (n == k) = false := by simpa using hk
        simp only [this]
        exact ih h6

/-- looking a property up in the decoder's registry: the same entry as in the encoder's, the value `PRel`-related -/
theorem RegRel_lookup {rE rD : Registry} (h : RegRel X rE rD) (n : String) (e : PropEntry) (he : rE.get? n = some e) :
    ∃ e', rD.get? n = some e' ∧ e'.nbits = e.nbits ∧ e'.pos = e.pos ∧ PRel X n e.nbits e.val e'.val := by
  induction rE generalizing rD with
  | nil => simp [Registry.get?, List.lookup] at he
  | cons c r ih =>
    cases rD with
    | nil => simp [RegRel] at h
    | cons c' r' =>
      obtain ⟨⟨h1, h2, h3, h4, _⟩, h6⟩ := h
      obtain ⟨k, ev⟩ := c
      obtain ⟨k', ev'⟩ := c'
      simp only at h1 h2 h3 h4
      subst h1
      simp only [Registry.get?, List.lookup] at he ⊢
      by_cases hk : n = k
      · subst hk
        simp only [beq_self_eq_true, Option.some.injEq] at he ⊢
        subst he
        exact ⟨ev', rfl, h2.symm, h3.symm, h4⟩
      · have : (n == k) = false := by simpa using hk
        simp only [this] at he ⊢
        exact ih h6 he

theorem RegRel_editionKey {rE rD : Registry} (h : RegRel X rE rD) : rD.editionKey = rE.editionKey := by
  have := RegRel_get h "edition" isCtrl_edition
  unfold Registry.editionKey
  cases h1 : rD.get? "edition" <;> cases h2 : rE.get? "edition" <;> simp only [h1, h2, Option.map_some,
    Option.map_none, Option.some.injEq, reduceCtorEq] at this
  · rfl
  · simp only [this]

theorem RegRel_isPresent {rE rD : Registry} (h : RegRel X rE rD) (s : SectionLayout) (idx : Nat) :
    isPresent rD s idx = isPresent rE s idx := by
  have := RegRel_get h (presName idx) (isCtrl_presName idx)
  unfold isPresent
  split
  · rfl
  · cases h1 : rD.get? (presName idx) <;> cases h2 : rE.get? (presName idx) <;> simp only [h1, h2, Option.map_some,
      Option.map_none, Option.some.injEq, reduceCtorEq] at this
    · rfl
    · simp only [this]

theorem RegRel_register (start : Nat) :
    ∀ (ps : List Param) (vs vsD : List PVal) (off : Nat) (rE rD : Registry),
      RelVals X ps vs vsD → RegRel X rE rD → RegRel X (register rE start off ps vs) (register rD start off ps vsD) := by
  intro ps
  induction ps with
  | nil => intro vs vsD off rE rD _ h; cases vs <;> cases vsD <;> simpa [register] using h
  | cons p ps ih =>
    intro vs vsD off rE rD hr h
    cases vs with
    | nil => simp [RelVals] at hr
    | cons v vs =>
      cases vsD with
      | nil => simp [RelVals] at hr
      | cons v' vsD =>
        obtain ⟨h1, h2, h3⟩ := hr
        simp only [register]
        apply ih _ _ _ _ _ h3
        by_cases hp : p.asProperty = true
        · simp only [hp, if_true]
          exact ⟨⟨rfl, rfl, rfl, h1, h2 hp⟩, h⟩
        · simp only [hp]; exact h

/-! ## descriptors -/

theorem toBits_zero (n : Nat) : toBits n 0 = zeros n := by
  induction n with
  | zero => rfl
  | succ n ih => simp only [toBits, ih, zeros, List.replicate_succ, Nat.zero_div, Nat.zero_mod]; rfl

theorem readUInt_zeros (n : Nat) (hn : 0 < n) (rest : Bits) : readUInt n (zeros n ++ rest) = .ok (0, rest) := by
  rw [← toBits_zero]
  exact readUInt_toBits n 0 rest hn (Nat.pos_of_ne_zero (by simp))

theorem readDescs_zeros (j : Nat) (rest : Bits) :
    readDescs j (zeros (16 * j) ++ rest) = .ok (List.replicate j 0, rest) := by
  induction j with
  | zero => simp [readDescs, R.pure, zeros]
  | succ j ih =>
    have : zeros (16 * (j + 1)) = zeros 2 ++ (zeros 6 ++ (zeros 8 ++ zeros (16 * j))) := by
      simp only [zeros_append]; congr 1; omega
    simp only [readDescs, R.bind, R.map, this, List.append_assoc, readUInt_zeros 2 (by decide),
      readUInt_zeros 6 (by decide), readUInt_zeros 8 (by decide), ih, R.pure, List.replicate_succ]

theorem readDescs_enc {ids : List Nat} {w x : Bits} (h : encDescs w ids = .ok (w ++ x)) (j : Nat) (rest : Bits) :
    readDescs (ids.length + j) (x ++ (zeros (16 * j) ++ rest)) = .ok (ids ++ List.replicate j 0, rest) := by
  induction ids generalizing w x with
  | nil =>
    simp only [encDescs] at h
    have hx : [] = x := List.append_cancel_left (as := w) (by simpa using Except.ok.inj h)
    subst hx
    simpa using readDescs_zeros j rest
  | cons id ids ih =>
    simp only [encDescs] at h
    split at h
    · cases h
    rename_i wa h1
    split at h
    · cases h
    rename_i wb h2
    split at h
    · cases h
    rename_i wc h3
    obtain ⟨e1, n1, p1, l1⟩ := writeUInt_ok h1
    obtain ⟨e2, n2, p2, l2⟩ := writeUInt_ok h2
    obtain ⟨e3, n3, p3, l3⟩ := writeUInt_ok h3
    subst e1 e2 e3
    obtain ⟨y, hy, _⟩ := encDescs_sh h
    have hx : x = toBits 2 (Int.ofNat (id / 100000)).toNat ++ (toBits 6 (Int.ofNat (id / 1000 % 100)).toNat ++
        (toBits 8 (Int.ofNat (id % 1000)).toNat ++ y)) := by
      simp only [List.append_assoc] at hy
      exact List.append_cancel_left hy
    rw [hy] at h
    have ihy := ih h
    subst hx
    have hlen : (id :: ids).length + j = (ids.length + j) + 1 := by simp only [List.length_cons]; omega
    rw [hlen]
    simp only [readDescs, R.bind, R.map, List.append_assoc, readUInt_toBits 2 _ _ n1 l1, readUInt_toBits 6 _ _ n2 l2,
      readUInt_toBits 8 _ _ n3 l3, ihy, R.pure, List.cons_append]
    simp only [Int.ofNat_eq_natCast, Int.toNat_natCast] at l1 l2 l3 ⊢
    have : id / 100000 * 100000 + id / 1000 % 100 * 1000 + id % 1000 = id := by omega
    rw [this]

/-! ## the zero-width last parameter of a section -/

theorem zeros_split (a b : Nat) (h : a ≤ b) : zeros b = zeros a ++ zeros (b - a) := by
  rw [zeros_append]; congr 1; omega

/-- the zero-width parameter: reads what the encoder wrote for it and possibly some of the zero padding -/
theorem decValue_zero {α : Type} (dc : DataCoder α) (a : α) {p : Param} {v : PVal} {payload w y : Bits}
    (hw : p.widthOK = true) (hn : p.nbits = 0) (hv : valOK p v = true) (h : encParam w p v payload = .ok (w ++ y))
    (st : DecSt α) (H z : Nat) (hsl : secLen st.acc = .ok H) (hH : 8 * H = st.used + y.length + z)
    (hal : p.ty = .descriptors → st.used % 8 = 0) (hX : X → z < 16)
    (hdc : p.ty = .templateData → ∀ x, dc.dec st.reg (payload ++ x) = .ok (a, x)) :
    ∃ (v' : PVal) (c : Bits) (z' : Nat) (dat : Option α), z' ≤ z ∧ c.length = y.length + (z - z') ∧
      PRel X p.name p.nbits v v' ∧ (p.ty ≠ .uint ∧ p.ty ≠ .int ∧ p.ty ≠ .bool) ∧ dat = (if p.ty = .templateData then some a else none) ∧
      ∀ suf, y ++ (zeros z ++ suf) = c ++ (zeros z' ++ suf) ∧
        decValue dc st p (c ++ (zeros z' ++ suf)) = .ok ((v', dat), zeros z' ++ suf) := by
  unfold encParam at h
  split at h
  · -- descriptors
    rename_i ids hty
    obtain ⟨y', e, hyl, _⟩ := encDescs_sh h
    have hy : y = y' := List.append_cancel_left e
    subst hy
    have hu := hal hty
    have hcount : (H - st.used / 8) / 2 = ids.length + z / 16 := by omega
    refine ⟨.descs (ids ++ List.replicate (z / 16) 0), y ++ zeros (16 * (z / 16)), z - 16 * (z / 16), none,
      by omega, by simp only [List.length_append, zeros_length]; omega, ⟨z / 16, rfl, fun hx => by have := hX hx; omega⟩, (by simp [hty]),
      (by simp [hty]), fun suf => ⟨?_, ?_⟩⟩
    · rw [zeros_split (16 * (z / 16)) z (by omega)]; simp only [List.append_assoc]
    · simp only [decValue, hty, R.bind, hsl, R.lift, R.pure, R.map, hcount, List.append_assoc,
        readDescs_enc h (z / 16) (zeros (z - 16 * (z / 16)) ++ suf)]
  · -- template data
    rename_i vx _ _ hty
    have hy : payload = y := List.append_cancel_left (Except.ok.inj h)
    subst hy
    have hvd : vx = PVal.data := by
      simp only [valOK, Bool.and_eq_true, hty, bne_self_eq_false, Bool.false_or, decide_eq_true_eq] at hv
      exact hv.2
    subst hvd
    refine ⟨.data, payload, z, some a, Nat.le_refl _, by omega, rfl, (by simp [hty]), (by simp [hty]),
      fun suf => ⟨rfl, ?_⟩⟩
    simp only [decValue, hty, R.map, R.bind, hdc hty, R.pure]
  · rename_i i hty
    obtain ⟨_, h0, _⟩ := writeUInt_ok h
    omega
  · rename_i i hty
    unfold writeInt at h
    obtain ⟨_, h0, _⟩ := writeUInt_ok h
    omega
  · rename_i b hty
    simp only [Param.widthOK, hty, beq_iff_eq] at hw
    omega
  · -- bin
    rename_i bs hty
    have hy : bs = y := List.append_cancel_left (Except.ok.inj h)
    subst hy
    have hlt : ¬ (H * 8 < st.used) := by omega
    have hr : ∀ suf, readBits (H * 8 - st.used) ((bs ++ zeros z) ++ ([] ++ suf)) = .ok (bs ++ zeros z, [] ++ suf) :=
      fun suf => readBits_append_of_length _ _ _ (by simp only [List.length_append, zeros_length]; omega)
    refine ⟨.bin (bs ++ zeros z), bs ++ zeros z, 0, none, Nat.zero_le _,
      by simp only [List.length_append, zeros_length]; omega, ⟨z, rfl, fun h0 => absurd hn h0⟩,
      (by simp [hty]), (by simp [hty]), fun suf => ⟨by simp [zeros], ?_⟩⟩
    have hz0 : zeros 0 = [] := rfl
    simp only [decValue, hty, hn, if_true, reduceCtorEq, if_false, R.bind, hsl, R.lift, R.pure, hlt, readTyped, R.map,
      readBin, hz0, hr suf]
  · -- bytes
    rename_i b hty
    have hp0 : padBytes b (p.nbits / 8) = [] := by simp [padBytes, hn]
    have hy : [] = y := by
      have := List.append_cancel_left (Except.ok.inj h)
      simpa [hp0, bytesToBits] using this
    subst hy
    have hlt : ¬ (H * 8 < st.used) := by omega
    have hn8 : (H * 8 - st.used) / 8 = z / 8 := by simp only [List.length_nil] at hH; congr 1; omega
    have hr : ∀ suf, readBits (8 * (z / 8)) (zeros (8 * (z / 8)) ++ (zeros (z - 8 * (z / 8)) ++ suf))
        = .ok (zeros (8 * (z / 8)), zeros (z - 8 * (z / 8)) ++ suf) :=
      fun suf => readBits_append_of_length _ _ _ (zeros_length _)
    refine ⟨.bytes (bitsToBytes (zeros (8 * (z / 8)))), zeros (8 * (z / 8)), z - 8 * (z / 8), none, by omega,
      by simp only [zeros_length, List.length_nil]; omega, fun h0 => absurd hn h0,
      (by simp [hty]), (by simp [hty]), fun suf => ⟨?_, ?_⟩⟩
    · rw [zeros_split (8 * (z / 8)) z (by omega)]; simp only [List.nil_append, List.append_assoc]
    · simp only [decValue, hty, hn, if_true, reduceCtorEq, if_false, R.bind, hsl, R.lift, R.pure, hlt, readTyped, R.map,
        readBytes, hn8, hr suf]
  · cases h

/-! ## the parameters of a section after its length field -/

/-- a zero width only for the last parameter (recursive form of `SectionLayout.zeroLast`) -/
def zl : List Param → Bool
  | [] => true
  | [_] => true
  | p :: q :: r => p.nbits != 0 && zl (q :: r)

theorem zl_tail {p : Param} {ps : List Param} (h : zl (p :: ps) = true) : zl ps = true := by
  cases ps with
  | nil => rfl
  | cons q r => simp only [zl, Bool.and_eq_true] at h; exact h.2

theorem zl_snoc (init : List Param) (last : Param) (h : ∀ p ∈ init, p.nbits ≠ 0) : zl (init ++ [last]) = true := by
  induction init with
  | nil => rfl
  | cons p ps ih =>
    have ih' := ih (fun q hq => h q (List.mem_cons_of_mem _ hq))
    cases hps : ps ++ [last] with
    | nil => simp at hps
    | cons q r =>
      rw [hps] at ih'
      simp only [List.cons_append, hps, zl, Bool.and_eq_true, bne_iff_ne, ne_eq]
      exact ⟨h p List.mem_cons_self, ih'⟩

theorem zl_of_zeroLast {s : SectionLayout} (h : s.zeroLast = true) : zl s.params = true := by
  unfold SectionLayout.zeroLast at h
  split at h
  · cases h
  rename_i last ir hrev
  have hp : s.params = ir.reverse ++ [last] := by
    have := congrArg List.reverse hrev
    simpa using this
  rw [hp]
  apply zl_snoc
  intro p hp'
  have := List.all_eq_true.mp h p (List.mem_reverse.mp hp')
  simpa using this

theorem lookup_append_some {β : Type} {k : String} {acc more : List (String × β)} {v : β}
    (hv : acc.lookup k = some v) : (acc ++ more).lookup k = some v := by
  induction acc with
  | nil => simp [List.lookup] at hv
  | cons e acc ih =>
    obtain ⟨k', x⟩ := e
    simp only [List.lookup, List.cons_append] at hv ⊢
    split
    · rename_i heq; rw [heq] at hv; exact hv
    · rename_i hne; rw [hne] at hv
      exact ih hv

theorem secLen_append {acc more : List (String × PVal)} {H : Nat} (h : secLen acc = .ok H) :
    secLen (acc ++ more) = .ok H := by
  obtain ⟨v, hv, rfl⟩ := secLen_has h
  unfold secLen; rw [lookup_append_some hv]

/-- per-parameter side conditions -/
def PGood (p : Param) : Prop :=
  p.widthOK = true ∧
  (p.asProperty = true → isCtrl p.name = true → (p.ty = .uint ∨ p.ty = .int ∨ p.ty = .bool)) ∧
  (p.nbits = 0 → p.expected = none)

theorem canonV_exact {w : Bits} {p : Param} {v : PVal} {payload w1 : Bits} (h : encParam w p v payload = .ok w1)
    (hty : p.ty = .uint ∨ p.ty = .int ∨ p.ty = .bool) : canonV p v = v := by
  cases v <;> first | rfl | skip
  rename_i b
  rcases hty with hty | hty | hty <;> simp [encParam, hty] at h

def hasData (ps : List Param) : Bool := ps.any (·.ty == .templateData)
def beforeData (ps : List Param) : List Param := ps.takeWhile (·.ty != .templateData)

theorem decParams_tail {α : Type} (dc : DataCoder α) (a : α) (payload : Bits) (start H : Nat) :
    ∀ (ps : List Param) (vs : List PVal) (w y : Bits) (z off : Nat) (st : DecSt α) (rE : Registry),
      (∀ p ∈ ps, PGood p) → zl ps = true → descAlignedGo ps st.used = true → valsOK ps vs = true →
      encParams payload ps vs w = .ok (w ++ y) →
      secLen st.acc = .ok H → 8 * H = st.used + y.length + z → (X → z < 16) → RegRel X rE st.reg →
      (hasData ps = true → ∀ rD, RegRel X (register rE start off (beforeData ps) vs) rD →
        ∀ x, dc.dec rD (payload ++ x) = .ok (a, x)) →
      ∃ (vsD : List PVal) (z' : Nat) (dat : Option α), z' ≤ z ∧ RelVals X ps vs vsD ∧
        dat = (if hasData ps = true then some a else none) ∧
        ∀ suf, decParams dc start ps off st (y ++ (zeros z ++ suf)) = .ok
          ({ reg := register st.reg start off ps vsD, acc := st.acc ++ decAcc ps vsD,
             used := st.used + y.length + (z - z'),
             data := (match dat with | some b => some b | none => st.data) }, zeros z' ++ suf) := by
  intro ps
  induction ps with
  | nil =>
    intro vs w y z off st rE _ _ _ _ h _ _ _ _ _
    simp only [encParams] at h
    have hy : [] = y := List.append_cancel_left (as := w) (by simpa using Except.ok.inj h)
    subst hy
    refine ⟨[], z, none, Nat.le_refl _, by cases vs <;> trivial, by simp [hasData], fun suf => ?_⟩
    simp [decParams, R.pure, register, decAcc]
  | cons p ps ih =>
    intro vs w y z off st rE hgood hzl hal hvs h hsl hH hX hreg hdc
    cases vs with
    | nil => simp only [encParams] at h; cases h
    | cons v vs =>
      simp only [encParams] at h
      split at h
      · cases h
      rename_i wa h1
      obtain ⟨x1, e1, _⟩ := encParam_sh h1
      subst e1
      obtain ⟨y', e2, _⟩ := encParams_sh h
      have hy : y = x1 ++ y' := by
        rw [List.append_assoc] at e2
        exact List.append_cancel_left e2
      subst hy
      simp only [valsOK, Bool.and_eq_true] at hvs
      obtain ⟨hw, hctrl, hexp⟩ := hgood p List.mem_cons_self
      simp only [descAlignedGo, Bool.and_eq_true, Bool.or_eq_true, bne_iff_ne, ne_eq, beq_iff_eq] at hal
      by_cases hn : p.nbits = 0
      · -- the zero-width parameter: the last one
        have hps : ps = [] := by
          cases ps with
          | nil => rfl
          | cons q r => simp [zl, hn] at hzl
        subst hps
        simp only [encParams] at h
        have hy0 : y' = [] := by
          have := List.append_cancel_left (as := w ++ x1) (bs := []) (cs := y') (by simpa using (Except.ok.inj h))
          exact this.symm
        subst hy0
        simp only [List.append_nil] at hH ⊢
        have hdc' : p.ty = .templateData → ∀ x, dc.dec st.reg (payload ++ x) = .ok (a, x) := by
          intro hty
          apply hdc (by simp [hasData, hty])
          simp only [beforeData, List.takeWhile, hty, bne_self_eq_false, register]
          exact hreg
        obtain ⟨v', c, z', dat, hz', hcl, hrel, hnty, hdat, hrun⟩ :=
          decValue_zero dc a hw hn hvs.1 h1 st H z hsl hH (fun hty => by rcases hal.1 with h0 | h0; exact absurd hty h0; exact h0) hX hdc'
        refine ⟨[v'], z', dat, hz', ⟨hrel, fun hp hc => ?_, trivial⟩, by simp [hdat, hasData], fun suf => ?_⟩
        · rcases hctrl hp hc with h0 | h0 | h0
          · exact absurd h0 hnty.1
          · exact absurd h0 hnty.2.1
          · exact absurd h0 hnty.2.2
        · obtain ⟨heq, hd⟩ := hrun suf
          rw [heq]
          have hc := counted_append hd
          have hce : checkExpected p v' = .ok () := by simp [checkExpected, hexp hn]
          simp only [decParams, R.bind, hc, hce, R.lift, R.pure, register, decAcc, List.zipWith_cons_cons,
            List.zipWith_nil_left, hcl]
          cases dat <;> simp only [Nat.add_assoc]
      · -- a fixed-width parameter
        have hnty : (p.ty != .templateData) = true := by
          simp only [bne_iff_ne, ne_eq]
          intro hty
          simp [Param.widthOK, hty] at hw
          exact hn hw
        obtain ⟨hfix, hl1⟩ := decValue_fixed dc (st := st) (suf := []) hw hn hvs.1 h1
        have hhd : hasData (p :: ps) = hasData ps := by
          have hf : (p.ty == PType.templateData) = false := by
            simp only [bne_iff_ne, ne_eq] at hnty; simpa using hnty
          simp only [hasData, List.any_cons, hf, Bool.false_or]
        have hcan : p.asProperty = true → isCtrl p.name = true → canonV p v = v :=
          fun hp hc => canonV_exact h1 (hctrl hp hc)
        let rE1 : Registry := if p.asProperty then (p.name, { val := v, nbits := p.nbits, pos := start + off }) :: rE else rE
        let st1 : DecSt α :=
          { reg := if p.asProperty then (p.name, { val := canonV p v, nbits := p.nbits, pos := start + off }) :: st.reg
                   else st.reg,
            acc := st.acc ++ [(p.name, canonV p v)], used := st.used + x1.length, data := st.data }
        have hreg1 : RegRel X rE1 st1.reg := by
          show RegRel X (if p.asProperty then _ else _) (if p.asProperty then _ else _)
          by_cases hp : p.asProperty = true
          · simp only [hp, if_true]
            exact ⟨⟨rfl, rfl, rfl, PRel_canon p v, fun hc => hcan hp hc⟩, hreg⟩
          · simp only [hp]; exact hreg
        have hH1 : 8 * H = st1.used + y'.length + z := by
          show 8 * H = st.used + x1.length + y'.length + z
          simp only [List.length_append] at hH; omega
        obtain ⟨vsD, z', dat, hz', hrel, hdat, hrun⟩ := ih vs (w ++ x1) y' z (off + p.nbits) st1 rE1
          (fun q hq => hgood q (List.mem_cons_of_mem _ hq)) (zl_tail hzl)
          (by show descAlignedGo ps (st.used + x1.length) = true; rw [hl1]; exact hal.2) hvs.2
          (by rw [h, List.append_assoc]) (secLen_append hsl) hH1 hX hreg1
          (fun hd rD hr => hdc (by rw [hhd]; exact hd) rD
            (by simpa [beforeData, List.takeWhile, hnty, register] using hr))
        refine ⟨canonV p v :: vsD, z', dat, hz', ⟨PRel_canon p v, hcan, hrel⟩,
          by rw [hhd]; exact hdat, fun suf => ?_⟩
        have hfix' := (decValue_fixed dc (st := st) (suf := y' ++ (zeros z ++ suf)) hw hn hvs.1 h1).1
        have hc := counted_append hfix'
        simp only [List.append_assoc, decParams, R.bind, hc, checkExpected_ok hvs.1, R.lift, R.pure]
        have := hrun suf
        simp only [st1] at this
        rw [this]
        simp only [register, decAcc, List.zipWith_cons_cons, List.append_assoc, List.cons_append, List.nil_append,
          List.length_append, Nat.add_assoc]

/-! ## one section -/

theorem pgood_of {s : SectionLayout} (hs : s.WF = true) (hok : layoutOK s = true) : ∀ p ∈ s.params, PGood p := by
  intro p hp
  simp only [SectionLayout.WF, Bool.and_eq_true, List.all_eq_true] at hs
  simp only [layoutOK, Bool.and_eq_true, ctrlExact, noExpectZero, List.all_eq_true] at hok
  refine ⟨hs.1.1.1.1.2 p hp, fun ha hc => ?_, fun hn => ?_⟩
  · have := hok.1.1.2 p hp
    simp only [ha, hc, Bool.and_self, Bool.not_true, Bool.false_or, Bool.or_eq_true, beq_iff_eq] at this
    rcases this with (h0 | h0) | h0
    · exact Or.inl h0
    · exact Or.inr (Or.inl h0)
    · exact Or.inr (Or.inr h0)
  · have := hok.2 p hp
    simpa [hn] using this

theorem decAcc_canon (ps : List Param) (vs : List PVal) :
    decAcc ps (List.zipWith canonV ps vs) = List.zipWith (fun p v => (p.name, canonV p v)) ps vs := by
  induction ps generalizing vs with
  | nil => rfl
  | cons p ps ih =>
    cases vs with
    | nil => rfl
    | cons v vs => simp only [decAcc, List.zipWith_cons_cons] at ih ⊢; rw [ih]

theorem relVals_canon {payload : Bits} : ∀ (ps : List Param) (vs : List PVal) (w w1 : Bits),
    (∀ p ∈ ps, PGood p) → encParams payload ps vs w = .ok w1 → RelVals X ps vs (List.zipWith canonV ps vs) := by
  intro ps
  induction ps with
  | nil => intro vs _ _ _ _; cases vs <;> trivial
  | cons p ps ih =>
    intro vs w w1 hg h
    cases vs with
    | nil => simp only [encParams] at h; cases h
    | cons v vs =>
      simp only [encParams] at h
      split at h
      · cases h
      rename_i wa h1
      exact ⟨PRel_canon p v, fun hp hc => canonV_exact h1 ((hg p List.mem_cons_self).2.1 hp hc),
        ih vs wa w1 (fun q hq => hg q (List.mem_cons_of_mem _ hq)) h⟩

theorem hasData_false_of_fixed {ps : List Param} (h : ∀ p ∈ ps, p.widthOK = true ∧ p.nbits ≠ 0) : hasData ps = false := by
  simp only [hasData, List.any_eq_false, beq_iff_eq]
  intro p hp hty
  obtain ⟨hw, hn⟩ := h p hp
  simp [Param.widthOK, hty] at hw
  exact hn hw

/-- a section without a section length (all widths fixed; the family condition makes it unpadded) -/
theorem decSection_noLen {α : Type} (dc : DataCoder α) {s : SectionLayout} {vs : List PVal} {payload x : Bits}
    (hs : s.WF = true) (hok : layoutOK s = true) (hh : s.hasParam "section_length" = false)
    (hvs : valsOK s.params vs = true) (h : ∀ w0, encParams payload s.params vs w0 = .ok (w0 ++ x))
    (regD : Registry) (start : Nat) :
    RelVals X s.params vs (List.zipWith canonV s.params vs) ∧ hasData s.params = false ∧
    x.length = (s.params.map (·.nbits)).sum ∧
    ∀ suf, decSection dc s regD start (x ++ suf) = .ok
      (({ index := s.index, params := decAcc s.params (List.zipWith canonV s.params vs), nbits := x.length },
        register regD start 0 s.params (List.zipWith canonV s.params vs), none), suf) := by
  have hg := pgood_of hs hok
  have hfix : ∀ p ∈ s.params, p.widthOK = true ∧ p.nbits ≠ 0 := by
    intro p hp
    refine ⟨(hg p hp).1, ?_⟩
    simp only [SectionLayout.WF, Bool.and_eq_true, Bool.or_eq_true, List.all_eq_true] at hs
    rcases hs.1.1.2 with h0 | h0
    · simpa using h0 p hp
    · rw [hh] at h0; cases h0
  obtain ⟨hxl, hd⟩ := decParams_fixed dc payload start s.params vs [] x hfix hvs (h [])
  refine ⟨relVals_canon _ _ _ _ hg (h []), hasData_false_of_fixed hfix, hxl, fun suf => ?_⟩
  simp only [decSection, R.bind, hd, finishSection, hh, Bool.false_eq_true, if_false, R.pure, List.nil_append,
    Nat.zero_add, decAcc_canon]

theorem wf_expectedOK {s : SectionLayout} (hs : s.WF = true) {p : Param} (hp : p ∈ s.params) (hty : p.ty ≠ .bytes) :
    p.expected = none := by
  simp only [SectionLayout.WF, Bool.and_eq_true] at hs
  have := List.all_eq_true.mp hs.2 p hp
  cases he : p.expected with
  | none => rfl
  | some e =>
    rw [he] at this
    simp only [Bool.and_eq_true, beq_iff_eq] at this
    exact absurd this.1 hty

/-- a section with a section length -/
theorem decSection_len {α : Type} (dc : DataCoder α) (a : α) {cfg : EncCfg} {s : SectionLayout} {vs : List PVal}
    {payload B : Bits} (hs : s.WF = true) (hok : layoutOK s = true) (hh : s.hasParam "section_length" = true)
    (hvs : valsOK s.params vs = true) (hB : LenShape cfg s vs payload B) (hXc : X → cfg.ignoreDeclared = true)
    (regE regD : Registry) (start : Nat) (hreg : RegRel X regE regD)
    (hdc : hasData s.params = true → ∀ rD, RegRel X (register regE start 0 (beforeData s.params) vs) rD →
      ∀ x, dc.dec rD (payload ++ x) = .ok (a, x)) :
    ∃ vsD, RelVals X s.params vs vsD ∧
      ∀ suf, decSection dc s regD start (B ++ suf) = .ok
        (({ index := s.index, params := decAcc s.params vsD, nbits := B.length },
          register regD start 0 s.params vsD, if hasData s.params = true then some a else none), suf) := by
  obtain ⟨p, ps, d, vs', y, z, H, ed, hp, hname, hnb, hty, hvs', hy, hBe, hH24, hH, hzp⟩ := hB.ex
  have hXz : X → z < 16 := fun hx => by rw [hzp (Or.inl (hXc hx))]; exact padBits_lt16 _ _
  have hg := pgood_of hs hok
  have hpm : p ∈ s.params := by rw [hp]; exact List.mem_cons_self
  have hexp : p.expected = none := wf_expectedOK hs hpm (by rw [hty]; decide)
  have hwp : p.widthOK = true := (hg p hpm).1
  have hn0 : p.nbits ≠ 0 := by omega
  -- the length field as the decoder sees it
  have henc : encParam [] p (.int (Int.ofNat H)) payload = .ok ([] ++ toBits 24 H) := by
    simp only [encParam, hty, hnb]
    exact writeUInt_ofNat [] 24 H (by decide) hH24
  have hvH : valOK p (.int (Int.ofNat H)) = true := by simp [valOK, hexp, hty]
  have hfix := fun st suf => (decValue_fixed dc (st := st) (suf := suf) hwp hn0 hvH henc).1
  have hcv : canonV p (.int (Int.ofNat H)) = .int (Int.ofNat H) := rfl
  -- state after the length field
  let st0 : DecSt α := { reg := regD, acc := [], used := 0, data := none }
  let st1 : DecSt α :=
    { reg := if p.asProperty then (p.name, { val := .int (Int.ofNat H), nbits := p.nbits, pos := start + 0 }) :: regD else regD,
      acc := [(p.name, .int (Int.ofNat H))], used := 0 + (toBits 24 H).length, data := none }
  let rE1 : Registry := if p.asProperty then (p.name, { val := .int d, nbits := p.nbits, pos := start + 0 }) :: regE else regE
  have hreg1 : RegRel X rE1 st1.reg := by
    show RegRel X (if p.asProperty then _ else _) (if p.asProperty then _ else _)
    by_cases hpa : p.asProperty = true
    · simp only [hpa, if_true]
      refine ⟨⟨rfl, rfl, rfl, Or.inl (Or.inl hname), fun hc => ?_⟩, hreg⟩
      simp only at hc
      rw [hname] at hc
      exact absurd hc (by decide)
    · simp only [hpa]; exact hreg
  have hsl1 : secLen st1.acc = .ok H := by
    show secLen [(p.name, PVal.int (Int.ofNat H))] = .ok H
    simp [secLen, List.lookup, hname]
  have hu1 : st1.used = 24 := by show 0 + (toBits 24 H).length = 24; rw [toBits_length]
  have hpnd : (p.ty != .templateData) = true := by rw [hty]; decide
  have hhd : hasData s.params = hasData ps := by
    rw [hp]; simp only [hasData, List.any_cons, hty]; rfl
  have hal : descAlignedGo ps st1.used = true := by
    have := (show descAligned s = true by
      simp only [layoutOK, Bool.and_eq_true] at hok; exact hok.1.1.1)
    simp only [descAligned, hp, descAlignedGo, Bool.and_eq_true, hnb, Nat.zero_add] at this
    rw [hu1]; exact this.2
  rw [hp, hvs'] at hvs
  simp only [valsOK, Bool.and_eq_true] at hvs
  obtain ⟨vsD, z', dat, hz', hrel, hdat, hrun⟩ := decParams_tail dc a payload start H ps vs' [] y z (0 + p.nbits) st1 rE1
    (fun q hq => hg q (by rw [hp]; exact List.mem_cons_of_mem _ hq))
    (zl_tail (by have := zl_of_zeroLast (s := s) (by
      simp only [SectionLayout.WF, Bool.and_eq_true] at hs; exact hs.1.1.1.2); rwa [hp] at this))
    hal hvs.2 (hy []) hsl1 (by rw [hu1]; omega) hXz hreg1
    (fun hd rD hr => hdc (by rw [hhd]; exact hd) rD (by
      have hbd : beforeData (p :: ps) = p :: beforeData ps := by
        simp only [beforeData, List.takeWhile_cons, hpnd, if_true]
      rw [hp, hvs', hbd]; exact hr))
  refine ⟨.int (Int.ofNat H) :: vsD, by
    rw [hp, hvs']
    exact ⟨Or.inl (Or.inl hname), fun _ hc => absurd (hname ▸ hc) (by decide), hrel⟩, fun suf => ?_⟩
  have hc := counted_append (hfix st0 (y ++ (zeros z ++ suf)))
  have hce : checkExpected p (.int (Int.ofNat H)) = .ok () := by simp [checkExpected, hexp]
  subst hdat
  have hrun' := hrun suf
  have hsl2 : secLen (st1.acc ++ decAcc ps vsD) = .ok H := secLen_append hsl1
  rw [hBe]
  simp only [decSection, R.bind]
  rw [hp]
  simp only [List.append_assoc, decParams, R.bind, List.nil_append] at hc ⊢
  rw [hc]
  simp only [hcv, hce, R.lift, R.pure]
  rw [hrun']
  simp only [finishSection, hh, if_true, R.bind, hsl2, R.lift, R.pure]
  have hlenB : (toBits 24 H ++ (y ++ zeros z)).length = H * 8 := by
    simp only [List.length_append, toBits_length, zeros_length]; omega
  have hdat' : (match (if hasData ps = true then some a else none : Option α) with
      | some b => some b | none => st1.data) = if hasData (p :: ps) = true then some a else none := by
    rw [← hp, hhd]
    by_cases hd : hasData ps = true
    · simp only [hd, if_true]
    · simp only [hd, if_false]; rfl
  have hregf : register st1.reg start (0 + p.nbits) ps vsD = register regD start 0 (p :: ps) (PVal.int (Int.ofNat H) :: vsD) := rfl
  have haccf : st1.acc ++ decAcc ps vsD = decAcc (p :: ps) (PVal.int (Int.ofNat H) :: vsD) := rfl
  rw [hdat', hregf, haccf, hlenB]
  by_cases hz0 : z' = 0
  · subst hz0
    have h1 : ¬ (st1.used + y.length + (z - 0) < H * 8) := by omega
    have h2 : ¬ (H * 8 < st1.used + y.length + (z - 0)) := by omega
    have h3 : st1.used + y.length + (z - 0) = H * 8 := by omega
    rw [if_neg h1, if_neg h2, h3]
    rfl
  · have h1 : st1.used + y.length + (z - z') < H * 8 := by omega
    have h3 : H * 8 - (st1.used + y.length + (z - z')) = z' := by omega
    simp only [h1, if_true, R.map, R.bind, readBin, h3, readBits_append_of_length _ _ suf (zeros_length z'), R.pure]

/-- one section, as `encSection` wrote it -/
theorem decSection_sim {α : Type} (dc : DataCoder α) (a : α) {cfg : EncCfg} {s : SectionLayout} {vs : List PVal}
    {payload : Bits} {regE : Registry} {w : Bits} {regE1 : Registry} {w' : Bits}
    (hs : s.WF = true) (hok : layoutOK s = true) (hvs : valsOK s.params vs = true) (hXc : X → cfg.ignoreDeclared = true)
    (h : encSection cfg s vs payload regE w = .ok (regE1, w')) (regD : Registry) (hreg : RegRel X regE regD)
    (hdc : hasData s.params = true → ∀ rD, RegRel X (register regE w.length 0 (beforeData s.params) vs) rD →
      ∀ x, dc.dec rD (payload ++ x) = .ok (a, x)) :
    ∃ B vsD, w' = w ++ B ∧ RelVals X s.params vs vsD ∧ RegRel X regE1 (register regD w.length 0 s.params vsD) ∧
      ∀ suf, decSection dc s regD w.length (B ++ suf) = .ok
        (({ index := s.index, params := decAcc s.params vsD, nbits := B.length },
          register regD w.length 0 s.params vsD, if hasData s.params = true then some a else none), suf) := by
  obtain ⟨hr1, _, B, hw', hcase⟩ := encSection_shape hs h
  rcases hcase with ⟨hh, x, ed, hx, hB⟩ | ⟨hh, hshape⟩
  · obtain ⟨hrel, hnd, hxl, hrun⟩ := decSection_noLen (X := X) dc hs hok hh hvs hx regD w.length
    have hpad : padBits ed x.length = 0 := by
      apply padBits_16
      have : noLenAligned s = true := by
        simp only [layoutOK, Bool.and_eq_true] at hok; exact hok.1.2
      simp only [noLenAligned, hh, Bool.false_or, beq_iff_eq] at this
      rw [hxl]; exact this
    have hBx : B = x := by rw [hB, hpad]; simp [zeros]
    subst hBx
    refine ⟨B, _, hw', hrel, by rw [hr1]; exact RegRel_register _ _ _ _ _ _ _ hrel hreg, fun suf => ?_⟩
    rw [hrun suf, hnd]; rfl
  · obtain ⟨vsD, hrel, hrun⟩ := decSection_len dc a hs hok hh hvs hshape hXc regE regD w.length hreg hdc
    exact ⟨B, vsD, hw', hrel, by rw [hr1]; exact RegRel_register _ _ _ _ _ _ _ hrel hreg, hrun⟩

/-! ## the section loop -/

/-- what the encoder did for one section it wrote: the layout, the values consumed, its registry and
    the writer position when the section was opened -/
structure Visit where
  s : SectionLayout
  vs : List PVal
  reg : Registry
  start : Nat

/-- the sections written by `encLoop` (a mirror of its recursion) -/
def encVisits (L : Layouts) (cfg : EncCfg) (payload : Bits) :
    Nat → Nat → List (List PVal) → Registry → Bits → List Visit
  | 0, _, _, _, _ => []
  | fuel + 1, idx, vals, reg, w =>
    match vals with
    | [] => []
    | vs :: rest =>
      match getCfg L idx reg.editionKey with
      | .error _ => []
      | .ok s =>
        match isPresent reg s idx with
        | .error _ => []
        | .ok false => encVisits L cfg payload fuel (idx + 1) vals reg w
        | .ok true =>
          match encSection cfg s vs payload reg w with
          | .error _ => []
          | .ok (reg1, w1) =>
            { s := s, vs := vs, reg := reg, start := w.length } ::
              (if s.endOfMessage then [] else encVisits L cfg payload fuel (idx + 1) rest reg1 w1)

variable (X) in
/-- the decoded sections against what was supplied -/
def SecsRel : List Visit → List DecSection → Prop
  | [], [] => True
  | v :: vs, sec :: secs =>
    sec.index = v.s.index ∧ (∃ vsD, sec.params = decAcc v.s.params vsD ∧ RelVals X v.s.params v.vs vsD) ∧ SecsRel vs secs
  | _, _ => False

def visitsHaveData (vs : List Visit) : Bool := vs.any fun v => hasData v.s.params

theorem layoutsOK_mem {L : Layouts} (h : LayoutsOK L = true) {e : LayoutEntry} (he : e ∈ L) : layoutOK e.layout = true :=
  List.all_eq_true.mp h e he

theorem transform_default (s : SectionLayout) : ({} : DecOpts).transform s = s := rfl

def optOr {α : Type} : Option α → Option α → Option α
  | some a, _ => some a
  | none, o => o

theorem decLoop_present {α : Type} {L : Layouts} {dc : DataCoder α} {fuel idx : Nat} {regD : Registry} {out : DecOut α}
    {s : SectionLayout} {x r : Bits} {sec : DecSection} {reg1 : Registry} {d : Option α}
    (hcfg : getCfg L idx regD.editionKey = .ok s) (hp : isPresent regD s idx = .ok true)
    (hsec : decSection dc s regD out.nbits x = .ok ((sec, reg1, d), r)) :
    decLoop L dc {} (fuel + 1) idx regD out x =
      if s.endOfMessage then
        .ok ({ sections := out.sections ++ [sec], data := optOr d out.data, nbits := out.nbits + sec.nbits }, r)
      else decLoop L dc {} fuel (idx + 1) reg1
        { sections := out.sections ++ [sec], data := optOr d out.data, nbits := out.nbits + sec.nbits } r := by
  simp only [decLoop, R.bind, hcfg, R.lift, R.pure, transform_default, hp, Bool.not_true, Bool.false_eq_true, if_false,
    hsec]
  by_cases he : s.endOfMessage = true <;> cases d <;> simp [he, R.pure, optOr]

theorem loop_sim {α : Type} (dc : DataCoder α) (a : α) {L : Layouts} {cfg : EncCfg} {payload : Bits}
    (hL : L.WF = true) (hok : LayoutsOK L = true) (hXc : X → cfg.ignoreDeclared = true) :
    ∀ (fuel idx : Nat) (vals : List (List PVal)) (regE : Registry) (w : Bits) (tr : List (Nat × Nat))
      (regE' : Registry) (w' : Bits) (tr' : List (Nat × Nat)),
      encLoop L cfg payload fuel idx vals regE w tr = .ok (regE', w', tr') →
      (∀ v ∈ encVisits L cfg payload fuel idx vals regE w, valsOK v.s.params v.vs = true) →
      (∀ v ∈ encVisits L cfg payload fuel idx vals regE w, hasData v.s.params = true →
        ∀ rD, RegRel X (register v.reg v.start 0 (beforeData v.s.params) v.vs) rD →
          ∀ x, dc.dec rD (payload ++ x) = .ok (a, x)) →
      ∀ (regD : Registry) (out : DecOut α), RegRel X regE regD → out.nbits = w.length →
      ∃ (B : Bits) (secs : List DecSection), w' = w ++ B ∧
        SecsRel X (encVisits L cfg payload fuel idx vals regE w) secs ∧
        ∀ suf, decLoop L dc {} fuel idx regD out (B ++ suf) = .ok
          ({ sections := out.sections ++ secs,
             data := if visitsHaveData (encVisits L cfg payload fuel idx vals regE w) = true then some a else out.data,
             nbits := out.nbits + B.length }, suf) := by
  intro fuel
  induction fuel with
  | zero => intro idx vals regE w tr regE' w' tr' h; simp only [encLoop] at h; cases h
  | succ fuel ih =>
    intro idx vals regE w tr regE' w' tr' h hvals hdc regD out hreg hout
    obtain ⟨osecs, odata, onb⟩ := out
    simp only at hout
    subst hout
    cases vals with
    | nil => simp only [encLoop] at h; cases h
    | cons vs rest =>
      simp only [encLoop] at h
      simp only [encVisits] at hvals hdc ⊢
      have hek := RegRel_editionKey hreg
      split at h
      · cases h
      rename_i s hcfg
      obtain ⟨e, heL, hes, hei⟩ := getCfg_mem hcfg
      have hsWF : s.WF = true := hes ▸ wf_all hL e heL
      have hsOK : layoutOK s = true := hes ▸ layoutsOK_mem hok heL
      have hpres := RegRel_isPresent hreg s idx
      simp only [hcfg] at hvals hdc ⊢
      split at h
      · cases h
      · -- optional section absent
        rename_i hp
        simp only [hp] at hvals hdc ⊢
        obtain ⟨B, secs, h1, h2, h3⟩ := ih _ _ _ _ _ _ _ _ h hvals hdc regD
          { sections := osecs, data := odata, nbits := w.length } hreg rfl
        refine ⟨B, secs, h1, h2, fun suf => ?_⟩
        simp only [decLoop, R.bind, hek, hcfg, R.lift, R.pure, transform_default, hpres, hp, Bool.not_false, if_true,
          h3 suf]
      · rename_i hp
        simp only [hp] at hvals hdc ⊢
        split at h
        · cases h
        rename_i reg1 w1 hsec
        simp only [hsec] at hvals hdc ⊢
        obtain ⟨B1, vsD, hw1, hrel, hreg1, hrun⟩ := decSection_sim dc a hsWF hsOK
          (hvals _ List.mem_cons_self) hXc hsec regD hreg (fun hd rD hr => hdc _ List.mem_cons_self hd rD hr)
        split at h
        · -- the final section
          rename_i hend
          cases h
          simp only [hend, if_true] at hvals hdc ⊢
          refine ⟨B1, [{ index := s.index, params := decAcc s.params vsD, nbits := B1.length }], hw1,
            ⟨rfl, ⟨vsD, rfl, hrel⟩, trivial⟩, fun suf => ?_⟩
          rw [decLoop_present (hek ▸ hcfg) (hpres ▸ hp) (hrun suf), if_pos hend]
          simp only [visitsHaveData, List.any_cons, List.any_nil, Bool.or_false]
          by_cases hd : hasData s.params = true <;> simp [hd, optOr]
        · rename_i hend
          simp only [hend, Bool.false_eq_true, if_false] at hvals hdc ⊢
          let out1 : DecOut α :=
            { sections := osecs ++ [{ index := s.index, params := decAcc s.params vsD, nbits := B1.length }],
              data := optOr (if hasData s.params = true then some a else none) odata,
              nbits := w.length + B1.length }
          obtain ⟨B2, secs, h1, h2, h3⟩ := ih _ _ _ _ _ _ _ _ h
            (fun v hv => hvals v (List.mem_cons_of_mem _ hv))
            (fun v hv => hdc v (List.mem_cons_of_mem _ hv))
            (register regD w.length 0 s.params vsD) out1 hreg1
            (by show w.length + B1.length = w1.length; rw [hw1]; simp)
          refine ⟨B1 ++ B2, { index := s.index, params := decAcc s.params vsD, nbits := B1.length } :: secs,
            by rw [h1, hw1, List.append_assoc], ⟨rfl, ⟨vsD, rfl, hrel⟩, h2⟩, fun suf => ?_⟩
          have h3' := h3 suf
          rw [List.append_assoc, decLoop_present (hek ▸ hcfg) (hpres ▸ hp) (hrun (B2 ++ suf)), if_neg (by simp [hend])]
          simp only [out1] at h3'
          rw [h3']
          simp only [visitsHaveData, List.any_cons, List.append_assoc, List.cons_append, List.nil_append,
            List.length_append, Nat.add_assoc]
          by_cases hd : hasData s.params = true <;> simp [hd, optOr]

/-! ## the whole message -/

/-- the sections the encoder writes for `vals` -/
def encodeVisits (L : Layouts) (cfg : EncCfg) (vals : List (List PVal)) (payload : Bits) : List Visit :=
  encVisits L cfg payload (L.length + 1) 0 vals Registry.init []

theorem encodeBits_rt {α : Type} (dc : DataCoder α) (a : α) {L : Layouts} {cfg : EncCfg} {vals : List (List PVal)}
    {payload w : Bits} {tr : List (Nat × Nat)} (hL : L.WF = true) (hok : LayoutsOK L = true)
    (hXc : X → cfg.ignoreDeclared = true) (h : encodeBits L cfg vals payload = .ok (w, tr))
    (hvals : ∀ v ∈ encodeVisits L cfg vals payload, valsOK v.s.params v.vs = true)
    (hdc : ∀ v ∈ encodeVisits L cfg vals payload, hasData v.s.params = true →
      ∀ rD, RegRel X (register v.reg v.start 0 (beforeData v.s.params) v.vs) rD →
        ∀ x, dc.dec rD (payload ++ x) = .ok (a, x)) :
    ∃ secs, SecsRel X (encodeVisits L cfg vals payload) secs ∧
      ∀ suf, decodeBits L dc {} (w ++ suf) = .ok
        ({ sections := secs,
           data := if visitsHaveData (encodeVisits L cfg vals payload) = true then some a else none,
           nbits := w.length }, suf) := by
  obtain ⟨e0, p0, p1, ps, he0, hopt, hnl, hp, ht0, hn0, hname1, ht1, hn1, hap1⟩ := wf_sec0 hL
  have he0L := List.mem_of_find?_eq_some he0
  have hs0WF := wf_all hL e0 he0L
  have hs0OK := layoutsOK_mem hok he0L
  unfold encodeBits at h
  split at h
  · cases h
  rename_i reg wl trl hloop
  split at h
  · cases h
  rename_i w2 hpatch
  split at h
  · cases h
  cases h
  unfold encodeVisits at hvals hdc ⊢
  cases vals with
  | nil => simp only [encLoop] at hloop; cases hloop
  | cons vs0 restv =>
    have hk : Registry.init.editionKey = 0 := by decide
    have hcfg : getCfg L 0 0 = .ok e0.layout := by
      unfold getCfg; rw [he0]
    have hpres : isPresent Registry.init e0.layout 0 = .ok true := by
      simp only [isPresent, hopt, Bool.not_false, if_true]
    simp only [encLoop, hk, hcfg, hpres] at hloop
    simp only [encVisits, hk, hcfg, hpres] at hvals hdc ⊢
    split at hloop
    · cases hloop
    rename_i reg1 w1 hsec
    simp only [hsec] at hvals hdc ⊢
    have hnend : e0.layout.endOfMessage = false := by
      cases hh : e0.layout.endOfMessage with
      | false => rfl
      | true =>
        obtain ⟨q, hq, _, _⟩ := wf_endOK hL he0L hh
        rw [hp] at hq; cases hq
    simp only [hnend, Bool.false_eq_true, if_false] at hloop hvals hdc ⊢
    -- shape of section 0 as written
    obtain ⟨hr1, hlen0, B0, hw1, hcase⟩ := encSection_shape hs0WF hsec
    rcases hcase with ⟨_, x0, ed, hx0, hB0⟩ | ⟨hh, _⟩
    rotate_left
    · rw [hnl] at hh; cases hh
    have hvs0 := hvals _ List.mem_cons_self
    simp only at hvs0
    obtain ⟨hrel0, hnd0, hxl0, hrun0⟩ := decSection_noLen (X := X) dc hs0WF hs0OK hnl hvs0 hx0 Registry.init 0
    have hpad : padBits ed x0.length = 0 := by
      apply padBits_16
      have : noLenAligned e0.layout = true := by
        simp only [layoutOK, Bool.and_eq_true] at hs0OK; exact hs0OK.1.2
      simp only [noLenAligned, hnl, Bool.false_or, beq_iff_eq] at this
      rw [hxl0]; exact this
    have hw1' : w1 = x0 := by rw [hw1, hB0, hpad]; simp [zeros]
    subst hw1'
    -- the two leading parameters
    have hx := hx0 []
    rw [hp] at hx hlen0 hvs0
    cases vs0 with
    | nil => cases hlen0
    | cons v0 vs1 =>
    cases vs1 with
    | nil => simp at hlen0
    | cons v1 rest0 =>
    simp only [encParams] at hx
    split at hx
    · cases hx
    rename_i wa ha
    split at hx
    · cases hx
    rename_i wb hb
    obtain ⟨y, hy, hysh⟩ := encParams_sh hx
    rcases v0 with _ | _ | _ | b0 | _ | _ <;> simp only [encParam, ht0, hn0] at ha <;> try cases ha
    rcases v1 with d | _ | _ | _ | _ | _ <;> simp only [encParam, ht1, hn1] at hb <;> try cases hb
    have hw4 : writeBytes [] b0 (some (32 / 8)) = bytesToBits (padBytes b0 4) := by
      simp only [writeBytes, List.nil_append]
    rw [hw4] at hb
    obtain ⟨hwb, _, hd0, hdlt⟩ := writeUInt_ok hb
    subst hwb
    have hxe : w1 = bytesToBits (padBytes b0 4) ++ toBits 24 d.toNat ++ y := by
      simpa using hy
    have hSl : (bytesToBits (padBytes b0 4)).length = 32 := by rw [bytesToBits_length, padBytes_length]
    have h24 : ∀ v, (toBits 24 v).length = 24 := fun v => toBits_length 24 v
    -- the registry entry of `length`
    have hnd := wf_nodup hs0WF
    rw [hp] at hnd
    simp only [List.map_cons, List.nodup_cons, List.mem_cons, List.mem_map, not_or] at hnd
    have hreglen : reg1.get? "length" = some ⟨.int d, 24, 32⟩ := by
      rw [hr1, hp]
      simp only [register, hap1, if_true]
      rw [register_get_other]
      · simp [Registry.get?, List.lookup, hname1, hn0, hn1]
      · intro q hq hcon
        exact hnd.2.1 ⟨q, hq, by rw [hcon.1, hname1]⟩
    obtain ⟨fs, fl, _, hwl, _, _, _, _, h6⟩ := encLoop_frames hL _ _ _ _ _ _ _ _ _ hloop
    have hreg : reg.get? "length" = some ⟨.int d, 24, 32⟩ := by rw [h6 (by omega), hreglen]
    -- the rest of the loop
    have hrelP : ∀ T : Nat, T < 2 ^ 24 →
        encParams payload e0.layout.params (.bytes b0 :: .int (Int.ofNat T) :: rest0) [] =
          .ok ([] ++ (bytesToBits (padBytes b0 4) ++ toBits 24 T ++ y)) := by
      intro T hT
      rw [hp]
      simp only [encParams, encParam, ht0, hn0, ht1, hn1, hw4, writeUInt_ofNat _ 24 T (by decide) hT, hysh,
        List.nil_append, List.append_assoc]
    -- the total length field after `patchTotal`
    have hw2 : ∃ T : Nat, T < 2 ^ 24 ∧
        w = bytesToBits (padBytes b0 4) ++ toBits 24 T ++ y ++ framesBits (fs ++ [fl]) := by
      have hwl' : wl = bytesToBits (padBytes b0 4) ++ toBits 24 d.toNat ++ y ++ framesBits (fs ++ [fl]) := by
        rw [hwl, hxe]
      unfold patchTotal at hpatch
      rw [hreg] at hpatch
      simp only at hpatch
      split at hpatch
      · obtain ⟨hw2, _, hT⟩ := setUInt_ok hpatch
        have htake : wl.take 32 = bytesToBits (padBytes b0 4) := by
          rw [hwl']; simp only [List.append_assoc]; rw [← hSl, List.take_left]
        have hdrop : wl.drop (32 + 24) = y ++ framesBits (fs ++ [fl]) := by
          rw [hwl']
          have := drop_two (bytesToBits (padBytes b0 4)) (toBits 24 d.toNat) (y ++ framesBits (fs ++ [fl])) 24 (h24 _)
          rw [hSl] at this
          simpa only [List.append_assoc] using this
        rw [htake, hdrop] at hw2
        exact ⟨_, hT, by rw [hw2]; simp only [List.append_assoc]⟩
      · split at hpatch
        · cases hpatch
        cases hpatch
        exact ⟨d.toNat, hdlt, hwl'⟩
    obtain ⟨T, hT, hw2e⟩ := hw2
    -- section 0 as the decoder sees it
    have hexp1 : p1.expected = none :=
      wf_expectedOK hs0WF (by rw [hp]; exact List.mem_cons_of_mem _ List.mem_cons_self) (by rw [ht1]; decide)
    simp only [valsOK, Bool.and_eq_true] at hvs0
    have hvs0' : valsOK e0.layout.params (.bytes b0 :: .int (Int.ofNat T) :: rest0) = true := by
      rw [hp]
      simp only [valsOK, Bool.and_eq_true]
      exact ⟨hvs0.1, by simp [valOK, hexp1, ht1], hvs0.2.2⟩
    obtain ⟨x0', hx0e, hx0'⟩ := encParams_sh (hrelP T hT)
    have hx0'' : x0' = bytesToBits (padBytes b0 4) ++ toBits 24 T ++ y := by
      have := List.append_cancel_left hx0e; exact this.symm
    subst hx0''
    obtain ⟨hrelT, _, _, hrunT⟩ := decSection_noLen (X := X) dc hs0WF hs0OK hnl hvs0' hx0' Registry.init 0
    have hrelT' : RelVals X e0.layout.params (.bytes b0 :: .int d :: rest0)
        (List.zipWith canonV e0.layout.params (.bytes b0 :: .int (Int.ofNat T) :: rest0)) := by
      rw [hp] at hrelT ⊢
      obtain ⟨a0, c0, _, _, r0⟩ := hrelT
      exact ⟨a0, c0, Or.inl (Or.inr hname1), fun _ hc => absurd (hname1 ▸ hc) (by decide), r0⟩
    generalize List.zipWith canonV e0.layout.params (.bytes b0 :: .int (Int.ofNat T) :: rest0) = vsD0 at hrelT' hrunT
    generalize hX0 : bytesToBits (padBytes b0 4) ++ toBits 24 T ++ y = X0 at hrunT hw2e
    have hregD1 : RegRel X reg1 (register Registry.init 0 0 e0.layout.params vsD0) := by
      rw [hr1]; exact RegRel_register _ _ _ _ _ _ _ hrelT' RegRel_refl_init
    have hlen1 : X0.length = w1.length := by
      rw [← hX0, hxe]; simp only [List.length_append, h24]
    -- the remaining sections
    obtain ⟨B, secs, hwlB, hsecs, hrunL⟩ := loop_sim dc a hL hok hXc _ _ _ _ _ _ _ _ _ hloop
      (fun v hv => hvals v (List.mem_cons_of_mem _ hv)) (fun v hv => hdc v (List.mem_cons_of_mem _ hv))
      _ { sections := [] ++ [{ index := e0.layout.index, params := decAcc e0.layout.params vsD0, nbits := X0.length }],
          data := optOr none none, nbits := 0 + X0.length } hregD1
      (by show 0 + _ = w1.length; rw [hlen1]; omega)
    have hB : framesBits (fs ++ [fl]) = B := List.append_cancel_left (hwl.symm.trans hwlB)
    refine ⟨{ index := e0.layout.index, params := decAcc e0.layout.params vsD0, nbits := X0.length } :: secs,
      ⟨rfl, ⟨vsD0, rfl, hrelT'⟩, hsecs⟩, fun suf => ?_⟩
    have hcfg' : getCfg L 0 Registry.init.editionKey = .ok e0.layout := by rw [hk]; exact hcfg
    rw [hw2e, hB, List.append_assoc]
    simp only [decodeBits]
    rw [decLoop_present hcfg' hpres (hrunT (B ++ suf)), if_neg (by simp [hnend]), hrunL suf]
    simp only [visitsHaveData, List.any_cons, hnd0, Bool.false_or, List.nil_append, List.length_append, Nat.zero_add,
      optOr, List.cons_append]

end rel
end RT
end Bufr
