/-
  Helper lemmas for the element-level theorems of C01 / C02 / C03:
  round-half-even division, quantisation, and the exact input/output behaviour of the
  uncompressed encoder / decoder primitives.
-/
import BufrModel.Spec.Quant
import BufrModel.Lemmas.Bits
namespace Bufr

/-! ### round half even -/

theorem rhe_decomp (a : Int) (b : Nat) (hb : 0 < b) :
    ∃ q0 r : Int, a = q0 * b + r ∧ 0 ≤ r ∧ r < b ∧ a / (b : Int) = q0 ∧
      roundHalfEvenDiv a b =
        (if 2 * r < (b : Int) then q0 else if (b : Int) < 2 * r then q0 + 1
         else if q0 % 2 = 0 then q0 else q0 + 1) := by
  have hb' : (0 : Int) < (b : Int) := by exact_mod_cast hb
  have h1 := Int.emod_nonneg a (Int.ne_of_gt hb')
  have h2 := Int.emod_lt_of_pos a hb'
  have h3 : a - a / (b : Int) * (b : Int) = a % (b : Int) := by
    rw [Int.emod_def, Int.mul_comm]
  refine ⟨a / (b : Int), a % (b : Int), ?_, h1, h2, rfl, ?_⟩
  · rw [← h3]; omega
  · simp only [roundHalfEvenDiv, h3]

theorem rhe_bound (a : Int) (b : Nat) (hb : 0 < b) :
    (2 * (a - roundHalfEvenDiv a b * (b : Int))).natAbs ≤ b := by
  obtain ⟨q0, r, ha, h0, h1, -, hq⟩ := rhe_decomp a b hb
  rw [hq]
  have hm : (q0 + 1) * (b : Int) = q0 * (b : Int) + (b : Int) := by rw [Int.add_mul, Int.one_mul]
  split
  · omega
  · split
    · rw [hm]; omega
    · split
      · omega
      · rw [hm]; omega

theorem rhe_tie (a : Int) (b : Nat) (hb : 0 < b)
    (h : 2 * (a - roundHalfEvenDiv a b * (b : Int)) = b ∨ 2 * (a - roundHalfEvenDiv a b * (b : Int)) = -(b : Int)) :
    roundHalfEvenDiv a b % 2 = 0 := by
  obtain ⟨q0, r, ha, h0, h1, -, hq⟩ := rhe_decomp a b hb
  rw [hq] at h ⊢
  have hm : (q0 + 1) * (b : Int) = q0 * (b : Int) + (b : Int) := by rw [Int.add_mul, Int.one_mul]
  split at h
  · omega
  · split at h
    · rw [hm] at h; omega
    · split at h
      · rename_i h1 h2 h3; simp only [h1, h2, h3, if_false, if_true]
      · rename_i h1 h2 h3; simp only [h1, h2, h3, if_false]; omega

theorem rhe_exact (q : Int) (b : Nat) (hb : 0 < b) : roundHalfEvenDiv (q * (b : Int)) b = q := by
  have hb' : (b : Int) ≠ 0 := by omega
  have hb2 : (0:Int) < (b : Int) := by omega
  simp only [roundHalfEvenDiv, Int.mul_ediv_cancel _ hb', Int.sub_self, Int.mul_zero, hb2, if_true]

/-- the nearest integer is unique off ties -/
theorem rhe_unique (a : Int) (b : Nat) (hb : 0 < b) (q : Int)
    (h : (2 * (a - q * (b : Int))).natAbs < b) : roundHalfEvenDiv a b = q := by
  have hbnd := rhe_bound a b hb
  generalize roundHalfEvenDiv a b = p at *
  -- |2(a - p b)| ≤ b, |2(a - q b)| < b  ⇒ |2 (p - q) b| < 2 b ⇒ p = q
  have hb' : (0 : Int) < (b : Int) := by omega
  rcases Int.lt_trichotomy p q with hlt | heq | hgt
  · exfalso
    have : (b : Int) ≤ (q - p) * (b : Int) := by
      have := Int.mul_le_mul_of_nonneg_right (show (1 : Int) ≤ q - p by omega) (Int.le_of_lt hb')
      simpa using this
    rw [Int.sub_mul] at this
    omega
  · exact heq
  · exfalso
    have : (b : Int) ≤ (p - q) * (b : Int) := by
      have := Int.mul_le_mul_of_nonneg_right (show (1 : Int) ≤ p - q by omega) (Int.le_of_lt hb')
      simpa using this
    rw [Int.sub_mul] at this
    omega

/-- complete characterisation: the result is the nearest integer, the even one on a tie -/
theorem rhe_iff (a : Int) (b : Nat) (hb : 0 < b) (q : Int) :
    roundHalfEvenDiv a b = q ↔
      ((2 * (a - q * (b : Int))).natAbs < b ∨
       ((2 * (a - q * (b : Int))).natAbs = b ∧ q % 2 = 0)) := by
  constructor
  · intro h
    subst h
    have h1 := rhe_bound a b hb
    have h2 := rhe_tie a b hb
    omega
  · rintro (h | ⟨h, he⟩)
    · exact rhe_unique a b hb q h
    · have hbnd := rhe_bound a b hb
      have htie := rhe_tie a b hb
      generalize roundHalfEvenDiv a b = p at *
      have hb' : (0 : Int) < (b : Int) := by omega
      rcases Int.lt_trichotomy p q with hlt | heq | hgt
      · exfalso
        have h1 : (b : Int) ≤ (q - p) * (b : Int) := by
          have := Int.mul_le_mul_of_nonneg_right (show (1 : Int) ≤ q - p by omega) (Int.le_of_lt hb')
          simpa using this
        rw [Int.sub_mul] at h1
        by_cases h2 : q - p = 1
        · have h3 : q * (b : Int) - p * (b : Int) = b := by
            rw [← Int.sub_mul, h2, Int.one_mul]
          omega
        · have h3 : (2 : Int) * (b : Int) ≤ (q - p) * (b : Int) := by
            exact Int.mul_le_mul_of_nonneg_right (show (2 : Int) ≤ q - p by omega) (Int.le_of_lt hb')
          rw [Int.sub_mul] at h3
          omega
      · exact heq
      · exfalso
        have h1 : (b : Int) ≤ (p - q) * (b : Int) := by
          have := Int.mul_le_mul_of_nonneg_right (show (1 : Int) ≤ p - q by omega) (Int.le_of_lt hb')
          simpa using this
        rw [Int.sub_mul] at h1
        by_cases h2 : p - q = 1
        · have h3 : p * (b : Int) - q * (b : Int) = b := by
            rw [← Int.sub_mul, h2, Int.one_mul]
          omega
        · have h3 : (2 : Int) * (b : Int) ≤ (p - q) * (b : Int) := by
            exact Int.mul_le_mul_of_nonneg_right (show (2 : Int) ≤ p - q by omega) (Int.le_of_lt hb')
          rw [Int.sub_mul] at h3
          omega

theorem pow10_pos (n : Nat) : 0 < 10 ^ n := Nat.pow_pos (by decide)

/-! ### quantise -/

theorem quantise_scaleVal (r scale : Int) : quantise (scaleVal r scale) scale = .ok r := by
  unfold scaleVal
  split
  · next h => simp only [quantise, h, if_true]
  · next h => simp [quantise, h]

theorem scaleVal_ne_missing (r scale : Int) : scaleVal r scale ≠ .missing := by
  unfold scaleVal; split <;> intro h <;> cases h

theorem quantise_num_inv {m k scale q : Int} (h : quantise (.num m k) scale = .ok q) :
    scale ≠ 0 ∧
    (0 ≤ scale - k → q = m * (10 : Int) ^ (scale - k).toNat) ∧
    (scale - k < 0 → q = roundHalfEvenDiv m (10 ^ (-(scale - k)).toNat)) := by
  unfold quantise at h
  by_cases hs : scale = 0
  · simp [hs] at h
  · simp only [hs, if_false] at h
    refine ⟨hs, ?_, ?_⟩
    · intro he; simp only [he, if_true] at h; injection h with h; exact h.symm
    · intro he
      have : ¬ (0 ≤ scale - k) := by omega
      simp only [this, if_false] at h; injection h with h; exact h.symm

theorem quantise_int_inv {i scale q : Int} (h : quantise (.int i) scale = .ok q) :
    (0 ≤ scale → q = i * (10 : Int) ^ scale.toNat) ∧
    (scale < 0 → q = roundHalfEvenDiv i (10 ^ (-scale).toNat)) := by
  unfold quantise at h
  by_cases hs : scale = 0
  · simp only [hs, if_true] at h; injection h with h
    subst hs
    refine ⟨fun _ => by simp [h.symm], fun hh => by omega⟩
  · simp only [hs, if_false] at h
    refine ⟨?_, ?_⟩
    · intro he; simp only [he, if_true] at h; injection h with h; exact h.symm
    · intro he
      have : ¬ (0 ≤ scale) := by omega
      simp only [this, if_false] at h; injection h with h; exact h.symm

theorem quantise_missing (scale : Int) : quantise .missing scale = .error .other := rfl
theorem quantise_bytes (b : List UInt8) (scale : Int) : quantise (.bytes b) scale = .error .other := rfl

/-- every failure of `quantise` is the non-library family -/
theorem quantise_error {v : Val} {scale : Int} {e : Err} (h : quantise v scale = .error e) : e = .other := by
  cases v with
  | missing => cases h; rfl
  | bytes b => cases h; rfl
  | int i =>
    simp only [quantise] at h
    split at h
    · cases h
    · split at h <;> cases h
  | num m k =>
    simp only [quantise] at h
    split at h
    · cases h; rfl
    · split at h <;> cases h

theorem natWidth_ofNat (n : Nat) (h : 0 < n) : natWidth (n : Int) = .ok n := by
  have : ¬ ((n : Int) ≤ 0) := by omega
  simp only [natWidth, this, if_false, Int.toNat_natCast]

theorem natWidth_ok {nbits : Int} {n : Nat} (h : natWidth nbits = .ok n) : 0 < n ∧ nbits = n := by
  unfold natWidth at h
  split at h
  · cases h
  · injection h with h; omega

theorem natWidth_nonpos (nbits : Int) (h : nbits ≤ 0) : natWidth nbits = .error .other := by
  simp only [natWidth, h, if_true]

theorem readUIntOrNone_append (f suf : Bits) (h0 : 0 < f.length) (h64 : f.length ≤ 64) :
    readUIntOrNone f.length (f ++ suf) =
      .ok ((if 1 < f.length ∧ f.all id = true then none else some (ofBits f)), suf) := by
  have h64' : ¬ (64 < f.length) := by omega
  simp only [readUIntOrNone, readUInt_append f suf h0, h64', if_false, ofBits_eq_max_iff]
  split <;> rfl

theorem decNumericU_field (dd : DDesc) (scale ref : Int) (s : St) (f suf : Bits)
    (h0 : 0 < f.length) (h64 : f.length ≤ 64) (hb : s.bits = f ++ suf) :
    decNumericU dd (f.length : Int) scale ref s =
      .ok { s with bits := suf, descs := dd :: s.descs,
                   vals := s.vals.map
                     (numVal (if 1 < f.length ∧ f.all id = true then none else some (ofBits f)) scale ref :: ·) } := by
  simp only [decNumericU, natWidth_ofNat _ h0, St.read, St.pushDesc, hb,
    readUIntOrNone_append f suf h0 h64, St.pushAll, bind, Except.bind, pure, Except.pure]

theorem decNumericU_inv {dd : DDesc} {nbits scale ref : Int} {s s' : St}
    (h : decNumericU dd nbits scale ref s = .ok s') :
    ∃ n : Nat, 0 < n ∧ n ≤ 64 ∧ n ≤ s.bits.length ∧ nbits = (n : Int) ∧ natWidth nbits = .ok n := by
  cases hn : natWidth nbits with
  | error e => simp only [decNumericU, hn, bind, Except.bind] at h; cases h
  | ok n =>
    obtain ⟨h0, hnb⟩ := natWidth_ok hn
    have hn0 : n ≠ 0 := by omega
    refine ⟨n, h0, ?_, ?_, hnb, rfl⟩
    · by_cases h64 : 64 < n
      · exfalso
        simp only [decNumericU, hn, St.read, St.pushDesc, readUIntOrNone, readUInt, hn0, if_false,
          bind, Except.bind] at h
        cases hr : readBits n s.bits with
        | error e => rw [hr] at h; cases h
        | ok x => rw [hr] at h; simp only [h64, if_true] at h; cases h
      · omega
    · by_cases hl : s.bits.length < n
      · exfalso
        simp only [decNumericU, hn, St.read, St.pushDesc, readUIntOrNone, readUInt, hn0, if_false,
          readBits_short n s.bits hl, bind, Except.bind] at h
        cases h
      · omega

/-! ### encoder primitives -/

theorem toBits_max (n : Nat) : toBits n (2 ^ n - 1) = ones n := by
  have h := toBits_ofBits (ones n)
  rw [ofBits_ones] at h
  simpa [ones] using h

theorem ones_all (n : Nat) : (ones n).all id = true := by
  simp [ones]

theorem toBits_all_iff (n raw : Nat) (h : raw < 2 ^ n) :
    (toBits n raw).all id = true ↔ raw = 2 ^ n - 1 := by
  have := ofBits_eq_max_iff (toBits n raw)
  rw [toBits_length, ofBits_toBits, Nat.mod_eq_of_lt h] at this
  exact this.symm

theorem fieldUInt_ofNat (n raw : Nat) (hn : 0 < n) (h : raw < 2 ^ n) :
    fieldUInt (raw : Int) n = .ok (toBits n raw) := by
  have := writeUInt_ofNat [] n raw hn h
  simpa [fieldUInt] using this

theorem fieldUInt_inv {v : Int} {n : Nat} {f : Bits} (h : fieldUInt v n = .ok f) :
    0 < n ∧ 0 ≤ v ∧ v.toNat < 2 ^ n ∧ f = toBits n v.toNat := by
  unfold fieldUInt writeUInt at h
  split at h
  · cases h
  · split at h
    · cases h
    · split at h
      · cases h
      · injection h with h
        refine ⟨by omega, by omega, by omega, by simpa using h.symm⟩

theorem fieldUInt_error {v : Int} {n : Nat} {e : Err} (h : fieldUInt v n = .error e) : e = .other := by
  unfold fieldUInt writeUInt at h
  split at h
  · cases h; rfl
  · split at h
    · cases h; rfl
    · split at h
      · cases h; rfl
      · cases h

theorem St.write_ok (s : St) (f : Bits) : s.write (.ok f) = .ok { s with bits := f.reverse ++ s.bits } := by
  simp only [St.write, List.reverseAux_eq]

theorem St.write_error (s : St) (e : Err) : s.write (.error e) = .error e := rfl

/-- the field the encoder writes for a numeric value -/
def numericField (v : Val) (scale ref : Int) (n : Nat) : CM Bits :=
  match v with
  | .missing => (missingPattern n).bind fun p => fieldUInt p n
  | v => (quantise v scale).bind fun q => fieldUInt (q - ref) n

theorem encNumericU_noval (dd : DDesc) (nbits scale ref : Int) (s : St) (h : s.curVal = none) :
    encNumericU dd nbits scale ref s = .error .other := by
  simp only [St.curVal, curVals] at h
  simp only [encNumericU, nextVal, nthVal, St.pushDesc, curVals, h, bind, Except.bind]

theorem encNumericU_eq (dd : DDesc) (nbits scale ref : Int) (s : St) (v : Val) (n : Nat)
    (h : s.curVal = some v) (hn : natWidth nbits = .ok n) :
    encNumericU dd nbits scale ref s = (numericField v scale ref n).map (s.afterWrite dd) := by
  simp only [St.curVal, curVals] at h
  simp only [encNumericU, nextVal, nthVal, St.pushDesc, curVals, h, hn, bind, Except.bind, pure, Except.pure]
  cases v with
  | missing =>
    simp only [numericField]
    cases missingPattern n with
    | error e => rfl
    | ok p =>
      simp only [Except.bind]
      cases fieldUInt p n with
      | error e => rfl
      | ok f => simp only [St.write_ok, Except.map, St.afterWrite]
  | int i =>
    simp only [numericField]
    cases quantise (.int i) scale with
    | error e => rfl
    | ok q =>
      simp only [Except.bind]
      cases fieldUInt (q - ref) n with
      | error e => rfl
      | ok f => simp only [St.write_ok, Except.map, St.afterWrite]
  | num m k =>
    simp only [numericField]
    cases quantise (.num m k) scale with
    | error e => rfl
    | ok q =>
      simp only [Except.bind]
      cases fieldUInt (q - ref) n with
      | error e => rfl
      | ok f => simp only [St.write_ok, Except.map, St.afterWrite]
  | bytes b => rfl

theorem encNumericU_badwidth (dd : DDesc) (nbits scale ref : Int) (s : St) (v : Val)
    (h : s.curVal = some v) (hn : nbits ≤ 0) :
    encNumericU dd nbits scale ref s = .error .other := by
  simp only [St.curVal, curVals] at h
  simp only [encNumericU, nextVal, nthVal, St.pushDesc, curVals, h, natWidth_nonpos nbits hn,
    bind, Except.bind, pure, Except.pure]

theorem missingPattern_ok (n : Nat) (h : n ≤ 64) : missingPattern n = .ok ((2 ^ n - 1 : Nat) : Int) := by
  have : ¬ (64 < n) := by omega
  simp only [missingPattern, this, if_false]

theorem missingPattern_inv {n : Nat} {p : Int} (h : missingPattern n = .ok p) :
    n ≤ 64 ∧ p = ((2 ^ n - 1 : Nat) : Int) := by
  unfold missingPattern at h
  split at h
  · cases h
  · injection h with h; exact ⟨by omega, h.symm⟩

theorem missingPattern_error {n : Nat} {e : Err} (h : missingPattern n = .error e) : e = .other := by
  unfold missingPattern at h
  split at h
  · cases h; rfl
  · cases h

theorem numericField_missing (scale ref : Int) (n : Nat) (hn : 0 < n) (h64 : n ≤ 64) :
    numericField .missing scale ref n = .ok (ones n) := by
  have hp : 2 ^ n - 1 < 2 ^ n := by have := Nat.two_pow_pos n; omega
  simp only [numericField, missingPattern_ok n h64, Except.bind, fieldUInt_ofNat n _ hn hp, toBits_max]

theorem numericField_value (v : Val) (scale ref q : Int) (n : Nat) (hv : v ≠ .missing)
    (hq : quantise v scale = .ok q) : numericField v scale ref n = fieldUInt (q - ref) n := by
  cases v with
  | missing => exact absurd rfl hv
  | int i => simp only [numericField, hq, Except.bind]
  | num m k => simp only [numericField, hq, Except.bind]
  | bytes b => simp only [numericField, hq, Except.bind]

theorem numericField_inv {v : Val} {scale ref : Int} {n : Nat} {f : Bits}
    (h : numericField v scale ref n = .ok f) :
    ∃ raw : Nat, 0 < n ∧ raw < 2 ^ n ∧ f = toBits n raw ∧
      (v = .missing → raw = 2 ^ n - 1 ∧ n ≤ 64) ∧
      (v ≠ .missing → ∃ q, quantise v scale = .ok q ∧ q - ref = raw) := by
  by_cases hv : v = .missing
  · subst hv
    simp only [numericField] at h
    cases hp : missingPattern n with
    | error e => rw [hp] at h; cases h
    | ok p =>
      rw [hp] at h
      obtain ⟨h64, rfl⟩ := missingPattern_inv hp
      obtain ⟨h1, _, h3, h4⟩ := fieldUInt_inv h
      refine ⟨2 ^ n - 1, h1, by simpa using h3, by simpa using h4, fun _ => ⟨rfl, h64⟩, fun hh => absurd rfl hh⟩
  · cases hq : quantise v scale with
    | error e =>
      exfalso
      cases v with
      | missing => exact hv rfl
      | int i => simp only [numericField, hq, Except.bind] at h; cases h
      | num m k => simp only [numericField, hq, Except.bind] at h; cases h
      | bytes b => simp only [numericField, hq, Except.bind] at h; cases h
    | ok q =>
      rw [numericField_value v scale ref q n hv hq] at h
      obtain ⟨h1, h2, h3, h4⟩ := fieldUInt_inv h
      refine ⟨(q - ref).toNat, h1, h3, h4, fun hh => absurd hh hv, fun _ => ⟨q, rfl, by omega⟩⟩

theorem numericField_error {v : Val} {scale ref : Int} {n : Nat} {e : Err}
    (h : numericField v scale ref n = .error e) : e = .other := by
  by_cases hv : v = .missing
  · subst hv
    simp only [numericField] at h
    cases hp : missingPattern n with
    | error e' => rw [hp] at h; cases h; exact missingPattern_error hp
    | ok p => rw [hp] at h; exact fieldUInt_error h
  · cases hq : quantise v scale with
    | error e' =>
      have := quantise_error hq
      subst this
      cases v with
      | missing => exact absurd rfl hv
      | int i => simp only [numericField, hq, Except.bind] at h; cases h; rfl
      | num m k => simp only [numericField, hq, Except.bind] at h; cases h; rfl
      | bytes b => simp only [numericField, hq, Except.bind] at h; cases h; rfl
    | ok q =>
      rw [numericField_value v scale ref q n hv hq] at h
      exact fieldUInt_error h

/-! #### code / flag -/

def codeflagField (v : Val) (n : Nat) : CM Bits :=
  match v with
  | .missing => (missingPattern n).bind fun p => fieldUInt p n
  | .int i => fieldUInt i n
  | _ => .error .other

theorem encCodeflagU_noval (dd : DDesc) (n : Nat) (s : St) (h : s.curVal = none) :
    encCodeflagU dd n s = .error .other := by
  simp only [St.curVal, curVals] at h
  simp only [encCodeflagU, nextVal, nthVal, St.pushDesc, curVals, h, bind, Except.bind]

theorem encCodeflagU_eq (dd : DDesc) (n : Nat) (s : St) (v : Val) (h : s.curVal = some v) :
    encCodeflagU dd n s = (codeflagField v n).map (s.afterWrite dd) := by
  simp only [St.curVal, curVals] at h
  simp only [encCodeflagU, nextVal, nthVal, St.pushDesc, curVals, h, bind, Except.bind, pure, Except.pure]
  cases v with
  | missing =>
    simp only [codeflagField]
    cases missingPattern n with
    | error e => rfl
    | ok p =>
      simp only [Except.bind]
      cases fieldUInt p n with
      | error e => rfl
      | ok f => simp only [St.write_ok, Except.map, St.afterWrite]
  | int i =>
    simp only [codeflagField]
    cases fieldUInt i n with
    | error e => rfl
    | ok f => simp only [St.write_ok, Except.map, St.afterWrite]
  | num m k => rfl
  | bytes b => rfl

theorem codeflagField_inv {v : Val} {n : Nat} {f : Bits} (h : codeflagField v n = .ok f) :
    ∃ raw : Nat, 0 < n ∧ raw < 2 ^ n ∧ f = toBits n raw ∧
      ((v = .missing ∧ raw = 2 ^ n - 1 ∧ n ≤ 64) ∨ v = .int raw) := by
  cases v with
  | missing =>
    simp only [codeflagField] at h
    cases hp : missingPattern n with
    | error e => rw [hp] at h; cases h
    | ok p =>
      rw [hp] at h
      obtain ⟨h64, rfl⟩ := missingPattern_inv hp
      obtain ⟨h1, _, h3, h4⟩ := fieldUInt_inv h
      exact ⟨2 ^ n - 1, h1, by simpa using h3, by simpa using h4, .inl ⟨rfl, rfl, h64⟩⟩
  | int i =>
    simp only [codeflagField] at h
    obtain ⟨h1, h2, h3, h4⟩ := fieldUInt_inv h
    refine ⟨i.toNat, h1, h3, h4, .inr ?_⟩
    congr 1; omega
  | num m k => cases h
  | bytes b => cases h

theorem codeflagField_error {v : Val} {n : Nat} {e : Err} (h : codeflagField v n = .error e) : e = .other := by
  cases v with
  | missing =>
    simp only [codeflagField] at h
    cases hp : missingPattern n with
    | error e' => rw [hp] at h; cases h; exact missingPattern_error hp
    | ok p => rw [hp] at h; exact fieldUInt_error h
  | int i => exact fieldUInt_error h
  | num m k => cases h; rfl
  | bytes b => cases h; rfl

theorem decCodeflagU_field (dd : DDesc) (s : St) (f suf : Bits)
    (h0 : 0 < f.length) (h64 : f.length ≤ 64) (hb : s.bits = f ++ suf) :
    decCodeflagU dd f.length s =
      .ok (s.afterRead dd suf (uintVal (if 1 < f.length ∧ f.all id = true then none else some (ofBits f)))) := by
  simp only [decCodeflagU, St.read, St.pushDesc, hb, readUIntOrNone_append f suf h0 h64,
    St.pushAll, bind, Except.bind, pure, Except.pure, St.afterRead]

/-! #### character fields -/

def stringField (v : Val) (k : Nat) : CM (List UInt8) :=
  match v with
  | .missing => .ok (List.replicate k 0xFF)
  | .bytes b => .ok (padBytes b k)
  | _ => .error .other

theorem padBytes_of_length (b : List UInt8) (k : Nat) (h : b.length = k) : padBytes b k = b := by
  subst h
  simp [padBytes]

theorem padBytes_replicate (k : Nat) (c : UInt8) : padBytes (List.replicate k c) k = List.replicate k c :=
  padBytes_of_length _ _ (by simp)

theorem padBytes_idem (b : List UInt8) (k : Nat) : padBytes (padBytes b k) k = padBytes b k :=
  padBytes_of_length _ _ (padBytes_length b k)

theorem encStringU_noval (dd : DDesc) (k : Nat) (s : St) (h : s.curVal = none) :
    encStringU dd k s = .error .other := by
  simp only [St.curVal, curVals] at h
  simp only [encStringU, nextVal, nthVal, St.pushDesc, curVals, h, bind, Except.bind]

theorem encStringU_eq (dd : DDesc) (k : Nat) (s : St) (v : Val) (h : s.curVal = some v) :
    encStringU dd k s = (stringField v k).map fun b => s.afterWrite dd (bytesToBits b) := by
  simp only [St.curVal, curVals] at h
  simp only [encStringU, nextVal, nthVal, St.pushDesc, curVals, h, bind, Except.bind, pure, Except.pure]
  cases v with
  | missing =>
    simp only [stringField, fieldBytes, writeBytes, List.nil_append, St.write_ok, Except.map,
      St.afterWrite, padBytes_replicate]
  | bytes b =>
    simp only [stringField, fieldBytes, writeBytes, List.nil_append, St.write_ok, Except.map, St.afterWrite]
  | int i => rfl
  | num m k => rfl

theorem decStringU_field (dd : DDesc) (s : St) (b : List UInt8) (suf : Bits)
    (hb : s.bits = bytesToBits b ++ suf) :
    decStringU dd b.length s = .ok (s.afterRead dd suf (.bytes b)) := by
  simp only [decStringU, St.read, St.pushDesc, hb, readBytes_bytesToBits, St.pushAll,
    bind, Except.bind, pure, Except.pure, St.afterRead]

/-! #### new reference values (203YYY) -/

theorem fieldInt_inv {i : Int} {n : Nat} {f : Bits} (h : fieldInt i n = .ok f) :
    1 < n ∧ i.natAbs < 2 ^ (n - 1) ∧ f = decide (i < 0) :: toBits (n - 1) i.natAbs := by
  unfold fieldInt writeInt writeUInt at h
  split at h
  · cases h
  · split at h
    · cases h
    · split at h
      · cases h
      · injection h with h
        rename_i h1 h2 h3
        have h3' : ¬ 2 ^ (n - 1) ≤ i.natAbs := by simpa using h3
        refine ⟨by omega, by omega, ?_⟩
        simpa [writeBool] using h.symm

theorem fieldInt_ok (i : Int) (n : Nat) (hn : 1 < n) (hi : i.natAbs < 2 ^ (n - 1)) :
    fieldInt i n = .ok (decide (i < 0) :: toBits (n - 1) i.natAbs) := by
  have := writeUInt_ofNat (writeBool [] (decide (i < 0))) (n - 1) i.natAbs (by omega) hi
  simpa [fieldInt, writeInt, writeBool] using this

theorem fieldInt_error {i : Int} {n : Nat} {e : Err} (h : fieldInt i n = .error e) : e = .other := by
  unfold fieldInt writeInt writeUInt at h
  split at h
  · cases h; rfl
  · split at h
    · cases h; rfl
    · split at h
      · cases h; rfl
      · cases h

theorem readInt_field (n m : Nat) (sgn : Bool) (suf : Bits) (hn : 1 < n) (hm : m < 2 ^ (n - 1)) :
    readInt n ((sgn :: toBits (n - 1) m) ++ suf) =
      .ok ((if sgn then -(m : Int) else (m : Int)), suf) := by
  have hn0 : n ≠ 0 := by omega
  simp only [readInt, hn0, if_false, List.cons_append, readBool,
    readUInt_toBits (n - 1) m suf (by omega) hm]
  rfl

theorem encNewRefvalU_noval (e : Elem) (n : Nat) (s : St) (h : s.curVal = none) :
    encNewRefvalU e n s = .error .other := by
  simp only [St.curVal, curVals] at h
  simp only [encNewRefvalU, nextVal, nthVal, St.pushDesc, curVals, h, bind, Except.bind]

theorem encNewRefvalU_eq (e : Elem) (n : Nat) (s : St) (v : Val) (h : s.curVal = some v) :
    encNewRefvalU e n s =
      match v with
      | .int i => (fieldInt i n).map fun f => (setNewRefval s e.id i).afterWrite (.plain e) f
      | _ => .error .other := by
  simp only [St.curVal, curVals] at h
  simp only [encNewRefvalU, nextVal, nthVal, St.pushDesc, curVals, h, bind, Except.bind, pure, Except.pure]
  cases v with
  | int i =>
    simp only []
    cases fieldInt i n with
    | error e => rfl
    | ok f => simp only [St.write_ok, Except.map, St.afterWrite, setNewRefval, St.setRegs]
  | missing => rfl
  | num m k => rfl
  | bytes b => rfl

theorem decNewRefvalU_field (e : Elem) (n m : Nat) (sgn : Bool) (s : St) (suf : Bits)
    (hn : 1 < n) (hm : m < 2 ^ (n - 1)) (hb : s.bits = (sgn :: toBits (n - 1) m) ++ suf) :
    decNewRefvalU e n s =
      .ok ((setNewRefval s e.id (if sgn then -(m : Int) else (m : Int))).afterRead (.plain e) suf
            (.int (if sgn then -(m : Int) else (m : Int)))) := by
  simp only [decNewRefvalU, St.read, St.pushDesc, hb, readInt_field n m sgn suf hn hm, St.pushAll,
    bind, Except.bind, pure, Except.pure, St.afterRead, setNewRefval, St.setRegs]

/-! #### descriptor packing -/

theorem toBits_append (a b hi lo : Nat) (hlo : lo < 2 ^ b) :
    toBits (a + b) (hi * 2 ^ b + lo) = toBits a hi ++ toBits b lo := by
  induction a with
  | zero =>
    simp only [Nat.zero_add, toBits, List.nil_append]
    exact toBits_add_mul b hi lo
  | succ a ih =>
    have e : a + 1 + b = (a + b) + 1 := by omega
    rw [e]
    simp only [toBits, List.cons_append, ih]
    congr 2
    have h1 : (hi * 2 ^ b + lo) / 2 ^ (a + b) = hi / 2 ^ a := by
      rw [Nat.pow_add, Nat.mul_comm (2 ^ a), ← Nat.div_div_eq_div_mul]
      congr 1
      rw [Nat.add_comm, Nat.add_mul_div_right _ _ (Nat.two_pow_pos b), Nat.div_eq_of_lt hlo, Nat.zero_add]
    rw [h1]

theorem toBits_fxy (F X Y : Nat) (_hF : F < 4) (hX : X < 64) (hY : Y < 256) :
    toBits 16 (F * 2 ^ 14 + X * 2 ^ 8 + Y) = toBits 2 F ++ toBits 6 X ++ toBits 8 Y := by
  have h1 : F * 2 ^ 14 + X * 2 ^ 8 + Y = (F * 2 ^ 6 + X) * 2 ^ 8 + Y := by omega
  rw [h1, show (16 : Nat) = 8 + 8 from rfl, toBits_append 8 8 _ Y (by omega),
    show (8 : Nat) = 2 + 6 from rfl, toBits_append 2 6 F X (by omega)]

theorem writeUInt_ofNat' (w : Bits) (n v : Nat) (hn : 0 < n) (hv : v < 2 ^ n) :
    writeUInt w (v : Int) n = .ok (w ++ toBits n v) := writeUInt_ofNat w n v hn hv

theorem writeUInt_nat_unfit (w : Bits) (v n : Nat) (h : 2 ^ n ≤ v) :
    writeUInt w (v : Int) n = .error .other := by
  unfold writeUInt
  by_cases hn : n = 0
  · simp [hn]
  · have h1 : ¬ ((v : Int) < 0) := by omega
    simp [hn, h1, h]

end Bufr
