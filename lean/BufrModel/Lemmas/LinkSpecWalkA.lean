/-
  C07: tools for carrying `Core` through the walk — the shape of `walk1` when no 203/206/221 effect is
  pending, `Spec.markersOk` on prefixes, the combinators for steps that add cancel times (`PresG`).
-/
import BufrModel.Lemmas.LinkSpecSteps
import BufrModel.Lemmas.LinkSpecGrow
namespace Bufr.C07
open Bufr.Spec

/-! ### `markersOk` -/

theorem inQa_prefix (pre suf : List Item) (i : Nat) (h : i ≤ pre.length) : inQa (pre ++ suf) i = inQa pre i := by
  rw [inQa_eq, inQa_eq, List.take_append_of_le_length h]

theorem markersOk_prefix (pre suf : List Item) (h : markersOk (pre ++ suf) = true) : markersOk pre = true := by
  unfold markersOk at h ⊢
  rw [List.all_eq_true] at h ⊢
  intro i hi
  have hi' : i < pre.length := List.mem_range.mp hi
  have := h i (List.mem_range.mpr (by rw [List.length_append]; omega))
  rw [List.getElem?_append_left hi', inQa_prefix _ _ _ (by omega)] at this
  cases i with
  | zero => exact this
  | succ j =>
    simp only at this ⊢
    rw [List.getElem?_append_left (by omega)] at this
    exact this

/-- what `markersOk` says about a marker item -/
theorem markersOk_at (its : List Item) (h : markersOk its = true) (i op : Nat) (e : Elem) (v : Val)
    (hi : its[i]? = some (.marker op e, v)) :
    ¬ (xOf e.id = 33 ∧ inQa its i = true) ∧
    ∀ j id n v', i = j + 1 → its[j]? = some (.assoc id n, v') → id ≠ e.id := by
  unfold markersOk at h
  rw [List.all_eq_true] at h
  have hl : i < its.length := (List.getElem?_eq_some_iff.mp hi).1
  have := h i (List.mem_range.mpr hl)
  rw [hi] at this
  simp only [Bool.and_eq_true, Bool.not_eq_true', Bool.and_eq_false_iff] at this
  obtain ⟨h1, h2⟩ := this
  refine ⟨?_, ?_⟩
  · rintro ⟨a, b⟩
    rcases h1 with h1 | h1
    · simp [a] at h1
    · rw [b] at h1; cases h1
  · intro j id n v' hij hj hid
    subst hij
    simp only [hj] at h2
    simp [hid] at h2

/-! ### `walk1` without pending 203 / 206 / 221 effects -/

theorem walk1_quiet (P : Prims) (d : Desc) (s : St) (h1 : s.regs.nbitsNewRefval = 0) (h2 : s.regs.nbitsSkipped = 0)
    (h3 : s.regs.dnpCount = 0) :
    walk1 P d s = match bitmapDefinition P d.id s with
      | .error e => .error e
      | .ok s1 => dispatch P d s1 := by
  rw [fr_walk1_eq]
  have hs : skipTest d s = false := by simp [skipTest, h3]
  have hd : dnpStep s = s := by simp [dnpStep, h3]
  rw [hs, hd]
  simp only [Bool.false_eq_true, if_false]
  unfold walkRest newRefSel
  simp [h1, h2]
  cases bitmapDefinition P d.id s <;> rfl

theorem entryOf_quiet (P : Prims) (d : Desc) (s : St) (h1 : s.regs.nbitsNewRefval = 0) (h2 : s.regs.nbitsSkipped = 0)
    (h3 : s.regs.dnpCount = 0) :
    entryOf P d s = match bitmapDefinition P d.id s with
      | .error _ => none
      | .ok s1 => some s1 := by
  unfold entryOf
  simp [h1, h2, h3]
  cases bitmapDefinition P d.id s <;> rfl

/-- the cancel times of the dispatch on `d` from the state `s` behind the prelude -/
def cancelsD (P : Prims) (d : Desc) (s : St) : List Nat :=
  match d with
  | .op id => if id / 1000 = 235 then [s.descs.length] else []
  | .fixedRep id ms => ghostIter (walkList P ms) (cancelsL P ms) (yOf id) s
  | .delayedRep _ f ms =>
    (match f with
     | .elem fe =>
       (match elementDescriptor P (.plain fe) fe s with
        | .error _ => []
        | .ok s1 =>
          (match P.factorValue s1 >>= factorCount with
           | .error _ => []
           | .ok n => ghostIter (walkList P ms) (cancelsL P ms) n s1))
     | _ => [])
  | .seq _ ms => cancelsL P ms s
  | .elem _ => []
  | .undefElem _ => []
  | .undefSeq _ => []

theorem cancels1_eq (P : Prims) (d : Desc) (s0 : St) :
    cancels1 P d s0 = match entryOf P d s0 with
      | none => []
      | some s => cancelsD P d s := by
  cases d <;> rw [cancels1] <;> rfl

theorem cancelsL_nil (P : Prims) (s : St) : cancelsL P [] s = [] := by rw [cancelsL]

theorem cancelsL_cons (P : Prims) (d : Desc) (ds : List Desc) (s : St) :
    cancelsL P (d :: ds) s = cancels1 P d s ++ (match walk1 P d s with
      | .ok s' => cancelsL P ds s'
      | .error _ => []) := by
  rw [cancelsL]
  cases walk1 P d s <;> rfl

/-! ### steps that add cancel times -/

/-- `f` takes states related by `I` to their cancel times to states related by `J` to the cancel times extended
    by `c s`, whenever the items of the result are `markersOk` -/
def PresG (V : St → List Val) (I J : St → List Nat → Prop) (f : St → CM St) (c : St → List Nat) : Prop :=
  ∀ s s' cs, f s = .ok s' → markersOk (items V s') = true → I s cs → J s' (cs ++ c s)

theorem markersOk_back {V : St → List Val} {X : St → Prop} {s1 s' : St} (hg : G V X s1 s') (h : markersOk (items V s') = true) :
    markersOk (items V s1) = true := by
  obtain ⟨_, ⟨ext, e⟩, _, _⟩ := hg
  rw [e] at h
  exact markersOk_prefix _ _ h

theorem PresG.kl {V : St → List Val} {X : St → Prop} {I J K : St → List Nat → Prop} {f g : St → CM St}
    {cf cg : St → List Nat}
    (hf : PresG V I J f cf) (hg : PresG V J K g cg) (hI : ∀ s cs, I s cs → (V s).length = s.descs.length)
    (gf : Grows V X f) (gg : Grows V X g) :
    PresG V I K (Bufr.kl f g) (fun s => cf s ++ (match f s with | .ok s1 => cg s1 | .error _ => [])) := by
  intro s s' cs h hok hi
  unfold Bufr.kl at h
  cases h1 : f s with
  | error e => rw [h1] at h; cases h
  | ok s1 =>
    rw [h1] at h
    have g1 := gf s s1 (hI s cs hi) h1
    have g2 := gg s1 s' g1.1 h
    have hj := hf s s1 cs h1 (markersOk_back g2 hok) hi
    have := hg s1 s' _ h hok hj
    simp only [h1]
    rw [← List.append_assoc]
    exact this

theorem PresG.iterN {V : St → List Val} {X : St → Prop} {I : St → List Nat → Prop} {f : St → CM St}
    {c : St → List Nat}
    (hf : PresG V I I f c) (hI : ∀ s cs, I s cs → (V s).length = s.descs.length)
    (gf : ∀ s0, Pres (G V X s0) f) (n : Nat) :
    PresG V I I (iterN n f) (ghostIter f c n) := by
  induction n with
  | zero =>
    intro s s' cs h _ hi
    unfold Bufr.iterN at h
    cases h
    unfold ghostIter
    rw [List.append_nil]; exact hi
  | succ n ih =>
    intro s s' cs h hok hi
    unfold Bufr.iterN at h
    cases h1 : f s with
    | error e => rw [h1] at h; cases h
    | ok s1 =>
      rw [h1] at h
      have g1 := Grows.of_pres gf s s1 (hI s cs hi) h1
      have g2 := grows_iterN gf n s1 s' g1.1 h
      have hj := hf s s1 cs h1 (markersOk_back g2 hok) hi
      have := ih s1 s' _ h hok hj
      unfold ghostIter
      rw [h1]
      simp only
      rw [← List.append_assoc]
      exact this

/-- the invariant `X` of the primitives rides along -/
theorem PresG.withX {V : St → List Val} {X : St → Prop} {I J : St → List Nat → Prop} {f : St → CM St}
    {c : St → List Nat} (h : PresG V I J f c) (hI : ∀ s cs, I s cs → (V s).length = s.descs.length) (gf : Grows V X f) :
    PresG V (fun s cs => I s cs ∧ X s) (fun s cs => J s cs ∧ X s) f c :=
  fun s s' cs e hok hi => ⟨h s s' cs e hok hi.1, (gf s s' (hI s cs hi.1) e).2.2.2 hi.2⟩

theorem PresG.weaken {V : St → List Val} {I I' J J' : St → List Nat → Prop} {f : St → CM St} {c : St → List Nat}
    (h : PresG V I J f c) (h1 : ∀ s cs, I' s cs → I s cs) (h2 : ∀ s cs, J s cs → J' s cs) : PresG V I' J' f c :=
  fun s s' cs e hok hi => h2 _ _ (h s s' cs e hok (h1 _ _ hi))

theorem PresG.congr {V : St → List Val} {I J : St → List Nat → Prop} {f f' : St → CM St} {c c' : St → List Nat}
    (h : PresG V I J f c) (hf : ∀ s, f' s = f s) (hc : ∀ s, c' s = c s) : PresG V I J f' c' := by
  intro s s' cs e hok hi
  rw [hf] at e
  rw [hc]
  exact h s s' cs e hok hi

end Bufr.C07
