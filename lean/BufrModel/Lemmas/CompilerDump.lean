/-
  C08: `loads_compiled_template(to_dict(prog)) = prog` (`load T (dump prog) = .ok prog`) for every
  well-formed program, and the programs the compiler produces from a template over the tables `T`
  are well formed.
-/
import BufrModel.Lemmas.CompilerSim
namespace Bufr.C08D
open Bufr Bufr.C08

def wfDD (T : Tables) : DDesc → Prop
  | .plain e => e.id < 100000 ∧ T.b e.id = some e
  | .oper id => 200000 ≤ id ∧ id < 300000
  | _ => False

mutual
def WFStmt (T : Tables) : Stmt → Prop
  | .numeric dd _ _ _ => wfDD T dd
  | .numericNewRef dd _ _ _ => wfDD T dd
  | .string dd _ => wfDD T dd
  | .codeflag dd n => wfDD T dd ∨ (∃ id, dd = .assoc id n) ∨ (∃ id, dd = .skipped id n)
  | .newRefval e _ => wfDD T (.plain e)
  | .constant dd _ => wfDD T dd
  | .bitmapped opId _ => 200000 ≤ opId ∧ opId < 300000
  | .defineBitmap _ => True
  | .state _ => True
  | .inc031031 => True
  | .reset031031 => True
  | .loop _ body => WFList T body
def WFList (T : Tables) : List Stmt → Prop
  | [] => True
  | x :: xs => WFStmt T x ∧ WFList T xs
end

theorem asNat_jnatv (n : Nat) : (jnatv n).asNat = some n := by
  simp [jnatv, JV.asNat]

theorem natsOf_map (l : List Nat) : natsOf (l.map jnatv) = some l := by
  induction l with
  | nil => rfl
  | cons x xs ih => simp only [List.map, natsOf, asNat_jnatv, ih]

theorem loadProps_dump (sp : StateProps) : loadProps (dumpProps sp) = .ok sp := by
  simp [loadProps, dumpProps, JV.get, List.find?, orOther, asNat_jnatv, natsOf_map, JV.asInt, JV.asArr, bind, Except.bind, pure, Except.pure]

theorem ofName_name (m : StateMethod) : StateMethod.ofName m.name = some m := by
  cases m <;> decide

theorem loadDesc_wf (T : Tables) (dd : DDesc) (rest : List JV) (h : wfDD T dd) :
    loadDesc T dd.typeName dd.eid rest = .ok dd := by
  cases dd with
  | plain e =>
    obtain ⟨h1, h2⟩ := h
    have h3 : ¬ (200000 ≤ e.id ∧ e.id < 300000) := by omega
    simp [loadDesc, DDesc.typeName, DDesc.eid, h1, h2, h3, pure, Except.pure]
  | oper id =>
    have h3 : 200000 ≤ id ∧ id < 300000 := h
    simp [loadDesc, DDesc.typeName, DDesc.eid, h3, pure, Except.pure]
  | assoc _ _ => exact h.elim
  | skipped _ _ => exact h.elim
  | marker _ _ => exact h.elim


theorem get_type (typ name : String) (args : List JV) (sp : JV) (dt : Option String) :
    (methodDict typ name args sp dt).get "type" = some (.str typ) := by
  simp [methodDict, JV.get, List.find?]
theorem get_name (typ name : String) (args : List JV) (sp : JV) (dt : Option String) :
    (methodDict typ name args sp dt).get "method_name" = some (.str name) := by
  simp [methodDict, JV.get, List.find?]
theorem get_args (typ name : String) (args : List JV) (sp : JV) (dt : Option String) :
    (methodDict typ name args sp dt).get "args" = some (.arr args) := by
  simp [methodDict, JV.get, List.find?]
theorem get_sp (typ name : String) (args : List JV) (sp : JV) (dt : Option String) :
    (methodDict typ name args sp dt).get "state_properties" = some sp := by
  simp [methodDict, JV.get, List.find?]
theorem get_withD (typ name : String) (args : List JV) (sp : JV) (dt : Option String) :
    (methodDict typ name args sp dt).get "with_descriptor" = some (.bool dt.isSome) := by
  simp [methodDict, JV.get, List.find?]
theorem get_descType (typ name : String) (args : List JV) (sp : JV) (t : String) :
    (methodDict typ name args sp (some t)).get "descriptor_type" = some (.str t) := by
  simp [methodDict, JV.get, List.find?]

theorem loadStmt_coder (T : Tables) (name : String) (args : List JV) (sp : JV) (dt : Option String) :
    loadStmt T (methodDict "CoderMethodCall" name args sp dt) = loadCoderCall T name (methodDict "CoderMethodCall" name args sp dt) := by
  unfold methodDict
  simp only [loadStmt]
  simp [JV.get, List.find?, JV.asStr]


macro "coder_rt" h:term : tactic => `(tactic|
  (have hload := $h; simp only [dumpStmt, coderCall]; rw [loadStmt_coder];
   simp [loadCoderCall, get_args, get_withD, get_descType, get_sp, JV.asArr, JV.asBool, orOther, asNat_jnatv, JV.asStr,
     hload, JV.asInt, JV.asPow, bind, Except.bind, pure, Except.pure]))

theorem rt_numeric (T : Tables) (dd : DDesc) (a b c : Int) (h : wfDD T dd) :
    loadStmt T (dumpStmt (.numeric dd a b c)) = .ok (.numeric dd a b c) := by
  coder_rt (fun rest => loadDesc_wf T dd rest h)

theorem rt_numericNewRef (T : Tables) (dd : DDesc) (a b c : Int) (h : wfDD T dd) :
    loadStmt T (dumpStmt (.numericNewRef dd a b c)) = .ok (.numericNewRef dd a b c) := by
  coder_rt (fun rest => loadDesc_wf T dd rest h)

theorem rt_string (T : Tables) (dd : DDesc) (n : Nat) (h : wfDD T dd) :
    loadStmt T (dumpStmt (.string dd n)) = .ok (.string dd n) := by
  coder_rt (fun rest => loadDesc_wf T dd rest h)

theorem rt_constant (T : Tables) (dd : DDesc) (v : Int) (h : wfDD T dd) :
    loadStmt T (dumpStmt (.constant dd v)) = .ok (.constant dd v) := by
  coder_rt (fun rest => loadDesc_wf T dd rest h)

theorem rt_newRefval (T : Tables) (e : Elem) (n : Nat) (h : wfDD T (.plain e)) :
    loadStmt T (dumpStmt (.newRefval e n)) = .ok (.newRefval e n) := by
  coder_rt (fun rest => loadDesc_wf T (.plain e) rest h)

theorem rt_codeflag (T : Tables) (dd : DDesc) (n : Nat)
    (h : wfDD T dd ∨ (∃ id, dd = .assoc id n) ∨ (∃ id, dd = .skipped id n)) :
    loadStmt T (dumpStmt (.codeflag dd n)) = .ok (.codeflag dd n) := by
  rcases h with h | ⟨id, h⟩ | ⟨id, h⟩
  · coder_rt (fun rest => loadDesc_wf T dd rest h)
  · subst h
    coder_rt (show loadDesc T (DDesc.assoc id n).typeName (DDesc.assoc id n).eid [jnatv n] = .ok (.assoc id n) by
      simp [loadDesc, DDesc.typeName, DDesc.eid, orOther, asNat_jnatv, bind, Except.bind, pure, Except.pure])
  · subst h
    coder_rt (show loadDesc T (DDesc.skipped id n).typeName (DDesc.skipped id n).eid [jnatv n] = .ok (.skipped id n) by
      simp [loadDesc, DDesc.typeName, DDesc.eid, orOther, asNat_jnatv, bind, Except.bind, pure, Except.pure])

theorem rt_bitmapped (T : Tables) (opId : Nat) (sp : StateProps) (h : 200000 ≤ opId ∧ opId < 300000) :
    loadStmt T (dumpStmt (.bitmapped opId sp)) = .ok (.bitmapped opId sp) := by
  simp only [dumpStmt]; rw [loadStmt_coder]
  simp [loadCoderCall, get_args, get_withD, get_descType, get_sp, JV.asArr, JV.asBool, orOther, asNat_jnatv, JV.asStr,
     loadProps_dump, h, bind, Except.bind, pure, Except.pure]

theorem rt_defineBitmap (T : Tables) (r : Bool) :
    loadStmt T (dumpStmt (.defineBitmap r)) = .ok (.defineBitmap r) := by
  simp only [dumpStmt]; rw [loadStmt_coder]
  simp [loadCoderCall, get_args, get_withD, JV.asArr, JV.asBool, orOther, bind, Except.bind, pure, Except.pure]

theorem rt_state (T : Tables) (m : StateMethod) : loadStmt T (dumpStmt (.state m)) = .ok (.state m) := by
  simp only [dumpStmt]
  unfold methodDict
  simp only [loadStmt]
  simp [JV.get, List.find?, JV.asStr, ofName_name]

theorem rt_inc (T : Tables) : loadStmt T (dumpStmt .inc031031) = .ok .inc031031 := by
  simp only [dumpStmt, loadStmt]
  simp [JV.get, List.find?, JV.asStr]

theorem rt_reset (T : Tables) : loadStmt T (dumpStmt .reset031031) = .ok .reset031031 := by
  simp only [dumpStmt, loadStmt]
  simp [JV.get, List.find?, JV.asStr]

theorem rt_loop (T : Tables) (rep : Repeat) (body : List Stmt) (h : loadList T (dumpList body) = .ok body) :
    loadStmt T (dumpStmt (.loop rep body)) = .ok (.loop rep body) := by
  simp only [dumpStmt, loadStmt]
  cases rep with
  | fixed n => simp [JV.get, List.find?, JV.asStr, h, jnatv]
  | factor => simp [JV.get, List.find?, JV.asStr, h, methodDict]


mutual
theorem loadStmt_dump (T : Tables) : ∀ (x : Stmt), WFStmt T x → loadStmt T (dumpStmt x) = .ok x
  | .numeric dd a b c, h => rt_numeric T dd a b c (by simpa only [WFStmt] using h)
  | .numericNewRef dd a b c, h => rt_numericNewRef T dd a b c (by simpa only [WFStmt] using h)
  | .string dd n, h => rt_string T dd n (by simpa only [WFStmt] using h)
  | .codeflag dd n, h => rt_codeflag T dd n (by simpa only [WFStmt] using h)
  | .newRefval e n, h => rt_newRefval T e n (by simpa only [WFStmt] using h)
  | .constant dd v, h => rt_constant T dd v (by simpa only [WFStmt] using h)
  | .bitmapped o sp, h => rt_bitmapped T o sp (by simpa only [WFStmt] using h)
  | .defineBitmap r, _ => rt_defineBitmap T r
  | .state m, _ => rt_state T m
  | .inc031031, _ => rt_inc T
  | .reset031031, _ => rt_reset T
  | .loop rep body, h => rt_loop T rep body (loadList_dump T body (by simpa only [WFStmt] using h))
theorem loadList_dump (T : Tables) : ∀ (xs : List Stmt), WFList T xs → loadList T (dumpList xs) = .ok xs
  | [], _ => rfl
  | x :: xs, h => by
    simp only [WFList] at h
    simp only [dumpList, loadList, loadStmt_dump T x h.1, loadList_dump T xs h.2]
end

theorem load_dump (T : Tables) (prog : List Stmt) (h : WFList T prog) : load T (dump prog) = .ok prog := by
  simp [load, dump, JV.get, List.find?, JV.asStr, JV.asArr, loadList_dump T prog h]

/-! ### compiled programs are well formed -/

theorem wfList_append (T : Tables) (p q : List Stmt) : WFList T (p ++ q) ↔ WFList T p ∧ WFList T q := by
  induction p with
  | nil => simp [WFList]
  | cons x xs ih => simp only [List.cons_append, WFList, ih, and_assoc]

/-- every Table B element of the template is the entry of `T` under its own id -/
def elemOk (T : Tables) (e : Elem) : Prop := e.id < 100000 ∧ T.b e.id = some e

mutual
def TWF (T : Tables) : Desc → Prop
  | .elem e => elemOk T e
  | .fixedRep _ ms => TWFL T ms
  | .delayedRep _ f ms => TWF T f ∧ TWFL T ms
  | .seq _ ms => TWFL T ms
  | .undefElem _ => True
  | .undefSeq _ => True
  | .op _ => True
def TWFL (T : Tables) : List Desc → Prop
  | [] => True
  | d :: ds => TWF T d ∧ TWFL T ds
end

theorem wf_cValue (T : Tables) (e : Elem) (c : CRegs) (he : elemOk T e) : WFStmt T (cValue e c) := by
  unfold cValue
  cases e.kind with
  | string => simp only [WFStmt, wfDD]; exact he
  | codeflag => simp only [WFStmt, wfDD]; exact Or.inl he
  | numeric =>
    simp only
    split <;> (simp only [WFStmt, wfDD]; exact he)

theorem wf_cElement (T : Tables) (e : Elem) (c : CRegs) (he : elemOk T e) : WFList T (cElement e c).1 := by
  simp only [cElement]
  rw [wfList_append, wfList_append]
  refine ⟨?_, ?_, ?_⟩
  · split
    · simp only [WFList, WFStmt, and_true]; exact Or.inr (Or.inl ⟨_, rfl⟩)
    · trivial
  · split <;> simp [WFList, WFStmt]
  · exact ⟨wf_cValue T e c he, trivial⟩

theorem wf_cBitmapDefinition (T : Tables) (id : Nat) (c : CRegs) : WFList T (cBitmapDefinition id c).1 := by
  unfold cBitmapDefinition
  cases c.bitmapDef <;> simp only [] <;> repeat' split
  all_goals simp [WFList, WFStmt]

theorem wf_cOperator (T : Tables) (id : Nat) (c : CRegs) (p : List Stmt) (c1 : CRegs)
    (h : cOperator id c = .ok (p, c1)) : WFList T p := by
  unfold cOperator at h
  simp only [] at h
  by_cases h201 : id / 1000 = 201
  · rw [if_pos h201] at h; cases h; trivial
  rw [if_neg h201] at h
  by_cases h202 : id / 1000 = 202
  · rw [if_pos h202] at h; cases h; trivial
  rw [if_neg h202] at h
  by_cases h203 : id / 1000 = 203
  · rw [if_pos h203] at h
    by_cases hy : id % 1000 = 255
    · rw [if_pos hy] at h; cases h; trivial
    rw [if_neg hy] at h
    by_cases hy0 : id % 1000 = 0
    · rw [if_pos hy0] at h; cases h; simp [WFList, WFStmt]
    rw [if_neg hy0] at h; cases h; trivial
  rw [if_neg h203] at h
  by_cases h204 : id / 1000 = 204
  · rw [if_pos h204] at h
    by_cases hy0 : id % 1000 = 0
    · rw [if_pos hy0] at h
      by_cases hs : c.assocStack = []
      · rw [if_pos hs] at h; cases h
      · rw [if_neg hs] at h; cases h; trivial
    · rw [if_neg hy0] at h; cases h; trivial
  rw [if_neg h204] at h
  by_cases h205 : id / 1000 = 205
  · rw [if_pos h205] at h; cases h
    simp only [WFList, WFStmt, wfDD, and_true]; omega
  rw [if_neg h205] at h
  by_cases h206 : id / 1000 = 206
  · rw [if_pos h206] at h; cases h; trivial
  rw [if_neg h206] at h
  by_cases h207 : id / 1000 = 207
  · rw [if_pos h207] at h; cases h; trivial
  rw [if_neg h207] at h
  by_cases h208 : id / 1000 = 208
  · rw [if_pos h208] at h; cases h; trivial
  rw [if_neg h208] at h
  by_cases h221 : id / 1000 = 221
  · rw [if_pos h221] at h; cases h; trivial
  rw [if_neg h221] at h
  by_cases hmk : id / 1000 = 222 ∨ id / 1000 = 223 ∨ id / 1000 = 224 ∨ id / 1000 = 225 ∨ id / 1000 = 232
  · rw [if_pos hmk] at h
    by_cases hy0 : id % 1000 = 0
    · rw [if_pos hy0] at h; cases h
      simp only [WFList, WFStmt, wfDD, and_true, true_and]; omega
    · rw [if_neg hy0] at h; cases h
      rw [wfList_append]
      refine ⟨?_, ?_⟩
      · split
        · simp only [WFList, WFStmt, and_true]; exact Or.inr (Or.inl ⟨_, rfl⟩)
        · trivial
      · simp only [WFList, WFStmt, and_true]; omega
  rw [if_neg hmk] at h
  by_cases h235 : id / 1000 = 235
  · rw [if_pos h235] at h; cases h; simp [WFList, WFStmt]
  rw [if_neg h235] at h
  by_cases h236 : id / 1000 = 236
  · rw [if_pos h236] at h; cases h
    simp only [WFList, WFStmt, wfDD, and_true]; omega
  rw [if_neg h236] at h
  by_cases h237 : id / 1000 = 237
  · rw [if_pos h237] at h
    by_cases hy0 : id % 1000 = 0
    · rw [if_pos hy0] at h; cases h
      simp only [WFList, WFStmt, wfDD, and_true, true_and]; omega
    · rw [if_neg hy0] at h; cases h
      rw [wfList_append]
      refine ⟨?_, ?_⟩
      · split <;> simp [WFList, WFStmt]
      · simp only [WFList, WFStmt, wfDD, and_true]; omega
  rw [if_neg h237] at h; cases h


theorem newRefTarget_elem {n : Nat} {d : Desc} {e : Elem} (h : newRefTarget n d = some e) : d = .elem e := by
  unfold newRefTarget at h
  split at h
  · cases d <;> simp at h
    rw [h]
  · cases h

theorem cPre_wf (T : Tables) (d : Desc) (kc : CRegs → CM COut) (hd : TWF T d)
    (hk : ∀ c p c1, kc c = .ok (p, c1) → WFList T p)
    (c0 : CRegs) (p : List Stmt) (c1 : CRegs) (h : cPre d kc c0 = .ok (p, c1)) : WFList T p := by
  unfold cPre at h
  simp only [] at h
  generalize (if c0.dnpCount ≠ 0 then { c0 with dnpCount := c0.dnpCount - 1 } else c0) = c at h
  split at h
  · cases h; trivial
  · split at h
    · next e he =>
      have hde := newRefTarget_elem he
      subst hde
      split at h
      · cases h
      · cases h
        simp only [WFList, WFStmt, wfDD, and_true]
        simpa only [TWF, elemOk] using hd
    · split at h
      · cases h
        simp only [WFList, WFStmt, and_true]
        exact Or.inr (Or.inr ⟨_, rfl⟩)
      · cases h1 : kc (cBitmapDefinition d.id c).2 with
        | error e => rw [h1] at h; cases h
        | ok y =>
          obtain ⟨p2, c2⟩ := y
          rw [h1] at h; cases h
          rw [wfList_append]
          exact ⟨wf_cBitmapDefinition T d.id c, hk _ _ _ h1⟩

def DispWF (T : Tables) (chk : Nat) (d : Desc) : Prop :=
  ∀ c p c1, cDispatch chk d c = .ok (p, c1) → WFList T p
def ListWF (T : Tables) (chk : Nat) (t : List Desc) : Prop :=
  ∀ c p c1, compileList chk t c = .ok (p, c1) → WFList T p

theorem wf_cons (T : Tables) (chk : Nat) (d : Desc) (ds : List Desc) (hd : TWF T d) (h1 : DispWF T chk d)
    (h2 : ListWF T chk ds) : ListWF T chk (d :: ds) := by
  intro c p c1 h
  simp only [compileList] at h
  cases e1 : compile1 chk d c with
  | error e => rw [e1] at h; cases h
  | ok y =>
    obtain ⟨p1, c2⟩ := y
    rw [e1] at h
    simp only at h
    cases e2 : compileList chk ds c2 with
    | error e => rw [e2] at h; cases h
    | ok z =>
      obtain ⟨p2, c3⟩ := z
      rw [e2] at h; cases h
      rw [wfList_append]
      rw [compile1_eq] at e1
      exact ⟨cPre_wf T d _ hd h1 c p1 c2 e1, h2 _ _ _ e2⟩

theorem wf_fixed (T : Tables) (chk : Nat) (id : Nat) (ms : List Desc) (h2 : ListWF T chk ms) :
    DispWF T chk (.fixedRep id ms) := by
  intro c p c1 h
  simp only [cDispatch] at h
  cases e1 : compileList chk ms c with
  | error e => rw [e1] at h; cases h
  | ok y =>
    obtain ⟨body, c2⟩ := y
    rw [e1] at h
    simp only at h
    split at h
    · cases h
    · cases h
      simp only [WFList, WFStmt, and_true]
      exact h2 _ _ _ e1

theorem wf_delayed (T : Tables) (chk : Nat) (id : Nat) (f : Desc) (ms : List Desc) (hf : TWF T f)
    (h2 : ListWF T chk ms) : DispWF T chk (.delayedRep id f ms) := by
  intro c p c1 h
  cases f with
  | elem fe =>
    simp only [cDispatch] at h
    cases e1 : compileList chk ms (cElement fe c).2 with
    | error e => rw [e1] at h; cases h
    | ok y =>
      obtain ⟨body, c2⟩ := y
      rw [e1] at h
      simp only at h
      split at h
      · cases h
      · cases h
        rw [wfList_append]
        refine ⟨wf_cElement T fe c (by simpa only [TWF] using hf), ?_⟩
        simp only [WFList, WFStmt, and_true]
        exact h2 _ _ _ e1
  | _ => simp only [cDispatch] at h; cases h

theorem wf_op (T : Tables) (chk : Nat) (id : Nat) : DispWF T chk (.op id) := by
  intro c p c1 h
  simp only [cDispatch] at h
  split at h
  · cases h
  · exact wf_cOperator T id c p c1 h

mutual
theorem listWF (T : Tables) (chk : Nat) : ∀ (t : List Desc), TWFL T t → ListWF T chk t
  | [], _ => fun c p c1 h => by simp only [compileList] at h; cases h; trivial
  | d :: ds, h => wf_cons T chk d ds (by simp only [TWFL] at h; exact h.1) (dispWF T chk d (by simp only [TWFL] at h; exact h.1))
      (listWF T chk ds (by simp only [TWFL] at h; exact h.2))
theorem dispWF (T : Tables) (chk : Nat) : ∀ (d : Desc), TWF T d → DispWF T chk d
  | .elem e, h => fun c p c1 hc => by
    simp only [cDispatch] at hc; cases hc
    exact wf_cElement T e c (by simpa only [TWF] using h)
  | .undefElem _, _ => fun c p c1 hc => by simp only [cDispatch] at hc; cases hc
  | .undefSeq _, _ => fun c p c1 hc => by simp only [cDispatch] at hc; cases hc
  | .fixedRep id ms, h => wf_fixed T chk id ms (listWF T chk ms (by simpa only [TWF] using h))
  | .delayedRep id f ms, h => wf_delayed T chk id f ms (by simp only [TWF] at h; exact h.1)
      (listWF T chk ms (by simp only [TWF] at h; exact h.2))
  | .op id, _ => wf_op T chk id
  | .seq _ ms, h => fun c p c1 hc => by
    simp only [cDispatch] at hc
    exact listWF T chk ms (by simpa only [TWF] using h) c p c1 hc
end

/-- every program the compiler produces from a template over `T` is well formed -/
theorem compile_wf (T : Tables) (t : List Desc) (ht : TWFL T t) (prog : List Stmt) (h : compile t = .ok prog) :
    WFList T prog := by
  unfold compile at h
  cases e1 : compileList 0 t {} with
  | error e => rw [e1] at h; cases h
  | ok y =>
    obtain ⟨p, c1⟩ := y
    rw [e1] at h; cases h
    exact listWF T 0 t ht _ _ _ e1

/-- Table B is keyed by the id of its entries, all of which are element ids -/
def TablesOk (T : Tables) : Prop := ∀ id e, T.b id = some e → e.id = id ∧ id < 100000

theorem twf_lookupB (T : Tables) (hT : TablesOk T) (id : Nat) : TWF T (T.lookupB id) := by
  unfold Tables.lookupB
  cases h : T.b id with
  | none => simp only [TWF]
  | some e =>
    obtain ⟨h1, h2⟩ := hT id e h
    simp only [TWF, elemOk]
    rw [h1]; exact ⟨h2, h⟩

theorem bind_ok {α β : Type} {x : CM α} {f : α → CM β} {t : β} (h : (x >>= f) = .ok t) :
    ∃ a, x = .ok a ∧ f a = .ok t := by
  cases x with
  | error e => cases h
  | ok a => exact ⟨a, rfl, h⟩

theorem twfl_buildD (T : Tables) (hT : TablesOk T) (depth : Nat) (ids : List Nat) :
    ∀ t, buildD T depth ids = .ok t → TWFL T t := by
  fun_induction buildD T depth ids <;> intro t h
  case case1 => cases h; trivial
  case case2 ih =>
    obtain ⟨tl, h1, h2⟩ := bind_ok h
    cases h2
    exact ⟨trivial, ih tl h1⟩
  case case3 => cases h
  case case4 ih2 ih1 =>
    obtain ⟨ms, h1, h2⟩ := bind_ok h
    obtain ⟨tl, h3, h4⟩ := bind_ok h2
    cases h4
    exact ⟨by simp only [TWF]; exact ih2 ms h1, ih1 tl h3⟩
  case case5 ih =>
    obtain ⟨tl, h1, h2⟩ := bind_ok h
    cases h2
    exact ⟨trivial, ih tl h1⟩
  case case6 => cases h
  case case7 ih2 ih1 =>
    obtain ⟨ms, h1, h2⟩ := bind_ok h
    obtain ⟨tl, h3, h4⟩ := bind_ok h2
    cases h4
    exact ⟨by simp only [TWF]; exact ⟨twf_lookupB T hT _, ih2 ms h1⟩, ih1 tl h3⟩
  case case8 ih2 ih1 =>
    obtain ⟨ms, h1, h2⟩ := bind_ok h
    obtain ⟨tl, h3, h4⟩ := bind_ok h2
    cases h4
    exact ⟨by simp only [TWF]; exact ih2 ms h1, ih1 tl h3⟩
  case case9 ih =>
    obtain ⟨tl, h1, h2⟩ := bind_ok h
    cases h2
    exact ⟨twf_lookupB T hT _, ih tl h1⟩

/-- templates built from descriptor ids over well-keyed tables are well formed -/
theorem twfl_build (T : Tables) (hT : TablesOk T) (ids : List Nat) (t : List Desc) (h : build T ids = .ok t) :
    TWFL T t := twfl_buildD T hT _ ids t h


end Bufr.C08D
