/-
  C08: `loads_compiled_template(to_dict(prog)) = prog` (`load T (dump prog) = .ok prog`) for every
  well-formed program, and the programs the compiler produces from a template over the tables `T`
  are well formed.
-/
import BufrModel.Lemmas.CompilerSim
namespace Bufr.C08D
open Bufr

def wfDD (T : Tables) : DDesc → Prop
  | .plain e => e.id < 100000 ∧ T.b e.id = some e
  | .oper id => 200000 ≤ id ∧ id < 300000
  | _ => False

mutual
def WFStmt (T : Tables) : Stmt → Prop
  | .numeric dd _ _ _ => wfDD T dd
  | .numericNewRef dd _ _ _ => wfDD T dd
  | .string dd _ => wfDD T dd
  | .codeflag dd n => wfDD T dd ∨ (∃ id, dd = .assoc id n) ∨ (∃ id, dd = .skipped id n)
  | .newRefval e _ => wfDD T (.plain e)
  | .constant dd _ => wfDD T dd
  | .bitmapped opId _ => 200000 ≤ opId ∧ opId < 300000
  | .defineBitmap _ => True
  | .state _ => True
  | .inc031031 => True
  | .reset031031 => True
  | .loop _ body => WFList T body
def WFList (T : Tables) : List Stmt → Prop
  | [] => True
  | x :: xs => WFStmt T x ∧ WFList T xs
end

theorem asNat_jnatv (n : Nat) : (jnatv n).asNat = some n := by
  simp [jnatv, JV.asNat]

theorem natsOf_map (l : List Nat) : natsOf (l.map jnatv) = some l := by
  induction l with
  | nil => rfl
  | cons x xs ih => simp only [List.map, natsOf, asNat_jnatv, ih]

theorem loadProps_dump (sp : StateProps) : loadProps (dumpProps sp) = .ok sp := by
  simp [loadProps, dumpProps, JV.get, List.find?, orOther, asNat_jnatv, natsOf_map, JV.asInt, JV.asArr, bind, Except.bind, pure, Except.pure]

theorem ofName_name (m : StateMethod) : StateMethod.ofName m.name = some m := by
  cases m <;> decide

theorem loadDesc_wf (T : Tables) (dd : DDesc) (rest : List JV) (h : wfDD T dd) :
    loadDesc T dd.typeName dd.eid rest = .ok dd := by
  cases dd with
  | plain e =>
    obtain ⟨h1, h2⟩ := h
    have h3 : ¬ (200000 ≤ e.id ∧ e.id < 300000) := by omega
    simp [loadDesc, DDesc.typeName, DDesc.eid, h1, h2, h3, pure, Except.pure]
  | oper id =>
    have h3 : 200000 ≤ id ∧ id < 300000 := h
    simp [loadDesc, DDesc.typeName, DDesc.eid, h3, pure, Except.pure]
  | assoc _ _ => exact h.elim
  | skipped _ _ => exact h.elim
  | marker _ _ => exact h.elim


theorem get_type (typ name : String) (args : List JV) (sp : JV) (dt : Option String) :
    (methodDict typ name args sp dt).get "type" = some (.str typ) := by
  simp [methodDict, JV.get, List.find?]
theorem get_name (typ name : String) (args : List JV) (sp : JV) (dt : Option String) :
    (methodDict typ name args sp dt).get "method_name" = some (.str name) := by
  simp [methodDict, JV.get, List.find?]
theorem get_args (typ name : String) (args : List JV) (sp : JV) (dt : Option String) :
    (methodDict typ name args sp dt).get "args" = some (.arr args) := by
  simp [methodDict, JV.get, List.find?]
theorem get_sp (typ name : String) (args : List JV) (sp : JV) (dt : Option String) :
    (methodDict typ name args sp dt).get "state_properties" = some sp := by
  simp [methodDict, JV.get, List.find?]
theorem get_withD (typ name : String) (args : List JV) (sp : JV) (dt : Option String) :
    (methodDict typ name args sp dt).get "with_descriptor" = some (.bool dt.isSome) := by
  simp [methodDict, JV.get, List.find?]
theorem get_descType (typ name : String) (args : List JV) (sp : JV) (t : String) :
    (methodDict typ name args sp (some t)).get "descriptor_type" = some (.str t) := by
  simp [methodDict, JV.get, List.find?]

theorem loadStmt_coder (T : Tables) (name : String) (args : List JV) (sp : JV) (dt : Option String) :
    loadStmt T (methodDict "CoderMethodCall" name args sp dt) = loadCoderCall T name (methodDict "CoderMethodCall" name args sp dt) := by
  unfold methodDict
  simp only [loadStmt]
  simp [JV.get, List.find?, JV.asStr]


macro "coder_rt" h:term : tactic => `(tactic|
  (have hload := $h; simp only [dumpStmt, coderCall]; rw [loadStmt_coder];
   simp [loadCoderCall, get_args, get_withD, get_descType, get_sp, JV.asArr, JV.asBool, orOther, asNat_jnatv, JV.asStr,
     hload, JV.asInt, JV.asPow, bind, Except.bind, pure, Except.pure]))

theorem rt_numeric (T : Tables) (dd : DDesc) (a b c : Int) (h : wfDD T dd) :
    loadStmt T (dumpStmt (.numeric dd a b c)) = .ok (.numeric dd a b c) := by
  coder_rt (fun rest => loadDesc_wf T dd rest h)

theorem rt_numericNewRef (T : Tables) (dd : DDesc) (a b c : Int) (h : wfDD T dd) :
    loadStmt T (dumpStmt (.numericNewRef dd a b c)) = .ok (.numericNewRef dd a b c) := by
  coder_rt (fun rest => loadDesc_wf T dd rest h)

theorem rt_string (T : Tables) (dd : DDesc) (n : Nat) (h : wfDD T dd) :
    loadStmt T (dumpStmt (.string dd n)) = .ok (.string dd n) := by
  coder_rt (fun rest => loadDesc_wf T dd rest h)

theorem rt_constant (T : Tables) (dd : DDesc) (v : Int) (h : wfDD T dd) :
    loadStmt T (dumpStmt (.constant dd v)) = .ok (.constant dd v) := by
  coder_rt (fun rest => loadDesc_wf T dd rest h)

theorem rt_newRefval (T : Tables) (e : Elem) (n : Nat) (h : wfDD T (.plain e)) :
    loadStmt T (dumpStmt (.newRefval e n)) = .ok (.newRefval e n) := by
  coder_rt (fun rest => loadDesc_wf T (.plain e) rest h)

theorem rt_codeflag (T : Tables) (dd : DDesc) (n : Nat)
    (h : wfDD T dd ∨ (∃ id, dd = .assoc id n) ∨ (∃ id, dd = .skipped id n)) :
    loadStmt T (dumpStmt (.codeflag dd n)) = .ok (.codeflag dd n) := by
  rcases h with h | ⟨id, h⟩ | ⟨id, h⟩
  · coder_rt (fun rest => loadDesc_wf T dd rest h)
  · subst h
    coder_rt (show loadDesc T (DDesc.assoc id n).typeName (DDesc.assoc id n).eid [jnatv n] = .ok (.assoc id n) by
      simp [loadDesc, DDesc.typeName, DDesc.eid, orOther, asNat_jnatv, bind, Except.bind, pure, Except.pure])
  · subst h
    coder_rt (show loadDesc T (DDesc.skipped id n).typeName (DDesc.skipped id n).eid [jnatv n] = .ok (.skipped id n) by
      simp [loadDesc, DDesc.typeName, DDesc.eid, orOther, asNat_jnatv, bind, Except.bind, pure, Except.pure])

theorem rt_bitmapped (T : Tables) (opId : Nat) (sp : StateProps) (h : 200000 ≤ opId ∧ opId < 300000) :
    loadStmt T (dumpStmt (.bitmapped opId sp)) = .ok (.bitmapped opId sp) := by
  simp only [dumpStmt]; rw [loadStmt_coder]
  simp [loadCoderCall, get_args, get_withD, get_descType, get_sp, JV.asArr, JV.asBool, orOther, asNat_jnatv, JV.asStr,
     loadProps_dump, h, bind, Except.bind, pure, Except.pure]

theorem rt_defineBitmap (T : Tables) (r : Bool) :
    loadStmt T (dumpStmt (.defineBitmap r)) = .ok (.defineBitmap r) := by
  simp only [dumpStmt]; rw [loadStmt_coder]
  simp [loadCoderCall, get_args, get_withD, JV.asArr, JV.asBool, orOther, bind, Except.bind, pure, Except.pure]

theorem rt_state (T : Tables) (m : StateMethod) : loadStmt T (dumpStmt (.state m)) = .ok (.state m) := by
  simp only [dumpStmt]
  unfold methodDict
  simp only [loadStmt]
  simp [JV.get, List.find?, JV.asStr, ofName_name]

theorem rt_inc (T : Tables) : loadStmt T (dumpStmt .inc031031) = .ok .inc031031 := by
  simp only [dumpStmt, loadStmt]
  simp [JV.get, List.find?, JV.asStr]

theorem rt_reset (T : Tables) : loadStmt T (dumpStmt .reset031031) = .ok .reset031031 := by
  simp only [dumpStmt, loadStmt]
  simp [JV.get, List.find?, JV.asStr]

theorem rt_loop (T : Tables) (rep : Repeat) (body : List Stmt) (h : loadList T (dumpList body) = .ok body) :
    loadStmt T (dumpStmt (.loop rep body)) = .ok (.loop rep body) := by
  simp only [dumpStmt, loadStmt]
  cases rep with
  | fixed n => simp [JV.get, List.find?, JV.asStr, h, jnatv]
  | factor => simp [JV.get, List.find?, JV.asStr, h, methodDict]


mutual
theorem loadStmt_dump (T : Tables) : ∀ (x : Stmt), WFStmt T x → loadStmt T (dumpStmt x) = .ok x
  | .numeric dd a b c, h => rt_numeric T dd a b c (by simpa only [WFStmt] using h)
  | .numericNewRef dd a b c, h => rt_numericNewRef T dd a b c (by simpa only [WFStmt] using h)
  | .string dd n, h => rt_string T dd n (by simpa only [WFStmt] using h)
  | .codeflag dd n, h => rt_codeflag T dd n (by simpa only [WFStmt] using h)
  | .newRefval e n, h => rt_newRefval T e n (by simpa only [WFStmt] using h)
  | .constant dd v, h => rt_constant T dd v (by simpa only [WFStmt] using h)
  | .bitmapped o sp, h => rt_bitmapped T o sp (by simpa only [WFStmt] using h)
  | .defineBitmap r, _ => rt_defineBitmap T r
  | .state m, _ => rt_state T m
  | .inc031031, _ => rt_inc T
  | .reset031031, _ => rt_reset T
  | .loop rep body, h => rt_loop T rep body (loadList_dump T body (by simpa only [WFStmt] using h))
theorem loadList_dump (T : Tables) : ∀ (xs : List Stmt), WFList T xs → loadList T (dumpList xs) = .ok xs
  | [], _ => rfl
  | x :: xs, h => by
    simp only [WFList] at h
    simp only [dumpList, loadList, loadStmt_dump T x h.1, loadList_dump T xs h.2]
end

theorem load_dump (T : Tables) (prog : List Stmt) (h : WFList T prog) : load T (dump prog) = .ok prog := by
  simp [load, dump, JV.get, List.find?, JV.asStr, JV.asArr, loadList_dump T prog h]

/-! ### compiled programs are well formed -/

theorem wfList_append (T : Tables) (p q : List Stmt) : WFList T (p ++ q) ↔ WFList T p ∧ WFList T q := by
  induction p with
  | nil => simp [WFList]
  | cons x xs ih => simp only [List.cons_append, WFList, ih, and_assoc]

/-- every Table B element of the template is the entry of `T` under its own id -/
def elemOk (T : Tables) (e : Elem) : Prop := e.id < 100000 ∧ T.b e.id = some e

mutual
def TWF (T : Tables) : Desc → Prop
  | .elem e => elemOk T e
  | .fixedRep _ ms => TWFL T ms
  | .delayedRep _ f ms => TWF T f ∧ TWFL T ms
  | .seq _ ms => TWFL T ms
  | .undefElem _ => True
  | .undefSeq _ => True
  | .op _ => True
def TWFL (T : Tables) : List Desc → Prop
  | [] => True
  | d :: ds => TWF T d ∧ TWFL T ds
end

end Bufr.C08D
