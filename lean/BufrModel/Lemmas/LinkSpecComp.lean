/-
  C07: the primitives of compressed data record (`Rec`): decoder (the values of the first subset, from which
  the bit-maps are taken) and encoder.
-/
import BufrModel.Lemmas.LinkSpecEnc
import BufrModel.Lemmas.CompFactors
namespace Bufr.C07
open Bufr.Spec

/-! ### a compressed column has one entry per subset -/

theorem readDiffs_length (nd m : Nat) : ∀ (n : Nat) (bs : Bits) (ds : List (Option Nat)) (r : Bits),
    readDiffs nd m n bs = .ok (ds, r) → ds.length = n := by
  intro n
  induction n with
  | zero => intro bs ds r h; simp only [readDiffs] at h; injection h with h; injection h with h1 _; subst h1; rfl
  | succ n ih =>
    intro bs ds r h
    simp only [readDiffs] at h
    cases h1 : readDiff nd bs with
    | error e => simp [h1] at h
    | ok p =>
      obtain ⟨d, r1⟩ := p
      simp only [h1] at h
      cases h2 : readDiffs nd m n r1 with
      | error e => simp [h2] at h
      | ok q =>
        obtain ⟨ds', r2⟩ := q
        simp only [h2] at h
        injection h with h; injection h with h3 _; subst h3
        simp [ih r1 ds' r2 h2]

theorem readColumn_length (w n : Nat) (bs : Bits) (col : List (Option Nat)) (r : Bits)
    (h : readColumn w n bs = .ok (col, r)) : col.length = n := by
  unfold readColumn at h
  cases h1 : readUIntOrNone w bs with
  | error e => simp [h1] at h
  | ok p =>
    obtain ⟨mn, r1⟩ := p
    simp only [h1] at h
    cases h2 : readUInt 6 r1 with
    | error e => simp [h2] at h
    | ok q =>
      obtain ⟨nd, r2⟩ := q
      simp only [h2] at h
      cases mn with
      | none =>
        simp only at h
        split at h
        · cases h
        · injection h with h; injection h with h3 _; subst h3; simp
      | some m =>
        simp only at h
        split at h
        · injection h with h; injection h with h3 _; subst h3; simp
        · exact readDiffs_length nd m n r2 col r h

theorem readStrings_length (nd : Nat) (base : List UInt8) : ∀ (n : Nat) (bs : Bits) (ds : List (List UInt8)) (r : Bits),
    readStrings nd base n bs = .ok (ds, r) → ds.length = n := by
  intro n
  induction n with
  | zero => intro bs ds r h; simp only [readStrings] at h; injection h with h; injection h with h1 _; subst h1; rfl
  | succ n ih =>
    intro bs ds r h
    simp only [readStrings] at h
    cases h1 : readBytes nd bs with
    | error e => simp [h1] at h
    | ok p =>
      obtain ⟨d, r1⟩ := p
      simp only [h1] at h
      cases h2 : readStrings nd base n r1 with
      | error e => simp [h2] at h
      | ok q =>
        obtain ⟨ds', r2⟩ := q
        simp only [h2] at h
        injection h with h; injection h with h3 _; subst h3
        simp [ih r1 ds' r2 h2]

theorem readStringColumn_length (k n : Nat) (bs : Bits) (col : List (List UInt8)) (r : Bits)
    (h : readStringColumn k n bs = .ok (col, r)) : col.length = n := by
  unfold readStringColumn at h
  cases h1 : readBytes k bs with
  | error e => simp [h1] at h
  | ok p =>
    obtain ⟨mn, r1⟩ := p
    simp only [h1] at h
    cases h2 : readUInt 6 r1 with
    | error e => simp [h2] at h
    | ok q =>
      obtain ⟨nd, r2⟩ := q
      simp only [h2] at h
      split at h
      · injection h with h; injection h with h3 _; subst h3; simp
      · exact readStrings_length nd _ n r2 col r h

/-! ### the decoder of compressed data -/

theorem decV_pushCol (s : St) (dd : DDesc) (col : List Val) (b : Bits) (hc : col.length = s.vals.length) :
    (∃ v, decV ({ (s.pushDesc dd) with bits := b }.pushCol col) = decV s ++ [v]) ∧
    ({ (s.pushDesc dd) with bits := b }.pushCol col).vals.length = s.vals.length := by
  unfold decV St.pushCol St.pushDesc
  cases hv : s.vals with
  | nil =>
    rw [hv] at hc
    have : col = [] := List.length_eq_zero_iff.mp hc
    subst this
    exact ⟨⟨.missing, by simp [List.replicate_succ']⟩, by simp⟩
  | cons l r =>
    rw [hv] at hc
    cases col with
    | nil => simp at hc
    | cons c cs =>
      simp only [List.length_cons, Nat.add_right_cancel_iff] at hc
      exact ⟨⟨c, by simp⟩, by simp [hc]⟩

theorem decNumericC_push (dd : DDesc) (n sc r : Int) (s s' : St) (h : decNumericC dd n sc r s = .ok s') :
    ∃ col b, col.length = s.vals.length ∧ s' = { (s.pushDesc dd) with bits := b }.pushCol col := by
  unfold decNumericC at h
  cases hw : natWidth n with
  | error e => simp [hw, bind, Except.bind] at h
  | ok w =>
    simp only [hw, bind, Except.bind] at h
    split at h
    · cases h
    · next x hx =>
      obtain ⟨col, s1⟩ := x
      simp only [pure, Except.pure] at h
      injection h with h
      unfold St.read at hx
      split at hx
      · cases hx
      · next a rest hr =>
        injection hx with hx; injection hx with h1 h2
        subst h1; subst h2; subst h
        exact ⟨_, rest, by rw [List.length_map]; exact readColumn_length _ _ _ _ _ hr, rfl⟩

theorem decCodeflagC_push (dd : DDesc) (n : Nat) (s s' : St) (h : decCodeflagC dd n s = .ok s') :
    ∃ col b, col.length = s.vals.length ∧ s' = { (s.pushDesc dd) with bits := b }.pushCol col := by
  unfold decCodeflagC at h
  simp only [bind, Except.bind] at h
  split at h
  · cases h
  · next x hx =>
    obtain ⟨col, s1⟩ := x
    simp only [pure, Except.pure] at h
    injection h with h
    unfold St.read at hx
    split at hx
    · cases hx
    · next a rest hr =>
      injection hx with hx; injection hx with h1 h2
      subst h1; subst h2; subst h
      exact ⟨_, rest, by rw [List.length_map]; exact readColumn_length _ _ _ _ _ hr, rfl⟩

theorem decStringC_push (dd : DDesc) (n : Nat) (s s' : St) (h : decStringC dd n s = .ok s') :
    ∃ col b, col.length = s.vals.length ∧ s' = { (s.pushDesc dd) with bits := b }.pushCol col := by
  unfold decStringC at h
  simp only [bind, Except.bind] at h
  split at h
  · cases h
  · next x hx =>
    obtain ⟨col, s1⟩ := x
    simp only [pure, Except.pure] at h
    injection h with h
    unfold St.read at hx
    split at hx
    · cases hx
    · next a rest hr =>
      injection hx with hx; injection hx with h1 h2
      subst h1; subst h2; subst h
      exact ⟨_, rest, by rw [List.length_map]; exact readStringColumn_length _ _ _ _ _ hr, rfl⟩

theorem decNewRefvalC_shape (e : Elem) (n : Nat) (s s' : St) (h : decNewRefvalC e n s = .ok s') :
    ∃ b v, s' = setNewRefval ({ (s.pushDesc (.plain e)) with bits := b }.pushAll (.int v)) e.id v := by
  simp only [decNewRefvalC, bind, Except.bind, pure, Except.pure] at h
  cases hr : (s.pushDesc (.plain e)).read (readInt n) with
  | error err => simp [hr] at h
  | ok p =>
    obtain ⟨v, s1⟩ := p
    simp only [hr] at h
    cases hr2 : s1.read (readUInt 6) with
    | error err => simp [hr2] at h
    | ok p2 =>
      obtain ⟨nd, s2⟩ := p2
      simp only [hr2] at h
      split at h
      · cases h
      · injection h with h; subst h
        obtain ⟨b1, rfl⟩ := read_shape _ _ _ _ hr
        obtain ⟨b2, rfl⟩ := read_shape _ _ _ _ hr2
        exact ⟨b2, v, rfl⟩

theorem decPrimsC_rec : Rec decPrimsC decV (fun _ => True) where
  quiet := decPrimsC_quiet
  numeric := fun dd n sc r s s' h => by
    obtain ⟨col, b, hc, rfl⟩ := decNumericC_push dd n sc r s s' h
    exact (decV_pushCol s dd col b hc).1
  string := fun dd n s s' h => by
    obtain ⟨col, b, hc, rfl⟩ := decStringC_push dd n s s' h
    exact (decV_pushCol s dd col b hc).1
  codeflag := fun dd n s s' h => by
    obtain ⟨col, b, hc, rfl⟩ := decCodeflagC_push dd n s s' h
    exact (decV_pushCol s dd col b hc).1
  constant := decPrimsU_rec.constant
  newRefval := fun e n s s' h => by
    obtain ⟨b, v, rfl⟩ := decNewRefvalC_shape e n s s' h
    exact ⟨rfl, _, decV_pushAll s (.plain e) _ b⟩
  lastValues := fun k s l h hk hl ht => decLastValues_spec k s l (decLastValuesC_ok h).1 hk hl ht
  numericL := fun dd n sc r s s' h => by
    obtain ⟨col, b, hc, rfl⟩ := decNumericC_push dd n sc r s s' h
    exact (decV_pushCol s dd col b hc).2
  stringL := fun dd n s s' h => by
    obtain ⟨col, b, hc, rfl⟩ := decStringC_push dd n s s' h
    exact (decV_pushCol s dd col b hc).2
  codeflagL := fun dd n s s' h => by
    obtain ⟨col, b, hc, rfl⟩ := decCodeflagC_push dd n s s' h
    exact (decV_pushCol s dd col b hc).2
  constantL := decPrimsU_rec.constantL
  newRefvalL := fun e n s s' h => by
    obtain ⟨b, v, rfl⟩ := decNewRefvalC_shape e n s s' h
    simp [St.pushAll, St.pushDesc, setNewRefval, St.setRegs]
  setRegs := decV_setRegs
  addLink := decV_addLink
  numericX := fun _ _ _ _ _ _ _ _ => trivial
  stringX := fun _ _ _ _ _ _ => trivial
  codeflagX := fun _ _ _ _ _ _ => trivial
  constantX := fun _ _ _ _ _ _ => trivial
  newRefvalX := fun _ _ _ _ _ _ => trivial
  setRegsX := fun _ _ _ => trivial
  addLinkX := fun _ _ _ => trivial

/-! ### the encoder of compressed data -/

theorem nextCol_shape (dd : DDesc) (s : St) (c : Col) (s1 : St) (h : nextCol dd s = .ok (c, s1)) :
    s1 = { (s.pushDesc dd) with idx := s.idx + 1 } ∧ ∃ v, (curVals s)[s.idx]? = some v := by
  unfold nextCol at h
  simp only [bind, Except.bind, pure, Except.pure] at h
  cases hm : (s.pushDesc dd).vals.mapM (fun l => nthVal l (s.pushDesc dd).idx) with
  | error e => simp [hm] at h
  | ok values =>
    simp only [hm] at h
    cases values with
    | nil => simp at h
    | cons v0 vs =>
      simp only at h
      injection h with h
      injection h with _ h2
      refine ⟨h2.symm, v0, ?_⟩
      have hv : (s.pushDesc dd).vals = s.vals := rfl
      have hi : (s.pushDesc dd).idx = s.idx := rfl
      rw [hv, hi] at hm
      unfold curVals
      cases hs : s.vals with
      | nil => rw [hs] at hm; simp [List.mapM_nil, pure, Except.pure] at hm
      | cons l r =>
        rw [hs] at hm
        rw [List.mapM_cons] at hm
        simp only [bind, Except.bind, pure, Except.pure] at hm
        cases hn : nthVal l s.idx with
        | error e => simp [hn] at hm
        | ok w =>
          simp only [hn] at hm
          cases hr : r.mapM (fun l => nthVal l s.idx) with
          | error e => simp [hr] at hm
          | ok ws =>
            simp only [hr] at hm
            injection hm with hm
            injection hm with hm1 _
            subst hm1
            exact nthVal_some _ _ _ hn

theorem encStepC_of {s s1 s' : St} {dd : DDesc} {c : Col} (h1 : nextCol dd s = .ok (c, s1))
    (h2 : ∃ b, s' = { s1 with bits := b }) : ∃ v, EncStep s s' dd v ∧ s'.regs = s.regs := by
  obtain ⟨e1, v, hv⟩ := nextCol_shape _ _ _ _ h1
  obtain ⟨b, e2⟩ := h2
  subst e2; subst e1
  exact ⟨v, ⟨rfl, rfl, rfl, rfl, hv⟩, rfl⟩

theorem encNumericC_step (dd : DDesc) (n sc r : Int) (s s' : St) (h : encNumericC dd n sc r s = .ok s') :
    ∃ v, EncStep s s' dd v ∧ s'.regs = s.regs := by
  unfold encNumericC at h
  simp only [bind, Except.bind] at h
  cases h1 : nextCol dd s with
  | error e => simp [h1] at h
  | ok p =>
    obtain ⟨c, s1⟩ := p
    simp only [h1] at h
    cases hw : natWidth n with
    | error e => simp [hw] at h
    | ok w =>
      simp only [hw] at h
      split at h
      · cases h
      · exact encStepC_of h1 (write_shape _ _ _ h)

theorem encCodeflagC_step (dd : DDesc) (n : Nat) (s s' : St) (h : encCodeflagC dd n s = .ok s') :
    ∃ v, EncStep s s' dd v ∧ s'.regs = s.regs := by
  unfold encCodeflagC at h
  simp only [bind, Except.bind] at h
  cases h1 : nextCol dd s with
  | error e => simp [h1] at h
  | ok p =>
    obtain ⟨c, s1⟩ := p
    simp only [h1] at h
    split at h
    · cases h
    · exact encStepC_of h1 (write_shape _ _ _ h)

theorem encStringC_step (dd : DDesc) (n : Nat) (s s' : St) (h : encStringC dd n s = .ok s') :
    ∃ v, EncStep s s' dd v ∧ s'.regs = s.regs := by
  unfold encStringC at h
  simp only [bind, Except.bind] at h
  cases h1 : nextCol dd s with
  | error e => simp [h1] at h
  | ok p =>
    obtain ⟨c, s1⟩ := p
    simp only [h1] at h
    split at h
    · cases h
    · exact encStepC_of h1 (write_shape _ _ _ h)

theorem encConstantC_step (dd : DDesc) (c : Int) (s s' : St) (h : encConstantC dd c s = .ok s') :
    ∃ v, EncStep s s' dd v ∧ s'.regs = s.regs := by
  unfold encConstantC at h
  simp only [bind, Except.bind, pure, Except.pure] at h
  cases h1 : nextCol dd s with
  | error e => simp [h1] at h
  | ok p =>
    obtain ⟨col, s1⟩ := p
    simp only [h1] at h
    split at h
    · injection h with h; subst h
      exact encStepC_of h1 ⟨s1.bits, rfl⟩
    · cases h

theorem encNewRefvalC_step (e : Elem) (n : Nat) (s s' : St) (h : encNewRefvalC e n s = .ok s') :
    ∃ v, EncStep s s' (.plain e) v := by
  unfold encNewRefvalC at h
  simp only [bind, Except.bind] at h
  cases h1 : nextCol (.plain e) s with
  | error err => simp [h1] at h
  | ok p =>
    obtain ⟨c, s1⟩ := p
    simp only [h1] at h
    obtain ⟨e1, v, hv⟩ := nextCol_shape _ _ _ _ h1
    split at h
    · cases h
    · split at h
      · next i _ =>
        cases hw : (setNewRefval s1 e.id i).write (fieldInt i n) with
        | error err => simp [hw] at h
        | ok s2 =>
          simp only [hw] at h
          obtain ⟨b1, e2⟩ := write_shape _ _ _ hw
          obtain ⟨b2, e3⟩ := write_shape _ _ _ h
          subst e3; subst e2; subst e1
          exact ⟨v, rfl, rfl, rfl, rfl, hv⟩
      · cases h

theorem encPrimsC_quiet : Quiet encPrimsC where
  numeric := fun dd n sc r s s' h => let ⟨_, a, b⟩ := encNumericC_step dd n sc r s s' h; same_of_step a b
  string := fun dd n s s' h => let ⟨_, a, b⟩ := encStringC_step dd n s s' h; same_of_step a b
  codeflag := fun dd n s s' h => let ⟨_, a, b⟩ := encCodeflagC_step dd n s s' h; same_of_step a b
  constant := fun dd c s s' h => let ⟨_, a, b⟩ := encConstantC_step dd c s s' h; same_of_step a b

theorem encPrimsC_rec (vs : List Val) : Rec encPrimsC encV (encXv vs) where
  quiet := encPrimsC_quiet
  numeric := fun dd n sc r s s' h => let ⟨v, a, _⟩ := encNumericC_step dd n sc r s s' h; ⟨v, a.encV⟩
  string := fun dd n s s' h => let ⟨v, a, _⟩ := encStringC_step dd n s s' h; ⟨v, a.encV⟩
  codeflag := fun dd n s s' h => let ⟨v, a, _⟩ := encCodeflagC_step dd n s s' h; ⟨v, a.encV⟩
  constant := fun dd c s s' h => let ⟨v, a, _⟩ := encConstantC_step dd c s s' h; ⟨v, a.encV⟩
  newRefval := fun e n s s' h => let ⟨v, a⟩ := encNewRefvalC_step e n s s' h; ⟨a.descs, v, a.encV⟩
  lastValues := fun k s l h hk hl hx => encLastValues_spec k s l (encLastValuesC_ok h).1 hk hl vs hx
  numericL := fun dd n sc r s s' h => let ⟨_, a, _⟩ := encNumericC_step dd n sc r s s' h; by rw [a.vals]
  stringL := fun dd n s s' h => let ⟨_, a, _⟩ := encStringC_step dd n s s' h; by rw [a.vals]
  codeflagL := fun dd n s s' h => let ⟨_, a, _⟩ := encCodeflagC_step dd n s s' h; by rw [a.vals]
  constantL := fun dd c s s' h => let ⟨_, a, _⟩ := encConstantC_step dd c s s' h; by rw [a.vals]
  newRefvalL := fun e n s s' h => let ⟨_, a⟩ := encNewRefvalC_step e n s s' h; by rw [a.vals]
  numericX := fun dd n sc r s s' h => let ⟨_, a, _⟩ := encNumericC_step dd n sc r s s' h; a.encXv vs
  stringX := fun dd n s s' h => let ⟨_, a, _⟩ := encStringC_step dd n s s' h; a.encXv vs
  codeflagX := fun dd n s s' h => let ⟨_, a, _⟩ := encCodeflagC_step dd n s s' h; a.encXv vs
  constantX := fun dd c s s' h => let ⟨_, a, _⟩ := encConstantC_step dd c s s' h; a.encXv vs
  newRefvalX := fun e n s s' h => let ⟨_, a⟩ := encNewRefvalC_step e n s s' h; a.encXv vs
  setRegs := encV_setRegs
  addLink := encV_addLink
  setRegsX := fun _ _ x => x
  addLinkX := fun _ _ x => x

end Bufr.C07
