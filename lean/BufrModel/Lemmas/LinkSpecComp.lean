/-
  C07: the primitives of compressed data record (`Rec`): decoder (the values of the first subset, from which
  the bit-maps are taken) and encoder.
-/
import BufrModel.Lemmas.LinkSpecEnc
namespace Bufr.C07
open Bufr.Spec

/-! ### a compressed column has one entry per subset -/

theorem readDiffs_length (nd m : Nat) : ∀ (n : Nat) (bs : Bits) (ds : List (Option Nat)) (r : Bits),
    readDiffs nd m n bs = .ok (ds, r) → ds.length = n := by
  intro n
  induction n with
  | zero => intro bs ds r h; simp only [readDiffs] at h; injection h with h; injection h with h1 _; subst h1; rfl
  | succ n ih =>
    intro bs ds r h
    simp only [readDiffs] at h
    cases h1 : readDiff nd bs with
    | error e => simp [h1] at h
    | ok p =>
      obtain ⟨d, r1⟩ := p
      simp only [h1] at h
      cases h2 : readDiffs nd m n r1 with
      | error e => simp [h2] at h
      | ok q =>
        obtain ⟨ds', r2⟩ := q
        simp only [h2] at h
        injection h with h; injection h with h3 _; subst h3
        simp [ih r1 ds' r2 h2]

theorem readColumn_length (w n : Nat) (bs : Bits) (col : List (Option Nat)) (r : Bits)
    (h : readColumn w n bs = .ok (col, r)) : col.length = n := by
  unfold readColumn at h
  cases h1 : readUIntOrNone w bs with
  | error e => simp [h1] at h
  | ok p =>
    obtain ⟨mn, r1⟩ := p
    simp only [h1] at h
    cases h2 : readUInt 6 r1 with
    | error e => simp [h2] at h
    | ok q =>
      obtain ⟨nd, r2⟩ := q
      simp only [h2] at h
      cases mn with
      | none =>
        simp only at h
        split at h
        · cases h
        · injection h with h; injection h with h3 _; subst h3; simp
      | some m =>
        simp only at h
        split at h
        · injection h with h; injection h with h3 _; subst h3; simp
        · exact readDiffs_length nd m n r2 col r h

theorem readStrings_length (nd : Nat) (base : List UInt8) : ∀ (n : Nat) (bs : Bits) (ds : List (List UInt8)) (r : Bits),
    readStrings nd base n bs = .ok (ds, r) → ds.length = n := by
  intro n
  induction n with
  | zero => intro bs ds r h; simp only [readStrings] at h; injection h with h; injection h with h1 _; subst h1; rfl
  | succ n ih =>
    intro bs ds r h
    simp only [readStrings] at h
    cases h1 : readBytes nd bs with
    | error e => simp [h1] at h
    | ok p =>
      obtain ⟨d, r1⟩ := p
      simp only [h1] at h
      cases h2 : readStrings nd base n r1 with
      | error e => simp [h2] at h
      | ok q =>
        obtain ⟨ds', r2⟩ := q
        simp only [h2] at h
        injection h with h; injection h with h3 _; subst h3
        simp [ih r1 ds' r2 h2]

theorem readStringColumn_length (k n : Nat) (bs : Bits) (col : List (List UInt8)) (r : Bits)
    (h : readStringColumn k n bs = .ok (col, r)) : col.length = n := by
  unfold readStringColumn at h
  cases h1 : readBytes k bs with
  | error e => simp [h1] at h
  | ok p =>
    obtain ⟨mn, r1⟩ := p
    simp only [h1] at h
    cases h2 : readUInt 6 r1 with
    | error e => simp [h2] at h
    | ok q =>
      obtain ⟨nd, r2⟩ := q
      simp only [h2] at h
      split at h
      · injection h with h; injection h with h3 _; subst h3; simp
      · exact readStrings_length nd _ n r2 col r h

/-! ### the decoder of compressed data -/

theorem decV_pushCol (s : St) (dd : DDesc) (col : List Val) (b : Bits) (hc : col.length = s.vals.length) :
    (∃ v, decV ({ (s.pushDesc dd) with bits := b }.pushCol col) = decV s ++ [v]) ∧
    ({ (s.pushDesc dd) with bits := b }.pushCol col).vals.length = s.vals.length := by
  unfold decV St.pushCol St.pushDesc
  cases hv : s.vals with
  | nil =>
    rw [hv] at hc
    have : col = [] := List.length_eq_zero_iff.mp hc
    subst this
    exact ⟨⟨.missing, by simp [List.replicate_succ']⟩, by simp⟩
  | cons l r =>
    rw [hv] at hc
    cases col with
    | nil => simp at hc
    | cons c cs =>
      simp only [List.length_cons, Nat.add_right_cancel_iff] at hc
      exact ⟨⟨c, by simp⟩, by simp [hc]⟩

theorem decNumericC_push (dd : DDesc) (n sc r : Int) (s s' : St) (h : decNumericC dd n sc r s = .ok s') :
    ∃ col b, col.length = s.vals.length ∧ s' = { (s.pushDesc dd) with bits := b }.pushCol col := by
  unfold decNumericC at h
  cases hw : natWidth n with
  | error e => simp [hw, bind, Except.bind] at h
  | ok w =>
    simp only [hw, bind, Except.bind] at h
    split at h
    · cases h
    · next x hx =>
      obtain ⟨col, s1⟩ := x
      simp only [pure, Except.pure] at h
      injection h with h
      unfold St.read at hx
      split at hx
      · cases hx
      · next a rest hr =>
        injection hx with hx; injection hx with h1 h2
        subst h1; subst h2; subst h
        exact ⟨_, rest, by rw [List.length_map]; exact readColumn_length _ _ _ _ _ hr, rfl⟩

theorem decCodeflagC_push (dd : DDesc) (n : Nat) (s s' : St) (h : decCodeflagC dd n s = .ok s') :
    ∃ col b, col.length = s.vals.length ∧ s' = { (s.pushDesc dd) with bits := b }.pushCol col := by
  unfold decCodeflagC at h
  simp only [bind, Except.bind] at h
  split at h
  · cases h
  · next x hx =>
    obtain ⟨col, s1⟩ := x
    simp only [pure, Except.pure] at h
    injection h with h
    unfold St.read at hx
    split at hx
    · cases hx
    · next a rest hr =>
      injection hx with hx; injection hx with h1 h2
      subst h1; subst h2; subst h
      exact ⟨_, rest, by rw [List.length_map]; exact readColumn_length _ _ _ _ _ hr, rfl⟩

theorem decStringC_push (dd : DDesc) (n : Nat) (s s' : St) (h : decStringC dd n s = .ok s') :
    ∃ col b, col.length = s.vals.length ∧ s' = { (s.pushDesc dd) with bits := b }.pushCol col := by
  unfold decStringC at h
  simp only [bind, Except.bind] at h
  split at h
  · cases h
  · next x hx =>
    obtain ⟨col, s1⟩ := x
    simp only [pure, Except.pure] at h
    injection h with h
    unfold St.read at hx
    split at hx
    · cases hx
    · next a rest hr =>
      injection hx with hx; injection hx with h1 h2
      subst h1; subst h2; subst h
      exact ⟨_, rest, by rw [List.length_map]; exact readStringColumn_length _ _ _ _ _ hr, rfl⟩

theorem decNewRefvalC_shape (e : Elem) (n : Nat) (s s' : St) (h : decNewRefvalC e n s = .ok s') :
    ∃ b v, s' = setNewRefval ({ (s.pushDesc (.plain e)) with bits := b }.pushAll (.int v)) e.id v := by
  simp only [decNewRefvalC, bind, Except.bind, pure, Except.pure] at h
  cases hr : (s.pushDesc (.plain e)).read (readInt n) with
  | error err => simp [hr] at h
  | ok p =>
    obtain ⟨v, s1⟩ := p
    simp only [hr] at h
    cases hr2 : s1.read (readUInt 6) with
    | error err => simp [hr2] at h
    | ok p2 =>
      obtain ⟨nd, s2⟩ := p2
      simp only [hr2] at h
      split at h
      · cases h
      · injection h with h; subst h
        obtain ⟨b1, rfl⟩ := read_shape _ _ _ _ hr
        obtain ⟨b2, rfl⟩ := read_shape _ _ _ _ hr2
        exact ⟨b2, v, rfl⟩

theorem decPrimsC_rec : Rec decPrimsC decV (fun _ => True) where
  quiet := decPrimsC_quiet
  numeric := fun dd n sc r s s' h => by
    obtain ⟨col, b, hc, rfl⟩ := decNumericC_push dd n sc r s s' h
    exact (decV_pushCol s dd col b hc).1
  string := fun dd n s s' h => by
    obtain ⟨col, b, hc, rfl⟩ := decStringC_push dd n s s' h
    exact (decV_pushCol s dd col b hc).1
  codeflag := fun dd n s s' h => by
    obtain ⟨col, b, hc, rfl⟩ := decCodeflagC_push dd n s s' h
    exact (decV_pushCol s dd col b hc).1
  constant := decPrimsU_rec.constant
  newRefval := fun e n s s' h => by
    obtain ⟨b, v, rfl⟩ := decNewRefvalC_shape e n s s' h
    exact ⟨rfl, _, decV_pushAll s (.plain e) _ b⟩
  lastValues := decLastValues_spec
  numericL := fun dd n sc r s s' h => by
    obtain ⟨col, b, hc, rfl⟩ := decNumericC_push dd n sc r s s' h
    exact (decV_pushCol s dd col b hc).2
  stringL := fun dd n s s' h => by
    obtain ⟨col, b, hc, rfl⟩ := decStringC_push dd n s s' h
    exact (decV_pushCol s dd col b hc).2
  codeflagL := fun dd n s s' h => by
    obtain ⟨col, b, hc, rfl⟩ := decCodeflagC_push dd n s s' h
    exact (decV_pushCol s dd col b hc).2
  constantL := decPrimsU_rec.constantL
  newRefvalL := fun e n s s' h => by
    obtain ⟨b, v, rfl⟩ := decNewRefvalC_shape e n s s' h
    simp [St.pushAll, St.pushDesc, setNewRefval, St.setRegs]
  setRegs := decV_setRegs
  addLink := decV_addLink
  numericX := fun _ _ _ _ _ _ _ _ => trivial
  stringX := fun _ _ _ _ _ _ => trivial
  codeflagX := fun _ _ _ _ _ _ => trivial
  constantX := fun _ _ _ _ _ _ => trivial
  newRefvalX := fun _ _ _ _ _ _ => trivial
  setRegsX := fun _ _ _ => trivial
  addLinkX := fun _ _ _ => trivial

end Bufr.C07
