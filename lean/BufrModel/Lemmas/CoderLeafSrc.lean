/-
  The non-recursive methods of the walk instantiated with the GENERATED `process_element_descriptor`,
  `process_operator_descriptor`, `process_bitmap_definition` (`Gen/PyCoder.lean`): they satisfy the fields `element`,
  `operator`, `bitmapDef` of `LeafCorr` (`Lemmas/CoderCapstoneSrc.lean`) for descriptor objects with non-negative id and
  width (`LeafG`), given that the abstract methods they call correspond to the primitives of the model.
-/
import BufrModel.Lemmas.CoderCapstoneSrc
set_option linter.unusedSimpArgs false
set_option linter.unusedVariables false
namespace Bufr
open PyGen.coder
open Bufr.C08 (wDispatch)

variable {V B : Type}

/-- what the per-method theorems need of a descriptor object: id and width non-negative -/
def LeafG : Descr → Prop
  | .ElementDescriptor id _ _ _ nbits => 0 ≤ id ∧ 0 ≤ nbits
  | d => 0 ≤ Descr.id d

/-- an element descriptor object as `process_element_descriptor` sees it -/
def elemView : Descr → ElementDescriptor.Self
  | .ElementDescriptor id unit scale refval nbits =>
    ⟨id, Descr.X (.ElementDescriptor id unit scale refval nbits), unit, nbits, scale, refval⟩
  | d => ⟨Descr.id d, Descr.X d, [], 0, 0, 0⟩

/-- an operator descriptor object as `process_operator_descriptor` sees it -/
def opView (m : Descr) : OperatorDescriptor.Self := opdOf (Descr.id m).toNat

theorem leaf_element (φ : Descr → Elem) (A : PyData Descr V → B → StData → Prop) (hA : LinkClosed A)
    (cbE : Coder.process_element_descriptor.Callbacks Descr V B) (P : Prims)
    (hcb : ∀ d, CbCorrE φ A cbE P (.plain (elemOf d)) d)
    (ps : CoderState.Self Descr V) (b : B) (s : St) (m : Descr) (hg : LeafG m) (h : AbsSt φ A ps b s)
    (ht : Descr.tag m = .ElementDescriptor) :
    Corr φ A (Coder.process_element_descriptor cbE ps b (elemView m)) (wDispatch P (descOf m) s) := by
  cases m <;> simp [Descr.tag] at ht
  rename_i id u sc r n
  simp only [LeafG] at hg
  have := elem_core φ A hA cbE P (.plain (elemOf (elemView (.ElementDescriptor id u sc r n)))) (elemView (.ElementDescriptor id u sc r n))
    (hcb _) hg.1 (descrX_elem id u sc r n hg.1) hg.2 ps b s h
  exact this

theorem leaf_operator (φ : Descr → Elem) (A : PyData Descr V → B → StData → Prop)
    (cbO : Coder.process_operator_descriptor.Callbacks Descr V B) (P : Prims) (hcb : CbCorr φ A cbO P)
    (ps : CoderState.Self Descr V) (b : B) (s : St) (m : Descr) (hg : LeafG m) (h : AbsSt φ A ps b s)
    (ht : Descr.tag m = .OperatorDescriptor) :
    Corr φ A (Coder.process_operator_descriptor cbO ps b (opView m)) (wDispatch P (descOf m) s) := by
  cases m <;> simp [Descr.tag] at ht
  rename_i id
  exact opd_core φ A cbO P hcb id.toNat (opdOf id.toNat) rfl (opdOf_code _) (opdOf_operand _) ps b s h

theorem leaf_bitmapDef (φ : Descr → Elem) (A : PyData Descr V → B → StData → Prop)
    (cbB : Coder.process_bitmap_definition.Callbacks Descr V B) (P : Prims) (hdef : DefineCorr φ A cbB P)
    (ps : CoderState.Self Descr V) (b : B) (s : St) (m : Descr) (hg : 0 ≤ Descr.id m) (h : AbsSt φ A ps b s) :
    Corr φ A (withBit b (Coder.process_bitmap_definition cbB ps b ⟨Descr.id m⟩)) (bitmapDefinition P (descOf m).id s) := by
  rw [descOf_id]
  exact bitmapdef_core φ A cbB P hdef ⟨Descr.id m⟩ (Descr.id m).toNat (by simp [Int.toNat_of_nonneg hg]) ps b s h

theorem leafG_id (m : Descr) (h : LeafG m) : 0 ≤ Descr.id m := by
  cases m <;> simp only [LeafG, Descr.id] at h ⊢ <;> first | exact h | exact h.1

/-- the non-recursive methods of the walk, with the GENERATED element / operator / bitmap-definition methods -/
def genLeaf (cbE : Coder.process_element_descriptor.Callbacks Descr V B)
    (cbO : Coder.process_operator_descriptor.Callbacks Descr V B)
    (cbB : Coder.process_bitmap_definition.Callbacks Descr V B)
    (defRef skip : PyStep V B) (getv : CoderState.Self Descr V → Except Py.Exc Int) : LeafCb V B where
  process_define_new_refval := defRef
  process_skipped_local_descriptor := skip
  process_bitmap_definition := fun ps b m => withBit b (Coder.process_bitmap_definition cbB ps b ⟨Descr.id m⟩)
  process_element_descriptor := fun ps b m => Coder.process_element_descriptor cbE ps b (elemView m)
  process_operator_descriptor := fun ps b m => Coder.process_operator_descriptor cbO ps b (opView m)
  get_value_for_delayed_replication_factor := getv

theorem genLeaf_corr (φ : Descr → Elem) (A : PyData Descr V → B → StData → Prop) (hA : LinkClosed A) (P : Prims)
    (cbE : Coder.process_element_descriptor.Callbacks Descr V B) (hE : ∀ d, CbCorrE φ A cbE P (.plain (elemOf d)) d)
    (cbO : Coder.process_operator_descriptor.Callbacks Descr V B) (hO : CbCorr φ A cbO P)
    (cbB : Coder.process_bitmap_definition.Callbacks Descr V B) (hB : DefineCorr φ A cbB P)
    (defRef skip : PyStep V B) (getv : CoderState.Self Descr V → Except Py.Exc Int)
    (hdef : ∀ ps b s m e, AbsSt φ A ps b s → descOf m = .elem e →
      Corr φ A (defRef ps b m) (if e.kind = .string then .error .lib else P.newRefval e s.regs.nbitsNewRefval s))
    (hskip : ∀ ps b s m, AbsSt φ A ps b s →
      Corr φ A (skip ps b m)
        (do let s' ← P.codeflag (.skipped (descOf m).id s.regs.nbitsSkipped) s.regs.nbitsSkipped s
            pure (s'.setRegs fun r => { r with nbitsSkipped := 0 })))
    (hval : ∀ ps b s, AbsSt φ A ps b s → ValCorr (getv ps) (P.factorValue s >>= factorCount)) :
    LeafCorr LeafG φ A (genLeaf cbE cbO cbB defRef skip getv) P where
  defineRefval := fun ps b s m e _ h he => hdef ps b s m e h he
  skipped := fun ps b s m _ h => hskip ps b s m h
  bitmapDef := fun ps b s m hg h => leaf_bitmapDef φ A cbB P hB ps b s m (leafG_id m hg) h
  element := fun ps b s m hg h ht => leaf_element φ A hA cbE P hE ps b s m hg h ht
  operator := fun ps b s m hg h ht => leaf_operator φ A cbO P hO ps b s m hg h ht
  value := hval

end Bufr
