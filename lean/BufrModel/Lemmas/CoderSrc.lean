/-
  The source tie of the coder state (`Gen/PyCoder.lean`, regenerated from `pybufrkit/coder.py` on every
  check, against `Coder/Regs.lean`, `Coder/Walk.lean`, `Coder/Process.lean`): the representation of the Python
  record `CoderState.Self` (one field per attribute of a `CoderState` object, Python types) by the model's
  register file `Regs`.

  * `regsOf φ ps`  — the explicit representation FUNCTION, field by field.  `φ` reads an element descriptor
    object (opaque in the generated code: a type parameter) as the model's `Elem`.
  * `WF ps`        — the Python record is in the range the code keeps it in: counters that the model holds as
    `Nat` are non-negative, the two status registers hold one of their tags, `bsr_modifier` is the triple
    `((10·Y+2)//3, Y, 10**Y)` of some `Y ≥ 0`.  Every translated method preserves it (proved with each theorem).
  * `Rep φ ps r`   — `ps` represents `r`: `WF ps`, and `r` is `regsOf φ ps` except that `new_refvals` (a `dict`,
    re-definition replaces the entry in place) and the model's association list (re-definition conses in front,
    `lookupRef` finds the first) are compared by what they look up, not as lists.

  Registers of the Python record without a counterpart in `Regs` (`bitmap`, `most_recent_bitmap_is_for_reuse`:
  written by 236000 / 237255, never read for a result — see `Coder/Regs.lean`) are left unconstrained.
-/
import BufrModel.Coder.Process
import BufrModel.Gen.PyCoder
set_option linter.unusedSimpArgs false
set_option linter.unusedVariables false
namespace Bufr
open PyGen.coder

variable {D V B : Type}

/-- the model state a QA tag of `coder.py` stands for (anything that is not a tag: `na`) -/
def qaOfTag (t : Int) : QaStatus :=
  if t = QA_INFO_WAITING then .waiting else if t = QA_INFO_PROCESSING then .processing else .na

/-- the model state a bitmap-definition tag of `coder.py` stands for -/
def bitmapDefOfTag (t : Int) : BitmapDef :=
  if t = BITMAP_INDICATOR then .indicator else if t = BITMAP_WAITING_FOR_BIT then .waiting
  else if t = BITMAP_BIT_COUNTING then .counting else .na

/-- `[(idx, descriptor), …]` of the Python state as the model holds it -/
def pairsOf (φ : D → Elem) (l : List (Int × D)) : List (Nat × Elem) := l.map fun p => (p.1.toNat, φ p.2)

/-- The representation function: the register file of the model that a Python `CoderState` stands for. -/
def regsOf (φ : D → Elem) (ps : CoderState.Self D V) : Regs where
  nbitsOffset := ps.nbits_offset
  scaleOffset := ps.scale_offset
  nbitsNewRefval := ps.nbits_of_new_refval.toNat
  newRefvals := ps.new_refvals.reverse.map fun p => (p.1.toNat, p.2)
  assocStack := ps.nbits_of_associated.map Int.toNat
  nbitsSkipped := ps.nbits_of_skipped_local_descriptor.toNat
  y207 := ps.bsr_modifier.scale_increment.toNat
  newNbytes := ps.new_nbytes.toNat
  dnpCount := ps.data_not_present_count.toNat
  qa := qaOfTag ps.status_qa_info_follows
  bitmapDef := bitmapDefOfTag ps.bitmap_definition_state
  n031031 := ps.n_031031.toNat
  bitmapped := ps.bitmapped_descriptors.map (pairsOf φ)
  bmIter := ps.next_bitmapped_descriptor.map (pairsOf φ)
  backBoundary := ps.back_reference_boundary.toNat
  backRefs := ps.back_referenced_descriptors.map (pairsOf φ)

/-- the triple `207YYY` installs for `Y = y` (`y = 0`: the neutral triple) -/
def bsrOf (y : Nat) : BSRModifier :=
  { nbits_increment := ((10 * y + 2) / 3 : Nat), scale_increment := (y : Nat), refval_factor := ((10 ^ y : Nat) : Int) }

/-- The Python record is in the range the code keeps it in. -/
def WF (ps : CoderState.Self D V) : Prop :=
  0 ≤ ps.nbits_of_new_refval ∧ (∀ x ∈ ps.nbits_of_associated, 0 ≤ x) ∧
  0 ≤ ps.nbits_of_skipped_local_descriptor ∧
  (0 ≤ ps.bsr_modifier.scale_increment ∧ ps.bsr_modifier = bsrOf ps.bsr_modifier.scale_increment.toNat) ∧
  0 ≤ ps.new_nbytes ∧ 0 ≤ ps.data_not_present_count ∧
  (ps.status_qa_info_follows = QA_INFO_NA ∨ ps.status_qa_info_follows = QA_INFO_WAITING ∨
    ps.status_qa_info_follows = QA_INFO_PROCESSING) ∧
  (ps.bitmap_definition_state = BITMAP_NA ∨ ps.bitmap_definition_state = BITMAP_INDICATOR ∨
    ps.bitmap_definition_state = BITMAP_WAITING_FOR_BIT ∨ ps.bitmap_definition_state = BITMAP_BIT_COUNTING) ∧
  0 ≤ ps.n_031031 ∧ 0 ≤ ps.back_reference_boundary

/-- the `dict` `new_refvals` and the model's association list look up the same -/
def RefRel (d : List (Int × Int)) (l : List (Nat × Int)) : Prop :=
  ∀ id : Nat, lookupRef l id = d.lookup (id : Int)

/-- `ps` represents the register file `r`. -/
def Rep (φ : D → Elem) (ps : CoderState.Self D V) (r : Regs) : Prop :=
  WF ps ∧ ∃ nr, r = { regsOf φ ps with newRefvals := nr } ∧ RefRel ps.new_refvals nr

theorem refRel_nil : RefRel [] [] := fun _ => rfl

theorem bsrOf_zero : bsrOf 0 = { nbits_increment := 0, scale_increment := 0, refval_factor := 1 } := rfl

/-- the attributes of a `CoderState` that are not registers of the template walk: the flat lists and their
    per-subset holders, the encoder's value index, the flags fixed at creation -/
structure PyData (D V : Type) where
  is_compressed : Bool
  n_subsets : Int
  idx_subset : Int
  decoded_descriptors_all_subsets : List (List D)
  bitmap_links_all_subsets : List (List (Int × Int))
  decoded_values_all_subsets : List (List V)
  decoded_descriptors : List D
  bitmap_links : List (Int × Int)
  decoded_values : List V
  idx_value : Int

def dataOf (ps : CoderState.Self D V) : PyData D V :=
  { is_compressed := ps.is_compressed, n_subsets := ps.n_subsets, idx_subset := ps.idx_subset,
    decoded_descriptors_all_subsets := ps.decoded_descriptors_all_subsets,
    bitmap_links_all_subsets := ps.bitmap_links_all_subsets,
    decoded_values_all_subsets := ps.decoded_values_all_subsets,
    decoded_descriptors := ps.decoded_descriptors, bitmap_links := ps.bitmap_links,
    decoded_values := ps.decoded_values, idx_value := ps.idx_value }

/-- the fresh template state as a Python record: what `reset_template_state` assigns, over the data of `ps` -/
def freshOver (ps : CoderState.Self D V) : CoderState.Self D V :=
  { ps with
    nbits_offset := 0, scale_offset := 0, nbits_of_new_refval := 0, new_refvals := [],
    nbits_of_associated := [], nbits_of_skipped_local_descriptor := 0,
    bsr_modifier := { nbits_increment := 0, scale_increment := 0, refval_factor := 1 },
    new_nbytes := 0, data_not_present_count := 0, status_qa_info_follows := QA_INFO_NA,
    bitmap := none, bitmapped_descriptors := none, bitmap_definition_state := BITMAP_NA,
    most_recent_bitmap_is_for_reuse := false, n_031031 := 0, next_bitmapped_descriptor := none,
    back_reference_boundary := 0, back_referenced_descriptors := none }

theorem reset_eq_freshOver (ps : CoderState.Self D V) : CoderState.reset_template_state ps = freshOver ps := rfl

theorem wf_freshOver (ps : CoderState.Self D V) : WF (freshOver ps) := by
  simp [WF, freshOver, bsrOf]

theorem regsOf_freshOver (φ : D → Elem) (ps : CoderState.Self D V) : regsOf φ (freshOver ps) = ({} : Regs) := by
  simp [regsOf, freshOver, qaOfTag, bitmapDefOfTag, QA_INFO_NA, QA_INFO_WAITING, QA_INFO_PROCESSING,
    BITMAP_NA, BITMAP_INDICATOR, BITMAP_WAITING_FOR_BIT, BITMAP_BIT_COUNTING]

theorem rep_freshOver (φ : D → Elem) (ps : CoderState.Self D V) : Rep φ (freshOver ps) {} :=
  ⟨wf_freshOver ps, [], by rw [regsOf_freshOver], refRel_nil⟩

end Bufr
