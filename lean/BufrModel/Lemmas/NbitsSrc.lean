/-
  Helper lemmas for `C02_src_nbits_for_uint` / `C05_src_nbits_for_uint`: the Lean function generated from
  `pybufrkit/encoder.py nbits_for_uint` (`Gen/PyEncoder.lean`, regenerated on every check) against the
  encoder model's `nbitsForUInt` (`Coder/Encode.lean`).

  `bin(x)[2:]` is `Nat.toDigits 2 x` for `x ≥ 0`; its length is the bit length of `x` (`x = 0` has the one
  digit `'0'`), and all its digits are `'1'` exactly when `x + 1` is a power of two.
-/
import BufrModel.Coder.Encode
import BufrModel.Lemmas.Column
import BufrModel.Gen.PyEncoder
namespace Bufr.NbitsSrc

/-- number of binary digits -/
abbrev blen (x : Nat) : Nat := (Nat.toDigits 2 x).length

theorem blen_pos (x : Nat) : 0 < blen x := Nat.length_toDigits_pos

theorem lt_two_pow_blen (x : Nat) : x < 2 ^ blen x :=
  (Nat.length_toDigits_le_iff (b := 2) (by omega) (blen_pos x)).mp (Nat.le_refl _)

theorem two_pow_blen_le (x : Nat) (hx : 0 < x) : 2 ^ (blen x - 1) ≤ x := by
  by_cases h1 : blen x = 1
  · rw [h1]; simp; omega
  · have hp := blen_pos x
    have : ¬ blen x ≤ blen x - 1 := by omega
    rw [Nat.length_toDigits_le_iff (b := 2) (by omega) (by omega)] at this
    omega

theorem count_le_blen (x : Nat) : List.count '1' (Nat.toDigits 2 x) ≤ blen x := List.count_le_length

/-- all binary digits are `'1'` iff `x + 1` is the power of two above -/
theorem count_one_eq_iff (x : Nat) : List.count '1' (Nat.toDigits 2 x) = blen x ↔ x + 1 = 2 ^ blen x := by
  induction x using Nat.strongRecOn with
  | _ x ih =>
    unfold blen
    rw [Nat.toDigits_eq_if (b := 2) (by omega)]
    by_cases hlt : x < 2
    · simp only [hlt, if_true]
      have : x = 0 ∨ x = 1 := by omega
      rcases this with rfl | rfl <;> decide
    · simp only [hlt, if_false, List.count_append, List.length_append, List.length_singleton]
      have ihd := ih (x / 2) (by omega)
      have hle := count_le_blen (x / 2)
      unfold blen at ihd hle
      have hmod : x % 2 = 0 ∨ x % 2 = 1 := by omega
      have hdm := Nat.div_add_mod x 2
      rw [Nat.pow_succ]
      rcases hmod with h0 | h1
      · rw [h0]
        have : List.count '1' [Nat.digitChar 0] = 0 := by decide
        rw [this]
        constructor
        · intro h; omega
        · intro h; omega
      · rw [h1]
        have : List.count '1' [Nat.digitChar 1] = 1 := by decide
        rw [this]
        constructor
        · intro h
          have := ihd.mp (by omega)
          omega
        · intro h
          have := ihd.mpr (by omega)
          omega

/-- the exponent `k` with `2^k ≤ y < 2^(k+1)` is unique -/
theorem log_unique (y j k : Nat) (hj : 2 ^ j ≤ y) (hj' : y < 2 ^ (j + 1)) (hk : 2 ^ k ≤ y) (hk' : y < 2 ^ (k + 1)) :
    j = k := by
  have h1 : 2 ^ j < 2 ^ (k + 1) := by omega
  have h2 : 2 ^ k < 2 ^ (j + 1) := by omega
  have h1' := (Nat.pow_lt_pow_iff_right (by omega : 1 < 2)).mp h1
  have h2' := (Nat.pow_lt_pow_iff_right (by omega : 1 < 2)).mp h2
  omega

/-- `len(bin(x)[2:])`, one more when all digits are ones, is the model's width rule -/
theorem py_width_eq (x : Nat) :
    (if List.count '1' (Nat.toDigits 2 x) = blen x then blen x + 1 else blen x) = nbitsForUInt x := by
  obtain ⟨k, hk, hlo, hhi⟩ := nbitsForUInt_spec x
  rw [hk]
  have hp := blen_pos x
  have hlt := lt_two_pow_blen x
  by_cases hall : List.count '1' (Nat.toDigits 2 x) = blen x
  · rw [if_pos hall]
    have he := (count_one_eq_iff x).mp hall
    have : blen x = k := log_unique (x + 1) (blen x) k (by omega) (by rw [Nat.pow_succ]; omega) hlo hhi
    omega
  · rw [if_neg hall]
    have hne : x + 1 ≠ 2 ^ blen x := fun h => hall ((count_one_eq_iff x).mpr h)
    by_cases hx : x = 0
    · subst hx
      have : k = 0 := by
        rcases k with _ | k
        · rfl
        · rw [Nat.pow_succ] at hlo
          have : 0 < 2 ^ k := Nat.two_pow_pos k
          omega
      subst this
      decide
    · have hge := two_pow_blen_le x (by omega)
      have : blen x - 1 = k :=
        log_unique (x + 1) (blen x - 1) k (by omega) (by rw [Nat.sub_add_cancel hp]; omega) hlo hhi
      omega

open PyGen.encoder in
/-- the generated `nbits_for_uint` on a non-negative argument -/
theorem gen_nbits_for_uint (x : Nat) : nbits_for_uint (x : Int) = (nbitsForUInt x : Int) := by
  have hbin : List.drop 2 (Py.bin (x : Int)) = Nat.toDigits 2 x := by
    have : ¬ ((x : Int) < 0) := by omega
    simp [Py.bin, this]
  unfold nbits_for_uint
  simp only [hbin]
  rw [← py_width_eq x]
  by_cases hall : List.count '1' (Nat.toDigits 2 x) = blen x
  · have hall' : List.count '1' (Nat.toDigits 2 x) = (Nat.toDigits 2 x).length := hall
    simp [hall']
  · have hall' : ¬ List.count '1' (Nat.toDigits 2 x) = (Nat.toDigits 2 x).length := hall
    simp [hall']

end Bufr.NbitsSrc
