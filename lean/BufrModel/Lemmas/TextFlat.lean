/-
  Helper lemmas for C09, flat text: the value token of every line starts exactly at column 81 (both layouts),
  no value line is taken for a header, and `subsets_flat_text_to_flat_json` reads back the values.
-/
import BufrModel.Lemmas.TextBasic
namespace Bufr.C09T
open Bufr

theorem indexChars_facts (c : Char) (h : c ∈ indexChars) : c ≠ '<' ∧ c ≠ '#' := by
  have : ∀ c ∈ indexChars, c ≠ '<' ∧ c ≠ '#' := by decide
  exact this c h

/-- layout: 5 (index) + 1 + 74 (descriptor) + 1, or 5 + 1 + 64 + 4 (` -> `) + 6 (link) + 1: the value token starts
    at column 81 whatever the descriptor text (name) is -/
theorem flatLine_split (env : TextEnv) (links : List (Nat × Nat)) (idx : Nat) (d : DDesc) (v : Val) :
    ∃ pre, pre.length = 81 ∧ flatLine env links idx d v = pre ++ flatTok env d v := by
  unfold flatLine
  split
  · next l _ =>
    refine ⟨fixedWidth (idx + 1) 5 ++ ' ' :: padTrunc 64 (flatDescText env d) ++ arrow4 ++ fixedWidth (l + 1) 6 ++ [' '], ?_, ?_⟩
    · simp [length_fixedWidth, length_padTrunc, arrow4]
    · simp
  · refine ⟨fixedWidth (idx + 1) 5 ++ ' ' :: padTrunc 74 (flatDescText env d) ++ [' '], ?_, ?_⟩
    · simp [length_fixedWidth, length_padTrunc]
    · simp

theorem flatLine_drop (env : TextEnv) (links : List (Nat × Nat)) (idx : Nat) (d : DDesc) (v : Val) :
    (flatLine env links idx d v).drop 81 = flatTok env d v := by
  obtain ⟨pre, hl, h⟩ := flatLine_split env links idx d v
  rw [h, List.drop_left' hl]

theorem fixedWidth_cons (n w : Nat) (hw : 0 < w) : ∃ c cs, fixedWidth n w = c :: cs ∧ c ∈ indexChars := by
  cases h : fixedWidth n w with
  | nil =>
    have := length_fixedWidth n w
    rw [h] at this
    simp at this
    omega
  | cons c cs => exact ⟨c, cs, rfl, fixedWidth_chars n w c (by rw [h]; simp)⟩

/-- a value line starts with the index column: a blank, a digit or an asterisk - never a header mark -/
theorem flatLine_cons (env : TextEnv) (links : List (Nat × Nat)) (idx : Nat) (d : DDesc) (v : Val) :
    ∃ c cs, flatLine env links idx d v = c :: cs ∧ c ∈ indexChars := by
  obtain ⟨c, cs, h, hc⟩ := fixedWidth_cons (idx + 1) 5 (by decide)
  unfold flatLine
  split
  · exact ⟨c, _, by rw [h]; rfl, hc⟩
  · exact ⟨c, _, by rw [h]; rfl, hc⟩

theorem flatLine_not_header (env : TextEnv) (links : List (Nat × Nat)) (idx : Nat) (d : DDesc) (v : Val) :
    startsWith sectionMark (flatLine env links idx d v) = false ∧
    startsWith subsetMark (flatLine env links idx d v) = false := by
  obtain ⟨c, cs, h, hc⟩ := flatLine_cons env links idx d v
  obtain ⟨h1, h2⟩ := indexChars_facts c hc
  rw [h]
  exact ⟨startsWith_head_ne _ _ _ _ (Ne.symm h1), startsWith_head_ne _ _ _ _ (Ne.symm h2)⟩

/-- the token of a flat text line, stripped and evaluated, is the value (after the tuple step) -/
theorem flatTok_eval (env : TextEnv) (ev : Line → Option PyLit) (d : DDesc) (v : Val) (h : ReprOK env ev v) :
    ∃ x, ev (pyStrip (flatTok env d v)) = some x ∧ x.untuple = .val v := by
  unfold flatTok
  split
  · exact ⟨.tuple v, by rw [pyStrip_edges _ (h.flag_edges _), h.eval_flag], rfl⟩
  · exact ⟨.val v, by rw [pyStrip_edges _ h.edges, h.eval_repr], rfl⟩

/-- the lines of one subset append its values (as many as there are descriptor/value pairs) to the open list -/
theorem ftLoop_lines (env : TextEnv) (ev : Line → Option PyLit) (links : List (Nat × Nat)) :
    ∀ (ds : List DDesc) (vs : List Val) (idx : Nat) (pre : List (List PyLit)) (cur : List PyLit) (rest : List Line),
      (∀ v ∈ vs, ReprOK env ev v) →
      ftLoop ev PyLit.untuple (flatLinesFrom env links idx ds vs ++ rest) (pre ++ [cur]) =
        ftLoop ev PyLit.untuple rest (pre ++ [cur ++ (vs.take ds.length).map PyLit.val])
  | [], vs, idx, pre, cur, rest, _ => by
    cases vs <;> simp [flatLinesFrom]
  | d :: ds, [], idx, pre, cur, rest, _ => by simp [flatLinesFrom]
  | d :: ds, v :: vs, idx, pre, cur, rest, h => by
    obtain ⟨hs, hm⟩ := flatLine_not_header env links idx d v
    obtain ⟨x, hx, hu⟩ := flatTok_eval env ev d v (h v (by simp))
    rw [flatLinesFrom, List.cons_append, ftLoop]
    simp only [hs, hm, Bool.false_eq_true, if_false, flatLine_drop, hx, modifyLast_concat, hu]
    rw [ftLoop_lines env ev links ds vs (idx + 1) pre _ rest (fun w hw => h w (by simp [hw]))]
    simp

theorem subsetHeader_marks (i n : Nat) :
    startsWith sectionMark (subsetHeader i n) = false ∧ startsWith subsetMark (subsetHeader i n) = true := by
  unfold subsetHeader
  constructor
  · exact startsWith_head_ne _ _ _ _ (by decide)
  · simp only [List.append_assoc]
    exact startsWith_append _ _

/-- what the flat text of a subset converts back to -/
def flatBack (o : SubsetOut) : List PyLit := (o.vals.take o.descs.length).map PyLit.val

theorem ftLoop_subsets (env : TextEnv) (ev : Line → Option PyLit) (n : Nat) (hdr : Line) (rest : List Line)
    (hhdr : startsWith sectionMark hdr = true) :
    ∀ (outs : List SubsetOut) (i : Nat) (pre : List (List PyLit)),
      (∀ o ∈ outs, ∀ v ∈ o.vals, ReprOK env ev v) →
      ftLoop ev PyLit.untuple (flatSubsetsFrom env n i outs ++ hdr :: rest) pre =
        .ok (hdr :: rest, pre ++ outs.map flatBack)
  | [], i, pre, _ => by
    simp [flatSubsetsFrom, ftLoop, hhdr]
  | o :: os, i, pre, h => by
    obtain ⟨h1, h2⟩ := subsetHeader_marks (i + 1) n
    rw [flatSubsetsFrom, List.cons_append, List.cons_append, ftLoop]
    simp only [h1, h2, Bool.false_eq_true, if_false, if_true, List.append_assoc]
    rw [ftLoop_lines env ev o.links o.descs o.vals 0 pre [] _ (h o (by simp))]
    rw [ftLoop_subsets env ev n hdr rest hhdr os (i + 1) _ (fun o' ho' => h o' (by simp [ho']))]
    simp [flatBack]

end Bufr.C09T
