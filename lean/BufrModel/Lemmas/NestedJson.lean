/-
  Helper lemmas for C09: nested JSON -> flat applied to the rendering of a resolved tree returns the
  values at the tree's flat indices (`idxList`), in order.
-/
import BufrModel.View.NestedJson
import BufrModel.Lemmas.Wire
namespace Bufr.C09
open Bufr

/-- value lookup used to state "the values at these indices" -/
def valsAt (o : SubsetOut) (l : List Nat) : List (Option Val) := l.map (fun i => o.vals[i]?)

theorem valsAt_append (o : SubsetOut) (a b : List Nat) : valsAt o (a ++ b) = valsAt o a ++ valsAt o b := by
  simp [valsAt]

theorem firstLayer_append {a b : List NJ} {x y : List Val}
    (ha : firstLayer a = .ok x) (hb : firstLayer b = .ok y) : firstLayer (a ++ b) = .ok (x ++ y) := by
  induction a generalizing x with
  | nil =>
    unfold firstLayer at ha
    injection ha with ha; subst ha
    simpa using hb
  | cons p ps ih =>
    cases p with
    | value lab v virt attrs =>
      rw [List.cons_append]
      rw [firstLayer] at ha
      split at ha
      · cases ha
      · next vs hvs =>
        injection ha with ha; subst ha
        rw [firstLayer, ih hvs]
        cases virt <;> rfl
    | noval _ => unfold firstLayer at ha; cases ha
    | group _ _ _ => unfold firstLayer at ha; cases ha
    | arr _ => unfold firstLayer at ha; cases ha

theorem renderAttrs_append_inv (o : SubsetOut) : ∀ (a b : List Node) (xs : List NJ),
    renderAttrs o (a ++ b) = .ok xs →
    ∃ xa xb, renderAttrs o a = .ok xa ∧ renderAttrs o b = .ok xb ∧ xs = xa ++ xb
  | [], b, xs, h => ⟨[], xs, by rw [renderAttrs], by simpa using h, rfl⟩
  | a :: as, b, xs, h => by
    rw [List.cons_append, renderAttrs] at h
    split at h
    · cases h
    · next x hx =>
      split at h
      · cases h
      · next xs' hxs =>
        injection h with h; subst h
        obtain ⟨xa, xb, h1, h2, h3⟩ := renderAttrs_append_inv o as b xs' hxs
        refine ⟨x :: xa, xb, ?_, h2, by rw [h3]; rfl⟩
        rw [renderAttrs, hx, h1]

theorem resolveV_value {tab : List (Nat × Node)} {f : Nat} {k : VKind} {i : Nat} {own : List Node} {r : Node}
    (h : resolveV tab f (.value k i own) = .ok r) : ∃ attrs, r = .value k i attrs := by
  cases f with
  | zero => unfold resolveV at h; cases h
  | succ f =>
    unfold resolveV at h
    split at h
    · cases h
    · split at h
      · cases h
      · injection h with h; exact ⟨_, h.symm⟩

/-- rendering a value node as an attribute -/
theorem renderValue_attr {o : SubsetOut} {k : VKind} {i : Nat} {attrs : List Node} {x : NJ} {isAttr : Bool}
    (h : renderValue o isAttr (.value k i attrs) = .ok x) :
    ∃ d v as, o.descs[i]? = some d ∧ o.vals[i]? = some v ∧ renderAttrs o attrs = .ok as ∧
      x = .value d v (isAttr && !d.isAssoc) as := by
  rw [renderValue] at h
  split at h
  · next d v hd hv =>
    split at h
    · cases h
    · next as has =>
      injection h with h
      exact ⟨d, v, as, hd, hv, has, h.symm⟩
  · cases h

/-- attributes given at creation: the ones of kind "associated field" come out, in order -/
theorem ownAttrs_firstLayer (o : SubsetOut) (tab : List (Nat × Node)) (f : Nat) :
    ∀ (own as : List Node) (xs : List NJ), own.all (ownAttrOK o) = true →
      mapE (resolveV tab f) own = .ok as → renderAttrs o as = .ok xs →
      ∃ ws, firstLayer xs = .ok ws ∧
        ws.map some = valsAt o ((own.filter Node.kindIsAssoc).filterMap Node.index?)
  | [], as, xs, _, hm, hr => by
    unfold mapE at hm
    injection hm with hm; subst hm
    rw [renderAttrs] at hr
    injection hr with hr; subst hr
    exact ⟨[], by rw [firstLayer], rfl⟩
  | a :: own, as, xs, hok, hm, hr => by
    rw [List.all_cons, Bool.and_eq_true] at hok
    obtain ⟨hok1, hok2⟩ := hok
    unfold mapE at hm
    split at hm
    · cases hm
    · next r hr1 =>
      split at hm
      · cases hm
      · next rs hrs =>
        injection hm with hm; subst hm
        rw [renderAttrs] at hr
        split at hr
        · cases hr
        · next x hx =>
          split at hr
          · cases hr
          · next xs' hxs' =>
            injection hr with hr; subst hr
            obtain ⟨ws, hws, hmap⟩ := ownAttrs_firstLayer o tab f own rs xs' hok2 hrs hxs'
            cases a with
            | value k i own' =>
              obtain ⟨attrs, hr'⟩ := resolveV_value hr1
              subst hr'
              obtain ⟨d, v, as', hd, hv, _, hx'⟩ := renderValue_attr hx
              subst hx'
              simp only [ownAttrOK, hd] at hok1
              rw [firstLayer, hws]
              cases k <;> cases d <;>
                simp_all [VKind.isAssoc, DDesc.isAssoc, Node.kindIsAssoc, Node.index?, valsAt, List.filter]
            | noval _ => simp [ownAttrOK] at hok1
            | seq _ _ => simp [ownAttrOK] at hok1
            | fixedRep _ _ _ => simp [ownAttrOK] at hok1
            | delayedRep _ _ _ _ => simp [ownAttrOK] at hok1

/-- attributes attached through bitmap links are all virtual -/
theorem tabAttrs_firstLayer (o : SubsetOut) (tab : List (Nat × Node)) (f : Nat) :
    ∀ (l as : List Node) (xs : List NJ), l.all (tabAttrOK o) = true →
      mapE (resolveV tab f) l = .ok as → renderAttrs o as = .ok xs → firstLayer xs = .ok []
  | [], as, xs, _, hm, hr => by
    unfold mapE at hm
    injection hm with hm; subst hm
    rw [renderAttrs] at hr
    injection hr with hr; subst hr
    rw [firstLayer]
  | a :: l, as, xs, hok, hm, hr => by
    rw [List.all_cons, Bool.and_eq_true] at hok
    obtain ⟨hok1, hok2⟩ := hok
    unfold mapE at hm
    split at hm
    · cases hm
    · next r hr1 =>
      split at hm
      · cases hm
      · next rs hrs =>
        injection hm with hm; subst hm
        rw [renderAttrs] at hr
        split at hr
        · cases hr
        · next x hx =>
          split at hr
          · cases hr
          · next xs' hxs' =>
            injection hr with hr; subst hr
            have hws := tabAttrs_firstLayer o tab f l rs xs' hok2 hrs hxs'
            cases a with
            | value k i own' =>
              obtain ⟨attrs, hr'⟩ := resolveV_value hr1
              subst hr'
              obtain ⟨d, v, as', hd, hv, _, hx'⟩ := renderValue_attr hx
              subst hx'
              simp only [tabAttrOK, hd] at hok1
              rw [firstLayer, hws]
              cases d <;> simp_all [DDesc.isAssoc]
            | noval _ => simp [tabAttrOK] at hok1
            | seq _ _ => simp [tabAttrOK] at hok1
            | fixedRep _ _ _ => simp [tabAttrOK] at hok1
            | delayedRep _ _ _ _ => simp [tabAttrOK] at hok1

theorem tabFor_all {tab : List (Nat × Node)} {p : Node → Bool} (h : tab.all (fun q => p q.2) = true) (i : Nat) :
    (tabFor tab i).all p = true := by
  rw [List.all_eq_true] at h ⊢
  intro x hx
  unfold tabFor at hx
  rw [List.mem_map] at hx
  obtain ⟨q, hq, rfl⟩ := hx
  rw [List.mem_filter] at hq
  exact h q (List.mem_reverse.mp hq.1)

/-- a (raw) value node, resolved and rendered, converts to the values at its indices -/
theorem valueNode_flat (o : SubsetOut) (tab : List (Nat × Node)) (fuel : Nat)
    (hT : tab.all (fun q => tabAttrOK o q.2) = true)
    (k : VKind) (i : Nat) (own : List Node) (hown : own.all (ownAttrOK o) = true)
    (r : Node) (j : NJ) (hres : resolveV tab fuel (.value k i own) = .ok r)
    (hren : renderValue o false r = .ok j) :
    ∃ vs, valueParam j = .ok vs ∧ vs.map some = valsAt o (valueIdx i own) := by
  cases fuel with
  | zero => unfold resolveV at hres; cases hres
  | succ f =>
    unfold resolveV at hres
    split at hres
    · cases hres
    · next as1 h1 =>
      split at hres
      · cases hres
      · next as2 h2 =>
        injection hres with hres; subst hres
        obtain ⟨d, v, as, hd, hv, has, hj⟩ := renderValue_attr hren
        subst hj
        obtain ⟨xa, xb, ha, hb, hab⟩ := renderAttrs_append_inv o as1 as2 as has
        subst hab
        obtain ⟨ws, hws, hmap⟩ := ownAttrs_firstLayer o tab f own as1 xa hown h1 ha
        have hb' := tabAttrs_firstLayer o tab f (tabFor tab i) as2 xb (tabFor_all hT i) h2 hb
        have hfl := firstLayer_append hws hb'
        refine ⟨ws ++ [v], ?_, ?_⟩
        · simp only [valueParam, hfl, List.append_nil]
        · unfold valueIdx
          rw [valsAt_append, List.map_append, hmap]
          simp [valsAt, hv]


theorem flatMembers_append_inv : ∀ (a b : List NJ) (vs : List Val), flatMembers (a ++ b) = .ok vs →
    ∃ x y, flatMembers a = .ok x ∧ flatMembers b = .ok y ∧ vs = x ++ y
  | [], b, vs, h => ⟨[], vs, by rw [flatMembers], by simpa using h, rfl⟩
  | p :: ps, b, vs, h => by
    rw [List.cons_append, flatMembers] at h
    split at h
    · cases h
    · next v1 h1 =>
      split at h
      · cases h
      · next v2 h2 =>
        injection h with h; subst h
        obtain ⟨x, y, hx, hy, hxy⟩ := flatMembers_append_inv ps b v2 h2
        refine ⟨v1 ++ x, y, ?_, hy, by rw [hxy, List.append_assoc]⟩
        rw [flatMembers, h1, hx]

theorem chunks_flat (n : Nat) : ∀ (k : Nat) (xs : List NJ) (vs : List Val), xs.length = k * n →
    flatMembers xs = .ok vs → flatReps ((chunks n k xs).map NJ.arr) = .ok vs
  | 0, xs, vs, hl, h => by
    have : xs = [] := List.eq_nil_of_length_eq_zero (by omega)
    subst this
    rw [flatMembers] at h
    injection h with h; subst h
    simp only [chunks, List.map_nil]
    rw [flatReps]
  | k + 1, xs, vs, hl, h => by
    rw [← List.take_append_drop n xs] at h
    obtain ⟨x, y, hx, hy, hxy⟩ := flatMembers_append_inv _ _ _ h
    have hl' : (xs.drop n).length = k * n := by
      rw [List.length_drop, hl, Nat.succ_mul]; omega
    have ih := chunks_flat n k (xs.drop n) y hl' hy
    simp only [chunks, List.map_cons]
    rw [flatReps, hx, ih, hxy]

theorem resolveList_length (tab : List (Nat × Node)) (fuel : Nat) : ∀ (l r : List Node),
    resolveList tab fuel l = .ok r → r.length = l.length
  | [], r, h => by rw [resolveList] at h; injection h with h; subst h; rfl
  | n :: ns, r, h => by
    rw [resolveList] at h
    split at h
    · cases h
    · split at h
      · cases h
      · next ns' hns =>
        injection h with h; subst h
        simp only [List.length_cons, resolveList_length tab fuel ns ns' hns]

theorem renderNodes_length (o : SubsetOut) : ∀ (l : List Node) (xs : List NJ),
    renderNodes o l = .ok xs → xs.length = l.length
  | [], xs, h => by rw [renderNodes] at h; injection h with h; subst h; rfl
  | n :: ns, xs, h => by
    rw [renderNodes] at h
    split at h
    · cases h
    · split at h
      · cases h
      · next xs' hxs =>
        injection h with h; subst h
        simp only [List.length_cons, renderNodes_length o ns xs' hxs]

mutual
theorem flatList_tree (o : SubsetOut) (tab : List (Nat × Node)) (fuel : Nat)
    (hT : tab.all (fun q => tabAttrOK o q.2) = true) :
    ∀ (raw res : List Node) (js : List NJ), treeOKList o raw = true →
      resolveList tab fuel raw = .ok res → renderNodes o res = .ok js →
      ∃ vs, flatMembers js = .ok vs ∧ vs.map some = valsAt o (idxList raw)
  | [], res, js, _, hres, hren => by
    rw [resolveList] at hres; injection hres with hres; subst hres
    rw [renderNodes] at hren; injection hren with hren; subst hren
    exact ⟨[], by rw [flatMembers], by rw [idxList]; rfl⟩
  | n :: ns, res, js, hok, hres, hren => by
    rw [treeOKList, Bool.and_eq_true] at hok
    rw [resolveList] at hres
    split at hres
    · cases hres
    · next n' hn' =>
      split at hres
      · cases hres
      · next ns' hns' =>
        injection hres with hres; subst hres
        rw [renderNodes] at hren
        split at hren
        · cases hren
        · next x hx =>
          split at hren
          · cases hren
          · next xs hxs =>
            injection hren with hren; subst hren
            obtain ⟨v1, h1, m1⟩ := flat1_tree o tab fuel hT n n' x hok.1 hn' hx
            obtain ⟨v2, h2, m2⟩ := flatList_tree o tab fuel hT ns ns' xs hok.2 hns' hxs
            refine ⟨v1 ++ v2, ?_, ?_⟩
            · rw [flatMembers, h1, h2]
            · rw [idxList, valsAt_append, List.map_append, m1, m2]

theorem flat1_tree (o : SubsetOut) (tab : List (Nat × Node)) (fuel : Nat)
    (hT : tab.all (fun q => tabAttrOK o q.2) = true) :
    ∀ (raw res : Node) (j : NJ), treeOK1 o raw = true →
      resolve1 tab fuel raw = .ok res → renderNode o res = .ok j →
      ∃ vs, flatParam j = .ok vs ∧ vs.map some = valsAt o (idx1 raw)
  | .value k i own, res, j, hok, hres, hren => by
    rw [treeOK1] at hok
    rw [resolve1] at hres
    obtain ⟨attrs, hr⟩ := resolveV_value hres
    subst hr
    rw [renderNode] at hren
    obtain ⟨vs, hv, hm⟩ := valueNode_flat o tab fuel hT k i own hok _ j hres hren
    obtain ⟨d, v, as, _, _, _, hj⟩ := renderValue_attr hren
    subst hj
    exact ⟨vs, by rw [flatParam]; exact hv, by rw [idx1]; exact hm⟩
  | .noval id, res, j, _, hres, hren => by
    rw [resolve1] at hres; injection hres with hres; subst hres
    rw [renderNode] at hren; injection hren with hren; subst hren
    exact ⟨[], by rw [flatParam], by rw [idx1]; rfl⟩
  | .seq id ms, res, j, hok, hres, hren => by
    rw [treeOK1, Bool.and_eq_true] at hok
    rw [resolve1] at hres
    split at hres
    · cases hres
    · next ms' hms' =>
      injection hres with hres; subst hres
      rw [renderNode] at hren
      split at hren
      · cases hren
      · next xs hxs =>
        injection hren with hren; subst hren
        obtain ⟨vs, h1, m1⟩ := flatList_tree o tab fuel hT ms ms' xs hok.2 hms' hxs
        have hid : ¬ (id / 100000 = 1) := by simpa using hok.1
        refine ⟨vs, ?_, by rw [idx1]; exact m1⟩
        rw [flatParam]
        simp only [hid, if_false, h1, List.nil_append]
  | .fixedRep id n ms, res, j, hok, hres, hren => by
    rw [treeOK1, Bool.and_eq_true, Bool.and_eq_true] at hok
    obtain ⟨⟨hid, hlen⟩, hms⟩ := hok
    rw [resolve1] at hres
    split at hres
    · cases hres
    · next ms' hms' =>
      injection hres with hres; subst hres
      rw [renderNode] at hren
      split at hren
      · cases hren
      · next xs hxs =>
        injection hren with hren; subst hren
        obtain ⟨vs, h1, m1⟩ := flatList_tree o tab fuel hT ms ms' xs hms hms' hxs
        have hid' : id / 100000 = 1 := by simpa using hid
        have hl : xs.length = yOf id * n := by
          rw [renderNodes_length o _ _ hxs, resolveList_length tab fuel _ _ hms']; simpa using hlen
        have hc := chunks_flat n (yOf id) xs vs hl h1
        refine ⟨vs, ?_, by rw [idx1]; exact m1⟩
        rw [flatParam]
        simp only [hid', if_true, hc, List.nil_append]
  | .delayedRep id n f ms, res, j, hok, hres, hren => by
    rw [treeOK1, Bool.and_eq_true, Bool.and_eq_true] at hok
    obtain ⟨⟨hid, hf⟩, hms⟩ := hok
    cases f with
    | value kf i own =>
      simp only [factorOK, Bool.and_eq_true] at hf
      obtain ⟨hown, hcnt⟩ := hf
      rw [resolve1] at hres
      split at hres
      · cases hres
      · next f' hf' =>
        split at hres
        · cases hres
        · next ms' hms' =>
          injection hres with hres; subst hres
          obtain ⟨attrs, hfa⟩ := resolveV_value hf'
          subst hfa
          rw [renderNode] at hren
          split at hren
          · cases hren
          · next c hc =>
            split at hren
            · cases hren
            · next fj hfj =>
              split at hren
              · cases hren
              · next xs hxs =>
                injection hren with hren; subst hren
                obtain ⟨vs, h1, m1⟩ := flatList_tree o tab fuel hT ms ms' xs hms hms' hxs
                obtain ⟨fv, hfv, mf⟩ := valueNode_flat o tab fuel hT kf i own hown _ fj hf' hfj
                have hid' : id / 100000 = 1 := by simpa using hid
                rw [hc] at hcnt
                have hl : xs.length = c * n := by
                  rw [renderNodes_length o _ _ hxs, resolveList_length tab fuel _ _ hms']; simpa using hcnt
                have hch := chunks_flat n c xs vs hl h1
                refine ⟨fv ++ vs, ?_, ?_⟩
                · rw [flatParam]
                  simp only [hfv, hid', if_true, hch]
                · rw [idx1]
                  rw [valsAt_append, List.map_append, mf, m1]
    | noval _ => simp [factorOK] at hf
    | seq _ _ => simp [factorOK] at hf
    | fixedRep _ _ _ => simp [factorOK] at hf
    | delayedRep _ _ _ _ => simp [factorOK] at hf
end

end Bufr.C09
