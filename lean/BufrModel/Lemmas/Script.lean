/-
  Helper lemmas for C18 (`Props/C18.lean`): runs of the state machine over one segment, the
  substitution table built left to right vs. the global description of the specification.
-/
import BufrModel.Lang.Script
import BufrModel.Spec.ScriptSegments
namespace Bufr.Script
open Spec


/-- the character that ends a quoted / comment run -/
def closer : St → Char
  | .sq => '\''
  | .dq => '"'
  | _ => '\n'

theorem go_plain_step (st : St) (hst : st = .sq ∨ st = .dq ∨ st = .comment) (c : Char) (l : List Char)
    (hc : c ≠ closer st) (k : List Char) (n : Nat) (T : Subs) (x : List Char) :
    go ⟨st, k, n, T, x⟩ false (c :: l) = go ⟨st, k ++ [c], n, T, x⟩ false l := by
  rcases hst with rfl | rfl | rfl
  · by_cases h1 : c = '"'
    · subst h1; simp [go, onQuote]
    · simp [closer] at hc; simp [go, keepChar, hc, h1]
  · by_cases h1 : c = '\''
    · subst h1; simp [go, onQuote]
    · simp [closer] at hc; simp [go, keepChar, hc, h1]
  · by_cases h1 : c = '\''
    · subst h1; simp [go, onQuote]
    · by_cases h2 : c = '"'
      · subst h2; simp [go, onQuote]
      · simp [closer] at hc; simp [go, keepChar, hc, h1, h2]

theorem go_plain (st : St) (hst : st = .sq ∨ st = .dq ∨ st = .comment) (s rest : List Char)
    (h : closer st ∉ s) (k : List Char) (n : Nat) (T : Subs) (x : List Char) :
    go ⟨st, k, n, T, x⟩ false (s ++ rest) = go ⟨st, k ++ s, n, T, x⟩ false rest := by
  induction s generalizing k with
  | nil => simp
  | cons c s ih =>
    have hc : c ≠ closer st := by intro e; exact h (by simp [e])
    have hs : closer st ∉ s := by intro e; exact h (by simp [e])
    rw [List.cons_append, go_plain_step st hst c _ hc, ih hs]
    simp

theorem go_embed_run (e rest : List Char) (h : '}' ∉ e) (k : List Char) (n : Nat) (T : Subs) (x : List Char) :
    go ⟨.embed, k, n, T, x⟩ false (e ++ rest) = go ⟨.embed, k, n, T, x ++ e⟩ false rest := by
  induction e generalizing x with
  | nil => simp
  | cons c e ih =>
    have hc : c ≠ '}' := by intro e'; exact h (by simp [e'])
    have hs : '}' ∉ e := by intro e'; exact h (by simp [e'])
    simp [go, hc, ih hs]

/-- content condition of a code segment, as a proposition -/
def CodeOk (s : List Char) : Prop := '\'' ∉ s ∧ '"' ∉ s ∧ '#' ∉ s ∧ hasDollarBrace s = false

theorem go_code_run (s rest : List Char) (h : CodeOk s)
    (hb : ¬ (s.getLast? = some '$' ∧ rest.head? = some '{'))
    (k : List Char) (n : Nat) (T : Subs) (x : List Char) :
    go ⟨.idle, k, n, T, x⟩ false (s ++ rest) = go ⟨.idle, k ++ s, n, T, x⟩ false rest := by
  induction s generalizing k with
  | nil => simp
  | cons c s ih =>
    obtain ⟨h1, h2, h3, h4⟩ := h
    have c1 : c ≠ '\'' := by intro e; exact h1 (by simp [e])
    have c2 : c ≠ '"' := by intro e; exact h2 (by simp [e])
    have c3 : c ≠ '#' := by intro e; exact h3 (by simp [e])
    have hs : CodeOk s := by
      refine ⟨fun e => h1 (by simp [e]), fun e => h2 (by simp [e]), fun e => h3 (by simp [e]), ?_⟩
      simp [hasDollarBrace] at h4; exact h4.2
    have hb' : ¬ (s.getLast? = some '$' ∧ rest.head? = some '{') := by
      cases s with
      | nil => simp
      | cons d s' => simpa [List.getLast?_cons_cons] using hb
    have look : c = '$' → (s ++ rest).head? ≠ some '{' := by
      intro e
      cases s with
      | nil => simp [e] at hb; simpa using hb
      | cons d s' => simp [hasDollarBrace, e] at h4; simp; exact h4.1
    have := ih hs hb' (k ++ [c])
    by_cases hd : c = '$'
    · have l := look hd
      subst hd
      rw [List.cons_append, go]
      rw [if_neg (by simp), if_neg (by simp), if_neg (by simp), if_pos (by simp), if_neg l]
      simpa [keepChar] using this
    · simp [go, keepChar, c1, c2, c3, hd, this]

theorem lookup_zipIdx (K : List (List Char)) (i : Nat) (s : List Char) :
    ((K.zipIdx i).map fun (k, j) => (k, varName j)).lookup s =
      if s ∈ K then some (varName (i + K.idxOf s)) else none := by
  induction K generalizing i with
  | nil => simp
  | cons a K ih =>
    simp only [List.zipIdx_cons, List.map_cons, List.lookup_cons, List.idxOf_cons, ih]
    by_cases h : s = a
    · subst h; simp
    · have h' : ¬ a = s := fun e => h e.symm
      have e1 : (s == a) = false := by simp [h]
      have e2 : (a == s) = false := by simp [h']
      simp only [e1, e2, cond_false, List.mem_cons, h, false_or]
      split
      · congr 2; omega
      · rfl

theorem lookup_table (K : List (List Char)) (s : List Char) :
    (table K).lookup s = if s ∈ K then some (varName (K.idxOf s)) else none := by
  simpa [table] using lookup_zipIdx K 0 s

theorem table_append (K : List (List Char)) (s : List Char) :
    table (K ++ [s]) = table K ++ [(s, varName K.length)] := by
  simp [table, List.zipIdx_append]

/-- one step of the left-to-right table construction -/
def addKey (K : List (List Char)) (t : List Char) : List (List Char) := if t ∈ K then K else K ++ [t]

theorem closeEmbed_boundary (k : List Char) (K : List (List Char)) (e : List Char) :
    closeEmbed ⟨.embed, k, K.length, table K, e⟩ =
      ⟨.idle, k ++ varName ((addKey K (trim e)).idxOf (trim e)), (addKey K (trim e)).length,
        table (addKey K (trim e)), []⟩ := by
  unfold closeEmbed addKey
  simp only [lookup_table]
  by_cases h : trim e ∈ K
  · simp [h]
  · simp [h, table_append, List.idxOf_append]

theorem stripLeft_eq (s : List Char) : stripLeft s = lstrip s := by
  induction s with
  | nil => rfl
  | cons c s ih => simp only [stripLeft, lstrip, List.dropWhile_cons]; split <;> simp_all [lstrip]

theorem rstrip_cons (c : Char) (s : List Char) :
    rstrip (c :: s) = if rstrip s = [] then (if isPySpace c then [] else [c]) else c :: rstrip s := by
  simp only [rstrip, List.reverse_cons, List.dropWhile_append]
  have key : ∀ x : List Char, (if x.isEmpty = true then List.dropWhile isPySpace [c] else x ++ [c]).reverse =
      if x.reverse = [] then (if isPySpace c = true then [] else [c]) else c :: x.reverse := by
    intro x
    cases x with
    | nil => simp [List.dropWhile_cons]; split <;> simp
    | cons d r => simp
  exact key _

theorem stripRight_eq (s : List Char) : stripRight s = rstrip s := by
  induction s with
  | nil => rfl
  | cons c s ih =>
    rw [rstrip_cons, stripRight, ih]
    cases rstrip s <;> simp

theorem trimmed_eq_trim (e : List Char) : trimmed e = trim e := by
  simp [trimmed, trim, stripRight_eq, stripLeft_eq]

/-- the table keys built left to right -/
def extend (K : List (List Char)) : List (List Char) → List (List Char)
  | [] => K
  | t :: ts => extend (if t ∈ K then K else K ++ [t]) ts

theorem extend_eq (K ts : List (List Char)) :
    extend K ts = K ++ (firsts ts).filter (· ∉ K) := by
  induction ts generalizing K with
  | nil => simp [extend, firsts]
  | cons t ts ih =>
    simp only [extend, firsts]
    by_cases h : t ∈ K
    · simp only [h, if_true, ih, List.filter_cons, List.filter_filter]
      simp
      apply List.filter_congr
      intro x _
      by_cases hx : x ∈ K <;> simp [hx]
      intro e; exact hx (e ▸ h)
    · simp only [h, if_false, ih, List.filter_cons, List.filter_filter]
      simp

theorem extend_nil (ts : List (List Char)) : extend [] ts = firsts ts := by
  simp [extend_eq]

theorem idxOf_extend (K ts : List (List Char)) (t : List Char) (h : t ∈ K) :
    (extend K ts).idxOf t = K.idxOf t := by
  simp [extend_eq, List.idxOf_append, h]

theorem wf_code (s : List Char) (h : (Seg.code s).wf = true) : CodeOk s := by
  simp [Seg.wf] at h
  exact ⟨h.1.1.1, h.1.1.2, h.1.2, h.2⟩

/-- boundary state between segments -/
def bnd (k : List Char) (K : List (List Char)) : PS := ⟨.idle, k, K.length, table K, []⟩

theorem go_seg_sq (s rest : List Char) (h : '\'' ∉ s) (k : List Char) (K : List (List Char)) :
    go (bnd k K) false ((Seg.sq s).render ++ rest) = go (bnd (k ++ (Seg.sq s).render) K) false rest := by
  simp only [Seg.render, bnd, List.cons_append, List.append_assoc]
  rw [go]; simp only [onQuote]; simp
  rw [go_plain .sq (by simp) s _ (by simpa [closer] using h)]
  simp [go, onQuote]

theorem go_seg_dq (s rest : List Char) (h : '"' ∉ s) (k : List Char) (K : List (List Char)) :
    go (bnd k K) false ((Seg.dq s).render ++ rest) = go (bnd (k ++ (Seg.dq s).render) K) false rest := by
  simp only [Seg.render, bnd, List.cons_append, List.append_assoc]
  rw [go]; simp only [onQuote]; simp
  rw [go_plain .dq (by simp) s _ (by simpa [closer] using h)]
  simp [go, onQuote]

theorem go_seg_comment_nl (s rest : List Char) (h : '\n' ∉ s) (k : List Char) (K : List (List Char)) :
    go (bnd k K) false ((Seg.comment s true).render ++ rest) = go (bnd (k ++ (Seg.comment s true).render) K) false rest := by
  simp only [Seg.render, bnd, List.cons_append, List.append_assoc]
  rw [go]; simp [keepChar]
  rw [go_plain .comment (by simp) s _ (by simpa [closer] using h)]
  simp [go, keepChar]

theorem go_seg_comment_end (s : List Char) (h : '\n' ∉ s) (k : List Char) (K : List (List Char)) :
    go (bnd k K) false ((Seg.comment s false).render) = ⟨.comment, k ++ (Seg.comment s false).render, K.length, table K, []⟩ := by
  simp only [Seg.render, bnd, List.cons_append]
  rw [go]; simp [keepChar]
  have := go_plain .comment (by simp) s [] (by simpa [closer] using h) (k ++ ['#']) K.length (table K) []
  simp at this
  rw [this]; simp [go]

theorem go_seg_embed (e rest : List Char) (h : '}' ∉ e) (k : List Char) (K : List (List Char)) :
    go (bnd k K) false ((Seg.embed e).render ++ rest) =
      go (bnd (k ++ varName ((addKey K (trim e)).idxOf (trim e))) (addKey K (trim e))) false rest := by
  simp only [Seg.render, bnd, List.cons_append, List.append_assoc]
  rw [go]; simp
  rw [go]; simp
  rw [go_embed_run e _ h]
  rw [go]; simp
  rw [closeEmbed_boundary]


theorem assemble_cons (seg : Seg) (rest : List Seg) : assemble (seg :: rest) = seg.render ++ assemble rest := by
  simp [assemble]

theorem mem_addKey (K : List (List Char)) (t : List Char) : t ∈ addKey K t := by
  unfold addKey; split <;> simp_all

theorem extend_cons (K : List (List Char)) (t : List Char) (ts : List (List Char)) :
    extend K (t :: ts) = extend (addKey K t) ts := rfl

/-- the script is closed: the machine ends outside literals and embeds -/
def Closed (ps : PS) : Prop := ps.st = .idle ∨ ps.st = .comment

theorem go_segs (segs : List Seg) (h : wfList segs = true) (k : List Char) (K : List (List Char)) :
    (go (bnd k K) false (assemble segs)).keep = k ++ assemble (segs.map (substSeg (extend K (exprs segs)))) ∧
    (go (bnd k K) false (assemble segs)).subs = table (extend K (exprs segs)) ∧
    Closed (go (bnd k K) false (assemble segs)) := by
  induction segs generalizing k K with
  | nil => simp [assemble, go, bnd, exprs, extend, Closed]
  | cons seg rest ih =>
    simp only [wfList, Bool.and_eq_true] at h
    obtain ⟨⟨hwf, hb⟩, hrest⟩ := h
    rw [assemble_cons]
    cases seg with
    | code s =>
      have hc := wf_code s hwf
      have hb' : ¬ (s.getLast? = some '$' ∧ (assemble rest).head? = some '{') := by
        simp [Seg.boundaryOk] at hb
        intro ⟨a, b⟩
        rcases hb with hb | hb
        · exact hb a
        · exact hb b
      have := go_code_run s (assemble rest) hc hb' k K.length (table K) []
      simp only [Seg.render, bnd, exprs, List.map_cons, substSeg, assemble_cons] at *
      rw [this]
      have := ih hrest (k ++ s) K
      simpa [List.append_assoc] using this
    | sq s =>
      have hq : '\'' ∉ s := by simpa [Seg.wf] using hwf
      rw [go_seg_sq s _ hq]
      have := ih hrest (k ++ (Seg.sq s).render) K
      simpa [exprs, substSeg, assemble_cons, List.append_assoc] using this
    | dq s =>
      have hq : '"' ∉ s := by simpa [Seg.wf] using hwf
      rw [go_seg_dq s _ hq]
      have := ih hrest (k ++ (Seg.dq s).render) K
      simpa [exprs, substSeg, assemble_cons, List.append_assoc] using this
    | comment s nl =>
      have hq : '\n' ∉ s := by simpa [Seg.wf] using hwf
      cases nl with
      | true =>
        rw [go_seg_comment_nl s _ hq]
        have := ih hrest (k ++ (Seg.comment s true).render) K
        simpa [exprs, substSeg, assemble_cons, List.append_assoc] using this
      | false =>
        have hr : rest = [] := by simpa [Seg.boundaryOk] using hb
        subst hr
        simp only [assemble, List.map_nil, List.flatten_nil, List.append_nil]
        rw [go_seg_comment_end s hq]
        simp [exprs, extend, substSeg, Closed]
    | embed e =>
      have hq : '}' ∉ e := by simpa [Seg.wf] using hwf
      rw [go_seg_embed e _ hq]
      have := ih hrest (k ++ varName ((addKey K (trim e)).idxOf (trim e))) (addKey K (trim e))
      simp only [exprs, extend_cons, trimmed_eq_trim, List.map_cons, substSeg, assemble_cons, Seg.render, nameOf]
      rw [idxOf_extend _ _ _ (mem_addKey K (trim e))]
      simpa [List.append_assoc] using this



theorem foldl_append_eq {α : Type} (acc : List α) (vs : List (List α)) :
    vs.foldl (· ++ ·) acc = acc ++ vs.flatten := by
  induction vs generalizing acc with
  | nil => simp
  | cons v vs ih => simp [ih]

theorem reduceConcat_eq {α : Type} (vs : List (List α)) : reduceConcat vs = vs.flatten := by
  simp [reduceConcat, foldl_append_eq]

theorem leaves_list {α : Type} (vs : List (Val α)) : leaves (.list vs) = (vs.map leaves).flatten := by
  simp [leaves]

mutual
theorem flat_eq_leaves {α : Type} : (v : Val α) → v.flat = leaves v
  | .atom a => by simp [Val.flat, leaves]
  | .list vs => by rw [Val.flat, leaves_list, flattenList_eq_leaves vs]; rfl
theorem flattenList_eq_leaves {α : Type} : (vs : List (Val α)) → flattenList vs = leavesOfSubset vs
  | [] => by simp [flattenList, leavesOfSubset]
  | v :: vs => by
    rw [flattenList, flat_eq_leaves v, flattenList_eq_leaves vs]; simp [leavesOfSubset]
end



theorem varName_inj {i j : Nat} (h : varName i = varName j) : i = j := by
  simp only [varName, List.append_cancel_left_eq] at h
  have := congrArg (fun d => Nat.ofDigitChars 10 d 0) h
  simpa [Nat.ofDigitChars_ten_toDigits] using this

theorem mem_firsts {α : Type} [DecidableEq α] (x : α) (l : List α) : x ∈ firsts l ↔ x ∈ l := by
  induction l with
  | nil => simp [firsts]
  | cons a l ih =>
    simp only [firsts, List.mem_cons, List.mem_filter, ih]
    by_cases h : x = a <;> simp [h]

theorem nodup_firsts {α : Type} [DecidableEq α] (l : List α) : (firsts l).Nodup := by
  induction l with
  | nil => simp [firsts]
  | cons a l ih =>
    simp only [firsts, List.nodup_cons, List.mem_filter]
    exact ⟨by simp, ih.filter _⟩

theorem mem_exprs (t : List Char) (segs : List Seg) :
    t ∈ exprs segs ↔ ∃ e, Seg.embed e ∈ segs ∧ trimmed e = t := by
  induction segs with
  | nil => simp [exprs]
  | cons s rest ih =>
    cases s <;> simp [exprs, ih]
    rw [eq_comm]

theorem idxOf_inj {α : Type} [BEq α] [LawfulBEq α] {l : List α} {a b : α} (ha : a ∈ l) (hb : b ∈ l)
    (h : l.idxOf a = l.idxOf b) : a = b := by
  have h1 := List.idxOf_lt_length_of_mem ha
  have h2 := List.idxOf_lt_length_of_mem hb
  have e1 := List.getElem_idxOf h1
  have e2 := List.getElem_idxOf h2
  rw [← e1, ← e2]; simp [h]

theorem lstrip_of_head (c : Char) (cs : List Char) (h : isPySpace c = false) : lstrip (c :: cs) = c :: cs := by
  simp [lstrip, h]

theorem lstrip_trim (e : List Char) : lstrip (trim e) = trim e := by
  unfold trim
  cases h : lstrip e with
  | nil => simp [rstrip, lstrip]
  | cons c cs =>
    have hc : isPySpace c = false := by
      have := List.head?_dropWhile_not isPySpace e
      simp only [lstrip] at h
      simpa [h] using this
    rw [rstrip_cons]
    split
    · simp [hc, lstrip_of_head]
    · exact lstrip_of_head c _ hc



theorem splitLinesAux_head (cur rest : List Char) (h : cur ≠ []) :
    ∃ l ls, splitLinesAux cur false rest = (cur ++ l) :: ls := by
  induction rest generalizing cur with
  | nil => exact ⟨[], [], by simp [splitLinesAux, h]⟩
  | cons c rest ih =>
    simp only [splitLinesAux, Bool.false_eq_true, false_and, if_false]
    split
    · exact ⟨[], splitLinesAux [] (decide (c = '\r')) rest, by simp⟩
    · obtain ⟨l, ls, e⟩ := ih (cur ++ [c]) (by simp)
      exact ⟨c :: l, ls, by simp [e]⟩

theorem pragmaLines_not_prefix (cur : Option Nat) (line : List Char) (ls : List (List Char))
    (h : "#$".toList.isPrefixOf line = false) : pragmaLines cur (line :: ls) = .ok cur := by
  simp only [pragmaLines, h, Bool.false_eq_true, if_false]

theorem processPragma_no_prefix (code : List Char) (h : "#$".toList.isPrefixOf code = false) :
    processPragma code = .ok none := by
  unfold processPragma splitLines
  match code, h with
  | [], _ => simp [splitLinesAux, pragmaLines]
  | [c], _ =>
    simp only [splitLinesAux, Bool.false_eq_true, false_and, if_false]
    split <;> simp [pragmaLines, List.isPrefixOf]
  | c :: d :: rest, h =>
    by_cases h1 : isLineBreak c = true
    · simp only [splitLinesAux, Bool.false_eq_true, false_and, if_false, h1, if_true]
      exact pragmaLines_not_prefix _ _ _ (by simp)
    · by_cases h2 : isLineBreak d = true
      · simp only [splitLinesAux, Bool.false_eq_true, false_and, if_false, h1, h2, if_true]
        exact pragmaLines_not_prefix _ _ _ (by simp [List.isPrefixOf])
      · simp only [splitLinesAux, Bool.false_eq_true, false_and, if_false, h1, h2]
        obtain ⟨l, ls, e⟩ := splitLinesAux_head ([] ++ [c] ++ [d]) rest (by simp)
        rw [e]
        apply pragmaLines_not_prefix
        simpa [List.isPrefixOf] using h



theorem table_names (K : List (List Char)) : (table K).map (·.2) = (List.range' 0 K.length).map varName := by
  have : (table K).map (·.2) = ((K.zipIdx 0).map Prod.snd).map varName := by
    simp only [table, List.map_map]; rfl
  rw [this, List.zipIdx_map_snd]

theorem varName_ne_fixed (i : Nat) (s : List Char) (hs : s.head? = some 'B' ∨ s.head? = some 'F') :
    varName i ≠ "PBK_".toList ++ s := by
  intro h
  simp only [varName, List.append_cancel_left_eq] at h
  have hd : ∀ c ∈ Nat.toDigits 10 i, c.isDigit = true := fun c hc => Nat.isDigit_of_mem_toDigits (by decide) (by decide) hc
  rw [h] at hd
  cases s with
  | nil => simp at hs
  | cons c cs =>
    have := hd c (by simp)
    rcases hs with hs | hs <;> simp at hs <;> subst hs <;> simp [Char.isDigit] at this

theorem boundNames_table_nodup (K : List (List Char)) : (boundNames (table K)).Nodup := by
  unfold boundNames
  rw [table_names, List.nodup_append]
  refine ⟨?_, by decide, ?_⟩
  · exact (List.nodup_range' (s := 0) (n := K.length)).map _ (fun a b hab h => hab (varName_inj h))
  · intro a ha b hb
    obtain ⟨i, _, rfl⟩ := List.mem_map.1 ha
    simp only [List.mem_cons, List.not_mem_nil, or_false] at hb
    rcases hb with rfl | rfl
    · exact varName_ne_fixed i "BUFR_MESSAGE".toList (by simp)
    · exact varName_ne_fixed i "FILENAME".toList (by simp)



theorem split_first (x : Char) (l : List Char) : x ∉ l ∨ ∃ a b, l = a ++ x :: b ∧ x ∉ a := by
  induction l with
  | nil => simp
  | cons c l ih =>
    by_cases h : c = x
    · right; exact ⟨[], l, by simp [h], by simp⟩
    · rcases ih with ih | ⟨a, b, e, ha⟩
      · left; simp [ih, Ne.symm h]
      · right; exact ⟨c :: a, b, by simp [e], by simp [ha, Ne.symm h]⟩


theorem closeEmbed_idle (ps : PS) : ∃ k n T x, closeEmbed ps = ⟨.idle, k, n, T, x⟩ := by
  unfold closeEmbed
  dsimp only
  cases List.lookup (trim ps.expr) ps.subs <;> exact ⟨_, _, _, _, rfl⟩

theorem segments_exist_aux (n : Nat) : ∀ (s : List Char), s.length ≤ n → ∀ (k : List Char) (i : Nat) (T : Subs) (x : List Char),
    Closed (go ⟨.idle, k, i, T, x⟩ false s) → ∃ segs, wfList segs = true ∧ assemble segs = s := by
  induction n with
  | zero =>
    intro s hs _ _ _ _ _
    have : s = [] := by cases s <;> simp_all
    exact ⟨[], by simp [wfList], by simp [assemble, this]⟩
  | succ n ih =>
    intro s hs k i T x hc
    match s, hs with
    | [], _ => exact ⟨[], by simp [wfList], by simp [assemble]⟩
    | c :: rest, hs =>
      have hlen : rest.length ≤ n := by simpa using hs
      by_cases hq : c = '\''
      · subst hq
        rw [go] at hc; simp [onQuote] at hc
        rcases split_first '\'' rest with hno | ⟨a, b, e, ha⟩
        · have := go_plain .sq (by simp) rest [] (by simpa [closer] using hno) (k ++ ['\'']) i T x
          simp at this; rw [this] at hc; simp [go, Closed] at hc
        · subst e
          rw [go_plain .sq (by simp) a _ (by simpa [closer] using ha)] at hc
          rw [go] at hc; simp [onQuote] at hc
          obtain ⟨segs, hw, he⟩ := ih b (by simp at hlen; omega) _ _ _ _ hc
          exact ⟨.sq a :: segs, by simp [wfList, Seg.wf, Seg.boundaryOk, hw, ha], by simp [assemble_cons, Seg.render, he]⟩
      · by_cases hq2 : c = '"'
        · subst hq2
          rw [go] at hc; simp [onQuote] at hc
          rcases split_first '"' rest with hno | ⟨a, b, e, ha⟩
          · have := go_plain .dq (by simp) rest [] (by simpa [closer] using hno) (k ++ ['"']) i T x
            simp at this; rw [this] at hc; simp [go, Closed] at hc
          · subst e
            rw [go_plain .dq (by simp) a _ (by simpa [closer] using ha)] at hc
            rw [go] at hc; simp [onQuote] at hc
            obtain ⟨segs, hw, he⟩ := ih b (by simp at hlen; omega) _ _ _ _ hc
            exact ⟨.dq a :: segs, by simp [wfList, Seg.wf, Seg.boundaryOk, hw, ha], by simp [assemble_cons, Seg.render, he]⟩
        · by_cases hh : c = '#'
          · subst hh
            rcases split_first '\n' rest with hno | ⟨a, b, e, ha⟩
            · exact ⟨[.comment rest false], by simp [wfList, Seg.wf, Seg.boundaryOk, hno], by simp [assemble, Seg.render]⟩
            · subst e
              rw [go] at hc; simp [keepChar] at hc
              rw [go_plain .comment (by simp) a _ (by simpa [closer] using ha)] at hc
              rw [go] at hc; simp [keepChar] at hc
              obtain ⟨segs, hw, he⟩ := ih b (by simp at hlen; omega) _ _ _ _ hc
              exact ⟨.comment a true :: segs, by simp [wfList, Seg.wf, Seg.boundaryOk, hw, ha], by simp [assemble_cons, Seg.render, he]⟩
          · by_cases hd : c = '$' ∧ rest.head? = some '{'
            · obtain ⟨hd1, hd2⟩ := hd
              subst hd1
              match rest, hd2, hlen with
              | d :: rest2, hd2, hlen =>
                simp at hd2; subst hd2
                rw [go] at hc; simp at hc
                rw [go] at hc; simp at hc
                rcases split_first '}' rest2 with hno | ⟨a, b, e, ha⟩
                · have := go_embed_run rest2 [] hno k i T x
                  simp at this; rw [this] at hc; simp [go, Closed] at hc
                · subst e
                  rw [go_embed_run a _ ha] at hc
                  rw [go] at hc; simp at hc
                  obtain ⟨k', i', T', x', e'⟩ := closeEmbed_idle ⟨.embed, k, i, T, x ++ a⟩
                  rw [e'] at hc
                  obtain ⟨segs, hw, he⟩ := ih b (by simp at hlen; omega) _ _ _ _ hc
                  exact ⟨.embed a :: segs, by simp [wfList, Seg.wf, Seg.boundaryOk, hw, ha], by simp [assemble_cons, Seg.render, he]⟩
            · have hstep : go ⟨.idle, k, i, T, x⟩ false (c :: rest) = go ⟨.idle, k ++ [c], i, T, x⟩ false rest := by
                have := go_code_run [c] rest ⟨by simp [Ne.symm hq], by simp [Ne.symm hq2], by simp [Ne.symm hh], by simp [hasDollarBrace]⟩
                  (by simpa using hd) k i T x
                simpa using this
              rw [hstep] at hc
              obtain ⟨segs, hw, he⟩ := ih rest hlen _ _ _ _ hc
              refine ⟨.code [c] :: segs, ?_, by simp [assemble_cons, Seg.render, he]⟩
              simp [wfList, Seg.wf, Seg.boundaryOk, hw, hasDollarBrace, he]
              refine ⟨⟨⟨Ne.symm hq, Ne.symm hq2⟩, Ne.symm hh⟩, ?_⟩
              by_cases h1 : c = '$'
              · right; intro h2; exact hd ⟨h1, h2⟩
              · left; exact h1

/-- every closed script is the text of a well-formed segment list -/
theorem segments_exist (s : List Char) (h : Closed (go {} false s)) :
    ∃ segs, wfList segs = true ∧ assemble segs = s :=
  segments_exist_aux s.length s (Nat.le_refl _) [] 0 [] [] h



theorem splitLinesAux_line (p body cur : List Char) (hp : ∀ c ∈ p, isLineBreak c = false) :
    splitLinesAux cur false (p ++ '\n' :: body) = (cur ++ p) :: splitLinesAux [] false body := by
  induction p generalizing cur with
  | nil => simp [splitLinesAux, isLineBreak]
  | cons c p ih =>
    have hc : isLineBreak c = false := hp c (by simp)
    have := ih (cur ++ [c]) (fun d hd => hp d (by simp [hd]))
    simp [splitLinesAux, hc, this]

theorem pragmaLines_no_prefix (cur : Option Nat) (body : List Char) (h : "#$".toList.isPrefixOf body = false) :
    pragmaLines cur (splitLinesAux [] false body) = .ok cur := by
  match body, h with
  | [], _ => simp [splitLinesAux, pragmaLines]
  | [c], _ =>
    simp only [splitLinesAux, Bool.false_eq_true, false_and, if_false]
    split <;> simp [pragmaLines, List.isPrefixOf]
  | c :: d :: rest, h =>
    by_cases h1 : isLineBreak c = true
    · simp only [splitLinesAux, Bool.false_eq_true, false_and, if_false, h1, if_true]
      exact pragmaLines_not_prefix _ _ _ (by simp)
    · by_cases h2 : isLineBreak d = true
      · simp only [splitLinesAux, Bool.false_eq_true, false_and, if_false, h1, h2, if_true]
        exact pragmaLines_not_prefix _ _ _ (by simp [List.isPrefixOf])
      · simp only [splitLinesAux, Bool.false_eq_true, false_and, if_false, h1, h2]
        obtain ⟨l, ls, e⟩ := splitLinesAux_head ([] ++ [c] ++ [d]) rest (by simp)
        rw [e]
        apply pragmaLines_not_prefix
        simpa [List.isPrefixOf] using h

/-- a first line `#$...` followed by a body that does not start with `#$`: the pragma is what that one line says -/
theorem processPragma_first_line (p body : List Char) (hp : ∀ c ∈ p, isLineBreak c = false)
    (r : Option Nat) (hr : pragmaLine none ('#' :: '$' :: p) = .ok r)
    (hb : "#$".toList.isPrefixOf body = false) :
    processPragma ('#' :: '$' :: p ++ '\n' :: body) = .ok r := by
  unfold processPragma splitLines
  have hl : ∀ c ∈ '#' :: '$' :: p, isLineBreak c = false := by
    intro c hc
    simp only [List.mem_cons] at hc
    rcases hc with rfl | rfl | hc
    · decide
    · decide
    · exact hp c hc
  have := splitLinesAux_line ('#' :: '$' :: p) body [] hl
  simp only [List.nil_append] at this
  rw [this, pragmaLines]
  have hpre : "#$".toList.isPrefixOf ('#' :: '$' :: p) = true := by simp [List.isPrefixOf]
  simp only [hpre, if_true, hr]
  exact pragmaLines_no_prefix r body hb

theorem expected_comment_cons (c : List Char) (segs : List Seg) :
    expected (.comment c true :: segs) = ('#' :: c ++ '\n' :: (expected segs).1, (expected segs).2) := by
  simp [expected, keys, exprs, substSeg, assemble_cons, Seg.render]

end Bufr.Script
