/-
  Helper lemmas for C20: table merge by repeated dictionary assignment, `_fix_ncep_descriptors`
  (identity on trees without member-less replications, the member-less replication cases).
-/
import BufrModel.Msg.TableDef
namespace Bufr.C20
open Bufr Bufr.TableDef


theorem foldl_insertB_b (l : List (Nat × Elem)) (T : Tables) (id : Nat) :
    (l.foldl insertB T).b id = (lookupLast l id).orElse (fun _ => T.b id) := by
  induction l generalizing T with
  | nil => rfl
  | cons p rest ih =>
    rw [List.foldl_cons, ih, lookupLast]
    cases lookupLast rest id with
    | some v => rfl
    | none =>
      by_cases h : id = p.1
      · simp [Option.orElse, insertB, h]
      · have h' : ¬ p.1 = id := fun e => h e.symm
        simp [Option.orElse, insertB, h, h']

theorem foldl_insertB_d (l : List (Nat × Elem)) (T : Tables) : (l.foldl insertB T).d = T.d := by
  induction l generalizing T with
  | nil => rfl
  | cons p rest ih => rw [List.foldl_cons, ih]; rfl

theorem foldl_insertD_d (l : List (Nat × List Nat)) (T : Tables) (id : Nat) :
    (l.foldl insertD T).d id = (lookupLast l id).orElse (fun _ => T.d id) := by
  induction l generalizing T with
  | nil => rfl
  | cons p rest ih =>
    rw [List.foldl_cons, ih, lookupLast]
    cases lookupLast rest id with
    | some v => rfl
    | none =>
      by_cases h : id = p.1
      · simp [Option.orElse, insertD, h]
      · have h' : ¬ p.1 = id := fun e => h e.symm
        simp [Option.orElse, insertD, h, h']

theorem foldl_insertD_b (l : List (Nat × List Nat)) (T : Tables) : (l.foldl insertD T).b = T.b := by
  induction l generalizing T with
  | nil => rfl
  | cons p rest ih => rw [List.foldl_cons, ih]; rfl

end Bufr.C20

namespace Bufr.C20
open Bufr Bufr.TableDef

mutual
/-- no member-less replication anywhere in the tree -/
def noBare : Desc → Bool
  | .fixedRep _ ms => !ms.isEmpty && noBareL ms
  | .delayedRep _ _ ms => !ms.isEmpty && noBareL ms
  | .seq _ ms => noBareL ms
  | _ => true
def noBareL : List Desc → Bool
  | [] => true
  | d :: ds => noBare d && noBareL ds
end

theorem bareSingle_noBare {ms : List Desc} {r : Desc} (h : bareSingle ms = some r) : noBareL ms = false := by
  have := bareSingle_eq h
  subst this
  unfold bareSingle at h
  simp only at h
  split at h
  · rename_i hb
    cases r <;> simp [isBareRep] at hb
    all_goals (rename_i ms; cases ms <;> simp_all [noBareL, noBare])
  · cases h

theorem fixNcep_id (ds : List Desc) (h : noBareL ds = true) : fixNcep ds = .ok ds := by
  fun_induction fixNcep ds <;> try (simp_all [noBareL, noBare]; done)
  case case2 s ms rest r hb ih =>
    have := bareSingle_noBare hb
    simp [noBareL, noBare, this] at h
  all_goals
    simp only [noBareL, noBare, Bool.and_eq_true, Bool.true_and] at h
    simp_all
    rfl

end Bufr.C20

namespace Bufr.C20
open Bufr Bufr.TableDef

theorem seq_bare_fixed (s id : Nat) (rest : List Desc) :
    fixNcep (.seq s [.fixedRep id []] :: rest) = fixNcep (.fixedRep id [] :: rest) := by
  conv => lhs; unfold fixNcep
  simp [bareSingle, isBareRep]
theorem seq_bare_delayed (s id : Nat) (f : Desc) (rest : List Desc) :
    fixNcep (.seq s [.delayedRep id f []] :: rest) = fixNcep (.delayedRep id f [] :: rest) := by
  conv => lhs; unfold fixNcep
  simp [bareSingle, isBareRep]
theorem bare_fixed_cons (id : Nat) (d : Desc) (rest : List Desc) (hx : xOf id = 1) :
    fixNcep (.fixedRep id [] :: d :: rest) =
      (do let ms ← fixNcep [d]; let tl ← fixNcep rest; pure (.fixedRep id ms :: tl)) := by
  conv => lhs; unfold fixNcep
  simp [hx]
theorem bare_delayed_cons (id : Nat) (f d : Desc) (rest : List Desc) (hx : xOf id = 1) :
    fixNcep (.delayedRep id f [] :: d :: rest) =
      (do let ms ← fixNcep [d]; let tl ← fixNcep rest; pure (.delayedRep id f ms :: tl)) := by
  conv => lhs; unfold fixNcep
  simp [hx]
theorem bare_fixed_badX (id : Nat) (rest : List Desc) (hx : xOf id ≠ 1) :
    fixNcep (.fixedRep id [] :: rest) = .error .other := by
  conv => lhs; unfold fixNcep
  simp [hx]
theorem bare_delayed_badX (id : Nat) (f : Desc) (rest : List Desc) (hx : xOf id ≠ 1) :
    fixNcep (.delayedRep id f [] :: rest) = .error .other := by
  conv => lhs; unfold fixNcep
  simp [hx]
theorem bare_fixed_last (id : Nat) : fixNcep [.fixedRep id []] = .error .other := by
  conv => lhs; unfold fixNcep
  simp
theorem bare_delayed_last (id : Nat) (f : Desc) : fixNcep [.delayedRep id f []] = .error .other := by
  conv => lhs; unfold fixNcep
  simp

end Bufr.C20
