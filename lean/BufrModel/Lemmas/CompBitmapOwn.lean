/-
  Finding F24b (repaired): `define_bitmap` of compressed data compares the 031031 values of every subset with those of
  subset 0.  Consequence for the attribute links: the link specification of C07 (`Spec.links`, computed from the recorded
  labels and VALUES) holds for compressed data with the values of ANY subset, not only of subset 0 — every subset's links
  are the ones ITS OWN bit-map values designate (`decPrimsC_recAt j`: the compressed decoder's primitives are `Rec` with
  respect to the value list of subset `j`; the `lastValues` clause is where the repair is used).
-/
import BufrModel.Lemmas.LinkSpecComp
import BufrModel.Lemmas.CompFactors
namespace Bufr.C07
open Bufr Bufr.Spec

/-- the values recorded so far for subset `j`, in processing order (as `decV` for subset 0) -/
def decVAt (j : Nat) (s : St) : List Val :=
  match s.vals[j]? with
  | none => List.replicate s.descs.length Val.missing
  | some l => l.reverse

theorem decVAt_setRegs (j : Nat) (s : St) (f : Regs → Regs) : decVAt j (s.setRegs f) = decVAt j s := rfl
theorem decVAt_addLink (j : Nat) (s : St) (o : Nat) : decVAt j (addLink s o) = decVAt j s := rfl

theorem decVAt_pushCol (j : Nat) (s : St) (dd : DDesc) (col : List Val) (b : Bits) (hc : col.length = s.vals.length) :
    ∃ v, decVAt j ({ (s.pushDesc dd) with bits := b }.pushCol col) = decVAt j s ++ [v] := by
  unfold decVAt St.pushCol St.pushDesc
  simp only
  by_cases hj : j < s.vals.length
  · have hjc : j < col.length := by rw [hc]; exact hj
    rw [List.getElem?_zipWith, List.getElem?_eq_getElem hjc, List.getElem?_eq_getElem hj]
    exact ⟨col[j], by simp⟩
  · have h1 : s.vals[j]? = none := List.getElem?_eq_none (by omega)
    have h2 : (List.zipWith (· :: ·) col s.vals)[j]? = none :=
      List.getElem?_eq_none (by rw [List.length_zipWith, hc, Nat.min_self]; omega)
    rw [h1, h2]
    exact ⟨.missing, by simp [List.replicate_succ']⟩

theorem decVAt_pushAll (j : Nat) (s : St) (dd : DDesc) (v : Val) (b : Bits) :
    ∃ w, decVAt j ({ (s.pushDesc dd) with bits := b }.pushAll v) = decVAt j s ++ [w] := by
  have := decVAt_pushCol j s dd (List.replicate s.vals.length v) b (by simp)
  unfold St.pushCol at this
  unfold St.pushAll
  rw [map_cons_replicate]
  exact this
where
  map_cons_replicate {v : Val} {vals : List (List Val)} :
      vals.map (v :: ·) = List.zipWith (· :: ·) (List.replicate vals.length v) vals := by
    induction vals with
    | nil => rfl
    | cons l r ih => rw [List.map_cons, List.length_cons, List.replicate_succ, List.zipWith_cons_cons, ← ih]

theorem lastSlice_spec {k : Nat} (hk : 1 ≤ k) (row : List Val) : lastSlice k row = Spec.lastN k row.reverse := by
  unfold lastSlice Spec.lastN
  rw [if_neg (by omega), List.reverse_take, List.length_reverse]

/-- the compressed decoder's primitives with respect to the values of subset `j` (invariant: subset `j` exists) -/
theorem decPrimsC_recAt (j : Nat) : Rec decPrimsC (decVAt j) (fun s => j < s.vals.length) where
  quiet := decPrimsC_quiet
  numeric := fun dd n sc r s s' h => by
    obtain ⟨col, b, hc, rfl⟩ := decNumericC_push dd n sc r s s' h
    exact decVAt_pushCol j s dd col b hc
  string := fun dd n s s' h => by
    obtain ⟨col, b, hc, rfl⟩ := decStringC_push dd n s s' h
    exact decVAt_pushCol j s dd col b hc
  codeflag := fun dd n s s' h => by
    obtain ⟨col, b, hc, rfl⟩ := decCodeflagC_push dd n s s' h
    exact decVAt_pushCol j s dd col b hc
  constant := fun dd c s s' h => by
    have h : decConstant dd c s = .ok s' := h
    unfold decConstant at h
    injection h with h; subst h
    exact decVAt_pushAll j s dd (.int c) s.bits
  newRefval := fun e n s s' h => by
    obtain ⟨b, v, rfl⟩ := decNewRefvalC_shape e n s s' h
    exact ⟨rfl, decVAt_pushAll j s (.plain e) _ b⟩
  lastValues := fun k s l h hk _ hx => by
    have h : decLastValuesC k s = .ok l := h
    obtain ⟨_, hall⟩ := decLastValuesC_ok h
    have hrow := hall (s.vals[j]) (List.getElem_mem hx)
    unfold decVAt
    rw [List.getElem?_eq_getElem hx]
    simp only
    rw [← hrow]
    exact lastSlice_spec hk _
  numericL := decPrimsC_rec.numericL
  stringL := decPrimsC_rec.stringL
  codeflagL := decPrimsC_rec.codeflagL
  constantL := decPrimsC_rec.constantL
  newRefvalL := decPrimsC_rec.newRefvalL
  numericX := fun dd n sc r s s' h hx => by rw [decPrimsC_rec.numericL dd n sc r s s' h]; exact hx
  stringX := fun dd n s s' h hx => by rw [decPrimsC_rec.stringL dd n s s' h]; exact hx
  codeflagX := fun dd n s s' h hx => by rw [decPrimsC_rec.codeflagL dd n s s' h]; exact hx
  constantX := fun dd c s s' h hx => by rw [decPrimsC_rec.constantL dd c s s' h]; exact hx
  newRefvalX := fun e n s s' h hx => by rw [decPrimsC_rec.newRefvalL e n s s' h]; exact hx
  setRegsX := fun _ _ hx => hx
  addLinkX := fun _ _ hx => hx
  setRegs := fun s f => decVAt_setRegs j s f
  addLink := fun s o => decVAt_addLink j s o

end Bufr.C07
