/-
  Truncation behaviour of the WHOLE-MESSAGE section decoder (`Msg/Sections.lean`).

  `R.Trunc r` (`Lemmas/Frame.lean`): a successful run of `r` consumed a prefix `c` of its input, it
  returns the same value on `c` followed by ANYTHING, and on every PROPER prefix of `c` it fails with
  `Err.bitRead`.  Here the closure lemmas are extended to the reader combinators of `Basic/Bits.lean`
  (`R.pure`, `R.fail`, `R.lift`, `R.map`, `R.counted`) and then lifted, definition by definition,
  through the section decoder: `readDescs`, `readTyped`, `decValue`, `decParams`, `finishSection`,
  `decSection`, `decLoop`, `decodeBits` — for every layout family, every option set and every data
  reader that is itself `R.Trunc` (which `decodeData` is: `decodeData_trunc`).

  Nothing here looks inside `checkExpected`, `secLen`, `getCfg`, `isPresent`: they are `R.lift`s of a
  value that does not depend on the stream, and an `R.lift` is `R.Trunc` whatever it holds.

  Byte-level helpers (`bytesToBits` of an append / of a `take`, `findFrom startSig`) are at the end.
-/
import BufrModel.Msg.Sections
import BufrModel.Lemmas.Bits
import BufrModel.Lemmas.Frame
import BufrModel.Lemmas.SectionsDec
namespace Bufr

/-! ## combinators -/

theorem st_pure {α : Type} (a : α) : R.Trunc (R.pure a) := R.Trunc.pure a

theorem st_fail {α : Type} (e : Err) : R.Trunc (R.fail e : R α) := R.Trunc.fail e

theorem st_lift {α : Type} (v : Except Err α) : R.Trunc (R.lift v) := by
  cases v with
  | ok a => exact st_pure a
  | error e => exact st_fail e

theorem st_bind {α β : Type} {f : R α} {g : α → R β} (hf : R.Trunc f) (hg : ∀ a, R.Trunc (g a)) :
    R.Trunc (R.bind f g) := R.Trunc.bind' hf hg

theorem st_map {α β : Type} (h : α → β) {f : R α} (hf : R.Trunc f) : R.Trunc (R.map h f) :=
  R.Trunc.bind' hf fun a => st_pure (h a)

/-- counting the consumed bits: the count is the length of the consumed prefix, whatever follows -/
theorem st_counted {α : Type} {f : R α} (hf : R.Trunc f) : R.Trunc (R.counted f) := by
  intro bs an rest e
  simp only [R.counted] at e
  split at e
  · cases e
  rename_i a r1 hfx
  cases e
  obtain ⟨c, hx, l, t⟩ := hf bs a rest hfx
  refine ⟨c, hx, fun y => ?_, fun q hq => ?_⟩
  · simp only [R.counted, l y, hx, List.length_append, Nat.add_sub_cancel]
  · simp only [R.counted, t q hq]

/-- the count returned by `counted` is the length of the consumed prefix -/
theorem st_counted_len {α : Type} {f : R α} (hf : R.Trunc f) {x : Bits} {a : α} {n : Nat} {r : Bits}
    (h : R.counted f x = .ok ((a, n), r)) : x.length = n + r.length := by
  simp only [R.counted] at h
  split at h
  · cases h
  rename_i a' r1 hfx
  cases h
  obtain ⟨c, hx, _⟩ := hf x a r hfx
  rw [hx]; simp

/-! ## the section decoder -/

theorem st_readDescs : ∀ n, R.Trunc (readDescs n)
  | 0 => st_pure _
  | n + 1 => by
    unfold readDescs
    exact st_bind (readUInt_trunc 2) fun f => st_bind (readUInt_trunc 6) fun x =>
      st_bind (readUInt_trunc 8) fun y => st_map _ (st_readDescs n)

theorem st_readTyped (ty : PType) (n : Nat) : R.Trunc (readTyped ty n) := by
  cases ty <;> simp only [readTyped]
  · exact st_map _ (readUInt_trunc n)
  · exact st_map _ (readInt_trunc n)
  · exact st_map _ readBool_trunc
  · exact st_map _ (readBin_trunc n)
  · exact st_map _ (readBytes_trunc _)
  · exact st_fail _
  · exact st_fail _

theorem st_decValue {α : Type} (dc : DataCoder α) (hdc : ∀ reg, R.Trunc (dc.dec reg)) (st : DecSt α) (p : Param) :
    R.Trunc (decValue dc st p) := by
  unfold decValue
  split
  · exact st_bind (st_lift _) fun d => st_map _ (st_readDescs _)
  · exact st_map _ (hdc _)
  · split
    · split
      · exact st_map _ (st_readTyped _ _)
      · exact st_bind (st_lift _) fun d => by
          split
          · exact st_fail _
          · exact st_map _ (st_readTyped _ _)
    · exact st_map _ (st_readTyped _ _)

theorem st_decParams {α : Type} (dc : DataCoder α) (hdc : ∀ reg, R.Trunc (dc.dec reg)) (start : Nat) :
    ∀ (ps : List Param) (off : Nat) (st : DecSt α), R.Trunc (decParams dc start ps off st) := by
  intro ps
  induction ps with
  | nil => intro off st; exact st_pure st
  | cons p ps ih =>
    intro off st
    unfold decParams
    refine st_bind (st_counted (st_decValue dc hdc st p)) fun vdn => ?_
    obtain ⟨⟨v, d⟩, n⟩ := vdn
    exact st_bind (st_lift _) fun _ => ih _ _

theorem st_finishSection {α : Type} (s : SectionLayout) (st : DecSt α) : R.Trunc (finishSection s st) := by
  unfold finishSection
  split
  · refine st_bind (st_lift _) fun d => ?_
    split
    · exact st_map _ (readBin_trunc _)
    · split
      · exact st_fail _
      · exact st_pure _
  · exact st_pure _

theorem st_decSection {α : Type} (dc : DataCoder α) (hdc : ∀ reg, R.Trunc (dc.dec reg)) (s : SectionLayout)
    (reg : Registry) (start : Nat) : R.Trunc (decSection dc s reg start) :=
  st_bind (st_decParams dc hdc start _ _ _) (st_finishSection s)

theorem st_decLoop {α : Type} (L : Layouts) (dc : DataCoder α) (hdc : ∀ reg, R.Trunc (dc.dec reg)) (o : DecOpts) :
    ∀ (fuel idx : Nat) (reg : Registry) (out : DecOut α), R.Trunc (decLoop L dc o fuel idx reg out) := by
  intro fuel
  induction fuel with
  | zero => intro idx reg out; exact st_fail _
  | succ fuel ih =>
    intro idx reg out
    unfold decLoop
    refine st_bind (st_lift _) fun s0 => st_bind (st_lift _) fun present => ?_
    split
    · exact ih _ _ _
    · refine st_bind (st_decSection dc hdc _ _ _) fun res => ?_
      obtain ⟨sec, reg1, d⟩ := res
      simp only
      split
      · exact st_pure _
      · exact ih _ _ _

/-- the sections of one message: consumed prefix, independence of what follows, `BitReadError` on
    every proper prefix of what was consumed -/
theorem st_decodeBits {α : Type} (L : Layouts) (dc : DataCoder α) (hdc : ∀ reg, R.Trunc (dc.dec reg))
    (o : DecOpts) : R.Trunc (decodeBits L dc o) :=
  st_decLoop L dc hdc o _ _ _ _

/-- `R.Trunc` implies the prefix-determinedness (`Local`) that `Lemmas/SectionsDec.lean` works with -/
theorem st_local {α : Type} {f : R α} (hf : R.Trunc f) : Local f := by
  intro x a r h
  obtain ⟨c, hx, l, _⟩ := hf x a r h
  exact ⟨c, hx, l⟩

/-- the number of bits a successful run consumed is the `nbits` it reports -/
theorem st_decodeBits_consumed {α : Type} (L : Layouts) (dc : DataCoder α) (hdc : ∀ reg, R.Trunc (dc.dec reg))
    (o : DecOpts) (bits : Bits) (out : DecOut α) (rest : Bits) (h : decodeBits L dc o bits = .ok (out, rest)) :
    bits.length = out.nbits + rest.length := by
  obtain ⟨p, news, h1, _, h3, _, _, _⟩ :=
    decLoop_local L dc (fun reg => st_local (hdc reg)) o _ _ _ _ _ _ _ h
  simp only [Nat.zero_add] at h3
  rw [h1, h3, List.length_append]

/-! ## every cut of the input, for any `R.Trunc` reader -/

/-- cutting the input of a successful read after `k` bits: `BitReadError` inside the consumed part,
    the same value (and what remains of the rest) at or after its end -/
theorem st_take {α : Type} {r : R α} (hr : R.Trunc r) (bits : Bits) (a : α) (rest : Bits)
    (h : r bits = .ok (a, rest)) (k : Nat) :
    r (bits.take k) =
      if k < bits.length - rest.length then .error .bitRead
      else .ok (a, rest.take (k - (bits.length - rest.length))) := by
  obtain ⟨p, e, l, tr⟩ := hr bits a rest h
  subst e
  have hlen : (p ++ rest).length - rest.length = p.length := by simp
  rw [hlen]
  by_cases hk : k < p.length
  · rw [if_pos hk]
    apply tr
    refine pprefix_of_length_lt (z := (p ++ rest).take p.length |>.drop k) ?_ ?_
    · rw [List.take_left' rfl, List.take_append_of_le_length (by omega), List.take_append_drop]
    · simp only [List.length_take, List.length_append]; omega
  · rw [if_neg hk]
    have : (p ++ rest).take k = p ++ rest.take (k - p.length) := by
      rw [List.take_append]
      rw [List.take_of_length_le (by omega)]
    rw [this]
    exact l _

/-- a proper `take` is a proper prefix -/
theorem st_pprefix_take (c : Bits) (k : Nat) (hk : k < c.length) : PPrefix (c.take k) c :=
  pprefix_of_length_lt (z := c.drop k) (List.take_append_drop k c) (by simp only [List.length_take]; omega)

/-! ## bytes and bits -/

theorem st_bytesToBits_append (a b : List UInt8) : bytesToBits (a ++ b) = bytesToBits a ++ bytesToBits b := by
  simp [bytesToBits, List.flatMap_append]

theorem st_byteBits_length (b : UInt8) : (byteBits b).length = 8 := toBits_length 8 _

theorem st_bytesToBits_take (m : List UInt8) (k : Nat) :
    bytesToBits (m.take k) = (bytesToBits m).take (8 * k) := by
  induction m generalizing k with
  | nil => simp [bytesToBits]
  | cons b bs ih =>
    cases k with
    | zero => simp [bytesToBits]
    | succ k =>
      have hb : (byteBits b).length = 8 := st_byteBits_length b
      have e1 : bytesToBits (b :: bs) = byteBits b ++ bytesToBits bs := by simp [bytesToBits]
      have e2 : bytesToBits (b :: bs.take k) = byteBits b ++ bytesToBits (bs.take k) := by simp [bytesToBits]
      rw [List.take_succ_cons, e1, e2, ih k, List.take_append, hb,
        List.take_of_length_le (by omega : (byteBits b).length ≤ 8 * (k + 1))]
      congr 2

/-- fewer than four octets cannot contain the start signature -/
theorem st_findFrom_short : ∀ (s : List UInt8), s.length < 4 → findFrom startSig s = none
  | [], _ => by simp [findFrom, startSig]
  | b :: bs, h => by
    have hnp : startSig.isPrefixOf (b :: bs) = false := by
      cases hp : startSig.isPrefixOf (b :: bs) with
      | false => rfl
      | true =>
        rw [List.isPrefixOf_iff_prefix] at hp
        have := hp.length_le
        simp only [startSig, List.length_cons, List.length_nil] at this h
        omega
    simp only [findFrom, hnp, Bool.false_eq_true, if_false]
    exact st_findFrom_short bs (by simp only [List.length_cons] at h; omega)

/-- a stream that starts with the start signature is searched no further -/
theorem st_findFrom_prefix (s : List UInt8) (h : startSig.isPrefixOf s = true) : findFrom startSig s = some s := by
  cases s with
  | nil => simp [startSig] at h
  | cons c cs => simp only [findFrom, h, if_true]

theorem st_startSig_length_le (m : List UInt8) (h : startSig.isPrefixOf m = true) : 4 ≤ m.length := by
  rw [List.isPrefixOf_iff_prefix] at h
  simpa [startSig] using h.length_le

/-- at least four octets of a stream that starts with the signature still start with it -/
theorem st_startSig_take (m : List UInt8) (h : startSig.isPrefixOf m = true) (k : Nat) (hk : 4 ≤ k) :
    startSig.isPrefixOf (m.take k) = true := by
  rw [List.isPrefixOf_iff_prefix] at h ⊢
  obtain ⟨t, rfl⟩ := h
  have hl : startSig.length = 4 := rfl
  rw [List.take_append, List.take_of_length_le (by omega)]
  exact List.prefix_append _ _

end Bufr
