/-
  C09, compressed data: the link between the coder and the wiring pass.

  For compressed data the coder walks the template ONCE, recording one descriptor and one COLUMN of values (one
  entry per subset) per call; `TemplateData.wire` runs once, on the flat lists of subset 0, and every subset's
  values hang on that one tree (`wireAll t true outs`).  The simulation of `Lemmas/WireSim.lean` is generic in
  the primitives (`PushOne`); its relation looks at the FIRST value list only (the one the wiring pass reads the
  delayed replication counts from: `decFactorC` returns the count of subset 0 as well), and carries along that all
  value lists are as long as the descriptor list (`Idle.al`).  Here: `decPrimsC` is `PushOne`, hence for a
  `quietList` template every successful `decodeCompressed` is wired successfully on subset 0, the tree has the
  shape `plainList`, and every subset shares the labels and has as many values as labels.

  What a later subset needs besides: the renderers read the delayed replication count of subset `j` from the
  values of subset `j`.  BEFORE the repair of finding F24 the coder only checked that the NON-MISSING counts agree
  (`minmaxInt`, `decFactorCLax`), so a later subset could hold a missing count where subset 0 holds `n`;
  `Spec.sameCountsList` (decidable, the hypothesis C16 uses for compressed data too) says that it does not.  Since the
  repair (`sameAsFirst`) it is derivable for decoded output: Lemmas/CompFactors.lean, Props/C09Factors.lean.
-/
import BufrModel.Lemmas.WireSim
import BufrModel.Lemmas.LinkSpecComp
import BufrModel.Lemmas.CompFactors
import BufrModel.Spec.EvalPath
namespace Bufr.C09
open Bufr

theorem zipWith_cons_head {col : List Val} {vals : List (List Val)} {l : List Val}
    (hc : col.length = vals.length) (hl : vals.head? = some l) :
    ∃ v, (List.zipWith (· :: ·) col vals).head? = some (v :: l) := by
  cases vals with
  | nil => cases hl
  | cons l0 r =>
    injection hl with hl
    subst hl
    cases col with
    | nil => simp at hc
    | cons c cs => exact ⟨c, rfl⟩

theorem zipWith_cons_mem {col : List Val} {vals : List (List Val)} {x : List Val}
    (hx : x ∈ List.zipWith (· :: ·) col vals) : ∃ c l, l ∈ vals ∧ x = c :: l := by
  induction col generalizing vals with
  | nil => simp at hx
  | cons c cs ih =>
    cases vals with
    | nil => simp at hx
    | cons l r =>
      rw [List.zipWith_cons_cons, List.mem_cons] at hx
      rcases hx with rfl | hx
      · exact ⟨c, l, by simp, rfl⟩
      · obtain ⟨c', l', h1, h2⟩ := ih hx
        exact ⟨c', l', by simp [h1], h2⟩

theorem pushed_pushCol (s : St) (dd : DDesc) (col : List Val) (b : Bits) (hc : col.length = s.vals.length) :
    Pushed dd s ({ (s.pushDesc dd) with bits := b }.pushCol col) := by
  refine ⟨rfl, fun l hl => zipWith_cons_head hc hl, fun h x hx => ?_, rfl, rfl, rfl, rfl, rfl, rfl, rfl⟩
  obtain ⟨c, l, h1, rfl⟩ := zipWith_cons_mem (show x ∈ List.zipWith (· :: ·) col s.vals from hx)
  show (c :: l).length = (dd :: s.descs).length
  rw [List.length_cons, List.length_cons, h l h1]

theorem mapM_headVal_cons {l : List Val} {r : List (List Val)} {heads : List Val}
    (h : List.mapM (m := Except Err) headVal (l :: r) = .ok heads) :
    ∃ h0 hs, heads = h0 :: hs ∧ l.head? = some h0 := by
  rw [List.mapM_cons] at h
  cases h0 : headVal l with
  | error e => rw [h0] at h; cases h
  | ok v =>
    rw [h0] at h
    cases hr : List.mapM (m := Except Err) headVal r with
    | error e => rw [hr] at h; cases h
    | ok hs =>
      rw [hr] at h
      cases h
      refine ⟨v, hs, rfl, ?_⟩
      unfold headVal at h0
      split at h0
      · cases h0
      · injection h0 with h0; subst h0; rfl

theorem pushOne_decPrimsC : PushOne decPrimsC where
  numeric := by
    intro dd a b c s s' h
    obtain ⟨col, bb, hc, rfl⟩ := C07.decNumericC_push dd a b c s s' h
    exact pushed_pushCol s dd col bb hc
  string := by
    intro dd n s s' h
    obtain ⟨col, bb, hc, rfl⟩ := C07.decStringC_push dd n s s' h
    exact pushed_pushCol s dd col bb hc
  codeflag := by
    intro dd n s s' h
    obtain ⟨col, bb, hc, rfl⟩ := C07.decCodeflagC_push dd n s s' h
    exact pushed_pushCol s dd col bb hc
  newRefval := by
    intro e n s s' h
    obtain ⟨b, v, rfl⟩ := C07.decNewRefvalC_shape e n s s' h
    refine ⟨rfl, fun l hl => ⟨.int v, ?_⟩, fun h => pushAll_al s s.descs (.int v) (.plain e) h,
      rfl, rfl, rfl, rfl, rfl, rfl, rfl⟩
    show (s.vals.map (Val.int v :: ·)).head? = _
    rw [List.head?_map, hl]
    rfl
  constant := pushOne_decPrimsU.constant
  factor := by
    intro s v l h hl
    change decFactorC s = .ok v at h
    exact (decFactorC_ok h).2 l (List.mem_of_mem_head? hl)

/-- for a quiet template the wiring pass, run on the flat lists of subset 0, follows every successful COMPRESSED
    decode to its end; all subsets share labels and links and have as many values as labels -/
theorem decodeCompressed_wire {a : Bool} {t : List Desc} (hq : quietList a t = true) {n : Nat} {bits rest : Bits}
    {outs : List SubsetOut} {o0 : SubsetOut} (h : decodeCompressed t n bits = .ok (outs, rest))
    (h0 : outs.head? = some o0) :
    ∃ w, wireRaw t o0 = .ok w ∧ w.st.next = o0.vals.length ∧ plainList o0 w.nodes = true ∧ w.st.tab = [] ∧
      ∀ o ∈ outs, o.descs = o0.descs ∧ o.links = o0.links ∧ o.vals.length = o.descs.length := by
  unfold decodeCompressed at h
  split at h
  · cases h
  · next s hs =>
    injection h with h
    injection h with ho _
    subst ho
    cases n with
    | zero =>
      -- no subset: the walk never adds a value list
      exfalso
      have g := C07.grows_walkList C07.decPrimsC_rec t _ s (by rfl) hs
      have hlen : s.vals.length = 0 := g.2.2.1
      unfold St.outs at h0
      cases hv : s.vals with
      | nil => rw [hv] at h0; cases h0
      | cons l r => rw [hv] at hlen; cases hlen
    | succ n =>
      have hi0 : Idle a ({ bits := bits, vals := List.replicate (n + 1) [] } : St) :=
        ⟨fun _ => rfl, fun _ => rfl, rfl, rfl, rfl, ⟨[], rfl, rfl⟩, fun l hl => by
          rw [List.mem_replicate] at hl; rw [hl.2]; rfl⟩
      have sim := walkList_sim pushOne_decPrimsC a t hq _ s hi0 hs
      obtain ⟨l, hl, hlen⟩ := sim.1.1.vals
      have hal := sim.1.1.al
      have ho0 : o0 = { descs := s.descs.reverse, vals := l.reverse, links := s.links.reverse } := by
        unfold St.outs at h0
        cases hv : s.vals with
        | nil => rw [hv] at hl; cases hl
        | cons l1 r =>
          rw [hv] at hl h0
          injection hl with hl
          subst hl
          simp only [List.map_cons, List.head?_cons, Option.some.injEq] at h0
          exact h0.symm
      have hb : Below o0 s := by
        refine ⟨l, hl, ?_, ?_⟩
        · rw [ho0]; exact List.prefix_refl _
        · rw [ho0]; exact List.prefix_refl _
      have hw0 : WRel ({ bits := bits, vals := List.replicate (n + 1) [] } : St) ({} : WSt) :=
        ⟨rfl, rfl, rfl, rfl, rfl⟩
      have hM0 : Meant o0 ({} : WSt) := fun hne => absurd rfl hne
      obtain ⟨ns, w', e, hw', _, g⟩ := sim.2 o0 {} hw0 (fun _ => hM0) hb
      dsimp only at e
      refine ⟨{ nodes := ns, st := w' }, by unfold wireRaw; rw [e], ?_, g, hw'.tab, ?_⟩
      · show w'.next = o0.vals.length
        rw [hw'.next, ← hlen, ho0]
        simp
      · intro o ho
        unfold St.outs at ho
        obtain ⟨l1, h1, rfl⟩ := List.mem_map.mp ho
        rw [ho0]
        refine ⟨rfl, rfl, ?_⟩
        simp [hal l1 h1]

/-! ### a later subset on the shared tree -/

theorem wireCount_of_descs_irrelevant (o o' : SubsetOut) (hv : o.vals = o'.vals) (i : Nat) :
    wireCount o i = wireCount o' i := by
  unfold wireCount
  rw [hv]

theorem attrsOK_congr {o0 o : SubsetOut} (hd : o.descs = o0.descs) (attrs : List Node) :
    attrsOK o attrs = attrsOK o0 attrs := by
  unfold attrsOK
  rw [hd]

theorem plainValue?_congr {o0 o : SubsetOut} (hd : o.descs = o0.descs) (n : Node) :
    plainValue? o n = plainValue? o0 n := by
  cases n <;> simp only [plainValue?]
  rw [attrsOK_congr hd, hd]

mutual
/-- the shape `plainList` speaks about the value list only through the delayed replication counts -/
theorem plainList_shared {o0 o : SubsetOut} (hd : o.descs = o0.descs) : ∀ (ns : List Node),
    plainList o0 ns = true → Spec.sameCountsList o0 o ns = true → plainList o ns = true
  | [], _, _ => by rw [plainList]
  | n :: ns, h, hs => by
    rw [plainList, Bool.and_eq_true] at h
    rw [Spec.sameCountsList, Bool.and_eq_true] at hs
    rw [plainList, plain1_shared hd n h.1 hs.1, plainList_shared hd ns h.2 hs.2]
    rfl

theorem plain1_shared {o0 o : SubsetOut} (hd : o.descs = o0.descs) : ∀ (n : Node),
    plain1 o0 n = true → Spec.sameCounts1 o0 o n = true → plain1 o n = true
  | .value k i attrs, h, _ => by
    rw [plain1] at h ⊢
    rw [plainValue?_congr hd]
    exact h
  | .noval _, _, _ => by rw [plain1]
  | .seq id ms, h, hs => by
    rw [plain1, Bool.and_eq_true] at h
    rw [Spec.sameCounts1] at hs
    rw [plain1, h.1, plainList_shared hd ms h.2 hs]
    rfl
  | .fixedRep id n ms, h, hs => by
    rw [plain1, Bool.and_eq_true, Bool.and_eq_true] at h
    rw [Spec.sameCounts1] at hs
    rw [plain1, h.1.1, h.1.2, plainList_shared hd ms h.2 hs]
    rfl
  | .delayedRep id n f ms, h, hs => by
    rw [plain1, Bool.and_eq_true, Bool.and_eq_true, Bool.and_eq_true] at h
    obtain ⟨⟨⟨h1, h2⟩, h3⟩, h4⟩ := h
    obtain ⟨k, i, attrs, e, _, _⟩ := plainValue?_inv h2
    subst e
    rw [Spec.sameCounts1, Bool.and_eq_true, Bool.and_eq_true, decide_eq_true_eq] at hs
    obtain ⟨⟨hc, _⟩, hms⟩ := hs
    rw [plain1, h1, plainValue?_congr hd, h2, plainList_shared hd ms h4 hms]
    simp only [countOK] at h3 ⊢
    rw [hc]
    simpa using h3
end

end Bufr.C09
