/-
  Helper lemmas for C14 (history part): template construction in a process that holds in-stream
  table entries.

  * `buildD_congr`: `buildD` only looks at the table entries of the ids it reaches.
  * `Reach`: the ids a descriptor list reaches (the list itself and, through Table D, the rows of
    its sequence descriptors).
  * a second simulation of the counting machine `Spec.expandWith` by nested `take`/`drop`, this
    time for an arbitrary predicate on id lists (`semP`, `semP_step`, `counted_semP`), used to show
    that a well-counted list whose replications all have `X ≥ 1` builds to a tree without
    member-less replications (`noBare_buildD`), on which `_fix_ncep_descriptors` is the identity.
-/
import BufrModel.Lemmas.Template
import BufrModel.Lemmas.TableDefMerge
import BufrModel.Spec.Reach
namespace Bufr
open Spec Bufr.TableDef Bufr.C20

/-! ### `buildD` depends on the reached entries only -/

theorem lookupB_congr (T T' : Tables) (i : Nat) (h : T.b i = T'.b i) : T.lookupB i = T'.lookupB i := by
  unfold Tables.lookupB; rw [h]

theorem buildD_congr (T T' : Tables) (S : Nat → Prop)
    (hb : ∀ i, S i → T.b i = T'.b i) (hd : ∀ i, S i → T.d i = T'.d i)
    (hcl : ∀ i row, S i → 300000 ≤ i → T.d i = some row → ∀ m ∈ row, S m) (n : Nat) (ids : List Nat) :
    (∀ i ∈ ids, S i) → buildD T n ids = buildD T' n ids := by
  fun_induction buildD T n ids with
  | case1 depth => intro _; rw [buildD_nil]
  | case2 depth id rest h1 h2 ih =>
    intro hS
    have hid := hS id (List.mem_cons_self ..)
    rw [buildD_undefSeq T' depth id rest h1 (by rw [← hd id hid]; exact h2),
      ih (fun i hi => hS i (List.mem_cons_of_mem _ hi))]
  | case3 id rest h1 row h2 =>
    intro hS
    have hid := hS id (List.mem_cons_self ..)
    rw [buildD_seq_zero T' id rest row h1 (by rw [← hd id hid]; exact h2)]
  | case4 id rest h1 row h2 d ih1 ih2 =>
    intro hS
    have hid := hS id (List.mem_cons_self ..)
    rw [buildD_seq T' d id rest row h1 (by rw [← hd id hid]; exact h2),
      ih1 (hcl id row hid h1 h2), ih2 (fun i hi => hS i (List.mem_cons_of_mem _ hi))]
  | case5 depth id rest h1 h2 ih =>
    intro hS
    rw [buildD_op T' depth id rest h2 (by omega), ih (fun i hi => hS i (List.mem_cons_of_mem _ hi))]
  | case6 depth id h1 h2 h3 h4 =>
    intro _
    rw [buildD_delayed_nofactor T' depth id h3 (by omega) h4]
  | case7 depth id h1 h2 h3 h4 f rest ih1 ih2 =>
    intro hS
    have hf := hS f (List.mem_cons_of_mem _ (List.mem_cons_self ..))
    have hr : ∀ i ∈ rest, S i := fun i hi => hS i (List.mem_cons_of_mem _ (List.mem_cons_of_mem _ hi))
    rw [buildD_delayed T' depth id f rest h3 (by omega) h4,
      ih1 (fun i hi => hr i (List.mem_of_mem_take hi)), ih2 (fun i hi => hr i (List.mem_of_mem_drop hi)),
      lookupB_congr T T' f (hb f hf)]
  | case8 depth id rest h1 h2 h3 h4 ih1 ih2 =>
    intro hS
    have hr : ∀ i ∈ rest, S i := fun i hi => hS i (List.mem_cons_of_mem _ hi)
    rw [buildD_fixed T' depth id rest h3 (by omega) h4,
      ih1 (fun i hi => hr i (List.mem_of_mem_take hi)), ih2 (fun i hi => hr i (List.mem_of_mem_drop hi))]
  | case9 depth id rest h1 h2 h3 ih =>
    intro hS
    have hid := hS id (List.mem_cons_self ..)
    rw [buildD_plain T' depth id rest (by omega), ih (fun i hi => hS i (List.mem_cons_of_mem _ hi)),
      lookupB_congr T T' id (hb id hid)]

/-- ids the in-stream entries do not define keep the table-file meaning -/
theorem extend_b_of_none (T : Tables) (es : Entries) (i : Nat) (h : es.lookupB i = none) :
    (extend T es).b i = T.b i := by
  unfold extend Entries.lookupB at *
  rw [foldl_insertD_b, foldl_insertB_b, h]; rfl

theorem extend_d_of_none (T : Tables) (es : Entries) (i : Nat) (h : es.lookupD i = none) :
    (extend T es).d i = T.d i := by
  unfold extend Entries.lookupD at *
  rw [foldl_insertD_d, foldl_insertB_d, h]; rfl

/- `Reach T ids i` (the ids a descriptor list reaches: its own and, through Table D, those of the rows of the
   sequence descriptors reached) is `Bufr.Reach` of `Spec/Reach.lean` (shared with Props/C01Tables.lean). -/

/-! ### the counting machine simulated by `take`/`drop`, for a predicate -/

section Sim
variable (P : List Nat → Prop)

/-- the open scopes `s` (innermost first) cut the list into pieces that satisfy `P` -/
def semP : List Nat → List Nat → Prop
  | [], ids => P ids
  | c :: s, ids => c ≤ ids.length ∧ P (ids.take c) ∧ semP s (ids.drop c)

/-- a descriptor group `hd` that owns the next `X` ids -/
def HeadP (hd : List Nat) (X : Nat) : Prop :=
  ∀ l, X ≤ l.length → P (l.take X) → P (l.drop X) → P (hd ++ l)

theorem semP_step (hnil : P []) (hd : List Nat) (X : Nat) (hH : HeadP P hd X) :
    ∀ s s' l, enter hd.length X s = some s' → semP P s' l → semP P s (hd ++ l) := by
  intro s
  induction s with
  | nil =>
    intro s' l he hs
    simp only [enter, Option.some.injEq] at he
    subst he
    obtain ⟨hle, ha, hr⟩ := hs
    exact hH l hle ha hr
  | cons c s0 ih =>
    intro s' l he hs
    cases c with
    | zero =>
      simp only [enter] at he
      have := ih s' l he hs
      exact ⟨Nat.zero_le _, by simpa using hnil, by simpa using this⟩
    | succ c =>
      simp only [enter] at he
      split at he
      · rename_i hk
        simp only [Option.some.injEq] at he
        subst he
        obtain ⟨hle, ha, hle2, hb, hr⟩ := hs
        simp only [List.length_drop] at hle2
        refine ⟨by simp only [List.length_append]; omega, ?_, ?_⟩
        · have e1 : (hd ++ l).take (c + 1) = hd ++ l.take (c + 1 - hd.length) := by
            rw [List.take_append]
            rw [List.take_of_length_le (by omega)]
          rw [e1]
          apply hH
          · simp only [List.length_take]; omega
          · rw [List.take_take, Nat.min_eq_left (by omega)]; exact ha
          · rw [List.drop_take]; exact hb
        · have e2 : (hd ++ l).drop (c + 1) = (l.drop X).drop (c + 1 - hd.length - X) := by
            rw [List.drop_append, List.drop_of_length_le (by omega), List.drop_drop]
            simp only [List.nil_append]
            congr 1; omega
          rw [e2]; exact hr
      · cases he

theorem semP_closed (hnil : P []) : ∀ s, closed s = true → semP P s [] := by
  intro s
  induction s with
  | nil => intro _; exact hnil
  | cons c s ih =>
    intro h
    simp only [closed, List.all_cons, Bool.and_eq_true, beq_iff_eq] at h
    obtain ⟨rfl, h⟩ := h
    exact ⟨Nat.le_refl _, by simpa using hnil, by simpa using ih h⟩

/-- whenever the counting pass accepts a list, the open scopes cut it into `P` pieces -/
theorem counted_semP (hnil : P [])
    (hplain : ∀ id, ¬ (100000 ≤ id ∧ id < 200000) → HeadP P [id] 0)
    (hfixed : ∀ id, 100000 ≤ id → id < 200000 → id % 1000 ≠ 0 → HeadP P [id] (xOf id))
    (hdelayed : ∀ id f, 100000 ≤ id → id < 200000 → id % 1000 = 0 → HeadP P [id, f] (xOf id))
    (sub : Nat → Option (List Nat)) (s ids : List Nat) :
    (expandWith sub s ids).isSome = true → semP P s ids := by
  fun_induction expandWith sub s ids with
  | case1 s hc => intro _; exact semP_closed P hnil s hc
  | case2 s hc => intro h; simp at h
  | case3 s id rest h3 o s' he hs ih =>
    intro h
    simp only [Option.isSome_map] at h
    exact semP_step P hnil [id] 0 (hplain id (by omega)) s s' rest he (ih h)
  | case4 => intro h; simp at h
  | case5 s id rest h3 h2 s' he ih =>
    intro h
    simp only [Option.isSome_map] at h
    exact semP_step P hnil [id] 0 (hplain id (by omega)) s s' rest he (ih h)
  | case6 => intro h; simp at h
  | case7 => intro h; simp at h
  | case8 s id h3 h2 h1 hy f rest' s' he ih =>
    intro h
    simp only [Option.isSome_map] at h
    exact semP_step P hnil [id, f] (xOf id) (hdelayed id f h1 (by omega) hy) s s' rest' he (ih h)
  | case9 => intro h; simp at h
  | case10 s id rest h3 h2 h1 hy s' he ih =>
    intro h
    simp only [Option.isSome_map] at h
    exact semP_step P hnil [id] (xOf id) (hfixed id h1 (by omega) hy) s s' rest he (ih h)
  | case11 => intro h; simp at h
  | case12 s id rest h3 h2 h1 s' he ih =>
    intro h
    simp only [Option.isSome_map] at h
    exact semP_step P hnil [id] 0 (hplain id (by omega)) s s' rest he (ih h)
  | case13 => intro h; simp at h

end Sim

/-! ### well-counted lists with `X ≥ 1` build to trees without member-less replications -/

/-- every replication descriptor of the list replicates at least one descriptor (`X ≥ 1`) -/
def posX (ids : List Nat) : Bool :=
  ids.all fun i => !(decide (100000 ≤ i) && decide (i < 200000)) || decide (1 ≤ xOf i)

/-- `Spec.rowOK` with `posX` on every row: the Table D rows below `id` are well counted, replicate
    at least one descriptor each and nest at most `n` deep -/
def rowOK1 (T : Tables) : Nat → Nat → Bool
  | 0, id => (T.d id).isNone
  | n + 1, id =>
    match T.d id with
    | none => true
    | some row => WellCounted row && posX row && row.all (fun m => decide (m < 300000) || rowOK1 T n m)

theorem posX_sub {a b : List Nat} (h : ∀ i ∈ a, i ∈ b) (hb : posX b = true) : posX a = true := by
  simp only [posX, List.all_eq_true] at hb ⊢
  exact fun i hi => hb i (h i hi)

theorem buildD_ne_nil (T : Tables) (n : Nat) (id : Nat) (rest : List Nat) (t : List Desc)
    (h : buildD T n (id :: rest) = .ok t) : t ≠ [] := by
  rw [buildD.eq_def] at h
  simp only at h
  repeat' split at h
  all_goals first
    | cases h
    | (simp only [bind_ok, pure_ok] at h
       first
         | (obtain ⟨_, _, _, _, rfl⟩ := h; simp)
         | (obtain ⟨_, _, rfl⟩ := h; simp))

theorem noBare_lookupB (T : Tables) (i : Nat) : noBare (T.lookupB i) = true := by
  unfold Tables.lookupB; split <;> simp [noBare]

/-- the statement carried through the simulation: a list whose replications have `X ≥ 1` and whose
    sequence ids satisfy `rowOK1` builds (if it builds) to a tree without member-less replications -/
def NB (T : Tables) (n : Nat) (ids : List Nat) : Prop :=
  posX ids = true → (∀ m ∈ ids, 300000 ≤ m → rowOK1 T n m = true) →
    ∀ t, buildD T n ids = .ok t → noBareL t = true

/-- what the rows below contribute (supplied by the induction on the depth) -/
def RowsNB (T : Tables) (n : Nat) : Prop :=
  ∀ id row, 300000 ≤ id → T.d id = some row → rowOK1 T n id = true →
    ∀ n' ms, n = n' + 1 → buildD T n' row = .ok ms → noBareL ms = true

theorem NB_nil (T : Tables) (n : Nat) : NB T n [] := by
  intro _ _ t h
  rw [buildD_nil] at h
  cases h; rfl

theorem NB_head_plain (T : Tables) (n : Nat) (hrow : RowsNB T n) (id : Nat)
    (hid : ¬ (100000 ≤ id ∧ id < 200000)) : HeadP (NB T n) [id] 0 := by
  intro l _ _ hl
  unfold NB at *
  intro hpos hrows t h
  simp only [List.drop_zero] at hl
  simp only [List.singleton_append] at h hpos hrows
  have hl' := hl (posX_sub (fun i hi => List.mem_cons_of_mem _ hi) hpos)
    (fun m hm => hrows m (List.mem_cons_of_mem _ hm))
  by_cases h3 : 300000 ≤ id
  · cases hd : T.d id with
    | none =>
      rw [buildD_undefSeq T n id l h3 hd] at h
      simp only [bind_ok, pure_ok] at h
      obtain ⟨tl, htl, rfl⟩ := h
      simp [noBareL, noBare, hl' tl htl]
    | some row =>
      cases n with
      | zero => rw [buildD_seq_zero T id l row h3 hd] at h; cases h
      | succ n' =>
        rw [buildD_seq T n' id l row h3 hd] at h
        simp only [bind_ok, pure_ok] at h
        obtain ⟨ms, hms, tl, htl, rfl⟩ := h
        have := hrow id row h3 hd (hrows id (List.mem_cons_self ..) h3) n' ms rfl hms
        simp [noBareL, noBare, hl' tl htl, this]
  · by_cases h2 : 200000 ≤ id
    · rw [buildD_op T n id l h2 (by omega)] at h
      simp only [bind_ok, pure_ok] at h
      obtain ⟨tl, htl, rfl⟩ := h
      simp [noBareL, noBare, hl' tl htl]
    · rw [buildD_plain T n id l (by omega)] at h
      simp only [bind_ok, pure_ok] at h
      obtain ⟨tl, htl, rfl⟩ := h
      simp [noBareL, noBare_lookupB, hl' tl htl]

theorem take_ne_nil_build (T : Tables) (n X : Nat) (l : List Nat) (ms : List Desc) (hX : 1 ≤ X) (hle : X ≤ l.length)
    (hms : buildD T n (l.take X) = .ok ms) : ms.isEmpty = false := by
  cases hl : l.take X with
  | nil =>
    have := congrArg List.length hl
    simp only [List.length_take, List.length_nil] at this
    omega
  | cons a r =>
    rw [hl] at hms
    have := buildD_ne_nil T n a r ms hms
    cases ms with
    | nil => exact absurd rfl this
    | cons _ _ => rfl

theorem posX_head {id : Nat} {l : List Nat} (h1 : 100000 ≤ id) (h2 : id < 200000) (hpos : posX (id :: l) = true) :
    1 ≤ xOf id := by
  simp only [posX, List.all_cons, Bool.and_eq_true] at hpos
  have := hpos.1
  simpa [h1, h2] using this

theorem NB_head_fixed (T : Tables) (n id : Nat) (h1 : 100000 ≤ id) (h2 : id < 200000) (h3 : id % 1000 ≠ 0) :
    HeadP (NB T n) [id] (xOf id) := by
  intro l hle ha hb
  unfold NB at *
  intro hpos hrows t h
  simp only [List.singleton_append] at h hpos hrows
  have hX := posX_head h1 h2 hpos
  have hposl : posX l = true := posX_sub (fun i hi => List.mem_cons_of_mem _ hi) hpos
  rw [buildD_fixed T n id l h1 h2 h3] at h
  simp only [bind_ok, pure_ok] at h
  obtain ⟨ms, hms, tl, htl, rfl⟩ := h
  have hms' := ha (posX_sub (fun i hi => List.mem_of_mem_take hi) hposl)
    (fun m hm => hrows m (List.mem_cons_of_mem _ (List.mem_of_mem_take hm))) ms hms
  have htl' := hb (posX_sub (fun i hi => List.mem_of_mem_drop hi) hposl)
    (fun m hm => hrows m (List.mem_cons_of_mem _ (List.mem_of_mem_drop hm))) tl htl
  simp [noBareL, noBare, hms', htl', take_ne_nil_build T n (xOf id) l ms hX hle hms]

theorem NB_head_delayed (T : Tables) (n id f : Nat) (h1 : 100000 ≤ id) (h2 : id < 200000) (h3 : id % 1000 = 0) :
    HeadP (NB T n) [id, f] (xOf id) := by
  intro l hle ha hb
  unfold NB at *
  intro hpos hrows t h
  simp only [List.cons_append, List.nil_append] at h hpos hrows
  have hX := posX_head h1 h2 hpos
  have hposl : posX l = true :=
    posX_sub (fun i hi => List.mem_cons_of_mem _ (List.mem_cons_of_mem _ hi)) hpos
  rw [buildD_delayed T n id f l h1 h2 h3] at h
  simp only [bind_ok, pure_ok] at h
  obtain ⟨ms, hms, tl, htl, rfl⟩ := h
  have hms' := ha (posX_sub (fun i hi => List.mem_of_mem_take hi) hposl)
    (fun m hm => hrows m (List.mem_cons_of_mem _ (List.mem_cons_of_mem _ (List.mem_of_mem_take hm)))) ms hms
  have htl' := hb (posX_sub (fun i hi => List.mem_of_mem_drop hi) hposl)
    (fun m hm => hrows m (List.mem_cons_of_mem _ (List.mem_cons_of_mem _ (List.mem_of_mem_drop hm)))) tl htl
  simp [noBareL, noBare, hms', htl', take_ne_nil_build T n (xOf id) l ms hX hle hms]

theorem NB_of_rows (T : Tables) (n : Nat) (hrow : RowsNB T n) (ids : List Nat) (hwc : WellCounted ids = true) :
    NB T n ids :=
  counted_semP (NB T n) (NB_nil T n) (NB_head_plain T n hrow) (NB_head_fixed T n) (NB_head_delayed T n)
    (fun id => some [id]) [] ids hwc

/-- a well-counted list whose replications all have `X ≥ 1`, over rows that are well counted with
    `X ≥ 1` as well, builds to a tree without member-less replications -/
theorem noBare_buildD (T : Tables) : ∀ n ids, WellCounted ids = true → NB T n ids := by
  intro n
  induction n with
  | zero =>
    intro ids hwc
    exact NB_of_rows T 0 (by intro _ _ _ _ _ n' _ hn; omega) ids hwc
  | succ n ih =>
    intro ids hwc
    refine NB_of_rows T (n + 1) ?_ ids hwc
    intro id row h3 hd hok n' ms hn hms
    have hn' : n' = n := by omega
    subst hn'
    unfold rowOK1 at hok
    rw [hd] at hok
    simp only [Bool.and_eq_true, List.all_eq_true, Bool.or_eq_true, decide_eq_true_eq] at hok
    obtain ⟨⟨hwcr, hpr⟩, hall⟩ := hok
    refine ih row hwcr hpr (fun m hm h3m => ?_) ms hms
    rcases hall m hm with h | h
    · omega
    · exact h

end Bufr
