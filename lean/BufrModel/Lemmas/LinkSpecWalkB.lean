/-
  C07: the members of a template against the fold, one kind at a time (element, marker operator, the other
  operators, the bit-map operator and what follows it).
-/
import BufrModel.Lemmas.LinkSpecWalkA
namespace Bufr.C07
open Bufr.Spec

/-! ### `stQa`, `stValue`, `stAssoc` in detail -/

theorem stQa_regs (e : Elem) (s s2 : St) (h : stQa e s = .ok s2) :
    s2.regs = { s.regs with qa := clsStep s.regs.qa (xOf e.id), bmIter := s2.regs.bmIter } := by
  unfold stQa at h
  by_cases hx : xOf e.id = 33
  · rw [if_pos hx] at h
    cases hq : s.regs.qa with
    | na =>
      simp only [hq, reduceCtorEq, if_false] at h
      simp only [hq, reduceCtorEq, if_false, pure, Except.pure] at h
      injection h with h; subst h
      simp [clsStep, hx, hq]
      rw [← hq]
    | waiting =>
      simp only [hq, St.setRegs, if_true, bind, Except.bind, nextBitmapped] at h
      cases hb : s.regs.bmIter with
      | none => simp [hb] at h
      | some l =>
        cases l with
        | nil => simp [hb] at h
        | cons x rest =>
          obtain ⟨owner, el⟩ := x
          simp only [hb, pure, Except.pure, St.setRegs, addLink] at h
          injection h with h; subst h
          simp [clsStep, hx]
    | processing =>
      simp only [hq, reduceCtorEq, if_false] at h
      simp only [hq, if_true, St.setRegs, bind, Except.bind, nextBitmapped] at h
      cases hb : s.regs.bmIter with
      | none => simp [hb] at h
      | some l =>
        cases l with
        | nil => simp [hb] at h
        | cons x rest =>
          obtain ⟨owner, el⟩ := x
          simp only [hb, pure, Except.pure, St.setRegs, addLink] at h
          injection h with h; subst h
          simp [clsStep, hx]
  · rw [if_neg hx] at h
    simp only [pure, Except.pure] at h
    injection h with h; subst h
    by_cases hq : s.regs.qa = .processing
    · simp [hq, St.setRegs, clsStep, hx]
    · simp only [hq, if_false, clsStep, hx]

theorem stValue_grow {P : Prims} {V : St → List Val} {X : St → Prop} (hR : Rec P V X) (dd : DDesc) (e : Elem) (s s' : St)
    (h : stValue P dd e s = .ok s') : ∃ v, V s' = V s ++ [v] := by
  unfold stValue at h
  split at h
  · exact hR.string _ _ _ _ h
  · exact hR.codeflag _ _ _ _ h
  · split at h
    · exact hR.numeric _ _ _ _ _ _ h
    · exact hR.numeric _ _ _ _ _ _ h

/-! ### items that neither take a bit nor touch the quality-information status -/

/-- the walk is between two bit-map definitions (or behind a replication of 031031 that ran zero times) -/
def Settled (s : St) : Prop := s.regs.bitmapDef = .na ∨ s.regs.bitmapDef = .waiting

theorem Settled.not_counting {s : St} (h : Settled s) : s.regs.bitmapDef ≠ .counting := by
  rcases h with h | h <;> (rw [h]; exact fun x => nomatch x)

theorem Settled.not_indicator {s : St} (h : Settled s) : s.regs.bitmapDef ≠ .indicator := by
  rcases h with h | h <;> (rw [h]; exact fun x => nomatch x)

/-- labels of items that the fold passes over: associated fields, and operators other than the bit-map
    operators and 237000 -/
def inert (dd : DDesc) : Prop :=
  match dd with
  | .assoc _ _ => True
  | .oper id => id ∉ bitmapOpIds ∧ id ≠ 237000
  | _ => False

theorem inert_facts (dd : DDesc) (v : Val) (h : inert dd) :
    isBit (dd, v) = false ∧ isBitmapOp (dd, v) = false ∧ isOper 237000 (dd, v) = false ∧
    (∀ q, consumesF q (dd, v) = false) ∧ (∀ q, qaStep q (dd, v) = q) := by
  cases dd with
  | assoc a b => simp [isBit, isBitmapOp, isOper, consumesF, qaStep, elemClass?]
  | oper id =>
    obtain ⟨h1, h2⟩ := h
    have h222 : id ≠ 222000 := by
      intro e; apply h1; rw [e]; decide
    refine ⟨rfl, ?_, ?_, fun _ => rfl, ?_⟩
    · simp only [isBitmapOp]
      cases hc : bitmapOpIds.contains id with
      | false => rfl
      | true => exact absurd (by simpa using hc) h1
    · simp [isOper, h2]
    · intro q
      simp [qaStep, isOper, h222, elemClass?]
  | plain e => exact absurd h (by simp [inert])
  | skipped a b => exact absurd h (by simp [inert])
  | marker a b => exact absurd h (by simp [inert])

/-- a quiet primitive records an inert item -/
theorem Core.inert_item {V : St → List Val} {s s' : St} {cs : List Nat} (hc : Core V s cs) (hst : Settled s)
    (dd : DDesc) (v : Val) (hs : Same s s' dd) (hv : V s' = V s ++ [v]) (hin : inert dd) : Core V s' cs := by
  obtain ⟨f1, f2, f3, f4, f5⟩ := inert_facts dd v hin
  obtain ⟨hd, hl, hr⟩ := hs
  refine hc.record dd v hd hv f1 hst.not_counting (by rw [hr]; exact hst.not_counting) (by rw [hr, f5])
    (fun h => by rw [f3] at h; cases h) (fun _ => by rw [f4]; simp only [Bool.false_eq_true, if_false]; exact ⟨hl, by rw [hr]⟩)
    (by rw [hr]) (by rw [hr]) (by rw [hr]; exact hc.quiet) ?_
  exact phase_ordinary hc (dd, v) f1 f2 f3 hst (by rw [hr]) (by rw [hr]) (by rw [hr])

/-! ### an element: optional associated field, quality information, value -/

theorem plain_facts (e : Elem) (v : Val) (he : e.id ≠ 31031) :
    isBit (.plain e, v) = false ∧ isBitmapOp (.plain e, v) = false ∧ isOper 237000 (.plain e, v) = false ∧
    (∀ q, qaStep q (.plain e, v) = clsStep q (xOf e.id)) := by
  refine ⟨by simp [isBit, he], rfl, rfl, fun q => rfl⟩

/-- `stQa` followed by `stValue` for a plain element that is not 031031 -/
theorem Core.value_plain {P : Prims} {V : St → List Val} {X : St → Prop} (hR : Rec P V X) {s s2 s' : St} {cs : List Nat}
    (hc : Core V s cs) (hst : Settled s) (e : Elem) (he : e.id ≠ 31031)
    (h2 : stQa e s = .ok s2) (h3 : stValue P (.plain e) e s2 = .ok s') :
    Core V s' cs ∧ s'.regs.bitmapDef = s.regs.bitmapDef ∧ s'.regs.backBoundary = s.regs.backBoundary ∧
      s'.regs.n031031 = s.regs.n031031 := by
  obtain ⟨v, hv⟩ := stValue_grow hR _ _ _ _ h3
  obtain ⟨sd, sl, sr⟩ := stValue_ok hR.quiet h3
  obtain ⟨qd, qv, _⟩ := stQa_shape hR e s s2 h2
  have qr := stQa_regs e s s2 h2
  have qo := stQa_ok h2
  obtain ⟨f1, f2, f3, f5⟩ := plain_facts e v he
  have e1 : s'.regs.bitmapDef = s.regs.bitmapDef := by rw [sr, qr]
  have e2 : s'.regs.backBoundary = s.regs.backBoundary := by rw [sr, qr]
  have e3 : s'.regs.n031031 = s.regs.n031031 := by rw [sr, qr]
  refine ⟨?_, e1, e2, e3⟩
  refine hc.record (.plain e) v (by rw [sd, qd]) (by rw [hv, qv]) f1 hst.not_counting
    (by rw [e1]; exact hst.not_counting) (by rw [sr, qr, f5]) (fun h => by rw [f3] at h; cases h) ?_
    (by rw [sr, qr]) (by rw [sr, qr]) (by rw [sr, qr]; exact hc.quiet) ?_
  · intro _
    have hcf : consumesF s.regs.qa (.plain e, v) = true ↔ takesBit e s := by
      simp [consumesF, takesBit]
    rcases qo.2.2 with ⟨t, owner, el, rest, b1, b2, b3, _⟩ | ⟨t, b1, b2⟩
    · rw [if_pos (hcf.mpr t)]
      exact ⟨(owner, el), rest, b1, by rw [sl, b2], by rw [sr, b3]⟩
    · rw [if_neg (fun h => t (hcf.mp h))]
      exact ⟨by rw [sl, b1], by rw [sr, b2]⟩
  · exact phase_ordinary hc _ f1 f2 f3 hst e1 e2 e3

/-- a whole element descriptor (not 031031) -/
theorem Core.element {P : Prims} {V : St → List Val} {X : St → Prop} (hR : Rec P V X) {s s' : St} {cs : List Nat}
    (hc : Core V s cs) (hst : Settled s) (e : Elem) (he : e.id ≠ 31031)
    (h : elementDescriptor P (.plain e) e s = .ok s') :
    Core V s' cs ∧ s'.regs.bitmapDef = s.regs.bitmapDef ∧ s'.regs.backBoundary = s.regs.backBoundary ∧
      s'.regs.n031031 = s.regs.n031031 := by
  rw [Bufr.C07.elementDescriptor_eq] at h
  cases h1 : stAssoc P e s with
  | error err => simp [h1, bind, Except.bind] at h
  | ok s1 =>
    simp only [h1, bind, Except.bind] at h
    cases h2 : stQa e s1 with
    | error err => simp [h2] at h
    | ok s2 =>
      simp only [h2] at h
      have hc1 : Core V s1 cs ∧ s1.regs = s.regs := by
        unfold stAssoc at h1
        split at h1
        · obtain ⟨v, hv⟩ := hR.codeflag _ _ _ _ h1
          have hs := hR.quiet.codeflag _ _ _ _ h1
          exact ⟨hc.inert_item hst _ v hs hv trivial, hs.2.2⟩
        · cases h1; exact ⟨hc, rfl⟩
      have hst1 : Settled s1 := by unfold Settled; rw [hc1.2]; exact hst
      obtain ⟨a, b, c, d⟩ := hc1.1.value_plain hR hst1 e he h2 h
      exact ⟨a, by rw [b, hc1.2], by rw [c, hc1.2], by rw [d, hc1.2]⟩

/-! ### the prelude of a member outside a bit-map definition -/

theorem Core.prelude {P : Prims} {V : St → List Val} {X : St → Prop} (hR : Rec P V X) {s s1 : St} {cs : List Nat}
    (hc : Core V s cs) (hni : s.regs.bitmapDef ≠ .indicator) (id : Nat) (hid : id ≠ 31031)
    (h : bitmapDefinition P id s = .ok s1) (hx : X s) :
    Core V s1 cs ∧ Settled s1 ∧ s1.descs = s.descs := by
  unfold bitmapDefinition at h
  cases hb : s.regs.bitmapDef with
  | na => simp only [hb] at h; cases h; exact ⟨hc, Or.inl hb, rfl⟩
  | indicator => exact absurd hb hni
  | waiting =>
    simp only [hb, if_neg hid] at h
    cases h; exact ⟨hc, Or.inr hb, rfl⟩
  | counting =>
    simp only [hb, if_neg hid, bind, Except.bind, pure, Except.pure] at h
    cases hv : P.lastValues s.regs.n031031 s with
    | error err => simp [hv] at h
    | ok bitmap =>
      simp only [hv] at h
      cases hbb : buildBitmapped s bitmap with
      | error err => simp [hbb] at h
      | ok sb =>
        simp only [hbb] at h
        cases h
        refine ⟨hc.build hR hb bitmap hv hbb hx, Or.inl rfl, ?_⟩
        rw [buildBitmapped_eq'] at hbb
        split at hbb
        · cases hbb
        · cases hbb; rfl

/-! ### marker operators -/

theorem qaOf_items {V : St → List Val} {s : St} {cs : List Nat} (hc : Core V s cs) : qaOf (items V s) = s.regs.qa := by
  rw [hc.qa, (FInv.fold cs (items V s)).qa]

theorem marker_facts (op : Nat) (e : Elem) (v : Val) :
    isBit (.marker op e, v) = false ∧ isBitmapOp (.marker op e, v) = false ∧ isOper 237000 (.marker op e, v) = false ∧
    (∀ q, qaStep q (.marker op e, v) = clsStep q (xOf e.id)) ∧ (∀ q, consumesF q (.marker op e, v) = true) :=
  ⟨rfl, rfl, rfl, fun _ => rfl, fun _ => rfl⟩

/-- the element stage of a marker operator, after the link has been recorded: with `markersOk` on the result
    neither an associated field nor a second zero bit is taken -/
theorem Core.marker_elem {P : Prims} {V : St → List Val} {X : St → Prop} (hR : Rec P V X) {s s' : St} {cs : List Nat}
    (hc : Core V s cs) (hst : Settled s) (op : Nat) (e' : Elem) (owner : Nat) (be : Elem) (rest : List (Nat × Elem))
    (hb : s.regs.bmIter = some ((owner, be) :: rest))
    (h : elementDescriptor P (.marker op e') e' (addLink (s.setRegs fun r => { r with bmIter := some rest }) owner) = .ok s')
    (hok : markersOk (items V s') = true) :
    Core V s' cs ∧ s'.regs.bitmapDef = s.regs.bitmapDef := by
  rw [Bufr.C07.elementDescriptor_eq] at h
  cases h1 : stAssoc P e' (addLink (s.setRegs fun r => { r with bmIter := some rest }) owner) with
  | error err => simp [h1, bind, Except.bind] at h
  | ok s3 =>
    simp only [h1, bind, Except.bind] at h
    cases h2 : stQa e' s3 with
    | error err => simp [h2] at h
    | ok s4 =>
      simp only [h2] at h
      obtain ⟨v, hv⟩ := stValue_grow hR _ _ _ _ h
      obtain ⟨sd, sl, sr⟩ := stValue_ok hR.quiet h
      obtain ⟨qd, qv, _⟩ := stQa_shape hR e' s3 s4 h2
      have hV2 : V (addLink (s.setRegs fun r => { r with bmIter := some rest }) owner) = V s := by
        rw [hR.addLink, hR.setRegs]
      obtain ⟨f1, f2, f3, f5, f6⟩ := marker_facts op e' v
      unfold stAssoc at h1
      split at h1
      · -- an associated field in front of the marker: excluded by `markersOk`
        exfalso
        obtain ⟨v1, hv1⟩ := hR.codeflag _ _ _ _ h1
        obtain ⟨ad, _, _⟩ := hR.quiet.codeflag _ _ _ _ h1
        have hd3 : s3.descs = .assoc e'.id s.regs.assocStack.sum :: s.descs := ad
        have hv3 : V s3 = V s ++ [v1] := by rw [hv1, hV2]
        have i3 := items_snoc V s s3 _ v1 hc.len hd3 hv3
        have l3 : (V s3).length = s3.descs.length := by rw [hv3, hd3]; simp [hc.len]
        have i' := items_snoc V s3 s' (.marker op e') v l3 (by rw [sd, qd]) (by rw [hv, qv])
        rw [i3] at i'
        have hn := items_length V s hc.len
        have m := markersOk_at _ hok (s.descs.length + 1) op e' v (by
          rw [i', List.getElem?_append_right (by simp [hn])]
          simp [hn])
        refine m.2 s.descs.length e'.id s.regs.assocStack.sum v1 rfl ?_ rfl
        rw [i', List.getElem?_append_left (by simp [hn]), List.getElem?_append_right (by simp [hn])]
        simp [hn]
      · cases h1
        have i' := items_snoc V s s' (.marker op e') v hc.len (by rw [sd, qd]; rfl) (by rw [hv, qv, hV2])
        have hn := items_length V s hc.len
        have qr := stQa_regs e' _ s4 h2
        have qo := stQa_ok h2
        rcases qo.2.2 with ⟨t, _⟩ | ⟨t, b1, b2⟩
        · -- a class 33 target inside a quality-information stretch: excluded by `markersOk`
          exfalso
          have m := markersOk_at _ hok s.descs.length op e' v (by
            rw [i', List.getElem?_append_right (by simp [hn])]
            simp [hn])
          apply m.1
          refine ⟨t.1, ?_⟩
          rw [inQa_eq, i', List.take_left' hn, qaOf_items hc]
          have hne : s.regs.qa ≠ .na := t.2
          cases hq : s.regs.qa with
          | na => exact absurd hq hne
          | waiting => rfl
          | processing => rfl
        · have e1 : s'.regs.bitmapDef = s.regs.bitmapDef := by rw [sr, qr]; rfl
          refine ⟨?_, e1⟩
          refine hc.record (.marker op e') v (by rw [sd, qd]; rfl) (by rw [hv, qv, hV2]) f1 hst.not_counting
            (by rw [e1]; exact hst.not_counting) (by rw [sr, qr, f5]; rfl) (fun h => by rw [f3] at h; cases h) ?_
            (by rw [sr, qr]; rfl) (by rw [sr, qr]; rfl) (by rw [sr, qr]; exact hc.quiet) ?_
          · intro _
            rw [f6, if_pos rfl]
            exact ⟨(owner, be), rest, hb, by rw [sl, b1]; rfl, by rw [sr, b2]; rfl⟩
          · exact phase_ordinary hc _ f1 f2 f3 hst e1 (by rw [sr, qr]; rfl) (by rw [sr, qr]; rfl)

/-- `process_bitmapped_descriptor` -/
theorem Core.bitmapped {P : Prims} {V : St → List Val} {X : St → Prop} (hR : Rec P V X) {s s' : St} {cs : List Nat}
    (hc : Core V s cs) (hst : Settled s) (op : Nat) (h : bitmappedDescriptor P op s = .ok s')
    (hok : markersOk (items V s') = true) :
    Core V s' cs ∧ s'.regs.bitmapDef = s.regs.bitmapDef := by
  cases hb : s.regs.bmIter with
  | none => simp [bitmappedDescriptor, nextBitmapped, hb, bind, Except.bind] at h
  | some l =>
    cases l with
    | nil => simp [bitmappedDescriptor, nextBitmapped, hb, bind, Except.bind] at h
    | cons x rest =>
      obtain ⟨owner, be⟩ := x
      simp only [bitmappedDescriptor, nextBitmapped, hb, bind, Except.bind] at h
      exact hc.marker_elem hR hst op _ owner be rest hb h hok

end Bufr.C07
