/-
  Helper lemmas for C15, part 5: the whole expression — first character, subset selector,
  then `comps_agree`.
-/
import BufrModel.Lemmas.PathEquiv
namespace Bufr.PathLang
open Spec

def AgreeTop (r : PR Path) (o : Option Path) : Prop :=
  match o with
  | some p => r = .ok p
  | none => r = .error .path

theorem isWs_iff (c : Char) : isWs c = true ↔ c = ' ' ∨ c = '\t' ∨ c = '\n' ∨ c = '\r' ∨ c = '\x0b' ∨ c = '\x0c' := by
  simp [isWs, or_assoc]

theorem firstOk_plain (c : Char) (h : firstOk c = true) (h1 : c ≠ '@') (h2 : isSep c = false) : Plain c := by
  constructor
  · cases hsp : isSpecial c
    · rfl
    · exfalso
      rcases (isSpecial_iff c).1 hsp with h' | h' | h' | h' | h' | h' | h' <;> subst h' <;> revert h h1 h2 <;> decide
  · cases hw : isWs c
    · rfl
    · exfalso
      rcases (isWs_iff c).1 hw with h' | h' | h' | h' | h' | h' <;> subst h' <;> revert h <;> decide

theorem step_init_at : step {} '@' = .ok { st := .startSubset } := by
  simp [step, isWs]

theorem step_init_sep (c : Char) (hc : isSep c = true) (hd : c ≠ '.') :
    step {} c = .ok { st := .startId, subset := some (.range none none none), curSep := c } := by
  rcases (isSep_iff c).1 hc with h | h | h <;> subst h <;>
    simp [step, isWs, isSep, handleSeparator, createSlice, bind, Except.bind, pure, Except.pure] at hd ⊢

theorem step_init_plain (c : Char) (hc : Plain c) :
    step {} c = .ok { st := .startId, subset := some (.range none none none), curSep := '>', token := [c] } := by
  obtain ⟨h1, h2⟩ := hc
  have h3 : ¬ (c = '@' ∨ c = '[' ∨ c = ']' ∨ c = ':' ∨ c = '/' ∨ c = '.' ∨ c = '>') := by
    rw [← isSpecial_iff]; simp [h1]
  simp only [not_or] at h3
  obtain ⟨n1, n2, n3, n4, n5, n6, n7⟩ := h3
  simp [step, h2, n1, n2, n3, n4, n5, n6, n7, isSep, handleSeparator, createSlice, bind, Except.bind, pure, Except.pure]

theorem stopSubset_bad (s : PS) (a : List Char) (hs : s.st = .stopSubsetSlice) (hc : createSlice s.elems = .error .path)
    (hws : ∀ c ∈ a, isWs c = false) : runFin s a = .error .path := by
  cases a with
  | nil => simp [finish, hs]
  | cons c r =>
    rw [runFin_cons]
    by_cases hsep : isSep c = true
    · rw [step_stopSubset_sep s c hsep hs, hc]
      by_cases hdot : c = '.' <;> simp [hdot]
    · rw [step_stop_nonsep s c (Or.inr hs) (by simpa using hsep) (hws c (by simp))]

/-- `parse` after whitespace removal -/
def parseNoWs (cs : List Char) : PR Path :=
  match cs with
  | [] => .error .path
  | c :: r => if firstOk c = false then .error .path else runFin {} (c :: r)

theorem parse_eq' (input : List Char) : parse input = parseNoWs (input.filter (fun c => !isWs c)) := by
  rw [parse_eq]; rfl

/-- the whole machine against the whole recogniser, on whitespace-free input -/
theorem top_agree (cs : List Char) (hws : ∀ c ∈ cs, isWs c = false) :
    AgreeTop (parseNoWs cs) (recogniseNoWs cs) := by
  unfold parseNoWs
  cases cs with
  | nil => simp [AgreeTop, recogniseNoWs]
  | cons c rest =>
    simp only [recogniseNoWs]
    by_cases hf' : firstOk c = false
    · simp [hf', AgreeTop]
    have hf : firstOk c = true := by simpa using hf'
    simp only [hf, Bool.not_true, Bool.false_eq_true, if_false]
    have hwr : ∀ c ∈ rest, isWs c = false := fun c hc => hws c (by simp [hc])
    by_cases hat : c = '@'
    · -- subset selector
      subst hat
      simp only [beq_self_eq_true, if_true]
      rw [runFin_cons, step_init_at]
      simp only
      cases rest with
      | nil => simp [slice?_nil, AgreeTop, finish]
      | cons c2 r =>
        rw [runFin_cons, step_startSubset _ c2 rfl (hwr c2 (by simp))]
        by_cases hbr : ¬ c2 = '['
        · simp [hbr, slice?_not_bracket c2 r hbr, AgreeTop]
        have hbr : c2 = '[' := Classical.not_not.1 hbr
        subst hbr
        simp only [if_true]
        have hwr2 : ∀ c ∈ r, isWs c = false := fun c hc => hwr c (by simp [hc])
        rcases slice_part { st := .subsetSlice0 } r rfl rfl rfl rfl hwr2 with
          ⟨h1, h2⟩ | ⟨es, a, h1, h2, h3, h4, h5⟩
        · rw [h1, h2]; rfl
        · rw [h1, h2]
          cases hso : sliceOpt es with
          | none =>
            rw [hso] at h3
            simp only [Option.map_none]
            exact stopSubset_bad _ a rfl h3 h5
          | some sl =>
            rw [hso] at h3
            simp only [Option.map_some]
            cases a with
            | nil => simp [AgreeTop, finish, toStop]
            | cons c3 r3 =>
              simp only
              rw [runFin_cons]
              by_cases hsep : isSep c3 = true
              · rw [step_stopSubset_sep _ c3 hsep rfl]
                by_cases hdot : c3 = '.'
                · simp [hdot, AgreeTop]
                · simp only [hdot, if_false, h3, beq_iff_eq]
                  have := comps_agree (c3 :: r3).length r3
                    { st := .startId, token := [], elems := [], curSep := c3, subset := some sl }
                    (fun c hc => h5 c (by simp [hc])) (by simp) rfl rfl rfl hsep
                  simp only [Agree] at this
                  cases hcomp : comps? ((c3 :: r3).length + 1) (c3 :: r3) with
                  | none => rw [hcomp] at this; simpa [AgreeTop] using this
                  | some l => rw [hcomp] at this; simpa [AgreeTop] using this
              · have hsep' : isSep c3 = false := by simpa using hsep
                rw [step_stop_nonsep _ c3 (Or.inr rfl) hsep' (h5 c3 (by simp))]
                rw [comps?_not_sep _ _ _ hsep']
                by_cases hdot : c3 = '.'
                · simp [hdot, AgreeTop]
                · simp [hdot, AgreeTop]
    · have hat' : (c == '@') = false := by simpa using hat
      simp only [hat', Bool.false_eq_true, if_false]
      by_cases hsep : isSep c = true
      · simp only [hsep, if_true]
        have hdot : c ≠ '.' := by intro h; subst h; revert hf; decide
        rw [runFin_cons, step_init_sep c hsep hdot]
        simp only
        have := comps_agree (c :: rest).length rest
          { st := .startId, subset := some (.range none none none), curSep := c }
          hwr (by simp) rfl rfl rfl hsep
        simp only [Agree] at this
        cases hcomp : comps? ((c :: rest).length + 1) (c :: rest) with
        | none => rw [hcomp] at this; simpa [AgreeTop] using this
        | some l => rw [hcomp] at this; simpa [AgreeTop] using this
      · have hsep' : isSep c = false := by simpa using hsep
        simp only [hsep', Bool.false_eq_true, if_false]
        have hpl := firstOk_plain c hf hat hsep'
        rw [runFin_cons, step_init_plain c hpl]
        simp only
        have := comps_agree ((c :: rest).length + 1) (c :: rest)
          { st := .startId, subset := some (.range none none none), curSep := '>' }
          hws (by simp) rfl rfl rfl (by decide)
        rw [runFin_cons, step_plain _ c hpl rfl] at this
        simp only [Agree, List.nil_append] at this
        cases hcomp : comps? ((c :: rest).length + 2) ('>' :: c :: rest) with
        | none => rw [hcomp] at this; simpa [AgreeTop] using this
        | some l => rw [hcomp] at this; simpa [AgreeTop] using this

theorem parse_agree (input : List Char) : AgreeTop (parse input) (recognise input) := by
  rw [parse_eq']
  unfold recognise
  apply top_agree
  intro c hc
  simpa using (List.mem_filter.1 hc).2

end Bufr.PathLang
