/-
  Compressed encoder primitives in "column step" shape, the CHECKED compressed encoder `encPrimsCX`,
  and its projection onto the uncompressed (checked) encoder of any one subset.
-/
import BufrModel.Lemmas.SimEnc
set_option linter.unusedSimpArgs false
namespace Bufr

/-- what a column writer produces for the values of all subsets at one position -/
structure ColOut where
  bits : Bits
  /-- per subset: the value the decoder will return -/
  canon : List Val
  upd : Regs → Regs

/-- column writer: `allEqual` flag (decided on the supplied values), the values of all subsets -/
abbrev ColW := Bool → List Val → Except Err ColOut

/-- the values of all subsets at the current position -/
def colVals (s : St) : CM (List Val) := s.vals.mapM (fun l => nthVal l s.idx)

def encStepC (dd : DDesc) (col : ColW) (s : St) : CM St :=
  match colVals s with
  | .error e => .error e
  | .ok values =>
    match values with
    | [] => .error .other
    | v0 :: vs =>
      match col ((v0 :: vs).all (· == v0)) (v0 :: vs) with
      | .error e => .error e
      | .ok o => .ok { s with regs := o.upd s.regs, descs := dd :: s.descs, idx := s.idx + 1,
                              bits := o.bits.reverse ++ s.bits }


theorem mapM_congr_fun {α β : Type} (f g : α → Except Err β) (l : List α) (h : ∀ a, f a = g a) :
    List.mapM (m := Except Err) f l = List.mapM (m := Except Err) g l := by
  rw [funext h]

/-! ### numeric -/

def rawOptNumeric (scale ref : Int) (v : Val) : Except Err (Option Int) :=
  match v with
  | .missing => pure none
  | v => do let q ← quantise v scale; pure (some (q - ref))

def colNumeric (nbits scale ref : Int) : ColW := fun allEq values => do
  let n ← natWidth nbits
  let raws ← (if allEq then values.take 1 else values).mapM (rawOptNumeric scale ref)
  let f ← encIntColumn allEq raws n
  pure { bits := f, canon := [], upd := id }

theorem encNumericC_eq (dd : DDesc) (nbits scale ref : Int) (s : St) :
    encNumericC dd nbits scale ref s = encStepC dd (colNumeric nbits scale ref) s := by
  unfold encNumericC encStepC nextCol colNumeric colVals St.write St.pushDesc
  simp only []
  cases hv : s.vals.mapM (fun l => nthVal l s.idx) with
  | error e => rfl
  | ok values =>
    cases values with
    | nil => rfl
    | cons v0 vs =>
      simp only [bind, Except.bind, pure, Except.pure]
      cases hn : natWidth nbits with
      | error e => rfl
      | ok n =>
        dsimp only
        rw [mapM_congr_fun _ (rawOptNumeric scale ref) _ (fun v => by cases v <;> rfl)]
        cases hr : List.mapM (m := Except Err) (rawOptNumeric scale ref)
            (if ((v0 :: vs).all fun x => x == v0) = true then List.take 1 (v0 :: vs) else v0 :: vs) with
        | error e => simp only [hr]
        | ok raws =>
          simp only [hr]
          cases hf : encIntColumn ((v0 :: vs).all fun x => x == v0) raws n <;>
            simp [hf, List.reverseAux_eq]

/-! ### code / flag -/

def rawOptCodeflag (v : Val) : Except Err (Option Int) :=
  match v with
  | .missing => pure none
  | .int i => pure (some i)
  | _ => .error .other

def colCodeflag (n : Nat) : ColW := fun allEq values => do
  let raws ← (if allEq then values.take 1 else values).mapM rawOptCodeflag
  let f ← encIntColumn allEq raws n
  pure { bits := f, canon := [], upd := id }

theorem encCodeflagC_eq (dd : DDesc) (n : Nat) (s : St) :
    encCodeflagC dd n s = encStepC dd (colCodeflag n) s := by
  unfold encCodeflagC encStepC nextCol colCodeflag colVals St.write St.pushDesc
  simp only []
  cases hv : s.vals.mapM (fun l => nthVal l s.idx) with
  | error e => rfl
  | ok values =>
    cases values with
    | nil => rfl
    | cons v0 vs =>
      simp only [bind, Except.bind, pure, Except.pure]
      rw [mapM_congr_fun _ rawOptCodeflag _ (fun v => by cases v <;> rfl)]
      cases hr : List.mapM (m := Except Err) rawOptCodeflag
          (if ((v0 :: vs).all fun x => x == v0) = true then List.take 1 (v0 :: vs) else v0 :: vs) with
      | error e => simp only [hr]
      | ok raws =>
        simp only [hr]
        cases hf : encIntColumn ((v0 :: vs).all fun x => x == v0) raws n <;>
          simp [hf, List.reverseAux_eq]

/-! ### character -/

def strOpt (v : Val) : Except Err (Option (List UInt8)) :=
  match v with
  | .missing => pure none
  | .bytes b => pure (some b)
  | _ => .error .other

def colString (nbytes : Nat) : ColW := fun allEq values => do
  let strs ← values.mapM strOpt
  let f ← encStringColumn allEq strs nbytes
  pure { bits := f, canon := [], upd := id }

theorem encStringC_eq (dd : DDesc) (n : Nat) (s : St) :
    encStringC dd n s = encStepC dd (colString n) s := by
  unfold encStringC encStepC nextCol colString colVals St.write St.pushDesc
  simp only []
  cases hv : s.vals.mapM (fun l => nthVal l s.idx) with
  | error e => rfl
  | ok values =>
    cases values with
    | nil => rfl
    | cons v0 vs =>
      simp only [bind, Except.bind, pure, Except.pure]
      rw [mapM_congr_fun _ strOpt _ (fun v => by cases v <;> rfl)]
      cases hr : List.mapM (m := Except Err) strOpt (v0 :: vs) with
      | error e => simp only [hr]
      | ok strs =>
        simp only [hr]
        cases hf : encStringColumn ((v0 :: vs).all fun x => x == v0) strs n <;>
          simp [hf, List.reverseAux_eq]

/-! ### 203YYY and constants -/

def colNewRefval (id nbits : Nat) : ColW := fun allEq values =>
  if !allEq then .error .other
  else match values.headD .missing with
    | .int i => do
      let f1 ← fieldInt i nbits
      let f2 ← fieldUInt 0 6
      pure { bits := f1 ++ f2, canon := [], upd := updNewRefval id i }
    | _ => .error .other

theorem encNewRefvalC_eq (e : Elem) (n : Nat) (s : St) :
    encNewRefvalC e n s = encStepC (.plain e) (colNewRefval e.id n) s := by
  unfold encNewRefvalC encStepC nextCol colNewRefval colVals St.write St.pushDesc setNewRefval St.setRegs
  simp only []
  cases hv : s.vals.mapM (fun l => nthVal l s.idx) with
  | error e => rfl
  | ok values =>
    cases values with
    | nil => rfl
    | cons v0 vs =>
      simp only [bind, Except.bind, pure, Except.pure, List.headD_cons]
      cases ha : ((v0 :: vs).all fun x => x == v0) with
      | false => rfl
      | true =>
        simp only [Bool.not_true, Bool.false_eq_true, if_false]
        cases v0 with
        | int i =>
          dsimp only
          cases hf1 : fieldInt i n with
          | error e => rfl
          | ok f1 =>
            dsimp only
            cases hf2 : fieldUInt 0 6 with
            | error e => rfl
            | ok f2 => simp [List.reverseAux_eq, updNewRefval]
        | _ => rfl

def colConstant (c : Int) : ColW := fun allEq values =>
  if allEq && values.headD .missing == Val.int c then pure { bits := [], canon := [], upd := id }
  else .error .other

theorem encConstantC_eq (dd : DDesc) (c : Int) (s : St) :
    encConstantC dd c s = encStepC dd (colConstant c) s := by
  unfold encConstantC encStepC nextCol colConstant colVals St.pushDesc
  simp only []
  cases hv : s.vals.mapM (fun l => nthVal l s.idx) with
  | error e => rfl
  | ok values =>
    cases values with
    | nil => rfl
    | cons v0 vs =>
      simp only [bind, Except.bind, pure, Except.pure, List.headD_cons]
      by_cases hb : (((v0 :: vs).all fun x => x == v0) && v0 == Val.int c) = true
      · simp only [hb, if_true]; rfl
      · simp only [hb, if_false]; rfl

end Bufr
