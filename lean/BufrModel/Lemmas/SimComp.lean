/-
  Compressed encoder primitives in "column step" shape, the CHECKED compressed encoder `encPrimsCX`,
  and its projection onto the uncompressed (checked) encoder of any one subset.
-/
import BufrModel.Lemmas.SimEnc
import BufrModel.Lemmas.CompFactors
set_option linter.unusedSimpArgs false
namespace Bufr

/-- what a column writer produces for the values of all subsets at one position -/
structure ColOut where
  bits : Bits
  /-- per subset: the value the decoder will return -/
  canon : List Val
  upd : Regs → Regs

/-- column writer: `allEqual` flag (decided on the supplied values), the values of all subsets -/
abbrev ColW := Bool → List Val → Except Err ColOut

/-- the values of all subsets at the current position -/
def colVals (s : St) : CM (List Val) := s.vals.mapM (fun l => nthVal l s.idx)

def encStepC (dd : DDesc) (col : ColW) (s : St) : CM St :=
  match colVals s with
  | .error e => .error e
  | .ok values =>
    match values with
    | [] => .error .other
    | v0 :: vs =>
      match col ((v0 :: vs).all (· == v0)) (v0 :: vs) with
      | .error e => .error e
      | .ok o => .ok { s with regs := o.upd s.regs, descs := dd :: s.descs, idx := s.idx + 1,
                              bits := o.bits.reverse ++ s.bits }


theorem mapM_congr_fun {α β : Type} (f g : α → Except Err β) (l : List α) (h : ∀ a, f a = g a) :
    List.mapM (m := Except Err) f l = List.mapM (m := Except Err) g l := by
  rw [funext h]

/-! ### numeric -/

def rawOptNumeric (scale ref : Int) (v : Val) : Except Err (Option Int) :=
  match v with
  | .missing => pure none
  | v => do let q ← quantise v scale; pure (some (q - ref))

def colNumeric (nbits scale ref : Int) : ColW := fun allEq values => do
  let n ← natWidth nbits
  let raws ← (if allEq then values.take 1 else values).mapM (rawOptNumeric scale ref)
  let f ← encIntColumnN allEq raws n
  pure { bits := f, canon := [], upd := id }

theorem encNumericC_eq (dd : DDesc) (nbits scale ref : Int) (s : St) :
    encNumericC dd nbits scale ref s = encStepC dd (colNumeric nbits scale ref) s := by
  unfold encNumericC encStepC nextCol colNumeric colVals St.write St.pushDesc
  simp only []
  cases hv : s.vals.mapM (fun l => nthVal l s.idx) with
  | error e => rfl
  | ok values =>
    cases values with
    | nil => rfl
    | cons v0 vs =>
      simp only [bind, Except.bind, pure, Except.pure]
      cases hn : natWidth nbits with
      | error e => rfl
      | ok n =>
        dsimp only
        rw [mapM_congr_fun _ (rawOptNumeric scale ref) _ (fun v => by cases v <;> rfl)]
        cases hr : List.mapM (m := Except Err) (rawOptNumeric scale ref)
            (if ((v0 :: vs).all fun x => x == v0) = true then List.take 1 (v0 :: vs) else v0 :: vs) with
        | error e => simp only [hr]
        | ok raws =>
          simp only [hr]
          cases hf : encIntColumnN ((v0 :: vs).all fun x => x == v0) raws n <;>
            simp [hf, List.reverseAux_eq]

/-! ### code / flag -/

def rawOptCodeflag (v : Val) : Except Err (Option Int) :=
  match v with
  | .missing => pure none
  | .int i => pure (some i)
  | _ => .error .other

def colCodeflag (n : Nat) : ColW := fun allEq values => do
  let raws ← (if allEq then values.take 1 else values).mapM rawOptCodeflag
  let f ← encIntColumnN allEq raws n
  pure { bits := f, canon := [], upd := id }

theorem encCodeflagC_eq (dd : DDesc) (n : Nat) (s : St) :
    encCodeflagC dd n s = encStepC dd (colCodeflag n) s := by
  unfold encCodeflagC encStepC nextCol colCodeflag colVals St.write St.pushDesc
  simp only []
  cases hv : s.vals.mapM (fun l => nthVal l s.idx) with
  | error e => rfl
  | ok values =>
    cases values with
    | nil => rfl
    | cons v0 vs =>
      simp only [bind, Except.bind, pure, Except.pure]
      rw [mapM_congr_fun _ rawOptCodeflag _ (fun v => by cases v <;> rfl)]
      cases hr : List.mapM (m := Except Err) rawOptCodeflag
          (if ((v0 :: vs).all fun x => x == v0) = true then List.take 1 (v0 :: vs) else v0 :: vs) with
      | error e => simp only [hr]
      | ok raws =>
        simp only [hr]
        cases hf : encIntColumnN ((v0 :: vs).all fun x => x == v0) raws n <;>
          simp [hf, List.reverseAux_eq]

/-! ### character -/

def strOpt (v : Val) : Except Err (Option (List UInt8)) :=
  match v with
  | .missing => pure none
  | .bytes b => pure (some b)
  | _ => .error .other

def colString (nbytes : Nat) : ColW := fun allEq values => do
  let strs ← values.mapM strOpt
  let f ← encStringColumn allEq strs nbytes
  pure { bits := f, canon := [], upd := id }

theorem encStringC_eq (dd : DDesc) (n : Nat) (s : St) :
    encStringC dd n s = encStepC dd (colString n) s := by
  unfold encStringC encStepC nextCol colString colVals St.write St.pushDesc
  simp only []
  cases hv : s.vals.mapM (fun l => nthVal l s.idx) with
  | error e => rfl
  | ok values =>
    cases values with
    | nil => rfl
    | cons v0 vs =>
      simp only [bind, Except.bind, pure, Except.pure]
      rw [mapM_congr_fun _ strOpt _ (fun v => by cases v <;> rfl)]
      cases hr : List.mapM (m := Except Err) strOpt (v0 :: vs) with
      | error e => simp only [hr]
      | ok strs =>
        simp only [hr]
        cases hf : encStringColumn ((v0 :: vs).all fun x => x == v0) strs n <;>
          simp [hf, List.reverseAux_eq]

/-! ### 203YYY and constants -/

def colNewRefval (id nbits : Nat) : ColW := fun allEq values =>
  if !allEq then .error .other
  else match values.headD .missing with
    | .int i => do
      let f1 ← fieldInt i nbits
      let f2 ← fieldUInt 0 6
      pure { bits := f1 ++ f2, canon := [], upd := updNewRefval id i }
    | _ => .error .other

theorem encNewRefvalC_eq (e : Elem) (n : Nat) (s : St) :
    encNewRefvalC e n s = encStepC (.plain e) (colNewRefval e.id n) s := by
  unfold encNewRefvalC encStepC nextCol colNewRefval colVals St.write St.pushDesc setNewRefval St.setRegs
  simp only []
  cases hv : s.vals.mapM (fun l => nthVal l s.idx) with
  | error e => rfl
  | ok values =>
    cases values with
    | nil => rfl
    | cons v0 vs =>
      simp only [bind, Except.bind, pure, Except.pure, List.headD_cons]
      cases ha : ((v0 :: vs).all fun x => x == v0) with
      | false => rfl
      | true =>
        simp only [Bool.not_true, Bool.false_eq_true, if_false]
        cases v0 with
        | int i =>
          dsimp only
          cases hf1 : fieldInt i n with
          | error e => rfl
          | ok f1 =>
            dsimp only
            cases hf2 : fieldUInt 0 6 with
            | error e => rfl
            | ok f2 => simp [List.reverseAux_eq, updNewRefval]
        | _ => rfl

def colConstant (c : Int) : ColW := fun allEq values =>
  if allEq && values.headD .missing == Val.int c then pure { bits := [], canon := [], upd := id }
  else .error .other

theorem encConstantC_eq (dd : DDesc) (c : Int) (s : St) :
    encConstantC dd c s = encStepC dd (colConstant c) s := by
  unfold encConstantC encStepC nextCol colConstant colVals St.pushDesc
  simp only []
  cases hv : s.vals.mapM (fun l => nthVal l s.idx) with
  | error e => rfl
  | ok values =>
    cases values with
    | nil => rfl
    | cons v0 vs =>
      simp only [bind, Except.bind, pure, Except.pure, List.headD_cons]
      by_cases hb : (((v0 :: vs).all fun x => x == v0) && v0 == Val.int c) = true
      · simp only [hb, if_true]; rfl
      · simp only [hb, if_false]; rfl

/-! ### the checked compressed encoder -/

/-- a column writer that additionally insists that every subset's value is encodable on its own by
    the uncompressed field writer `fld` (the compressed encoder checks the minimum of a column
    against the field width, but not the other entries) -/
def colChecked (col : ColW) (fld : Fld) : ColW := fun allEq values => do
  let o ← col allEq values
  if values.all (fun v => (fld v).toBool) then pure o else .error .other

def encFactorCX (s : St) : CM Val := do
  let v ← encFactorC s
  let heads ← s.vals.mapM (fun l => nthVal l (s.idx - 1))
  if heads.all (· == v) then pure v else .error .other

def encLastValuesCX (n : Nat) (s : St) : CM (List Val) := do
  let l ← encLastValues n s
  if s.vals.all (fun row => zeroMask ((row.take s.idx).drop (s.idx - n)) == zeroMask l) then
    -- since the repair of finding F24b the compressed encoder itself insists on literally equal bit-maps
    (if s.vals.all (fun row => encSlice n s.idx row == l) then pure l else .error .other)
  else .error .other

/-- The CHECKED compressed encoder: `encPrimsC` with three extra refusals — the situations in which
    the subsets do not "share structure" or are not individually encodable:
    1. a numeric / code / flag value of some subset that the uncompressed encoder would refuse
       (out of the range of its field);
    2. replication factors that are not literally the same in all subsets (the compressed encoder
       ignores missing factors when comparing);
    3. bitmaps that differ between subsets (before the repair of finding F24b the compressed encoder looked at
       subset 0 only; now `encLastValuesC` refuses them itself). -/
def encPrimsCX : Prims where
  numeric dd nb sc rf := encStepC dd (colChecked (colNumeric nb sc rf) (fldNumeric nb sc rf))
  string dd n := encStepC dd (colString n)
  codeflag dd n := encStepC dd (colChecked (colCodeflag n) (fldCodeflag n))
  newRefval e n := encStepC (.plain e) (colNewRefval e.id n)
  constant dd c := encStepC dd (colConstant c)
  factorValue := encFactorCX
  lastValues := encLastValuesCX

/-! ### projection onto one subset -/

theorem mapM_ok_get {α β : Type} (f : α → Except Err β) :
    ∀ (l : List α) (r : List β), List.mapM (m := Except Err) f l = .ok r →
      ∀ (k : Nat) (a : α), l[k]? = some a → ∃ b, r[k]? = some b ∧ f a = .ok b
  | [], r, h, k, a, hk => by simp at hk
  | x :: xs, r, h, k, a, hk => by
    rw [List.mapM_cons] at h
    cases hx : f x with
    | error e => rw [hx] at h; cases h
    | ok b =>
      rw [hx] at h
      cases hxs : List.mapM (m := Except Err) f xs with
      | error e => rw [hxs] at h; cases h
      | ok bs =>
        rw [hxs] at h
        cases h
        cases k with
        | zero => simp at hk; subst hk; exact ⟨b, by simp, hx⟩
        | succ k =>
          simp at hk
          obtain ⟨b', hb', hf⟩ := mapM_ok_get f xs bs hxs k a hk
          exact ⟨b', by simpa using hb', hf⟩

/-- the column writer `col` accepts only columns every entry of which the field writer `fld`
    accepts, with the same register update -/
def ColProj (col : ColW) (fld : Fld) : Prop :=
  ∀ v0 vs o, col ((v0 :: vs).all (· == v0)) (v0 :: vs) = .ok o →
    ∀ v, v ∈ v0 :: vs → ∃ fo, fld v = .ok fo ∧ fo.upd = o.upd

/-- compressed encoder state `s` vs the uncompressed encoder state `t` of subset `k` -/
def RelProj (k : Nat) (s t : St) : Prop :=
  t.regs = s.regs ∧ t.descs = s.descs ∧ t.links = s.links ∧ t.idx = s.idx ∧
    ∃ row, s.vals[k]? = some row ∧ t.vals = [row]

theorem encStepC_encStep_sim (k : Nat) (dd : DDesc) (col : ColW) (fld : Fld) (hp : ColProj col fld)
    (s : St) :
    SimAt (I := Unit) (fun _ _ => True) (fun _ => RelProj k) s (encStepC dd col s) (encStep dd fld) := by
  intro s' hr j _
  refine ⟨(), trivial, ?_⟩
  rintro t ⟨h1, h2, h3, h4, row, hrow, hvals⟩
  unfold encStepC at hr
  cases hv : colVals s with
  | error e => rw [hv] at hr; cases hr
  | ok values =>
    rw [hv] at hr
    cases values with
    | nil => cases hr
    | cons v0 vs =>
      dsimp only at hr
      cases ho : col ((v0 :: vs).all (· == v0)) (v0 :: vs) with
      | error e => rw [ho] at hr; cases hr
      | ok o =>
        rw [ho] at hr
        cases hr
        obtain ⟨v, hvk, hnth⟩ := mapM_ok_get _ _ _ hv k row hrow
        obtain ⟨fo, hfo, hupd⟩ := hp v0 vs o ho v (List.mem_of_getElem? hvk)
        unfold encStep
        have hcur : curVals t = row := by unfold curVals; rw [hvals]; rfl
        rw [hcur, h4, hnth]
        dsimp only
        rw [hfo]
        refine ⟨_, rfl, ?_⟩
        simp only [RelProj, h1, h2, h3, h4, hupd, hvals, true_and]
        exact ⟨row, hrow, rfl⟩

theorem colProj_checked (col : ColW) (fld : Fld)
    (h1 : ∀ a vs o, col a vs = .ok o → o.upd = id) (h2 : ∀ v fo, fld v = .ok fo → fo.upd = id) :
    ColProj (colChecked col fld) fld := by
  intro v0 vs o h v hv
  unfold colChecked at h
  cases hc : col ((v0 :: vs).all (· == v0)) (v0 :: vs) with
  | error e => rw [hc] at h; cases h
  | ok o' =>
    rw [hc] at h
    simp only [bind, Except.bind, pure, Except.pure] at h
    split at h
    · rename_i hall
      cases h
      have := List.all_eq_true.mp hall v hv
      cases hf : fld v with
      | error e => rw [hf] at this; cases this
      | ok fo => exact ⟨fo, rfl, by rw [h2 v fo hf, h1 _ _ _ hc]⟩
    · cases h

theorem colNumeric_upd (nb sc rf : Int) (a : Bool) (vs : List Val) (o : ColOut)
    (h : colNumeric nb sc rf a vs = .ok o) : o.upd = id := by
  unfold colNumeric at h
  simp only [bind, Except.bind, pure, Except.pure] at h
  repeat (split at h; · cases h)
  cases h; rfl

theorem fldNumeric_upd (nb sc rf : Int) (v : Val) (fo : FldOut)
    (h : fldNumeric nb sc rf v = .ok fo) : fo.upd = id := by
  unfold fldNumeric at h
  simp only [bind, Except.bind, pure, Except.pure] at h
  repeat (split at h; · cases h)
  cases h; rfl

theorem colCodeflag_upd (n : Nat) (a : Bool) (vs : List Val) (o : ColOut)
    (h : colCodeflag n a vs = .ok o) : o.upd = id := by
  unfold colCodeflag at h
  simp only [bind, Except.bind, pure, Except.pure] at h
  repeat (split at h; · cases h)
  cases h; rfl

theorem fldCodeflag_upd (n : Nat) (v : Val) (fo : FldOut)
    (h : fldCodeflag n v = .ok fo) : fo.upd = id := by
  unfold fldCodeflag at h
  simp only [bind, Except.bind, pure, Except.pure] at h
  repeat (split at h; · cases h)
  cases h; rfl

theorem colProj_string (n : Nat) : ColProj (colString n) (fldString n) := by
  intro v0 vs o h v hv
  unfold colString at h
  simp only [bind, Except.bind, pure, Except.pure] at h
  cases hm : List.mapM (m := Except Err) strOpt (v0 :: vs) with
  | error e => rw [hm] at h; cases h
  | ok strs =>
    rw [hm] at h
    dsimp only at h
    cases hc : encStringColumn ((v0 :: vs).all fun x => x == v0) strs n with
    | error e => rw [hc] at h; cases h
    | ok f =>
      rw [hc] at h
      cases h
      obtain ⟨k, hk⟩ := List.getElem?_of_mem hv
      obtain ⟨b, _, hb⟩ := mapM_ok_get strOpt _ _ hm k v hk
      cases v with
      | missing => exact ⟨_, rfl, rfl⟩
      | bytes x => exact ⟨_, rfl, rfl⟩
      | int i => cases hb
      | num a c => cases hb

theorem all_beq_mem {v0 : Val} {vs : List Val} (h : ((v0 :: vs).all fun x => x == v0) = true)
    {v : Val} (hv : v ∈ v0 :: vs) : v = v0 := by
  have := List.all_eq_true.mp h v hv
  simpa using this

theorem colProj_newRefval (id n : Nat) : ColProj (colNewRefval id n) (fldNewRefval id n) := by
  intro v0 vs o h v hv
  unfold colNewRefval at h
  cases ha : ((v0 :: vs).all fun x => x == v0) with
  | false => rw [ha] at h; cases h
  | true =>
    rw [ha] at h
    simp only [Bool.not_true, Bool.false_eq_true, if_false, List.headD_cons] at h
    have hv0 := all_beq_mem ha hv
    subst hv0
    cases v with
    | int i =>
      simp only [bind, Except.bind, pure, Except.pure] at h
      cases hf1 : fieldInt i n with
      | error e => rw [hf1] at h; cases h
      | ok f1 =>
        rw [hf1] at h
        dsimp only at h
        cases hf2 : fieldUInt 0 6 with
        | error e => rw [hf2] at h; cases h
        | ok f2 =>
          rw [hf2] at h
          cases h
          refine ⟨{ bits := f1, canon := .int i, upd := updNewRefval id i }, ?_, rfl⟩
          simp only [fldNewRefval, bind, Except.bind, pure, Except.pure, hf1]
    | _ => cases h

theorem colProj_constant (c : Int) : ColProj (colConstant c) (fldConstant c) := by
  intro v0 vs o h v hv
  unfold colConstant at h
  by_cases hb : (((v0 :: vs).all fun x => x == v0) && (v0 :: vs).headD .missing == Val.int c) = true
  · rw [if_pos hb] at h
    cases h
    simp only [Bool.and_eq_true, List.headD_cons, beq_iff_eq] at hb
    have hv0 := all_beq_mem hb.1 hv
    rw [hv0, hb.2]
    exact ⟨{ bits := [], canon := .int c, upd := id }, by simp [fldConstant], rfl⟩
  · rw [if_neg hb] at h; cases h

theorem primSim_proj (k : Nat) : PrimSim₀ encPrimsCX encPrimsU (RelProj k) where
  agree := fun h => ⟨h.1, h.2.1, h.2.2.1⟩
  rel_setRegs := fun f ⟨h1, h2, h3, h4, h5⟩ => by
    simp only [RelProj, St.setRegs_regs, St.setRegs_descs, St.setRegs_links, St.setRegs_idx,
      St.setRegs_vals, h1, h2, h3, h4, true_and]
    exact h5
  rel_addLink := fun o ⟨h1, h2, h3, h4, h5⟩ => by
    simp only [RelProj, addLink_regs, addLink_descs, addLink_links, addLink_idx,
      addLink_vals, h1, h2, h3, h4, true_and]
    exact h5
  ix_setRegs := fun _ => Iff.rfl
  ix_addLink := fun _ => Iff.rfl
  numeric := fun dd nb sc rf s =>
    SimAt.congr_rel (fun _ t _ => sim_encNumericU_eq dd nb sc rf t)
      (encStepC_encStep_sim k dd _ _
        (colProj_checked _ _ (colNumeric_upd nb sc rf) (fldNumeric_upd nb sc rf)) s)
  string := fun dd n s =>
    SimAt.congr_rel (fun _ t _ => sim_encStringU_eq dd n t)
      (encStepC_encStep_sim k dd _ _ (colProj_string n) s)
  codeflag := fun dd n s =>
    SimAt.congr_rel (fun _ t _ => sim_encCodeflagU_eq dd n t)
      (encStepC_encStep_sim k dd _ _
        (colProj_checked _ _ (colCodeflag_upd n) (fldCodeflag_upd n)) s)
  newRefval := fun e n s =>
    SimAt.congr_rel (fun _ t _ => sim_encNewRefvalU_eq e n t)
      (encStepC_encStep_sim k _ _ _ (colProj_newRefval e.id n) s)
  constant := fun dd c s =>
    SimAt.congr_rel (fun _ t _ => encConstantU_eq dd c t)
      (encStepC_encStep_sim k dd _ _ (colProj_constant c) s)
  factor := by
    intro i s t n ⟨_, _, _, h4, row, hrow, hvals⟩ h
    show (encFactorU t >>= factorCount) = .ok n
    change (encFactorCX s >>= factorCount) = .ok n at h
    unfold encFactorCX at h
    cases hv : encFactorC s with
    | error e => rw [hv] at h; cases h
    | ok v =>
      rw [hv] at h
      have hidx : s.idx ≠ 0 := by
        intro h0
        unfold encFactorC at hv
        simp [h0] at hv
      cases hm : List.mapM (m := Except Err) (fun l => nthVal l (s.idx - 1)) s.vals with
      | error e =>
        simp only [bind, Except.bind] at h
        rw [hm] at h; cases h
      | ok heads =>
        simp only [bind, Except.bind, pure, Except.pure] at h
        rw [hm] at h
        dsimp only at h
        by_cases hall : (heads.all fun x => x == v) = true
        · simp only [hall, if_true] at h
          obtain ⟨b, hb, hnth⟩ := mapM_ok_get _ _ _ hm k row hrow
          have hbv : b = v := by
            have := List.all_eq_true.mp hall b (List.mem_of_getElem? hb)
            simpa using this
          subst hbv
          unfold encFactorU curVals
          rw [hvals, h4]
          simp only [hidx, if_false, List.headD_cons, hnth, bind, Except.bind]
          exact h
        · simp only [hall, if_false] at h; cases h
  lastValues := by
    intro i s t n l ⟨_, _, _, h4, row, hrow, hvals⟩ h
    change encLastValuesCX n s = .ok l at h
    show ∃ l', encLastValues n t = .ok l' ∧ zeroMask l' = zeroMask l
    unfold encLastValuesCX at h
    unfold encLastValues curVals at h ⊢
    simp only [bind, Except.bind, pure, Except.pure] at h
    split at h
    · rename_i hall
      split at h
      · cases h
        refine ⟨_, rfl, ?_⟩
        rw [hvals, h4]
        have := List.all_eq_true.mp hall row (List.mem_of_getElem? hrow)
        simpa using this
      · cases h
    · cases h

/-! ### checked compressed encoder ⟶ compressed encoder -/

theorem encStepC_weaken (dd : DDesc) (colX col : ColW)
    (hc : ∀ a vs o, colX a vs = .ok o → col a vs = .ok o) (s : St) :
    SimAt (I := Unit) (fun _ _ => True) (fun _ s t => t = s) s (encStepC dd colX s) (encStepC dd col) := by
  intro s' hr j _
  refine ⟨(), trivial, ?_⟩
  rintro t rfl
  refine ⟨s', ?_, rfl⟩
  unfold encStepC at hr ⊢
  cases hv : colVals t with
  | error e => rw [hv] at hr; cases hr
  | ok values =>
    rw [hv] at hr
    cases values with
    | nil => cases hr
    | cons v0 vs =>
      dsimp only at hr ⊢
      cases ho : colX ((v0 :: vs).all (· == v0)) (v0 :: vs) with
      | error e => rw [ho] at hr; cases hr
      | ok o => rw [ho] at hr; rw [hc _ _ _ ho]; exact hr

theorem colChecked_le (col : ColW) (fld : Fld) (a : Bool) (vs : List Val) (o : ColOut)
    (h : colChecked col fld a vs = .ok o) : col a vs = .ok o := by
  unfold colChecked at h
  cases hc : col a vs with
  | error e => rw [hc] at h; cases h
  | ok o' =>
    rw [hc] at h
    simp only [bind, Except.bind, pure, Except.pure] at h
    split at h
    · exact h
    · cases h

theorem primSim_eraseC : PrimSim₀ encPrimsCX encPrimsC (fun s t => t = s) where
  agree := fun h => by rw [h]; exact ⟨rfl, rfl, rfl⟩
  rel_setRegs := fun f h => by rw [h]
  rel_addLink := fun o h => by rw [h]
  ix_setRegs := fun _ => Iff.rfl
  ix_addLink := fun _ => Iff.rfl
  numeric := fun dd nb sc rf s =>
    SimAt.congr_rel (fun _ t _ => encNumericC_eq dd nb sc rf t)
      (encStepC_weaken dd _ _ (colChecked_le _ _) s)
  string := fun dd n s =>
    SimAt.congr_rel (fun _ t _ => encStringC_eq dd n t) (encStepC_weaken dd _ _ (fun _ _ _ h => h) s)
  codeflag := fun dd n s =>
    SimAt.congr_rel (fun _ t _ => encCodeflagC_eq dd n t)
      (encStepC_weaken dd _ _ (colChecked_le _ _) s)
  newRefval := fun e n s =>
    SimAt.congr_rel (fun _ t _ => encNewRefvalC_eq e n t) (encStepC_weaken _ _ _ (fun _ _ _ h => h) s)
  constant := fun dd c s =>
    SimAt.congr_rel (fun _ t _ => encConstantC_eq dd c t) (encStepC_weaken dd _ _ (fun _ _ _ h => h) s)
  factor := by
    intro i s t n hrel h
    subst hrel
    show (encFactorC t >>= factorCount) = .ok n
    change (encFactorCX t >>= factorCount) = .ok n at h
    unfold encFactorCX at h
    cases hv : encFactorC t with
    | error e => rw [hv] at h; cases h
    | ok v =>
      rw [hv] at h
      simp only [bind, Except.bind, pure, Except.pure] at h ⊢
      split at h
      · cases h
      · rename_i w heq
        split at heq
        · cases heq
        · split at heq
          · cases heq; exact h
          · cases heq
  lastValues := by
    intro i s t n l hrel h
    subst hrel
    change encLastValuesCX n t = .ok l at h
    show ∃ l', encLastValuesC n t = .ok l' ∧ zeroMask l' = zeroMask l
    unfold encLastValuesCX at h
    cases hv : encLastValues n t with
    | error e => rw [hv] at h; cases h
    | ok l0 =>
      rw [hv] at h
      simp only [bind, Except.bind, pure, Except.pure] at h
      split at h
      · split at h
        · next hlit =>
          cases h
          exact ⟨_, encLastValuesC_of hv (fun row hr => by simpa using List.all_eq_true.mp hlit row hr), rfl⟩
        · cases h
      · cases h

end Bufr
