/-
  The CHECKED uncompressed encoder `encPrimsUX` and the two simulations it takes part in:

  * `encPrimsUX` ⟶ `encPrimsU`  (erasure: the checked encoder writes exactly what the encoder writes)
  * `encPrimsUX` ⟶ `decPrimsU`  (round trip: the decoder, run on what the encoder writes, stays in
                                 lock-step and reads the canonical values)

  `encPrimsUX` is `encPrimsU` instrumented with a ghost register (`St.aux`, unused by the encoder and
  the decoder) that accumulates, most recent first, the value the decoder will return for every
  field written, and with three extra refusals — exactly the situations in which a decoder does NOT
  stay in lock-step with the encoder:
    1. a numeric / code / flag field wider than 64 bits (the decoder's `read_uint_or_none` raises);
    2. a delayed replication factor whose field does not read back as the value supplied
       (non-zero scale, or the value is the all-ones pattern of its field and reads back missing):
       the encoder replicates by the SUPPLIED value, the decoder by the DECODED one;
    3. a bitmap whose entries, as read back, are zero at other positions than the supplied ones
       (same cause), or a bitmap of zero length (unreachable).
-/
import BufrModel.Lemmas.Sim
import BufrModel.Lemmas.SimElem
set_option linter.unusedSimpArgs false
namespace Bufr

def encFactorX (s : St) : CM Val := do
  let v ← encFactorU s
  match s.aux with
  | c :: _ => if c = v then pure v else .error .other
  | [] => .error .other

def encLastValuesX (n : Nat) (s : St) : CM (List Val) := do
  let l ← encLastValues n s
  if n = 0 then .error .other
  else if zeroMask ((s.aux.take n).reverse) = zeroMask l then pure l else .error .other

def encPrimsUX : Prims where
  numeric dd nb sc rf := encStepX dd (fldNumericX nb sc rf)
  string dd n := encStepX dd (fldString n)
  codeflag dd n := encStepX dd (fldCodeflagX n)
  newRefval e n := encStepX (.plain e) (fldNewRefval e.id n)
  constant dd c := encStepX dd (fldConstant c)
  factorValue := encFactorX
  lastValues := encLastValuesX

/-! ### encoder ⟶ decoder -/

/-- index: the decoder's remaining stream.  It continues what the encoder has written so far to the
    whole stream `W`, and it ends with `rest`. -/
def IxED (W rest : Bits) (i : Bits) (s : St) : Prop :=
  s.bits.reverse ++ i = W ∧ ∃ out, i = out ++ rest

/-- encoder state `s` (checked encoder: `aux` = canonical values so far) vs decoder state `t` -/
def RelED (i : Bits) (s t : St) : Prop :=
  t.regs = s.regs ∧ t.descs = s.descs ∧ t.links = s.links ∧ t.bits = i ∧ t.vals = [s.aux]

theorem encStepX_decStep_sim (W rest : Bits) (dd : DDesc) (fld : Fld) (rd : Rd) (hc : Codec fld rd)
    (s : St) : SimAt (IxED W rest) RelED s (encStepX dd fld s) (decStep dd rd) := by
  intro s' hr j hj
  unfold encStepX at hr
  cases hv : nthVal (curVals s) s.idx with
  | error e => rw [hv] at hr; cases hr
  | ok v =>
    rw [hv] at hr
    dsimp only at hr
    cases ho : fld v with
    | error e => rw [ho] at hr; cases hr
    | ok o =>
      rw [ho] at hr
      dsimp only at hr
      cases hr
      obtain ⟨hW, out, hout⟩ := hj
      refine ⟨o.bits ++ j, ⟨?_, o.bits ++ out, by rw [hout, List.append_assoc]⟩, ?_⟩
      · simpa [List.reverse_append, List.append_assoc] using hW
      · intro t ⟨hregs, hdescs, hlinks, hbits, hvals⟩
        unfold decStep
        rw [hbits, hc v o ho j]
        refine ⟨_, rfl, ?_⟩
        simp only [RelED, hregs, hdescs, hlinks, hvals, List.map_cons, List.map_nil, and_self]

theorem primSim_enc_dec (W rest : Bits) : PrimSim encPrimsUX decPrimsU (IxED W rest) RelED where
  agree := fun h => ⟨h.1, h.2.1, h.2.2.1⟩
  rel_setRegs := fun f ⟨h1, h2, h3, h4, h5⟩ => by
    simp only [RelED, St.setRegs_regs, St.setRegs_descs, St.setRegs_links, St.setRegs_bits,
      St.setRegs_vals, St.setRegs_aux, h1, h2, h3, h4, h5, and_self]
  rel_addLink := fun o ⟨h1, h2, h3, h4, h5⟩ => by
    simp only [RelED, addLink_regs, addLink_descs, addLink_links, addLink_bits,
      addLink_vals, addLink_aux, h1, h2, h3, h4, h5, and_self]
  ix_setRegs := fun _ => Iff.rfl
  ix_addLink := fun _ => Iff.rfl
  numeric := fun dd nb sc rf s =>
    SimAt.congr_rel (fun _ t _ => decNumericU_eq dd nb sc rf t)
      (encStepX_decStep_sim W rest dd _ _ (codec_numeric nb sc rf) s)
  string := fun dd n s =>
    SimAt.congr_rel (fun _ t _ => decStringU_eq dd n t)
      (encStepX_decStep_sim W rest dd _ _ (codec_string n) s)
  codeflag := fun dd n s =>
    SimAt.congr_rel (fun _ t _ => decCodeflagU_eq dd n t)
      (encStepX_decStep_sim W rest dd _ _ (codec_codeflag n) s)
  newRefval := fun e n s =>
    SimAt.congr_rel (fun _ t _ => decNewRefvalU_eq e n t)
      (encStepX_decStep_sim W rest _ _ _ (codec_newRefval e.id n) s)
  constant := fun dd c s =>
    SimAt.congr_rel (fun _ t _ => decConstant_eq dd c t)
      (encStepX_decStep_sim W rest dd _ _ (codec_constant c) s)
  factor := by
    intro i s t n ⟨_, _, _, _, hvals⟩ h
    show (decFactorU t >>= factorCount) = .ok n
    change (encFactorX s >>= factorCount) = .ok n at h
    unfold encFactorX at h
    unfold decFactorU
    rw [hvals]
    cases hv : encFactorU s with
    | error e => rw [hv] at h; cases h
    | ok v =>
      rw [hv] at h
      cases ha : s.aux with
      | nil => rw [ha] at h; cases h
      | cons c cs =>
        rw [ha] at h
        simp only [bind, Except.bind, pure, Except.pure] at h
        by_cases hcv : c = v
        · subst hcv
          simpa [headVal, bind, Except.bind] using h
        · simp only [hcv, if_false] at h; cases h
  lastValues := by
    intro i s t n l ⟨_, _, _, _, hvals⟩ h
    change encLastValuesX n s = .ok l at h
    show ∃ l', decLastValues n t = .ok l' ∧ zeroMask l' = zeroMask l
    unfold encLastValuesX encLastValues at h
    unfold decLastValues
    rw [hvals]
    simp only [bind, Except.bind, pure, Except.pure] at h
    by_cases hn : n = 0
    · simp only [hn, if_true] at h; cases h
    · simp only [hn, if_false] at h ⊢
      split at h
      · rename_i hm
        cases h
        exact ⟨_, rfl, hm⟩
      · cases h

/-! ### checked encoder ⟶ encoder (erasure of the ghost register) -/

/-- equal except for the ghost registers -/
def RelErase (s t : St) : Prop :=
  t.regs = s.regs ∧ t.bits = s.bits ∧ t.descs = s.descs ∧ t.vals = s.vals ∧ t.idx = s.idx ∧
    t.links = s.links

theorem encStepX_encStep_sim (dd : DDesc) (fldX fld : Fld)
    (hf : ∀ v o, fldX v = .ok o → fld v = .ok o) (s : St) :
    SimAt (I := Unit) (fun _ _ => True) (fun _ => RelErase) s (encStepX dd fldX s) (encStep dd fld) := by
  intro s' hr j _
  refine ⟨(), trivial, ?_⟩
  intro t ⟨h1, h2, h3, h4, h5, h6⟩
  unfold encStepX at hr
  unfold encStep
  have hcur : curVals t = curVals s := by unfold curVals; rw [h4]
  rw [hcur, h5]
  cases hv : nthVal (curVals s) s.idx with
  | error e => rw [hv] at hr; cases hr
  | ok v =>
    rw [hv] at hr
    dsimp only at hr ⊢
    cases ho : fldX v with
    | error e => rw [ho] at hr; cases hr
    | ok o =>
      rw [ho] at hr
      rw [hf v o ho]
      dsimp only at hr ⊢
      cases hr
      exact ⟨_, rfl, by simp only [RelErase, h1, h2, h3, h4, h5, h6, and_self]⟩

theorem fldNumericX_le (nb sc rf : Int) (v : Val) (o : FldOut) (h : fldNumericX nb sc rf v = .ok o) :
    fldNumeric nb sc rf v = .ok o := by
  unfold fldNumericX at h
  cases hn : natWidth nb with
  | error e => rw [hn] at h; cases h
  | ok n =>
    rw [hn] at h
    simp only [bind, Except.bind] at h
    split at h
    · cases h
    · exact h

theorem fldCodeflagX_le (n : Nat) (v : Val) (o : FldOut) (h : fldCodeflagX n v = .ok o) :
    fldCodeflag n v = .ok o := by
  unfold fldCodeflagX at h
  split at h
  · cases h
  · exact h

theorem encFactorU_erase {s t : St} (h : RelErase s t) : encFactorU t = encFactorU s := by
  obtain ⟨_, _, _, h4, h5, _⟩ := h
  unfold encFactorU curVals
  rw [h4, h5]

theorem encLastValues_erase {s t : St} (n : Nat) (h : RelErase s t) :
    encLastValues n t = encLastValues n s := by
  obtain ⟨_, _, _, h4, h5, _⟩ := h
  unfold encLastValues curVals
  rw [h4, h5]

theorem primSim_erase : PrimSim₀ encPrimsUX encPrimsU RelErase where
  agree := fun h => ⟨h.1, h.2.2.1, h.2.2.2.2.2⟩
  rel_setRegs := fun f ⟨h1, h2, h3, h4, h5, h6⟩ => by
    simp only [RelErase, St.setRegs_regs, St.setRegs_descs, St.setRegs_links, St.setRegs_bits,
      St.setRegs_vals, St.setRegs_idx, h1, h2, h3, h4, h5, h6, and_self]
  rel_addLink := fun o ⟨h1, h2, h3, h4, h5, h6⟩ => by
    simp only [RelErase, addLink_regs, addLink_descs, addLink_links, addLink_bits,
      addLink_vals, addLink_idx, h1, h2, h3, h4, h5, h6, and_self]
  ix_setRegs := fun _ => Iff.rfl
  ix_addLink := fun _ => Iff.rfl
  numeric := fun dd nb sc rf s =>
    SimAt.congr_rel (fun _ t _ => sim_encNumericU_eq dd nb sc rf t)
      (encStepX_encStep_sim dd _ _ (fldNumericX_le nb sc rf) s)
  string := fun dd n s =>
    SimAt.congr_rel (fun _ t _ => sim_encStringU_eq dd n t)
      (encStepX_encStep_sim dd _ _ (fun _ _ h => h) s)
  codeflag := fun dd n s =>
    SimAt.congr_rel (fun _ t _ => sim_encCodeflagU_eq dd n t)
      (encStepX_encStep_sim dd _ _ (fldCodeflagX_le n) s)
  newRefval := fun e n s =>
    SimAt.congr_rel (fun _ t _ => sim_encNewRefvalU_eq e n t)
      (encStepX_encStep_sim _ _ _ (fun _ _ h => h) s)
  constant := fun dd c s =>
    SimAt.congr_rel (fun _ t _ => encConstantU_eq dd c t)
      (encStepX_encStep_sim dd _ _ (fun _ _ h => h) s)
  factor := by
    intro i s t n hrel h
    show (encFactorU t >>= factorCount) = .ok n
    change (encFactorX s >>= factorCount) = .ok n at h
    rw [encFactorU_erase hrel]
    unfold encFactorX at h
    cases hv : encFactorU s with
    | error e => rw [hv] at h; cases h
    | ok v =>
      rw [hv] at h
      cases ha : s.aux with
      | nil => rw [ha] at h; cases h
      | cons c cs =>
        rw [ha] at h
        simp only [bind, Except.bind, pure, Except.pure] at h ⊢
        by_cases hcv : c = v
        · simpa only [hcv, if_true] using h
        · simp only [hcv, if_false] at h; cases h
  lastValues := by
    intro i s t n l hrel h
    change encLastValuesX n s = .ok l at h
    show ∃ l', encLastValues n t = .ok l' ∧ zeroMask l' = zeroMask l
    rw [encLastValues_erase n hrel]
    unfold encLastValuesX at h
    cases hv : encLastValues n s with
    | error e => rw [hv] at h; cases h
    | ok l0 =>
      rw [hv] at h
      simp only [bind, Except.bind, pure, Except.pure] at h
      split at h
      · cases h
      · split at h
        · cases h; exact ⟨_, rfl, rfl⟩
        · cases h

end Bufr
