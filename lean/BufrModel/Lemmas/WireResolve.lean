/-
  C09: attachment (`Wired.tree`: `resolveV` with fuel `2 * next + 2`) and rendering succeed on a tree whose
  bitmap-linked attributes hang on EARLIER nodes and whose stats markers carry a meaning node that lies strictly
  between owner and marker (what `C09.Linked` establishes for `wireLinksOK` templates).

  `Res o tab d n`: the value node `n` is resolved within depth `d` and every index met is inside the flat lists.
  `tab_res` (strong induction on the distance of the owner from the end): the attributes attached to owner `x` need
  depth `2 (N - x)` - an attribute `a > x` needs its own attached attributes (`2 (N - a)`) and its meaning node `m`
  with `x < m` (`2 (N - m) + 1`).  Hence every node of the tree needs at most `2 N + 1`.
-/
import BufrModel.Lemmas.WireSimLinks
import BufrModel.Spec.EvalPath
namespace Bufr.C09
open Bufr

inductive Res (o : SubsetOut) (tab : List (Nat × Node)) : Nat → Node → Prop
  | mk {d : Nat} {k : VKind} {i : Nat} {own : List Node} : i < o.descs.length →
      (∀ a ∈ own, Res o tab d a) → (∀ a ∈ tabFor tab i, Res o tab d a) → Res o tab (d + 1) (.value k i own)

theorem Res.mono {o : SubsetOut} {tab : List (Nat × Node)} {d : Nat} {n : Node} (h : Res o tab d n) :
    ∀ d', d ≤ d' → Res o tab d' n := by
  induction h with
  | mk hi _ _ ih1 ih2 =>
    intro d' hd
    obtain ⟨e, rfl⟩ : ∃ e, d' = e + 1 := ⟨d' - 1, by omega⟩
    exact Res.mk hi (fun a ha => ih1 a ha e (by omega)) (fun a ha => ih2 a ha e (by omega))

theorem mapE_ok {α β : Type} {g : α → CM β} {Q : β → Prop} : ∀ (l : List α),
    (∀ a ∈ l, ∃ b, g a = .ok b ∧ Q b) → ∃ bs, mapE g l = .ok bs ∧ ∀ b ∈ bs, Q b
  | [], _ => ⟨[], rfl, fun _ h => by cases h⟩
  | a :: as, h => by
    obtain ⟨b, hb, qb⟩ := h a List.mem_cons_self
    obtain ⟨bs, hbs, qbs⟩ := mapE_ok as (fun x hx => h x (List.mem_cons_of_mem _ hx))
    refine ⟨b :: bs, by rw [mapE, hb]; simp only [hbs], fun x hx => ?_⟩
    rcases List.mem_cons.mp hx with rfl | hx
    · exact qb
    · exact qbs x hx

/-- the node renders, as a member and as an attribute -/
def Rend (o : SubsetOut) (n : Node) : Prop := ∀ b, ∃ j, renderValue o b n = .ok j

theorem renderAttrs_ok {o : SubsetOut} : ∀ (l : List Node), (∀ a ∈ l, Rend o a) → ∃ js, renderAttrs o l = .ok js
  | [], _ => ⟨[], by rw [renderAttrs]⟩
  | a :: as, h => by
    obtain ⟨j, hj⟩ := h a List.mem_cons_self true
    obtain ⟨js, hjs⟩ := renderAttrs_ok as (fun x hx => h x (List.mem_cons_of_mem _ hx))
    exact ⟨j :: js, by rw [renderAttrs, hj]; simp only [hjs]⟩

theorem resolveV_of_res {o : SubsetOut} {tab : List (Nat × Node)} (hlen : o.descs.length ≤ o.vals.length)
    {d : Nat} {n : Node} (h : Res o tab d n) :
    ∀ fuel, d ≤ fuel → ∃ n', resolveV tab fuel n = .ok n' ∧ Rend o n' ∧
      ∀ k i own, n = .value k i own → ∃ attrs, n' = .value k i attrs := by
  induction h with
  | @mk d k i own hi _ _ ih1 ih2 =>
    intro fuel hf
    obtain ⟨f, rfl⟩ : ∃ f, fuel = f + 1 := ⟨fuel - 1, by omega⟩
    obtain ⟨as1, e1, q1⟩ := mapE_ok (g := resolveV tab f) (Q := Rend o) own
      (fun a ha => by obtain ⟨b, hb, qb, _⟩ := ih1 a ha f (by omega); exact ⟨b, hb, qb⟩)
    obtain ⟨as2, e2, q2⟩ := mapE_ok (g := resolveV tab f) (Q := Rend o) (tabFor tab i)
      (fun a ha => by obtain ⟨b, hb, qb, _⟩ := ih2 a ha f (by omega); exact ⟨b, hb, qb⟩)
    refine ⟨.value k i (as1 ++ as2), by rw [resolveV, e1]; simp only [e2], ?_, ?_⟩
    · intro b
      obtain ⟨js, hjs⟩ := renderAttrs_ok (o := o) (as1 ++ as2) (fun a ha => by
        rcases List.mem_append.mp ha with ha | ha
        · exact q1 a ha
        · exact q2 a ha)
      have hv : i < o.vals.length := by omega
      rw [renderValue, List.getElem?_eq_getElem hi, List.getElem?_eq_getElem hv]
      simp only [hjs]
      exact ⟨_, rfl⟩
    · intro k' i' own' e
      injection e with e1' e2' _
      subst e1' e2'
      exact ⟨_, rfl⟩

theorem tabFor_mem' {tab : List (Nat × Node)} {i : Nat} {a : Node} (h : a ∈ tabFor tab i) :
    ∃ p ∈ tab, p.1 = i ∧ p.2 = a := by
  unfold tabFor at h
  obtain ⟨p, hp, e⟩ := List.mem_map.mp h
  obtain ⟨hp1, hp2⟩ := List.mem_filter.mp hp
  exact ⟨p, List.mem_reverse.mp hp1, by simpa using hp2, e⟩

/-- what `Linked.owners` says, without the links -/
def TabOK (N : Nat) (tab : List (Nat × Node)) : Prop :=
  ∀ p ∈ tab, ∃ k i own, p.2 = .value k i own ∧ p.1 < i ∧ i < N ∧ OwnOK p.1 i own

/-- the attributes attached to owner `x` are resolved within depth `2 (N - x)` -/
theorem tab_res {o : SubsetOut} {tab : List (Nat × Node)} (ht : TabOK o.descs.length tab) :
    ∀ (r x : Nat), o.descs.length - x = r → ∀ p ∈ tab, p.1 = x → Res o tab (2 * (o.descs.length - x)) p.2 := by
  intro r
  induction r using Nat.strongRecOn with
  | _ r ih =>
    intro x hr p hp hx
    obtain ⟨k, a, own, e, h1, h2, h3⟩ := ht p hp
    rw [hx] at h1 h3
    rw [e]
    have child : ∀ y, x < y → y < o.descs.length → ∀ c ∈ tabFor tab y, Res o tab (2 * (o.descs.length - y)) c := by
      intro y hy hyN c hc
      obtain ⟨p', hp', e1, e2⟩ := tabFor_mem' hc
      rw [← e2]
      exact ih (o.descs.length - y) (by omega) y rfl p' hp' e1
    obtain ⟨d, hd⟩ : ∃ d, 2 * (o.descs.length - x) = d + 1 := ⟨2 * (o.descs.length - x) - 1, by omega⟩
    rw [hd]
    refine Res.mk h2 ?_ (fun c hc => (child a h1 h2 c hc).mono d (by omega))
    rcases h3 with h3 | ⟨m, h3, hm1, hm2⟩
    · rw [h3]; intro c hc; cases hc
    · rw [h3]
      intro c hc
      rw [List.mem_singleton] at hc
      rw [hc]
      have : Res o tab (2 * (o.descs.length - m) + 1) (.value .value m []) :=
        Res.mk (by omega) (fun _ h => by cases h) (child m hm1 (by omega))
      exact this.mono d (by omega)

/-- every value node of the shape the simulation yields is resolved within depth `2 N + 2` -/
theorem val_res {o : SubsetOut} {tab : List (Nat × Node)} (ht : TabOK o.descs.length tab) {n : Node}
    (h : valShape o.descs.length n = true) : Res o tab (2 * o.descs.length + 3) n := by
  cases n with
  | value k i own =>
    simp only [valShape, Bool.and_eq_true, decide_eq_true_eq] at h
    obtain ⟨hi, ho⟩ := h
    have child : ∀ y, y < o.descs.length → ∀ c ∈ tabFor tab y, Res o tab (2 * o.descs.length) c := by
      intro y hy c hc
      obtain ⟨p', hp', e1, e2⟩ := tabFor_mem' hc
      rw [← e2]
      exact (tab_res ht _ y rfl p' hp' e1).mono _ (by omega)
    refine Res.mk hi ?_ (fun c hc => (child i hi c hc).mono _ (by omega))
    unfold ownShape at ho
    split at ho
    · intro c hc; cases hc
    · next m =>
      simp only [decide_eq_true_eq] at ho
      intro c hc
      rw [List.mem_singleton] at hc
      rw [hc]
      exact (Res.mk (d := 2 * o.descs.length) (by omega) (fun _ h => by cases h) (child m (by omega))).mono _ (by omega)
    · next a m =>
      simp only [Bool.and_eq_true, decide_eq_true_eq] at ho
      intro c hc
      rw [List.mem_singleton] at hc
      rw [hc]
      refine Res.mk (by omega) ?_ (fun c hc => (child a (by omega) c hc).mono _ (by omega))
      intro c hc
      rw [List.mem_singleton] at hc
      rw [hc]
      exact Res.mk (by omega) (fun _ h => by cases h) (child m (by omega))
    · cases ho
  | noval _ => cases h
  | seq _ _ => cases h
  | fixedRep _ _ _ => cases h
  | delayedRep _ _ _ _ => cases h

mutual
theorem resolve_render_list {o : SubsetOut} {tab : List (Nat × Node)} (hlen : o.descs.length ≤ o.vals.length)
    (ht : TabOK o.descs.length tab) (fuel : Nat) (hf : 2 * o.descs.length + 3 ≤ fuel) : ∀ (ns : List Node),
    treeOKList o ns = true → shapeList o.descs.length ns = true →
      ∃ res js, resolveList tab fuel ns = .ok res ∧ renderNodes o res = .ok js
  | [], _, _ => ⟨[], [], by rw [resolveList], by rw [renderNodes]⟩
  | n :: ns, h1, h2 => by
    rw [treeOKList, Bool.and_eq_true] at h1
    rw [shapeList, Bool.and_eq_true] at h2
    obtain ⟨n', j, e1, e2⟩ := resolve_render_1 hlen ht fuel hf n h1.1 h2.1
    obtain ⟨res, js, e3, e4⟩ := resolve_render_list hlen ht fuel hf ns h1.2 h2.2
    exact ⟨n' :: res, j :: js, by rw [resolveList, e1]; simp only [e3], by rw [renderNodes, e2]; simp only [e4]⟩

theorem resolve_render_1 {o : SubsetOut} {tab : List (Nat × Node)} (hlen : o.descs.length ≤ o.vals.length)
    (ht : TabOK o.descs.length tab) (fuel : Nat) (hf : 2 * o.descs.length + 3 ≤ fuel) : ∀ (n : Node),
    treeOK1 o n = true → shape1 o.descs.length n = true →
      ∃ n' j, resolve1 tab fuel n = .ok n' ∧ renderNode o n' = .ok j
  | .value k i own, _, h2 => by
    rw [shape1] at h2
    obtain ⟨n', e, hr, hs⟩ := resolveV_of_res hlen (val_res (tab := tab) ht h2) fuel hf
    obtain ⟨attrs, rfl⟩ := hs k i own rfl
    obtain ⟨j, hj⟩ := hr false
    exact ⟨_, j, by rw [resolve1]; exact e, by rw [renderNode]; exact hj⟩
  | .noval id, _, _ => ⟨.noval id, .noval id, by rw [resolve1], by rw [renderNode]⟩
  | .seq id ms, h1, h2 => by
    rw [treeOK1, Bool.and_eq_true] at h1
    rw [shape1] at h2
    obtain ⟨res, js, e3, e4⟩ := resolve_render_list hlen ht fuel hf ms h1.2 h2
    exact ⟨.seq id res, .group id [] js, by rw [resolve1]; simp only [e3], by rw [renderNode]; simp only [e4]⟩
  | .fixedRep id n ms, h1, h2 => by
    rw [treeOK1, Bool.and_eq_true, Bool.and_eq_true] at h1
    rw [shape1] at h2
    obtain ⟨res, js, e3, e4⟩ := resolve_render_list hlen ht fuel hf ms h1.2 h2
    exact ⟨.fixedRep id n res, .group id [] ((chunks n (yOf id) js).map NJ.arr), by rw [resolve1]; simp only [e3],
      by rw [renderNode]; simp only [e4]⟩
  | .delayedRep id n f ms, h1, h2 => by
    rw [treeOK1, Bool.and_eq_true, Bool.and_eq_true] at h1
    rw [shape1, Bool.and_eq_true] at h2
    obtain ⟨res, js, e3, e4⟩ := resolve_render_list hlen ht fuel hf ms h1.2 h2.2
    obtain ⟨f', e, hr, hs⟩ := resolveV_of_res hlen (val_res (tab := tab) ht h2.1) fuel hf
    cases f with
    | value k i own =>
      obtain ⟨attrs, rfl⟩ := hs k i own rfl
      obtain ⟨fj, hfj⟩ := hr false
      have hc := h1.1.2
      simp only [factorOK, Bool.and_eq_true] at hc
      cases hw : wireCount o i with
      | error err => rw [hw] at hc; have := hc.2; simp at this
      | ok c =>
        exact ⟨.delayedRep id n (.value k i attrs) res, .group id [fj] ((chunks n c js).map NJ.arr),
          by rw [resolve1, e]; simp only [e3], by rw [renderNode]; simp only [hw, hfj, e4]⟩
    | noval _ => simp [valShape] at h2
    | seq _ _ => simp [valShape] at h2
    | fixedRep _ _ _ => simp [valShape] at h2
    | delayedRep _ _ _ _ => simp [valShape] at h2
end

/-- `Linked` without the wiring equation: what a subset of COMPRESSED data shown on the tree of subset 0 satisfies -/
structure LinkedCore (o : SubsetOut) (w : Wired) : Prop where
  next : w.st.next = o.vals.length
  len : o.descs.length = o.vals.length
  good : GoodL o w.nodes
  owners : ∀ p ∈ w.st.tab, ∃ k i own, p.2 = .value k i own ∧ p.1 < i ∧ i < w.st.next ∧
    lookupLink o.links i = some p.1 ∧ OwnOK p.1 i own ∧ NotA o i
  shown : ∀ q ∈ o.links, ∃ p ∈ w.st.tab, p.2.index? = some q.1

theorem Linked.core {t : List Desc} {o : SubsetOut} {w : Wired} (h : Linked t o w) : LinkedCore o w :=
  ⟨h.next, h.len, h.good, h.owners, h.shown⟩

/-- attachment and rendering succeed -/
theorem LinkedCore.tree_renders {o : SubsetOut} {w : Wired} (h : LinkedCore o w) :
    ∃ tree js, w.tree = .ok tree ∧ renderNested o tree = .ok js := by
  have hN : w.st.next = o.descs.length := by rw [h.next, h.len]
  have ht : TabOK o.descs.length w.st.tab := by
    intro p hp
    obtain ⟨k, i, own, e, h1, h2, _, h4, _⟩ := h.owners p hp
    exact ⟨k, i, own, e, h1, by rw [← hN]; exact h2, h4⟩
  unfold Wired.tree Wired.fuel renderNested
  exact resolve_render_list (by rw [h.len]; exact Nat.le_refl _) ht _ (by rw [hN]; omega) w.nodes h.good.1 h.good.2

theorem LinkedCore.sideOK {o : SubsetOut} {w : Wired} (h : LinkedCore o w) : w.sideOK o = true := by
  unfold Wired.sideOK
  rw [h.good.1, h.next]
  simp only [Bool.true_and, beq_self_eq_true, Bool.and_true, List.all_eq_true]
  intro p hp
  obtain ⟨k, i, own, e, _, hi, _, _, d, hd, hA⟩ := h.owners p hp
  rw [e]
  simp [tabAttrOK, hd, hA]

/-! ### a later subset of compressed data on the tree of subset 0 -/

theorem ownAttrOK_congr {o0 o : SubsetOut} (hd : o.descs = o0.descs) (n : Node) : ownAttrOK o n = ownAttrOK o0 n := by
  cases n <;> simp only [ownAttrOK]
  rw [hd]

theorem all_ownAttrOK_congr {o0 o : SubsetOut} (hd : o.descs = o0.descs) (l : List Node) :
    l.all (ownAttrOK o) = l.all (ownAttrOK o0) := by
  induction l with
  | nil => rfl
  | cons a as ih => simp only [List.all_cons, ih, ownAttrOK_congr hd]

mutual
theorem treeOKList_shared {o0 o : SubsetOut} (hd : o.descs = o0.descs) : ∀ (ns : List Node),
    treeOKList o0 ns = true → Spec.sameCountsList o0 o ns = true → treeOKList o ns = true
  | [], _, _ => by rw [treeOKList]
  | n :: ns, h, hs => by
    rw [treeOKList, Bool.and_eq_true] at h
    rw [Spec.sameCountsList, Bool.and_eq_true] at hs
    rw [treeOKList, treeOK1_shared hd n h.1 hs.1, treeOKList_shared hd ns h.2 hs.2]
    rfl

theorem treeOK1_shared {o0 o : SubsetOut} (hd : o.descs = o0.descs) : ∀ (n : Node),
    treeOK1 o0 n = true → Spec.sameCounts1 o0 o n = true → treeOK1 o n = true
  | .value k i own, h, _ => by
    rw [treeOK1] at h ⊢
    rw [all_ownAttrOK_congr hd]
    exact h
  | .noval _, _, _ => by rw [treeOK1]
  | .seq id ms, h, hs => by
    rw [treeOK1, Bool.and_eq_true] at h
    rw [Spec.sameCounts1] at hs
    rw [treeOK1, h.1, treeOKList_shared hd ms h.2 hs]
    rfl
  | .fixedRep id n ms, h, hs => by
    rw [treeOK1, Bool.and_eq_true, Bool.and_eq_true] at h
    rw [Spec.sameCounts1] at hs
    rw [treeOK1, h.1.1, h.1.2, treeOKList_shared hd ms h.2 hs]
    rfl
  | .delayedRep id n (.value k i own) ms, h, hs => by
    rw [treeOK1, Bool.and_eq_true, Bool.and_eq_true] at h
    rw [Spec.sameCounts1, Bool.and_eq_true, Bool.and_eq_true, decide_eq_true_eq] at hs
    obtain ⟨⟨hc, _⟩, hms⟩ := hs
    rw [treeOK1, h.1.1, treeOKList_shared hd ms h.2 hms]
    have hf := h.1.2
    simp only [factorOK] at hf ⊢
    rw [hc, all_ownAttrOK_congr hd]
    simpa using hf
  | .delayedRep id n (.noval _) ms, h, _ => by simp [treeOK1, factorOK] at h
  | .delayedRep id n (.seq _ _) ms, h, _ => by simp [treeOK1, factorOK] at h
  | .delayedRep id n (.fixedRep _ _ _) ms, h, _ => by simp [treeOK1, factorOK] at h
  | .delayedRep id n (.delayedRep _ _ _ _) ms, h, _ => by simp [treeOK1, factorOK] at h
end

theorem LinkedCore.shared {o0 o : SubsetOut} {w : Wired} (h : LinkedCore o0 w) (hd : o.descs = o0.descs)
    (hl : o.links = o0.links) (hlen : o.vals.length = o.descs.length)
    (hs : Spec.sameCountsList o0 o w.nodes = true) : LinkedCore o w :=
  ⟨by rw [h.next, hlen, hd, h.len], hlen.symm, ⟨treeOKList_shared hd w.nodes h.good.1 hs, by rw [hd]; exact h.good.2⟩,
    by unfold NotA; rw [hl, hd]; exact h.owners, by rw [hl]; exact h.shown⟩

/-! ### the counts hypothesis on the RESOLVED tree gives it on the raw tree -/

theorem sameCounts_ownShape {o0 o : SubsetOut} {i : Nat} {own : List Node} (h : ownShape i own = true) :
    Spec.sameCountsList o0 o own = true := by
  unfold ownShape at h
  split at h
  · rw [Spec.sameCountsList]
  · simp [Spec.sameCountsList, Spec.sameCounts1]
  · simp [Spec.sameCountsList, Spec.sameCounts1]
  · cases h

mutual
theorem sameCountsList_raw {o0 o : SubsetOut} {tab : List (Nat × Node)} {fuel N : Nat} : ∀ (raw res : List Node),
    shapeList N raw = true → resolveList tab fuel raw = .ok res → Spec.sameCountsList o0 o res = true →
      Spec.sameCountsList o0 o raw = true
  | [], _, _, _, _ => by rw [Spec.sameCountsList]
  | n :: ns, res, hsh, hr, hs => by
    rw [shapeList, Bool.and_eq_true] at hsh
    rw [resolveList] at hr
    split at hr
    · cases hr
    · next n' e1 =>
      split at hr
      · cases hr
      · next ns' e2 =>
        injection hr with hr
        subst hr
        rw [Spec.sameCountsList, Bool.and_eq_true] at hs
        rw [Spec.sameCountsList, sameCounts1_raw n n' hsh.1 e1 hs.1, sameCountsList_raw ns ns' hsh.2 e2 hs.2]
        rfl

theorem sameCounts1_raw {o0 o : SubsetOut} {tab : List (Nat × Node)} {fuel N : Nat} : ∀ (raw res : Node),
    shape1 N raw = true → resolve1 tab fuel raw = .ok res → Spec.sameCounts1 o0 o res = true →
      Spec.sameCounts1 o0 o raw = true
  | .value k i own, _, hsh, _, _ => by
    rw [shape1] at hsh
    simp only [valShape, Bool.and_eq_true] at hsh
    rw [Spec.sameCounts1]
    exact sameCounts_ownShape hsh.2
  | .noval _, _, _, _, _ => by rw [Spec.sameCounts1]
  | .seq id ms, res, hsh, hr, hs => by
    rw [shape1] at hsh
    rw [resolve1] at hr
    split at hr
    · cases hr
    · next ms' e =>
      injection hr with hr
      subst hr
      rw [Spec.sameCounts1] at hs ⊢
      exact sameCountsList_raw ms ms' hsh e hs
  | .fixedRep id n ms, res, hsh, hr, hs => by
    rw [shape1] at hsh
    rw [resolve1] at hr
    split at hr
    · cases hr
    · next ms' e =>
      injection hr with hr
      subst hr
      rw [Spec.sameCounts1] at hs ⊢
      exact sameCountsList_raw ms ms' hsh e hs
  | .delayedRep id n (.value k i own) ms, res, hsh, hr, hs => by
    rw [shape1, Bool.and_eq_true] at hsh
    rw [resolve1] at hr
    split at hr
    · cases hr
    · next f' ef =>
      split at hr
      · cases hr
      · next ms' e =>
        injection hr with hr
        subst hr
        -- the resolved factor keeps its index
        cases fuel with
        | zero => rw [resolveV] at ef; cases ef
        | succ fl =>
          rw [resolveV] at ef
          split at ef
          · cases ef
          · split at ef
            · cases ef
            · injection ef with ef
              subst ef
              rw [Spec.sameCounts1, Bool.and_eq_true, Bool.and_eq_true] at hs
              have hv := hsh.1
              simp only [valShape, Bool.and_eq_true] at hv
              rw [Spec.sameCounts1, hs.1.1, sameCounts_ownShape hv.2, sameCountsList_raw ms ms' hsh.2 e hs.2]
              rfl
  | .delayedRep id n (.noval _) ms, _, hsh, _, _ => by simp [shape1, valShape] at hsh
  | .delayedRep id n (.seq _ _) ms, _, hsh, _, _ => by simp [shape1, valShape] at hsh
  | .delayedRep id n (.fixedRep _ _ _) ms, _, hsh, _, _ => by simp [shape1, valShape] at hsh
  | .delayedRep id n (.delayedRep _ _ _ _) ms, _, hsh, _, _ => by simp [shape1, valShape] at hsh
end

end Bufr.C09
