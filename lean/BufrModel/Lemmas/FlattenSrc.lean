/-
  Helper lemmas for `C18_src_flatten_list` (`Props/C18Src.lean`): the Lean function generated from
  `pybufrkit/utils.py flatten_list` (`Gen/PyUtils.lean`, regenerated on every check) against the model's
  `flattenList` / `Val.flat` (`Lang/Script.lean`).  `ofVal(s)` / `toVal(s)`: the bijection between the model's
  nested values `Val Py.Obj` and the list-or-leaf values `Py.Tree Py.Obj` the Python code inspects with
  `isinstance(entry, list)`; `depths`: nesting depth = recursion depth of `flatten_list`.
-/
import BufrModel.Lang.Script
import BufrModel.Gen.PyUtils
set_option linter.unusedSimpArgs false
namespace Bufr.Script
open PyGen.utils PyGen.utils.flatten_list

mutual
/-- a nested value of the model as the list-or-leaf value the Python code inspects with `isinstance` -/
def ofVal : Val Py.Obj → Py.Tree Py.Obj
  | .atom a => .leaf a
  | .list vs => .list (ofVals vs)
def ofVals : List (Val Py.Obj) → List (Py.Tree Py.Obj)
  | [] => []
  | v :: vs => ofVal v :: ofVals vs
end

mutual
/-- nesting depth (the number of recursive calls `flatten_list` needs below the top one) -/
def Val.depth {α : Type} : Val α → Nat
  | .atom _ => 0
  | .list vs => depths vs + 1
def depths {α : Type} : List (Val α) → Nat
  | [] => 0
  | v :: vs => max v.depth (depths vs)
end

mutual
/-- the inverse direction: every list-or-leaf value is the image of a value of the model -/
def toVal : Py.Tree Py.Obj → Val Py.Obj
  | .leaf a => .atom a
  | .list ts => .list (toVals ts)
def toVals : List (Py.Tree Py.Obj) → List (Val Py.Obj)
  | [] => []
  | t :: ts => toVal t :: toVals ts
end

mutual
theorem ofVal_toVal : ∀ t : Py.Tree Py.Obj, ofVal (toVal t) = t
  | .leaf a => by simp [toVal, ofVal]
  | .list ts => by simp [toVal, ofVal, ofVals_toVals ts]
theorem ofVals_toVals : ∀ ts : List (Py.Tree Py.Obj), ofVals (toVals ts) = ts
  | [] => by simp [toVals, ofVals]
  | t :: ts => by simp [toVals, ofVals, ofVal_toVal t, ofVals_toVals ts]
end

/-- the `for` loop of `flatten_list`, for any body `f` that treats a leaf and a nested list as the translated
    body does: processing `ws` appends `flattenList ws` to the accumulator (and leaves the last item in `entry`) -/
theorem forIn_flatten (fuel : Nat) (f : Py.Tree Py.Obj → Locals → Except Py.Exc Locals)
    (hleaf : ∀ a (v : Locals), f (.leaf a) v = .ok ⟨v.values, v.flat_values ++ [a], .leaf a⟩)
    (hlist : ∀ us (v : Locals), depths us < fuel →
      f (.list (ofVals us)) v = .ok ⟨v.values, v.flat_values ++ flattenList us, .list (ofVals us)⟩) :
    ∀ (ws : List (Val Py.Obj)) (v : Locals), depths ws ≤ fuel →
      Py.forIn (ofVals ws) v f = .ok ⟨v.values, v.flat_values ++ flattenList ws, (ofVals ws).getLast?.getD v.entry⟩ := by
  intro ws
  induction ws with
  | nil => intro v _; simp [ofVals, Py.forIn, flattenList]
  | cons w ws ihw =>
    intro v hd
    simp only [depths] at hd
    cases w with
    | atom a =>
      simp only [ofVals, ofVal, Py.forIn, hleaf]
      rw [ihw _ (by omega)]
      simp [flattenList, Val.flat, List.getLast?_cons]
    | list us =>
      simp only [Val.depth] at hd
      simp only [ofVals, ofVal, Py.forIn, hlist us v (by omega)]
      rw [ihw _ (by omega)]
      simp [flattenList, Val.flat, List.getLast?_cons]

theorem flatten_list_ok : ∀ (fuel : Nat) (vs : List (Val Py.Obj)), depths vs < fuel →
    flatten_list fuel (ofVals vs) = .ok (flattenList vs) := by
  intro fuel
  induction fuel with
  | zero => intro vs h; omega
  | succ fuel ih =>
    intro vs h
    simp only [flatten_list, bind, Except.bind, pure, Except.pure]
    rw [forIn_flatten fuel _ ?_ ?_ vs _ (by omega)]
    · simp
    · intro a v; rfl
    · intro us v hu; simp only [ih us hu]

end Bufr.Script
