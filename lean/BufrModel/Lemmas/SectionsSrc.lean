/-
  Helper lemmas for the source tie of C04 / C12 (`Props/C04Src.lean`): the END of `decoder.py Decoder.process_section`
  — the `if 'section_length' in section:` block (bits read so far against the declared length: padding skipped, overrun
  refused) and the `return` — translated by `harness/py2lean.py` into `Gen/PyDecoder.lean process_section_finish` on every
  check (a fragment: the parameter loop before it is NOT translated), against the model's `finishSection`
  (`Msg/Sections.lean`).

  The bit reader and the section object are callbacks; `ReaderSpec` / `SectionSpec` say what they have to do to
  correspond to the model's reader (a bit list consumed from the front) and section state.
-/
import BufrModel.Msg.Sections
import BufrModel.Gen.PyDecoder
set_option linter.unusedSimpArgs false
set_option linter.unusedVariables false
namespace Bufr
open PyGen.decoder PyGen.decoder.process_section_finish

/-- the bit reader object behaves as the model's reader: `bits br` are the bits not yet read, `pos br` = `get_pos()`;
    `read_bin(n)` is the model's `readBin n` (the bits consumed, the position advanced; the same error class) -/
structure ReaderSpec (env : Env) (errOf : Py.Exc → Err) (bits : Py.Obj → Bits) (pos : Py.Obj → Nat) : Prop where
  get_pos : ∀ br, env.bit_reader_get_pos br = .ok (pos br : Int)
  read_bin_ok : ∀ br (n : Nat) v rest, readBin n (bits br) = .ok (v, rest) →
    ∃ r br', env.bit_reader_read_bin br (n : Int) = .ok (r, br') ∧ bits br' = rest ∧ pos br' = pos br + n
  read_bin_err : ∀ br (n : Nat) e, readBin n (bits br) = .error e →
    ∃ x, env.bit_reader_read_bin br (n : Int) = .error x ∧ errOf x = e

/-- the section object corresponds to the layout `s` whose parameters decoded so far are `acc`, opened at bit `start` -/
structure SectionSpec (env : Env) (sec : Section) (s : SectionLayout) (acc : List (String × PVal)) (start : Nat) : Prop where
  contains : env.section_contains sec "section_length".toList = .ok (s.hasParam "section_length")
  start : env.section_get_metadata sec BITPOS_START = .ok (start : Int)
  index : ∃ i, env.section_get_metadata sec "index".toList = .ok i
  len : s.hasParam "section_length" = true → ∃ d : Nat, secLen acc = .ok d ∧ sec.section_length_value = (d : Int)

/-- what the translated end of `process_section` has to do for an outcome of `finishSection` -/
def FinishOk {α : Type} (env : Env) (errOf : Py.Exc → Err) (bits : Py.Obj → Bits) (pos : Py.Obj → Nat)
    (s : SectionLayout) (st : DecSt α) (start : Nat)
    (r : Except Err ((DecSection × Registry × Option α) × Bits)) (g : Locals × Except Py.Exc Unit) : Prop :=
  match r with
  | .ok ((dsec, reg, data), rest) =>
    g.2 = .ok () ∧ g.1.py_return = (dsec.nbits : Int) ∧ bits g.1.bit_reader = rest ∧ pos g.1.bit_reader = start + dsec.nbits ∧
      dsec.index = s.index ∧ dsec.params = st.acc ∧ reg = st.reg ∧ data = st.data
  | .error e => ∃ x, g.2 = .error x ∧ errOf x = e

theorem finish_section_eq {α : Type} (env : Env) (errOf : Py.Exc → Err) (bits : Py.Obj → Bits) (pos : Py.Obj → Nat)
    (hlib : errOf (.raised "PyBufrKitError") = .lib) (hr : ReaderSpec env errOf bits pos)
    (br : Py.Obj) (sec : Section) (s : SectionLayout) (st : DecSt α) (start : Nat)
    (hs : SectionSpec env sec s st.acc start) (hpos : pos br = start + st.used) :
    FinishOk env errOf bits pos s st start (finishSection s st (bits br)) (process_section_finish env br sec) := by
  have hgp := hr.get_pos
  obtain ⟨ix, hix0⟩ := hs.index
  have hix : env.section_get_metadata sec ['i', 'n', 'd', 'e', 'x'] = .ok ix := hix0
  have hst := hs.start
  have hct : env.section_contains sec ['s', 'e', 'c', 't', 'i', 'o', 'n', '_', 'l', 'e', 'n', 'g', 't', 'h'] =
      .ok (s.hasParam "section_length") := hs.contains
  have h8 : NBITS_PER_BYTE = 8 := rfl
  have hnr : ((pos br : Int) - (start : Int)) = (st.used : Int) := by rw [hpos]; omega
  cases hh : s.hasParam "section_length" with
  | false =>
    rw [hh] at hct
    simp [FinishOk, finishSection, hh, R.pure, process_section_finish, Py.Flow.bind, Py.Flow.eval, Py.Flow.finish,
      hct, hgp, hst, hnr, bind, Except.bind, pure, Except.pure]
    exact hpos
  | true =>
    rw [hh] at hct
    obtain ⟨d, hd, hv⟩ := hs.len hh
    have hun : sec.section_length_value * NBITS_PER_BYTE - (st.used : Int) = (d : Int) * 8 - (st.used : Int) := by rw [hv, h8]
    by_cases h1 : st.used < d * 8
    · -- bits are left before the declared end: they are read and discarded
      have hn : (d : Int) * 8 - (st.used : Int) = ((d * 8 - st.used : Nat) : Int) := by omega
      have hgt : (0 : Int) < ((d * 8 - st.used : Nat) : Int) := by omega
      cases hrd : readBin (d * 8 - st.used) (bits br) with
      | error e =>
        obtain ⟨x, hx, hxe⟩ := hr.read_bin_err br _ e hrd
        simp only [FinishOk, finishSection, hh, hd, h1, R.bind, R.lift, R.map, R.pure, hrd, process_section_finish,
          Py.Flow.bind, Py.Flow.eval, Py.Flow.finish, hct, hgp, hst, hnr, hun, hn, hgt, hx, bind, Except.bind, pure,
          Except.pure, if_true, decide_true, Int.ofNat_eq_natCast, Int.natCast_zero, gt_iff_lt]
        exact ⟨x, rfl, hxe⟩
      | ok p =>
        obtain ⟨v, rest⟩ := p
        obtain ⟨r, br', hx, hb, hp'⟩ := hr.read_bin_ok br _ v rest hrd
        have hnr' : ((pos br' : Int) - (start : Int)) = ((d * 8 : Nat) : Int) := by rw [hp', hpos]; omega
        simp only [FinishOk, finishSection, hh, hd, h1, R.bind, R.lift, R.map, R.pure, hrd, process_section_finish,
          Py.Flow.bind, Py.Flow.eval, Py.Flow.finish, hct, hgp, hst, hnr, hnr', hun, hn, hgt, hx, bind, Except.bind, pure,
          Except.pure, if_true, decide_true, Int.ofNat_eq_natCast, Int.natCast_zero, gt_iff_lt]
        refine ⟨?_, ?_, ?_, ?_, ?_, ?_, ?_, ?_⟩ <;> first | trivial | rfl | exact hb | (rw [hp', hpos]; omega) | omega
    · by_cases h2 : d * 8 < st.used
      · -- more bits were read than the section declares: refused with the library error
        have hng : ¬ ((0 : Int) < (d : Int) * 8 - (st.used : Int)) := by omega
        have hlt : (d : Int) * 8 - (st.used : Int) < 0 := by omega
        simp only [FinishOk, finishSection, hh, hd, h1, h2, R.bind, R.lift, R.fail, R.pure, process_section_finish,
          Py.Flow.bind, Py.Flow.eval, Py.Flow.finish, hct, hgp, hst, hnr, hun, hng, hlt, hix, bind, Except.bind, pure,
          Except.pure, if_true, if_false, decide_true, decide_false, Int.ofNat_eq_natCast, Int.natCast_zero, gt_iff_lt,
          Bool.false_eq_true]
        exact ⟨_, rfl, hlib⟩
      · -- exactly at the declared end
        have hng : ¬ ((0 : Int) < (d : Int) * 8 - (st.used : Int)) := by omega
        have hnl : ¬ ((d : Int) * 8 - (st.used : Int) < 0) := by omega
        simp only [FinishOk, finishSection, hh, hd, h1, h2, R.bind, R.lift, R.fail, R.pure, process_section_finish,
          Py.Flow.bind, Py.Flow.eval, Py.Flow.finish, hct, hgp, hst, hnr, hun, hng, hnl, bind, Except.bind, pure,
          Except.pure, if_true, if_false, decide_true, decide_false, Int.ofNat_eq_natCast, Int.natCast_zero, gt_iff_lt,
          Bool.false_eq_true]
        refine ⟨?_, ?_, ?_, ?_, ?_, ?_, ?_, ?_⟩ <;> first | trivial | rfl | exact hpos | omega

end Bufr
