/-
  C08: the composition of the local simulation steps of `Lemmas/CompilerSim.lean` over whole templates:
  prelude of `process_members` (221 / 203 / 206 / bitmap definition), operators (register updates,
  bitmap-definition indicators, marker operators), sequences and the two replication loops
  (where the scope condition `scopeOk` is used), by mutual structural induction over `Desc`.
-/
import BufrModel.Lemmas.CompilerSim
namespace Bufr.C08W
open Bufr Bufr.C08

theorem iterN_succ (n : Nat) (f : St → CM St) (s : St) : iterN (n+1) f s = (f s >>= iterN n f) := by
  simp only [iterN]; cases f s <;> rfl

theorem iter_sim {c : CRegs} {f g : St → CM St}
    (h : ∀ s r', RelR c s.regs r' → Sim c (f s) (g (withRegs s r'))) :
    ∀ (n : Nat) s r', RelR c s.regs r' → Sim c (iterN n f s) (iterN n g (withRegs s r')) := by
  intro n
  induction n with
  | zero => intro s r' hr; exact sim_ok hr
  | succ n ih =>
    intro s r' hr
    rw [iterN_succ, iterN_succ]
    exact sim_bind (h s r' hr) ih
/-- `process_new_refval` in both runs -/
theorem newRefval_sim {c : CRegs} (P : Prims) (hP : Frame P) (e : Elem) (n : Nat) (s : St) (r' : Regs)
    (h : RelR c s.regs r') :
    Sim { c with newRefIds := e.id :: c.newRefIds } (P.newRefval e n s) (P.newRefval e n (withRegs s r')) := by
  let g : Regs → Regs := fun r => { r' with newRefvals := r.newRefvals }
  have hg : NRcomm g := fun r l => rfl
  have h0 : withRegs s r' = s.setRegs g := by
    show withRegs s r' = withRegs s { r' with newRefvals := s.regs.newRefvals }
    rw [← h.newRefvals]
  rw [h0, hP.newRefval e n g s hg]
  cases hfs : P.newRefval e n s with
  | error e => exact rfl
  | ok t =>
    obtain ⟨v, hv⟩ := hP.newRefval_regs e n s t hfs
    refine ⟨rfl, ?_⟩
    show RelR _ t.regs { r' with newRefvals := t.regs.newRefvals }
    rw [hv]
    exact { h with
      keys := by
        intro id
        simp only [List.mem_cons, lookupRef]
        by_cases hid : e.id = id
        · simp [hid]
        · have hid' : ¬ id = e.id := fun h => hid h.symm
          simp only [hid, hid', if_false, false_or]
          exact h.keys id
      newRefvals := rfl }

theorem sim_bind_of_eq {c1 c2 : CRegs} {a b x y : CM St} {f g : St → CM St} (h : Sim c1 a b)
    (hk : ∀ t r', RelR c1 t.regs r' → Sim c2 (f t) (g (withRegs t r')))
    (hx : x = (a >>= f)) (hy : y = (b >>= g)) : Sim c2 x y := by
  rw [hx, hy]; exact sim_bind h hk

theorem dnp_rel {c0 : CRegs} {s0 : St} {r' : Regs} (h : RelR c0 s0.regs r') :
    RelR (if c0.dnpCount ≠ 0 then { c0 with dnpCount := c0.dnpCount - 1 } else c0)
      (if s0.regs.dnpCount ≠ 0 then s0.setRegs fun r => { r with dnpCount := s0.regs.dnpCount - 1 } else s0).regs r' := by
  rw [h.dnpCount]
  split
  · exact { h with dnpCount := rfl }
  · exact h

theorem dnp_withRegs (s0 : St) (r' : Regs) (n : Nat) :
    withRegs (if n ≠ 0 then s0.setRegs fun r => { r with dnpCount := n - 1 } else s0) r' = withRegs s0 r' := by
  split <;> rfl

theorem pre_sim {c0 : CRegs} (P : Prims) (hP : Frame P) (d : Desc) (k : St → CM St) (kc : CRegs → CM COut)
    (hk : ∀ c p c1, kc c = .ok (p, c1) → ∀ s r', RelR c s.regs r' → Sim c1 (k s) (execList P p (withRegs s r')))
    (p : List Stmt) (c1 : CRegs) (hc : cPre d kc c0 = .ok (p, c1)) (s0 : St) (r' : Regs) (h : RelR c0 s0.regs r') :
    Sim c1 (wPre P d k s0) (execList P p (withRegs s0 r')) := by
  have hd := dnp_rel h
  rw [← dnp_withRegs s0 r' s0.regs.dnpCount]
  unfold wPre
  unfold cPre at hc
  simp only [] at hc ⊢
  rw [h.dnpCount] at hd ⊢
  generalize (if c0.dnpCount ≠ 0 then s0.setRegs fun r => { r with dnpCount := c0.dnpCount - 1 } else s0) = s at hd ⊢
  generalize (if c0.dnpCount ≠ 0 then { c0 with dnpCount := c0.dnpCount - 1 } else c0) = c at hd hc
  by_cases hskip : dnpSkip c0.dnpCount d = true
  · simp only [hskip, if_true] at hc ⊢
    cases hc
    exact sim_ok hd
  · simp only [hskip, Bool.false_eq_true, if_false] at hc ⊢
    rw [hd.nbitsNewRefval]
    cases hnt : newRefTarget c.nbitsNewRefval d with
    | some e =>
      simp only [hnt] at hc ⊢
      by_cases hstr : e.kind = .string
      · simp only [hstr, if_true] at hc; cases hc
      · simp only [hstr, if_false] at hc ⊢
        cases hc
        rw [execList_single]
        exact newRefval_sim P hP e _ s r' hd
    | none =>
      simp only [hnt] at hc ⊢
      rw [hd.nbitsSkipped]
      by_cases hsk : c.nbitsSkipped = 0
      · simp only [hsk, ne_eq, not_true_eq_false, if_false] at hc ⊢
        cases hkc : kc (cBitmapDefinition d.id c).2 with
        | error e => rw [hkc] at hc; cases hc
        | ok pc =>
          obtain ⟨p2, c2⟩ := pc
          rw [hkc] at hc
          cases hc
          rw [execList_append]
          refine sim_bind_of_eq (bitmapDef_sim P hP d.id s r' hd) (hk _ _ _ hkc) ?_ rfl
          cases bitmapDefinition P d.id s <;> rfl
      · simp only [ne_eq, hsk, not_false_eq_true, if_true] at hc ⊢
        cases hc
        rw [execList_single]
        simp only [exec1]
        have h1 := prim_sim (c := c) _ (hP.codeflag (.skipped d.id c.nbitsSkipped) c.nbitsSkipped) s r' hd
        refine sim_bind_of_eq h1 (f := fun s' => pure (s'.setRegs fun r => { r with nbitsSkipped := 0 })) (g := fun t => pure t) ?_ rfl ?_
        · intro t r1 h2
          exact sim_ok (t := t.setRegs _) { h2 with nbitsSkipped := rfl }
        · cases P.codeflag (DDesc.skipped d.id c.nbitsSkipped) c.nbitsSkipped (withRegs s r') <;> rfl

/-- a framed primitive: both runs fail alike or succeed with untouched registers -/
theorem prim_cases (f : St → CM St) (hf : ∀ (g : Regs → Regs) s, f (s.setRegs g) = mapSt g (f s))
    (s : St) (r' : Regs) :
    (∃ e, f s = .error e ∧ f (withRegs s r') = .error e) ∨
    (∃ t, f s = .ok t ∧ f (withRegs s r') = .ok (withRegs t r') ∧ t.regs = s.regs) := by
  have h1 : f (withRegs s r') = mapSt (fun _ => r') (f s) := hf (fun _ => r') s
  have h2 : f s = mapSt (fun _ => s.regs) (f s) := hf (fun _ => s.regs) s
  cases hfs : f s with
  | error e => left; exact ⟨e, rfl, by rw [h1, hfs]; rfl⟩
  | ok t =>
    right
    rw [hfs] at h2
    simp only [mapSt, St.setRegs] at h2
    have h3 : t.regs = s.regs := by
      have := congrArg (fun x => match x with | Except.ok y => y.regs | Except.error _ => s.regs) h2
      simpa using this
    exact ⟨t, rfl, by rw [h1, hfs]; rfl, h3⟩

theorem wQa_na (x : Nat) (s : St) (h : s.regs.qa = .na) : wQa x s = pure s := by
  unfold wQa
  have h1 : ¬ (QaStatus.na = QaStatus.waiting) := by decide
  have h2 : ¬ (QaStatus.na = QaStatus.processing) := by decide
  simp only [h, h1, h2, if_false]
  split <;> rfl

/-- the compile-time operator registers that `state_properties` carries into the executing state -/
structure PropsIn (c : CRegs) (r' : Regs) : Prop where
  newNbytes : r'.newNbytes = c.newNbytes
  nbitsOffset : r'.nbitsOffset = c.nbitsOffset
  scaleOffset : r'.scaleOffset = c.scaleOffset
  y207 : r'.y207 = c.y207
  assocStack : r'.assocStack = c.assocStack

theorem wValue_any_sim {c : CRegs} (P : Prims) (hP : Frame P) (dd : DDesc) (e : Elem) (s : St) (r' : Regs)
    (h : RelR c s.regs r') (hp : PropsIn c r') :
    Sim c (wValue P dd e s) (wValue P dd e (withRegs s r')) := by
  unfold wValue
  have e1 : (withRegs s r').regs = r' := rfl
  simp only [e1]
  cases e.kind with
  | string =>
    simp only [hp.newNbytes, h.newNbytes]
    exact prim_sim _ (hP.string _ _) s r' h
  | codeflag => exact prim_sim _ (hP.codeflag _ _) s r' h
  | numeric =>
    simp only [Regs.nbitsInc, Regs.scaleInc, Regs.refFactor, hp.nbitsOffset, hp.scaleOffset, hp.y207,
      h.nbitsOffset, h.scaleOffset, h.y207, h.newRefvals]
    cases lookupRef s.regs.newRefvals e.id with
    | none => exact prim_sim _ (hP.numeric _ _ _ _) s r' h
    | some v => exact prim_sim _ (hP.numeric _ _ _ _) s r' h

/-- `process_element_descriptor` under any label while no QA status is pending: the executing state
    needs the operator registers that `state_properties` set -/
theorem element_any_sim {c : CRegs} (P : Prims) (hP : Frame P) (dd : DDesc) (e : Elem) (s : St) (r' : Regs)
    (h : RelR c s.regs r') (hq : c.qa = .na) (hp : PropsIn c r') :
    Sim c (elementDescriptor P dd e s) (elementDescriptor P dd e (withRegs s r')) := by
  rw [elementDescriptor_eq, elementDescriptor_eq]
  have e1 : (withRegs s r').regs = r' := rfl
  rw [e1, hp.assocStack, h.assocStack]
  by_cases hcond : c.assocStack ≠ [] ∧ xOf e.id ≠ 31
  · rw [if_pos hcond, if_pos hcond]
    simp only [associatedField, e1, hp.assocStack, h.assocStack]
    rcases prim_cases _ (hP.codeflag (.assoc e.id c.assocStack.sum) c.assocStack.sum) s r' with ⟨er, h1, h2⟩ | ⟨t, h1, h2, h3⟩
    · rw [h1, h2]; exact rfl
    · rw [h1, h2]
      have ht : RelR c t.regs r' := by rw [h3]; exact h
      show Sim c (wQa (xOf e.id) t >>= wValue P dd e) (wQa (xOf e.id) (withRegs t r') >>= wValue P dd e)
      rw [wQa_na _ t (ht.qa.trans hq), wQa_na _ (withRegs t r') ht.qa']
      exact wValue_any_sim P hP dd e t r' ht hp
  · rw [if_neg hcond, if_neg hcond]
    show Sim c (wQa (xOf e.id) s >>= wValue P dd e) (wQa (xOf e.id) (withRegs s r') >>= wValue P dd e)
    rw [wQa_na _ s (h.qa.trans hq), wQa_na _ (withRegs s r') h.qa']
    exact wValue_any_sim P hP dd e s r' h hp

theorem sim_regs {c1 : CRegs} (P : Prims) (s : St) (r' : Regs) (f : Regs → Regs) (h : RelR c1 (f s.regs) r') :
    Sim c1 (.ok (s.setRegs f)) (execList P [] (withRegs s r')) := ⟨rfl, h⟩

theorem nextBitmapped_withRegs (s : St) (r' : Regs) (hb : r'.bmIter = s.regs.bmIter) :
    (∃ e, nextBitmapped s = .error e ∧ nextBitmapped (withRegs s r') = .error e) ∨
    (∃ x rest t, nextBitmapped s = .ok (x, t) ∧ s.regs.bmIter = some (x :: rest) ∧
       t = s.setRegs (fun r => { r with bmIter := some rest }) ∧
       nextBitmapped (withRegs s r') = .ok (x, withRegs t { r' with bmIter := some rest })) := by
  simp only [nextBitmapped, withRegs, hb]
  cases hi : s.regs.bmIter with
  | none => left; exact ⟨_, rfl, rfl⟩
  | some l =>
    cases l with
    | nil => left; exact ⟨_, rfl, rfl⟩
    | cons x rest => right; exact ⟨x, rest, _, rfl, rfl, rfl, rfl⟩

/-- a marker operator (`22X255`, `232255`) in both runs -/
theorem bitmapped_sim {c : CRegs} (P : Prims) (hP : Frame P) (opId : Nat) (s : St) (r' : Regs)
    (h : RelR c s.regs r') (hq : c.qa = .na) :
    Sim c (bitmappedDescriptor P opId s) (exec1 P (.bitmapped opId c.props) (withRegs s r')) := by
  simp only [exec1, bitmappedDescriptor]
  let r2 : Regs := { r' with newNbytes := c.newNbytes, nbitsOffset := c.nbitsOffset, scaleOffset := c.scaleOffset,
                             y207 := c.y207, assocStack := c.assocStack }
  have e2 : applyProps c.props (withRegs s r') = withRegs s r2 := rfl
  rw [e2]
  have h2 : RelR c s.regs r2 := { h with }
  rcases nextBitmapped_withRegs s r2 h.bmIter with ⟨e, h3, h4⟩ | ⟨x, rest, t, h3, h4, h5, h6⟩
  · rw [h3, h4]; exact rfl
  · rw [h3, h6]
    obtain ⟨owner, be⟩ := x
    let r3 : Regs := { r2 with bmIter := some rest }
    have h7 : RelR c t.regs r3 := by rw [h5]; exact { h2 with bmIter := rfl }
    have h8 : RelR c (addLink t owner).regs r3 := h7
    exact element_any_sim P hP _ _ (addLink t owner) r3 h8 hq ⟨rfl, rfl, rfl, rfl, rfl⟩
theorem execList_cons (P : Prims) (x : Stmt) (xs : List Stmt) (s : St) :
    execList P (x :: xs) s = (exec1 P x s >>= execList P xs) := by
  simp only [execList]; cases exec1 P x s <;> rfl

theorem bind_pure_id (x : CM St) : (x >>= fun t => pure t) = x := by cases x <;> rfl

theorem sim_congr {c : CRegs} {a b a' b' : CM St} (h : Sim c a b) (ha : a' = a) (hb : b' = b) : Sim c a' b' := by
  rw [ha, hb]; exact h

theorem isMarkerOp_of {id : Nat}
    (h : id / 1000 = 222 ∨ id / 1000 = 223 ∨ id / 1000 = 224 ∨ id / 1000 = 225 ∨ id / 1000 = 232) (hy : ¬ id % 1000 = 0) :
    isMarkerOp id = true := by
  simp only [isMarkerOp, decide_eq_true_eq]; exact ⟨h, hy⟩

theorem operator_sim {c : CRegs} (P : Prims) (hP : Frame P) (id : Nat) (p : List Stmt) (c1 : CRegs)
    (hc : cOperator id c = .ok (p, c1)) (hm : isMarkerOp id = true → c.qa = .na)
    (s : St) (r' : Regs) (h : RelR c s.regs r') :
    Sim c1 (operatorDescriptor P id s) (execList P p (withRegs s r')) := by
  unfold operatorDescriptor
  unfold cOperator at hc
  simp only [] at hc ⊢
  by_cases h201 : id / 1000 = 201
  · rw [if_pos h201] at hc ⊢; cases hc
    exact sim_regs P s r' _ { h with nbitsOffset := rfl }
  rw [if_neg h201] at hc ⊢
  by_cases h202 : id / 1000 = 202
  · rw [if_pos h202] at hc ⊢; cases hc
    exact sim_regs P s r' _ { h with scaleOffset := rfl }
  rw [if_neg h202] at hc ⊢
  by_cases h203 : id / 1000 = 203
  · rw [if_pos h203] at hc ⊢
    by_cases hy : id % 1000 = 255
    · rw [if_pos hy] at hc ⊢; cases hc
      exact sim_regs P s r' _ { h with nbitsNewRefval := rfl }
    rw [if_neg hy] at hc ⊢
    by_cases hy0 : id % 1000 = 0
    · rw [if_pos hy0] at hc ⊢; cases hc
      rw [execList_single]
      refine ⟨rfl, { h with nbitsNewRefval := rfl, keys := ?_, newRefvals := rfl }⟩
      intro i
      show (i ∈ ([] : List Nat)) ↔ (lookupRef [] i).isSome = true
      simp [lookupRef]
    rw [if_neg hy0] at hc ⊢; cases hc
    exact sim_regs P s r' _ { h with nbitsNewRefval := rfl }
  rw [if_neg h203] at hc ⊢
  by_cases h204 : id / 1000 = 204
  · rw [if_pos h204] at hc ⊢
    by_cases hy0 : id % 1000 = 0
    · rw [if_pos hy0] at hc ⊢
      rw [h.assocStack]
      by_cases hs : c.assocStack = []
      · rw [if_pos hs] at hc; cases hc
      · rw [if_neg hs] at hc ⊢; cases hc
        exact sim_regs P s r' _ { h with assocStack := by show s.regs.assocStack.dropLast = _; rw [h.assocStack] }
    · rw [if_neg hy0] at hc ⊢; cases hc
      exact sim_regs P s r' _ { h with assocStack := by show s.regs.assocStack ++ _ = _; rw [h.assocStack] }
  rw [if_neg h204] at hc ⊢
  by_cases h205 : id / 1000 = 205
  · rw [if_pos h205] at hc ⊢; cases hc
    rw [execList_single]
    exact prim_sim _ (hP.string _ _) s r' h
  rw [if_neg h205] at hc ⊢
  by_cases h206 : id / 1000 = 206
  · rw [if_pos h206] at hc ⊢; cases hc
    exact sim_regs P s r' _ { h with nbitsSkipped := rfl }
  rw [if_neg h206] at hc ⊢
  by_cases h207 : id / 1000 = 207
  · rw [if_pos h207] at hc ⊢; cases hc
    exact sim_regs P s r' _ { h with y207 := rfl }
  rw [if_neg h207] at hc ⊢
  by_cases h208 : id / 1000 = 208
  · rw [if_pos h208] at hc ⊢; cases hc
    exact sim_regs P s r' _ { h with newNbytes := rfl }
  rw [if_neg h208] at hc ⊢
  by_cases h221 : id / 1000 = 221
  · rw [if_pos h221] at hc ⊢; cases hc
    exact sim_regs P s r' _ { h with dnpCount := rfl }
  rw [if_neg h221] at hc ⊢
  by_cases hmk : id / 1000 = 222 ∨ id / 1000 = 223 ∨ id / 1000 = 224 ∨ id / 1000 = 225 ∨ id / 1000 = 232
  · rw [if_pos hmk] at hc ⊢
    by_cases hy0 : id % 1000 = 0
    · rw [if_pos hy0] at hc ⊢; cases hc
      rw [execList_cons]
      let r1 : Regs := { r' with backBoundary := s.descs.length }
      show Sim _ _ (execList P [Stmt.constant (.oper id) 0] (withRegs s r1))
      rw [execList_single]
      have h1 : RelR { c with bitmapDef := .indicator }
          (s.setRegs fun r => { r with bitmapDef := .indicator, backBoundary := s.descs.length }).regs r1 :=
        { h with bitmapDef := rfl, backBoundary := rfl }
      have h2 := prim_sim _ (hP.constant (.oper id) 0) _ r1 h1
      refine sim_bind_of_eq h2
        (f := fun s2 => pure (if id / 1000 = 222 then s2.setRegs fun r => { r with qa := .waiting } else s2))
        (g := fun t => pure t) ?_ rfl (bind_pure_id _).symm
      intro t r2 h3
      by_cases h222 : id / 1000 = 222
      · simp only [h222, if_true]
        exact sim_ok (t := t.setRegs _) { h3 with qa := rfl }
      · simp only [h222, if_false]
        exact sim_ok { h3 with qa := h3.qa }
    · rw [if_neg hy0] at hc ⊢; cases hc
      have hq := hm (isMarkerOp_of hmk hy0)
      rw [execList_append]
      refine sim_bind_of_eq (c1 := c) (a := if s.regs.assocStack ≠ [] then associatedField P id s else pure s)
        (f := bitmappedDescriptor P id) ?_
        (fun t r1 h1 => by rw [execList_single]; exact bitmapped_sim P hP id t r1 h1 hq) rfl rfl
      rw [h.assocStack]
      by_cases hs : c.assocStack = []
      · simp only [hs, ne_eq, not_true_eq_false, if_false]
        exact sim_ok h
      · simp only [hs, ne_eq, not_false_eq_true, if_true]
        rw [execList_single]
        simp only [exec1, associatedField, h.assocStack]
        exact prim_sim _ (hP.codeflag _ _) s r' h
  rw [if_neg hmk] at hc ⊢
  by_cases h235 : id / 1000 = 235
  · rw [if_pos h235] at hc ⊢; cases hc
    rw [execList_single]
    exact ⟨rfl, { h with backRefs := rfl, bitmapped := rfl }⟩
  rw [if_neg h235] at hc ⊢
  by_cases h236 : id / 1000 = 236
  · rw [if_pos h236] at hc ⊢; cases hc
    rw [execList_single]
    exact prim_sim _ (hP.constant _ _) s r' h
  rw [if_neg h236] at hc ⊢
  by_cases h237 : id / 1000 = 237
  · rw [if_pos h237] at hc ⊢
    by_cases hy0 : id % 1000 = 0
    · rw [if_pos hy0] at hc ⊢; cases hc
      rw [execList_cons]
      have hb : (withRegs s r').regs.bitmapped = s.regs.bitmapped := h.bitmapped
      simp only [exec1, stateCall, hb]
      cases hbm : s.regs.bitmapped with
      | none => exact rfl
      | some l =>
        show Sim _ _ (execList P [Stmt.constant (.oper id) 0] (withRegs s { r' with bmIter := some l }))
        rw [execList_single]
        have h1 : RelR c (s.setRegs fun r => { r with bmIter := some l }).regs { r' with bmIter := some l } :=
          { h with bmIter := rfl }
        exact prim_sim _ (hP.constant (.oper id) 0) _ _ h1
    · rw [if_neg hy0] at hc ⊢; cases hc
      have h2 := prim_sim _ (hP.constant (.oper id) 0) _ _ h
      refine sim_congr h2 rfl ?_
      cases c.reuse
      · exact execList_single _ _ _
      · show execList P [Stmt.state .cancelBitmap, Stmt.constant (.oper id) 0] (withRegs s r') = _
        rw [execList_cons]
        exact execList_single _ _ _
  rw [if_neg h237] at hc; cases hc
mutual
theorem beq_eq : ∀ (a b : Stmt), Stmt.beq a b = true → a = b
  | .loop r x, .loop r' y, h => by
    simp only [Stmt.beq, Bool.and_eq_true, decide_eq_true_eq] at h
    rw [h.1, beqList_eq x y h.2]
  | .loop r x, .numeric .., h | .loop r x, .numericNewRef .., h | .loop r x, .string .., h
  | .loop r x, .codeflag .., h | .loop r x, .newRefval .., h | .loop r x, .constant .., h
  | .loop r x, .bitmapped .., h | .loop r x, .defineBitmap .., h | .loop r x, .state .., h
  | .loop r x, .inc031031, h | .loop r x, .reset031031, h => by simp [Stmt.beq] at h
  | .numeric .., b, h | .numericNewRef .., b, h | .string .., b, h
  | .codeflag .., b, h | .newRefval .., b, h | .constant .., b, h
  | .bitmapped .., b, h | .defineBitmap .., b, h | .state .., b, h | .inc031031, b, h | .reset031031, b, h => by
    cases b <;> simp [Stmt.beq] at h <;> grind
theorem beqList_eq : ∀ (a b : List Stmt), Stmt.beqList a b = true → a = b
  | [], [], _ => rfl
  | x :: xs, y :: ys, h => by
    simp only [Stmt.beqList, Bool.and_eq_true] at h
    rw [beq_eq x y h.1, beqList_eq xs ys h.2]
  | [], _ :: _, h => by simp [Stmt.beqList] at h
  | _ :: _, [], h => by simp [Stmt.beqList] at h
end
theorem scopeOk_once {c : CRegs} {body : List Stmt} {c1 : CRegs} {again : CM COut}
    (h : scopeOk true c body c1 again = true) : again = .ok (body, c1) := by
  unfold scopeOk at h
  simp only [if_true] at h
  cases again with
  | error e => simp at h
  | ok x =>
    obtain ⟨b', c'⟩ := x
    simp only [Bool.and_eq_true, decide_eq_true_eq] at h
    rw [← beqList_eq _ _ h.1, h.2]

theorem scopeOk_zero {c : CRegs} {body : List Stmt} {c1 : CRegs} {again : CM COut}
    (h : scopeOk false c body c1 again = true) : c1 = c := by
  unfold scopeOk at h
  simpa using h

/-- the continuation of the prelude: the dispatch on the descriptor type -/
def DispSim (P : Prims) (chk : Nat) (d : Desc) : Prop :=
  ∀ (c : CRegs) (p : List Stmt) (c1 : CRegs), cDispatch chk d c = .ok (p, c1) →
    ∀ (s : St) (r' : Regs), RelR c s.regs r' → Sim c1 (wDispatch P d s) (execList P p (withRegs s r'))

def ListSim (P : Prims) (chk : Nat) (t : List Desc) : Prop :=
  ∀ (c : CRegs) (p : List Stmt) (c1 : CRegs), compileList chk t c = .ok (p, c1) →
    ∀ (s : St) (r' : Regs), RelR c s.regs r' → Sim c1 (walkList P t s) (execList P p (withRegs s r'))

theorem one_of_disp (P : Prims) (hP : Frame P) (chk : Nat) (d : Desc) (hd : DispSim P chk d) :
    ∀ (c : CRegs) (p : List Stmt) (c1 : CRegs), compile1 chk d c = .ok (p, c1) →
    ∀ (s : St) (r' : Regs), RelR c s.regs r' → Sim c1 (walk1 P d s) (execList P p (withRegs s r')) := by
  intro c p c1 hc s r' h
  rw [walk1_eq]
  rw [compile1_eq] at hc
  exact pre_sim P hP d _ _ hd p c1 hc s r' h

theorem list_nil (P : Prims) (chk : Nat) : ListSim P chk [] := by
  intro c p c1 hc s r' h
  simp only [compileList] at hc
  cases hc
  exact sim_ok h

theorem list_cons (P : Prims) (hP : Frame P) (chk : Nat) (d : Desc) (ds : List Desc)
    (hd : DispSim P chk d) (hds : ListSim P chk ds) : ListSim P chk (d :: ds) := by
  intro c p c1 hc s r' h
  simp only [compileList] at hc
  cases h1 : compile1 chk d c with
  | error e => rw [h1] at hc; cases hc
  | ok x =>
    obtain ⟨p1, c2⟩ := x
    rw [h1] at hc
    simp only at hc
    cases h2 : compileList chk ds c2 with
    | error e => rw [h2] at hc; cases hc
    | ok y =>
      obtain ⟨p2, c3⟩ := y
      rw [h2] at hc
      cases hc
      rw [execList_append]
      refine sim_bind_of_eq (one_of_disp P hP chk d hd c p1 c2 h1 s r' h) (hds c2 p2 c1 h2) ?_ rfl
      simp only [walkList]
      cases walk1 P d s <;> rfl

theorem disp_elem (P : Prims) (hP : Frame P) (chk : Nat) (e : Elem) : DispSim P chk (.elem e) := by
  intro c p c1 hc s r' h
  simp only [cDispatch] at hc
  cases hc
  exact element_sim P hP e s r' h

theorem disp_seq (P : Prims) (chk : Nat) (id : Nat) (ms : List Desc) (hms : ListSim P chk ms) :
    DispSim P chk (.seq id ms) := by
  intro c p c1 hc s r' h
  simp only [cDispatch] at hc
  exact hms c p c1 hc s r' h

theorem disp_undefElem (P : Prims) (chk : Nat) (id : Nat) : DispSim P chk (.undefElem id) := by
  intro c p c1 hc; simp only [cDispatch] at hc; cases hc

theorem disp_undefSeq (P : Prims) (chk : Nat) (id : Nat) : DispSim P chk (.undefSeq id) := by
  intro c p c1 hc; simp only [cDispatch] at hc; cases hc

theorem disp_op (P : Prims) (hP : Frame P) (id : Nat) : DispSim P 1 (.op id) := by
  intro c p c1 hc s r' h
  simp only [cDispatch] at hc
  by_cases hm : isMarkerOp id = true ∧ c.qa ≠ .na
  · simp [hm.1, hm.2] at hc
  · have hm' : isMarkerOp id = true → c.qa = .na := by
      intro h1
      by_cases hq : c.qa = .na
      · exact hq
      · exact absurd ⟨h1, hq⟩ hm
    have hc' : cOperator id c = .ok (p, c1) := by
      by_cases h1 : isMarkerOp id = true
      · simp [h1, hm' h1] at hc; exact hc
      · simp [h1] at hc; exact hc
    exact operator_sim P hP id p c1 hc' hm' s r' h

theorem disp_fixed (P : Prims) (id : Nat) (ms : List Desc) (hms : ListSim P 1 ms) :
    DispSim P 1 (.fixedRep id ms) := by
  intro c p c1 hc s r' h
  simp only [cDispatch] at hc
  cases h1 : compileList 1 ms c with
  | error e => rw [h1] at hc; cases hc
  | ok x =>
    obtain ⟨body, c2⟩ := x
    rw [h1] at hc
    simp only at hc
    generalize hs : scopeOk (decide (yOf id ≠ 0)) c body c2 (compileList 1 ms c2) = b at hc
    cases b with
    | false => simp at hc
    | true =>
      simp at hc
      obtain ⟨hp, hcc⟩ := hc
      subst hp; subst hcc
      rw [execList_single]
      show Sim c2 (iterN (yOf id) (walkList P ms) s) (iterN (yOf id) (execList P body) (withRegs s r'))
      cases hy : yOf id with
      | zero =>
        rw [hy] at hs
        have := scopeOk_zero (by simpa using hs)
        subst this
        exact sim_ok h
      | succ n =>
        rw [hy] at hs
        have h2 := scopeOk_once (by simpa using hs)
        rw [iterN_succ, iterN_succ]
        exact sim_bind (hms c body c2 h1 s r' h) (iter_sim (fun s r' h => hms c2 body c2 h2 s r' h) n)

theorem disp_delayed (P : Prims) (hP : Frame P) (id : Nat) (f : Desc) (ms : List Desc) (hms : ListSim P 1 ms) :
    DispSim P 1 (.delayedRep id f ms) := by
  intro c p c1 hc s r' h
  cases f with
  | elem fe =>
    simp only [cDispatch] at hc
    cases h1 : compileList 1 ms (cElement fe c).2 with
    | error e => rw [h1] at hc; cases hc
    | ok x =>
      obtain ⟨body, c2⟩ := x
      rw [h1] at hc
      simp only at hc
      generalize hs : scopeOk (decide (1 = 2)) (cElement fe c).2 body c2 (compileList 1 ms c2) = b at hc
      cases b with
      | false => simp at hc
      | true =>
        simp at hc
        obtain ⟨hp, hcc⟩ := hc
        subst hp; subst hcc
        have h2 := scopeOk_zero hs
        rw [execList_append]
        refine sim_bind_of_eq (element_sim P hP fe s r' h)
          (f := fun s1 => match P.factorValue s1 >>= factorCount with
            | .error e => .error e
            | .ok n => iterN n (walkList P ms) s1) ?_ ?_ rfl
        · intro t r1 ht
          rw [execList_single]
          simp only [exec1]
          have hf : P.factorValue (withRegs t r1) = P.factorValue t := hP.factorValue (fun _ => r1) t
          rw [hf]
          cases P.factorValue t >>= factorCount with
          | error e => exact rfl
          | ok n =>
            simp only
            rw [h2] at h1
            have := iter_sim (fun s r' h => hms _ body _ h1 s r' h) n t r1 ht
            rw [h2]
            exact this
        · simp only [wDispatch]
          cases elementDescriptor P (.plain fe) fe s <;> rfl
  | _ => simp only [cDispatch] at hc; cases hc


mutual
/-- the walk of a template and the execution of its compiled program, from related states -/
theorem list_sim (P : Prims) (hP : Frame P) : ∀ (t : List Desc), ListSim P 1 t
  | [] => list_nil P 1
  | d :: ds => list_cons P hP 1 d ds (disp_sim P hP d) (list_sim P hP ds)
theorem disp_sim (P : Prims) (hP : Frame P) : ∀ (d : Desc), DispSim P 1 d
  | .elem e => disp_elem P hP 1 e
  | .undefElem id => disp_undefElem P 1 id
  | .undefSeq id => disp_undefSeq P 1 id
  | .fixedRep id ms => disp_fixed P id ms (list_sim P hP ms)
  | .delayedRep id f ms => disp_delayed P hP id f ms (list_sim P hP ms)
  | .op id => disp_op P hP id
  | .seq id ms => disp_seq P 1 id ms (list_sim P hP ms)
end

theorem cPre_mono (d : Desc) (k1 k0 : CRegs → CM COut) (hk : ∀ c x, k1 c = .ok x → k0 c = .ok x)
    (c0 : CRegs) (x : COut) (h : cPre d k1 c0 = .ok x) : cPre d k0 c0 = .ok x := by
  unfold cPre at h ⊢
  simp only [] at h ⊢
  generalize (if c0.dnpCount ≠ 0 then { c0 with dnpCount := c0.dnpCount - 1 } else c0) = c at h ⊢
  split
  · next hs => rw [if_pos hs] at h; exact h
  · next hs =>
    rw [if_neg hs] at h
    split
    · next e he => rw [he] at h; exact h
    · next he =>
      rw [he] at h
      simp only at h ⊢
      split
      · next hsk => rw [if_pos hsk] at h; exact h
      · next hsk =>
        rw [if_neg hsk] at h
        cases h1 : k1 (cBitmapDefinition d.id c).2 with
        | error e => rw [h1] at h; cases h
        | ok y => rw [h1] at h; rw [hk _ _ h1]; exact h

def Mono (d : Desc) : Prop := ∀ c x, cDispatch 1 d c = .ok x → cDispatch 0 d c = .ok x
def MonoL (t : List Desc) : Prop := ∀ c x, compileList 1 t c = .ok x → compileList 0 t c = .ok x

theorem mono_cons (d : Desc) (ds : List Desc) (hd : Mono d) (hds : MonoL ds) : MonoL (d :: ds) := by
  intro c x h
  simp only [compileList] at h ⊢
  cases h1 : compile1 1 d c with
  | error e => rw [h1] at h; cases h
  | ok y =>
    rw [compile1_eq] at h1
    have h0 := cPre_mono d _ _ hd c y h1
    rw [← compile1_eq] at h0
    rw [compile1_eq, h1] at h
    rw [h0]
    obtain ⟨p1, c2⟩ := y
    simp only at h ⊢
    cases h2 : compileList 1 ds c2 with
    | error e => rw [h2] at h; cases h
    | ok z => rw [h2] at h; rw [hds _ _ h2]; exact h

theorem mono_fixed (id : Nat) (ms : List Desc) (hms : MonoL ms) : Mono (.fixedRep id ms) := by
  intro c x h
  simp only [cDispatch] at h ⊢
  cases h1 : compileList 1 ms c with
  | error e => rw [h1] at h; cases h
  | ok y =>
    obtain ⟨body, c2⟩ := y
    rw [h1] at h; rw [hms _ _ h1]
    simp only at h ⊢
    generalize scopeOk (decide (yOf id ≠ 0)) c body c2 (compileList 1 ms c2) = b at h
    cases b with
    | false => simp at h
    | true => simpa using h

theorem mono_delayed (id : Nat) (f : Desc) (ms : List Desc) (hms : MonoL ms) : Mono (.delayedRep id f ms) := by
  intro c x h
  cases f with
  | elem fe =>
    simp only [cDispatch] at h ⊢
    cases h1 : compileList 1 ms (cElement fe c).2 with
    | error e => rw [h1] at h; cases h
    | ok y =>
      obtain ⟨body, c2⟩ := y
      rw [h1] at h; rw [hms _ _ h1]
      simp only at h ⊢
      generalize scopeOk (decide (1 = 2)) (cElement fe c).2 body c2 (compileList 1 ms c2) = b at h
      cases b with
      | false => simp at h
      | true => simpa using h
  | _ => simp only [cDispatch] at h; cases h

theorem mono_op (id : Nat) : Mono (.op id) := by
  intro c x h
  simp only [cDispatch] at h ⊢
  simp only [ne_eq, not_true_eq_false, decide_false, Bool.false_and, Bool.false_eq_true, if_false]
  simp only [ne_eq, Nat.succ_ne_self, not_false_eq_true, decide_true, Bool.true_and, Bool.and_eq_true, decide_eq_true_eq] at h
  split at h
  · cases h
  · exact h

mutual
theorem monoL : ∀ (t : List Desc), MonoL t
  | [] => fun _ _ h => by simpa only [compileList] using h
  | d :: ds => mono_cons d ds (mono d) (monoL ds)
theorem mono : ∀ (d : Desc), Mono d
  | .elem _ => fun _ _ h => h
  | .undefElem _ => fun _ _ h => h
  | .undefSeq _ => fun _ _ h => h
  | .fixedRep id ms => mono_fixed id ms (monoL ms)
  | .delayedRep id f ms => mono_delayed id f ms (monoL ms)
  | .op id => mono_op id
  | .seq _ ms => fun c x h => monoL ms c x h
end

/-- inside the class `scopeClosed` the checking compiler and the compiler produce the same program -/
theorem compile_of_scopeClosed (t : List Desc) (prog : List Stmt) (c1 : CRegs)
    (h : compileList 1 t {} = .ok (prog, c1)) : compile t = .ok prog := by
  unfold compile
  rw [monoL t _ _ h]


/-! ### observable equality -/

/-- a state without its registers: bits, labels, values, value index, links -/
def eraseRegs (s : St) : St := { s with regs := {} }

/-- a result up to the registers of the final state -/
def obs (x : CM St) : CM St :=
  match x with
  | .ok s => .ok (eraseRegs s)
  | .error e => .error e

theorem sim_obs {c : CRegs} {a b : CM St} (h : Sim c a b) : obs b = obs a := by
  cases a with
  | error e =>
    cases b with
    | error e' => have : e = e' := h; rw [this]
    | ok t' => exact h.elim
  | ok t =>
    cases b with
    | error e' => exact h.elim
    | ok t' =>
      obtain ⟨h1, _⟩ := h
      show Except.ok (eraseRegs t') = Except.ok (eraseRegs t)
      rw [h1]; rfl

theorem relR_init : RelR {} ({} : Regs) ({} : Regs) := by
  constructor <;> first | rfl | (intro id; simp [lookupRef]) | (intro _; rfl)

theorem scopeClosed_iff (t : List Desc) : scopeClosed t = true ↔ ∃ p c1, compileList 1 t {} = .ok (p, c1) := by
  unfold scopeClosed
  cases h : compileList 1 t {} with
  | error e => simp
  | ok x => exact ⟨fun _ => ⟨x.1, x.2, rfl⟩, fun _ => rfl⟩

/-! ### data-section level -/

theorem obs_cases {x y : CM St} (h : obs x = obs y) :
    (∃ e, x = .error e ∧ y = .error e) ∨
    (∃ a b, x = .ok a ∧ y = .ok b ∧ a.bits = b.bits ∧ a.descs = b.descs ∧ a.vals = b.vals ∧ a.links = b.links) := by
  cases x with
  | error e =>
    cases y with
    | error e' => left; simp only [obs] at h; cases h; exact ⟨e, rfl, rfl⟩
    | ok b => simp [obs] at h
  | ok a =>
    cases y with
    | error e' => simp [obs] at h
    | ok b =>
      right
      simp only [obs, eraseRegs, Except.ok.injEq, St.mk.injEq] at h
      exact ⟨a, b, rfl, rfl, h.2.1, h.2.2.1, h.2.2.2.1, h.2.2.2.2.2.1⟩

/-- what the data-section drivers need: the two runs from a fresh state agree on everything observable -/
def ProgFor (t : List Desc) (prog : List Stmt) : Prop :=
  ∀ (P : Prims), Frame P → ∀ s : St, s.regs = {} → obs (exec P prog s) = obs (walkList P t s)

theorem decodeSubsetC_eq {t : List Desc} {prog : List Stmt} (h : ProgFor t prog) (bits : Bits) :
    decodeSubsetC prog bits = decodeSubset t bits := by
  unfold decodeSubsetC decodeSubset
  rcases obs_cases (h decPrimsU frame_decPrimsU { bits := bits, vals := [[]] } rfl) with ⟨e, h1, h2⟩ | ⟨a, b, h1, h2, h3, h4, h5, h6⟩
  · rw [h1, h2]
  · rw [h1, h2]; simp only [h3, h4, h5, h6]

theorem decodeSubsetsC_eq {t : List Desc} {prog : List Stmt} (h : ProgFor t prog) (n : Nat) (bits : Bits) :
    decodeSubsetsC prog n bits = decodeSubsets t n bits := by
  induction n generalizing bits with
  | zero => rfl
  | succ n ih =>
    simp only [decodeSubsetsC, decodeSubsets, decodeSubsetC_eq h]
    cases decodeSubset t bits with
    | error e => rfl
    | ok x =>
      simp only [ih]
      rcases decodeSubsets t n x.snd with _ | ⟨a, b⟩ <;> rfl

theorem decodeCompressedC_eq {t : List Desc} {prog : List Stmt} (h : ProgFor t prog) (n : Nat) (bits : Bits) :
    decodeCompressedC prog n bits = decodeCompressed t n bits := by
  unfold decodeCompressedC decodeCompressed
  rcases obs_cases (h decPrimsC frame_decPrimsC { bits := bits, vals := List.replicate n [] } rfl) with ⟨e, h1, h2⟩ | ⟨a, b, h1, h2, h3, h4, h5, h6⟩
  · rw [h1, h2]
  · rw [h1, h2]; simp only [St.outs, h3, h4, h5, h6]

theorem decodeDataC_eq {t : List Desc} {prog : List Stmt} (h : ProgFor t prog) (compressed : Bool) (n : Nat) (bits : Bits) :
    decodeDataC prog compressed n bits = decodeData t compressed n bits := by
  unfold decodeDataC decodeData
  rw [decodeCompressedC_eq h, decodeSubsetsC_eq h]

theorem encodeSubsetC_eq {t : List Desc} {prog : List Stmt} (h : ProgFor t prog) (vals : List Val) (pre : Bits) :
    encodeSubsetC prog vals pre = encodeSubset t vals pre := by
  unfold encodeSubsetC encodeSubset
  rcases obs_cases (h encPrimsU frame_encPrimsU { bits := pre, vals := [vals] } rfl) with ⟨e, h1, h2⟩ | ⟨a, b, h1, h2, h3, h4, h5, h6⟩
  · rw [h1, h2]
  · rw [h1, h2]; simp only [h3, h4, h6]

theorem encodeSubsetsC_eq {t : List Desc} {prog : List Stmt} (h : ProgFor t prog) (vs : List (List Val)) (pre : Bits) :
    encodeSubsetsC prog vs pre = encodeSubsets t vs pre := by
  induction vs generalizing pre with
  | nil => rfl
  | cons v vs ih =>
    simp only [encodeSubsetsC, encodeSubsets, encodeSubsetC_eq h]
    cases encodeSubset t v pre with
    | error e => rfl
    | ok x =>
      simp only [ih]
      rcases encodeSubsets t vs x.snd with _ | ⟨a, b⟩ <;> rfl

theorem encodeCompressedC_eq {t : List Desc} {prog : List Stmt} (h : ProgFor t prog) (valss : List (List Val)) :
    encodeCompressedC prog valss = encodeCompressed t valss := by
  unfold encodeCompressedC encodeCompressed
  rcases obs_cases (h encPrimsC frame_encPrimsC { bits := [], vals := valss } rfl) with ⟨e, h1, h2⟩ | ⟨a, b, h1, h2, h3, h4, h5, h6⟩
  · rw [h1, h2]
  · rw [h1, h2]; simp only [h3, h4, h6]

theorem encodeDataC_eq {t : List Desc} {prog : List Stmt} (h : ProgFor t prog) (compressed : Bool) (valss : List (List Val)) :
    encodeDataC prog compressed valss = encodeData t compressed valss := by
  unfold encodeDataC encodeData
  rw [encodeCompressedC_eq h, encodeSubsetsC_eq h]
  rcases (if compressed = true then encodeCompressed t valss else encodeSubsets t valss []) with _ | ⟨a, b⟩ <;> rfl

/-! ### operator-free templates are scope-closed -/

mutual
theorem beq_refl : ∀ (a : Stmt), Stmt.beq a a = true
  | .loop r x => by simp only [Stmt.beq, decide_true, Bool.true_and]; exact beqList_refl x
  | .numeric .. | .numericNewRef .. | .string .. | .codeflag .. | .newRefval .. | .constant ..
  | .bitmapped .. | .defineBitmap .. | .state .. | .inc031031 | .reset031031 => by simp [Stmt.beq]
theorem beqList_refl : ∀ (a : List Stmt), Stmt.beqList a a = true
  | [] => rfl
  | x :: xs => by simp only [Stmt.beqList, beq_refl x, beqList_refl xs, Bool.and_self]
end

mutual
/-- no operator descriptor anywhere in the template -/
def opFree : Desc → Bool
  | .op _ => false
  | .fixedRep _ ms => opFreeL ms
  | .delayedRep _ f ms => opFree f && opFreeL ms
  | .seq _ ms => opFreeL ms
  | .elem _ => true
  | .undefElem _ => true
  | .undefSeq _ => true
def opFreeL : List Desc → Bool
  | [] => true
  | d :: ds => opFree d && opFreeL ds
end

theorem cPre_init (d : Desc) (k : CRegs → CM COut) :
    cPre d k {} = (match k {} with | .error e => .error e | .ok (p, c1) => .ok (p, c1)) := by
  cases d <;> (simp only [cPre, dnpSkip, newRefTarget, cBitmapDefinition]; rfl)

theorem cElement_init (e : Elem) : (cElement e {}).2 = {} := by
  simp only [cElement, cQa]
  split <;> rfl

def QD (d : Desc) : Prop := ∀ p c1, cDispatch 0 d {} = .ok (p, c1) → c1 = {} ∧ cDispatch 1 d {} = .ok (p, {})
def QL (t : List Desc) : Prop := ∀ p c1, compileList 0 t {} = .ok (p, c1) → c1 = {} ∧ compileList 1 t {} = .ok (p, {})

theorem q_cons (d : Desc) (ds : List Desc) (hd : QD d) (hds : QL ds) : QL (d :: ds) := by
  intro p c1 h
  simp only [compileList, compile1_eq, cPre_init] at h ⊢
  cases h1 : cDispatch 0 d {} with
  | error e => rw [h1] at h; cases h
  | ok y =>
    obtain ⟨p1, c2⟩ := y
    obtain ⟨h2, h3⟩ := hd p1 c2 h1
    subst h2
    rw [h1] at h; rw [h3]
    simp only at h ⊢
    cases h4 : compileList 0 ds {} with
    | error e => rw [h4] at h; cases h
    | ok z =>
      obtain ⟨p2, c3⟩ := z
      obtain ⟨h5, h6⟩ := hds p2 c3 h4
      subst h5
      rw [h4] at h; rw [h6]
      cases h
      exact ⟨rfl, rfl⟩

theorem q_fixed (id : Nat) (ms : List Desc) (hms : QL ms) : QD (.fixedRep id ms) := by
  intro p c1 h
  simp only [cDispatch] at h ⊢
  cases h1 : compileList 0 ms {} with
  | error e => rw [h1] at h; cases h
  | ok y =>
    obtain ⟨body, c2⟩ := y
    obtain ⟨h2, h3⟩ := hms body c2 h1
    subst h2
    rw [h1] at h; rw [h3]
    simp at h
    obtain ⟨h4, h5⟩ := h
    subst h4; subst h5
    simp [scopeOk, h3, beqList_refl]

theorem q_delayed (id : Nat) (f : Desc) (ms : List Desc) (hms : QL ms) : QD (.delayedRep id f ms) := by
  intro p c1 h
  cases f with
  | elem fe =>
    simp only [cDispatch, cElement_init] at h ⊢
    cases h1 : compileList 0 ms {} with
    | error e => rw [h1] at h; cases h
    | ok y =>
      obtain ⟨body, c2⟩ := y
      obtain ⟨h2, h3⟩ := hms body c2 h1
      subst h2
      rw [h1] at h; rw [h3]
      simp at h
      obtain ⟨h4, h5⟩ := h
      subst h4; subst h5
      simp [scopeOk]
  | _ => simp only [cDispatch] at h; cases h

mutual
theorem qL : ∀ (t : List Desc), opFreeL t = true → QL t
  | [], _ => fun p c1 h => by simp only [compileList] at h ⊢; cases h; exact ⟨rfl, rfl⟩
  | d :: ds, h => by
    simp only [opFreeL, Bool.and_eq_true] at h
    exact q_cons d ds (qD d h.1) (qL ds h.2)
theorem qD : ∀ (d : Desc), opFree d = true → QD d
  | .elem e, _ => fun p c1 h => by
    simp only [cDispatch] at h ⊢
    cases h
    refine ⟨cElement_init e, ?_⟩
    have : cElement e {} = ((cElement e {}).1, (cElement e {}).2) := rfl
    rw [this, cElement_init e]
    rfl
  | .undefElem _, _ => fun p c1 h => by simp only [cDispatch] at h; cases h
  | .undefSeq _, _ => fun p c1 h => by simp only [cDispatch] at h; cases h
  | .fixedRep id ms, h => q_fixed id ms (qL ms (by simpa only [opFree] using h))
  | .delayedRep id f ms, h => q_delayed id f ms (qL ms (by simp only [opFree, Bool.and_eq_true] at h; exact h.2))
  | .op _, h => by simp [opFree] at h
  | .seq _ ms, h => fun p c1 hc => by
    simp only [cDispatch] at hc ⊢
    exact qL ms (by simpa only [opFree] using h) p c1 hc
end

/-- an operator-free template that compiles is `scopeClosed` -/
theorem scopeClosed_of_opFree (t : List Desc) (h : opFreeL t = true) (prog : List Stmt) (hc : compile t = .ok prog) :
    scopeClosed t = true := by
  unfold compile at hc
  cases h1 : compileList 0 t {} with
  | error e => rw [h1] at hc; cases hc
  | ok y =>
    obtain ⟨p, c1⟩ := y
    obtain ⟨_, h3⟩ := qL t h p c1 h1
    exact (scopeClosed_iff t).mpr ⟨p, {}, h3⟩


mutual
/-- every operator descriptor of the template satisfies `ok` -/
def opsWithin (ok : Nat → Bool) : Desc → Bool
  | .op id => ok id
  | .fixedRep _ ms => opsWithinL ok ms
  | .delayedRep _ f ms => opsWithin ok f && opsWithinL ok ms
  | .seq _ ms => opsWithinL ok ms
  | .elem _ => true
  | .undefElem _ => true
  | .undefSeq _ => true
def opsWithinL (ok : Nat → Bool) : List Desc → Bool
  | [] => true
  | d :: ds => opsWithin ok d && opsWithinL ok ds
end

/-- the operators of stage B: 201-208 and 221 -/
def stageBOp (id : Nat) : Bool := (201 ≤ id / 1000 && id / 1000 ≤ 208) || id / 1000 == 221

theorem mem_zip_map {α β : Type} (f : α → β) (l : List α) (p : α × β) (h : p ∈ l.zip (l.map f)) : p.2 = f p.1 := by
  induction l with
  | nil => simp at h
  | cons x xs ih =>
    simp only [List.map, List.zip_cons_cons, List.mem_cons] at h
    rcases h with h | h
    · rw [h]
    · exact ih h

end Bufr.C08W
