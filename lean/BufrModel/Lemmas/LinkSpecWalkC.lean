/-
  C07: the bit-map operator, what follows it (237000 / 236000 / the replication of 031031), and the other
  operators, against the fold.
-/
import BufrModel.Lemmas.LinkSpecWalkB
namespace Bufr.C07
open Bufr.Spec

theorem PhaseRel.congr {V : St → List Val} {s s' : St} {cs : List Nat} {st : FS} (h : PhaseRel V s cs st)
    (h1 : s'.regs.bitmapDef = s.regs.bitmapDef) (h2 : s'.regs.backBoundary = s.regs.backBoundary)
    (h3 : s'.regs.n031031 = s.regs.n031031) (hv : V s' = V s) : PhaseRel V s' cs st := by
  unfold PhaseRel at h ⊢
  rw [h1, h2, h3, hv]
  exact h

/-- a register update outside the bit-map machinery -/
theorem Core.setRegs_other {V : St → List Val} (hS : ∀ s f, V (s.setRegs f) = V s) {s : St} {cs : List Nat}
    (hc : Core V s cs) (f : Regs → Regs)
    (h1 : (f s.regs).qa = s.regs.qa) (h2 : (f s.regs).bitmapDef = s.regs.bitmapDef)
    (h3 : (f s.regs).n031031 = s.regs.n031031) (h4 : (f s.regs).bitmapped = s.regs.bitmapped)
    (h5 : (f s.regs).bmIter = s.regs.bmIter) (h6 : (f s.regs).backBoundary = s.regs.backBoundary)
    (h7 : (f s.regs).backRefs = s.regs.backRefs)
    (hq : (f s.regs).nbitsNewRefval = 0 ∧ (f s.regs).nbitsSkipped = 0 ∧ (f s.regs).dnpCount = 0) :
    Core V (s.setRegs f) cs :=
  hc.congr rfl (hS _ _) rfl h1 (by show (f s.regs).bitmapDef = _ ↔ _; rw [h2]) h7 h4 h5 hq
    (hc.phase.congr h2 h6 h3 (hS _ _))

/-! ### `22X000` / `232000` -/

theorem bitmapOp_cases (id : Nat) (h : isBitmapOpId id = true) :
    id = 222000 ∨ id = 223000 ∨ id = 224000 ∨ id = 225000 ∨ id = 232000 := by
  simpa [isBitmapOpId, bitmapOpIds] using h

theorem operatorDescriptor_bitmapOp (P : Prims) (id : Nat) (h : isBitmapOpId id = true) (s : St) :
    operatorDescriptor P id s =
      (P.constant (.oper id) 0 (s.setRegs fun r => { r with bitmapDef := .indicator, backBoundary := s.descs.length })
        >>= fun s2 => pure (if id = 222000 then s2.setRegs fun r => { r with qa := .waiting } else s2)) := by
  rcases bitmapOp_cases id h with rfl | rfl | rfl | rfl | rfl <;> simp [operatorDescriptor]

/-- the operator item: the boundary is its own position, the definition state machine is armed -/
theorem Core.bitmapOp {P : Prims} {V : St → List Val} {X : St → Prop} (hR : Rec P V X) {s s' : St} {cs : List Nat}
    (hc : Core V s cs) (hst : Settled s) (id : Nat) (hid : isBitmapOpId id = true)
    (h : operatorDescriptor P id s = .ok s') :
    Core V s' cs ∧ s'.regs.bitmapDef = .indicator := by
  rw [operatorDescriptor_bitmapOp P id hid] at h
  cases hk : P.constant (.oper id) 0 (s.setRegs fun r => { r with bitmapDef := .indicator, backBoundary := s.descs.length }) with
  | error e => simp [hk, bind, Except.bind] at h
  | ok s2 =>
    simp only [hk, bind, Except.bind, pure, Except.pure] at h
    injection h with h
    obtain ⟨v, hv⟩ := hR.constant _ _ _ _ hk
    obtain ⟨qd, ql, qr⟩ := hR.quiet.constant _ _ _ _ hk
    rw [hR.setRegs] at hv
    have hopx : isBitmapOp (DDesc.oper id, v) = true := hid
    have hbit := op_not_bit _ hopx
    have h7 := op_not_recall _ hopx
    have hcf : ∀ q, consumesF q (DDesc.oper id, v) = false := fun _ => rfl
    have hregs : s'.regs = { s2.regs with qa := if id = 222000 then .waiting else s2.regs.qa } := by
      subst h; split <;> rfl
    have hdescs : s'.descs = s2.descs := by subst h; split <;> rfl
    have hlinks : s'.links = s2.links := by subst h; split <;> rfl
    have hV : V s' = V s2 := by
      subst h; split
      · exact hR.setRegs _ _
      · rfl
    have hbd : s'.regs.bitmapDef = .indicator := by rw [hregs, qr]; rfl
    refine ⟨?_, hbd⟩
    refine hc.record (.oper id) v (by rw [hdescs, qd]; rfl) (by rw [hV, hv]) hbit hst.not_counting
      (by rw [hbd]; exact fun x => nomatch x) ?_ (fun hh => by rw [h7] at hh; cases hh) ?_
      (by rw [hregs, qr]; rfl) (by rw [hregs, qr]; rfl) (by rw [hregs, qr]; exact hc.quiet) ?_
    · -- the quality-information status
      rw [hregs]
      show (if id = 222000 then QaStatus.waiting else s2.regs.qa) = qaStep s.regs.qa (DDesc.oper id, v)
      unfold qaStep
      by_cases h2 : id = 222000
      · subst h2; rfl
      · have : isOper 222000 (DDesc.oper id, v) = false := by simp [isOper, h2]
        rw [if_neg h2, this, qr]; rfl
    · intro _
      rw [hcf]
      simp only [Bool.false_eq_true, if_false]
      exact ⟨by rw [hlinks, ql]; rfl, by rw [hregs, qr]; rfl⟩
    · -- the phase: directly behind the operator
      unfold PhaseRel
      rw [hbd]
      simp only
      rw [step_ph]
      have hb : s'.regs.backBoundary = s.descs.length := by rw [hregs, qr]; rfl
      rw [hb]
      refine ⟨?_, hc.cs_le⟩
      unfold phStep
      rw [hopx, if_pos rfl, hc.pos]

/-! ### `237000` and `236000` directly behind the operator -/

theorem oper_facts (id : Nat) (v : Val) (h1 : id ∉ bitmapOpIds) :
    isBit (DDesc.oper id, v) = false ∧ isBitmapOp (DDesc.oper id, v) = false ∧
    (∀ q, consumesF q (DDesc.oper id, v) = false) ∧ (id ≠ 222000 → ∀ q, qaStep q (DDesc.oper id, v) = q) := by
  refine ⟨rfl, ?_, fun _ => rfl, ?_⟩
  · simp only [isBitmapOp]
    cases hc : bitmapOpIds.contains id with
    | false => rfl
    | true => exact absurd (by simpa using hc) h1
  · intro h2 q
    simp [qaStep, isOper, h2, elemClass?]

/-- the member `237000` behind the operator: the definition is the one most recently built -/
theorem Core.recall {P : Prims} {V : St → List Val} {X : St → Prop} (hR : Rec P V X) {s s1 s' : St} {cs : List Nat}
    (hc : Core V s cs) (hind : s.regs.bitmapDef = .indicator)
    (h1 : bitmapDefinition P 237000 s = .ok s1) (h : operatorDescriptor P 237000 s1 = .ok s') :
    Core V s' cs ∧ s'.regs.bitmapDef = .na := by
  have e1 : s1 = s.setRegs fun r => { r with bitmapDef := .na } := by
    unfold bitmapDefinition at h1
    simp only [hind, if_true] at h1
    injection h1 with h1; exact h1.symm
  subst e1
  cases hb : s.regs.bitmapped with
  | none => simp [operatorDescriptor, hb, St.setRegs] at h
  | some l =>
    have e : operatorDescriptor P 237000 (s.setRegs fun r => { r with bitmapDef := .na }) =
        P.constant (.oper 237000) 0 ((s.setRegs fun r => { r with bitmapDef := .na }).setRegs
          fun r => { r with bmIter := some l }) := by
      simp [operatorDescriptor, hb, St.setRegs]
    rw [e] at h
    obtain ⟨v, hv⟩ := hR.constant _ _ _ _ h
    obtain ⟨qd, ql, qr⟩ := hR.quiet.constant _ _ _ _ h
    rw [hR.setRegs, hR.setRegs] at hv
    obtain ⟨f1, f2, f4, f5⟩ := oper_facts 237000 v (by decide)
    have hbd : s'.regs.bitmapDef = .na := by rw [qr]; rfl
    refine ⟨?_, hbd⟩
    refine hc.record (.oper 237000) v qd hv f1 (by rw [hind]; exact fun x => nomatch x)
      (by rw [hbd]; exact fun x => nomatch x) (by rw [qr, f5 (by decide)]; rfl)
      (fun _ => ⟨l, hb, by rw [qr]; rfl, ql⟩) (fun hh => by cases hh)
      (by rw [qr]; rfl) (by rw [qr]; rfl) (by rw [qr]; exact hc.quiet) ?_
    unfold PhaseRel
    rw [hbd]
    simp only
    left
    have hp := hc.phase
    unfold PhaseRel at hp
    rw [hind] at hp
    rw [step_ph, fin1_ph_afterOp _ _ _ hp.1, phStep_afterOp _ _ _ f2]
    rfl

/-- the member `236000` behind the operator -/
theorem Core.reuse {P : Prims} {V : St → List Val} {X : St → Prop} (hR : Rec P V X) {s s1 s' : St} {cs : List Nat}
    (hc : Core V s cs) (hind : s.regs.bitmapDef = .indicator)
    (h1 : bitmapDefinition P 236000 s = .ok s1) (h : operatorDescriptor P 236000 s1 = .ok s') :
    Core V s' cs ∧ s'.regs.bitmapDef = .waiting ∧ ∀ c ∈ cs, c ≤ s'.regs.backBoundary := by
  have e1 : s1 = s.setRegs fun r => { r with bitmapDef := .waiting, n031031 := 0 } := by
    unfold bitmapDefinition at h1
    simp only [hind] at h1
    rw [if_neg (by decide)] at h1
    injection h1 with h1; exact h1.symm
  subst e1
  have e : operatorDescriptor P 236000 (s.setRegs fun r => { r with bitmapDef := .waiting, n031031 := 0 }) =
      P.constant (.oper 236000) 0 (s.setRegs fun r => { r with bitmapDef := .waiting, n031031 := 0 }) := by
    simp [operatorDescriptor]
  rw [e] at h
  obtain ⟨v, hv⟩ := hR.constant _ _ _ _ h
  obtain ⟨qd, ql, qr⟩ := hR.quiet.constant _ _ _ _ h
  rw [hR.setRegs] at hv
  obtain ⟨f1, f2, f4, f5⟩ := oper_facts 236000 v (by decide)
  have hbd : s'.regs.bitmapDef = .waiting := by rw [qr]; rfl
  have hp := hc.phase
  unfold PhaseRel at hp
  rw [hind] at hp
  have hbb : s'.regs.backBoundary = s.regs.backBoundary := by rw [qr]; rfl
  refine ⟨?_, hbd, by rw [hbb]; exact hp.2⟩
  refine hc.record (.oper 236000) v qd hv f1 (by rw [hind]; exact fun x => nomatch x)
    (by rw [hbd]; exact fun x => nomatch x) (by rw [qr, f5 (by decide)]; rfl)
    (fun hh => by cases hh) (fun _ => by rw [f4]; simp only [Bool.false_eq_true, if_false]; exact ⟨ql, by rw [qr]; rfl⟩)
    (by rw [qr]; rfl) (by rw [qr]; rfl) (by rw [qr]; exact hc.quiet) ?_
  unfold PhaseRel
  rw [hbd]
  simp only
  rw [hbb]
  refine ⟨Or.inr ⟨true, ?_⟩, by rw [qr]; rfl⟩
  rw [step_ph, fin1_ph_afterOp _ _ _ hp.1, phStep_afterOp _ _ _ f2]
  rfl

end Bufr.C07
