/-
  Helper lemmas for the compressed-column codec (C05, C02 width rule).
-/
import BufrModel.Coder.Encode
import BufrModel.Spec.Column
import BufrModel.Lemmas.Bits
namespace Bufr

/-! ### the width rule -/

theorem bitLength_zero (fuel : Nat) : bitLength fuel 0 = 0 := by
  cases fuel <;> simp [bitLength]

theorem bitLength_spec (fuel x : Nat) (hx : 0 < x) (hf : x ≤ fuel) :
    ∃ k, bitLength fuel x = k + 1 ∧ 2 ^ k ≤ x ∧ x < 2 ^ (k + 1) := by
  induction fuel generalizing x with
  | zero => omega
  | succ fuel ih =>
    have hx0 : x ≠ 0 := by omega
    simp only [bitLength, hx0, if_false]
    by_cases h2 : x / 2 = 0
    · refine ⟨0, ?_, ?_, ?_⟩
      · rw [h2, bitLength_zero]
      · simp; omega
      · simp; omega
    · obtain ⟨k, hk, hlo, hhi⟩ := ih (x / 2) (by omega) (by omega)
      refine ⟨k + 1, by rw [hk], ?_, ?_⟩
      · rw [Nat.pow_succ]; omega
      · rw [Nat.pow_succ] at hhi ⊢; omega

/-- `nbitsForUInt x` is the bit length of `x + 1`: the least width whose all-ones pattern is
    strictly above `x`. -/
theorem nbitsForUInt_spec (x : Nat) :
    ∃ k, nbitsForUInt x = k + 1 ∧ 2 ^ k ≤ x + 1 ∧ x + 1 < 2 ^ (k + 1) := by
  by_cases hx : x = 0
  · subst hx; exact ⟨0, by simp [nbitsForUInt], by simp, by simp⟩
  · obtain ⟨k, hk, hlo, hhi⟩ := bitLength_spec (x + 1) x (by omega) (by omega)
    simp only [nbitsForUInt, hx, if_false, hk]
    by_cases he : x = 2 ^ (k + 1) - 1
    · refine ⟨k + 1, by simp [← he], ?_, ?_⟩
      · omega
      · rw [Nat.pow_succ 2 (k + 1)]; omega
    · exact ⟨k, by simp [he], by omega, by omega⟩

theorem nbitsForUInt_pos (x : Nat) : 0 < nbitsForUInt x := by
  obtain ⟨k, hk, _, _⟩ := nbitsForUInt_spec x; omega

/-- the all-ones pattern of the chosen width is reserved: `x ≤ 2^n − 2` -/
theorem nbitsForUInt_fits (x : Nat) : x + 2 ≤ 2 ^ nbitsForUInt x := by
  obtain ⟨k, hk, _, h⟩ := nbitsForUInt_spec x; rw [hk]; omega

/-- … and no smaller width has room -/
theorem nbitsForUInt_least (x k : Nat) (h : x + 2 ≤ 2 ^ k) : nbitsForUInt x ≤ k := by
  obtain ⟨j, hj, hlo, _⟩ := nbitsForUInt_spec x
  have : 2 ^ j < 2 ^ k := by omega
  have := (Nat.pow_lt_pow_iff_right (by omega : 1 < 2)).mp this
  omega

/-- from a width of two bits on: `nbitsForUInt x ≥ 2` for `x ≥ 1` -/
theorem nbitsForUInt_ge_two (x : Nat) (hx : 0 < x) : 2 ≤ nbitsForUInt x := by
  have h := nbitsForUInt_fits x
  rcases hn : nbitsForUInt x with _ | _ | n
  · rw [hn] at h; simp at h
  · rw [hn] at h; simp at h; omega
  · omega

/-! ### minimum and maximum of a column -/

open Spec in
theorem colMin_none_iff (raws : List (Option Nat)) : colMin raws = none ↔ ∀ r ∈ raws, r = none := by
  induction raws with
  | nil => simp [colMin]
  | cons r rs ih =>
    cases r with
    | none => simp [colMin, ih]
    | some x => cases h : colMin rs <;> simp [colMin, h]

open Spec in
theorem colMax_none_iff (raws : List (Option Nat)) : colMax raws = none ↔ ∀ r ∈ raws, r = none := by
  induction raws with
  | nil => simp [colMax]
  | cons r rs ih =>
    cases r with
    | none => simp [colMax, ih]
    | some x => cases h : colMax rs <;> simp [colMax, h]

open Spec in
theorem colMin_some (raws : List (Option Nat)) (m : Nat) (h : colMin raws = some m) :
    some m ∈ raws ∧ ∀ x, some x ∈ raws → m ≤ x := by
  induction raws generalizing m with
  | nil => simp [colMin] at h
  | cons r rs ih =>
    cases r with
    | none =>
      simp only [colMin] at h
      obtain ⟨h1, h2⟩ := ih m h
      exact ⟨by simp [h1], fun x hx => h2 x (by simpa using hx)⟩
    | some x =>
      simp only [colMin] at h
      cases hc : colMin rs with
      | none =>
        rw [hc] at h; simp only [Option.some.injEq] at h; subst h
        have hn := (colMin_none_iff rs).mp hc
        refine ⟨by simp, fun y hy => ?_⟩
        simp only [List.mem_cons, Option.some.injEq] at hy
        rcases hy with hy | hy
        · omega
        · have := hn _ hy; cases this
      | some m' =>
        rw [hc] at h; simp only [Option.some.injEq] at h
        obtain ⟨h1, h2⟩ := ih m' hc
        refine ⟨?_, fun y hy => ?_⟩
        · simp only [List.mem_cons, Option.some.injEq]
          by_cases hle : m' ≤ x
          · right; rw [← h, Nat.min_eq_left hle]; exact h1
          · left; rw [← h]; omega
        · simp only [List.mem_cons, Option.some.injEq] at hy
          rcases hy with hy | hy
          · omega
          · have := h2 y hy; omega

open Spec in
theorem colMax_some (raws : List (Option Nat)) (m : Nat) (h : colMax raws = some m) :
    some m ∈ raws ∧ ∀ x, some x ∈ raws → x ≤ m := by
  induction raws generalizing m with
  | nil => simp [colMax] at h
  | cons r rs ih =>
    cases r with
    | none =>
      simp only [colMax] at h
      obtain ⟨h1, h2⟩ := ih m h
      exact ⟨by simp [h1], fun x hx => h2 x (by simpa using hx)⟩
    | some x =>
      simp only [colMax] at h
      cases hc : colMax rs with
      | none =>
        rw [hc] at h; simp only [Option.some.injEq] at h; subst h
        have hn := (colMax_none_iff rs).mp hc
        refine ⟨by simp, fun y hy => ?_⟩
        simp only [List.mem_cons, Option.some.injEq] at hy
        rcases hy with hy | hy
        · omega
        · have := hn _ hy; cases this
      | some m' =>
        rw [hc] at h; simp only [Option.some.injEq] at h
        obtain ⟨h1, h2⟩ := ih m' hc
        refine ⟨?_, fun y hy => ?_⟩
        · simp only [List.mem_cons, Option.some.injEq]
          by_cases hle : x ≤ m'
          · right; rw [← h, Nat.max_eq_left hle]; exact h1
          · left; rw [← h]; omega
        · simp only [List.mem_cons, Option.some.injEq] at hy
          rcases hy with hy | hy
          · omega
          · have := h2 y hy; omega

/-- the encoder's min/max scan over the raw integers is the column minimum and maximum -/
theorem minmaxOpt_map (raws : List (Option Nat)) :
    minmaxOpt (raws.map (Option.map Int.ofNat)) =
      match Spec.colMin raws, Spec.colMax raws with
      | some lo, some hi => some (Int.ofNat lo, Int.ofNat hi)
      | _, _ => none := by
  induction raws with
  | nil => rfl
  | cons r rs ih =>
    cases r with
    | none => simp only [List.map_cons, Option.map_none, minmaxOpt, ih, Spec.colMin, Spec.colMax]
    | some x =>
      simp only [List.map_cons, Option.map_some, minmaxOpt, ih, Spec.colMin, Spec.colMax]
      cases hmin : Spec.colMin rs with
      | none =>
        have : Spec.colMax rs = none := (colMax_none_iff rs).mpr ((colMin_none_iff rs).mp hmin)
        simp [this]
      | some lo =>
        cases hmax : Spec.colMax rs with
        | none =>
          have : Spec.colMin rs = none := (colMin_none_iff rs).mpr ((colMax_none_iff rs).mp hmax)
          rw [this] at hmin; cases hmin
        | some hi =>
          simp only [Int.ofNat_eq_natCast, Option.some.injEq, Prod.mk.injEq]
          constructor <;> omega

theorem minmaxOpt_map_some (raws : List (Option Nat)) (lo hi : Nat)
    (hlo : Spec.colMin raws = some lo) (hhi : Spec.colMax raws = some hi) :
    minmaxOpt (raws.map (Option.map Int.ofNat)) = some ((lo : Int), (hi : Int)) := by
  rw [minmaxOpt_map, hlo, hhi]; rfl

/-! ### writing -/

theorem fieldUInt_nat (v n : Nat) (hn : 0 < n) (hv : v < 2 ^ n) :
    fieldUInt (v : Int) n = .ok (toBits n v) := by
  have h := writeUInt_ofNat [] n v hn hv
  simpa [fieldUInt] using h

theorem toBits_max (n : Nat) : toBits n (2 ^ n - 1) = ones n := by
  have h := toBits_ofBits (ones n)
  have hl : (ones n).length = n := by simp [ones]
  rw [hl, ofBits_ones] at h; exact h

theorem ones_length (n : Nat) : (ones n).length = n := by simp [ones]

/-- the missing pattern of a width in `1..64` is written as all ones -/
theorem fieldUInt_missing (n : Nat) (hn : 0 < n) (h64 : n ≤ 64) :
    (do fieldUInt (← missingPattern n) n : CM Bits) = .ok (ones n) := by
  have h : ¬ (64 < n) := by omega
  have hp := Nat.two_pow_pos n
  simp only [missingPattern, h, if_false]
  show fieldUInt ((2 ^ n - 1 : Nat) : Int) n = _
  rw [fieldUInt_nat _ _ hn (by omega), toBits_max]

theorem catBits_map_ok {α : Type} (l : List α) (f : α → CM Bits) (g : α → Bits)
    (h : ∀ a ∈ l, f a = .ok (g a)) : catBits (l.map f) = .ok (l.flatMap g) := by
  induction l with
  | nil => rfl
  | cons a as ih =>
    have ha := h a (by simp)
    have ih' := ih (fun b hb => h b (by simp [hb]))
    simp only [List.map_cons, catBits, ha, ih', List.flatMap_cons]

/-! ### reading -/

theorem readUIntOrNone_value (n v : Nat) (suf : Bits) (hn : 0 < n) (h64 : n ≤ 64) (hv : v < 2 ^ n)
    (hm : 1 < n → v ≠ 2 ^ n - 1) : readUIntOrNone n (toBits n v ++ suf) = .ok (some v, suf) := by
  have h : ¬ (64 < n) := by omega
  have h2 : ¬ (1 < n ∧ v = 2 ^ n - 1) := fun ⟨a, b⟩ => hm a b
  simp only [readUIntOrNone, readUInt_toBits n v suf hn hv, h, h2, if_false]

theorem readUIntOrNone_ones (n : Nat) (suf : Bits) (hn : 1 < n) (h64 : n ≤ 64) :
    readUIntOrNone n (ones n ++ suf) = .ok (none, suf) := by
  have h : ¬ (64 < n) := by omega
  have hp := Nat.two_pow_pos n
  rw [← toBits_max]
  simp only [readUIntOrNone, readUInt_toBits n (2 ^ n - 1) suf (by omega) (by omega), h, if_false,
    hn, true_and, if_true]

theorem readDiff_value (d v : Nat) (suf : Bits) (hd : 0 < d) (h64 : d ≤ 64) (hv : v < 2 ^ d - 1) :
    readDiff d (toBits d v ++ suf) = .ok (some v, suf) := by
  have h1 : ¬ (some v = some 1 ∧ d = 1) := by
    rintro ⟨a, b⟩; subst b; simp at a; subst a; simp at hv
  simp only [readDiff, readUIntOrNone_value d v suf hd h64 (by omega) (by omega), h1, if_false]

/-- all ones is read back as missing for EVERY increment width (for one bit through the
    decoder's special rule) -/
theorem readDiff_ones (d : Nat) (suf : Bits) (hd : 0 < d) (h64 : d ≤ 64) :
    readDiff d (ones d ++ suf) = .ok (none, suf) := by
  by_cases h1 : d = 1
  · subst h1; rfl
  · simp only [readDiff, readUIntOrNone_ones d suf (by omega) h64]
    simp

theorem incrBits_length (d lo : Nat) (r : Option Nat) : (Spec.incrBits d lo r).length = d := by
  cases r <;> simp [Spec.incrBits, ones_length, toBits_length]

/-- `n` increments of any width that holds them are read back as the column -/
theorem readDiffs_incr (d lo : Nat) (raws : List (Option Nat)) (suf : Bits) (hd : 0 < d) (h64 : d ≤ 64)
    (h : ∀ x, some x ∈ raws → lo ≤ x ∧ x - lo < 2 ^ d - 1) :
    readDiffs d lo raws.length (raws.flatMap (Spec.incrBits d lo) ++ suf) = .ok (raws, suf) := by
  induction raws with
  | nil => rfl
  | cons r rs ih =>
    have ih' := ih (fun x hx => h x (by simp [hx]))
    cases r with
    | none =>
      simp only [List.length_cons, List.flatMap_cons, Spec.incrBits, List.append_assoc, readDiffs,
        readDiff_ones d _ hd h64, ih', Option.map_none]
    | some v =>
      obtain ⟨h1, h2⟩ := h v (by simp)
      have : lo + (v - lo) = v := by omega
      simp only [List.length_cons, List.flatMap_cons, Spec.incrBits, List.append_assoc, readDiffs,
        readDiff_value d _ _ hd h64 h2, ih', Option.map_some, this]

/-! ### the encoder's column is the spec column with the encoder's width -/

/-- the increment width `encIntColumn` uses -/
def encoderWidth (allEqual : Bool) (raws : List (Option Nat)) : Nat :=
  if allEqual then 0
  else match Spec.colMin raws, Spec.colMax raws with
    | some lo, some hi => nbitsForUInt (hi - lo + 1)
    | _, _ => 0

theorem intColumnBits_eq (w : Nat) (raws : List (Option Nat)) (lo hi : Nat)
    (hmin : Spec.colMin raws = some lo) (hmax : Spec.colMax raws = some hi)
    (hw : 0 < w) (hlo : lo < 2 ^ w) (hnd : nbitsForUInt (hi - lo + 1) ≤ 63) :
    intColumnBits (raws.map (Option.map Int.ofNat)) w =
      .ok (Spec.intColumnBitsWith (nbitsForUInt (hi - lo + 1)) raws w) := by
  obtain ⟨_, hlomin⟩ := colMin_some raws lo hmin
  obtain ⟨himem, himax⟩ := colMax_some raws hi hmax
  have hlohi : lo ≤ hi := hlomin hi himem
  have hx : ((hi : Int) - (lo : Int) + 1).toNat = hi - lo + 1 := by omega
  have hpos := nbitsForUInt_pos (hi - lo + 1)
  have hfit := nbitsForUInt_fits (hi - lo + 1)
  have hnz : nbitsForUInt (hi - lo + 1) ≠ 0 := by omega
  have h6 : nbitsForUInt (hi - lo + 1) < 2 ^ 6 := by simp; omega
  simp only [intColumnBits, minmaxOpt_map_some raws lo hi hmin hmax, hx, Spec.intColumnBitsWith,
    hmin, hnz, if_false, catBits, fieldUInt_nat lo w hw hlo, fieldUInt_nat _ 6 (by omega) h6,
    List.map_map]
  rw [catBits_map_ok raws _ (Spec.incrBits (nbitsForUInt (hi - lo + 1)) lo)]
  · simp only [List.append_assoc]
  · intro r hr
    cases r with
    | none =>
      simp only [Function.comp, Option.map_none, Spec.incrBits]
      exact fieldUInt_missing _ hpos (by omega)
    | some v =>
      have h1 := hlomin v hr
      have h2 := himax v hr
      have hc : (Int.ofNat v) - (lo : Int) = ((v - lo : Nat) : Int) := by
        simp only [Int.ofNat_eq_natCast]; omega
      simp only [Function.comp, Option.map_some, Spec.incrBits, hc]
      exact fieldUInt_nat _ _ hpos (by omega)

theorem headD_map_ofNat (raws : List (Option Nat)) :
    (raws.map (Option.map Int.ofNat)).headD none = (raws.headD none).map Int.ofNat := by
  cases raws <;> rfl

/-! ### the consuming reader in closed form (for the spec-reader equivalence) -/

theorem readUInt_eq (n : Nat) (bs : Bits) :
    readUInt n bs = if n = 0 then .error .other else if bs.length < n then .error .bitRead
      else .ok (ofBits (bs.take n), bs.drop n) := by
  by_cases h0 : n = 0
  · simp [readUInt, h0]
  · by_cases hl : bs.length < n <;> simp [readUInt, readBits, h0, hl]

theorem readDiff_eq (d : Nat) (bs : Bits) (hd : 0 < d) (h64 : d ≤ 64) :
    readDiff d bs = if bs.length < d then .error .bitRead
      else .ok ((if (bs.take d).all id then none else some (ofBits (bs.take d))), bs.drop d) := by
  have h0 : d ≠ 0 := by omega
  have h64' : ¬ (64 < d) := by omega
  by_cases hl : bs.length < d
  · simp [readDiff, readUIntOrNone, readUInt_eq, h0, hl]
  · have hlen : (bs.take d).length = d := by rw [List.length_take]; omega
    have hmax := ofBits_eq_max_iff (bs.take d)
    rw [hlen] at hmax
    simp only [readDiff, readUIntOrNone, readUInt_eq, h0, hl, h64', if_false]
    by_cases hall : (bs.take d).all id = true
    · have hv := hmax.mpr hall
      by_cases h1 : d = 1
      · subst h1; simp [hall, hv]
      · have : 1 < d := by omega
        simp [hall, hv, this]
    · have hv : ¬ (ofBits (bs.take d) = 2 ^ d - 1) := fun h => hall (hmax.mp h)
      have hne : ¬ (some (ofBits (bs.take d)) = some 1 ∧ d = 1) := by
        rintro ⟨a, b⟩; subst b; simp at a; exact hv (by simpa using a)
      simp only [hv, and_false, if_false, hne, hall]
      simp

/-- value of the `i`-th of a run of `d`-bit increments on top of `m` -/
def incrVal (d m : Nat) (bs : Bits) (i : Nat) : Option Nat :=
  if ((bs.drop (i * d)).take d).all id then none else some (m + ofBits ((bs.drop (i * d)).take d))

theorem readDiffs_eq (d m n : Nat) (bs : Bits) (hd : 0 < d) (h64 : d ≤ 64) :
    readDiffs d m n bs = if bs.length < n * d then .error .bitRead
      else .ok ((List.range n).map (incrVal d m bs), bs.drop (n * d)) := by
  induction n generalizing bs with
  | zero => simp [readDiffs]
  | succ n ih =>
    have hmul : (n + 1) * d = d + n * d := by rw [Nat.succ_mul]; omega
    simp only [readDiffs, readDiff_eq d bs hd h64]
    by_cases hl : bs.length < d
    · have : bs.length < (n + 1) * d := by omega
      simp [hl, this]
    · simp only [hl, if_false, ih (bs.drop d), List.length_drop]
      by_cases hl2 : bs.length - d < n * d
      · have : bs.length < (n + 1) * d := by omega
        simp [hl2, this]
      · have hnl : ¬ (bs.length < d + n * d) := by omega
        have h0 : incrVal d m bs 0 =
            (if (bs.take d).all id then none else some (m + ofBits (bs.take d))) := by
          simp [incrVal]
        have hs : ∀ i, incrVal d m bs (i + 1) = incrVal d m (bs.drop d) i := by
          intro i
          have : (i + 1) * d = d + i * d := by rw [Nat.succ_mul]; omega
          simp only [incrVal, List.drop_drop, this]
        simp only [hl2, if_false, List.range_succ_eq_map, List.map_cons, List.map_map,
          List.drop_drop, hmul, hnl, h0]
        have hm : List.map (incrVal d m bs ∘ Nat.succ) (List.range n) =
            List.map (incrVal d m (bs.drop d)) (List.range n) :=
          List.map_congr_left (fun i _ => hs i)
        rw [hm]
        cases hall : (bs.take d).all id <;> simp

/-! ### character columns -/

theorem padBytes_of_length (b : List UInt8) (k : Nat) (h : b.length = k) : padBytes b k = b := by
  subst h; simp [padBytes]

theorem strCanon_length (k : Nat) (s : Option (List UInt8)) : (Spec.strCanon k s).length = k := by
  cases s <;> simp [Spec.strCanon, padBytes_length]

/-- the field the string encoder writes for an entry is its canonical form -/
theorem fieldBytes_none (k : Nat) :
    fieldBytes (List.replicate k 0xFF) k = .ok (bytesToBits (Spec.strCanon k none)) := by
  simp only [fieldBytes, writeBytes, List.nil_append, Spec.strCanon]
  rw [padBytes_of_length _ _ (by simp)]

theorem fieldBytes_some (k : Nat) (b : List UInt8) :
    fieldBytes b k = .ok (bytesToBits (Spec.strCanon k (some b))) := by
  simp only [fieldBytes, writeBytes, List.nil_append, Spec.strCanon]

theorem readBytes_of_length (k : Nat) (b : List UInt8) (suf : Bits) (h : b.length = k) :
    readBytes k (bytesToBits b ++ suf) = .ok (b, suf) := by
  subst h; exact readBytes_bytesToBits b suf

theorem readStrings_enc (nd : Nat) (base : List UInt8) (strs : List (List UInt8)) (suf : Bits)
    (h : ∀ s ∈ strs, s.length = nd) :
    readStrings nd base strs.length (strs.flatMap bytesToBits ++ suf) =
      .ok (strs.map (base ++ ·), suf) := by
  induction strs with
  | nil => rfl
  | cons s ss ih =>
    have ih' := ih (fun t ht => h t (by simp [ht]))
    simp only [List.length_cons, List.flatMap_cons, List.append_assoc, readStrings,
      readBytes_of_length nd s _ (h s (by simp)), ih', List.map_cons]

/-! ### `ColOK` -/

theorem mem_zip_map {α β : Type} (l : List α) (f : α → β) (p : α × β) (h : p ∈ l.zip (l.map f)) :
    p.1 ∈ l ∧ p.2 = f p.1 := by
  induction l with
  | nil => simp at h
  | cons a as ih =>
    simp only [List.map_cons, List.zip_cons_cons, List.mem_cons] at h
    rcases h with h | h
    · subst h; simp
    · obtain ⟨h1, h2⟩ := ih h; exact ⟨by simp [h1], h2⟩

theorem toBits_ne_ones (d a : Nat) (h : a < 2 ^ d - 1) : toBits d a ≠ ones d := by
  intro he
  have h1 := ofBits_toBits d a
  rw [he, ofBits_ones, Nat.mod_eq_of_lt (by omega)] at h1
  omega

/-- every legal column is `ColOK` (for the flag that is on exactly when the width is 0) -/
theorem colOK_of_legal (w d : Nat) (raws : List (Option Nat)) (sawEqual : Bool)
    (hr : Spec.InRange w raws) (hd : Spec.LegalWidth d raws) (hflag : d = 0 ↔ sawEqual = true) :
    Spec.ColOK w raws sawEqual (Spec.intColumnBitsWith d raws w) := by
  obtain ⟨hd63, hd0, hdpos⟩ := hd
  cases hmin : Spec.colMin raws with
  | none =>
    have hz : d = 0 := by
      rcases Nat.eq_zero_or_pos d with h | h
      · exact h
      · obtain ⟨lo, hlo, _⟩ := hdpos h; rw [hmin] at hlo; cases hlo
    refine ⟨ones w, d, [], ?_, ones_length w, by omega, hflag, ?_, fun h => ⟨rfl, hd0 h⟩,
      fun h => by omega⟩
    · simp [Spec.intColumnBitsWith, hmin]
    · simp only [hmin]
  | some lo =>
    obtain ⟨hlomem, hlomin⟩ := colMin_some raws lo hmin
    have hlo := (hr lo hlomem).1
    refine ⟨toBits w lo, d, (if d = 0 then [] else raws.map (Spec.incrBits d lo)), ?_,
      toBits_length w lo, by omega, hflag, ?_, fun h => ⟨by simp [h], hd0 h⟩, fun h => ?_⟩
    · simp only [Spec.intColumnBitsWith, hmin]
      by_cases hz : d = 0
      · simp [hz]
      · simp only [hz, if_false, List.flatMap_def]
    · simp only [hmin, ofBits_toBits, Nat.mod_eq_of_lt hlo]
    · have hz : d ≠ 0 := by omega
      obtain ⟨lo', hlo', hfit⟩ := hdpos h
      rw [hmin] at hlo'; cases hlo'
      refine ⟨lo, hmin, ?_⟩
      simp only [hz, if_false, List.length_map, true_and]
      intro p hp
      obtain ⟨hp1, hp2⟩ := mem_zip_map raws _ p hp
      rw [hp2]
      refine ⟨incrBits_length d lo p.1, ?_, fun v hv => ?_⟩
      · cases hp1' : p.1 with
        | none => simp [Spec.incrBits]
        | some v =>
          rw [hp1'] at hp1
          simp only [Spec.incrBits, false_iff, reduceCtorEq]
          exact toBits_ne_ones d _ (hfit v hp1)
      · rw [hv] at hp1 ⊢
        have := hfit v hp1
        refine ⟨hlomin v hp1, ?_⟩
        simp only [Spec.incrBits, ofBits_toBits]
        exact Nat.mod_eq_of_lt (by omega)

theorem exists_zip_of_mem {α β : Type} (l1 : List α) (l2 : List β) (a : α) (h : a ∈ l1)
    (hl : l2.length = l1.length) : ∃ b, (a, b) ∈ l1.zip l2 := by
  induction l1 generalizing l2 with
  | nil => simp at h
  | cons x xs ih =>
    cases l2 with
    | nil => simp at hl
    | cons y ys =>
      simp only [List.mem_cons] at h
      rcases h with h | h
      · subst h; exact ⟨y, by simp⟩
      · obtain ⟨b, hb⟩ := ih ys h (by simpa using hl)
        exact ⟨b, by simp [hb]⟩

theorem eq_map_of_zip {α β : Type} (l1 : List α) (l2 : List β) (f : α → β)
    (hl : l2.length = l1.length) (h : ∀ p ∈ l1.zip l2, p.2 = f p.1) : l2 = l1.map f := by
  induction l1 generalizing l2 with
  | nil => simpa using hl
  | cons x xs ih =>
    cases l2 with
    | nil => simp at hl
    | cons y ys =>
      have h1 := h (x, y) (by simp)
      have h2 := ih ys (by simpa using hl) (fun p hp => h p (by simp [hp]))
      simp only at h1
      rw [List.map_cons, h1, h2]

theorem all_id_eq_ones (b : Bits) (h : b.all id = true) : b = ones b.length := by
  induction b with
  | nil => rfl
  | cons x xs ih =>
    simp only [List.all_cons, id, Bool.and_eq_true] at h
    obtain ⟨h1, h2⟩ := h
    subst h1
    have := ih h2
    simp only [ones, List.length_cons, List.replicate_succ] at this ⊢
    rw [← this]

/-- conversely, `ColOK` pins the bits down: they are the spec column for a legal width -/
theorem legal_of_colOK (w : Nat) (raws : List (Option Nat)) (sawEqual : Bool) (bits : Bits)
    (h : Spec.ColOK w raws sawEqual bits) :
    ∃ d, Spec.LegalWidth d raws ∧ (d = 0 ↔ sawEqual = true) ∧
      bits = Spec.intColumnBitsWith d raws w := by
  obtain ⟨mn, d, incs, hbits, hlen, hd, hflag, hmn, h0, hpos⟩ := h
  refine ⟨d, ⟨by omega, fun h => (h0 h).2, fun h => ?_⟩, hflag, ?_⟩
  · obtain ⟨lo, hlo, hl, hz⟩ := hpos h
    refine ⟨lo, hlo, fun x hx => ?_⟩
    obtain ⟨b, hb⟩ := exists_zip_of_mem raws incs (some x) hx hl
    obtain ⟨hb1, hb2, hb3⟩ := hz _ hb
    obtain ⟨_, hv⟩ := hb3 x rfl
    simp only at hb1 hb2 hv
    have hlt := ofBits_lt b
    have hmax := ofBits_eq_max_iff b
    rw [hb1] at hlt hmax
    have hne : ofBits b ≠ 2 ^ d - 1 := by
      intro he
      have := all_id_eq_ones b (hmax.mp he)
      rw [hb1] at this
      have := hb2.mpr this
      cases this
    omega
  · cases hmin : Spec.colMin raws with
    | none =>
      rw [hmin] at hmn
      have hz : d = 0 := by
        rcases Nat.eq_zero_or_pos d with h | h
        · exact h
        · obtain ⟨lo, hlo, _⟩ := hpos h; rw [hmin] at hlo; cases hlo
      rw [hbits, (h0 hz).1, hmn]
      simp [Spec.intColumnBitsWith, hmin]
    | some lo =>
      rw [hmin] at hmn
      simp only at hmn
      have hmn' : mn = toBits w lo := by
        have := toBits_ofBits mn
        rw [hlen, hmn] at this; exact this.symm
      by_cases hz : d = 0
      · rw [hbits, (h0 hz).1, hmn']
        simp [Spec.intColumnBitsWith, hmin, hz]
      · obtain ⟨lo', hlo', hl, hp⟩ := hpos (by omega)
        rw [hmin] at hlo'; cases hlo'
        have hincs : incs = raws.map (Spec.incrBits d lo) := by
          apply eq_map_of_zip raws incs _ hl
          intro p hp'
          obtain ⟨hp1, hp2, hp3⟩ := hp p hp'
          cases hp1' : p.1 with
          | none => exact hp2.mp hp1'
          | some v =>
            obtain ⟨_, hv⟩ := hp3 v hp1'
            have := toBits_ofBits p.2
            rw [hp1, hv] at this
            simp only [Spec.incrBits]; exact this.symm
        rw [hbits, hincs, hmn']
        simp only [Spec.intColumnBitsWith, hmin, hz, if_false, List.flatMap_def]

end Bufr
