/-
  FRAME / LOCALITY lemmas for the readers and for the template walk.

  Part 1 (readers).  Every reader of `Basic/Bits.lean` and every column reader of
  `Coder/Decode.lean` satisfies `R.Trunc`: a successful read consumed a prefix `c` of its input,
  it returns the same value with ANY continuation after `c` (so what follows never influences the
  result), and on every proper prefix of `c` it fails with `Err.bitRead`.  `R.Frame`, `R.Prefix`,
  `R.Local` are corollaries.

  Part 2 (walk).  A `Shape` abstracts "what a successful run says about runs of the same function
  on states that differ in `bits` only"; `Good Sh f` is closed under everything the walk is made of,
  so ONE mutual structural induction (`good_walkList` / `good_walk1`) gives, by instantiating the
  shape: the frame lemma (`walkList_frame`), locality / consumed prefix / truncation
  (`walkList_trunc`), the generic two-run simulation (`simShape`) and the writer-side frame
  property of the encoder (`writerShape`).
-/
import BufrModel.Coder.Encode
namespace Bufr

/-! ## Part 1: readers -/

/-- `q` is a proper prefix of `c` -/
def PPrefix (q c : Bits) : Prop := ∃ z, z ≠ [] ∧ q ++ z = c

theorem PPrefix.length_lt {q c : Bits} (h : PPrefix q c) : q.length < c.length := by
  obtain ⟨z, hz, rfl⟩ := h
  have : 0 < z.length := List.length_pos_iff.mpr hz
  simp only [List.length_append]; omega

theorem pprefix_of_length_lt {q z c : Bits} (h : q ++ z = c) (hl : q.length < c.length) : PPrefix q c := by
  refine ⟨z, ?_, h⟩
  rintro rfl
  simp only [List.append_nil] at h
  subst h; omega

/-- a proper prefix of `c1 ++ c2` is a proper prefix of `c1` or `c1` followed by a proper prefix of `c2` -/
theorem PPrefix.append_cases {q c1 c2 : Bits} (h : PPrefix q (c1 ++ c2)) :
    PPrefix q c1 ∨ ∃ q2, q = c1 ++ q2 ∧ PPrefix q2 c2 := by
  obtain ⟨z, hz, h⟩ := h
  rcases List.append_eq_append_iff.mp h with ⟨as, h1, h2⟩ | ⟨bs, h1, h2⟩
  · -- c1 = q ++ as, z = as ++ c2
    by_cases has : as = []
    · subst has
      right
      refine ⟨[], by simpa using h1.symm, c2, ?_, rfl⟩
      rintro rfl; simp at h2; exact hz h2
    · left; exact ⟨as, has, h1.symm⟩
  · -- q = c1 ++ bs, c2 = bs ++ z
    right; exact ⟨bs, h1, z, hz, h2.symm⟩

/-- what follows the bits a successful read consumed is handed on untouched -/
def R.Frame {α : Type} (r : R α) : Prop :=
  ∀ bs a rest x, r bs = .ok (a, rest) → r (bs ++ x) = .ok (a, rest ++ x)

/-- a successful read consumed a prefix of its input and succeeds on that prefix alone -/
def R.Prefix {α : Type} (r : R α) : Prop :=
  ∀ bs a rest, r bs = .ok (a, rest) → ∃ c, bs = c ++ rest ∧ r c = .ok (a, [])

/-- consumed prefix + the result is the same whatever follows the consumed prefix -/
def R.Local {α : Type} (r : R α) : Prop :=
  ∀ bs a rest, r bs = .ok (a, rest) → ∃ c, bs = c ++ rest ∧ ∀ y, r (c ++ y) = .ok (a, y)

/-- `R.Local` + every proper prefix of the consumed part is a `BitReadError` -/
def R.Trunc {α : Type} (r : R α) : Prop :=
  ∀ bs a rest, r bs = .ok (a, rest) →
    ∃ c, bs = c ++ rest ∧ (∀ y, r (c ++ y) = .ok (a, y)) ∧ ∀ q, PPrefix q c → r q = .error .bitRead

theorem R.Trunc.local {α : Type} {r : R α} (h : R.Trunc r) : R.Local r := by
  intro bs a rest e
  obtain ⟨c, h1, h2, _⟩ := h bs a rest e
  exact ⟨c, h1, h2⟩

theorem R.Local.frame {α : Type} {r : R α} (h : R.Local r) : R.Frame r := by
  intro bs a rest x e
  obtain ⟨c, h1, h2⟩ := h bs a rest e
  subst h1
  rw [List.append_assoc]; exact h2 _

theorem R.Local.prefix {α : Type} {r : R α} (h : R.Local r) : R.Prefix r := by
  intro bs a rest e
  obtain ⟨c, h1, h2⟩ := h bs a rest e
  exact ⟨c, h1, by simpa using h2 []⟩

theorem R.Trunc.frame {α : Type} {r : R α} (h : R.Trunc r) : R.Frame r := h.local.frame
theorem R.Trunc.prefix {α : Type} {r : R α} (h : R.Trunc r) : R.Prefix r := h.local.prefix

/-- the converse packaging: `Frame` and `Prefix` together give `Local` -/
theorem R.local_of_frame_prefix {α : Type} {r : R α} (hf : R.Frame r) (hp : R.Prefix r) : R.Local r := by
  intro bs a rest e
  obtain ⟨c, h1, h2⟩ := hp bs a rest e
  exact ⟨c, h1, fun y => by simpa using hf c a [] y h2⟩

/-- `Frame` alone is closed under sequencing -/
theorem R.Frame.bind {α β : Type} {r : R α} {k : α → R β} (hr : R.Frame r) (hk : ∀ a, R.Frame (k a)) :
    R.Frame (fun bs => match r bs with
      | .error e => .error e
      | .ok (a, rest) => k a rest) := by
  intro bs b rest x e
  simp only at e
  cases h1 : r bs with
  | error err => rw [h1] at e; cases e
  | ok p =>
    obtain ⟨a, r1⟩ := p
    rw [h1] at e; simp only at e
    simp only [hr bs a r1 x h1]
    exact hk a r1 b rest x e

/-- sequencing (the `match … with | .error e => .error e | .ok (a, r) => k a r` idiom of the model) -/
theorem R.Trunc.bind {α β : Type} {r : R α} {k : α → R β} (hr : R.Trunc r) (hk : ∀ a, R.Trunc (k a)) :
    R.Trunc (fun bs => match r bs with
      | .error e => .error e
      | .ok (a, rest) => k a rest) := by
  intro bs b rest e
  simp only at e
  cases h1 : r bs with
  | error err => rw [h1] at e; cases e
  | ok p =>
    obtain ⟨a, r1⟩ := p
    rw [h1] at e; simp only at e
    obtain ⟨c1, e1, l1, t1⟩ := hr bs a r1 h1
    obtain ⟨c2, e2, l2, t2⟩ := hk a r1 b rest e
    refine ⟨c1 ++ c2, by rw [e1, e2, List.append_assoc], ?_, ?_⟩
    · intro y
      simp only [List.append_assoc, l1, l2]
    · intro q hq
      rcases hq.append_cases with hq1 | ⟨q2, rfl, hq2⟩
      · simp only [t1 q hq1]
      · simp only [l1, t2 q2 hq2]

/-- post-processing of the value, possibly failing, without touching the stream -/
theorem R.Trunc.mapM {α β : Type} {r : R α} (g : α → Except Err β) (hr : R.Trunc r) :
    R.Trunc (fun bs => match r bs with
      | .error e => .error e
      | .ok (a, rest) => match g a with
        | .error e => .error e
        | .ok b => .ok (b, rest)) := by
  refine R.Trunc.bind (k := fun a rest => match g a with
        | .error e => .error e
        | .ok b => .ok (b, rest)) hr ?_
  intro a bs b rest e
  simp only at e
  cases hg : g a with
  | error err => rw [hg] at e; cases e
  | ok b' =>
    rw [hg] at e; cases e
    refine ⟨[], rfl, fun y => by simp, ?_⟩
    intro q hq
    have := hq.length_lt
    simp at this

theorem R.Trunc.congr {α : Type} {r r' : R α} (h : ∀ bs, r bs = r' bs) (hr : R.Trunc r') : R.Trunc r := by
  have : r = r' := funext h
  rw [this]; exact hr

theorem R.Trunc.pure {α : Type} (a : α) : R.Trunc (fun bs => .ok (a, bs)) := by
  intro bs a' rest e
  cases e
  refine ⟨[], rfl, fun y => rfl, ?_⟩
  intro q hq
  have := hq.length_lt
  simp at this

theorem R.Trunc.fail {α : Type} (err : Err) : R.Trunc (fun _ => (.error err : Except Err (α × Bits))) := by
  intro bs a' rest e
  cases e

theorem readBits_trunc (n : Nat) : R.Trunc (readBits n) := by
  intro bs a rest e
  unfold readBits at e
  split at e
  · cases e
  · rename_i hlen
    cases e
    have hl : (bs.take n).length = n := by simp only [List.length_take]; omega
    refine ⟨bs.take n, (List.take_append_drop n bs).symm, ?_, ?_⟩
    · intro y
      unfold readBits
      have : ¬ (List.take n bs ++ y).length < n := by simp only [List.length_append]; omega
      rw [if_neg this, List.take_left' hl, List.drop_left' hl]
    · intro q hq
      have := hq.length_lt
      unfold readBits
      rw [if_pos (by omega)]

theorem readUInt_trunc (n : Nat) : R.Trunc (readUInt n) := by
  by_cases hn : n = 0
  · refine R.Trunc.congr (r' := fun _ => .error .other) (fun bs => by simp [readUInt, hn]) (R.Trunc.fail _)
  · refine R.Trunc.congr (fun bs => ?_)
      (R.Trunc.bind (k := fun x r => .ok (ofBits x, r)) (readBits_trunc n) (fun x => R.Trunc.pure _))
    simp only [readUInt, if_neg hn]
    cases readBits n bs <;> rfl

theorem readBool_trunc : R.Trunc readBool := by
  intro bs a rest e
  cases bs with
  | nil => cases e
  | cons b r =>
    cases e
    refine ⟨[a], rfl, fun y => rfl, ?_⟩
    intro q hq
    have := hq.length_lt
    cases q with
    | nil => rfl
    | cons _ _ => simp at this

/-- both sides are the same cascade of matches: split one, rewrite the other -/
macro "match_eq" : tactic => `(tactic| repeat (first | rfl | (split <;> try simp only [*])))

theorem R.Trunc.bind' {α β : Type} {r : R α} {k : α → R β} (hr : R.Trunc r) (hk : ∀ a, R.Trunc (k a)) :
    R.Trunc (R.bind r k) := R.Trunc.bind hr hk

theorem R.Trunc.ite {α : Type} {c : Prop} [Decidable c] {r r' : R α} (h : R.Trunc r) (h' : R.Trunc r') :
    R.Trunc (fun bs => if c then r bs else r' bs) := by
  by_cases hc : c
  · simp only [if_pos hc]; exact h
  · simp only [if_neg hc]; exact h'

theorem readInt_trunc (n : Nat) : R.Trunc (readInt n) := by
  by_cases hn : n = 0
  · refine R.Trunc.congr (r' := fun _ => .error .other) (fun bs => by simp [readInt, hn]) (R.Trunc.fail _)
  · refine R.Trunc.congr (fun bs => ?_)
      (R.Trunc.bind' (k := fun s => R.bind (readUInt (n - 1))
          fun m r' => .ok ((if s then -(Int.ofNat m) else Int.ofNat m), r'))
        readBool_trunc
        (fun s => R.Trunc.bind' (readUInt_trunc (n - 1)) (fun m => R.Trunc.pure _)))
    simp only [readInt, if_neg hn, R.bind]
    match_eq

theorem readBin_trunc (n : Nat) : R.Trunc (readBin n) := readBits_trunc n

theorem readBytes_trunc (k : Nat) : R.Trunc (readBytes k) := by
  refine R.Trunc.congr (fun bs => ?_)
    (R.Trunc.bind (k := fun x r => .ok (bitsToBytes x, r)) (readBits_trunc (8 * k)) (fun x => R.Trunc.pure _))
  simp only [readBytes]
  cases readBits (8 * k) bs <;> rfl

theorem readUIntOrNone_trunc (n : Nat) : R.Trunc (readUIntOrNone n) := by
  refine R.Trunc.congr (fun bs => ?_)
    (R.Trunc.mapM (fun v => if 64 < n then .error .other
        else if 1 < n ∧ v = 2 ^ n - 1 then .ok none else .ok (some v)) (readUInt_trunc n))
  simp only [readUIntOrNone]
  cases readUInt n bs with
  | error e => rfl
  | ok p =>
    obtain ⟨v, r⟩ := p
    simp only
    split
    · rfl
    · split <;> rfl

theorem readDiff_trunc (nd : Nat) : R.Trunc (readDiff nd) := by
  refine R.Trunc.congr (fun bs => ?_)
    (R.Trunc.bind (k := fun d r => .ok ((if d = some 1 ∧ nd = 1 then none else d), r))
      (readUIntOrNone_trunc nd) (fun d => R.Trunc.pure _))
  simp only [readDiff]
  cases readUIntOrNone nd bs <;> rfl

theorem readDiffs_trunc (nd m n : Nat) : R.Trunc (readDiffs nd m n) := by
  induction n with
  | zero => exact R.Trunc.congr (fun bs => by simp [readDiffs]) (R.Trunc.pure [])
  | succ n ih =>
    refine R.Trunc.congr (fun bs => ?_)
      (R.Trunc.bind' (k := fun d => R.bind (readDiffs nd m n) fun ds r' => .ok ((d.map (m + ·)) :: ds, r'))
        (readDiff_trunc nd)
        (fun d => R.Trunc.bind' ih (fun _ => R.Trunc.pure _)))
    simp only [readDiffs, R.bind]
    match_eq

theorem readColumn_trunc (w n : Nat) : R.Trunc (readColumn w n) := by
  refine R.Trunc.congr (fun bs => ?_)
    (R.Trunc.bind' (k := fun mn => R.bind (readUInt 6) fun nd r' =>
          match mn with
          | none => if nd ≠ 0 then .error .other else .ok (List.replicate n none, r')
          | some m => if nd = 0 then .ok (List.replicate n (some m), r') else readDiffs nd m n r')
      (readUIntOrNone_trunc w)
      (fun mn => R.Trunc.bind' (readUInt_trunc 6) (fun nd => ?_)))
  · simp only [readColumn, R.bind]
    match_eq
  · cases mn with
    | none => exact R.Trunc.ite (R.Trunc.fail _) (R.Trunc.pure _)
    | some m => exact R.Trunc.ite (R.Trunc.pure _) (readDiffs_trunc nd m n)

theorem readStrings_trunc (nd : Nat) (base : List UInt8) (n : Nat) : R.Trunc (readStrings nd base n) := by
  induction n with
  | zero => exact R.Trunc.congr (fun bs => by simp [readStrings]) (R.Trunc.pure [])
  | succ n ih =>
    refine R.Trunc.congr (fun bs => ?_)
      (R.Trunc.bind' (k := fun d => R.bind (readStrings nd base n) fun ds r' => .ok ((base ++ d) :: ds, r'))
        (readBytes_trunc nd)
        (fun d => R.Trunc.bind' ih (fun _ => R.Trunc.pure _)))
    simp only [readStrings, R.bind]
    match_eq

theorem readStringColumn_trunc (nbytes n : Nat) : R.Trunc (readStringColumn nbytes n) := by
  refine R.Trunc.congr (fun bs => ?_)
    (R.Trunc.bind' (k := fun mn => R.bind (readUInt 6) fun nd r' =>
          if nd = 0 then .ok (List.replicate n mn, r')
          else readStrings nd (if mn.all (· == 0) then [] else mn) n r')
      (readBytes_trunc nbytes)
      (fun mn => R.Trunc.bind' (readUInt_trunc 6)
        (fun nd => R.Trunc.ite (R.Trunc.pure _) (readStrings_trunc _ _ _))))
  simp only [readStringColumn, R.bind]
  match_eq

/-! the requested `Frame` facts, reader by reader -/
theorem readBits_frame (n : Nat) : R.Frame (readBits n) := (readBits_trunc n).frame
theorem readUInt_frame (n : Nat) : R.Frame (readUInt n) := (readUInt_trunc n).frame
theorem readBool_frame : R.Frame readBool := readBool_trunc.frame
theorem readInt_frame (n : Nat) : R.Frame (readInt n) := (readInt_trunc n).frame
theorem readBin_frame (n : Nat) : R.Frame (readBin n) := (readBin_trunc n).frame
theorem readBytes_frame (k : Nat) : R.Frame (readBytes k) := (readBytes_trunc k).frame
theorem readUIntOrNone_frame (n : Nat) : R.Frame (readUIntOrNone n) := (readUIntOrNone_trunc n).frame
theorem readDiff_frame (nd : Nat) : R.Frame (readDiff nd) := (readDiff_trunc nd).frame
theorem readDiffs_frame (nd m n : Nat) : R.Frame (readDiffs nd m n) := (readDiffs_trunc nd m n).frame
theorem readColumn_frame (w n : Nat) : R.Frame (readColumn w n) := (readColumn_trunc w n).frame
theorem readStrings_frame (nd : Nat) (b : List UInt8) (n : Nat) : R.Frame (readStrings nd b n) :=
  (readStrings_trunc nd b n).frame
theorem readStringColumn_frame (k n : Nat) : R.Frame (readStringColumn k n) := (readStringColumn_trunc k n).frame

/-! ## Part 2: the walk -/

def St.setBits (s : St) (b : Bits) : St := { s with bits := b }
/-- the same state with `x` appended to the unread bits -/
def St.app (s : St) (x : Bits) : St := { s with bits := s.bits ++ x }

@[simp] theorem St.setBits_regs (s : St) (b : Bits) : (s.setBits b).regs = s.regs := rfl
@[simp] theorem St.setBits_bits (s : St) (b : Bits) : (s.setBits b).bits = b := rfl
@[simp] theorem St.setBits_descs (s : St) (b : Bits) : (s.setBits b).descs = s.descs := rfl
@[simp] theorem St.setBits_vals (s : St) (b : Bits) : (s.setBits b).vals = s.vals := rfl
@[simp] theorem St.setBits_idx (s : St) (b : Bits) : (s.setBits b).idx = s.idx := rfl
@[simp] theorem St.setBits_links (s : St) (b : Bits) : (s.setBits b).links = s.links := rfl
@[simp] theorem St.setBits_setBits (s : St) (a b : Bits) : (s.setBits a).setBits b = s.setBits b := rfl
@[simp] theorem St.setBits_self (s : St) : s.setBits s.bits = s := rfl
theorem St.app_eq (s : St) (x : Bits) : s.app x = s.setBits (s.bits ++ x) := rfl
@[simp] theorem St.app_bits (s : St) (x : Bits) : (s.app x).bits = s.bits ++ x := rfl
@[simp] theorem St.app_nil (s : St) : s.app [] = s := by simp [St.app]

/-- the outcome of a run on other bits, as seen from a reference run that ended in `s'`:
    the error, or `s'` with other remaining bits -/
def lift (s' : St) (r : CM Bits) : CM St :=
  match r with
  | .error e => .error e
  | .ok b => .ok (s'.setBits b)

@[simp] theorem fr_lift_ok (s' : St) (b : Bits) : lift s' (.ok b) = .ok (s'.setBits b) := rfl
@[simp] theorem lift_error (s' : St) (e : Err) : lift s' (.error e) = .error e := rfl

/-- What a successful run from bits `b0` to bits `b1` tells about runs of the same function on
    other bits: `Φ b0 b1 K`, where `K b' r` stands for "started on bits `b'` (everything else
    equal) the function returns `r`" (`r` = the error, or the remaining bits with everything else as
    in the reference run).  `Φ` must hold for a step that does not touch the bits, compose along
    sequencing and be monotone in `K`. -/
structure Shape where
  Φ : Bits → Bits → (Bits → CM Bits → Prop) → Prop
  id : ∀ b, Φ b b (fun b' r => r = .ok b')
  comp : ∀ {b0 b1 b2 : Bits} {K1 K2 : Bits → CM Bits → Prop}, Φ b0 b1 K1 → Φ b1 b2 K2 →
    Φ b0 b2 (fun b' r => ∃ r1, K1 b' r1 ∧ match r1 with
      | .error e => r = .error e
      | .ok m => K2 m r)
  mono : ∀ {b0 b1 : Bits} {K K' : Bits → CM Bits → Prop}, (∀ b' r, K b' r → K' b' r) → Φ b0 b1 K → Φ b0 b1 K'

def Good (Sh : Shape) (f : St → CM St) : Prop :=
  ∀ s s', f s = .ok s' → Sh.Φ s.bits s'.bits (fun b' r => f (s.setBits b') = lift s' r)

/-- for the value-returning primitives (`factorValue`, `lastValues`) -/
def GoodV {α : Type} (Sh : Shape) (g : St → CM α) : Prop :=
  ∀ s a, g s = .ok a → Sh.Φ s.bits s.bits (fun b' r => r = .ok b' ∧ g (s.setBits b') = .ok a)

/-- a step that neither reads nor writes the bits -/
def Obl (h : St → CM St) : Prop :=
  ∀ s b, h (s.setBits b) = match h s with
    | .error e => .error e
    | .ok s' => .ok (s'.setBits b)

def OblV {α : Type} (g : St → CM α) : Prop := ∀ s b, g (s.setBits b) = g s

def kl (f g : St → CM St) : St → CM St := fun s =>
  match f s with
  | .error e => .error e
  | .ok s' => g s'

def klV {α : Type} (g : St → CM α) (k : α → St → CM St) : St → CM St := fun s =>
  match g s with
  | .error e => .error e
  | .ok a => k a s

section closure
variable {Sh : Shape}

theorem Good.congr {F G : St → CM St} (h : ∀ s, F s = G s) (hG : Good Sh G) : Good Sh F := by
  have : F = G := funext h
  rw [this]; exact hG

/-- case analysis on anything that does not depend on the bits -/
theorem Good.local {F : St → CM St}
    (h : ∀ s : St, ∃ f, Good Sh f ∧ ∀ b, F (s.setBits b) = f (s.setBits b)) : Good Sh F := by
  intro s s' e
  obtain ⟨f, hf, heq⟩ := h s
  have e0 : F s = f s := by simpa using heq s.bits
  have := hf s s' (by rw [← e0]; exact e)
  refine Sh.mono ?_ this
  intro b' r hK
  rw [heq b']; exact hK

theorem Good.obl {h : St → CM St} (hh : Obl h) : Good Sh h := by
  intro s s' e
  have hb : s'.bits = s.bits := by
    have := hh s s.bits
    simp only [St.setBits_self, e] at this
    have := congrArg (fun x => match x with | .ok t => t.bits | .error _ => []) this
    simpa using this
  rw [hb]
  refine Sh.mono ?_ (Sh.id s.bits)
  rintro b' r rfl
  rw [hh s b', e]; rfl

theorem Good.pure {h : St → St} (hh : ∀ (s : St) (b : Bits), h (s.setBits b) = (h s).setBits b) :
    Good Sh (fun s => .ok (h s)) :=
  Good.obl (fun s b => by simp only [hh])

theorem Good.error (e : Err) : Good Sh (fun _ => .error e) := Good.obl (fun _ _ => rfl)

theorem Good.kl {f g : St → CM St} (hf : Good Sh f) (hg : Good Sh g) : Good Sh (kl f g) := by
  intro s s' e
  simp only [Bufr.kl] at e
  cases h1 : f s with
  | error err => rw [h1] at e; cases e
  | ok s1 =>
    rw [h1] at e; simp only at e
    refine Sh.mono ?_ (Sh.comp (hf s s1 h1) (hg s1 s' e))
    rintro b' r ⟨r1, k1, k2⟩
    simp only [Bufr.kl, k1]
    cases r1 with
    | error err => simp only at k2; subst k2; rfl
    | ok m => simpa using k2

theorem Good.klV {α : Type} {g : St → CM α} {k : α → St → CM St} (hg : GoodV Sh g)
    (hk : ∀ a, Good Sh (k a)) : Good Sh (klV g k) := by
  intro s s' e
  simp only [Bufr.klV] at e
  cases h1 : g s with
  | error err => rw [h1] at e; cases e
  | ok a =>
    rw [h1] at e; simp only at e
    refine Sh.mono ?_ (Sh.comp (hg s a h1) (hk a s s' e))
    rintro b' r ⟨r1, ⟨rfl, k1⟩, k2⟩
    simp only [Bufr.klV, k1]
    simpa using k2

theorem GoodV.obl {α : Type} {g : St → CM α} (hg : OblV g) : GoodV Sh g := by
  intro s a e
  refine Sh.mono ?_ (Sh.id s.bits)
  rintro b' r rfl
  exact ⟨rfl, by rw [hg, e]⟩

theorem Good.ite_const {c : Prop} [Decidable c] {f g : St → CM St} (hf : c → Good Sh f) (hg : ¬ c → Good Sh g) :
    Good Sh (fun s => if c then f s else g s) := by
  by_cases hc : c
  · simp only [if_pos hc]; exact hf hc
  · simp only [if_neg hc]; exact hg hc

theorem Good.ite {c : St → Prop} [∀ s, Decidable (c s)] {f g : St → CM St}
    (hc : ∀ s b, c (s.setBits b) ↔ c s) (hf : Good Sh f) (hg : Good Sh g) :
    Good Sh (fun s => if c s then f s else g s) := by
  refine Good.local fun s => ?_
  by_cases h : c s
  · exact ⟨f, hf, fun b => by simp only [if_pos ((hc s b).mpr h)]⟩
  · exact ⟨g, hg, fun b => by simp only [if_neg (fun h' => h ((hc s b).mp h'))]⟩

theorem Good.iterN {f : St → CM St} (hf : Good Sh f) (n : Nat) : Good Sh (iterN n f) := by
  induction n with
  | zero => exact Good.congr (G := fun s => .ok s) (fun s => by simp [Bufr.iterN]) (Good.pure (h := fun s => s) (fun _ _ => rfl))
  | succ n ih =>
    exact Good.congr (fun s => by simp only [Bufr.iterN, Bufr.kl]; match_eq) (Good.kl hf ih)

end closure


/-- every primitive is `Good` -/
structure Prims.Good (Sh : Shape) (P : Prims) : Prop where
  numeric : ∀ dd a b c, Bufr.Good Sh (P.numeric dd a b c)
  string : ∀ dd n, Bufr.Good Sh (P.string dd n)
  codeflag : ∀ dd n, Bufr.Good Sh (P.codeflag dd n)
  newRefval : ∀ e n, Bufr.Good Sh (P.newRefval e n)
  constant : ∀ dd v, Bufr.Good Sh (P.constant dd v)
  factorValue : GoodV Sh P.factorValue
  lastValues : ∀ n, GoodV Sh (P.lastValues n)

section walk
variable {Sh : Shape} {P : Prims} (hP : P.Good Sh)
include hP

theorem good_associatedField (id : Nat) : Good Sh (associatedField P id) :=
  Good.local fun s => ⟨_, hP.codeflag (.assoc id s.regs.assocStack.sum) s.regs.assocStack.sum, fun _ => rfl⟩

omit hP in
theorem obl_buildBitmapped (bitmap : List Val) : Obl (fun s => buildBitmapped s bitmap) := by
  intro s b
  have key : ∀ (br : List (Nat × Elem)),
      (if br.length ≠ bitmap.length then (.error .lib : CM St)
        else
          let sel := ((bitmap.zip br).filter (fun p => p.1 == Val.int 0)).map (·.2)
          .ok ((s.setBits b).setRegs fun r => { r with backRefs := some br, bitmapped := some sel, bmIter := some sel })) =
      match (if br.length ≠ bitmap.length then (.error .lib : CM St)
        else
          let sel := ((bitmap.zip br).filter (fun p => p.1 == Val.int 0)).map (·.2)
          .ok (s.setRegs fun r => { r with backRefs := some br, bitmapped := some sel, bmIter := some sel })) with
      | .error e => .error e
      | .ok s' => .ok (s'.setBits b) := by
    intro br
    split <;> rfl
  exact key _

theorem good_bitmapDefinition (id : Nat) : Good Sh (bitmapDefinition P id) := by
  refine Good.local fun s => ?_
  cases hb : s.regs.bitmapDef with
  | na => exact ⟨_, Good.pure (h := fun s => s) (fun _ _ => rfl), fun b => by simp only [bitmapDefinition, St.setBits_regs, hb]⟩
  | indicator =>
    by_cases h : id = 237000
    · exact ⟨_, Good.pure (h := fun s => s.setRegs fun r => { r with bitmapDef := .na }) (fun _ _ => rfl),
        fun b => by simp only [bitmapDefinition, St.setBits_regs, hb, if_pos h]⟩
    · exact ⟨_, Good.pure (h := fun s => s.setRegs fun r => { r with bitmapDef := .waiting, n031031 := 0 }) (fun _ _ => rfl),
        fun b => by simp only [bitmapDefinition, St.setBits_regs, hb, if_neg h]⟩
  | waiting =>
    by_cases h : id = 31031
    · exact ⟨_, Good.pure (h := fun s => s.setRegs fun r => { r with bitmapDef := .counting, n031031 := r.n031031 + 1 }) (fun _ _ => rfl),
        fun b => by simp only [bitmapDefinition, St.setBits_regs, hb, if_pos h]⟩
    · exact ⟨_, Good.pure (h := fun s => s) (fun _ _ => rfl),
        fun b => by simp only [bitmapDefinition, St.setBits_regs, hb, if_neg h]⟩
  | counting =>
    by_cases h : id = 31031
    · exact ⟨_, Good.pure (h := fun s => s.setRegs fun r => { r with n031031 := r.n031031 + 1 }) (fun _ _ => rfl),
        fun b => by simp only [bitmapDefinition, St.setBits_regs, hb, if_pos h]⟩
    · refine ⟨klV (P.lastValues s.regs.n031031) (fun bitmap => kl (fun s => buildBitmapped s bitmap)
          (fun s' => .ok (s'.setRegs fun r => { r with bitmapDef := .na }))), ?_, fun b => ?_⟩
      · exact Good.klV (hP.lastValues _) (fun bitmap => Good.kl (Good.obl (obl_buildBitmapped bitmap))
          (Good.pure (h := fun s' => s'.setRegs fun r => { r with bitmapDef := .na }) (fun _ _ => rfl)))
      · simp only [bitmapDefinition, St.setBits_regs, hb, if_neg h, klV, kl, bind, Except.bind, Pure.pure, Except.pure]
        match_eq

omit hP in
theorem nextBitmapped_setBits (s : St) (b : Bits) :
    nextBitmapped (s.setBits b) = match nextBitmapped s with
      | .error e => .error e
      | .ok (x, s') => .ok (x, s'.setBits b) := by
  unfold nextBitmapped
  simp only [St.setBits_regs]
  split <;> rfl

/-- first stage of `elementDescriptor`: the associated field -/
def edA (P : Prims) (e : Elem) : St → CM St := fun s =>
  if s.regs.assocStack ≠ [] ∧ xOf e.id ≠ 31 then associatedField P e.id s else .ok s

/-- second stage: the QA-information status machine (no primitive involved) -/
def edB (e : Elem) : St → CM St := fun s =>
    (if xOf e.id = 33 then
      let s1 := if s.regs.qa = .waiting then s.setRegs fun r => { r with qa := .processing } else s
      if s1.regs.qa = .processing then do
        let ((owner, _), s2) ← nextBitmapped s1
        pure (addLink s2 owner)
      else pure s1
    else
      pure (if s.regs.qa = .processing then s.setRegs fun r => { r with qa := .na } else s) : CM St)

/-- third stage: the primitive for the unit kind -/
def edC (P : Prims) (dd : DDesc) (e : Elem) : St → CM St := fun s =>
  match e.kind with
  | .string =>
    let nbytes := if s.regs.newNbytes ≠ 0 then s.regs.newNbytes else e.nbits / 8
    P.string dd nbytes s
  | .codeflag => P.codeflag dd e.nbits s
  | .numeric =>
    let nbits : Int := (e.nbits : Int) + s.regs.nbitsOffset + s.regs.nbitsInc
    let scale : Int := e.scale + s.regs.scaleOffset + s.regs.scaleInc
    match lookupRef s.regs.newRefvals e.id with
    | none => P.numeric dd nbits scale (e.ref * s.regs.refFactor) s
    | some nr => P.numeric dd nbits scale (nr * s.regs.refFactor) s

omit hP in
theorem bind_eq_kl (f g : St → CM St) (s : St) : (f s >>= g) = kl f g s := by
  unfold kl; cases f s <;> rfl

omit hP in
theorem elementDescriptor_eq (dd : DDesc) (e : Elem) (s : St) :
    elementDescriptor P dd e s = kl (edA P e) (kl (edB e) (edC P dd e)) s := by
  have : elementDescriptor P dd e s = (edA P e s >>= fun s => edB e s >>= fun s => edC P dd e s) := rfl
  rw [this, bind_eq_kl]
  congr 1
  funext s
  exact bind_eq_kl _ _ _

omit hP in
theorem Obl.pure {h : St → St} (hh : ∀ (s : St) (b : Bits), h (s.setBits b) = (h s).setBits b) :
    Obl (fun s => .ok (h s)) := fun s b => by simp only [hh]

omit hP in
theorem Obl.ite {c : St → Prop} [∀ s, Decidable (c s)] {f g : St → CM St}
    (hc : ∀ (s : St) (b : Bits), c (s.setBits b) ↔ c s) (hf : Obl f) (hg : Obl g) :
    Obl (fun s => if c s then f s else g s) := by
  intro s b
  by_cases h : c s
  · simp only [if_pos h, if_pos ((hc s b).mpr h)]; exact hf s b
  · simp only [if_neg h, if_neg (fun h' => h ((hc s b).mp h'))]; exact hg s b

omit hP in
theorem Obl.ite_const {c : Prop} [Decidable c] {f g : St → CM St} (hf : Obl f) (hg : Obl g) :
    Obl (fun s => if c then f s else g s) := by
  by_cases h : c
  · simp only [if_pos h]; exact hf
  · simp only [if_neg h]; exact hg

omit hP in
theorem Obl.comp_pure {q : St → St} {f : St → CM St}
    (hq : ∀ (s : St) (b : Bits), q (s.setBits b) = (q s).setBits b) (hf : Obl f) :
    Obl (fun s => f (q s)) := by
  intro s b
  simp only [hq]; exact hf (q s) b

/-- `nextBitmapped`, then record the link -/
def qaLink : St → CM St := fun s1 => do
  let ((owner, _), s2) ← nextBitmapped s1
  pure (addLink s2 owner)

def qaStart (s : St) : St := if s.regs.qa = .waiting then s.setRegs fun r => { r with qa := .processing } else s
def qaStop (s : St) : St := if s.regs.qa = .processing then s.setRegs fun r => { r with qa := .na } else s

omit hP in
theorem edB_eq (e : Elem) : edB e = fun s =>
    if xOf e.id = 33 then (fun s1 => if s1.regs.qa = .processing then qaLink s1 else .ok s1) (qaStart s)
    else .ok (qaStop s) := rfl

omit hP in
theorem obl_edB (e : Elem) : Obl (edB e) := by
  have hq1 : ∀ (s : St) (b : Bits), qaStart (s.setBits b) = (qaStart s).setBits b := by
    intro s b; unfold qaStart; rw [apply_ite (fun t : St => t.setBits b)]; rfl
  have hq2 : ∀ (s : St) (b : Bits), qaStop (s.setBits b) = (qaStop s).setBits b := by
    intro s b; unfold qaStop; rw [apply_ite (fun t : St => t.setBits b)]; rfl
  have hW : Obl qaLink := by
    intro s b
    simp only [qaLink, nextBitmapped_setBits, bind, Except.bind]
    cases nextBitmapped s <;> rfl
  rw [edB_eq]
  exact Obl.ite_const
    (Obl.comp_pure (f := fun s1 => if s1.regs.qa = .processing then qaLink s1 else .ok s1) hq1
      (Obl.ite (fun _ _ => Iff.rfl) hW (Obl.pure (h := fun s => s) (fun _ _ => rfl))))
    (Obl.pure hq2)

theorem good_edA (e : Elem) : Good Sh (edA P e) :=
  Good.ite (fun _ _ => Iff.rfl) (good_associatedField hP e.id) (Good.pure (h := fun s => s) (fun _ _ => rfl))

theorem good_edC (dd : DDesc) (e : Elem) : Good Sh (edC P dd e) := by
  refine Good.local fun s => ?_
  cases hk : e.kind with
  | string =>
    exact ⟨_, hP.string dd (if s.regs.newNbytes ≠ 0 then s.regs.newNbytes else e.nbits / 8),
      fun b => by simp only [edC, hk, St.setBits_regs]; rfl⟩
  | codeflag => exact ⟨_, hP.codeflag dd e.nbits, fun b => by simp only [edC, hk]⟩
  | numeric =>
    cases hl : lookupRef s.regs.newRefvals e.id with
    | none =>
      exact ⟨_, hP.numeric dd ((e.nbits : Int) + s.regs.nbitsOffset + s.regs.nbitsInc)
          (e.scale + s.regs.scaleOffset + s.regs.scaleInc) (e.ref * s.regs.refFactor),
        fun b => by simp only [edC, hk, St.setBits_regs, hl]⟩
    | some nr =>
      exact ⟨_, hP.numeric dd ((e.nbits : Int) + s.regs.nbitsOffset + s.regs.nbitsInc)
          (e.scale + s.regs.scaleOffset + s.regs.scaleInc) (nr * s.regs.refFactor),
        fun b => by simp only [edC, hk, St.setBits_regs, hl]⟩

theorem good_elementDescriptor (dd : DDesc) (e : Elem) : Good Sh (elementDescriptor P dd e) :=
  Good.congr (elementDescriptor_eq dd e)
    (Good.kl (good_edA hP e) (Good.kl (Good.obl (obl_edB e)) (good_edC hP dd e)))

theorem good_bitmappedDescriptor (opId : Nat) : Good Sh (bitmappedDescriptor P opId) := by
  refine Good.local fun s => ?_
  cases hn : nextBitmapped s with
  | error err =>
    exact ⟨_, Good.error err, fun b => by
      simp only [bitmappedDescriptor, nextBitmapped_setBits, hn, bind, Except.bind]⟩
  | ok p =>
    obtain ⟨⟨owner, be⟩, s1⟩ := p
    refine ⟨kl (fun s => match nextBitmapped s with
        | .error err => .error err
        | .ok (_, s1) => .ok (addLink s1 owner))
      (elementDescriptor P
        (.marker opId (if opId = 225255 then { be with ref := -((2 : Int) ^ be.nbits), nbits := be.nbits + 1 } else be))
        (if opId = 225255 then { be with ref := -((2 : Int) ^ be.nbits), nbits := be.nbits + 1 } else be)),
      Good.kl (Good.obl ?_) (good_elementDescriptor hP _ _), fun b => ?_⟩
    · intro s b
      simp only [nextBitmapped_setBits]
      cases nextBitmapped s <;> rfl
    · simp only [bitmappedDescriptor, kl, nextBitmapped_setBits, hn, bind, Except.bind]

theorem good_operatorDescriptor (id : Nat) : Good Sh (operatorDescriptor P id) := by
  show Good Sh (fun s => operatorDescriptor P id s)
  simp only [operatorDescriptor]
  repeat' first
    | exact Good.pure (fun _ _ => rfl)
    | exact Good.error _
    | exact hP.string _ _
    | exact hP.constant _ _
    | refine Good.ite_const (fun _ => ?_) (fun _ => ?_)
    | refine Good.ite (fun _ _ => Iff.rfl) ?_ ?_
  · -- 22X000 / 232000
    refine Good.congr
      (G := kl (fun s => .ok (s.setRegs fun r => { r with bitmapDef := .indicator, backBoundary := s.descs.length }))
        (kl (P.constant (.oper id) 0)
          (fun s2 => .ok (if id / 1000 = 222 then s2.setRegs fun r => { r with qa := .waiting } else s2))))
      (fun s => ?_) ?_
    · simp only [kl, bind, Except.bind, pure, Except.pure]
      match_eq
    · refine Good.kl (Good.pure (fun _ _ => rfl)) (Good.kl (hP.constant _ _) (Good.pure (fun s b => ?_)))
      rw [apply_ite (fun t : St => t.setBits b)]; rfl
  · -- 22XYYY / 232YYY: a marker descriptor
    exact Good.congr (fun s => bind_eq_kl (fun s => if s.regs.assocStack ≠ [] then associatedField P id s else .ok s)
        (bitmappedDescriptor P id) s)
      (Good.kl (Good.ite (c := fun s => s.regs.assocStack ≠ []) (fun _ _ => Iff.rfl) (good_associatedField hP id)
          (Good.pure (h := fun s => s) (fun _ _ => rfl)))
        (good_bitmappedDescriptor hP id))
  · -- 237000
    refine Good.local fun s => ?_
    cases hb : s.regs.bitmapped with
    | none => exact ⟨_, Good.error .other, fun b => by simp only [St.setBits_regs, hb]⟩
    | some l =>
      exact ⟨kl (fun s => .ok (s.setRegs fun r => { r with bmIter := some l })) (P.constant (.oper id) 0),
        Good.kl (Good.pure (fun _ _ => rfl)) (hP.constant _ _),
        fun b => by simp only [St.setBits_regs, hb, kl]⟩

end walk

/-! ### `walk1` in pieces -/

def dnpStep (s0 : St) : St :=
  if s0.regs.dnpCount ≠ 0 then s0.setRegs fun r => { r with dnpCount := s0.regs.dnpCount - 1 } else s0

def skipTest (d : Desc) (s0 : St) : Bool :=
  s0.regs.dnpCount ≠ 0 && (match d with
    | .elem e => !((1 ≤ xOf e.id && xOf e.id ≤ 9) || xOf e.id == 31)
    | _ => false)

def dispatch (P : Prims) (d : Desc) : St → CM St := fun s =>
  match d with
  | .elem e => elementDescriptor P (.plain e) e s
  | .fixedRep id ms => iterN (yOf id) (walkList P ms) s
  | .delayedRep _ f ms =>
    match f with
    | .elem fe =>
      match elementDescriptor P (.plain fe) fe s with
      | .error e => .error e
      | .ok s1 =>
        match P.factorValue s1 >>= factorCount with
        | .error e => .error e
        | .ok n => iterN n (walkList P ms) s1
    | _ => .error .unknownDescr
  | .op id => operatorDescriptor P id s
  | .seq _ ms => walkList P ms s
  | .undefElem _ => .error .unknownDescr
  | .undefSeq _ => .error .unknownDescr

def newRefSel (d : Desc) (s : St) : Option Elem :=
  if s.regs.nbitsNewRefval ≠ 0 then (match d with | .elem e => some e | _ => none) else none

def walkRest (P : Prims) (d : Desc) : St → CM St := fun s =>
  match newRefSel d s with
  | some e =>
    if e.kind = .string then .error .lib
    else P.newRefval e s.regs.nbitsNewRefval s
  | none =>
    if s.regs.nbitsSkipped ≠ 0 then do
      let n := s.regs.nbitsSkipped
      let s' ← P.codeflag (.skipped d.id n) n s
      pure (s'.setRegs fun r => { r with nbitsSkipped := 0 })
    else
      match bitmapDefinition P d.id s with
      | .error e => .error e
      | .ok s => dispatch P d s

theorem fr_walk1_eq (P : Prims) (d : Desc) (s0 : St) :
    walk1 P d s0 = if skipTest d s0 then .ok (dnpStep s0) else walkRest P d (dnpStep s0) := by
  cases d <;> rw [walk1] <;> first | rfl | (intro e h; cases h)

@[simp] theorem newRefSel_setBits (d : Desc) (s : St) (b : Bits) : newRefSel d (s.setBits b) = newRefSel d s := rfl

theorem dnpStep_setBits (s : St) (b : Bits) : dnpStep (s.setBits b) = (dnpStep s).setBits b := by
  unfold dnpStep; rw [apply_ite (fun t : St => t.setBits b)]; rfl

theorem good_walkRest {Sh : Shape} {P : Prims} (hP : P.Good Sh) (d : Desc) (hd : Good Sh (dispatch P d)) :
    Good Sh (walkRest P d) := by
  refine Good.local fun s => ?_
  cases hsel : newRefSel d s with
  | some e =>
    by_cases hk : e.kind = .string
    · exact ⟨_, Good.error .lib, fun b => by simp only [walkRest, newRefSel_setBits, hsel, if_pos hk]⟩
    · exact ⟨_, hP.newRefval e s.regs.nbitsNewRefval,
        fun b => by simp only [walkRest, newRefSel_setBits, hsel, if_neg hk, St.setBits_regs]⟩
  | none =>
    by_cases hn : s.regs.nbitsSkipped = 0
    · refine ⟨kl (bitmapDefinition P d.id) (dispatch P d), Good.kl (good_bitmapDefinition hP d.id) hd, fun b => ?_⟩
      simp only [walkRest, newRefSel_setBits, hsel, St.setBits_regs, hn, ne_eq, not_true_eq_false, if_false, kl]
      match_eq
    · refine ⟨kl (P.codeflag (.skipped d.id s.regs.nbitsSkipped) s.regs.nbitsSkipped)
          (fun s' => .ok (s'.setRegs fun r => { r with nbitsSkipped := 0 })),
        Good.kl (hP.codeflag _ _) (Good.pure (fun _ _ => rfl)), fun b => ?_⟩
      simp only [walkRest, newRefSel_setBits, hsel, St.setBits_regs, hn, ne_eq, not_false_eq_true, if_true, kl, bind,
        Except.bind, pure, Except.pure]
      match_eq

theorem good_walk1_of {Sh : Shape} {P : Prims} (hP : P.Good Sh) (d : Desc) (hd : Good Sh (dispatch P d)) :
    Good Sh (walk1 P d) := by
  refine Good.congr (fr_walk1_eq P d) ?_
  refine Good.ite (c := fun s0 => skipTest d s0 = true) (fun _ _ => Iff.rfl) (Good.pure dnpStep_setBits) ?_
  exact Good.congr (G := kl (fun s => .ok (dnpStep s)) (walkRest P d)) (fun s => rfl)
    (Good.kl (Good.pure dnpStep_setBits) (good_walkRest hP d hd))

/-- `P.factorValue s >>= factorCount` -/
theorem goodV_factor {Sh : Shape} {P : Prims} (hP : P.Good Sh) :
    GoodV Sh (fun s => P.factorValue s >>= factorCount) := by
  intro s n e
  cases hv : P.factorValue s with
  | error err => simp only [hv, bind, Except.bind] at e; cases e
  | ok v =>
    simp only [hv, bind, Except.bind] at e
    refine Sh.mono ?_ (hP.factorValue s v hv)
    rintro b' r ⟨rfl, h2⟩
    exact ⟨rfl, by simp only [h2, bind, Except.bind, e]⟩

mutual
/-- THE generic walk lemma: whatever `Shape` the primitives respect, the whole walk respects -/
theorem good_walkList {Sh : Shape} {P : Prims} (hP : P.Good Sh) : (t : List Desc) → Good Sh (walkList P t)
  | [] => Good.congr (fun s => by rw [walkList]) (Good.pure (h := fun s => s) (fun _ _ => rfl))
  | d :: ds =>
    Good.congr (G := kl (walk1 P d) (walkList P ds)) (fun s => by rw [walkList]; rfl)
      (Good.kl (good_walk1_of hP d (good_dispatch hP d)) (good_walkList hP ds))

theorem good_dispatch {Sh : Shape} {P : Prims} (hP : P.Good Sh) : (d : Desc) → Good Sh (dispatch P d)
  | .elem e => good_elementDescriptor hP (.plain e) e
  | .fixedRep id ms => Good.iterN (good_walkList hP ms) (yOf id)
  | .delayedRep _ f ms => by
    cases f with
    | elem fe =>
      exact Good.congr
        (G := kl (elementDescriptor P (.plain fe) fe)
          (klV (fun s => P.factorValue s >>= factorCount) (fun n => iterN n (walkList P ms))))
        (fun s => by simp only [dispatch, kl, klV]; match_eq)
        (Good.kl (good_elementDescriptor hP _ _)
          (Good.klV (goodV_factor hP) (fun n => Good.iterN (good_walkList hP ms) n)))
    | _ => exact Good.error .unknownDescr
  | .op id => good_operatorDescriptor hP id
  | .seq _ ms => good_walkList hP ms
  | .undefElem _ => Good.error .unknownDescr
  | .undefSeq _ => Good.error .unknownDescr
end

theorem good_walk1 {Sh : Shape} {P : Prims} (hP : P.Good Sh) (d : Desc) : Good Sh (walk1 P d) :=
  good_walk1_of hP d (good_dispatch hP d)


/-! ### the shapes -/

/-- two-run simulation: bits related by `B` before are related by `B` after, everything else equal -/
def simShape (B : Bits → Bits → Prop) : Shape where
  Φ b0 b1 K := ∀ b', B b0 b' → ∃ b'', K b' (.ok b'') ∧ B b1 b''
  id _ := fun b' h => ⟨b', rfl, h⟩
  comp h1 h2 := fun b' h =>
    let ⟨m, k1, hm⟩ := h1 b' h
    let ⟨b'', k2, hb⟩ := h2 m hm
    ⟨b'', ⟨.ok m, k1, k2⟩, hb⟩
  mono hK h := fun b' hb =>
    let ⟨b'', k, h'⟩ := h b' hb
    ⟨b'', hK _ _ k, h'⟩

/-- framing: `x` appended to the input is appended to what is left -/
def frameShape (x : Bits) : Shape := simShape (fun b b' => b' = b ++ x)

/-- locality + truncation: a consumed prefix `c`; any continuation after `c` is handed on; any proper
    prefix of `c` is a `BitReadError` -/
def truncShape : Shape where
  Φ b0 b1 K := ∃ c, b0 = c ++ b1 ∧ (∀ y, K (c ++ y) (.ok y)) ∧ ∀ q, PPrefix q c → K q (.error .bitRead)
  id b := ⟨[], rfl, fun _ => rfl, fun q hq => by have := hq.length_lt; simp at this⟩
  comp := by
    rintro b0 b1 b2 K1 K2 ⟨c1, e1, l1, t1⟩ ⟨c2, e2, l2, t2⟩
    refine ⟨c1 ++ c2, by rw [e1, e2, List.append_assoc], fun y => ?_, fun q hq => ?_⟩
    · exact ⟨.ok (c2 ++ y), by rw [List.append_assoc]; exact l1 _, l2 y⟩
    · rcases hq.append_cases with hq1 | ⟨q2, rfl, hq2⟩
      · exact ⟨.error .bitRead, t1 q hq1, rfl⟩
      · exact ⟨.ok q2, l1 q2, t2 q2 hq2⟩
  mono := by
    rintro b0 b1 K K' hK ⟨c, e, l, t⟩
    exact ⟨c, e, fun y => hK _ _ (l y), fun q hq => hK _ _ (t q hq)⟩

/-- the writer side (encoder: `bits` = what was written, most recent first): a run only conses a
    block `w` in front of whatever was there -/
def writerShape : Shape where
  Φ b0 b1 K := ∃ w, b1 = w ++ b0 ∧ ∀ b, K b (.ok (w ++ b))
  id b := ⟨[], rfl, fun _ => rfl⟩
  comp := by
    rintro b0 b1 b2 K1 K2 ⟨w1, e1, l1⟩ ⟨w2, e2, l2⟩
    refine ⟨w2 ++ w1, by rw [e2, e1, List.append_assoc], fun b => ?_⟩
    exact ⟨.ok (w1 ++ b), l1 b, by rw [List.append_assoc]; exact l2 _⟩
  mono := by
    rintro b0 b1 K K' hK ⟨w, e, l⟩
    exact ⟨w, e, fun b => hK _ _ (l b)⟩

/-- `truncShape` is the strongest reader-side shape: it implies framing -/
theorem Good.frame_of_trunc {f : St → CM St} (h : Good truncShape f) (x : Bits) : Good (frameShape x) f := by
  intro s s' e b' hb'
  obtain ⟨c, e1, l, _⟩ := h s s' e
  subst hb'
  refine ⟨s'.bits ++ x, ?_, rfl⟩
  have := l (s'.bits ++ x)
  rw [e1, List.append_assoc]; exact this

theorem GoodV.frame_of_trunc {α : Type} {g : St → CM α} (h : GoodV truncShape g) (x : Bits) :
    GoodV (frameShape x) g := by
  intro s a e b' hb'
  obtain ⟨c, e1, l, _⟩ := h s a e
  subst hb'
  have hc : c = [] := by
    have := congrArg List.length e1
    simp only [List.length_append] at this
    exact List.eq_nil_of_length_eq_zero (by omega)
  subst hc
  exact ⟨s.bits ++ x, by simpa using l (s.bits ++ x), rfl⟩

theorem Prims.Good.frame_of_trunc {P : Prims} (h : P.Good truncShape) (x : Bits) : P.Good (frameShape x) where
  numeric dd a b c := (h.numeric dd a b c).frame_of_trunc x
  string dd n := (h.string dd n).frame_of_trunc x
  codeflag dd n := (h.codeflag dd n).frame_of_trunc x
  newRefval e n := (h.newRefval e n).frame_of_trunc x
  constant dd v := (h.constant dd v).frame_of_trunc x
  factorValue := h.factorValue.frame_of_trunc x
  lastValues n := (h.lastValues n).frame_of_trunc x

/-! ### the frame property, literally -/

/-- every primitive commutes with appending to the unread bits (on success); the two
    value-returning primitives do not look at the bits -/
structure Prims.Frame (P : Prims) : Prop where
  numeric : ∀ dd a b c s s' x, P.numeric dd a b c s = .ok s' → P.numeric dd a b c (s.app x) = .ok (s'.app x)
  string : ∀ dd n s s' x, P.string dd n s = .ok s' → P.string dd n (s.app x) = .ok (s'.app x)
  codeflag : ∀ dd n s s' x, P.codeflag dd n s = .ok s' → P.codeflag dd n (s.app x) = .ok (s'.app x)
  newRefval : ∀ e n s s' x, P.newRefval e n s = .ok s' → P.newRefval e n (s.app x) = .ok (s'.app x)
  constant : ∀ dd v s s' x, P.constant dd v s = .ok s' → P.constant dd v (s.app x) = .ok (s'.app x)
  factorValue : ∀ s x, P.factorValue (s.app x) = P.factorValue s
  lastValues : ∀ n s x, P.lastValues n (s.app x) = P.lastValues n s

theorem good_frame_iff {f : St → CM St} {x : Bits} :
    Good (frameShape x) f ↔ ∀ s s', f s = .ok s' → f (s.app x) = .ok (s'.app x) := by
  constructor
  · intro h s s' e
    obtain ⟨b'', k, rfl⟩ := h s s' e (s.bits ++ x) rfl
    exact k
  · intro h s s' e b' hb
    subst hb
    exact ⟨s'.bits ++ x, h s s' e, rfl⟩

theorem goodV_frame_of {α : Type} {g : St → CM α} {x : Bits} (h : ∀ s, g (s.app x) = g s) :
    GoodV (frameShape x) g := by
  intro s a e b' hb
  subst hb
  exact ⟨s.bits ++ x, ⟨rfl, by rw [← e]; exact h s⟩, rfl⟩

theorem Prims.Frame.good {P : Prims} (h : P.Frame) (x : Bits) : P.Good (frameShape x) where
  numeric dd a b c := good_frame_iff.mpr fun s s' => h.numeric dd a b c s s' x
  string dd n := good_frame_iff.mpr fun s s' => h.string dd n s s' x
  codeflag dd n := good_frame_iff.mpr fun s s' => h.codeflag dd n s s' x
  newRefval e n := good_frame_iff.mpr fun s s' => h.newRefval e n s s' x
  constant dd v := good_frame_iff.mpr fun s s' => h.constant dd v s s' x
  factorValue := goodV_frame_of fun s => h.factorValue s x
  lastValues n := goodV_frame_of fun s => h.lastValues n s x

/-- THE WALK FRAME LEMMA, generic in the primitives -/
theorem walkList_frame {P : Prims} (hP : P.Frame) (t : List Desc) (s s' : St) (x : Bits)
    (h : walkList P t s = .ok s') : walkList P t (s.app x) = .ok (s'.app x) :=
  good_frame_iff.mp (good_walkList (hP.good x) t) s s' h

theorem walk1_frame {P : Prims} (hP : P.Frame) (d : Desc) (s s' : St) (x : Bits)
    (h : walk1 P d s = .ok s') : walk1 P d (s.app x) = .ok (s'.app x) :=
  good_frame_iff.mp (good_walk1 (hP.good x) d) s s' h

theorem iterN_frame {f : St → CM St} (hf : ∀ s s' x, f s = .ok s' → f (s.app x) = .ok (s'.app x))
    (n : Nat) (s s' : St) (x : Bits) (h : iterN n f s = .ok s') : iterN n f (s.app x) = .ok (s'.app x) :=
  good_frame_iff.mp (Good.iterN (good_frame_iff.mpr fun s s' => hf s s' x) n) s s' h

/-- the walk reads a prefix `c` of the bits, hands on whatever follows `c` untouched, does the same
    on ANY continuation of `c`, and fails with `BitReadError` on every proper prefix of `c` -/
theorem walkList_trunc {P : Prims} (hP : P.Good truncShape) (t : List Desc) (s s' : St)
    (h : walkList P t s = .ok s') :
    ∃ c, s.bits = c ++ s'.bits ∧ (∀ y, walkList P t (s.setBits (c ++ y)) = .ok (s'.setBits y)) ∧
      ∀ q, PPrefix q c → walkList P t (s.setBits q) = .error .bitRead :=
  good_walkList hP t s s' h

/-- consumed length: a successful run never looks beyond what it consumed -/
theorem walkList_consumed {P : Prims} (hP : P.Good truncShape) (t : List Desc) (s s' : St)
    (h : walkList P t s = .ok s') :
    ∃ c, s.bits = c ++ s'.bits ∧ walkList P t { s with bits := c } = .ok { s' with bits := [] } := by
  obtain ⟨c, e, l, _⟩ := walkList_trunc hP t s s' h
  refine ⟨c, e, ?_⟩
  have := l []
  rw [List.append_nil] at this
  exact this

/-! ### the decoder's primitives -/

/-- read with `r`, continue with `k` -/
def klR {α : Type} (r : R α) (k : α → St → CM St) : St → CM St := fun s =>
  match s.read r with
  | .error e => .error e
  | .ok (a, s1) => k a s1

theorem St.read_setBits {α : Type} (s : St) (r : R α) (b : Bits) :
    (s.setBits b).read r = match r b with
      | .error e => .error e
      | .ok (a, rest) => .ok (a, s.setBits rest) := rfl

theorem Good.klR {α : Type} {r : R α} {k : α → St → CM St} (hr : R.Trunc r)
    (hk : ∀ a, Good truncShape (k a)) : Good truncShape (klR r k) := by
  intro s s' e
  simp only [Bufr.klR, St.read] at e
  cases h1 : r s.bits with
  | error err => rw [h1] at e; cases e
  | ok p =>
    obtain ⟨a, rest⟩ := p
    rw [h1] at e; simp only at e
    obtain ⟨c1, e1, l1, t1⟩ := hr s.bits a rest h1
    have h2 := hk a _ s' e
    have h1' : truncShape.Φ s.bits rest (fun b' r1 => Bufr.klR r k (s.setBits b') =
        match r1 with
        | .error err => .error err
        | .ok m => k a (s.setBits m)) := by
      refine ⟨c1, e1, fun y => ?_, fun q hq => ?_⟩
      · simp only [Bufr.klR, St.read_setBits, l1 y]
      · simp only [Bufr.klR, St.read_setBits, t1 q hq]
    refine truncShape.mono ?_ (truncShape.comp h1' h2)
    rintro b' r2 ⟨r1, k1, k2⟩
    rw [k1]
    cases r1 with
    | error err => simp only at k2; subst k2; rfl
    | ok m => exact k2

theorem good_decConstant {Sh : Shape} (dd : DDesc) (v : Int) : Good Sh (decConstant dd v) :=
  Good.pure (h := fun s => (s.pushDesc dd).pushAll (.int v)) (fun _ _ => rfl)

theorem good_decNumericU (dd : DDesc) (nbits scale ref : Int) : Good truncShape (decNumericU dd nbits scale ref) := by
  cases hn : natWidth nbits with
  | error err => exact Good.congr (fun s => by simp only [decNumericU, hn, bind, Except.bind]) (Good.error err)
  | ok n =>
    refine Good.congr (G := kl (fun s => .ok (s.pushDesc dd))
      (klR (readUIntOrNone n) (fun v s => .ok (s.pushAll (numVal v scale ref))))) (fun s => ?_)
      (Good.kl (Good.pure (fun _ _ => rfl)) (Good.klR (readUIntOrNone_trunc n) (fun v => Good.pure (fun _ _ => rfl))))
    simp only [decNumericU, hn, kl, klR, bind, Except.bind, pure, Except.pure]
    match_eq

theorem good_decStringU (dd : DDesc) (nbytes : Nat) : Good truncShape (decStringU dd nbytes) := by
  refine Good.congr (G := kl (fun s => .ok (s.pushDesc dd))
    (klR (readBytes nbytes) (fun v s => .ok (s.pushAll (.bytes v))))) (fun s => ?_)
    (Good.kl (Good.pure (fun _ _ => rfl)) (Good.klR (readBytes_trunc nbytes) (fun v => Good.pure (fun _ _ => rfl))))
  simp only [decStringU, kl, klR, bind, Except.bind, pure, Except.pure]
  match_eq

theorem good_decCodeflagU (dd : DDesc) (nbits : Nat) : Good truncShape (decCodeflagU dd nbits) := by
  refine Good.congr (G := kl (fun s => .ok (s.pushDesc dd))
    (klR (readUIntOrNone nbits) (fun v s => .ok (s.pushAll (uintVal v))))) (fun s => ?_)
    (Good.kl (Good.pure (fun _ _ => rfl)) (Good.klR (readUIntOrNone_trunc nbits) (fun v => Good.pure (fun _ _ => rfl))))
  simp only [decCodeflagU, kl, klR, bind, Except.bind, pure, Except.pure]
  match_eq

theorem good_decNewRefvalU (e : Elem) (nbits : Nat) : Good truncShape (decNewRefvalU e nbits) := by
  refine Good.congr (G := kl (fun s => .ok (s.pushDesc (.plain e)))
    (klR (readInt nbits) (fun v s => .ok ((setNewRefval s e.id v).pushAll (.int v))))) (fun s => ?_)
    (Good.kl (Good.pure (fun _ _ => rfl)) (Good.klR (readInt_trunc nbits) (fun v => Good.pure (fun _ _ => rfl))))
  simp only [decNewRefvalU, kl, klR, bind, Except.bind, pure, Except.pure]
  match_eq

theorem decPrimsU_trunc : decPrimsU.Good truncShape where
  numeric := good_decNumericU
  string := good_decStringU
  codeflag := good_decCodeflagU
  newRefval := good_decNewRefvalU
  constant := good_decConstant
  factorValue := GoodV.obl (fun _ _ => rfl)
  lastValues _ := GoodV.obl (fun _ _ => rfl)

theorem good_decNumericC (dd : DDesc) (nbits scale ref : Int) : Good truncShape (decNumericC dd nbits scale ref) := by
  cases hn : natWidth nbits with
  | error err => exact Good.congr (fun s => by simp only [decNumericC, hn, bind, Except.bind]) (Good.error err)
  | ok n =>
    refine Good.local fun s => ⟨kl (fun s => .ok (s.pushDesc dd))
      (klR (readColumn n s.vals.length) (fun col s => .ok (s.pushCol (col.map fun v => numVal v scale ref)))),
      Good.kl (Good.pure (fun _ _ => rfl)) (Good.klR (readColumn_trunc _ _) (fun v => Good.pure (fun _ _ => rfl))),
      fun b => ?_⟩
    simp only [decNumericC, hn, kl, klR, bind, Except.bind, pure, Except.pure, St.setBits_vals]
    match_eq

theorem good_decCodeflagC (dd : DDesc) (nbits : Nat) : Good truncShape (decCodeflagC dd nbits) := by
  refine Good.local fun s => ⟨kl (fun s => .ok (s.pushDesc dd))
    (klR (readColumn nbits s.vals.length) (fun col s => .ok (s.pushCol (col.map (codeflagVal nbits))))),
    Good.kl (Good.pure (fun _ _ => rfl)) (Good.klR (readColumn_trunc _ _) (fun v => Good.pure (fun _ _ => rfl))),
    fun b => ?_⟩
  simp only [decCodeflagC, kl, klR, bind, Except.bind, pure, Except.pure, St.setBits_vals]
  match_eq

theorem good_decStringC (dd : DDesc) (nbytes : Nat) : Good truncShape (decStringC dd nbytes) := by
  refine Good.local fun s => ⟨kl (fun s => .ok (s.pushDesc dd))
    (klR (readStringColumn nbytes s.vals.length) (fun col s => .ok (s.pushCol (col.map Val.bytes)))),
    Good.kl (Good.pure (fun _ _ => rfl)) (Good.klR (readStringColumn_trunc _ _) (fun v => Good.pure (fun _ _ => rfl))),
    fun b => ?_⟩
  simp only [decStringC, kl, klR, bind, Except.bind, pure, Except.pure, St.setBits_vals]
  match_eq

theorem good_decNewRefvalC (e : Elem) (nbits : Nat) : Good truncShape (decNewRefvalC e nbits) := by
  refine Good.congr (G := kl (fun s => .ok (s.pushDesc (.plain e)))
    (klR (readInt nbits) (fun v => klR (readUInt 6) (fun nd s =>
      if nd ≠ 0 then .error .other else .ok (setNewRefval (s.pushAll (.int v)) e.id v))))) (fun s => ?_)
    (Good.kl (Good.pure (fun _ _ => rfl)) (Good.klR (readInt_trunc nbits) (fun v =>
      Good.klR (readUInt_trunc 6) (fun nd => Good.ite_const (fun _ => Good.error _) (fun _ => Good.pure (fun _ _ => rfl))))))
  simp only [decNewRefvalC, kl, klR, bind, Except.bind, pure, Except.pure]
  match_eq

theorem decPrimsC_trunc : decPrimsC.Good truncShape where
  numeric := good_decNumericC
  string := good_decStringC
  codeflag := good_decCodeflagC
  newRefval := good_decNewRefvalC
  constant := good_decConstant
  factorValue := GoodV.obl (fun _ _ => rfl)
  lastValues _ := GoodV.obl (fun _ _ => rfl)

theorem Prims.Good.to_frame {P : Prims} (h : ∀ x, P.Good (frameShape x))
    (hf : ∀ s x, P.factorValue (s.app x) = P.factorValue s)
    (hl : ∀ n s x, P.lastValues n (s.app x) = P.lastValues n s) : P.Frame where
  numeric dd a b c s s' x := good_frame_iff.mp ((h x).numeric dd a b c) s s'
  string dd n s s' x := good_frame_iff.mp ((h x).string dd n) s s'
  codeflag dd n s s' x := good_frame_iff.mp ((h x).codeflag dd n) s s'
  newRefval e n s s' x := good_frame_iff.mp ((h x).newRefval e n) s s'
  constant dd v s s' x := good_frame_iff.mp ((h x).constant dd v) s s'
  factorValue := hf
  lastValues := hl

theorem decPrimsU_frame : decPrimsU.Frame :=
  Prims.Good.to_frame (fun x => decPrimsU_trunc.frame_of_trunc x) (fun _ _ => rfl) (fun _ _ _ => rfl)

theorem decPrimsC_frame : decPrimsC.Frame :=
  Prims.Good.to_frame (fun x => decPrimsC_trunc.frame_of_trunc x) (fun _ _ => rfl) (fun _ _ _ => rfl)


/-! ### the encoder's primitives (uncompressed): writer-side frame property -/

theorem good_write (upd : St → St) (hupd : ∀ (s : St) (b : Bits), upd (s.setBits b) = (upd s).setBits b)
    (field : CM Bits) : Good writerShape (fun s => (upd s).write field) := by
  intro s s' e
  cases field with
  | error err => cases e
  | ok f =>
    simp only [St.write] at e
    cases e
    have hb : (upd s).bits = s.bits := by
      have := congrArg St.bits (hupd s s.bits)
      simpa using this
    refine ⟨f.reverse, by simp only [List.reverseAux_eq, hb], fun b => ?_⟩
    simp only [hupd, St.write, St.setBits_bits, List.reverseAux_eq, fr_lift_ok]
    rfl

theorem nextVal_setBits (s : St) (b : Bits) :
    nextVal (s.setBits b) = match nextVal s with
      | .error e => .error e
      | .ok (v, s1) => .ok (v, s1.setBits b) := by
  simp only [nextVal, curVals, St.setBits_vals, St.setBits_idx, bind, Except.bind, pure, Except.pure]
  cases nthVal (s.vals.headD []) s.idx <;> rfl

/-- take the next value, update the registers with it, write the field computed from it -/
theorem good_nextVal_write (dd : DDesc) (upd : Val → St → St)
    (hupd : ∀ v (s : St) (b : Bits), upd v (s.setBits b) = (upd v s).setBits b) (field : Val → CM Bits) :
    Good writerShape (fun s => match nextVal (s.pushDesc dd) with
      | .error e => .error e
      | .ok (v, s1) => (upd v s1).write (field v)) := by
  refine Good.local fun s => ?_
  cases hv : nextVal (s.pushDesc dd) with
  | error err =>
    refine ⟨_, Good.error err, fun b => ?_⟩
    have : (s.setBits b).pushDesc dd = (s.pushDesc dd).setBits b := rfl
    simp only [this, nextVal_setBits, hv]
  | ok p =>
    obtain ⟨v, s1⟩ := p
    refine ⟨kl (fun s => match nextVal (s.pushDesc dd) with
        | .error e => .error e
        | .ok (_, s1) => .ok s1) (fun s1 => (upd v s1).write (field v)),
      Good.kl (Good.obl fun s b => ?_) (good_write (upd v) (hupd v) (field v)), fun b => ?_⟩
    · have : (s.setBits b).pushDesc dd = (s.pushDesc dd).setBits b := rfl
      simp only [this, nextVal_setBits]
      cases nextVal (s.pushDesc dd) <;> rfl
    · have : (s.setBits b).pushDesc dd = (s.pushDesc dd).setBits b := rfl
      simp only [this, nextVal_setBits, hv, kl]

def numField (nbits scale ref : Int) (v : Val) : CM Bits :=
  match natWidth nbits with
  | .error e => .error e
  | .ok n =>
    match v with
    | .missing => (do fieldUInt (← missingPattern n) n)
    | v => (do let q ← quantise v scale; fieldUInt (q - ref) n)

theorem write_error (s : St) (e : Err) : s.write (.error e) = .error e := rfl

theorem good_encNumericU (dd : DDesc) (nbits scale ref : Int) : Good writerShape (encNumericU dd nbits scale ref) := by
  refine Good.congr (fun s => ?_) (good_nextVal_write dd (fun _ s => s) (fun _ _ _ => rfl) (numField nbits scale ref))
  simp only [encNumericU, numField, bind, Except.bind]
  cases nextVal (s.pushDesc dd) with
  | error e => rfl
  | ok p =>
    obtain ⟨v, s1⟩ := p
    simp only
    cases natWidth nbits with
    | error e => rfl
    | ok n =>
      simp only
      cases v with
      | missing => rfl
      | int i => simp only; cases quantise (.int i) scale <;> rfl
      | num m k => simp only; cases quantise (.num m k) scale <;> rfl
      | bytes bb => simp only; cases quantise (.bytes bb) scale <;> rfl

theorem good_encStringU (dd : DDesc) (nbytes : Nat) : Good writerShape (encStringU dd nbytes) := by
  refine Good.congr (fun s => ?_) (good_nextVal_write dd (fun _ s => s) (fun _ _ _ => rfl)
    (fun v => match v with
      | .missing => fieldBytes (List.replicate nbytes 0xFF) nbytes
      | .bytes b => fieldBytes b nbytes
      | _ => .error .other))
  simp only [encStringU, bind, Except.bind]
  cases nextVal (s.pushDesc dd) with
  | error e => rfl
  | ok p =>
    obtain ⟨v, s1⟩ := p
    cases v <;> rfl

theorem good_encCodeflagU (dd : DDesc) (nbits : Nat) : Good writerShape (encCodeflagU dd nbits) := by
  refine Good.congr (fun s => ?_) (good_nextVal_write dd (fun _ s => s) (fun _ _ _ => rfl)
    (fun v => match v with
      | .missing => (do fieldUInt (← missingPattern nbits) nbits)
      | .int i => fieldUInt i nbits
      | _ => .error .other))
  simp only [encCodeflagU, bind, Except.bind]
  cases nextVal (s.pushDesc dd) with
  | error e => rfl
  | ok p =>
    obtain ⟨v, s1⟩ := p
    cases v <;> rfl

theorem good_encNewRefvalU (e : Elem) (nbits : Nat) : Good writerShape (encNewRefvalU e nbits) := by
  refine Good.congr (fun s => ?_) (good_nextVal_write (.plain e)
    (fun v s => match v with | .int i => setNewRefval s e.id i | _ => s)
    (fun v _ _ => by cases v <;> rfl)
    (fun v => match v with
      | .int i => fieldInt i nbits
      | _ => .error .other))
  simp only [encNewRefvalU, bind, Except.bind]
  cases nextVal (s.pushDesc (.plain e)) with
  | error e => rfl
  | ok p =>
    obtain ⟨v, s1⟩ := p
    cases v <;> rfl

theorem obl_encConstantU (dd : DDesc) (c : Int) : Obl (encConstantU dd c) := by
  intro s b
  simp only [encConstantU, curVals, St.setBits_vals, St.setBits_idx, bind, Except.bind, pure, Except.pure]
  cases nthVal (s.vals.headD []) s.idx with
  | error e => rfl
  | ok v =>
    simp only
    by_cases h : v = .int c
    · simp only [h, ne_eq, not_true_eq_false, if_false]; rfl
    · simp only [ne_eq, h, not_false_eq_true, if_true]

theorem encPrimsU_writer : encPrimsU.Good writerShape where
  numeric := good_encNumericU
  string := good_encStringU
  codeflag := good_encCodeflagU
  newRefval := good_encNewRefvalU
  constant dd c := Good.obl (obl_encConstantU dd c)
  factorValue := GoodV.obl (fun _ _ => rfl)
  lastValues _ := GoodV.obl (fun _ _ => rfl)

/-- the writer-side walk lemma: the encoder's walk only conses a block `w` onto what was written,
    and `w` does not depend on what was written before -/
theorem walkList_writer (t : List Desc) (s s' : St) (h : walkList encPrimsU t s = .ok s') :
    ∃ w, s'.bits = w ++ s.bits ∧ ∀ b, walkList encPrimsU t (s.setBits b) = .ok (s'.setBits (w ++ b)) :=
  good_walkList encPrimsU_writer t s s' h

end Bufr
