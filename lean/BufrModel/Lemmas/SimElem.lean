/-
  Element-level facts for the encode → decode simulation (C03 walk round trip).

  Every uncompressed encoder primitive has the shape "take the next supplied value, turn it into one
  field (and possibly a register update), cons the field onto the bits written, record one
  descriptor" (`encStep`); every uncompressed decoder primitive has the shape "record one descriptor,
  read one field, push the value" (`decStep`).  A pair (field writer, field reader) is a `Codec` when
  the reader, run on a stream that starts with the field, returns the canonical value of the field
  and consumes exactly the field.
-/
import BufrModel.Coder.Encode
import BufrModel.Lemmas.Bits
set_option linter.unusedSimpArgs false
namespace Bufr

/-- what a field writer produces for one supplied value -/
structure FldOut where
  bits : Bits
  /-- the value the decoder will return for this field -/
  canon : Val
  upd : Regs → Regs

abbrev Fld := Val → CM FldOut
abbrev Rd := R (Val × (Regs → Regs))

def encStep (dd : DDesc) (fld : Fld) (s : St) : CM St :=
  match nthVal (curVals s) s.idx with
  | .error e => .error e
  | .ok v => match fld v with
    | .error e => .error e
    | .ok o => .ok { s with regs := o.upd s.regs, descs := dd :: s.descs, idx := s.idx + 1,
                            bits := o.bits.reverse ++ s.bits }

/-- `encStep` that also records the canonical value of the field in the ghost register `aux` -/
def encStepX (dd : DDesc) (fld : Fld) (s : St) : CM St :=
  match nthVal (curVals s) s.idx with
  | .error e => .error e
  | .ok v => match fld v with
    | .error e => .error e
    | .ok o => .ok { s with regs := o.upd s.regs, descs := dd :: s.descs, idx := s.idx + 1,
                            bits := o.bits.reverse ++ s.bits, aux := o.canon :: s.aux }

def decStep (dd : DDesc) (rd : Rd) (t : St) : CM St :=
  match rd t.bits with
  | .error e => .error e
  | .ok ((v, g), rest) =>
    .ok { t with regs := g t.regs, descs := dd :: t.descs, bits := rest, vals := t.vals.map (v :: ·) }

/-- the reader returns the canonical value of every field the writer produces, consuming exactly it -/
def Codec (fld : Fld) (rd : Rd) : Prop :=
  ∀ v o, fld v = .ok o → ∀ rest, rd (o.bits ++ rest) = .ok ((o.canon, o.upd), rest)

/-! ### numeric -/

/-- the unsigned integer written for a supplied value -/
def rawNumeric (n : Nat) (scale ref : Int) (v : Val) : CM Int :=
  match v with
  | .missing => missingPattern n
  | v => do let q ← quantise v scale; pure (q - ref)

/-- `read_uint_or_none` on a field holding `raw` -/
def rdOrNone (n raw : Nat) : Option Nat := if 1 < n ∧ raw = 2 ^ n - 1 then none else some raw

def canonNumeric (n : Nat) (scale ref : Int) (raw : Nat) : Val := numVal (rdOrNone n raw) scale ref
def canonCodeflag (n raw : Nat) : Val := uintVal (rdOrNone n raw)

def fldNumeric (nbits scale ref : Int) : Fld := fun v => do
  let n ← natWidth nbits
  let raw ← rawNumeric n scale ref v
  let f ← fieldUInt raw n
  pure { bits := f, canon := canonNumeric n scale ref raw.toNat, upd := id }

def rdNumeric (nbits scale ref : Int) : Rd := fun bs => do
  let n ← natWidth nbits
  let (v, r) ← readUIntOrNone n bs
  pure ((numVal v scale ref, id), r)

theorem sim_encNumericU_eq (dd : DDesc) (nbits scale ref : Int) (s : St) :
    encNumericU dd nbits scale ref s = encStep dd (fldNumeric nbits scale ref) s := by
  unfold encNumericU encStep nextVal fldNumeric St.write St.pushDesc curVals
  simp only []
  cases hv : nthVal (s.vals.headD []) s.idx with
  | error e => rfl
  | ok v =>
    cases hn : natWidth nbits with
    | error e => cases v <;> rfl
    | ok n =>
      cases v with
      | missing =>
        simp only [rawNumeric, bind, Except.bind, pure, Except.pure]
        cases missingPattern n with
        | error e => rfl
        | ok m => cases hf : fieldUInt m n <;> simp [hf, List.reverseAux_eq]
      | int i =>
        simp only [rawNumeric, bind, Except.bind, pure, Except.pure]
        cases quantise (.int i) scale with
        | error e => rfl
        | ok m => cases hf : fieldUInt (m - ref) n <;> simp [hf, List.reverseAux_eq]
      | num a b =>
        simp only [rawNumeric, bind, Except.bind, pure, Except.pure]
        cases quantise (.num a b) scale with
        | error e => rfl
        | ok m => cases hf : fieldUInt (m - ref) n <;> simp [hf, List.reverseAux_eq]
      | bytes b =>
        simp only [rawNumeric, bind, Except.bind, pure, Except.pure]
        cases quantise (.bytes b) scale with
        | error e => rfl
        | ok m => cases hf : fieldUInt (m - ref) n <;> simp [hf, List.reverseAux_eq]

theorem decNumericU_eq (dd : DDesc) (nbits scale ref : Int) (t : St) :
    decNumericU dd nbits scale ref t = decStep dd (rdNumeric nbits scale ref) t := by
  unfold decNumericU decStep rdNumeric St.read St.pushDesc St.pushAll
  simp only [bind, Except.bind, pure, Except.pure]
  cases hn : natWidth nbits with
  | error e => rfl
  | ok n =>
    simp only []
    cases hr : readUIntOrNone n t.bits with
    | error e => rfl
    | ok x => rfl

theorem sim_natWidth_ok {nbits : Int} {n : Nat} (h : natWidth nbits = .ok n) : 0 < n ∧ (n : Int) = nbits := by
  unfold natWidth at h
  split at h
  · cases h
  · cases h; omega

theorem fieldUInt_ok {v : Int} {n : Nat} {f : Bits} (h : fieldUInt v n = .ok f) :
    0 < n ∧ 0 ≤ v ∧ v.toNat < 2 ^ n ∧ f = toBits n v.toNat := by
  unfold fieldUInt writeUInt at h
  split at h
  · cases h
  · split at h
    · cases h
    · split at h
      · cases h
      · cases h
        refine ⟨by omega, by omega, by omega, by simp⟩

theorem readUIntOrNone_toBits (n r : Nat) (rest : Bits) (hn : 0 < n) (hn64 : n ≤ 64) (hr : r < 2 ^ n) :
    readUIntOrNone n (toBits n r ++ rest) = .ok (rdOrNone n r, rest) := by
  unfold readUIntOrNone rdOrNone
  rw [readUInt_toBits n r rest hn hr]
  have : ¬ 64 < n := by omega
  simp only [this, if_false]
  split <;> rfl

/-- the checked numeric field writer: widths above 64 are refused (the decoder cannot read them) -/
def fldNumericX (nbits scale ref : Int) : Fld := fun v => do
  let n ← natWidth nbits
  if 64 < n then .error .other else fldNumeric nbits scale ref v

theorem codec_numeric (nbits scale ref : Int) :
    Codec (fldNumericX nbits scale ref) (rdNumeric nbits scale ref) := by
  intro v o h rest
  unfold fldNumericX fldNumeric at h
  unfold rdNumeric
  cases hn : natWidth nbits with
  | error e => rw [hn] at h; cases h
  | ok n =>
    rw [hn] at h
    simp only [bind, Except.bind, pure, Except.pure] at h ⊢
    split at h
    · cases h
    · cases hraw : rawNumeric n scale ref v with
      | error e => rw [hraw] at h; cases h
      | ok raw =>
        rw [hraw] at h
        simp only [] at h
        cases hf : fieldUInt raw n with
        | error e => rw [hf] at h; cases h
        | ok f =>
          rw [hf] at h
          cases h
          obtain ⟨h0, _, hlt, rfl⟩ := fieldUInt_ok hf
          simp only [readUIntOrNone_toBits n raw.toNat rest h0 (by omega) hlt, canonNumeric]

/-! ### code / flag table, associated and skipped fields -/

def rawCodeflag (n : Nat) (v : Val) : CM Int :=
  match v with
  | .missing => missingPattern n
  | .int i => .ok i
  | _ => .error .other

def fldCodeflag (n : Nat) : Fld := fun v => do
  let raw ← rawCodeflag n v
  let f ← fieldUInt raw n
  pure { bits := f, canon := canonCodeflag n raw.toNat, upd := id }

def rdCodeflag (n : Nat) : Rd := fun bs => do
  let (v, r) ← readUIntOrNone n bs
  pure ((uintVal v, id), r)

theorem sim_encCodeflagU_eq (dd : DDesc) (n : Nat) (s : St) :
    encCodeflagU dd n s = encStep dd (fldCodeflag n) s := by
  unfold encCodeflagU encStep nextVal fldCodeflag St.write St.pushDesc curVals
  simp only []
  cases hv : nthVal (s.vals.headD []) s.idx with
  | error e => rfl
  | ok v =>
    cases v with
    | missing =>
      simp only [rawCodeflag, bind, Except.bind, pure, Except.pure]
      cases missingPattern n with
      | error e => rfl
      | ok m => cases hf : fieldUInt m n <;> simp [hf, List.reverseAux_eq]
    | int i =>
      simp only [rawCodeflag, bind, Except.bind, pure, Except.pure]
      cases hf : fieldUInt i n <;> simp [hf, List.reverseAux_eq]
    | num a b => rfl
    | bytes b => rfl

theorem decCodeflagU_eq (dd : DDesc) (n : Nat) (t : St) :
    decCodeflagU dd n t = decStep dd (rdCodeflag n) t := by
  unfold decCodeflagU decStep rdCodeflag St.read St.pushDesc St.pushAll
  simp only [bind, Except.bind, pure, Except.pure]
  cases hr : readUIntOrNone n t.bits with
  | error e => rfl
  | ok x => rfl

def fldCodeflagX (n : Nat) : Fld := fun v =>
  if 64 < n then .error .other else fldCodeflag n v

theorem codec_codeflag (n : Nat) : Codec (fldCodeflagX n) (rdCodeflag n) := by
  intro v o h rest
  unfold fldCodeflagX fldCodeflag at h
  unfold rdCodeflag
  simp only [bind, Except.bind, pure, Except.pure] at h ⊢
  split at h
  · cases h
  · cases hraw : rawCodeflag n v with
    | error e => rw [hraw] at h; cases h
    | ok raw =>
      rw [hraw] at h
      simp only [] at h
      cases hf : fieldUInt raw n with
      | error e => rw [hf] at h; cases h
      | ok f =>
        rw [hf] at h
        cases h
        obtain ⟨h0, _, hlt, rfl⟩ := fieldUInt_ok hf
        simp only [readUIntOrNone_toBits n raw.toNat rest h0 (by omega) hlt, canonCodeflag]

/-! ### character fields -/

def strBytes (nbytes : Nat) (v : Val) : CM (List UInt8) :=
  match v with
  | .missing => .ok (List.replicate nbytes 0xFF)
  | .bytes b => .ok b
  | _ => .error .other

def fldString (nbytes : Nat) : Fld := fun v => do
  let b ← strBytes nbytes v
  pure { bits := bytesToBits (padBytes b nbytes), canon := .bytes (padBytes b nbytes), upd := id }

def rdString (nbytes : Nat) : Rd := fun bs => do
  let (b, r) ← readBytes nbytes bs
  pure ((.bytes b, id), r)

theorem sim_encStringU_eq (dd : DDesc) (n : Nat) (s : St) :
    encStringU dd n s = encStep dd (fldString n) s := by
  unfold encStringU encStep nextVal fldString St.write St.pushDesc curVals fieldBytes writeBytes
  simp only []
  cases hv : nthVal (s.vals.headD []) s.idx with
  | error e => rfl
  | ok v =>
    cases v <;> simp [strBytes, bind, Except.bind, pure, Except.pure, List.reverseAux_eq]

theorem decStringU_eq (dd : DDesc) (n : Nat) (t : St) :
    decStringU dd n t = decStep dd (rdString n) t := by
  unfold decStringU decStep rdString St.read St.pushDesc St.pushAll
  simp only [bind, Except.bind, pure, Except.pure]
  cases hr : readBytes n t.bits with
  | error e => rfl
  | ok x => rfl

theorem codec_string (n : Nat) : Codec (fldString n) (rdString n) := by
  intro v o h rest
  unfold fldString at h
  unfold rdString
  simp only [bind, Except.bind, pure, Except.pure] at h ⊢
  cases hb : strBytes n v with
  | error e => rw [hb] at h; cases h
  | ok b =>
    rw [hb] at h
    cases h
    have := readBytes_bytesToBits (padBytes b n) rest
    rw [padBytes_length] at this
    simp only [this]

/-! ### 203YYY: new reference values -/

def updNewRefval (id : Nat) (i : Int) : Regs → Regs := fun r => { r with newRefvals := (id, i) :: r.newRefvals }

def fldNewRefval (id nbits : Nat) : Fld := fun v =>
  match v with
  | .int i => do
    let f ← fieldInt i nbits
    pure { bits := f, canon := .int i, upd := updNewRefval id i }
  | _ => .error .other

def rdNewRefval (id nbits : Nat) : Rd := fun bs => do
  let (v, r) ← readInt nbits bs
  pure ((.int v, updNewRefval id v), r)

theorem sim_encNewRefvalU_eq (e : Elem) (n : Nat) (s : St) :
    encNewRefvalU e n s = encStep (.plain e) (fldNewRefval e.id n) s := by
  unfold encNewRefvalU encStep nextVal fldNewRefval St.write St.pushDesc curVals setNewRefval St.setRegs
  simp only []
  cases hv : nthVal (s.vals.headD []) s.idx with
  | error e => rfl
  | ok v =>
    cases v with
    | int i =>
      simp only [bind, Except.bind, pure, Except.pure]
      cases hf : fieldInt i n <;> simp [hf, List.reverseAux_eq, updNewRefval]
    | _ => rfl

theorem decNewRefvalU_eq (e : Elem) (n : Nat) (t : St) :
    decNewRefvalU e n t = decStep (.plain e) (rdNewRefval e.id n) t := by
  unfold decNewRefvalU decStep rdNewRefval St.read St.pushDesc St.pushAll setNewRefval St.setRegs
  simp only [bind, Except.bind, pure, Except.pure]
  cases hr : readInt n t.bits with
  | error e => rfl
  | ok x => rfl

theorem sim_fieldInt_ok {v : Int} {n : Nat} {f : Bits} (h : fieldInt v n = .ok f) :
    0 < n - 1 ∧ v.natAbs < 2 ^ (n - 1) ∧ f = decide (v < 0) :: toBits (n - 1) v.natAbs := by
  unfold fieldInt writeInt writeBool at h
  have h' : fieldUInt (Int.ofNat v.natAbs) (n - 1) = .ok (toBits (n - 1) v.natAbs) ∧ 0 < n - 1 ∧
      v.natAbs < 2 ^ (n - 1) := by
    unfold writeUInt at h
    split at h
    · cases h
    · split at h
      · cases h
      · split at h
        · cases h
        · rename_i h1 h2 h3
          have : v.natAbs < 2 ^ (n - 1) := by simpa using h3
          exact ⟨writeUInt_ofNat [] _ _ (by omega) this, by omega, this⟩
  refine ⟨h'.2.1, h'.2.2, ?_⟩
  rw [writeUInt_ofNat _ _ _ h'.2.1 h'.2.2] at h
  cases h; rfl

theorem sim_readInt_field (n : Nat) (v : Int) (rest : Bits) (hn : 0 < n - 1) (hv : v.natAbs < 2 ^ (n - 1)) :
    readInt n (decide (v < 0) :: toBits (n - 1) v.natAbs ++ rest) = .ok (v, rest) := by
  have hn0 : n ≠ 0 := by omega
  simp only [readInt, hn0, if_false, List.cons_append, readBool, readUInt_toBits _ _ rest hn hv]
  have : (if decide (v < 0) = true then -Int.ofNat v.natAbs else Int.ofNat v.natAbs) = v := by
    by_cases hneg : v < 0 <;> simp [hneg] <;> omega
  rw [this]

theorem codec_newRefval (id n : Nat) : Codec (fldNewRefval id n) (rdNewRefval id n) := by
  intro v o h rest
  unfold fldNewRefval at h
  unfold rdNewRefval
  cases v with
  | int i =>
    simp only [bind, Except.bind, pure, Except.pure] at h ⊢
    cases hf : fieldInt i n with
    | error e => rw [hf] at h; cases h
    | ok f =>
      rw [hf] at h
      cases h
      obtain ⟨h0, hlt, rfl⟩ := sim_fieldInt_ok hf
      have := sim_readInt_field n i rest h0 hlt
      simp only [List.cons_append] at this ⊢
      simp only [this]
  | _ => cases h

/-! ### operator descriptors that stand for a constant -/

def fldConstant (c : Int) : Fld := fun v =>
  if v ≠ .int c then .error .other else .ok { bits := [], canon := .int c, upd := id }

def rdConstant (c : Int) : Rd := fun bs => .ok ((.int c, id), bs)

theorem encConstantU_eq (dd : DDesc) (c : Int) (s : St) :
    encConstantU dd c s = encStep dd (fldConstant c) s := by
  unfold encConstantU encStep fldConstant St.pushDesc
  simp only [bind, Except.bind, pure, Except.pure]
  cases hv : nthVal (curVals s) s.idx with
  | error e => rfl
  | ok v =>
    simp only []
    split <;> simp

theorem decConstant_eq (dd : DDesc) (c : Int) (t : St) :
    decConstant dd c t = decStep dd (rdConstant c) t := rfl

theorem codec_constant (c : Int) : Codec (fldConstant c) (rdConstant c) := by
  intro v o h rest
  unfold fldConstant at h
  split at h
  · cases h
  · cases h; rfl

end Bufr
