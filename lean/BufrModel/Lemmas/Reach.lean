/-
  Monotonicity of `Reach` / `AgreeOn` (Spec/Reach.lean) in the descriptor list and along Table D rows.
-/
import BufrModel.Spec.Reach
namespace Bufr

theorem Reach.mono {T : Tables} {a b : List Nat} (hab : ∀ x, x ∈ a → x ∈ b) {id : Nat}
    (h : Reach T a id) : Reach T b id := by
  induction h with
  | here hm => exact .here (hab _ hm)
  | member _ h3 hd hm ih => exact .member ih h3 hd hm

/-- what is reachable from the row of a sequence that occurs in `ids` is reachable from `ids` -/
theorem Reach.of_row {T : Tables} {ids row : List Nat} {sid : Nat} (hs : sid ∈ ids) (h3 : 300000 ≤ sid)
    (hd : T.d sid = some row) {id : Nat} (h : Reach T row id) : Reach T ids id := by
  induction h with
  | here hm => exact .member (.here hs) h3 hd hm
  | member _ h3' hd' hm ih => exact .member ih h3' hd' hm

theorem AgreeOn.mono {T T' : Tables} {a b : List Nat} (hab : ∀ x, x ∈ a → x ∈ b)
    (h : AgreeOn T T' b) : AgreeOn T T' a :=
  fun id hr => h id (hr.mono hab)

theorem AgreeOn.of_row {T T' : Tables} {ids row : List Nat} {sid : Nat} (hs : sid ∈ ids) (h3 : 300000 ≤ sid)
    (hd : T.d sid = some row) (h : AgreeOn T T' ids) : AgreeOn T T' row :=
  fun id hr => h id (hr.of_row hs h3 hd)

theorem mem_tail {id : Nat} {rest : List Nat} : ∀ x, x ∈ rest → x ∈ id :: rest :=
  fun _ hx => List.mem_cons_of_mem _ hx

theorem mem_take {id : Nat} {rest : List Nat} (k : Nat) : ∀ x, x ∈ rest.take k → x ∈ id :: rest :=
  fun _ hx => List.mem_cons_of_mem _ (List.mem_of_mem_take hx)

theorem mem_drop {id : Nat} {rest : List Nat} (k : Nat) : ∀ x, x ∈ rest.drop k → x ∈ id :: rest :=
  fun _ hx => List.mem_cons_of_mem _ (List.mem_of_mem_drop hx)

end Bufr
