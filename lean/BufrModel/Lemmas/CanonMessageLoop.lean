/-
  C02 lemmas, message level: the section LOOP of `Encoder.process` on the bundled layouts
  (`Gen/Layouts.lean`) of one edition is the concatenation of the canonical sections
  (`Spec.canonMessageBits`): `encodeBits_canon`.  Closed facts about the regenerated layouts
  (`famOK`, `sec01OK`) are decided by the kernel per edition; everything else is symbolic in the
  supplied values, the registry is tracked through `register_get_other` / `register_get_val`.
-/
import BufrModel.Lemmas.CanonMessage
set_option linter.unusedSimpArgs false
namespace Bufr
open Bufr.Spec

/-- the layout of section `i` for edition `ed` in the bundled family -/
def lay (i ed : Nat) : SectionLayout := (Gen.layouts.get i ed).getD default

theorem editionKey_of {reg : Registry} {e : Int} {nb pos : Nat}
    (h : reg.get? "edition" = some ⟨.int e, nb, pos⟩) : reg.editionKey = e.toNat := by
  simp [Registry.editionKey, h, PVal.editionKey]

/-- the value registered for a property: the value at the parameter's position -/
theorem register_get_val (n : String) :
    ∀ (ps : List Param) (vs : List PVal) (reg : Registry) (start off i : Nat) (p : Param) (v : PVal),
      ps[i]? = some p → vs[i]? = some v → p.name = n → p.asProperty = true →
      (∀ q ∈ ps.drop (i + 1), ¬ (q.name = n ∧ q.asProperty = true)) →
      ∃ pos, (register reg start off ps vs).get? n = some ⟨v, p.nbits, pos⟩ := by
  intro ps
  induction ps with
  | nil => intro vs reg start off i p v h; simp at h
  | cons q ps ih =>
    intro vs reg start off i p v hp hv hn ha hrest
    cases vs with
    | nil => simp at hv
    | cons u vs =>
      cases i with
      | zero =>
        simp only [List.getElem?_cons_zero, Option.some.injEq] at hp hv
        subst hp hv
        simp only [register, ha, if_true]
        rw [register_get_other n ps vs _ start _ (by simpa using hrest)]
        exact ⟨start + off, by simp [Registry.get?, List.lookup, hn]⟩
      | succ i =>
        simp only [List.getElem?_cons_succ] at hp hv
        simp only [register]
        exact ih vs _ start _ i p v hp hv hn ha (by simpa using hrest)

/-- one round of the section loop, for a section that is present -/
theorem encLoop_round (cfg : EncCfg) (hc : cfg.ignoreDeclared = true) (L : Layouts) (payload : Bits)
    (fuel idx : Nat) (vs : List PVal) (rest : List (List PVal)) (reg : Registry) (w : Bits)
    (tr : List (Nat × Nat)) (s : SectionLayout) (ed : Int) (nb pos : Nat)
    (hcfg : getCfg L idx reg.editionKey = .ok s) (hpres : isPresent reg s idx = .ok true)
    (hlf : s.lenFirst = true)
    (hedreg : (register reg w.length 0 s.params vs).get? "edition" = some ⟨.int ed, nb, pos⟩) :
    encLoop L cfg payload (fuel + 1) idx (vs :: rest) reg w tr =
      match canonSection ed s vs payload with
      | none => .error .other
      | some b =>
        if s.endOfMessage then .ok (register reg w.length 0 s.params vs, w ++ b, tr ++ [(s.index, b.length)])
        else encLoop L cfg payload fuel (idx + 1) rest (register reg w.length 0 s.params vs) (w ++ b)
          (tr ++ [(s.index, b.length)]) := by
  simp only [encLoop, hcfg, hpres, encSection_eq cfg hc s hlf vs payload reg w ed nb pos hedreg]
  cases canonSection ed s vs payload with
  | none => rfl
  | some b => simp [ofOpt, Except.map]

/-- … and for an optional section that is absent: nothing is written, no values are used -/
theorem encLoop_skip (cfg : EncCfg) (L : Layouts) (payload : Bits)
    (fuel idx : Nat) (vals : List (List PVal)) (hv : vals ≠ []) (reg : Registry) (w : Bits)
    (tr : List (Nat × Nat)) (s : SectionLayout)
    (hcfg : getCfg L idx reg.editionKey = .ok s) (hpres : isPresent reg s idx = .ok false) :
    encLoop L cfg payload (fuel + 1) idx vals reg w tr = encLoop L cfg payload fuel (idx + 1) vals reg w tr := by
  cases vals with
  | nil => exact absurd rfl hv
  | cons vs rest => simp only [encLoop, hcfg, hpres]

/-! closed facts about the bundled layouts (re-checked by the kernel whenever `Gen/Layouts.lean` is regenerated) -/

/-- no registered parameter of the section is called `n` -/
def noProp (n : String) (s : SectionLayout) : Bool := s.params.all fun p => !(p.name == n && p.asProperty)

theorem noProp_spec {n : String} {s : SectionLayout} (h : noProp n s = true) :
    ∀ p ∈ s.params, ¬ (p.name = n ∧ p.asProperty = true) := by
  intro p hp ⟨h1, h2⟩
  have := List.all_eq_true.mp h p hp
  simp [h1, h2] at this

/-- what the message theorem needs of the sections 1-5 of edition `ed` -/
def famOK (ed : Nat) : Bool :=
  [1, 2, 3, 4, 5].all fun i =>
    decide (getCfg Gen.layouts i ed = .ok (lay i ed)) && decide (Gen.layouts.get i ed = some (lay i ed))
      && (lay i ed).lenFirst && ((lay i ed).optional == (i == 2)) && ((lay i ed).endOfMessage == (i == 5))
      && noProp "edition" (lay i ed) && noProp "length" (lay i ed)

theorem famOK_2 : famOK 2 = true := by decide
theorem famOK_3 : famOK 3 = true := by decide
theorem famOK_4 : famOK 4 = true := by decide


def sec0Params : List Param :=
  [{ name := "start_signature", nbits := 32, ty := .bytes, expected := some [66, 85, 70, 82], asProperty := false },
   { name := "length", nbits := 24, ty := .uint, expected := none, asProperty := true },
   { name := "edition", nbits := 8, ty := .uint, expected := none, asProperty := true }]

/-- section 0 and the `is_section2_presents` flag of section 1 -/
def sec01OK (ed : Nat) : Bool :=
  decide (getCfg Gen.layouts 0 0 = .ok (lay 0 ed)) && decide (Gen.layouts.get 0 ed = some (lay 0 ed))
    && decide ((lay 0 ed).params = sec0Params) && !(lay 0 ed).optional && !(lay 0 ed).endOfMessage
    && (lay 0 ed).lenFirst && !(lay 0 ed).hasParam "section_length"
    && (match (lay 1 ed).params[sec2FlagIndex ed]? with
        | some p => p.name == "is_section2_presents" && p.asProperty
        | none => false)
    && ((lay 1 ed).params.drop (sec2FlagIndex ed + 1)).all (fun q => !(q.name == "is_section2_presents" && q.asProperty))

theorem sec01OK_2 : sec01OK 2 = true := by decide
theorem sec01OK_3 : sec01OK 3 = true := by decide
theorem sec01OK_4 : sec01OK 4 = true := by decide

theorem isPresent_mandatory (reg : Registry) (s : SectionLayout) (idx : Nat) (h : s.optional = false) :
    isPresent reg s idx = .ok true := by simp [isPresent, h]

theorem reg0_edition (sig : List UInt8) (len e : Int) :
    (register Registry.init 0 0 sec0Params [.bytes sig, .int len, .int e]).get? "edition" = some ⟨.int e, 8, 56⟩ := by
  simp [register, sec0Params, Registry.get?, List.lookup]

theorem reg0_length (sig : List UInt8) (len e : Int) :
    (register Registry.init 0 0 sec0Params [.bytes sig, .int len, .int e]).get? "length" = some ⟨.int len, 24, 32⟩ := by
  simp [register, sec0Params, Registry.get?, List.lookup]


theorem uintCode_iff' (w : Nat) (raw : Int) (bits : Bits) :
    uintCode w raw = some bits ↔ 0 < w ∧ 0 ≤ raw ∧ raw < 2 ^ w ∧ bits = toBits w raw.toNat := by
  unfold uintCode
  by_cases h : 0 < w ∧ 0 ≤ raw ∧ raw < 2 ^ w
  · simp only [h, and_self, if_true, Option.some.injEq, true_and]; exact eq_comm
  · simp only [h, if_false]
    constructor
    · intro h'; cases h'
    · rintro ⟨a, b, c, _⟩; exact absurd ⟨a, b, c⟩ h

theorem canonSection0_length (ed : Int) (s : SectionLayout) (hp : s.params = sec0Params)
    (hh : s.hasParam "section_length" = false) (sig : List UInt8) (len e : Int) (payload b0 : Bits)
    (h : canonSection ed s [.bytes sig, .int len, .int e] payload = some b0) : b0.length = 64 := by
  unfold canonSection at h
  rw [hp] at h
  simp only [sec0Params, sectionContent, paramCode] at h
  cases h1 : uintCode 24 len with
  | none => simp [h1] at h
  | some c1 =>
    cases h2 : uintCode 8 e with
    | none => simp [h1, h2] at h
    | some c2 =>
      obtain ⟨_, _, _, e1⟩ := (uintCode_iff' 24 len c1).mp h1
      obtain ⟨_, _, _, e2⟩ := (uintCode_iff' 8 e c2).mp h2
      have hl : (bytesToBits (padBytes sig (32 / 8)) ++ (c1 ++ (c2 ++ []))).length = 64 := by
        simp [bytesToBits_length, padBytes_length, e1, e2, toBits_length]
      simp only [h1, h2, Option.bind_some, hh, Bool.false_eq_true, if_false, Option.some.injEq] at h
      rw [← h, List.length_append, hl]
      simp [sectionPad, zeros]


theorem famOK_at {ed i : Nat} (h : famOK ed = true) (hi : i ∈ [1, 2, 3, 4, 5]) :
    getCfg Gen.layouts i ed = .ok (lay i ed) ∧ Gen.layouts.get i ed = some (lay i ed) ∧
    (lay i ed).lenFirst = true ∧ (lay i ed).optional = (i == 2) ∧ (lay i ed).endOfMessage = (i == 5) ∧
    noProp "edition" (lay i ed) = true ∧ noProp "length" (lay i ed) = true := by
  have := List.all_eq_true.mp h i hi
  simp only [Bool.and_eq_true, decide_eq_true_eq, beq_iff_eq] at this
  obtain ⟨⟨⟨⟨⟨⟨a, b⟩, c⟩, d⟩, e⟩, f⟩, g⟩ := this
  exact ⟨a, b, c, d, e, f, g⟩

/-- the registry after a section that registers neither `edition` nor `length` -/
theorem reg_keep {reg : Registry} {s : SectionLayout} (start : Nat) (vs : List PVal) {n : String}
    (h : noProp n s = true) : (register reg start 0 s.params vs).get? n = reg.get? n :=
  register_get_other n s.params vs reg start 0 (noProp_spec h)

/-- what `Encoder.process` does after the section loop: total length, whole octets; projected on the bits -/
def finish (cfg : EncCfg) (r : Except Err (Registry × Bits × List (Nat × Nat))) : Option Bits :=
  match r with
  | .error _ => none
  | .ok (reg, w, _) =>
    match patchTotal cfg reg w with
    | .error _ => none
    | .ok w' => if w'.length % 8 != 0 then none else some w'

theorem encodeBits_finish (L : Layouts) (cfg : EncCfg) (vals : List (List PVal)) (payload : Bits) :
    (encodeBits L cfg vals payload).toOption.map (·.1)
      = finish cfg (encLoop L cfg payload (L.length + 1) 0 vals Registry.init [] []) := by
  unfold encodeBits finish
  cases encLoop L cfg payload (L.length + 1) 0 vals Registry.init [] [] with
  | error e => rfl
  | ok r =>
    obtain ⟨reg, w, tr⟩ := r
    simp only []
    cases patchTotal cfg reg w with
    | error e => rfl
    | ok w' =>
      simp only []
      split <;> rfl

theorem finish_ok (cfg : EncCfg) (hc : cfg.ignoreDeclared = true) (reg : Registry) (w : Bits)
    (tr : List (Nat × Nat)) (len : Int) (hL : reg.get? "length" = some ⟨.int len, 24, 32⟩) (hw : 56 ≤ w.length) :
    finish cfg (.ok (reg, w, tr)) =
      if w.length % 8 = 0 ∧ w.length / 8 < 2 ^ 24 then some (w.take 32 ++ toBits 24 (w.length / 8) ++ w.drop 56)
      else none := by
  have hcond : (len == 0 || cfg.ignoreDeclared) = true := by simp [hc]
  simp only [finish, patchTotal, hL, hcond, if_true, setUInt, show ¬ ((24 : Nat) = 0) by decide, if_false]
  by_cases hfit : w.length / 8 < 2 ^ 24
  · have h1 : ¬ (2 ^ 24 ≤ w.length / 8) := by omega
    have hlen : (w.take 32 ++ toBits 24 (w.length / 8) ++ w.drop (32 + 24)).length = w.length := by
      simp only [List.length_append, List.length_take, List.length_drop, toBits_length]; omega
    simp only [h1, if_false, hlen, hfit, and_true]
    by_cases h8 : w.length % 8 = 0
    · simp [h8]
    · simp [h8]
  · have h1 : (2 ^ 24 ≤ w.length / 8) := by omega
    simp only [h1, if_true, hfit, and_false, if_false]

/-- rounds 3, 4, 5 and the end of `Encoder.process` -/
theorem tail345 (ed : Nat) (hfam : famOK ed = true) (cfg : EncCfg) (hc : cfg.ignoreDeclared = true)
    (fuel idx : Nat) (hfuel : 3 ≤ fuel) (hidx : idx = 3)
    (reg : Registry) (w : Bits) (tr : List (Nat × Nat)) (len : Int)
    (hE : reg.get? "edition" = some ⟨.int ed, 8, 56⟩) (hL : reg.get? "length" = some ⟨.int len, 24, 32⟩)
    (hw : 56 ≤ w.length) (s3 s4 s5 : List PVal) (payload : Bits) :
    finish cfg (encLoop Gen.layouts cfg payload fuel idx [s3, s4, s5] reg w tr) =
      match canonSection ed (lay 3 ed) s3 payload, canonSection ed (lay 4 ed) s4 payload,
          canonSection ed (lay 5 ed) s5 payload with
      | some b3, some b4, some b5 =>
        let w' := w ++ b3 ++ b4 ++ b5
        if w'.length % 8 = 0 ∧ w'.length / 8 < 2 ^ 24 then
          some (w'.take 32 ++ toBits 24 (w'.length / 8) ++ w'.drop 56) else none
      | _, _, _ => none := by
  obtain ⟨f, rfl⟩ : ∃ f, fuel = f + 1 + 1 + 1 := ⟨fuel - 3, by omega⟩
  subst hidx
  obtain ⟨g3, l3, f3, o3, e3, ne3, nl3⟩ := famOK_at hfam (i := 3) (by simp)
  obtain ⟨g4, l4, f4, o4, e4, ne4, nl4⟩ := famOK_at hfam (i := 4) (by simp)
  obtain ⟨g5, l5, f5, o5, e5, ne5, nl5⟩ := famOK_at hfam (i := 5) (by simp)
  simp only [Nat.reduceBEq, Bool.false_eq_true] at o3 o4 o5 e3 e4 e5
  have hk : ∀ {reg : Registry}, reg.get? "edition" = some ⟨.int ed, 8, 56⟩ → reg.editionKey = ed := by
    intro reg h; rw [editionKey_of h]; simp
  rw [encLoop_round cfg hc Gen.layouts payload _ 3 s3 _ reg w tr (lay 3 ed) ed 8 56
    (by rw [hk hE]; exact g3) (isPresent_mandatory _ _ _ o3) f3 (by rw [reg_keep _ _ ne3]; exact hE)]
  cases hb3 : canonSection ed (lay 3 ed) s3 payload with
  | none => rfl
  | some b3 =>
    simp only [e3, Bool.false_eq_true, if_false]
    have hE3 : (register reg w.length 0 (lay 3 ed).params s3).get? "edition" = some ⟨.int ed, 8, 56⟩ := by
      rw [reg_keep _ _ ne3]; exact hE
    have hL3 : (register reg w.length 0 (lay 3 ed).params s3).get? "length" = some ⟨.int len, 24, 32⟩ := by
      rw [reg_keep _ _ nl3]; exact hL
    rw [encLoop_round cfg hc Gen.layouts payload _ 4 s4 _ _ (w ++ b3) _ (lay 4 ed) ed 8 56
      (by rw [hk hE3]; exact g4) (isPresent_mandatory _ _ _ o4) f4 (by rw [reg_keep _ _ ne4]; exact hE3)]
    cases hb4 : canonSection ed (lay 4 ed) s4 payload with
    | none => rfl
    | some b4 =>
      simp only [e4, Bool.false_eq_true, if_false]
      have hE4 : (register (register reg w.length 0 (lay 3 ed).params s3) (w ++ b3).length 0 (lay 4 ed).params s4).get? "edition"
          = some ⟨.int ed, 8, 56⟩ := by rw [reg_keep _ _ ne4]; exact hE3
      have hL4 : (register (register reg w.length 0 (lay 3 ed).params s3) (w ++ b3).length 0 (lay 4 ed).params s4).get? "length"
          = some ⟨.int len, 24, 32⟩ := by rw [reg_keep _ _ nl4]; exact hL3
      rw [encLoop_round cfg hc Gen.layouts payload _ 5 s5 _ _ (w ++ b3 ++ b4) _ (lay 5 ed) ed 8 56
        (by rw [hk hE4]; exact g5) (isPresent_mandatory _ _ _ o5) f5 (by rw [reg_keep _ _ ne5]; exact hE4)]
      cases hb5 : canonSection ed (lay 5 ed) s5 payload with
      | none => rfl
      | some b5 =>
        simp only [e5, if_true]
        rw [finish_ok cfg hc _ (w ++ b3 ++ b4 ++ b5) _ len (by rw [reg_keep _ _ nl5]; exact hL4)
          (by simp only [List.length_append]; omega)]

/-- **the section loop on the bundled layouts of edition `ed`** is the concatenation of the canonical
    sections -/
theorem encodeBits_canon (ed : Nat) (hfam : famOK ed = true) (h01 : sec01OK ed = true)
    (cfg : EncCfg) (hc : cfg.ignoreDeclared = true)
    (sig : List UInt8) (len : Int) (s1 : List PVal) (s2 : Option (List PVal)) (s3 s4 s5 : List PVal)
    (payload : Bits) (hflag : s1[sec2FlagIndex ed]? = some (.bool s2.isSome)) :
    (encodeBits Gen.layouts cfg ([.bytes sig, .int len, .int ed] :: s1 :: (s2.toList ++ [s3, s4, s5])) payload).toOption.map (·.1)
      = canonMessageBits ed [.bytes sig, .int len, .int ed] s1 s2 s3 s4 s5 payload := by
  -- closed facts
  simp only [sec01OK, Bool.and_eq_true, decide_eq_true_eq, Bool.not_eq_true'] at h01
  obtain ⟨⟨⟨⟨⟨⟨⟨⟨g0, l0⟩, p0⟩, o0⟩, e0⟩, f0⟩, n0⟩, hfl⟩, hafter⟩ := h01
  obtain ⟨g1, l1, f1, o1, e1, ne1, nl1⟩ := famOK_at hfam (i := 1) (by simp)
  obtain ⟨g2, l2, f2, o2, e2, ne2, nl2⟩ := famOK_at hfam (i := 2) (by simp)
  obtain ⟨g3, l3, f3, o3, e3, ne3, nl3⟩ := famOK_at hfam (i := 3) (by simp)
  obtain ⟨g4, l4, f4, o4, e4, ne4, nl4⟩ := famOK_at hfam (i := 4) (by simp)
  obtain ⟨g5, l5, f5, o5, e5, ne5, nl5⟩ := famOK_at hfam (i := 5) (by simp)
  simp only [Nat.reduceBEq, Bool.false_eq_true] at o1 o2 o3 o4 o5 e1 e2 e3 e4 e5
  obtain ⟨f, hf⟩ : ∃ f, Gen.layouts.length + 1 = f + 1 + 1 + 1 + 1 + 1 + 1 + 1 := ⟨Gen.layouts.length - 6, by decide⟩
  have hkey0 : Registry.init.editionKey = 0 := by decide
  -- registries
  let s0 : List PVal := [.bytes sig, .int len, .int ed]
  let R0 := register Registry.init 0 0 (lay 0 ed).params s0
  have hR0e : R0.get? "edition" = some ⟨.int ed, 8, 56⟩ := by
    show (register Registry.init 0 0 (lay 0 ed).params s0).get? "edition" = _
    rw [p0]; exact reg0_edition sig len ed
  have hR0l : R0.get? "length" = some ⟨.int len, 24, 32⟩ := by
    show (register Registry.init 0 0 (lay 0 ed).params s0).get? "length" = _
    rw [p0]; exact reg0_length sig len ed
  have hk : ∀ {reg : Registry}, reg.get? "edition" = some ⟨.int ed, 8, 56⟩ → reg.editionKey = ed := by
    intro reg h; rw [editionKey_of h]; simp
  rw [encodeBits_finish]
  unfold canonMessageBits
  simp only [hf, l0, l1, l2, l3, l4, l5, Option.bind_some]
  -- round 0
  rw [encLoop_round cfg hc Gen.layouts payload _ 0 s0 _ Registry.init [] [] (lay 0 ed) ed 8 56
    (by rw [hkey0]; exact g0) (isPresent_mandatory _ _ _ o0) f0 hR0e]
  cases hb0 : canonSection ed (lay 0 ed) s0 payload with
  | none => simp [finish]
  | some b0 =>
    have hb0l := canonSection0_length ed (lay 0 ed) p0 n0 sig len ed payload b0 hb0
    simp only [e0, Bool.false_eq_true, if_false, List.nil_append, List.length_nil]
    -- round 1
    rw [encLoop_round cfg hc Gen.layouts payload _ 1 s1 _ R0 b0 _ (lay 1 ed) ed 8 56
      (by rw [hk hR0e]; exact g1) (isPresent_mandatory _ _ _ o1) f1 (by rw [reg_keep _ _ ne1]; exact hR0e)]
    cases hb1 : canonSection ed (lay 1 ed) s1 payload with
    | none => simp [finish]
    | some b1 =>
      simp only [e1, Bool.false_eq_true, if_false]
      let R1 := register R0 b0.length 0 (lay 1 ed).params s1
      have hR1e : R1.get? "edition" = some ⟨.int ed, 8, 56⟩ := by
        show (register R0 b0.length 0 (lay 1 ed).params s1).get? "edition" = _
        rw [reg_keep _ _ ne1]; exact hR0e
      have hR1l : R1.get? "length" = some ⟨.int len, 24, 32⟩ := by
        show (register R0 b0.length 0 (lay 1 ed).params s1).get? "length" = _
        rw [reg_keep _ _ nl1]; exact hR0l
      -- the flag
      obtain ⟨pf, hpf, hpn, hpa⟩ : ∃ pf, (lay 1 ed).params[sec2FlagIndex ed]? = some pf ∧
          pf.name = "is_section2_presents" ∧ pf.asProperty = true := by
        cases hq : (lay 1 ed).params[sec2FlagIndex ed]? with
        | none => rw [hq] at hfl; cases hfl
        | some pf =>
          rw [hq] at hfl
          simp only [Bool.and_eq_true, beq_iff_eq] at hfl
          exact ⟨pf, rfl, hfl.1, hfl.2⟩
      obtain ⟨posf, hR1f⟩ := register_get_val "is_section2_presents" (lay 1 ed).params s1 R0 b0.length 0
        (sec2FlagIndex ed) pf (.bool s2.isSome) hpf hflag hpn hpa (by
          intro q hq ⟨h1, h2⟩
          have := List.all_eq_true.mp hafter q hq
          simp [h1, h2] at this)
      have hpres2 : isPresent R1 (lay 2 ed) 2 = .ok s2.isSome := by
        have : presName 2 = "is_section2_presents" := by decide
        simp only [isPresent, o2, Bool.not_true, Bool.false_eq_true, if_false, this]
        show (match R1.get? "is_section2_presents" with
          | none => Except.error Err.other
          | some e => Except.ok e.val.truthy) = _
        rw [show R1.get? "is_section2_presents" = _ from hR1f]
        rfl
      have hk1 : R1.editionKey = ed := hk hR1e
      -- take/drop of the final stream through section 0 (64 bits)
      have htake : ∀ rest : Bits, (b0 ++ rest).take 32 = b0.take 32 := by
        intro rest; rw [List.take_append_of_le_length (by omega)]
      have hdrop : ∀ rest : Bits, (b0 ++ rest).drop 56 = b0.drop 56 ++ rest := by
        intro rest; rw [List.drop_append_of_le_length (by omega)]
      cases s2 with
      | none =>
        simp only [Option.isSome_none] at hpres2
        simp only [Option.toList_none, List.nil_append]
        rw [encLoop_skip cfg Gen.layouts payload _ 2 [s3, s4, s5] (by simp) R1 (b0 ++ b1) _ (lay 2 ed)
          (by rw [hk1]; exact g2) hpres2]
        rw [tail345 ed hfam cfg hc _ _ (by omega) rfl R1 (b0 ++ b1) _ len hR1e hR1l (by simp only [List.length_append]; omega)]
        cases canonSection ed (lay 3 ed) s3 payload with
        | none => rfl
        | some b3 =>
          cases canonSection ed (lay 4 ed) s4 payload with
          | none => rfl
          | some b4 =>
            cases canonSection ed (lay 5 ed) s5 payload with
            | none => rfl
            | some b5 =>
              simp only [List.append_assoc, htake, hdrop, List.length_append, List.nil_append, List.length_nil,
                Nat.zero_add]
      | some v2 =>
        simp only [Option.isSome_some] at hpres2
        simp only [Option.toList_some, List.cons_append, List.nil_append]
        rw [encLoop_round cfg hc Gen.layouts payload _ 2 v2 _ R1 (b0 ++ b1) _ (lay 2 ed) ed 8 56
          (by rw [hk1]; exact g2) hpres2 f2 (by rw [reg_keep _ _ ne2]; exact hR1e)]
        cases hb2 : canonSection ed (lay 2 ed) v2 payload with
        | none => simp [finish]
        | some b2 =>
          simp only [e2, Bool.false_eq_true, if_false]
          rw [tail345 ed hfam cfg hc _ _ (by omega) rfl _ (b0 ++ b1 ++ b2) _ len (by rw [reg_keep _ _ ne2]; exact hR1e)
            (by rw [reg_keep _ _ nl2]; exact hR1l) (by simp only [List.length_append]; omega)]
          cases canonSection ed (lay 3 ed) s3 payload with
          | none => rfl
          | some b3 =>
            cases canonSection ed (lay 4 ed) s4 payload with
            | none => rfl
            | some b4 =>
              cases canonSection ed (lay 5 ed) s5 payload with
              | none => rfl
              | some b5 =>
                simp only [List.append_assoc, htake, hdrop, List.length_append]

end Bufr
